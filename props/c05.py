"""C05 — an abort request stops work promptly and still yields a consistent answer."""
from vlib.pipeline import Case
from vlib import gen
from props import factor_common as fc

PID = "C05"
GEN = ["primality", "sched"]
LEAN = ["Ymq.Props.C05", "Ymq.Props.C05Sched", "Ymq.Props.C04Shape"]
AUDIT = "Ymq.Audit.C05"
THEOREMS = ['Ymq.C05.abort_never_wrong_product', 'Ymq.C05.abort_consistent', 'Ymq.C05.abort_consistent_of_input', 'Ymq.C05.abort_stops', 'Ymq.C05.abort_bounded', 'Ymq.C05.abort_before_start',
            'Ymq.C04Shape.abort_bounded_shape', 'Ymq.C04Shape.source_shapes_ok', 'Ymq.C04Shape.source_mt_poll_first',
            'Ymq.C04Shape.siqs_mt_abort_bounded', 'Ymq.C04Shape.mpqs_mt_abort_bounded', 'Ymq.C04Shape.siqs_st_abort_bounded', 'Ymq.C04Shape.mpqs_st_abort_bounded',
            'Ymq.C04Shape.source_ecm_shape_ok', 'Ymq.C04Shape.ecm_abort_bounded', 'Ymq.C04Shape.ecm_unit_length']
PROFILES = ["release", "chk"]
TIMEOUT = 120.0
LAT_BOUND_MS = 15000
RULE = ("abort predicate flipping at seeded instants: by poll count (0,1,2,3,5,10,50,500) and by elapsed time (0,1,5,20,100,400 ms), "
        "selectors auto/qs/mpqs/siqs/ecm/ecm128/pm1, single and multi-threaded, on 60-150 bit inputs whose run is long enough for "
        "the flip to land before/between/inside stages; checked: returns, no crash, product = n, latency after the first `true` poll "
        f"<= {LAT_BOUND_MS} ms; non-trivial = the predicate was polled at least once; distinct by request line")
MODELLED = ["where siqs() and mpqs() poll the abort predicate inside a work unit is read from the source on every run (translate/sched.py -> "
            "Ymq/Gen/SchedShape.lean); abort_bounded_shape: the predicate may flip after ANY schedule prefix, from then on at most two work "
            "units' worth of actions per worker happen, however many units are left; source_shapes_ok / source_mt_poll_first are the "
            "obligations on the generated data (a poll outside the polynomial loop of every unit, first in the thread-pool branches)",
            "the unit-start polls `done || abort` of the multi-threaded sieves / ECM as `Act.poll` of the protocol model "
            "(Ymq/Model/Sched.lean): abort_bounded = after the predicate answers true each worker performs at most the rest of its "
            "current work unit, for every interleaving", "the abort poll of factor_impl (lib.rs:431) and the aborted-sieve path (empty divisor list => n pushed unsplit) in "
            "Ymq/Model/Factor.lean; the abort predicate is an arbitrary stateful oracle, so every flip instant is covered by the theorem"]
UNMODELLED = ["poll points inside the sieves / ECM (siqs.rs, mpqs.rs, qsieve.rs, ecm.rs) appear in the model only through their result "
              "(empty divisor list / None); wall-clock latency is a runtime behaviour and is measured, not proved",
              "P-1, rho and ECM128 have no poll point: their whole stage is one work unit"]
HYPOTHESES = ['OracleOK', 'SelectorPre']


def cases(tier, rng, extended=False):
    quick = tier == "quick"
    reps = 3 if quick else 12
    if extended:
        reps *= 4
    yield from long_cases(tier, rng)
    yield from scan_cases(tier, rng)
    polls = [0, 1, 2, 3, 5, 10, 50, 500]
    times = [0, 1, 5, 20, 100, 400]
    for _ in range(reps):
        for alg, bitlist in (("siqs", [70, 100, 130]), ("mpqs", [70, 100, 120]), ("qs", [70, 90, 110]),
                             ("auto", [60, 100, 140]), ("ecm", [70, 110]), ("ecm128", [70, 110]), ("pm1", [70, 120])):
            for bits in bitlist:
                shape = rng.choice(["semi", "three"])
                if shape == "semi":
                    fs = [gen.rand_prime(rng, bits // 2), gen.rand_prime(rng, bits - bits // 2)]
                else:
                    fs = [gen.rand_prime(rng, bits // 3), gen.rand_prime(rng, bits // 3), gen.rand_prime(rng, bits - 2 * (bits // 3))]
                n = fc.prod(fs)
                flips = [f"abortpolls={k}" for k in rng.sample(polls, 3 if quick else 5)] + \
                        [f"abortms={t}" for t in rng.sample(times, 2 if quick else 4)]
                for fl in flips:
                    toks = [fl]
                    if rng.random() < 0.4:
                        toks.append(f"threads={rng.choice([2, 4])}")
                    pr = None if rng.random() < 0.25 else ["release"]
                    yield Case(" ".join([f"factor {n} {alg}"] + toks), k=False, tag=f"{bits}b", profiles=pr)


LONG_LAT_BOUND_MS = 5000


def long_cases(tier, rng):
    """inputs whose full run takes minutes: if a poll point disappears or moves the run no longer stops
    (watchdog) or stops late. One work unit (one A value / polynomial block / curve) of these sizes
    takes 0.1-0.9 s in the release profile, so the bound after the first `true` poll is 5 s there."""
    plan = [("siqs", 220, []), ("siqs", 260, []), ("siqs", 240, ["threads=2"]), ("siqs", 280, ["threads=2"]),
            ("siqs", 260, ["threads=4"]), ("mpqs", 220, []), ("mpqs", 230, ["threads=2"]), ("qs", 190, []),
            ("qs", 190, ["threads=2"]), ("auto", 250, []), ("auto", 250, ["threads=2"]), ("ecm", 200, [])]
    for alg, bits, th in plan:
        n = gen.rand_prime(rng, bits // 2) * gen.rand_prime(rng, bits - bits // 2)
        for fl in ("abortms=300", "abortpolls=8", "abortms=1500"):
            if tier == "quick" and fl == "abortms=1500" and th:
                continue
            yield Case(" ".join([f"factor {n} {alg}", fl] + th), k=False, tag=f"long{bits}b", timeout=60,
                       profiles=["release"])
    # the abort request arrives while a COFACTOR is being factored: n = c*P*Q with a prime c of the factor base
    # (above the trial-division bound): the sieve reports c as an unexpected factor at once and factor_impl recurses
    # into P*Q, whose sieve takes minutes; the caller's predicate must still be polled there
    for alg, bits, c, th in [("siqs", 240, 1009, []), ("siqs", 250, 211, ["threads=2"]), ("siqs", 230, 2003, ["threads=4"])]:
        n = c * gen.rand_prime(rng, bits // 2) * gen.rand_prime(rng, bits - bits // 2)
        for fl in ("abortms=1000", "abortms=2500"):
            if tier == "quick" and fl == "abortms=2500":
                continue
            yield Case(" ".join([f"factor {n} {alg}", fl] + th), k=False, tag=f"long-cofactor{bits}b", timeout=60,
                       profiles=["release"])


def scan_cases(tier, rng):
    """EVERY flip instant of a run: the harness counts the polls P of an undisturbed run and then
    flips the predicate at its k-th poll for every k = 0..P (deterministic single-threaded runs;
    with a pool the poll order varies but each k is still tried)"""
    quick = tier == "quick"
    plan = [("siqs", 100, 0), ("siqs", 130, 0), ("siqs", 150, 0), ("siqs", 162, 0), ("siqs", 150, 2),
            ("mpqs", 110, 0), ("mpqs", 140, 0), ("mpqs", 140, 3), ("qs", 90, 0), ("qs", 120, 0), ("qs", 120, 2),
            ("auto", 100, 0), ("auto", 150, 0)]
    if not quick:
        plan += [("siqs", 175, 0), ("siqs", 185, 0), ("siqs", 170, 4), ("mpqs", 165, 0), ("qs", 140, 0),
                 ("auto", 180, 0), ("ecm", 90, 0)]
    for alg, bits, th in plan:
        n = gen.rand_prime(rng, bits // 2) * gen.rand_prime(rng, bits - bits // 2)
        yield Case(f"abort_scan {n} {alg} {th} {300 if quick else 2000}", k=False, tag=f"scan{bits}b", timeout=900,
                   profiles=None if bits <= 130 else ["release"])
    # three (four) prime factors under an explicit sieve selector: the sieve of n leaves a composite cofactor and
    # factor_impl recurses into a second sieve; every flip instant of both sieves, and every abort decision of the
    # recursion must be taken by calling the caller's predicate (kind `foreign` otherwise)
    plan3 = [("siqs", 105, 3, 0), ("mpqs", 105, 3, 0), ("qs", 96, 3, 0), ("siqs", 120, 4, 2)]
    if not quick:
        plan3 += [("siqs", 150, 3, 0), ("mpqs", 135, 3, 2), ("qs", 120, 4, 0), ("siqs", 160, 4, 4)]
    for alg, bits, k, th in plan3:
        n = fc.prod([gen.rand_prime(rng, bits // k) for _ in range(k)])
        yield Case(f"abort_scan {n} {alg} {th} {300 if quick else 2000}", k=False, tag=f"scan{bits}b-{k}primes", timeout=900)


_scan = {"runs": 0, "flip_instants": 0}


def oracle(case, ans):
    if case.op == "abort_scan":
        kv = dict(x.split("=", 1) for x in ans.split()) if "=" in ans else {}
        if not kv:
            return f"scan did not answer ({ans})"
        _scan["runs"] += 1
        _scan["flip_instants"] += int(kv["runs"])
        if kv["bad"] != "-":
            return f"abort at poll index(es) {kv['bad']} of {kv['polls']} did not give a clean, consistent answer"
        if int(kv["maxlat_ms"]) > LAT_BOUND_MS:
            return f"latency {kv['maxlat_ms']} ms after the flip"
        return None
    kind, fs, trace, md = fc.parse_answer(ans)
    n = int(case.args[0])
    if kind not in ("ok", "failure"):
        return f"factor() did not return cleanly after abort: {kind}"
    if md.get("foreign", 0) > 0:
        return (f"{md['foreign']} abort decision(s) of factor_impl were taken without calling the caller's predicate "
                "(a sub-factorization runs with other Preferences: it cannot be aborted)")
    if kind == "ok":
        if fc.prod(fs) != n:
            return f"product of {fs} is not n"
        if fs != sorted(fs) or any(f < 2 for f in fs):
            return "list not sorted or contains 0/1"
    bound = LONG_LAT_BOUND_MS if case.tag.startswith("long") and case.args[1] != "ecm" else LAT_BOUND_MS
    if case.tag.startswith("long-cofactor") and md.get("late", 0) == 0:
        return "the abort request (after 1-2.5 s of a run that takes minutes) was never seen by a poll"
    # a machine whose run queue is longer than its 16 cores stretches every work unit: scale the bound
    try:
        import os
        bound = int(bound * max(1.0, os.getloadavg()[0] / 12.0))
    except OSError:
        pass
    if md.get("late", 0) > 0 and md.get("lat_ms", 0) > bound:
        return f"returned {md['lat_ms']} ms after the abort predicate first answered true (bound {bound} ms)"
    return None


followup = fc.replay_request


def klass(case, ans):
    if case.op == "abort_scan":
        return f"scan/{case.args[1]}/threads={case.args[2]}"
    kind, fs, trace, md = fc.parse_answer(ans)
    flip = [t for t in case.args if t.startswith("abort")][0].split("=")[0]
    fired = "fired" if md.get("late", 0) > 0 else ("polled" if md.get("polls", 0) > 0 else "never-polled")
    comp = ""
    if kind == "ok" and fs:
        comp = "/composite-left" if any(not gen.is_prime(f) for f in fs) else "/complete"
    return f"{case.args[1]}/{flip}/{fired}/{kind}{comp}"


def nontrivial(case, ans):
    if case.op == "abort_scan":
        return True
    return fc.parse_answer(ans)[3].get("polls", 0) > 0


def extra_coverage():
    return {"exhaustive_flip_scans": dict(_scan)}


CLAIM = ("Lean theorem over the control-flow model with the abort predicate an arbitrary stateful oracle: for every flip instant the "
         "result is a list whose product is n or the declared failure, never a panic (all ten selectors); once the predicate answers true at the poll of "
         "factor_impl no sieve or recursion is started. Promptness (wall clock) cannot be a theorem: it is measured on real runs "
         "with seeded flip instants in both profiles. PARTIAL.")
LEVEL_NOTE = ("Trusted: Lean kernel (+3 standard axioms); trace-replay correspondence of the model; the latency half is testing with a "
              "generous bound, labelled as such.")
TECHNIQUE = "Lean 4 proof over all abort behaviours of the control-flow model + seeded flip-instant runs with latency measurement"
