/-
The residue operations used by the driver (`natOps n`) are the operations of `ZMod n`: the
instance of `Hom` that specialises the ring-generic theorems of C10 to what the driver runs.
-/
import Ymq.Lemmas.PolyKaratsuba
import Mathlib.Data.ZMod.Basic

namespace Ymq.PolyMul

/-- the driver's residue operations are those of `ZMod n` -/
theorem natOps_hom (n : Nat) (hn : 0 < n) : Hom (natOps n) (Nat.cast : ℕ → ZMod n) where
  zero := by simp [natOps]
  one := by simp [natOps]
  add a b := by simp [natOps]
  sub a b := by
    simp only [natOps]
    rw [ZMod.natCast_mod, Nat.cast_sub (by have := Nat.mod_lt b hn; omega), Nat.cast_add,
      ZMod.natCast_mod, ZMod.natCast_self]
    ring
  mul a b := by simp [natOps]

end Ymq.PolyMul
