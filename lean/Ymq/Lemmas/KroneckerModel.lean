/-
Lemmas tying the Kronecker model (Ymq/Model/Kronecker.lean) to the finite-sum lemmas: the
packing loop computes the base-`B` value, digits of the exact product word are the digit sums,
the scatter loop adds up the reduced digits per output index, and both arms of
`_convolve_modn` return the cyclic convolution (times `R⁻¹`, Montgomery domain).
-/
import Ymq.Model.Kronecker
import Ymq.Lemmas.KroneckerSum
import Ymq.Lemmas.KroneckerDispatch

namespace Ymq.Kronecker
open Finset Ymq.PolySpec

theorem sumTo_eq (m : Nat) (f : Nat → Nat) : sumTo m f = ∑ i ∈ range m, f i := by
  induction m with
  | zero => simp [sumTo]
  | succ m ih => rw [sumTo, ih, sum_range_succ]

theorem cycCoef_eq (size : Nat) (f g : Nat → Nat) (k : Nat) :
    cycCoef size f g k = cycSum size f g k := by
  unfold cycCoef cycSum; rw [sumTo_eq]

theorem coef_ofFn {m : Nat} (h : Fin m → Nat) (i : Nat) (hi : i < m) :
    coef (Array.ofFn h) i = h ⟨i, hi⟩ := by
  unfold coef
  simp [Array.getD, hi]

theorem coef_ofFn_ge {m : Nat} (h : Fin m → Nat) (i : Nat) (hi : m ≤ i) :
    coef (Array.ofFn h) i = 0 := by
  unfold coef
  simp [Array.getD, Nat.not_lt.2 hi]

theorem coef_ge (p : Array Nat) (i : Nat) (hi : p.size ≤ i) : coef p i = 0 := by
  unfold coef
  simp [Array.getD, Nat.not_lt.2 hi]

theorem writeAt_lt (w off c : Nat) (h : w < W ^ off) : writeAt w off c = w + c * W ^ off := by
  unfold writeAt
  have h2 : w < W ^ (off + 8) := lt_of_lt_of_le h (Nat.pow_le_pow_right (by decide) (by omega))
  rw [Nat.mod_eq_of_lt h, Nat.div_eq_of_lt h2]
  simp

/-- the packing loop for one FFT word computes `Σ_j p[a·A + j]·B^j`, `B = W^stride`, when every
coefficient is `< B` (later `copy_from_slice`s then only overwrite zero words) -/
theorem packWord_eq (stride A : Nat) (p : Array Nat) (a : Nat) (hp : ∀ u, coef p u < W ^ stride) :
    packWord stride A p a = packVal A (W ^ stride) (coef p) a := by
  unfold packWord packVal
  suffices h : ∀ m, (List.range m).foldl
      (fun w j => if a * A + j < p.size then writeAt w (stride * j) (coef p (a * A + j)) else w) 0 =
      ∑ j ∈ range m, coef p (a * A + j) * (W ^ stride) ^ j ∧
      ∑ j ∈ range m, coef p (a * A + j) * (W ^ stride) ^ j < (W ^ stride) ^ m from (h A).1
  intro m
  induction m with
  | zero => simp
  | succ m ih =>
    obtain ⟨e, hlt⟩ := ih
    have hlt' := (digits_of_sum (W ^ stride) (m + 1) (fun j => coef p (a * A + j))
      (fun j _ => hp _)).1
    refine ⟨?_, hlt'⟩
    rw [List.range_succ, List.foldl_append, e, sum_range_succ]
    simp only [List.foldl_cons, List.foldl_nil]
    have hpow : W ^ (stride * m) = (W ^ stride) ^ m := by rw [pow_mul]
    split_ifs with hsz
    · rw [writeAt_lt _ _ _ (by rw [hpow]; exact hlt), hpow]
    · rw [coef_ge p _ (by omega)]; simp

theorem pack_eq (N L A stride : Nat) (p : Array Nat) (h1 : p.size ≤ L * A)
    (h2 : stride * (A - 1) + 8 ≤ N) (hp : ∀ u, coef p u < W ^ stride) :
    ∃ vp, pack N L A stride p = some vp ∧ vp.size = L ∧
      ∀ a < L, coef vp a = packVal A (W ^ stride) (coef p) a := by
  unfold pack
  have c1 : ¬ p.size > L * A := by omega
  have c2 : ¬ (p.size ≠ 0 ∧ stride * (min A p.size - 1) + 8 > N) := by
    rintro ⟨_, h⟩
    have : stride * (min A p.size - 1) ≤ stride * (A - 1) := Nat.mul_le_mul_left _ (by omega)
    omega
  rw [if_neg c1, if_neg c2]
  refine ⟨_, rfl, by simp, ?_⟩
  intro a ha
  rw [coef_ofFn _ a ha]
  exact packWord_eq stride A p a hp

theorem digit_eq (N stride w j : Nat) (h1 : stride * (j + 1) ≤ N) (hw : w < W ^ N) :
    digit N stride w j = some (w / (W ^ stride) ^ j % W ^ stride) := by
  unfold digit
  rw [if_neg (by omega), Nat.mod_eq_of_lt hw, pow_mul]

theorem redcLarge_eq (n k rinv len x : Nat) (h1 : len < 24) (h2 : k ≤ len) (h3 : len ≤ k + 16)
    (h4 : x < n * W ^ k * W ^ k) : redcLarge n k rinv len x = some (x * rinv % n) := by
  unfold redcLarge
  rw [if_neg (by omega)]


theorem coef_set (res : Array Nat) (m x t : Nat) (hm : m < res.size) :
    coef (res.setIfInBounds m x) t = if t = m then x else coef res t := by
  unfold coef
  rw [Array.getD_eq_getD_getElem?, Array.getD_eq_getD_getElem?, Array.getElem?_setIfInBounds]
  by_cases h : m = t
  · subst h; simp [hm]
  · rw [if_neg h, if_neg (Ne.symm h)]

/-- the output index of step `(i, j)` -/
def outIdx (wrap : Bool) (size A : Nat) (ij : Nat × Nat) : Nat :=
  if wrap then (ij.1 * A + ij.2) % size else ij.1 * A + ij.2

/-- sum of the values scattered to index `k` -/
def hits (steps : List (Nat × Nat)) (wrap : Bool) (size A : Nat) (v : Nat × Nat → Nat) (k : Nat) : Nat :=
  (steps.map fun ij => if outIdx wrap size A ij = k then v ij else 0).sum

theorem scatter_fold (wrap : Bool) (n k rinv N size A stride offset : Nat) (vpq : Array Nat)
    (hn : 0 < n) (v : Nat × Nat → Nat) (steps : List (Nat × Nat))
    (hv : ∀ ij ∈ steps, ∃ d, digit N stride (coef vpq ij.1) ij.2 = some d ∧
      redcLarge n k rinv stride d = some (v ij))
    (res : Array Nat) (hres : ∀ t, coef res t < n) :
    ∃ res', steps.foldlM (scatterStep wrap n k rinv N size A stride offset vpq) res = some res' ∧
      res'.size = res.size ∧ (∀ t, coef res' t < n) ∧
      ∀ t < res.size, coef res' t = (coef res t + hits steps wrap size A v (offset + t)) % n := by
  induction steps generalizing res with
  | nil =>
    refine ⟨res, rfl, rfl, hres, ?_⟩
    intro t _
    simp [hits, Nat.mod_eq_of_lt (hres t)]
  | cons ij rest ih =>
    rw [List.foldlM_cons]
    obtain ⟨d, hd, hr⟩ := hv ij (by simp)
    have hv' : ∀ ij ∈ rest, ∃ d, digit N stride (coef vpq ij.1) ij.2 = some d ∧
        redcLarge n k rinv stride d = some (v ij) := fun x hx => hv x (by simp [hx])
    have hidx : (if wrap = true then (ij.1 * A + ij.2) % size else ij.1 * A + ij.2) =
        outIdx wrap size A ij := rfl
    by_cases hwin : offset ≤ outIdx wrap size A ij ∧ outIdx wrap size A ij < offset + res.size
    · set m := outIdx wrap size A ij - offset with hm
      have hmlt : m < res.size := by omega
      set res1 := res.setIfInBounds m ((coef res m + v ij) % n) with hres1
      have hstep : scatterStep wrap n k rinv N size A stride offset vpq res ij = some res1 := by
        unfold scatterStep
        simp only [hidx]
        rw [if_pos hwin, hd]
        simp only [hr]
        rfl
      have hres1' : ∀ t, coef res1 t < n := by
        intro t
        rw [hres1, coef_set _ _ _ _ hmlt]
        split_ifs
        · exact Nat.mod_lt _ hn
        · exact hres t
      obtain ⟨res', h1, h2, h3, h4⟩ := ih hv' res1 hres1'
      have hsz : res1.size = res.size := by rw [hres1, Array.size_setIfInBounds]
      refine ⟨res', ?_, by rw [h2, hsz], h3, ?_⟩
      · simpa [hstep] using h1
      · intro t ht
        rw [h4 t (by rw [hsz]; exact ht), hres1, coef_set _ _ _ _ hmlt]
        simp only [hits, List.map_cons, List.sum_cons]
        by_cases htm : t = m
        · rw [if_pos htm, if_pos (by omega)]
          subst htm
          rw [Nat.add_mod, Nat.mod_mod, ← Nat.add_mod, Nat.add_assoc]
        · rw [if_neg htm, if_neg (by omega), Nat.zero_add]
    · have hstep : scatterStep wrap n k rinv N size A stride offset vpq res ij = some res := by
        unfold scatterStep
        simp only [hidx]
        rw [if_neg hwin]
      obtain ⟨res', h1, h2, h3, h4⟩ := ih hv' res hres
      refine ⟨res', by simpa [hstep] using h1, h2, h3, ?_⟩
      intro t ht
      rw [h4 t ht]
      simp only [hits, List.map_cons, List.sum_cons]
      rw [if_neg (by omega), Nat.zero_add]


theorem list_range_sum (m : Nat) (h : Nat → Nat) :
    ((List.range m).map h).sum = ∑ i ∈ range m, h i := by
  induction m with
  | zero => simp
  | succ m ih => rw [List.range_succ, List.map_append, List.sum_append, ih, sum_range_succ]; simp

theorem flatMap_sum {α β : Type} (l : List α) (f : α → List β) (h : β → Nat) :
    ((l.flatMap f).map h).sum = (l.map fun i => ((f i).map h).sum).sum := by
  induction l with
  | nil => simp
  | cons a l ih => simp [List.flatMap_cons, List.map_append, List.sum_append, ih]

theorem pairs_sum (L J : Nat) (h : Nat × Nat → Nat) :
    ((pairs L J).map h).sum = ∑ i ∈ range L, ∑ j ∈ range J, h (i, j) := by
  unfold pairs
  rw [flatMap_sum, list_range_sum]
  apply Finset.sum_congr rfl
  intro i _
  rw [List.map_map, list_range_sum]
  rfl

theorem hits_pairs (L J : Nat) (wrap : Bool) (size A : Nat) (v : Nat × Nat → Nat) (k : Nat) :
    hits (pairs L J) wrap size A v k =
      ∑ i ∈ range L, ∑ j ∈ range J, if outIdx wrap size A (i, j) = k then v (i, j) else 0 := by
  unfold hits
  rw [pairs_sum]

theorem mem_pairs (L J : Nat) (ij : Nat × Nat) (h : ij ∈ pairs L J) : ij.1 < L ∧ ij.2 < J := by
  unfold pairs at h
  simp only [List.mem_flatMap, List.mem_range, List.mem_map] at h
  obtain ⟨i, hi, j, hj, rfl⟩ := h
  exact ⟨hi, hj⟩


/-- what the model needs of `mulfft`: the exact cyclic product modulo `F` of word vectors below
`2^(64N)` (proved for the word-level model of `mulfft`: `cycFft_exact`) -/
def ExactCyc (N : Nat) (cyc : Array Nat → Array Nat → Option (Array Nat)) : Prop :=
  ∀ x y : Array Nat, x.size = y.size → 0 < x.size → x.size ≤ 256 * N → (∃ m, x.size = 2 ^ m) →
    (∀ i, coef x i < W ^ N) → (∀ i, coef y i < W ^ N) →
    ∃ z, cyc x y = some z ∧ z.size = x.size ∧
      ∀ i < x.size, coef z i = cycCoef x.size (coef x) (coef y) i % (W ^ N + 1)

theorem sum_mul_mod (s : Finset Nat) (c : Nat → Prop) [DecidablePred c] (D : Nat → Nat) (r n : Nat) :
    (∑ x ∈ s, if c x then D x * r % n else 0) % n = (∑ x ∈ s, if c x then D x else 0) * r % n := by
  rw [Finset.sum_mul, Finset.sum_nat_mod, Finset.sum_nat_mod (f := fun x => (if c x then D x else 0) * r)]
  congr 1
  apply Finset.sum_congr rfl
  intro x _
  split_ifs <;> simp

theorem sum2_mul_mod (L J : Nat) (c : Nat → Nat → Prop) [∀ i, DecidablePred (c i)] (D : Nat → Nat → Nat)
    (r n : Nat) :
    (∑ i ∈ range L, ∑ j ∈ range J, if c i j then D i j * r % n else 0) % n =
      (∑ i ∈ range L, ∑ j ∈ range J, if c i j then D i j else 0) * r % n := by
  rw [Finset.sum_mul, Finset.sum_nat_mod,
    Finset.sum_nat_mod (f := fun i => (∑ j ∈ range J, if c i j then D i j else 0) * r)]
  congr 1
  apply Finset.sum_congr rfl
  intro i _
  exact sum_mul_mod (range J) (c i) (D i) r n

/-- the packed arm of `_convolve_modn` (after the fix) over an exact cyclic product -/
theorem convolveModn_packed (cyc : Array Nat → Array Nat → Option (Array Nat))
    (n k rinv N size logpack stride : Nat) (p q : Array Nat) (reslen offset : Nat)
    (hn : 0 < n) (hp : ∀ u, coef p u < n) (hq : ∀ u, coef q u < n)
    (hps : 0 < p.size) (hps2 : p.size ≤ size) (hqs : q.size ≤ size)
    (hst : stride ≠ 0) (hL : 0 < size / 2 ^ logpack) (hsize : size = size / 2 ^ logpack * 2 ^ logpack)
    (hLp : ∃ m, size / 2 ^ logpack = 2 ^ m) (hroots : size / 2 ^ logpack ≤ 256 * N)
    (hdig : size * (n * n) ≤ W ^ stride) (hfit : (2 * 2 ^ logpack - 1) * stride ≤ N)
    (hcopy : stride * (2 ^ logpack - 1) + 8 ≤ N)
    (hs1 : stride < 24) (hs2 : k ≤ stride) (hs3 : stride ≤ k + 16)
    (hsmall : size * n ≤ W ^ k * W ^ k) (hcyc : ExactCyc N cyc) :
    ∃ res, convolveModn true cyc n k rinv N size logpack stride p q reslen offset = some res ∧
      res.size = reslen ∧
      ∀ t < reslen, offset + t < size →
        coef res t = cycCoef size (coef p) (coef q) (offset + t) * rinv % n := by
  set A := 2 ^ logpack with hA
  set L := size / A with hLdef
  set B := W ^ stride with hB
  have hApos : 0 < A := Nat.pow_pos (by decide)
  have hnB : n ≤ B := by
    have : 1 * (n * n) ≤ size * (n * n) := Nat.mul_le_mul_right _ (by rw [hsize]; exact Nat.mul_pos hL hApos)
    have : n ≤ n * n := Nat.le_mul_self n
    omega
  have hpB : ∀ u, coef p u < W ^ stride := fun u => lt_of_lt_of_le (hp u) hnB
  have hqB : ∀ u, coef q u < W ^ stride := fun u => lt_of_lt_of_le (hq u) hnB
  obtain ⟨vp, hvp, hvps, hvpc⟩ := pack_eq N L A stride p (by rw [← hsize]; exact hps2) hcopy hpB
  obtain ⟨vq, hvq, hvqs, hvqc⟩ := pack_eq N L A stride q (by rw [← hsize]; exact hqs) hcopy hqB
  have hBA : (W ^ stride) ^ A ≤ W ^ N := by
    rw [← pow_mul]
    apply Nat.pow_le_pow_right (by decide)
    calc stride * A ≤ stride * (2 * A - 1) := Nat.mul_le_mul_left _ (by omega)
      _ = (2 * A - 1) * stride := Nat.mul_comm _ _
      _ ≤ N := hfit
  have hbound : ∀ (r vr : Array Nat), (∀ u, coef r u < W ^ stride) → vr.size = L →
      (∀ a < L, coef vr a = packVal A (W ^ stride) (coef r) a) → ∀ i, coef vr i < W ^ N := by
    intro r vr hr hs hc i
    by_cases hi : i < L
    · rw [hc i hi]
      unfold packVal
      exact lt_of_lt_of_le (digits_of_sum (W ^ stride) A (fun j => coef r (i * A + j)) (fun j _ => hr _)).1 hBA
    · rw [coef_ge _ _ (by omega)]; exact Nat.pow_pos (by decide)
  obtain ⟨z, hz, hzs, hzc⟩ := hcyc vp vq (by rw [hvps, hvqs]) (by rw [hvps]; exact hL)
    (by rw [hvps]; exact hroots) (by rw [hvps]; exact hLp) (hbound p vp hpB hvps hvpc) (hbound q vq hqB hvqs hvqc)
  rw [hvps] at hzs hzc
  unfold convolveModn
  rw [if_neg (by omega), if_neg hst]
  simp only [← hA, ← hLdef, hvp, hvq, hz, hzs]
  -- the exact product words and their digits
  set f := coef p with hf
  set g := coef q with hg
  have hfg : ∀ u v, f u * g v ≤ (n - 1) * (n - 1) := fun u v =>
    Nat.mul_le_mul (by have := hp u; omega) (by have := hq v; omega)
  have hDle : ∀ i j, digitSum A L f g i j ≤ size * ((n - 1) * (n - 1)) := by
    intro i j
    have := digitSum_le A L ((n - 1) * (n - 1)) f g hfg i j
    rwa [← hsize] at this
  have hsq : (n - 1) * (n - 1) < n * n :=
    calc (n - 1) * (n - 1) ≤ (n - 1) * n := Nat.mul_le_mul_left _ (by omega)
      _ < n * n := Nat.mul_lt_mul_of_pos_right (by omega) hn
  have hsz : 0 < size := by rw [hsize]; exact Nat.mul_pos hL hApos
  have hDB : ∀ i j, digitSum A L f g i j < B :=
    fun i j => lt_of_le_of_lt (hDle i j) (lt_of_lt_of_le (Nat.mul_lt_mul_of_pos_left hsq hsz) hdig)
  have hDR : ∀ i j, digitSum A L f g i j < n * W ^ k * W ^ k := by
    intro i j
    refine lt_of_le_of_lt (hDle i j) ?_
    calc size * ((n - 1) * (n - 1)) < size * (n * n) := Nat.mul_lt_mul_of_pos_left hsq hsz
      _ = n * (size * n) := by ring
      _ ≤ n * (W ^ k * W ^ k) := Nat.mul_le_mul_left _ hsmall
      _ = n * W ^ k * W ^ k := by ring
  have hword : ∀ i < L, coef z i = wordProd A B L f g i ∧ wordProd A B L f g i < W ^ N := by
    intro i hi
    have hlt : wordProd A B L f g i < W ^ N := by
      rw [wordProd_eq_digits]
      have h1 := (digits_of_sum B (2 * A - 1) (fun j => digitSum A L f g i j) (fun j _ => hDB i j)).1
      refine lt_of_lt_of_le h1 ?_
      rw [hB, ← pow_mul]
      exact Nat.pow_le_pow_right (by decide) (by rw [Nat.mul_comm]; exact hfit)
    refine ⟨?_, hlt⟩
    rw [hzc i hi, cycCoef_eq]
    have : cycSum L (coef vp) (coef vq) i = wordProd A B L f g i := by
      unfold cycSum wordProd
      apply Finset.sum_congr rfl
      intro a ha
      rw [hvpc a (by simpa using ha), hvqc _ (Nat.mod_lt _ hL)]
    rw [this, Nat.mod_eq_of_lt (by omega)]
  set v : Nat × Nat → Nat := fun ij => digitSum A L f g ij.1 ij.2 * rinv % n with hv
  have hsteps : ∀ ij ∈ pairs L (2 * A - 1), ∃ d, digit N stride (coef z ij.1) ij.2 = some d ∧
      redcLarge n k rinv stride d = some (v ij) := by
    intro ij hij
    obtain ⟨hi, hj⟩ := mem_pairs _ _ _ hij
    obtain ⟨hw1, hw2⟩ := hword ij.1 hi
    refine ⟨digitSum A L f g ij.1 ij.2, ?_, ?_⟩
    · rw [hw1, digit_eq N stride _ _ ?_ hw2]
      · congr 1
        rw [wordProd_eq_digits]
        exact (digits_of_sum B (2 * A - 1) (fun j => digitSum A L f g ij.1 j) (fun j _ => hDB ij.1 j)).2 _ hj
      · calc stride * (ij.2 + 1) ≤ stride * (2 * A - 1) := Nat.mul_le_mul_left _ (by omega)
          _ = (2 * A - 1) * stride := Nat.mul_comm _ _
          _ ≤ N := hfit
    · exact redcLarge_eq n k rinv stride _ hs1 hs2 hs3 (hDR _ _)
  have hres0 : ∀ t, coef (Array.replicate reslen 0) t < n := by
    intro t
    unfold coef
    rw [Array.getD_eq_getD_getElem?]
    by_cases h : t < reslen
    · simp [h, hn]
    · simp [h, hn]
  obtain ⟨res, h1, h2, _, h4⟩ := scatter_fold true n k rinv N size A stride offset z hn v
    (pairs L (2 * A - 1)) hsteps (Array.replicate reslen 0) hres0
  refine ⟨res, h1, by simpa using h2, ?_⟩
  intro t ht hts
  rw [h4 t (by simpa using ht)]
  have h0 : coef (Array.replicate reslen 0) t = 0 := by
    unfold coef
    rw [Array.getD_eq_getD_getElem?]
    simp [ht]
  rw [h0, Nat.zero_add, hits_pairs]
  have hidx : ∀ i j, outIdx true size A (i, j) = (i * A + j) % (L * A) := by
    intro i j
    unfold outIdx
    simp only [if_true]
    rw [← hsize]
  simp only [hidx, hv]
  rw [sum2_mul_mod L (2 * A - 1) (fun i j => (i * A + j) % (L * A) = offset + t)
    (fun i j => digitSum A L f g i j) rinv n]
  rw [scatter_sum A L hL f g (offset + t) (by rw [← hsize]; exact hts), ← hsize, cycCoef_eq]


theorem coef_push (res : Array Nat) (x t : Nat) :
    coef (res.push x) t = if t = res.size then x else coef res t := by
  unfold coef
  rw [Array.getD_eq_getD_getElem?, Array.getD_eq_getD_getElem?, Array.getElem?_push]
  split_ifs <;> rfl

theorem foldlM_push (m : Nat) (h : Nat → Option Nat) (r : Nat → Nat) (hh : ∀ i < m, h i = some (r i)) :
    ∃ res, (List.range m).foldlM (fun (res : Array Nat) i =>
        match h i with
        | none => none
        | some x => some (res.push x)) #[] = some res ∧ res.size = m ∧ ∀ t < m, coef res t = r t := by
  induction m with
  | zero => exact ⟨#[], rfl, rfl, fun t ht => by omega⟩
  | succ m ih =>
    obtain ⟨res, h1, h2, h3⟩ := ih (fun i hi => hh i (by omega))
    refine ⟨res.push (r m), ?_, by simp [h2], ?_⟩
    · rw [List.range_succ, List.foldlM_append, h1]
      simp [hh m (by omega)]
    · intro t ht
      rw [coef_push, h2]
      split_ifs with htm
      · rw [htm]
      · exact h3 t (by omega)

theorem coef_resize (p : Array Nat) (size u : Nat) (hu : u < size) : coef (resize p size) u = coef p u := by
  unfold resize
  rw [coef_ofFn _ u hu]

theorem cycSum_le (size c : Nat) (f g : Nat → Nat) (hfg : ∀ u v, f u * g v ≤ c) (k : Nat) :
    cycSum size f g k ≤ size * c := by
  unfold cycSum
  calc _ ≤ ∑ _u ∈ range size, c := Finset.sum_le_sum (fun u _ => hfg _ _)
    _ = size * c := by simp

/-- the unpacked arm of `_convolve_modn` (`stride = 0`) over an exact cyclic product -/
theorem convolveModn_unpacked (cyc : Array Nat → Array Nat → Option (Array Nat))
    (n k rinv N size logpack : Nat) (p q : Array Nat) (reslen offset : Nat)
    (hn : 0 < n) (hp : ∀ u, coef p u < n) (hq : ∀ u, coef q u < n)
    (hps : 0 < p.size) (hps2 : p.size ≤ size) (hqs : q.size ≤ size)
    (hN : 16 ≤ N) (hsz : 0 < size) (hLp : ∃ m, size = 2 ^ m) (hroots : size ≤ 256 * N)
    (hdig : size * (n * n) ≤ W ^ 16) (hs2 : k ≤ 16)
    (hsmall : size * n ≤ W ^ k * W ^ k) (hwin : offset + reslen ≤ size) (hcyc : ExactCyc N cyc) :
    ∃ res, convolveModn true cyc n k rinv N size logpack 0 p q reslen offset = some res ∧
      res.size = reslen ∧
      ∀ t < reslen, coef res t = cycCoef size (coef p) (coef q) (offset + t) * rinv % n := by
  have hnW : n ≤ W ^ N := by
    have h1 : 1 * (n * n) ≤ size * (n * n) := Nat.mul_le_mul_right _ hsz
    have h2 : n ≤ n * n := Nat.le_mul_self n
    have h3 : W ^ 16 ≤ W ^ N := Nat.pow_le_pow_right (by decide) hN
    omega
  have hbound : ∀ (r : Array Nat), (∀ u, coef r u < n) → ∀ i, coef (resize r size) i < W ^ N := by
    intro r hr i
    by_cases hi : i < size
    · rw [coef_resize r size i hi]; exact lt_of_lt_of_le (hr i) hnW
    · rw [coef_ge _ _ (by simp [resize]; omega)]; exact Nat.pow_pos (by decide)
  obtain ⟨z, hz, hzs, hzc⟩ := hcyc (resize p size) (resize q size) (by simp [resize]) (by simpa [resize] using hsz)
    (by simpa [resize] using hroots) (by simpa [resize] using hLp) (hbound p hp) (hbound q hq)
  have hrs : (resize p size).size = size := by simp [resize]
  rw [hrs] at hzs hzc
  unfold convolveModn
  rw [if_neg (by omega)]
  simp only [if_true]
  rw [if_neg (by omega), if_neg (by omega), hz]
  simp only
  by_cases hr0 : reslen = 0
  · rw [if_pos hr0]
    exact ⟨#[], rfl, by simp [hr0], fun t ht => by omega⟩
  · rw [if_neg hr0, if_neg (by omega), if_neg (by omega)]
    set f := coef p with hf
    set g := coef q with hg
    have hfg : ∀ u v, f u * g v ≤ (n - 1) * (n - 1) := fun u v =>
      Nat.mul_le_mul (by have := hp u; omega) (by have := hq v; omega)
    have hsq : (n - 1) * (n - 1) < n * n :=
      calc (n - 1) * (n - 1) ≤ (n - 1) * n := Nat.mul_le_mul_left _ (by omega)
        _ < n * n := Nat.mul_lt_mul_of_pos_right (by omega) hn
    have hval : ∀ i < size, coef z i = cycSum size f g i ∧ cycSum size f g i < W ^ 16 ∧
        cycSum size f g i < n * W ^ k * W ^ k := by
      intro i hi
      have hle := cycSum_le size ((n - 1) * (n - 1)) f g hfg i
      have h16 : cycSum size f g i < W ^ 16 :=
        lt_of_le_of_lt hle (lt_of_lt_of_le (Nat.mul_lt_mul_of_pos_left hsq hsz) hdig)
      have hWN : W ^ 16 ≤ W ^ N := Nat.pow_le_pow_right (by decide) hN
      refine ⟨?_, h16, ?_⟩
      · rw [hzc i hi, cycCoef_eq]
        have : cycSum size (coef (resize p size)) (coef (resize q size)) i = cycSum size f g i := by
          unfold cycSum
          apply Finset.sum_congr rfl
          intro u hu
          rw [coef_resize p size u (by simpa using hu), coef_resize q size _ (Nat.mod_lt _ hsz)]
        rw [this, Nat.mod_eq_of_lt (by omega)]
      · refine lt_of_le_of_lt hle ?_
        calc size * ((n - 1) * (n - 1)) < size * (n * n) := Nat.mul_lt_mul_of_pos_left hsq hsz
          _ = n * (size * n) := by ring
          _ ≤ n * (W ^ k * W ^ k) := Nat.mul_le_mul_left _ hsmall
          _ = n * W ^ k * W ^ k := by ring
    obtain ⟨res, h1, h2, h3⟩ := foldlM_push reslen
      (fun i => redcLarge n k rinv 16 (coef z (offset + i) % W ^ N % W ^ 16))
      (fun i => cycSum size f g (offset + i) * rinv % n) (by
        intro i hi
        obtain ⟨e1, e2, e3⟩ := hval (offset + i) (by omega)
        have hWN : W ^ 16 ≤ W ^ N := Nat.pow_le_pow_right (by decide) hN
        rw [e1, Nat.mod_eq_of_lt (lt_of_lt_of_le e2 hWN), Nat.mod_eq_of_lt e2]
        exact redcLarge_eq n k rinv 16 _ (by decide) hs2 (by omega) e3)
    refine ⟨res, h1, h2, ?_⟩
    intro t ht
    rw [h3 t ht, cycCoef_eq]

end Ymq.Kronecker
