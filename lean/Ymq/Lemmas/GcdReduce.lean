/- `reduce64`: inversion lemmas for the loop body, determinant (partial correctness). -/
import Ymq.Lemmas.Gcd
import Mathlib.Tactic.LinearCombination

namespace Ymq.Gcd

def Unimod (a b c d : Int) : Prop := a * d - b * c = 1 ∨ a * d - b * c = -1

theorem Unimod.swap {a b c d : Int} (h : Unimod a b c d) : Unimod c d a b := by
  unfold Unimod at *; rcases h with h | h
  · right; linarith
  · left; linarith

theorem reduce64Exit_some {a b c d : Int} {r} (h : reduce64Exit a b c d = some r) :
    r = (a, b, c, d) ∧ a.natAbs ≤ 2 ^ 36 ∧ b.natAbs ≤ 2 ^ 36 ∧ c.natAbs ≤ 2 ^ 36 ∧ d.natAbs ≤ 2 ^ 36 := by
  unfold reduce64Exit at h
  split at h
  · rename_i hb; simp at h; exact ⟨h.symm, hb⟩
  · simp at h

theorem mulSub64_some {p c a r : Int} (h : mulSub64 p c a = some r) :
    r = p * c - a ∧ -I63 ≤ p * c ∧ p * c < I63 ∧ -I63 ≤ r ∧ r < I63 := by
  unfold mulSub64 at h
  split at h
  · simp at h
  · rename_i t ht
    have h1 := chkI64_some ht
    have h2 := chkI64_some h
    rw [h1.1] at h2
    exact ⟨h2.1, h1.2.1, h1.2.2, by rw [h2.1]; exact h2.2.1, by rw [h2.1]; exact h2.2.2⟩

theorem subMul64_some {a q c r : Int} (h : subMul64 a q c = some r) :
    r = a - q * c ∧ -I63 ≤ q * c ∧ q * c < I63 ∧ -I63 ≤ r ∧ r < I63 := by
  unfold subMul64 at h
  split at h
  · simp at h
  · rename_i t ht
    have h1 := chkI64_some ht
    have h2 := chkI64_some h
    rw [h1.1] at h2
    exact ⟨h2.1, h1.2.1, h1.2.2, by rw [h2.1]; exact h2.2.1, by rw [h2.1]; exact h2.2.2⟩

theorem asI64_small {v : Nat} (h : v < 9223372036854775808) : asI64 v = (v : Int) := by
  unfold asI64; rw [if_pos h]

theorem reduce64Body_cont {x y : Nat} {a b c d : Int} {u v : Nat} {a' b' c' d' : Int} {u' v' : Nat}
    (h : reduce64Body x y a b c d u v = some (.cont a' b' c' d' u' v')) (hu : u < W) (hv : 2 ^ 24 ≤ v) :
    (u < v ∧ a' = c ∧ b' = d ∧ c' = a ∧ d' = b ∧ u' = v ∧ v' = u ∧
      a' * x + b' * y = u' ∧ c' * x + d' * y = v') ∨
    (v ≤ u ∧ a' = c ∧ b' = d ∧ u' = v ∧ a' * x + b' * y = u' ∧ c' * x + d' * y = v' ∧
      bits (u / v + 1) + bits (max c.natAbs d.natAbs) ≤ 36 ∧
      ((u % v > v / 2 ∧ c' = ((u / v : Nat) + 1) * c - a ∧ d' = ((u / v : Nat) + 1) * d - b ∧ v' = v - u % v) ∨
       (u % v ≤ v / 2 ∧ c' = a - (u / v : Nat) * c ∧ d' = b - (u / v : Nat) * d ∧ v' = u % v))) := by
  unfold reduce64Body at h
  split at h
  · rename_i huv
    split at h
    · simp at h
    · rename_i hassert
      simp only [Option.some.injEq, R64Step.cont.injEq] at h
      obtain ⟨rfl, rfl, rfl, rfl, rfl, rfl⟩ := h
      left
      refine ⟨huv, rfl, rfl, rfl, rfl, rfl, rfl, ?_, ?_⟩ <;> omega
  · rename_i huv
    right
    have hq : u / v < 2 ^ 40 := by
      have : u / v ≤ u / 2 ^ 24 := Nat.div_le_div_left hv (by decide)
      have : u / 2 ^ 24 < 2 ^ 40 := by
        rw [Nat.div_lt_iff_lt_mul (by decide)]; unfold W at hu; omega
      omega
    have hqi : asI64 (u / v) = ((u / v : Nat) : Int) := asI64_small (by omega)
    simp only [hqi] at h
    generalize u / v = q at *
    split at h
    · simp at h
    · rename_i q1 hq1
      have hq1' := (chkI64_some hq1).1
      subst hq1'
      split at h
      · simp at h
      · split at h
        · simp at h
        · rename_i hbits
          have hbits' : bits (q + 1) + bits (max c.natAbs d.natAbs) ≤ 36 := by
            have e : (((q : Int) + 1) % (W : Int)).toNat = q + 1 := by
              have hW : (W : Int) = 18446744073709551616 := by simp [W]
              rw [hW, Int.emod_eq_of_lt (by omega) (by omega)]; omega
            rw [e] at hbits; omega
          split at h
          · rename_i hr
            split at h
            · rename_i cn dn hcn hdn
              split at h
              · simp at h
              · rename_i hassert
                simp only [Option.some.injEq, R64Step.cont.injEq] at h
                obtain ⟨rfl, rfl, rfl, rfl, rfl, rfl⟩ := h
                refine ⟨by omega, rfl, rfl, rfl, by omega, by omega, hbits', Or.inl ⟨hr, ?_, ?_, rfl⟩⟩
                · rw [(mulSub64_some hcn).1]
                · rw [(mulSub64_some hdn).1]
            · simp at h
          · rename_i hr
            split at h
            · rename_i cn dn hcn hdn
              split at h
              · simp at h
              · rename_i hassert
                simp only [Option.some.injEq, R64Step.cont.injEq] at h
                obtain ⟨rfl, rfl, rfl, rfl, rfl, rfl⟩ := h
                refine ⟨by omega, rfl, rfl, rfl, by omega, by omega, hbits', Or.inr ⟨by omega, ?_, ?_, rfl⟩⟩
                · rw [(subMul64_some hcn).1]
                · rw [(subMul64_some hdn).1]
            · simp at h

theorem reduce64Body_brk {x y : Nat} {a b c d : Int} {u v : Nat}
    (h : reduce64Body x y a b c d u v = some .brk) (hu : u < W) (hv : 2 ^ 24 ≤ v) :
    v ≤ u ∧ bits (u / v + 1) + bits (max c.natAbs d.natAbs) > 36 := by
  unfold reduce64Body at h
  split at h
  · split at h <;> simp at h
  · rename_i huv
    have hq : u / v < 2 ^ 40 := by
      have : u / v ≤ u / 2 ^ 24 := Nat.div_le_div_left hv (by decide)
      have : u / 2 ^ 24 < 2 ^ 40 := by
        rw [Nat.div_lt_iff_lt_mul (by decide)]; unfold W at hu; omega
      omega
    have hqi : asI64 (u / v) = ((u / v : Nat) : Int) := asI64_small (by omega)
    simp only [hqi] at h
    generalize u / v = q at *
    split at h
    · simp at h
    · rename_i q1 hq1
      have hq1' := (chkI64_some hq1).1
      subst hq1'
      split at h
      · simp at h
      · split at h
        · rename_i hbits
          have e : (((q : Int) + 1) % (W : Int)).toNat = q + 1 := by
            have hW : (W : Int) = 18446744073709551616 := by simp [W]
            rw [hW, Int.emod_eq_of_lt (by omega) (by omega)]; omega
          rw [e] at hbits
          exact ⟨by omega, hbits⟩
        · split at h
          · split at h
            · split at h <;> simp at h
            · simp at h
          · split at h
            · split at h <;> simp at h
            · simp at h

/-- a continuing iteration multiplies the matrix by a unimodular matrix -/
theorem reduce64Body_cont_det {x y : Nat} {a b c d : Int} {u v : Nat} {a' b' c' d' : Int} {u' v' : Nat}
    (h : reduce64Body x y a b c d u v = some (.cont a' b' c' d' u' v')) (hu : u < W) (hv : 2 ^ 24 ≤ v)
    (hdet : Unimod a b c d) : Unimod a' b' c' d' := by
  rcases reduce64Body_cont h hu hv with ⟨_, rfl, rfl, rfl, rfl, _⟩ | ⟨_, rfl, rfl, _, _, _, _, hc⟩
  · exact hdet.swap
  · unfold Unimod at *
    rcases hc with ⟨_, rfl, rfl, _⟩ | ⟨_, rfl, rfl, _⟩
    · rcases hdet with hd | hd
      · left; linear_combination hd
      · right; linear_combination hd
    · rcases hdet with hd | hd
      · right; linear_combination (-1 : Int) * hd
      · left; linear_combination (-1 : Int) * hd

theorem guard_ge {u : Nat} (h : u / 2 ^ 24 > 0) : 2 ^ 24 ≤ u := by
  have := (Nat.div_pos_iff (a := u) (b := 2 ^ 24)).1 h; omega

/-- a continuing iteration keeps `u, v` in `u64` range -/
theorem reduce64Body_cont_lt {x y : Nat} {a b c d : Int} {u v : Nat} {a' b' c' d' : Int} {u' v' : Nat}
    (h : reduce64Body x y a b c d u v = some (.cont a' b' c' d' u' v')) (hu : u < W) (hvW : v < W)
    (hv : 2 ^ 24 ≤ v) : u' < W ∧ v' < W := by
  rcases reduce64Body_cont h hu hv with ⟨_, _, _, _, _, e1, e2, _⟩ | ⟨_, _, _, e1, _, _, _, hc⟩
  · rw [e1, e2]; exact ⟨hvW, hu⟩
  · rw [e1]; refine ⟨hvW, ?_⟩
    have : u % v < v := Nat.mod_lt _ (by omega)
    rcases hc with ⟨_, _, _, e2⟩ | ⟨_, _, _, e2⟩ <;> omega

/-- whatever `reduce64` returns is unimodular -/
theorem reduce64Loop_det (x y : Nat) : ∀ (f : Nat) (a b c d : Int) (u v : Nat) (a' b' c' d' : Int),
    reduce64Loop x y f a b c d u v = some (a', b', c', d') → u < W → v < W →
    Unimod a b c d → Unimod a' b' c' d' := by
  intro f
  induction f with
  | zero => intro a b c d u v a' b' c' d' h; simp [reduce64Loop] at h
  | succ f ih =>
    intro a b c d u v a' b' c' d' h hu hv hdet
    unfold reduce64Loop at h
    split at h
    · rename_i hg
      have hv24 := guard_ge hg.2
      split at h
      · simp at h
      · have := (reduce64Exit_some h).1; simp at this
        obtain ⟨rfl, rfl, rfl, rfl⟩ := this; exact hdet
      · rename_i a1 b1 c1 d1 u1 v1 hb
        have hlt := reduce64Body_cont_lt hb hu hv hv24
        exact ih _ _ _ _ _ _ _ _ _ _ h hlt.1 hlt.2 (reduce64Body_cont_det hb hu hv24 hdet)
    · have := (reduce64Exit_some h).1; simp at this
      obtain ⟨rfl, rfl, rfl, rfl⟩ := this; exact hdet

theorem reduce64_det {x y : Nat} {a b c d : Int} (h : reduce64 x y = some (a, b, c, d))
    (hx : x < W) (hy : y < W) : Unimod a b c d :=
  reduce64Loop_det x y _ _ _ _ _ _ _ _ _ _ _ h hx hy (Or.inl (by ring))

end Ymq.Gcd
