/-
C15 — elliptic-curve arithmetic implements the group law.
Part A: addition chains (models: Ymq/Model/Chain.lean; helper lemmas: Ymq/Lemmas/Chain*.lean).
Part B: curve formulas (translated: Ymq/Gen/Curves.lean; one Lemmas/Curve* module per identity).
Only property theorems live here.
-/
import Ymq.Lemmas.ChainGroup

namespace Ymq.C15
open Ymq.Chain

/-! ## A. addition chains -/

/-- `make_addition_chain` is total on the non-zero 64-bit scalars — including 2^64-1 … 2^64-7 and
the scalars that need 33 opcodes —, never overflows or indexes out of its buffer (the model
returns `none` at every such site), and the chain it returns denotes `k`; it has at most 33
opcodes (= the buffer its callers allocate), every opcode but the last is odd with `|x| ≤ 7` or even
in `[2, 126]`, the last one is odd in `[1, 7]` (`WF 7`). -/
theorem chain_eval (k : Nat) (h0 : 0 < k) (hk : k < 2 ^ 64) :
    ∃ c, makeChain k = some c ∧ evalChain c = (k : Int) ∧ c.length ≤ 33 ∧ WF 7 c := by
  have hcap : 33 ≤ Ymq.Gen.Curves.chainCap := by decide
  have hW : k < W := by rw [W_eq]; exact hk
  unfold makeChain makeChainCap
  generalize Ymq.Gen.Curves.chainCap = cap at hcap
  have hk0 : ¬ (k = 0) := by omega
  simp only [hk0, if_false]
  by_cases hodd : k % 2 = 1
  · obtain ⟨c, h1, h2, h3, h4⟩ := mk64_odd cap 16 (cap + 1) 0 k hodd
      (by have : (8 : Nat) * 16 ^ 16 = 2 ^ 67 := by norm_num
          rw [this]; exact lt_trans hk (by norm_num)) hW (by omega) (by omega)
    exact ⟨c, h1, h2, by omega, h4⟩
  · obtain ⟨t, m, ht1, ht, hm, hmo, hstep⟩ := mk64_even cap cap 0 k h0 hW (by omega) (by omega)
    have hm63 : m < 8 * 16 ^ 15 := by
      have h15 : (8 : Nat) * 16 ^ 15 = 2 ^ 63 := by norm_num
      rw [h15]
      by_contra hc
      have h2t : 2 ≤ 2 ^ t := by
        calc 2 = 2 ^ 1 := by norm_num
          _ ≤ 2 ^ t := Nat.pow_le_pow_right (by norm_num) ht1
      have : 2 * 2 ^ 63 ≤ 2 ^ t * m := Nat.mul_le_mul h2t (by omega)
      have h64 : (2 : Nat) * 2 ^ 63 = 2 ^ 64 := by norm_num
      omega
    have hmW : m < W := by
      have : m ≤ 2 ^ t * m := Nat.le_mul_of_pos_left m (Nat.pow_pos (by decide : 0 < 2))
      omega
    obtain ⟨c, h1, h2, h3, h4⟩ := mk64_odd cap 15 cap 1 m hmo hm63 hmW (by omega) (by omega)
    obtain ⟨hev, hwf⟩ := even_then (m7 := 7) t m c ht1 ht h4 h2
    refine ⟨(2 * (t : Int)) :: c, ?_, ?_, ?_, hwf⟩
    · rw [hstep, h1]; rfl
    · rw [hev, ← hm]
    · simp only [List.length_cons]; omega

/-- non-vacuity / sharpness of the length bound: this scalar takes all 33 opcodes -/
theorem chain_eval_len33_witness :
    (makeChain 10453154975102079249).map List.length = some 33 := by decide

/-- Counter-witness for the buffer of 32 opcodes the pinned tree used ("the chain length is never
more than 32"): with capacity 32 the builder indexes `chain[32]` for k = 0x9111111111111111
(observed on the real code: panic in both profiles; repaired by a `fix:` commit). -/
theorem chain_cap32_witness : makeChainCap 32 10453154975102079249 = none := by decide

example : makeChain (2 ^ 64 - 1) = some [-1, 126, 1] := by decide

section Group
variable {G : Type} [AddCommGroup G]

/-- Any well-formed chain, run by the interpreter loop of `scalar64_chainmul` /
`scalar1024_chainmul` in an additive commutative group (doubling = `x + x`) over a table
`gaps[i] = (2i+1) P`, computes `(evalChain c) P`. -/
theorem chain_interp_spec (gaps : List G) (P : G) (m : Int) (hg : GapsOk gaps P m) (c : List Int)
    (hc : WF m c) :
    runChain id dbl dbl (fun a b => a + b) (fun a b => a - b) gaps c = some (evalChain c • P) :=
  runChain_spec gaps P m hg c hc

/-- `scalar64_chainmul(k, P)` over a group: returns normally and computes `k P` for every 64-bit
scalar (0 included). -/
theorem chainmul_spec (k : Nat) (hk : k < 2 ^ 64) (P : G) :
    scalar64Chainmul (0 : G) id id dbl dbl (fun a b => a + b) (fun a b => a + b) (fun a b => a - b) k P
      = some (k • P) := by
  unfold scalar64Chainmul
  by_cases h0 : k = 0
  · subst h0; simp
  · simp only [h0, if_false]
    obtain ⟨c, h1, h2, _, h4⟩ := chain_eval k (by omega) hk
    have hg := gapsOk_mkGaps P 4
    rw [h1]
    simp only
    rw [runChain_spec _ P _ hg c (by simpa using h4), h2, natCast_zsmul]

/-- `scalar64_mul_dbladd(k, P)` over a group computes `k P`. -/
theorem dbladd_spec (k : Nat) (hk : k < 2 ^ 64) (P : G) :
    scalar64MulDbladd (0 : G) (fun a b => a + b) dbl k P = some (k • P) := by
  unfold scalar64MulDbladd
  have := dblAddLoop_spec P 64 k 0 1 hk
  rw [zero_zsmul, one_zsmul] at this
  rw [this, zero_add, mul_one, natCast_zsmul]

/-- chain multiplication = double-and-add, for every 64-bit scalar -/
theorem chainmul_eq_dbladd (k : Nat) (hk : k < 2 ^ 64) (P : G) :
    scalar64Chainmul (0 : G) id id dbl dbl (fun a b => a + b) (fun a b => a + b) (fun a b => a - b) k P
      = scalar64MulDbladd (0 : G) (fun a b => a + b) dbl k P := by
  rw [chainmul_spec k hk, dbladd_spec k hk]

/-- `ecm128::Curve::scalar64_mul(k, P)` (fused double-add, subtraction through the negated table
entry) computes `k P` for every 64-bit scalar. -/
theorem mul128_spec (k : Nat) (hk : k < 2 ^ 64) (P : G) :
    scalar64Mul128 (0 : G) id id dbl dbl (fun a b => a + b) (fun q g => dbl q + g) (fun g => -g) k P
      = some (k • P) := by
  unfold scalar64Mul128
  by_cases h0 : k = 0
  · subst h0; simp
  · simp only [h0, if_false]
    obtain ⟨c, h1, h2, _, h4⟩ := chain_eval k (by omega) hk
    have hg := gapsOk_mkGaps P 4
    rw [h1]
    simp only
    have hstep : stepOp dbl id (fun q g => dbl q + g) (fun q g => dbl q + -g) (mkGaps (fun a b => a + b) (dbl P) 4 (id P))
        = stepOp dbl dbl (fun a b => a + b) (fun a b => a - b) (mkGaps (fun a b => a + b) (dbl P) 4 (id P)) := by
      funext q op
      simp only [stepOp, id, sub_eq_add_neg]
    unfold runChain
    rw [hstep]
    have := runChain_spec _ P _ hg c (by simpa using h4)
    unfold runChain at this
    rw [this, h2, natCast_zsmul]

/-- Defect witness kept for the record: without the `k == 0` special case (pinned tree) the chain
`[0]` selects `gaps[0]` and the 128-bit routine returned `P` instead of the neutral element
(repaired by a `fix:` commit; no caller passes 0). -/
theorem mul128_zero_witness (P : G) :
    runChain id dbl id (fun q g => dbl q + g) (fun q g => dbl q + -g)
      (mkGaps (fun a b => a + b) (dbl P) 4 (id P)) [0] = some P := by
  simp [runChain, mkGaps, foldOps]

/-- `scalar1024_chainmul(n, P)` over a group computes `n P` whenever the long builder returns a
well-formed chain denoting `n` (see `chain_long_eval*` for when it does). -/
theorem chainmul1024_spec_of_chain (n : Nat) (P : G) (c : List Int) (h1 : makeChainLong n = some c)
    (h2 : WF 63 c) (h3 : evalChain c = (n : Int)) :
    scalar1024Chainmul (0 : G) id id dbl dbl (fun a b => a + b) (fun a b => a + b) (fun a b => a - b) n P
      = some (n • P) := by
  unfold scalar1024Chainmul
  by_cases h0 : n = 0
  · subst h0; simp
  · simp only [h0, if_false]
    have hg := gapsOk_mkGaps P 32
    rw [h1]
    simp only
    rw [runChain_spec _ P _ hg c (by simpa using h2), h3, natCast_zsmul]

example : GapsOk (mkGaps (fun a b => a + b) (dbl (1 : Int)) 4 (id 1)) (1 : Int) 7 := by
  simpa using gapsOk_mkGaps (1 : Int) 4

end Group

end Ymq.C15
