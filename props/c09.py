"""C09 — multiprecision gcd and modular inverse are exact, with valid Bezout cofactors."""
# SIZE AUDIT (quick tier), measured on cases('quick', Random(1)): bit widths of the operands (a, b) per op
#   op                              quick max    thorough max   code supports                      boundary classes reached in quick
#   gcd_ext/gcd_big/gcd_inv_mod/    1012 (N=16)  1012           BUint<N>: 64N bits; proved/supported every PAIR of widths from {0,1,2,31..33,63..65,100,127..129,192,256,
#     gcd_noext  N=16                                           64N-12 = 1012 / 500 / 244          300,448,500,512,576,...,960,988,1000,1012} (same matrix as thorough,
#                N=8                500          500            (oversize 1013..1024 chk only:     fewer shapes per pair); NOT reached before the audit: 64k-1 / 64k+1
#                N=4                244          244            reached, 60 + 150 cases)           for k >= 3 (191, 193, 255, 257, ..., 447, 449, 511, 513, ...: 0..2
#                                                                                                  cases) and the digit counts 5 and 6 altogether (320, 384 bits)
#   gcd_reduce64/top64/mulword      64-bit words 64             u64 words, 2^32 / 2^36 / 2^63      all pairs of {0,1,2,2^24+-1,2^32+-1,2^36,2^63+-1,2^64-2,2^64-1}
#   gcd_dot                         986          986            64N-37 bits                        random widths only (few at boundaries) -> family adds sz = digit
#                                                                                                  count boundaries
#   gcd_zn_inv/gcd_zn_gcd           500          500            ZmodN moduli <= 500 bits (8 words) widths {2,31,63,64,65,127,128,129,192,256,300,448,476,490,500} by
#                                                                                                  rng.choice over 200 draws; 191/193/255/257/320/384/447/449/499: none
# Added: boundary_cases (both tiers, first): every width 64k-1, 64k, 64k+1 up to the supported maximum of each N, against partners of
# the same width, one digit shorter, 64 and 33 bits, shapes rotating over random/fib/hugeq/common/smalltop/pattern; gcd_dot with x of
# exactly 64k-1/64k/64k+1 bits; zn_inv/zn_gcd with moduli of exactly those widths.
import math, os, random, subprocess
from vlib.pipeline import Case, driver_bin

PID = "C09"
GEN = []
LEAN = ["Ymq.Props.C09", "Ymq.Props.C07C09", "Ymq.Props.C09Ext", "Ymq.Props.C07C09Ext"]
AUDIT = "Ymq.Audit.C09"
THEOREMS = ["Ymq.C09.reduce64_inv", "Ymq.C09.step_gcd", "Ymq.C09.gcd_internal_spec", "Ymq.C09.gcd_terminates",
            "Ymq.C09.big_gcd_spec", "Ymq.C09.inv_mod_spec", "Ymq.C09.mulword_no_panic", "Ymq.C09.no_panic",
            "Ymq.C09.no_panic_ext", "Ymq.C09.no_panic_ext_any_width", "Ymq.C09.no_panic_ext_domain_sharp",
            "Ymq.C09.inv_mod_no_panic", "Ymq.C09.zmodn_inv_spec", "Ymq.C09.zmodn_gcd_spec",
            "Ymq.C09.reduce64_first_row", "Ymq.C09.reduce64_row_product", "Ymq.C09.no_panic_ext_wide",
            "Ymq.C09.no_panic_ext_threshold", "Ymq.C09.inv_mod_total", "Ymq.C09.egcd_i64_half", "Ymq.C09.zmodn_inv_spec_wide"]
PROFILES = ["release", "chk"]
TIMEOUT = 20.0
W = 1 << 64

RULE = ("(added) band 64N-10..64N-7 bits, newly inside the proved domain: shapes random / continuant / huge quotient / common factor / "
        "adversarial (one quotient step onto a 90-bit pair whose top words give the largest known reduce64 row product, one "
        "Lehmer step, then the <64-bit exit: cofactor products of 40..57 max(n,p)), oracle-judged in both profiles; "
        "first, in both tiers, a deterministic boundary family: every operand width 64k-1, 64k, 64k+1 up to 1012 / 500 / 244 bits (N = 16 / 8 / 4) "
        "against partners of the same width, one digit shorter, 64 and 33 bits (shapes in rotation), dot_product and ZmodN inv/gcd at the same widths; then "
        "all width pairs from {0,1,2,31..33,63..65,100,127..129,192,256,300,448,500,512,...,1012 bits} x shapes "
        "{random, common factor, multiple, equal, a=0, b=0, Fibonacci-like/continuant (small quotients), huge quotient, "
        "small top word, within 36 bits of the type width, below 64 bits}, N=16 (<=1012 bits), N=8 (<=500 bits), N=4; "
        "each pair is sent to gcd_ext, gcd_big and gcd_inv_mod; word-level ops (reduce64, top64, mulword, dot_product) on "
        "structured words; non-trivial = both operands > 1 (or a word-level op); distinct by request line; klass = op/N:"
        "set of main-loop branches taken by the model (retX, retY, small, fallback, lehmer)")
MODELLED = ["arith_gcd::{reduce64, top64, mulword, dot_product} word-exact (u64/i64/digit arrays, every overflow, index and "
            "debug assertion as a panic site)",
            "arith_gcd::gcd_internal<N,EXT> for N in {4,8,16}, EXT on/off: loop with fuel, BInt<N> cofactor arithmetic with "
            "explicit range checks (the width K of the cofactors is a parameter of the model, the code is K = N), both "
            "fallback branches, the Lehmer step, the <64-bit exit through num_integer::extended_gcd (modelled step by step "
            "on i64)",
            "arith_gcd::{big_gcd, inv_mod}; ZmodN::{inv,gcd} as compositions (driver only)",
            "num_integer::Integer::extended_gcd on i64 (step by step, every i64 overflow a panic site), compared on its own "
            "(gcd_egcd64) and judged for the half-size cofactor bound the cofactor-width proof uses"]
UNMODELLED = ["bnum whole-integer operators (/ % * + - << comparisons, bits, cast_from, Display/FromStr) are modelled as "
              "Nat/Int arithmetic with a range check where bnum panics on overflow",
              "num_integer::Integer::gcd on i64 (binary gcd) is modelled as Nat.gcd",
              "ZmodN::inv's two Montgomery multiplications are modelled as multiplication by R^2 mod n (C07 covers them)"]
HYPOTHESES = []
CLAIM = ("Lean theorems for all inputs about a word-exact model of arith_gcd.rs: reduce64 keeps its linear relations, "
         "determinant +-1 and the 2^36 bound without any overflow (all u64 pairs); a unimodular step preserves the gcd; "
         "whenever gcd_internal returns, d = gcd(n,p) and u*n + v*p = d; an explicit fuel bound (x*y shrinks by 3/4 per "
         "iteration); big_gcd never panics on all of BUint<N> and returns the gcd; for operands below 2^(64N-12) (1012 / "
         "500 / 244 bits: the supported range) gcd_internal<N,true> and inv_mod never panic - no BInt<N> cofactor "
         "operation overflows - and return the gcd with Bezout cofactors resp. the reduced inverse or the non-trivial "
         "gcd (all n, p incl. p = 1, n = 0); a 250-bit pair (64N-6 bits, N = 4) is proved to overflow, so the domain is "
         "nearly sharp; the model is tied to the real code by exact (d,u,v) comparison in both build profiles and every "
         "implementation answer is judged by a Python big-integer oracle (math.gcd, Bezout identity, range of the inverse).")
LEVEL_NOTE = ("Trusted: Lean kernel (+propext, Classical.choice, Quot.sound); correspondence of the hand-written model to "
              "the Rust code is sampled by the differential harness, not proved; bnum operators and num_integer::gcd are "
              "modelled as mathematical functions; Python integers in the oracle. No theorem is partial; the cofactor-width domain "
              "is sharp in bits (proved below 2^(64N-7), a witness of 64N-6 bits overflows).")
TECHNIQUE = "Lean 4 proof about a hand model + differential correspondence check + spec oracle"

WIDTHS16 = [0, 1, 2, 31, 32, 33, 63, 64, 65, 100, 127, 128, 129, 192, 256, 300, 448, 500, 512, 576, 640, 704, 768,
            832, 896, 960, 988, 1000, 1012]
WIDTHS8 = [0, 1, 2, 31, 32, 33, 63, 64, 65, 100, 127, 128, 129, 192, 256, 300, 448, 476, 490, 500]
WIDTHS4 = [0, 1, 2, 31, 32, 33, 63, 64, 65, 100, 127, 128, 129, 192, 219, 230, 244]
SHAPES = ["random", "common", "multiple", "equal", "azero", "bzero", "fib", "hugeq", "smalltop", "pattern", "near"]
MAXBITS = {16: 1012, 8: 500, 4: 244}


def rbits(rng, w):
    """random integer of exactly w bits (w = 0 -> 0)"""
    if w <= 0:
        return 0
    return rng.getrandbits(w) | (1 << (w - 1))


def continuant(rng, w, style):
    """consecutive terms of a continuant sequence with small quotients, about w bits"""
    a, b = rng.choice([(1, 0), (1, 1), (2, 1), (rng.getrandbits(8) + 1, rng.getrandbits(4))])
    g = rng.choice([1, 1, 3, rng.getrandbits(16) | 1])
    i = 0
    while a.bit_length() + g.bit_length() < w:
        if style == 0:
            q = 1
        elif style == 1:
            q = 2
        elif style == 2:
            q = 1 + (i & 1)
        elif style == 3:
            q = rng.choice([1, 1, 1, 2, 2, 3, 4])
        else:
            q = rng.choice([1, 2, 3, 1 << rng.randrange(1, 40), rng.getrandbits(33) + 1])
        a, b = q * a + b, a
        i += 1
    return a * g, b * g


def pattern(rng, w):
    """w-bit integer with structured 64-bit words"""
    if w <= 0:
        return 0
    k = (w + 63) // 64
    style = rng.randrange(5)
    ws = []
    for i in range(k):
        if style == 0:
            x = W - 1
        elif style == 1:
            x = 0
        elif style == 2:
            x = 1 << rng.randrange(64)
        elif style == 3:
            x = rng.choice([0, 1, W - 1, 1 << 63, (1 << 32) - 1, 1 << 32, rng.getrandbits(64)])
        else:
            x = rng.getrandbits(32)
        ws.append(x)
    v = sum(x << (64 * i) for i, x in enumerate(ws))
    v &= (1 << w) - 1
    return v | (1 << (w - 1))


def make_pair(rng, shape, wa, wb, maxbits):
    a, b = rbits(rng, wa), rbits(rng, wb)
    if shape == "common":
        wg = rng.randrange(1, max(2, min(wa, wb) // 2 + 1)) if min(wa, wb) > 1 else 1
        g = rbits(rng, wg)
        a, b = g * rbits(rng, max(wa - wg, 1)), g * rbits(rng, max(wb - wg, 1))
    elif shape == "multiple":
        if wa >= wb:
            a = b * rbits(rng, max(wa - wb, 1))
        else:
            b = a * rbits(rng, max(wb - wa, 1))
    elif shape == "equal":
        b = a
    elif shape == "azero":
        a = 0
    elif shape == "bzero":
        b = 0
    elif shape == "fib":
        a, b = continuant(rng, max(wa, wb), rng.randrange(5))
        if rng.random() < 0.5:
            a, b = b, a
    elif shape == "hugeq":
        small, wide = (b, max(wa, wb, b.bit_length() + 40)) if wb <= wa else (a, max(wa, wb, a.bit_length() + 40))
        wide = min(wide, maxbits)
        q = rbits(rng, max(wide - small.bit_length(), 1))
        r = rng.choice([0, 1, small // 2, small // 2 + 1, max(small - 1, 0), rng.randrange(small) if small else 0])
        big = q * small + r
        a, b = (big, small) if wb <= wa else (small, big)
    elif shape == "smalltop":
        # top word of a (and sometimes b) below 2^32; or b more than 32 bits shorter than a at a's alignment
        ta = 64 * (wa // 64) + rng.randrange(1, 33)
        a = rbits(rng, min(ta, maxbits))
        if rng.random() < 0.5:
            b = rbits(rng, min(64 * (wb // 64) + rng.randrange(1, 33), maxbits))
    elif shape == "pattern":
        a, b = pattern(rng, wa), pattern(rng, wb)
    elif shape == "near":
        # within 36 bits of the type width (still inside the supported range)
        a = rbits(rng, rng.randrange(maxbits - 24, maxbits + 1))
        if rng.random() < 0.3:
            b = rbits(rng, rng.randrange(maxbits - 24, maxbits + 1))
    cap = 1 << maxbits
    if a >= cap:
        a >>= a.bit_length() - maxbits
    if b >= cap:
        b >>= b.bit_length() - maxbits
    return a, b


def pair_cases(N, a, b, tag, full=True):
    yield Case(f"gcd_ext {N} {a} {b}", tag=tag)
    yield Case(f"gcd_big {N} {a} {b}", tag=tag)
    if b != 0:
        yield Case(f"gcd_inv_mod {N} {a} {b}", tag=tag)
    if full and a != 0 and b != 0:
        yield Case(f"gcd_noext {N} {a} {b}", tag=tag)


def word_cases(rng, n):
    """word-level helpers"""
    interesting = [0, 1, 2, (1 << 24) - 1, 1 << 24, (1 << 24) + 1, (1 << 32) - 1, 1 << 32, (1 << 32) + 1,
                   (1 << 36), (1 << 63) - 1, 1 << 63, (1 << 63) + 1, W - 2, W - 1]
    for x in interesting:
        for y in interesting:
            yield Case(f"gcd_reduce64 {x} {y}")
    for i in range(n):
        c = i % 8
        if c == 0:      # the precondition used by gcd_internal: x >= 2^63, x >= y >= 2^32
            x = rng.getrandbits(63) | (1 << 63)
            y = rbits(rng, rng.randrange(33, 65))
            y = min(x, y)
        elif c == 1:    # consecutive continuant terms below 2^64 (longest quotient sequences)
            a, b = continuant(rng, 64, rng.randrange(4))
            while a >= W:
                a, b = b, a % b if b else 0
            x, y = a, b
        elif c == 2:    # huge first quotient
            y = rbits(rng, rng.randrange(25, 40))
            x = rbits(rng, 64)
        elif c == 3:    # nearly equal
            x = rbits(rng, 64)
            y = max(x - rng.getrandbits(rng.randrange(1, 40)), 0)
        elif c == 4:    # arbitrary words (outside the caller's precondition)
            x, y = rng.getrandbits(rng.randrange(1, 65)), rng.getrandbits(rng.randrange(1, 65))
        elif c == 5:    # x < y
            y = rbits(rng, 64)
            x = rbits(rng, rng.randrange(25, 65))
        elif c == 6:    # quotient sequence that drives the matrix to the 2^36 limit quickly
            a, b = continuant(rng, 64, 4)
            while a >= W:
                a, b = b, a % b if b else 0
            x, y = a, b
        else:
            x = rng.choice(interesting)
            y = rng.getrandbits(64)
        yield Case(f"gcd_reduce64 {x} {y}")
    for i in range(n // 4):
        N = rng.choice([4, 8, 16])
        digs = [rng.choice([0, 1, W - 1, rng.getrandbits(64), rng.getrandbits(64)]) for _ in range(N)]
        bits = rng.randrange(64, 64 * N + 1)
        if i % 3 == 0:
            bits = 64 * rng.randrange(1, N + 1)
        yield Case(f"gcd_top64 {','.join(map(str, digs))} {bits}")
        # mulword: operand fits in sz words (the situation in gcd_internal) or arbitrary
        sz = rng.randrange(0, N + 1)
        w = rng.choice([0, 1, rng.getrandbits(36), rng.getrandbits(64), W - 1, 1 << 36])
        if i % 2 == 0:
            digs = [d if j < sz else 0 for j, d in enumerate(digs)]
        yield Case(f"gcd_mulword {N} {w} {sz} {','.join(map(str, digs))}")
        mb = 64 * N - 37
        wx = rng.randrange(1, mb + 1)
        x = rbits(rng, wx)
        y = rng.randrange(x + 1)
        sz = (wx + 63) // 64
        a = rng.choice([0, 1, -1, rng.getrandbits(36), -rng.getrandbits(36), 1 << 36, -(1 << 36)])
        b = rng.choice([0, 1, -1, rng.getrandbits(36), -rng.getrandbits(36), 1 << 36, -(1 << 36)])
        yield Case(f"gcd_dot {N} {sz} {a} {x} {b} {y}")
        if i % 5 == 0:
            yield Case(f"gcd_dot {N} {sz} {a} {x} {-a} {x}")


def zn_cases(rng, n):
    for i in range(n):
        w = rng.choice([2, 31, 63, 64, 65, 127, 128, 129, 192, 256, 300, 448, 476, 490, 500])
        m = rbits(rng, w) | 1
        if m < 3:
            m = 3
        c = i % 5
        if c == 0:
            x = rng.randrange(m)
        elif c == 1:
            g = rbits(rng, max(w // 3, 1)) | 1
            m = g * (rbits(rng, max(w - g.bit_length(), 1)) | 1)
            if m < 3:
                m = 3
            x = g * rng.randrange(1, max(m // g, 2)) % m
        elif c == 2:
            x = rng.choice([0, 1, m - 1, m // 2])
        elif c == 3:
            x = rng.getrandbits(rng.randrange(1, 64)) % m
        else:
            x = rng.randrange(m)
        yield Case(f"gcd_zn_inv {m} {x}")
        yield Case(f"gcd_zn_gcd {m} {x}")


_TRACE = {}


def _load_traces(cases):
    """asks the Lean driver which main-loop branches the model takes (evidence of branch coverage)"""
    lines = []
    for c in cases:
        if c.op in ("gcd_ext", "gcd_big", "gcd_inv_mod", "gcd_noext"):
            N, a, b = c.args
            ext = "1" if c.op in ("gcd_ext", "gcd_inv_mod") else "0"
            lines.append((c.line, f"gcd_trace {N} {ext} {a} {b}"))
    if not lines or not os.path.exists(driver_bin()):
        return
    try:
        p = subprocess.run([driver_bin()], input="\n".join(l for _, l in lines) + "\n", stdout=subprocess.PIPE,
                           text=True, timeout=600)
        out = p.stdout.splitlines()
    except Exception:
        return
    if len(out) != len(lines):
        return
    for (k, _), o in zip(lines, out):
        _TRACE[k] = "+".join(sorted(set(o.split(",")))) if o not in ("?", "-") else o


def _fork(rng, label):
    """own stream for the boundary family: depends on the run's seed, leaves the stream of the older families untouched"""
    return random.Random(f"{label}:{rng.getstate()[1][:4]}")


BOUNDARY_SHAPES = ["random", "fib", "hugeq", "common", "smalltop", "pattern"]


def boundary_widths(N):
    """64k-1, 64k, 64k+1 for every digit count k of BUint<N> inside the supported range, and the end of the range"""
    top = MAXBITS[N]
    ws = [w for k in range(1, N + 1) for w in (64 * k - 1, 64 * k, 64 * k + 1) if w <= top]
    return ws + [top - 1, top]


# reduce64, the tie of the nearest-remainder choice `if r > v / 2` (v odd, r = (v - 1) / 2 = v / 2 exactly: the code keeps r;
# the slip `r >= v / 2` takes v - r = r + 1 instead and returns another matrix, e.g. (1,-3,-2,7) -> (-1,4,-2,7) on the first pair).
# Deterministic: ties at the first step (u = q v + (v-1)/2), just off the tie on both sides, even v with r = v/2, ties at the second step.
REDUCE64_TIE_V = [(1 << 40) + 1, (1 << 25) + 1, (1 << 32) + 1, (1 << 33) + 1, (1 << 36) - 1, (1 << 48) + 1, (1 << 56) - 5, (1 << 62) + 1, (1 << 63) - 1,
                  1099511627777 + 2 * 123456789, 0x9E3779B97F4A7C15 >> 1 | 1, 0x9E3779B97F4A7C15 >> 20 | 1]
REDUCE64_TIE_Q = [1, 2, 3, 4, 5, 7, 8, 255, 256, (1 << 16) - 1, 1 << 16, (1 << 23) + 1, (1 << 30) - 1]


def reduce64_tie_cases():
    seen = set()

    def mk(u, v):
        if 0 <= u < W and 0 <= v < W and (u, v) not in seen:
            seen.add((u, v))
            yield Case(f"gcd_reduce64 {u} {v}", tag="tie")

    yield from mk(3848290697219, 1099511627777)          # reviewer's pair: q = 3, r = 2^39 = (v - 1) / 2
    for v in REDUCE64_TIE_V:
        for q in REDUCE64_TIE_Q:
            u = q * v + (v - 1) // 2
            yield from mk(u, v)
            yield from mk(v, u)                           # swapped first
            if q in (1, 3, 256):
                yield from mk(u + 1, v)                   # r = (v + 1) / 2 > v / 2: the other branch
                yield from mk(u - 1, v)                   # r = (v - 3) / 2
                yield from mk(q * (v + 1) + (v + 1) // 2, v + 1)      # even v, r = v / 2 exactly
        # the tie at the second step: v = q2 r + (r - 1) / 2 with r odd, u = q v + r
        for r in ((1 << 30) + 1, (1 << 26) - 1):
            for q2 in (2, 5, 64):
                vv = q2 * r + (r - 1) // 2
                for q in (1, 2, 9):
                    yield from mk(q * vv + r, vv)


def boundary_cases(rng, tier):
    """deterministic word-boundary classes of the operand widths (both tiers, yielded first)"""
    j = 0
    for N in (16, 8, 4):
        top = MAXBITS[N]
        for wa in boundary_widths(N):
            for wb in sorted({wa, max(wa - 64, 1), 64, 33}):
                sh = BOUNDARY_SHAPES[j % len(BOUNDARY_SHAPES)]
                j += 1
                a, b = make_pair(rng, sh, wa, wb, top)
                if sh in ("random", "pattern"):
                    assert a.bit_length() == wa and b.bit_length() == wb
                if j % 2:
                    a, b = b, a
                yield from pair_cases(N, a, b, "edge-" + sh, full=(j % 3 == 0))
            # both operands of exactly wa bits, random: the plain class for every width
            a, b = rbits(rng, wa), rbits(rng, wa)
            yield from pair_cases(N, a, b, "edge-random", full=True)
    # dot_product: x of exactly 64k-1, 64k, 64k+1 bits (sz = its digit count), multipliers at the 2^36 limit
    for N in (16, 8, 4):
        mb = 64 * N - 37
        for wx in [w for w in boundary_widths(N) if w <= mb] + [mb]:
            x = rbits(rng, wx)
            y = rng.choice([x, x - 1, rng.randrange(x + 1)])
            sz = (wx + 63) // 64
            a = rng.choice([1 << 36, -(1 << 36), rng.getrandbits(36), -rng.getrandbits(36)])
            b = rng.choice([1 << 36, -(1 << 36), rng.getrandbits(36), -rng.getrandbits(36)])
            yield Case(f"gcd_dot {N} {sz} {a} {x} {b} {y}")
    yield from reduce64_tie_cases()
    # ZmodN::inv / gcd: moduli of exactly these widths
    for w in boundary_widths(8):
        for rep in range(2):
            m = rbits(rng, w) | 1
            x = rng.randrange(m) if rep else m - 1 - rng.getrandbits(8)
            yield Case(f"gcd_zn_inv {m} {x}")
            yield Case(f"gcd_zn_gcd {m} {x}")


# (xtop, ytop) pairs whose reduce64 matrix has the largest product of row sizes found by a directed search
# (|b| ~ 2^34, |d| ~ 0.9 * 2^36, xtop ~ 2^63): a Lehmer step on x = xtop * 2^k + xl, y = ytop * 2^k + yl followed at
# once by the <64-bit exit makes cofactor products of 40..57 * max(n, p) (the largest ratio seen anywhere)
ADV_TOPS = [(9252754402567472798, 744673999053474881), (9273912679608153931, 3634834319764140802),
            (9297038535131977817, 679360628938901656), (9286949640781810774, 1662010808351620318),
            (9228938283933250428, 1428778142749257600), (9278449843213156201, 694746088240793395),
            (9232921585157550786, 1254578532238157593), (9242132715442936519, 1202055992802453339)]
WIDEBITS = {16: 1017, 8: 505, 4: 249}      # proved domain of no_panic_ext_wide / inv_mod_total: 64N - 7 bits (sharp)


def adversarial_pair(rng, tw):
    """operands of tw bits: one quotient step down to a ~90-bit pair built on ADV_TOPS, one Lehmer step, <64-bit exit"""
    xt, yt = rng.choice(ADV_TOPS)
    K = 1 << rng.choice([26, 26, 25, 24])
    lo = lambda: rng.choice([0, K - 1, rng.randrange(K), K - 1 - rng.getrandbits(10), rng.getrandbits(10)])
    x, y = xt * K + lo(), yt * K + lo()
    qb = tw - x.bit_length()
    q = (1 << qb) - 1 - rng.getrandbits(qb - 8)
    n = q * x + y
    if n.bit_length() > tw:
        n = (q >> 1) * x + y
    return n, x


def wide_cases(rng, tier):
    """the band 64N-10 .. 64N-7 bits, added to the proved domain by no_panic_ext_wide: judged by the oracle in BOTH
    profiles (a panic of the checked profile is a violation); shapes random / continuant / huge quotient / common
    factor / adversarial (largest known cofactor products)"""
    reps = 10 if tier == "quick" else 60
    for N in (4, 8, 16):
        top = WIDEBITS[N]
        for i in range(reps):
            for tw in range(top - 3, top + 1):
                sh = ["adv", "random", "fib", "hugeq", "adv", "common"][(i + tw) % 6]
                if sh == "adv":
                    a, b = adversarial_pair(rng, tw)
                else:
                    a, b = make_pair(rng, sh, tw, tw if i % 2 else rng.choice([tw, tw - 1, 200, 90]), tw)
                    if sh in ("random", "common"):
                        a |= 1 << (tw - 1)
                if (i + tw) % 3 == 0:
                    a, b = b, a
                yield from pair_cases(N, a, b, "wide-" + sh, full=False)
    # ZmodN::inv / gcd with moduli of 501..505 bits (zmodn_inv_spec_wide): inv_mod::<8> on its sharp domain
    for i in range(reps * 3):
        w = 501 + i % 5
        m = rbits(rng, w) | 1
        if i % 3 == 1:
            g = rbits(rng, 40) | 1
            m = g * (rbits(rng, w - 40) | 1)
            x = g * rng.randrange(1, m // g) % m
        elif i % 3 == 2:
            m, x = adversarial_pair(rng, w)
            m |= 1
            x %= m
        else:
            x = rng.randrange(m)
        if m.bit_length() > 505:
            continue
        yield Case(f"gcd_zn_inv {m} {x}", tag="wide-zn")
        yield Case(f"gcd_zn_gcd {m} {x}", tag="wide-zn")


def egcd_cases(rng, n):
    """num_integer's extended_gcd on i64 (the <64-bit exit): the caller's domain 0 <= y <= x < 2^63 (also x < y, zeros),
    consecutive continuants (longest quotient sequences, cofactors of extreme size), last quotient 2, equal operands,
    multiples; negative / extreme operands only against the model in the checked profile"""
    top = (1 << 63) - 1
    edge = [0, 1, 2, 3, (1 << 31) - 1, 1 << 31, (1 << 32) + 1, (1 << 62), top - 1, top]
    for x in edge:
        for y in edge:
            yield Case(f"gcd_egcd64 {x} {y}")
    for i in range(n):
        c = i % 6
        if c == 0:
            x, y = rng.getrandbits(63), rng.getrandbits(rng.randrange(1, 64))
        elif c == 1:
            a, b = continuant(rng, 63, rng.randrange(5))
            while a > top:
                a, b = b, a % b if b else 0
            x, y = a, b
        elif c == 2:    # last quotient exactly 2: |ey| = (x/g - p)/2 is as large as it can be
            g = rng.choice([1, 1, 3, rng.getrandbits(10) + 1])
            b = rng.getrandbits(rng.randrange(1, 30)) + 1
            a = 2 * b + rng.choice([0, 1])
            while a * g * 3 < top and rng.random() < 0.9:
                a, b = rng.choice([1, 1, 2, 3, rng.getrandbits(6) + 1]) * a + b, a
            x, y = a * g, b * g
        elif c == 3:
            x = rng.getrandbits(rng.randrange(1, 64))
            y = x
        elif c == 4:
            y = rng.getrandbits(rng.randrange(1, 32)) + 1
            x = y * rng.randrange(1, max(2, top // y))
        else:
            x, y = rng.getrandbits(rng.randrange(1, 64)), rng.getrandbits(63)
        if x > top or y > top:
            continue
        yield Case(f"gcd_egcd64 {x} {y}")
    lo = -(1 << 63)
    for x in (lo, lo + 1, -1, -5, 7, top):
        for y in (lo, lo + 1, -1, -3, 0, 12, top):
            if x < 0 or y < 0:
                yield Case(f"gcd_egcd64 {x} {y}", o=False, profiles=["chk"], tag="egcd-neg")


def cases(tier, rng, extended=False):
    out = list(boundary_cases(_fork(rng, "C09-boundary"), tier))
    out.extend(wide_cases(_fork(rng, "C09-wide"), tier))
    quick = tier == "quick"
    reps = 1 if quick else 6
    if extended:
        reps *= 4
    for N, widths in ((16, WIDTHS16), (8, WIDTHS8), (4, WIDTHS4)):
        k = 0
        for rep in range(reps):
            for wa in widths:
                for wb in widths:
                    # quick: 4 shapes per width pair in rotation (every shape meets every width many times,
                    # about 5800 operand pairs in total); thorough: every shape for every width pair, several draws
                    shapes = [SHAPES[(k + j * 3) % len(SHAPES)] for j in range(4)] if quick and not extended else SHAPES
                    if quick and N == 4:
                        shapes = shapes[:2]
                    k += 1
                    for sh in shapes:
                        a, b = make_pair(rng, sh, wa, wb, MAXBITS[N])
                        out.extend(pair_cases(N, a, b, sh, full=(k % 4 == 0)))
    # below 64 bits: the i64 extended gcd exit
    for i in range(300 * reps):
        wa, wb = rng.randrange(1, 64), rng.randrange(1, 64)
        sh = rng.choice(["random", "common", "fib", "equal", "multiple"])
        a, b = make_pair(rng, sh, wa, wb, 63)
        out.extend(pair_cases(rng.choice([4, 8, 16]), a, b, "small64"))
    out.extend(word_cases(rng, 2500 * reps))
    out.extend(egcd_cases(_fork(rng, "C09-egcd"), 1500 * reps))
    out.extend(zn_cases(rng, 200 * reps))
    # operands wider than the supported range (N*64-12 bits and above): the cofactor arithmetic may overflow;
    # only the checked profile has a defined answer (panic or a value), compared with the model, no oracle
    for i in range(60 * reps):
        N = rng.choice([8, 16])
        wa = rng.randrange(MAXBITS[N] + 1, 64 * N + 1)
        wb = rng.choice([1, 2, 33, 64, 100, wa, rng.randrange(1, wa + 1)])
        a, b = rbits(rng, wa), rbits(rng, wb)
        if i % 2:
            a, b = b, a
        out.append(Case(f"gcd_ext {N} {a} {b}", o=False, profiles=["chk"], tag="oversize"))
        out.append(Case(f"gcd_big {N} {a} {b}", tag="oversize"))
    # right at the boundary of the proved domain of no_panic_ext (64N-12 bits): both operands of exactly that width must
    # pass in both profiles; the next widths (64N-11 .. 64N-6) are outside the proved domain: checked profile compared
    # with the model only (a 250-bit pair for N = 4 is known to overflow, see corpus)
    for i in range(150 * reps):
        N = rng.choice([4, 8, 16])
        W0 = MAXBITS[N]
        sh = rng.choice(["random", "fib", "common", "hugeq", "pattern"])
        a, b = make_pair(rng, sh, W0, W0, W0)
        a |= 1 << (W0 - 1)
        if sh != "hugeq":
            b |= 1 << (W0 - 1)
        out.extend(pair_cases(N, a, b, "boundary", full=False))
        w1 = W0 + rng.randrange(6, 10)      # 64N-6 .. 64N-3 bits: above the proved (and sharp) domain 64N-7
        a, b = rbits(rng, w1), rbits(rng, rng.choice([w1, w1, rng.randrange(w1 - 40, w1 + 1)]))
        if i % 2:
            a, b = b, a
        out.append(Case(f"gcd_ext {N} {a} {b}", o=False, profiles=["chk"], tag="above-domain"))
    _load_traces(out)
    return out


def corpus_case(line):
    # "@chk <request>": outside the supported range, only the checked profile is compared with the model
    if line.startswith("@chk "):
        c = Case(line[5:], o=False, profiles=["chk"], tag="oversize")
    else:
        c = Case(line)
    _load_traces([c])
    return c


def _ints(xs):
    return [int(x) for x in xs]


def oracle(case, ans):
    op, a = case.op, case.args
    t = ans.split()
    if op == "gcd_mulword" and ans == "panic":
        # outside the situation of gcd_internal (operand fits in sz words, product fits in N words) the index
        # `nd[sz]` may be out of range: not part of the property, compared with the model only
        N, w, sz = _ints(a[:3])
        val = sum(d << (64 * i) for i, d in enumerate(_ints(a[3].split(","))))
        if not (sz <= N and val < (1 << (64 * sz)) and w * val < (1 << (64 * N))):
            return None
    if ans in ("panic", "hang", "abort", "?") or not t:
        return f"no value returned ({ans})"
    try:
        if op == "gcd_big":
            _, x, y = _ints(a)
            return None if int(ans) == math.gcd(x, y) else "result is not gcd(a,b)"
        if op in ("gcd_ext", "gcd_noext"):
            _, x, y = _ints(a)
            d, u, v = _ints(t)
            if d != math.gcd(x, y):
                return "d is not gcd(a,b)"
            if op == "gcd_ext" and u * x + v * y != d:
                return "u*a + v*b != d"
            if op == "gcd_ext" and max(x, y) < 1 << (64 * int(a[0]) - 7) and max(abs(u), abs(v)) > 64 * max(x, y) + 1:
                return "cofactor above 64*max(a,b)+1 (no_panic_ext_wide)"
            return None
        if op == "gcd_inv_mod":
            _, n, p = _ints(a)
            g = math.gcd(n, p)
            if t[0] == "ok":
                x = int(t[1])
                if g != 1:
                    return "Ok returned but gcd(n,p) != 1"
                if not (0 <= x < p):
                    return "inverse not in [0,p)"
                return None if (n * x - 1) % p == 0 else "n*x != 1 mod p"
            d = int(t[1])
            if g == 1:
                return "Err returned although gcd(n,p) = 1"
            return None if d == g else "Err(d) with d != gcd(n,p)"
        if op == "gcd_reduce64":
            x, y = _ints(a)
            aa, bb, cc, dd = _ints(t)
            u, v = aa * x + bb * y, cc * x + dd * y
            if aa * dd - bb * cc not in (1, -1):
                return "det != +-1"
            if max(abs(aa), abs(bb), abs(cc), abs(dd)) > 1 << 36:
                return "matrix entry above 2^36"
            if not (0 <= u < W and 0 <= v < W):
                return "reduced vector not in u64 range"
            if max(u, v) > max(x, y):
                return "reduced vector larger than the input"
            return None
        if op == "gcd_egcd64":
            x, y = _ints(a)
            g, ex, ey = _ints(t)
            if g != math.gcd(x, y):
                return "g is not gcd(x,y)"
            if ex * x + ey * y != g:
                return "ex*x + ey*y != g"
            if 0 < y <= x:      # the situation of gcd_internal: half-size cofactors (egcdI64_total2)
                if 2 * abs(ex) > y:
                    return "2|ex| > y"
                if not (2 * abs(ey) <= x or (x == y and abs(ey) <= 1)):
                    return "2|ey| > x"
            return None
        if op == "gcd_top64":
            digs = _ints(a[0].split(","))
            bits = int(a[1])
            val = sum(d << (64 * i) for i, d in enumerate(digs))
            return None if int(ans) == (val >> (bits - 64)) & (W - 1) else "not bits [bits-64, bits)"
        if op == "gcd_mulword":
            N, w, sz = _ints(a[:3])
            digs = _ints(a[3].split(","))
            val = sum(d << (64 * i) for i, d in enumerate(digs))
            res = sum(d << (64 * i) for i, d in enumerate(_ints(ans.split(","))))
            if val < (1 << (64 * sz)) and w * val < (1 << (64 * N)):
                return None if res == w * val else "not w*n"
            return None
        if op == "gcd_dot":
            N, sz, ca, x, cb, y = _ints(a)
            s = ca * x + cb * y
            r, neg = int(t[0]), t[1] == "true"
            if r != abs(s):
                return "not |a x + b y|"
            return None if s == 0 or neg == (s < 0) else "wrong sign flag"
        if op == "gcd_zn_gcd":
            n, x = _ints(a)
            return None if int(ans) == math.gcd(n, x) else "not gcd(n, x)"
        if op == "gcd_zn_inv":
            n, x = _ints(a)
            k = (n.bit_length() + 63) // 64
            R = 1 << (64 * k)
            if t[0] == "none":
                return None if math.gcd(n, x) != 1 else "None although x is invertible"
            m = int(t[1])
            if math.gcd(n, x) != 1:
                return "Some although x is not invertible"
            return None if m < n and (m * x - R * R) % n == 0 else "m*x != R^2 mod n or m >= n"
    except (ValueError, IndexError):
        return f"malformed answer ({ans[:60]})"
    return "unknown op"


def klass(case, ans):
    op = case.op
    if op in ("gcd_ext", "gcd_big", "gcd_inv_mod", "gcd_noext"):
        tr = _TRACE.get(case.line, "untraced")
        extra = ""
        if ans == "panic":
            extra = "/panic"
        elif op == "gcd_inv_mod":
            extra = "/" + ans.split()[0]
        return f"{op}/N{case.args[0]}:{tr}{extra}"
    if op == "gcd_reduce64":
        x, y = _ints(case.args)
        pre = "pre" if x >= 1 << 63 and x >= y >= 1 << 32 else "nopre"
        t = ans.split()
        if len(t) == 4:
            m = max(abs(int(z)) for z in t)
            size = "id" if t == ["1", "0", "0", "1"] else ("big" if m >= 1 << 30 else "mid" if m >= 1 << 16 else "small")
            return f"{op}/{pre}/{size}"
        return f"{op}/{pre}/{ans}"
    if op == "gcd_egcd64":
        x, y = _ints(case.args)
        t = ans.split()
        if len(t) != 3:
            return f"{op}/{ans}"
        dom = "neg" if x < 0 or y < 0 else "zero" if x == 0 or y == 0 else "x<y" if x < y else "x=y" if x == y else "dom"
        ey = abs(int(t[2]))
        tight = "/half" if dom == "dom" and 5 * ey >= 2 * x else ""
        return f"{op}/{dom}{tight}"
    if op in ("gcd_mulword", "gcd_top64", "gcd_dot"):
        return op + ("/panic" if ans == "panic" else "")
    if op == "gcd_zn_inv":
        return op + "/" + ans.split()[0]
    return op


def nontrivial(case, ans):
    if case.op in ("gcd_ext", "gcd_big", "gcd_inv_mod", "gcd_noext"):
        return all(int(x) > 1 for x in case.args[1:])
    return True


def finding_key(case, ans, profile):
    if case.op == "gcd_inv_mod" and case.args[1] == "0" and case.args[2] == "1":
        return "inv_mod:n=0,p=1"
    return None
