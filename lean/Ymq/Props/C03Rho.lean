/-
C03 / C01 — the rho stage inside the model: `pollard_rho::rho` (what lib.rs:270 and lib.rs:437 call)
and `pollard_rho::rho_semiprime` (what fbase.rs:486 calls), modelled line by line in
Ymq/Model/PollardRho.lean on top of the word-exact `rho64` of C16 (Ymq/Model/ExpModn.lean).

Only property theorems live here (lemmas: Ymq/Lemmas/PollardRho.lean). Outer `none` of the models =
the real function does not return normally (overflow of `x2 += c`, a panic site of `mg_redc`, the
`debug_assert!(pow2k & (pow2k - 1) == 0)`, or `mg_2adic_inv` looping on an even modulus).

* no panic: `rho64_no_panic` (odd `3 ≤ n ≤ 2^64 - 17`, `c ≤ 9`, ANY budget), `rho_no_panic`,
  `rho_semiprime_no_panic`; at the call sites of lib.rs: `rho_no_panic_call_site` (the argument has
  no prime factor `≤ 199` — `trial_divided_noSmall` and the recursion of Lemmas/FactorClosed2.lean —
  hence is odd, `≥ 211`, and, `noSmall_below_top`, not one of the eight odd words above `2^64 - 17`);
* results: `rho_proper` (a single proper factor in front), `rho_uses_rho64`, `rho_large_none`
  (multiword arguments are refused before any arithmetic), `rho_prime_none` (primes: all nine
  polynomials run their whole budget and the answer is `None`), `rho_prime_square` (`p²`: the only
  possible answer is `([p], p)`), `rho_semiprime_proper`.
NOT proved (heuristic, not true in general): that a composite is split (`rho_fail_search` of the
harness lists semiprimes on which all nine polynomials fail).
-/
import Ymq.Lemmas.PollardRho
import Ymq.Lemmas.FactorClosed2
import Mathlib.Data.Nat.Prime.Basic

namespace Ymq.C03Rho
open Ymq.PollardRho Ymq.ExpModn Ymq.Mg64
open Ymq.Factor (NoSmall)

/-- **`rho64` never panics** on an odd modulus `3 ≤ n ≤ 2^64 - 17` with an increment `c ≤ 9`, for
every iteration budget: `mg_2adic_inv` terminates, no `mg_mul` leaves the domain of `mg_redc`
although `x2` is not reduced after `x2 += c`, `x2 += c` does not overflow, the `debug_assert` on
`pow2k` holds at every interval end. -/
theorem rho64_no_panic (n c iters : Nat) (hodd : n % 2 = 1) (hn : 3 ≤ n) (htop : n + 17 ≤ W)
    (hc : c ≤ 9) : ∃ r, rho64 n c iters = some r :=
  rho64_total hodd hn htop hc

example : rho64 8051 1 128 = some (some (97, 83)) := by decide +kernel

/-- **`rho` never panics** on an odd `n ≥ 3` that is multiword or at most `2^64 - 17`. -/
theorem rho_no_panic (n : Nat) (hodd : n % 2 = 1) (hn : 3 ≤ n) (htop : bits n ≤ 64 → n + 17 ≤ W) :
    ∃ r, rho n = some r :=
  rho_total hodd hn htop

example : rho 8051 = some (some ([97], 83)) := by decide +kernel

/-- the eight odd words above `2^64 - 17` all have a prime factor `≤ 53` -/
theorem noSmall_below_top (n : Nat) (hns : NoSmall n) (hlt : n < W) : n + 17 ≤ W := by
  by_contra hcon
  have key : ∀ k, k < 17 → 1 ≤ k → ∃ p ∈ Ymq.Gen.Primality.smallPrimes, p ∣ W - k := by
    decide +kernel
  obtain ⟨p, hp, hd⟩ := key (W - n) (by omega) (by omega)
  have : W - (W - n) = n := by omega
  rw [this] at hd
  exact hns p hp hd

example : NoSmall 44521 ∧ 44521 < W := ⟨by unfold NoSmall; decide +kernel, by decide⟩

/-- **no panic at the call sites of lib.rs**: every argument `factor_impl` hands to `rho` is the
trial-divided value or a divisor of it, i.e. has no prime factor `≤ 199` (and is not 1: tested first) -/
theorem rho_no_panic_call_site (n : Nat) (hns : NoSmall n) (h1 : n ≠ 1) : ∃ r, rho n = some r := by
  have hge := hns.ge h1
  have hodd : n % 2 = 1 := by
    have h2 := hns 2 (by decide)
    rcases Nat.mod_two_eq_zero_or_one n with h | h
    · exact absurd (Nat.dvd_of_mod_eq_zero h) h2
    · exact h
  exact rho_total hodd (by omega) (fun hb => noSmall_below_top n hns (lt_W_of_bits hb))

example : ∃ r, rho 44521 = some r := rho_no_panic_call_site 44521 (by unfold NoSmall; decide +kernel) (by decide)

/-- **`rho` returns a proper split**: one factor `1 < a < n` in front, cofactor `b > 1`, `a·b = n`. -/
theorem rho_proper (n : Nat) (as : List Nat) (b : Nat) (h : rho n = some (some (as, b))) :
    ∃ a, as = [a] ∧ a * b = n ∧ 1 < a ∧ a < n ∧ 1 < b := by
  obtain ⟨_, c, _, iters, a, _, h64, has⟩ := rho_some h
  exact ⟨a, has, Ymq.C16.rho64_proper h64⟩

/-- a success of `rho` is the success of `rho64(n, c, iters)` for the budget of the size class and
some `c ∈ 1..10` (this is the predicate `UsesRho64` of the closed factor theorems) -/
theorem rho_uses_rho64 (n : Nat) (as : List Nat) (b : Nat) (h : rho n = some (some (as, b))) :
    ∃ c iters a, rho64 n c iters = some (some (a, b)) ∧ as = [a] ∧ 1 ≤ c ∧ c ≤ 9 ∧
      rhoIters (bits n) = some iters := by
  obtain ⟨_, c, hc, iters, a, hit, h64, has⟩ := rho_some h
  have : 1 ≤ c ∧ c ≤ 9 := (by decide : ∀ c ∈ rhoCs, 1 ≤ c ∧ c ≤ 9) c hc
  exact ⟨c, iters, a, h64, has, this.1, this.2, hit⟩

/-- multiword arguments are refused (`_ => return None`) before any arithmetic, whatever `n` is -/
theorem rho_large_none (n : Nat) (h : 64 < bits n) : rho n = some none := by
  unfold rho
  simp only [rhoIters_none h]

example : 64 < bits (2 ^ 64) := by decide +kernel

/-- **primes**: `rho` answers `None` (after running all nine polynomials for the whole budget) -/
theorem rho_prime_none (n : Nat) (hp : n.Prime) (hn : 3 ≤ n) (htop : bits n ≤ 64 → n + 17 ≤ W) :
    rho n = some none := by
  have hodd : n % 2 = 1 := by
    rcases hp.eq_two_or_odd with h | h
    · omega
    · exact h
  obtain ⟨r, hr⟩ := rho_total hodd hn htop
  cases r with
  | none => exact hr
  | some ab =>
    obtain ⟨as, b⟩ := ab
    obtain ⟨a, _, hab, ha1, han, _⟩ := rho_proper n as b hr
    have hd : a ∣ n := ⟨b, hab.symm⟩
    rcases (Nat.dvd_prime hp).mp hd with h | h <;> omega

example : rho 211 = some none := by decide +kernel

/-- **prime squares**: the only split `rho` can return for `p²` is `([p], p)` -/
theorem rho_prime_square (p : Nat) (hp : p.Prime) (as : List Nat) (b : Nat)
    (h : rho (p * p) = some (some (as, b))) : as = [p] ∧ b = p := by
  obtain ⟨a, has, hab, ha1, han, hb1⟩ := rho_proper _ as b h
  have hd : a ∣ p * p := ⟨b, hab.symm⟩
  have hap : a = p := by
    have hd2 : a ∣ p ^ 2 := by rw [pow_two]; exact hd
    obtain ⟨k, hk, rfl⟩ := (Nat.dvd_prime_pow hp).mp hd2
    have hk' : k = 0 ∨ k = 1 ∨ k = 2 := by omega
    rcases hk' with rfl | rfl | rfl
    · simp at ha1
    · simp
    · rw [pow_two] at han; omega
  subst hap
  refine ⟨has, ?_⟩
  exact Nat.eq_of_mul_eq_mul_left (by omega) hab

example : rho (211 * 211) = some (some ([211], 211)) := by decide +kernel

/-- **`rho_semiprime` never panics** on an odd `3 ≤ n ≤ 2^64 - 17` -/
theorem rho_semiprime_no_panic (n : Nat) (hodd : n % 2 = 1) (hn : 3 ≤ n) (htop : n + 17 ≤ W) :
    ∃ r, rhoSemiprime n = some r :=
  rhoSemiprime_total hodd hn htop

/-- **`rho_semiprime` returns a proper split** -/
theorem rho_semiprime_proper (n a b : Nat) (h : rhoSemiprime n = some (some (a, b))) :
    a * b = n ∧ 1 < a ∧ a < n ∧ 1 < b := by
  obtain ⟨c, iters, _, h64⟩ := rhoSemiprime_some h
  exact Ymq.C16.rho64_proper h64

example : rhoSemiprime 8051 = some (some (97, 83)) := by decide +kernel

end Ymq.C03Rho
