/-
List-level form of the Berlekamp–Massey theorems (for any closures satisfying `OpsOK`):
`Connection`, `TwoTerms`, exact characterisation of the three outcomes of `core`.
-/
import Ymq.Lemmas.BerlekampMasseyTop

namespace Ymq.BM
open Polynomial

variable {p : ℕ} {o : Ops} {κ : ZMod p}

/-- `c` is a connection polynomial of `s` modulo `p` on the window the algorithm guarantees:
non-zero constant term, degree at most `n - n/2`, and `Σ_j c_j s_{i-j} ≡ 0` for `n/2 ≤ i < n`. -/
def Connection (p : ℕ) (s c : List ℕ) : Prop :=
  c.getD 0 0 % p ≠ 0 ∧ (∀ j, s.length - s.length / 2 < j → c.getD j 0 % p = 0) ∧
    ∀ i, s.length / 2 ≤ i → i < s.length → convAt c s i % p = 0

/-- at least two non-zero terms -/
def TwoTerms (s : List ℕ) : Prop := ∃ i j, i < j ∧ s.getD i 0 ≠ 0 ∧ s.getD j 0 ≠ 0

theorem red_of_mem (hp : 0 < p) (l : List ℕ) (h : ∀ x ∈ l, x < p) : Red p l := by
  intro i
  by_cases hi : i < l.length
  · have : gd l i = l[i] := by simp [gd, List.getD_eq_getElem?_getD, List.getElem?_eq_getElem hi]
    rw [this]; exact h _ (List.getElem_mem hi)
  · rw [gd_of_le l i (by omega)]; exact hp

theorem mem_lt_of_red (l : List ℕ) (h : Red p l) : ∀ x ∈ l, x < p := by
  intro x hx
  obtain ⟨i, hi, rfl⟩ := List.getElem_of_mem hx
  have : gd l i = l[i] := by simp [gd, List.getD_eq_getElem?_getD, List.getElem?_eq_getElem hi]
  rw [← this]; exact h i

theorem mod_eq_zero_iff_cast (x : ℕ) : x % p = 0 ↔ ((x : ℕ) : ZMod p) = 0 := by
  rw [ZMod.natCast_eq_zero_iff, Nat.dvd_iff_mod_eq_zero]

theorem core_sound_list [Fact p.Prime] (ok : OpsOK o p κ) (seq : List ℕ) (hr : ∀ x ∈ seq, x < p)
    (out : List ℕ) (h : core o seq = some out) (hne : out ≠ []) :
    out.length = seq.length ∧ (∀ x ∈ out, x < p) ∧ out.getD 0 0 = 1 ∧
      (∀ j, seq.length - seq.length / 2 < j → out.getD j 0 = 0) ∧
      ∀ i, seq.length / 2 ≤ i → i < seq.length → convAt out seq i % p = 0 := by
  have hp : 0 < p := (Fact.out : p.Prime).pos
  obtain ⟨h1, h2, h3, h4, h5⟩ := core_sound ok seq (red_of_mem hp seq hr) out h hne
  refine ⟨h1, mem_lt_of_red out h2, h3, h4, fun i hi1 hi2 => ?_⟩
  rw [mod_eq_zero_iff_cast, convAt_cast]
  exact h5 i hi1 hi2

theorem connection_of_sound [Fact p.Prime] (seq out : List ℕ)
    (h3 : out.getD 0 0 = 1) (h4 : ∀ j, seq.length - seq.length / 2 < j → out.getD j 0 = 0)
    (h5 : ∀ i, seq.length / 2 ≤ i → i < seq.length → convAt out seq i % p = 0) :
    Connection p seq out := by
  have hp1 : 1 < p := (Fact.out : p.Prime).one_lt
  refine ⟨?_, fun j hj => ?_, h5⟩
  · rw [h3, Nat.mod_eq_of_lt hp1]; omega
  · rw [h4 j hj]; simp

theorem core_complete_list [Fact p.Prime] (ok : OpsOK o p κ) (seq : List ℕ)
    (hr : ∀ x ∈ seq, x < p) (h2 : TwoTerms seq) (c : List ℕ) (hc : Connection p seq c) :
    ∃ out, core o seq = some out ∧ out ≠ [] := by
  have hp : 0 < p := (Fact.out : p.Prime).pos
  obtain ⟨i, j, hij, hi, hj⟩ := h2
  obtain ⟨c0, c1, c2⟩ := hc
  refine core_complete ok seq (red_of_mem hp seq hr) hij hi hj (toPoly p c) ?_ ?_ ?_
  · rw [coeff_toPoly]
    unfold co gd
    rwa [Ne, ← mod_eq_zero_iff_cast]
  · rw [natDegree_le_iff_coeff_eq_zero]
    intro N hN
    rw [coeff_toPoly]
    unfold co gd
    rw [← mod_eq_zero_iff_cast]
    exact c1 N hN
  · intro i hi1 hi2
    rw [← convAt_cast, ← mod_eq_zero_iff_cast]
    exact c2 i hi1 hi2

/-- the three outcomes of a run, by the shape of the input -/
theorem core_outcomes [Fact p.Prime] (ok : OpsOK o p κ) (seq : List ℕ) (hr : ∀ x ∈ seq, x < p) :
    (seq = [] ∧ core o seq = none) ∨
    (seq ≠ [] ∧ (∀ i, seq.getD i 0 = 0) ∧ core o seq = some []) ∨
    (∃ k, seq.getD k 0 ≠ 0 ∧ (∀ i, i ≠ k → seq.getD i 0 = 0) ∧
      ((k = 0 ∧ core o seq = none) ∨ (0 < k ∧ core o seq = some []))) ∨
    (TwoTerms seq ∧ 2 ≤ seq.length ∧
      (((∃ c, Connection p seq c) ∧ ∃ out, core o seq = some out ∧ out ≠ []) ∨
       ((¬ ∃ c, Connection p seq c) ∧ core o seq = none))) := by
  have hp : 0 < p := (Fact.out : p.Prime).pos
  have hred := red_of_mem hp seq hr
  rcases init_cases seq hred with ⟨h0, e⟩ | ⟨h0, hz, e⟩ | ⟨k, hk, hz, ⟨k0, e⟩ | ⟨k0, e⟩⟩ |
      ⟨i, j, s, hij, hi, hj, e, inv, hm, hn⟩
  · left; exact ⟨List.length_eq_zero_iff.mp h0, by simp [core, e]⟩
  · right; left
    exact ⟨fun hh => by rw [hh] at h0; simp at h0, hz, by simp [core, e]⟩
  · right; right; left; exact ⟨k, hk, hz, Or.inl ⟨k0, by simp [core, e]⟩⟩
  · right; right; left; exact ⟨k, hk, hz, Or.inr ⟨k0, by simp [core, e]⟩⟩
  · right; right; right
    have h2 : TwoTerms seq := ⟨i, j, hij, hi, hj⟩
    refine ⟨h2, hn, ?_⟩
    by_cases hc : ∃ c, Connection p seq c
    · left
      obtain ⟨c, hc'⟩ := hc
      exact ⟨⟨c, hc'⟩, core_complete_list ok seq hr h2 c hc'⟩
    · right
      refine ⟨hc, ?_⟩
      cases hcore : core o seq with
      | none => rfl
      | some out =>
        exfalso
        have hne : out ≠ [] := by
          intro hnil
          obtain ⟨_, s', inv', _, e'⟩ := core_run ok seq hred hij hi hj
          rw [e', hnil] at hcore
          have hl : 0 < s'.u.length := by rw [inv'.lu]; omega
          by_cases hu0 : gd s'.u 0 = 0
          · rw [finish_none s'.u hl hu0] at hcore; simp at hcore
          · obtain ⟨out', _, g1, g2, _⟩ := finish_some ok s'.u hl inv'.ru hu0
            rw [g1] at hcore
            have : out' = [] := Option.some.inj hcore
            rw [this, inv'.lu] at g2
            simp at g2; omega
        obtain ⟨_, _, h3, h4, h5⟩ := core_sound_list ok seq hr out hcore hne
        exact hc ⟨out, connection_of_sound seq out h3 h4 h5⟩


theorem getD_nil_zero (i : ℕ) : ([] : List ℕ).getD i 0 = 0 := by simp

/-- exact characterisation of the inputs on which a panic site is reached -/
theorem core_none_iff [Fact p.Prime] (ok : OpsOK o p κ) (seq : List ℕ) (hr : ∀ x ∈ seq, x < p) :
    core o seq = none ↔
      seq = [] ∨ (seq.getD 0 0 ≠ 0 ∧ ∀ i, 1 ≤ i → seq.getD i 0 = 0) ∨
      (TwoTerms seq ∧ ¬ ∃ c, Connection p seq c) := by
  constructor
  · intro h
    rcases core_outcomes ok seq hr with ⟨h0, _⟩ | ⟨_, _, e⟩ | ⟨k, hk, hz, ⟨k0, _⟩ | ⟨_, e⟩⟩ |
        ⟨h2, _, ⟨_, out, e, _⟩ | ⟨hc, _⟩⟩
    · exact Or.inl h0
    · rw [e] at h; exact absurd h (by simp)
    · subst k0
      exact Or.inr (Or.inl ⟨hk, fun i hi => hz i (by omega)⟩)
    · rw [e] at h; exact absurd h (by simp)
    · rw [e] at h; exact absurd h (by simp)
    · exact Or.inr (Or.inr ⟨h2, hc⟩)
  · intro h
    rcases core_outcomes ok seq hr with ⟨_, e⟩ | ⟨hne, hz, _⟩ | ⟨k, hk, hz, ⟨_, e⟩ | ⟨k0, _⟩⟩ |
        ⟨⟨i, j, hij, hi, hj⟩, _, ⟨hc, _⟩ | ⟨_, e⟩⟩
    · exact e
    · rcases h with h | ⟨h, _⟩ | ⟨⟨i, _, _, hi, _⟩, _⟩
      · exact absurd h hne
      · exact absurd (hz 0) h
      · exact absurd (hz i) hi
    · exact e
    · rcases h with h | ⟨h, _⟩ | ⟨⟨i, j, hij, hi, hj⟩, _⟩
      · rw [h, getD_nil_zero] at hk; exact absurd rfl hk
      · exact absurd (hz 0 (by omega)) h
      · have h1 : i = k := by by_contra hc; exact hi (hz i hc)
        have h2 : j = k := by by_contra hc; exact hj (hz j hc)
        omega
    · rcases h with h | ⟨_, h⟩ | ⟨_, h⟩
      · rw [h, getD_nil_zero] at hi; exact absurd rfl hi
      · exact absurd (h j (by omega)) hj
      · exact absurd hc h
    · exact e

/-- exact characterisation of the inputs on which the empty vector is returned -/
theorem core_empty_iff [Fact p.Prime] (ok : OpsOK o p κ) (seq : List ℕ) (hr : ∀ x ∈ seq, x < p) :
    core o seq = some [] ↔
      seq ≠ [] ∧ ((∀ i, seq.getD i 0 = 0) ∨
        ∃ k, 1 ≤ k ∧ seq.getD k 0 ≠ 0 ∧ ∀ i, i ≠ k → seq.getD i 0 = 0) := by
  constructor
  · intro h
    rcases core_outcomes ok seq hr with ⟨_, e⟩ | ⟨hne, hz, _⟩ | ⟨k, hk, hz, ⟨_, e⟩ | ⟨k0, _⟩⟩ |
        ⟨_, _, ⟨_, out, e, hne⟩ | ⟨_, e⟩⟩
    · rw [e] at h; exact absurd h (by simp)
    · exact ⟨hne, Or.inl hz⟩
    · rw [e] at h; exact absurd h (by simp)
    · refine ⟨?_, Or.inr ⟨k, k0, hk, hz⟩⟩
      intro hnil; rw [hnil, getD_nil_zero] at hk; exact absurd rfl hk
    · rw [e] at h; exact absurd (Option.some.inj h) hne
    · rw [e] at h; exact absurd h (by simp)
  · rintro ⟨hne, h⟩
    rcases core_outcomes ok seq hr with ⟨h0, _⟩ | ⟨_, _, e⟩ | ⟨k, hk, hz, ⟨k0, _⟩ | ⟨_, e⟩⟩ |
        ⟨⟨i, j, hij, hi, hj⟩, _, _⟩
    · exact absurd h0 hne
    · exact e
    · subst k0
      rcases h with h | ⟨k', hk1, _, hz'⟩
      · exact absurd (h 0) hk
      · exact absurd (hz' 0 (by omega)) hk
    · exact e
    · rcases h with h | ⟨k', _, _, hz'⟩
      · exact absurd (h i) hi
      · have h1 : i = k' := by by_contra hc; exact hi (hz' i hc)
        have h2 : j = k' := by by_contra hc; exact hj (hz' j hc)
        omega

end Ymq.BM
