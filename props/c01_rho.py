"""C01 / C03 helper — the rho stage (pollard_rho::rho as lib.rs calls it, pollard_rho::rho_semiprime as fbase.rs calls it)
and arith::perfect_power inside the closed factor theorems (version 3).

Ops (harness/src/ops_rho.rs, lean/Ymq/Drv/PollardRho.lean):
  rho <n>            -> none | some <a1,..> <b>      K (model = lean/Ymq/Model/PollardRho.lean over the word-exact rho64 of C16) and O
  rho_semiprime <n>  -> none | some <a> <b>          K and O
Follow-ups of every `factor` run (trace events recorded by the real run, answered again by the MODEL):
  pp:<n>:<p>:<k> | pp:<n>:none     -> `perfect_power[_uint] <n>` must answer the recorded value   ("the pp field IS the model")
  rho:<n>:<a_s>:<b> | rho:<n>:none -> `rho <n>` must answer the recorded value                    ("the rho field IS the model")

The spec oracle is an independent mirror in plain modular arithmetic (no Montgomery words): on the domain of the
no-panic theorem (odd 3 <= n <= 2^64 - 17) mg_mul(x, y) = x*y/R mod n, so the whole run is determined; the exact
expected answer is computed with Python integers, math.gcd and pow(R, -1, n).
"""
import math
import random
from vlib.pipeline import Case
from vlib import gen

OPS = ("rho", "rho_semiprime")
LEAN = ["Ymq.Props.C03Rho", "Ymq.Props.C01Closed3"]
W = 1 << 64
SMALL_PRIMES = [p for p in range(2, 200) if all(p % q for q in range(2, p))]

THEOREMS_RHO = [
    "Ymq.C03Rho.rho64_no_panic",
    "Ymq.C03Rho.rho_no_panic",
    "Ymq.C03Rho.rho_no_panic_call_site",
    "Ymq.C03Rho.rho_proper",
    "Ymq.C03Rho.rho_uses_rho64",
    "Ymq.C03Rho.rho_large_none",
    "Ymq.C03Rho.rho_prime_none",
    "Ymq.C03Rho.rho_prime_square",
    "Ymq.C03Rho.rho_semiprime_no_panic",
    "Ymq.C03Rho.rho_semiprime_proper",
    "Ymq.C03Rho.noSmall_below_top",
]
THEOREMS_CLOSED3 = [
    "Ymq.C01.usesPerfectPower_of_model",
    "Ymq.C01.usesRho64_of_model",
    "Ymq.C01.oracleOK_of_models_v3",
    "Ymq.C01.factor_exact_closed_v3",
    "Ymq.C01.factor_total_closed_v3",
    "Ymq.C01.pp_none_not_tried_power",
    "Ymq.C01.rho_call_sites_total",
    "Ymq.C01.rho_join_harmless",
    "Ymq.C01.pp_join_harmless",
    "Ymq.C01.rho_model_exact_on_guard",
    "Ymq.C01.rho_call_sites_return",
]
MODELLED = ["pollard_rho.rs rho (budget table by bit length, c = 1..9, first success) and rho_semiprime (three windows, or_else chains) line by line over the "
            "word-exact rho64 model of C16 (Ymq/Model/PollardRho.lean); every overflow / debug_assert site of rho64 is a `none`"]
UNMODELLED = ["num_integer::Integer::gcd (binary gcd on u64, library code) is Nat.gcd; the eprintln / Instant lines of rho"]
RULE = ("rho / rho_semiprime directly: every odd n < 2000, semiprimes / primes / prime squares / prime cubes / 3-4 factor products at every budget-window boundary "
        "(24/25, 32/33, 40/41, 48/49, 52/53, 57/58, 62/63, 64, 65 bits; 2^40, 2^48 for rho_semiprime), products of primes >= 211 (what factor() hands over), "
        "inputs whose first polynomials fail (long cycles), 2^64 - k for odd k < 100, multiword inputs (must answer none); K on every case, both profiles; "
        "every factor() run: recorded pp / rho answers re-asked to the model")


# ---------------------------------------------------------------- independent mirror (plain modular arithmetic)

def rho64_spec(n, c, iters):
    rinv = pow(W, -1, n) if n > 1 else 0
    x1 = x2 = 2
    prod = 1
    nstart, nend = 0, 1
    for e2 in range(1, iters):
        x2 = (x2 * x2 * rinv) % n + c
        if e2 < nstart:
            continue
        d = abs(x1 - x2)
        prodnext = (prod * d * rinv) % n
        if prodnext == 0:
            g = math.gcd(n, d)
            if 1 < g < n:
                return (g, n // g)
        if e2 >= 512 and e2 % 128 == 127:
            g = math.gcd(n, prod)
            if 1 < g < n:
                return (g, n // g)
        prod = prodnext
        if e2 == nend:
            x1 = x2
            p2 = e2 + 1
            nstart = p2 + p2 // 2
            nend = 2 * p2 - 1
    g = math.gcd(n, prod)
    if 1 < g < n:
        return (g, n // g)
    return None


ITERS = [(24, 128), (32, 512), (40, 2048), (48, 8192), (52, 16384), (57, 32768), (62, 65536), (64, 131072)]


def rho_spec(n):
    """-> (answer string, c that succeeded or 0)"""
    size = n.bit_length()
    iters = next((it for b, it in ITERS if size <= b), None)
    if iters is None:
        return "none", 0
    for c in range(1, 10):
        r = rho64_spec(n, c, iters)
        if r:
            return f"some {r[0]} {r[1]}", c
    return "none", 0


def rho_semiprime_spec(n):
    if n >> 40 == 0:
        plan = [(1, 2048), (2, 2048), (3, 2048)]
    elif n >> 48 == 0:
        plan = [(1, 4096), (2, 4096), (3, 4096)]
    else:
        plan = [(1, 8192)]
    for c, it in plan:
        r = rho64_spec(n, c, it)
        if r:
            return f"some {r[0]} {r[1]}", c
    return "none", 0


def in_domain(n):
    return n % 2 == 1 and 3 <= n <= W - 17


_memo = {}


def spec(case):
    key = case.line
    if key not in _memo:
        n = int(case.args[0])
        _memo[key] = rho_spec(n) if case.op == "rho" else rho_semiprime_spec(n)
    return _memo[key]


# ---------------------------------------------------------------- cases

# long cycles: semiprimes on which the first polynomial(s) fail within the budget rho selects (found by search with the mirror)
HARD = [409891 * 69890423, 3575609 * 3575627, 40726549 * 40726553, 43789153 * 43789159]
# literal, found once with the mirror (search over products of two primes 211..4000): the polynomial c that first succeeds
BY_C = {4: [9365581, 11732813], 5: [10156969, 7244051], 6: [5166529]}
# the answer of rho changes when the budget of the size class is halved (one pair per row of the budget table)
BUDGET = {24: [9097471, 9491639], 32: [2382236371, 2737483079], 40: [621886178423, 776639508929], 48: [180245808786737, 148985101883941],
          52: [2682896678906321, 2508814856190781], 57: [85022385885250171, 118479202198679317], 62: [3703608583010425589, 2544157002818474623],
          64: [9694263783331916101, 13006189075539673571]}
# same for the three windows of rho_semiprime
SEMI_BUDGET = {40: [1003284248773, 836642950411], 48: [142141810893479, 164222876983073], 56: [44265665937497101, 40741448522010157]}
# budget-sensitive per (row of the budget table, polynomial c): with the real budget polynomials 1..c-1 fail and c succeeds; with HALF the budget
# the answer of rho differs (`_verify_literals` re-checks every claim with the mirror). Found once by a deterministic search with a C copy of
# the mirror over balanced semiprimes. A change of one row's budget, or of the polynomial order, flips at least one of these answers.
BUDGET_BY_C = {
    24: {2: 11867497, 3: 13021153, 4: 12655883, 5: 16090567, 6: 9685253},
    32: {2: 3070755979, 3: 3744309887, 4: 3361073861, 5: 3272315687, 6: 3656016253},
    40: {2: 858766572539, 3: 826773202943, 4: 778496661209, 5: 1037838809407, 6: 901761954073},
    48: {2: 191855360951747, 3: 151633492007653, 4: 186867577583579, 5: 244089383354989, 6: 185283557055743},
    52: {2: 3442877901711959, 3: 3950079521973701, 4: 3149036747569649, 5: 3394067498552893, 6: 3608747147451269},
    57: {2: 123555123343623317, 3: 87754760134550489, 4: 94246823930717543, 5: 111609884167583119, 6: 125514098085399031},
    62: {2: 3705616012538069029, 3: 4038804205138201073, 4: 3715687105216723589, 5: 3657842105048996923, 6: 3668058433509738187},
    64: {2: 11715253032429507389, 3: 14210970954071523311, 4: 16586216078265476311, 5: 11987133315365360137, 6: 17985119565519170059},
}
# rho_semiprime, per (window, c): polynomials 1..c-1 fail with the real budget, c succeeds, and halving the budget of polynomial c ALONE
# changes the answer. The last three of window 48, c = 3 are the inputs of the review-4 mutant `.or_else(|| rho64(n, 3, 2048))`.
SEMI_BUDGET_BY_C = {
    40: {1: [785494032437], 2: [617870464901], 3: [1017988902043]},
    48: {1: [235386527879791], 2: [175997835740579], 3: [211334099673119, 82603417514221, 178466756638447, 170472089705971]},
    56: {1: [44265665937497101, 40741448522010157]},
}
SEMI_PLAN = {40: [(1, 2048), (2, 2048), (3, 2048)], 48: [(1, 4096), (2, 4096), (3, 4096)], 56: [(1, 8192)]}


def _verify_literals():
    """re-check every budget-sensitivity claim of BUDGET_BY_C / SEMI_BUDGET_BY_C with the mirror (python3 -m props.c01_rho)"""
    bad = []
    prev = 0
    for bits, iters in ITERS:
        for c, n in BUDGET_BY_C[bits].items():
            if not (prev < n.bit_length() <= bits):
                bad.append(("rho-bits", bits, c, n))
            real = [rho64_spec(n, k, iters) for k in range(1, c + 1)]
            if any(real[:-1]) or not real[-1]:
                bad.append(("rho-real", bits, c, n))
            half = next((r for r in (rho64_spec(n, k, iters // 2) for k in range(1, 10)) if r), None)
            if half == real[-1]:
                bad.append(("rho-half", bits, c, n))
        prev = bits
    for win, plan in SEMI_PLAN.items():
        for c, ns in SEMI_BUDGET_BY_C[win].items():
            for n in ns:
                if (n >> 40 == 0) != (win == 40) or (win == 48 and n >> 48) or (win == 56 and n >> 48 == 0):
                    bad.append(("semi-window", win, c, n))
                real = [rho64_spec(n, k, it) for k, it in plan[:c]]
                if any(real[:-1]) or not real[-1]:
                    bad.append(("semi-real", win, c, n))
                mut = next((r for r in (rho64_spec(n, k, it // 2 if k == c else it) for k, it in plan) if r), None)
                if mut == real[-1]:
                    bad.append(("semi-half", win, c, n))
    return bad


WINDOW_BITS = [24, 25, 32, 33, 40, 41, 48, 49, 52, 53, 57, 58, 62, 63, 64]


def exact_semiprime(rng, bits, pbits=None):
    while True:
        pb = pbits or rng.randint(max(8, bits // 2 - 6), bits // 2)
        p = gen.rand_prime(rng, pb)
        for qb in (bits - pb, bits - pb + 1):
            if qb < 2:
                continue
            q = gen.rand_prime(rng, qb)
            if (p * q).bit_length() == bits:
                return p * q


def cases(tier, rng, extended=False):
    quick = tier == "quick"
    mult = (1 if quick else 4) * (3 if extended else 1)
    seen = set()

    def mk(op, n, tag):
        key = (op, n)
        if key in seen or n % 2 == 0:
            return
        seen.add(key)
        yield Case(f"{op} {n}", tag=tag)

    for n in range(3, 2000, 2):
        yield from mk("rho", n, "small")
        if n < 600:
            yield from mk("rho_semiprime", n, "small")
    # window boundaries of rho
    for bits in WINDOW_BITS:
        for _ in range(2 * mult):
            yield from mk("rho", exact_semiprime(rng, bits), f"semi{bits}")
        yield from mk("rho", exact_semiprime(rng, bits, 8), f"semi{bits}")          # tiny factor
        p = gen.rand_prime(rng, bits)
        if bits <= 52 or not quick or bits in (57, 64):                              # nine full budgets on a prime: the slow class
            yield from mk("rho", p, f"prime{bits}")
        q = gen.rand_prime(rng, (bits + 1) // 2)
        if (q * q).bit_length() <= 64:
            yield from mk("rho", q * q, f"square{bits}")
        r = gen.rand_prime(rng, max(3, bits // 3))
        yield from mk("rho", r * r * r, f"cube{bits}")
        yield from mk("rho", r * r * gen.rand_prime(rng, max(3, bits - 2 * r.bit_length())), f"p2q{bits}")
    # what factor() hands over: products of 2-4 primes >= 211
    for _ in range(40 * mult):
        k = rng.choice([2, 2, 3, 4])
        n = 1
        for _ in range(k):
            n *= gen.rand_prime(rng, rng.randint(8, 60 // k))
        if all(n % p for p in SMALL_PRIMES):
            yield from mk("rho", n, "handed-over")
            if k == 2:
                yield from mk("rho_semiprime", n, "handed-over")
    for n in HARD + [x for l in BY_C.values() for x in l]:
        yield from mk("rho", n, "hard")
        yield from mk("rho_semiprime", n, "hard")
    for l in BUDGET.values():
        for n in l:
            yield from mk("rho", n, "budget")
    for l in SEMI_BUDGET.values():
        for n in l:
            yield from mk("rho_semiprime", n, "budget")
    for d in BUDGET_BY_C.values():
        for n in d.values():
            yield from mk("rho", n, "budget")
    for d in SEMI_BUDGET_BY_C.values():
        for l in d.values():
            for n in l:
                yield from mk("rho_semiprime", n, "budget")
                yield from mk("rho", n, "budget")
    # top of the word: the eight odd values above 2^64 - 17 are outside the no-panic theorem (each has a prime factor <= 53)
    for k in range(1, 100, 2):
        yield from mk("rho", W - k, "top")
        if k < 40:
            yield from mk("rho_semiprime", W - k, "top")
    # multiword: refused before any arithmetic
    for bits in (65, 66, 100, 128, 129, 500, 1000):
        yield from mk("rho", (1 << (bits - 1)) + rng.getrandbits(bits - 2) * 2 + 1, "multiword")
    yield from mk("rho", W + 1, "multiword")
    # rho_semiprime windows
    for bits in (30, 39, 40, 41, 47, 48, 49, 50, 56, 60, 63, 64):
        for _ in range(3 * mult):
            yield from mk("rho_semiprime", exact_semiprime(rng, bits, rng.randint(max(8, bits // 2 - 8), bits // 2)), f"semi{bits}")
        yield from mk("rho_semiprime", gen.rand_prime(rng, bits), f"prime{bits}")
        q = gen.rand_prime(rng, bits // 2)
        yield from mk("rho_semiprime", q * q, f"square{bits}")
    for n in ((1 << 40) - 1, (1 << 40) + 1, (1 << 48) - 1, (1 << 48) + 1, (1 << 40) - 87, (1 << 48) - 59):
        yield from mk("rho_semiprime", n, "window-edge")


def oracle(case, ans):
    n = int(case.args[0])
    if ans in ("panic", "hang", "abort") or ans.startswith("panic"):
        if in_domain(n) or n.bit_length() > 64:
            return f"{case.op} did not return ({ans}) on an odd argument inside the no-panic domain"
        return None
    if ans != "none":
        parts = ans.split()
        if len(parts) != 3 or parts[0] != "some":
            return f"unparsable answer {ans}"
        a_s = [int(x) for x in parts[1].split(",")] if parts[1] != "-" else []
        b = int(parts[2])
        if len(a_s) != 1:
            return f"expected exactly one factor in front, got {a_s}"
        a = a_s[0]
        if a * b != n or not (1 < a < n) or b <= 1:
            return f"not a proper split of n: {a} * {b}"
        if gen.is_prime(n):
            return "a prime was split"
    if case.op == "rho" and n.bit_length() > 64 and ans != "none":
        return "multiword input must answer none"
    if in_domain(n):
        exp, _ = spec(case)
        if ans != exp:
            return f"answer differs from the plain-arithmetic mirror: expected {exp}"
    return None


def klass(case, ans):
    n = int(case.args[0])
    c = spec(case)[1] if in_domain(n) else "x"
    return f"{case.op}/{case.tag.rstrip('0123456789')}/{'some' if ans.startswith('some') else ans}/c={c}"


def nontrivial(case, ans):
    return int(case.args[0]) > 200


# ---------------------------------------------------------------- follow-ups of factor() runs

def model_followups(trace):
    """requests for the MODEL built from the recorded trace: the recorded answers of perfect_power and rho must be the model's"""
    out = []
    if not trace or trace == "-":
        return out
    done = set()
    for ev in trace.split(";"):
        f = ev.split(":")
        if len(f) < 3 or (f[0], f[1]) in done:
            continue
        if f[0] == "pp":
            done.add((f[0], f[1]))
            n = int(f[1])
            exp = "none" if f[2] == "none" else f"some {f[2]} {f[3]}"
            out.append((f"perfect_power {n}" if n < W else f"perfect_power_uint {n}", exp))
        elif f[0] == "rho":
            done.add((f[0], f[1]))
            exp = "none" if f[2] == "none" else f"some {f[2]} {f[3]}"
            out.append((f"rho {f[1]}", exp))
    return out


if __name__ == "__main__":
    b = _verify_literals()
    print("budget literals:", "all claims hold" if not b else b)
