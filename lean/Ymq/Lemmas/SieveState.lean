/-
C13 helper lemmas: the state invariant established by `Sieve::new` (fresh or recycled tables) and
re-established by `rehash`.
-/
import Ymq.Lemmas.SieveNew

namespace Ymq.Sieve

/-- every hit of every large prime below the interval end is visible in the table of its size class,
or is one of the `n_overflows - 32` lost entries of that table; very large primes never lose a hit. -/
def TablesInv (fb : FB) (r1 r2 : Array Nat) (interval : Nat) (tables : Array Table) (ltables : Array LTable) : Prop :=
  (∀ (ti : Nat) (t : Table), tables[ti]? = some t → t.WF ∧
    ∃ lost : List (Nat × Nat), lost.length = t.nOverflows - 32 ∧
      ∀ pidx p x, fb.primes[pidx]? = some p → bitlen p = ti + 16 → IsHit fb r1 r2 interval pidx x →
        t.Has x (pidx % 256) ∨ (x, pidx % 2 ^ 32) ∈ lost) ∧
  (∀ (li : Nat) (t : LTable), ltables[li]? = some t → t.WF ∧
    ∀ pidx p x, fb.primes[pidx]? = some p → bitlen p = li + 19 → IsHit fb r1 r2 interval pidx x →
      t.Has x (pidx % 65536))

theorem tablesInv_of_rel {fb : FB} {r1 r2 : Array Nat} {interval : Nat} {T0 : Array Table} {L0 : Array LTable}
    {d : Nat → Nat → Prop} {tables : Array Table} {ltables : Array LTable}
    (h : TabRel fb r1 r2 interval T0 L0 d tables ltables)
    (h0 : ∀ (ti : Nat) (t0 : Table), T0[ti]? = some t0 → t0.nOverflows = 0)
    (hd : ∀ pidx p, fb.primes[pidx]? = some p → 16 ≤ bitlen p → d (bitlen p) pidx) :
    TablesInv fb r1 r2 interval tables ltables := by
  obtain ⟨s1, s2, hT, hL⟩ := h
  refine ⟨?_, ?_⟩
  · intro ti t ht
    have hlt : ti < T0.size := by
      have := (Array.getElem?_eq_some_iff.1 ht).1
      omega
    obtain ⟨t', ht', hw, _, _, _, _, lost, hlen, hc⟩ := hT ti T0[ti] (Array.getElem?_eq_getElem hlt)
    rw [ht] at ht'
    have := Option.some.inj ht'; subst this
    refine ⟨hw, lost, ?_, ?_⟩
    · rw [hlen, h0 ti _ (Array.getElem?_eq_getElem hlt)]; omega
    · intro pidx p x hp hb hit
      have := hc (x, pidx % 2 ^ 32) ⟨pidx, p, hp, hb, by rw [← hb]; exact hd pidx p hp (by omega), rfl, hit⟩
      simp only at this
      rwa [Nat.mod_mod_of_dvd pidx (by norm_num : 256 ∣ 2 ^ 32)] at this
  · intro li t ht
    have hlt : li < L0.size := by
      have := (Array.getElem?_eq_some_iff.1 ht).1
      omega
    obtain ⟨t', ht', hw, _, hc⟩ := hL li L0[li] (Array.getElem?_eq_getElem hlt)
    rw [ht] at ht'
    have := Option.some.inj ht'; subst this
    refine ⟨hw, ?_⟩
    intro pidx p x hp hb hit
    exact hc (x, pidx) ⟨pidx, p, hp, hb, by rw [← hb]; exact hd pidx p hp (by omega), rfl, hit⟩

/-- recycled tables come from a `Sieve` of the same crate: their `overflows` field is the fixed-size
array `[(u16, u8); 32]`. -/
def RecycledOK (recycled : Option (Array Table × Array LTable)) : Prop :=
  ∀ ts lts, recycled = some (ts, lts) → ∀ (i : Nat) (t : Table), ts[i]? = some t → t.overflows.size = 32

theorem newTables_spec {nblocks maxlog : Nat} {recycled : Option (Array Table × Array LTable)}
    {T0 : Array Table} {L0 : Array LTable} (hrec : RecycledOK recycled)
    (h : newTables nblocks maxlog recycled = some (T0, L0)) :
    (∀ (ti : Nat) (t : Table), T0[ti]? = some t → t.WF ∧ t.nOverflows = 0 ∧ ∀ o p, ¬ t.Has o p) ∧
    (∀ (li : Nat) (t : LTable), L0[li]? = some t → t.WF ∧ ∀ o p, ¬ t.Has o p) ∧
    T0.size = min 18 maxlog + 1 - 16 ∧ L0.size = maxlog + 1 - 19 := by
  unfold newTables at h
  cases recycled with
  | none =>
    simp only [Option.some.injEq, Prod.mk.injEq, VLARGE_LOG, LARGE_LOG] at h
    obtain ⟨rfl, rfl⟩ := h
    refine ⟨?_, ?_, by simp, by simp⟩
    · intro ti t ht
      simp only [Array.getElem?_replicate] at ht
      split at ht
      · have := Option.some.inj ht; subst this
        exact ⟨Table.new_WF _, rfl, fun o p => Table.new_not_has _ o p⟩
      · simp at ht
    · intro li t ht
      simp only [Array.getElem?_replicate] at ht
      split at ht
      · have := Option.some.inj ht; subst this
        exact ⟨LTable.new_WF _, fun o p => LTable.new_not_has _ o p⟩
      · simp at ht
  | some r =>
    obtain ⟨ts, lts⟩ := r
    simp only at h
    split_ifs at h with hs1 hs2 hs3
    simp only [Option.some.injEq, Prod.mk.injEq] at h
    simp only [VLARGE_LOG, LARGE_LOG] at hs1 hs3
    obtain ⟨rfl, rfl⟩ := h
    simp only [ne_eq, not_not] at hs1 hs3
    refine ⟨?_, ?_, by simp only [Array.size_map]; omega, by simp only [Array.size_map]; omega⟩
    · intro ti t ht
      rw [Array.getElem?_map] at ht
      simp only [Option.map_eq_some_iff] at ht
      obtain ⟨t', ht', rfl⟩ := ht
      exact ⟨Table.reset_WF t' (hrec ts lts rfl ti t' ht'), rfl, fun o p => Table.reset_not_has t' o p⟩
    · intro li t ht
      rw [Array.getElem?_map] at ht
      simp only [Option.map_eq_some_iff] at ht
      obtain ⟨t', _, rfl⟩ := ht
      exact ⟨LTable.reset_WF t', fun o p => LTable.reset_not_has t' o p⟩

/-- the part of the state the guarantee depends on.
`rS` = roots the small-prime cursors were started from (`new`), `rL` = roots registered in the bucket
tables (`new` or the last `rehash`), `B` = number of blocks sieved since `new`. -/
structure Inv (fb : FB) (nS : Nat) (rS1 rS2 rL1 rL2 : Array Nat) (B : Nat) (s : State) : Prop where
  skip_even : s.idxskip % 2 = 0
  cur : CurInv fb rS1 rS2 s.idxskip nS B s.lo
  prev : NoneInv rS1 rS2 s.idxskip nS s.loPrev
  tabs : TablesInv fb rL1 rL2 (s.nblocks * BLOCK) s.tables s.ltables
  tsize : ∃ maxprime, fb.primes.back? = some maxprime ∧ s.tables.size = min 18 (bitlen maxprime) + 1 - 16 ∧
    s.ltables.size = bitlen maxprime + 1 - 19

theorem FB.WF.le_back {fb : FB} (h : fb.WF) {i p m : Nat} (hp : fb.primes[i]? = some p)
    (hm : fb.primes.back? = some m) : p ≤ m := by
  rw [Array.back?_eq_getElem?] at hm
  have hi := (Array.getElem?_eq_some_iff.1 hp).1
  by_cases he : i = fb.primes.size - 1
  · subst he; rw [hp] at hm; exact le_of_eq (Option.some.inj hm)
  · exact le_of_lt (h.sorted i (fb.primes.size - 1) p m (by omega) hp hm)

theorem new_spec {fb : FB} {r1 r2 : Array Nat} {offset : Int} {nblocks nS : Nat}
    {recycled : Option (Array Table × Array LTable)} {s : State}
    (hfb : fb.WF) (hr : RootsOK fb r1 r2) (hrec : RecycledOK recycled) (hnS : fb.ibl[16]? = some nS)
    (h : new offset nblocks fb r1 r2 recycled = some s) :
    s.blkNo = 0 ∧ s.nblocks = nblocks ∧ s.offset = offset ∧ Inv fb nS r1 r2 r1 r2 0 s := by
  unfold new at h
  simp only [Option.bind_eq_bind, Option.bind_eq_some_iff] at h
  obtain ⟨_, _, maxprime, hmax, ⟨T0, L0⟩, hnt, h⟩ := h
  by_cases hbig : nblocks * BLOCK ≥ 2 ^ 62
  · simp at h
    omega
  simp only [hbig, if_false, Option.pure_def, Option.bind_some, Option.bind_eq_some_iff, Option.some.injEq] at h
  obtain ⟨⟨offs, tables, ltables⟩, hf, rfl⟩ := h
  simp only
  obtain ⟨hT, hL, hTs, hLs⟩ := newTables_spec hrec hnt
  have hT3 : T0.size ≤ 3 := by omega
  -- every prime's class is visited by the loop
  have hcls : ∀ i p, fb.primes[i]? = some p → bitlen p < bitlen maxprime + 1 ∧ InClass fb (bitlen p) i := by
    intro i p hp
    have hle := bitlen_mono (hfb.le_back hp hmax)
    obtain ⟨v, v', hv, hv'⟩ := hfb.inClass_ibl hp
    have := (hfb.class_of hp hv hv').2 rfl
    exact ⟨by omega, v, v', hv, hv', this.1, this.2⟩
  -- tables
  have hrel := newFold_tab (fb := fb) (r1 := r1) (r2 := r2) (interval := nblocks * BLOCK) hT3
    (fun ti t ht => (hT ti t ht).1) (fun li t ht => (hL li t ht).1) hf
  simp only at hrel
  have htabs : TablesInv fb r1 r2 (nblocks * BLOCK) tables ltables :=
    tablesInv_of_rel hrel (fun ti t0 ht => (hT ti t0 ht).2.1) (fun pidx p hp _ => hcls pidx p hp)
  -- cursors
  have hslot : ∀ k, k < 2 * nS → ∃ v, offs[k]? = some v ∧ initSlot r1 r2 k v := by
    intro k hk
    obtain ⟨p, hp⟩ := hfb.prime_at (i := k / 2) (by have := hfb.ibl_le _ _ hnS; omega)
    have hmem : bitlen p ∈ List.range' 0 (bitlen maxprime + 1) :=
      List.mem_range'_1.2 ⟨by omega, by have := (hcls _ p hp).1; omega⟩
    exact foldlM_reach (newStep fb r1 r2 (nblocks * BLOCK)) (fun _ => True)
      (fun st => ∃ v, st.1[k]? = some v ∧ initSlot r1 r2 k v) (bitlen p) _ hmem
      (fun _ _ _ _ _ _ => trivial)
      (fun st st' _ hs => (newStep_offs hfb hnS hs).2.2 k hk
        (fun q hq => by rw [hp] at hq; rw [Option.some.inj hq]))
      (fun l _ st st' _ ⟨v, hv, hi⟩ hs => ⟨v, (newStep_offs hfb hnS hs).1 k v hv, hi⟩)
      _ _ trivial hf
  have hsize : offs.size = 2 * nS := by
    have hle : offs.size ≤ 2 * nS :=
      foldlM_inv (newStep fb r1 r2 (nblocks * BLOCK)) (fun st => st.1.size ≤ 2 * nS)
        (fun st l st' hp hs => (newStep_offs hfb hnS hs).2.1 hp) _ _ _ (by simp) hf
    by_cases h0 : nS = 0
    · omega
    · obtain ⟨v, hv, _⟩ := hslot (2 * nS - 1) (by omega)
      have := (Array.getElem?_eq_some_iff.1 hv).1
      omega
  have hcur : CurInv fb r1 r2 (2 * ((fb.primes.toList.findIdx? fun p => decide (p > pskip fb.primes.size)).getD
      fb.primes.size)) nS 0 offs := by
    refine ⟨hsize, ?_⟩
    intro k hk
    obtain ⟨v, hv, o1, o2, h1, h2, hveq⟩ := hslot k hk
    obtain ⟨p, hp⟩ := hfb.prime_at (i := k / 2) (by have := hfb.ibl_le _ _ hnS; omega)
    obtain ⟨o1', o2', h1', h2', hlt1, hlt2⟩ := hr _ p hp
    rw [h1] at h1'; rw [h2] at h2'
    have := Option.some.inj h1'; subst this
    have := Option.some.inj h2'; subst this
    have hps := prime_small hfb hnS hk hp
    refine ⟨p, o1, o2, hp, h1, h2, ?_⟩
    by_cases hl : k % 2 = 0 ∨ o1 ≠ o2
    · rw [if_pos hl]
      by_cases hk2 : k % 2 = 0
      · simp only [hk2, if_true] at hveq ⊢
        refine ⟨v, hv, ?_, ?_⟩
        · subst hveq; omega
        · subst hveq
          simp only [Nat.zero_mul, Nat.add_zero]
          rw [Nat.mod_eq_of_lt (by omega : o1 < 65536)]
          exact Nat.mod_eq_of_lt hlt1
      · have hne : o1 ≠ o2 := by
          rcases hl with hl | hl
          · exact absurd hl hk2
          · exact hl
        simp only [hk2, if_false, hne, ne_eq, not_false_eq_true, if_true] at hveq ⊢
        refine ⟨v, hv, ?_, ?_⟩
        · subst hveq; omega
        · subst hveq
          simp only [Nat.zero_mul, Nat.add_zero]
          rw [Nat.mod_eq_of_lt (by omega : o2 < 65536)]
          exact Nat.mod_eq_of_lt hlt2
    · rw [if_neg hl]
      intro _
      have hk2 : ¬ k % 2 = 0 := fun hx => hl (Or.inl hx)
      have hne : ¬ o1 ≠ o2 := fun hx => hl (Or.inr hx)
      simp only [hk2, if_false, hne] at hveq
      rw [hv, hveq]
  refine ⟨by first | rfl | trivial, by first | rfl | trivial, by first | rfl | trivial, ?_⟩
  exact {
    skip_even := by simp only; omega
    cur := hcur
    prev := hcur.noneInv
    tabs := htabs
    tsize := ⟨maxprime, hmax, by rw [hrel.1, hTs], by rw [hrel.2.1, hLs]⟩ }

/-! ### rehash -/

theorem rehashStep_tab {fb : FB} {r1 r2 : Array Nat} {interval : Nat} {T0 : Array Table} {L0 : Array LTable}
    (hT3 : T0.size ≤ 3) {d : Nat → Nat → Prop} {st st' : Array Table × Array LTable} {pidx : Nat}
    (hrel : TabRel fb r1 r2 interval T0 L0 d st.1 st.2)
    (h : rehashStep fb r1 r2 interval st pidx = some st') :
    TabRel fb r1 r2 interval T0 L0
      (fun l i => d l i ∨ (i = pidx ∧ ∃ p, fb.primes[pidx]? = some p ∧ bitlen p = l)) st'.1 st'.2 := by
  obtain ⟨tables, ltables⟩ := st
  simp only at hrel
  unfold rehashStep at h
  simp only [Option.bind_eq_bind, Option.bind_eq_some_iff] at h
  obtain ⟨p, hp, h⟩ := h
  by_cases hsm : p < BLOCK
  · simp only [hsm, if_true, Option.some.injEq] at h
    subst h
    refine hrel.mono_done ?_
    rintro l i hl (hd | ⟨_, q, hq, hb⟩)
    · exact hd
    · rw [hp] at hq
      have := Option.some.inj hq; subst this
      have := two_pow_le_of_bitlen (p := p) (l := 15) (by omega)
      simp only [BLOCK] at hsm
      omega
  · simp only [hsm, if_false] at h
    by_cases hv : bitlen p < VLARGE_LOG
    · simp only [hv, if_true] at h
      by_cases hl : bitlen p < LARGE_LOG
      · simp [hl] at h
      simp only [hl, if_false, Option.bind_eq_some_iff, Option.some.injEq] at h
      obtain ⟨tables', hm, rfl⟩ := h
      simp only
      obtain ⟨x, y, hx, hf, hsz, hy, hne⟩ := modifyM_spec hm
      simp only [LARGE_LOG, VLARGE_LOG] at hl hv
      have hrec : x.WF → Table.Rec x y (fun a => a.2 = pidx % 2 ^ 32 ∧ IsHit fb r1 r2 interval pidx a.1) :=
        fun hwf => rehashAdd_rec hwf hp hf
      have e : bitlen p - LARGE_LOG + 16 = bitlen p := by simp only [LARGE_LOG]; omega
      refine hrel.update_table (ti := bitlen p - LARGE_LOG) (by simp only [LARGE_LOG]; omega) hsz hx hy hne hrec ?_ ?_
      · rintro a ⟨pidx', p', hp', hb, hd', hnd, ha⟩
        rcases hd' with hd' | ⟨rfl, _⟩
        · exact absurd hd' hnd
        · exact ha
      · rintro l i (hd' | ⟨rfl, q, hq, hb⟩) hnd
        · exact absurd hd' hnd
        · rw [hp] at hq
          have := Option.some.inj hq; subst this
          omega
    · simp only [hv, if_false, Option.bind_eq_some_iff, Option.some.injEq] at h
      obtain ⟨ltables', hm, rfl⟩ := h
      simp only
      obtain ⟨x, y, hx, hf, hsz, hy, hne⟩ := modifyM_spec hm
      simp only [VLARGE_LOG] at hv
      unfold rehashLTable at hf
      simp only [Option.bind_eq_bind, Option.bind_eq_some_iff] at hf
      obtain ⟨o1, h1, o2, h2, offsets, ho, hf⟩ := hf
      have hrec : x.WF → LTable.Rec x y (fun a => a.2 = pidx ∧ IsHit fb r1 r2 interval pidx a.1) :=
        fun hwf => vlargeAdd_rec hwf hp h1 h2 ho hf
      refine hrel.update_ltable (li := bitlen p - VLARGE_LOG) hT3 hsz hx hy hne hrec ?_ ?_
      · rintro a ⟨pidx', p', hp', hb, hd', hnd, ha⟩
        rcases hd' with hd' | ⟨rfl, _⟩
        · exact absurd hd' hnd
        · exact ha
      · rintro l i (hd' | ⟨rfl, q, hq, hb⟩) hnd
        · exact absurd hd' hnd
        · rw [hp] at hq
          have := Option.some.inj hq; subst this
          simp only [VLARGE_LOG]; omega

/-- `rehash`: the cursors are untouched, the bucket tables are rebuilt for the new roots. -/
theorem rehash_spec {fb : FB} {nS : Nat} {rS1 rS2 rL1 rL2 r1 r2 : Array Nat} {B : Nat} {s s' : State}
    (hinv : Inv fb nS rS1 rS2 rL1 rL2 B s) (h : rehash fb s r1 r2 = some s') :
    Inv fb nS rS1 rS2 r1 r2 B s' ∧ s'.blkNo = 0 ∧ s'.nblocks = s.nblocks ∧ s'.offset = s.offset := by
  unfold rehash at h
  by_cases h0 : s.nblocks = 0
  · simp only [h0, if_true, Option.some.injEq] at h
    subst h
    refine ⟨?_, rfl, h0.symm, rfl⟩
    refine { skip_even := hinv.skip_even, cur := hinv.cur, prev := hinv.prev, tsize := hinv.tsize, tabs := ?_ }
    simp only [Nat.zero_mul]
    refine ⟨?_, ?_⟩
    · intro ti t ht
      obtain ⟨hw, lost, hl, _⟩ := hinv.tabs.1 ti t ht
      refine ⟨hw, lost, hl, ?_⟩
      rintro pidx p x _ _ ⟨_, _, _, _, hx, _⟩
      omega
    · intro li t ht
      refine ⟨(hinv.tabs.2 li t ht).1, ?_⟩
      rintro pidx p x _ _ ⟨_, _, _, _, hx, _⟩
      omega
  · simp only [h0, if_false, Option.bind_eq_bind, Option.bind_eq_some_iff, Option.some.injEq] at h
    obtain ⟨⟨tables, ltables⟩, hf, rfl⟩ := h
    refine ⟨?_, rfl, rfl, rfl⟩
    obtain ⟨maxprime, hmax, hts, hls⟩ := hinv.tsize
    have hT : ∀ (ti : Nat) (t : Table), (s.tables.map Table.reset)[ti]? = some t → t.WF ∧ t.nOverflows = 0 := by
      intro ti t ht
      rw [Array.getElem?_map] at ht
      simp only [Option.map_eq_some_iff] at ht
      obtain ⟨t', ht', rfl⟩ := ht
      exact ⟨Table.reset_WF t' (hinv.tabs.1 ti t' ht').1.2, rfl⟩
    have hL : ∀ (li : Nat) (t : LTable), (s.ltables.map LTable.reset)[li]? = some t → t.WF := by
      intro li t ht
      rw [Array.getElem?_map] at ht
      simp only [Option.map_eq_some_iff] at ht
      obtain ⟨t', _, rfl⟩ := ht
      exact LTable.reset_WF t'
    have hT3 : (s.tables.map Table.reset).size ≤ 3 := by simp only [Array.size_map]; omega
    have hrel := foldlM_prefix (rehashStep fb r1 r2 (s.nblocks * BLOCK))
      (fun pre st => TabRel fb r1 r2 (s.nblocks * BLOCK) (s.tables.map Table.reset) (s.ltables.map LTable.reset)
        (fun l i => i ∈ pre ∧ ∃ p, fb.primes[i]? = some p ∧ bitlen p = l) st.1 st.2)
      (List.range' 0 fb.primes.size)
      (fun pre x st st' _ hp hs => (rehashStep_tab hT3 hp hs).mono_done (by
        rintro l i _ ⟨hm, hc⟩
        rcases List.mem_append.1 hm with hm | hm
        · exact Or.inl ⟨hm, hc⟩
        · simp only [List.mem_singleton] at hm
          subst hm; exact Or.inr ⟨rfl, hc⟩))
      (List.range' 0 fb.primes.size) (fun _ h => h) [] _ _
      ((TabRel.init _ _ (fun ti t ht => (hT ti t ht).1) hL).mono_done (by rintro l i _ ⟨hm, _⟩; simp at hm)) hf
    simp only [List.nil_append] at hrel
    have htabs : TablesInv fb r1 r2 (s.nblocks * BLOCK) tables ltables :=
      tablesInv_of_rel hrel (fun ti t0 ht => (hT ti t0 ht).2) (fun pidx p hp _ =>
        ⟨List.mem_range'_1.2 ⟨by omega, by have := (Array.getElem?_eq_some_iff.1 hp).1; omega⟩, p, hp, rfl⟩)
    exact { skip_even := hinv.skip_even, cur := hinv.cur, prev := hinv.prev, tabs := htabs,
            tsize := ⟨maxprime, hmax, by rw [hrel.1]; simp only [Array.size_map]; exact hts,
              by rw [hrel.2.1]; simp only [Array.size_map]; exact hls⟩ }

/-! ### sieve_block, next_block -/

/-- `sieve_block`: cursors advance by one block; `lo_prev` holds the cursors of the block just sieved
(these are the ones `smooths` uses). -/
theorem sieveBlock_spec {fb : FB} {nS : Nat} {rS1 rS2 rL1 rL2 : Array Nat} {B : Nat} {s s' : State}
    (hfb : fb.WF) (hnS : fb.ibl[16]? = some nS)
    (hinv : Inv fb nS rS1 rS2 rL1 rL2 B s) (h : sieveBlock fb s = some s') :
    Inv fb nS rS1 rS2 rL1 rL2 (B + 1) s' ∧ CurInv fb rS1 rS2 s'.idxskip nS B s'.loPrev ∧
      s'.blkNo = s.blkNo ∧ s'.nblocks = s.nblocks ∧ s'.offset = s.offset ∧ s'.tables = s.tables ∧
      s'.ltables = s.ltables ∧ s'.idxskip = s.idxskip := by
  unfold sieveBlock at h
  simp only [Option.bind_eq_bind, Option.bind_eq_some_iff] at h
  obtain ⟨⟨lo, lp⟩, hc, h⟩ := h
  obtain ⟨rfl, hcur⟩ := sieveCursors_inv hfb hnS hinv.skip_even hinv.cur hinv.prev hc
  have hs' : s' = { s with lo := lo, loPrev := s.lo } := by
    simp only at h
    split_ifs at h <;> exact (Option.some.inj h).symm
  subst hs'
  refine ⟨?_, hinv.cur, rfl, rfl, rfl, rfl, rfl, rfl⟩
  exact { skip_even := hinv.skip_even, cur := hcur, prev := hinv.cur.noneInv, tabs := hinv.tabs,
          tsize := hinv.tsize }

theorem nextBlock_spec {fb : FB} {nS : Nat} {rS1 rS2 rL1 rL2 : Array Nat} {B : Nat} {s s' : State}
    (hinv : Inv fb nS rS1 rS2 rL1 rL2 B s) (h : nextBlock s = some s') :
    Inv fb nS rS1 rS2 rL1 rL2 B s' ∧ s'.blkNo = s.blkNo + 1 ∧ s'.nblocks = s.nblocks ∧
      s'.offset = s.offset + BLOCK := by
  unfold nextBlock at h
  split_ifs at h
  simp only [Option.some.injEq] at h
  subst h
  exact ⟨{ skip_even := hinv.skip_even, cur := hinv.cur, prev := hinv.prev, tabs := hinv.tabs,
           tsize := hinv.tsize }, rfl, rfl, rfl⟩

end Ymq.Sieve
