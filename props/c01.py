"""C01 — a returned factorization always multiplies back to the input."""
# SIZE AUDIT (quick tier), measured on cases('quick', Random(1)): bit length of n handed to factor()
#   family                      quick max   thorough max  code supports                      boundary classes reached in quick
#   structured (all selectors)  100         115           selectors: 64 / 128 bits / 500     random sizes: 31..33 and 62..65 bits 15..30 times each (primes of <= 52 bits)
#   zero-limb (auto, siqs, ecm) 257         257           n <= 500 bits (Uint 1024 bits,     2^64 + d, 2^128 + d, 2^192 + d, 2^256 + d (d < 500, inputs that finish quickly): deterministic;
#                                                         ZmodN 1..8 words)                  BEFORE: no returned list for any n above 257 bits (product / divisibility of 258..500-bit
#                                                                                            inputs never judged here: C03 runs them but only looks for crashes) -> ADDED
# Added: boundary_cases (both tiers, first): composites with 2 or 3 prime factors of exactly 65, 127..129, 191..193, 255..257, 319..321, 383..385,
# 447..449, 499, 500 bits through ecm (cheap: a 40..46-bit factor), auto on the 64k sizes up to 320 bits; the oracle multiplies the list back.
import random
from vlib.pipeline import Case
from vlib import gen
from props import factor_common as fc
from props import c01_rho as rh

PID = "C01"
GEN = ["primality"]
LEAN = ["Ymq.Props.C01", "Ymq.Props.C01Closed", "Ymq.Props.C01Closed2"] + rh.LEAN
AUDIT = "Ymq.Audit.C01"
THEOREMS = ['Ymq.C01.factor_sound', 'Ymq.C01.factor_no_one', 'Ymq.C01.retain_residue_one', 'Ymq.C01.combineDiv_prod', 'Ymq.C01.combineDiv_no_panic', 'Ymq.C01.factorImpl_prod', 'Ymq.C01.factor_exact', 'Ymq.C01.oracleOK_of_models', 'Ymq.C01.factor_exact_closed', 'Ymq.C01.factor_total_closed',
            'Ymq.C01.oracleOK_of_models_v2', 'Ymq.C01.factor_exact_closed_v2', 'Ymq.C01.factor_total_closed_v2', 'Ymq.C01.trial_divided_noSmall',
            'Ymq.C01.squfofModel_exactSeed', 'Ymq.C01.qs64_model_violates_oracleOK_clause'] + rh.THEOREMS_CLOSED3 + rh.THEOREMS_RHO
PROFILES = ["release", "chk"]
TIMEOUT = 120.0
RULE = ("first, in both tiers, composites with 2 or 3 prime factors of exactly 65, 127..129, 191..193, ..., 447..449, 499, 500 bits (ecm; auto on the 64k sizes); then "
        "n = product of primes drawn from size classes (tiny..52 bit quick, ..90 bit thorough) in the shapes "
        "semiprime/three/many/prime/prime-power/square-of-composite/p2q/close/fb-factor/smooth-times-prime/repeated, "
        "plus 0,1,2..300; every selector inside its size precondition; preference combinations threads/fb/lf/dbl/isz; "
        "non-trivial = composite n; distinct by request line || " + rh.RULE)
MODELLED = ["lib.rs factor / factor_impl / check_factors line by line (Ymq/Model/Factor.lean); sub-algorithms are oracle "
            "parameters (arbitrary in the theorems, the recorded trace of the real run in the replay)"]
MODELLED = MODELLED + rh.MODELLED
UNMODELLED = ["bnum Uint operators and num_integer::gcd are taken as Nat arithmetic (wrap modulo 2^1024 modelled in check_factors only)",
              "contracts of the sub-algorithms (every split multiplies to its argument) are hypotheses here, established under C11/C16"]
HYPOTHESES = ["closed forms (C01Closed): OracleOK is derived for oracles that ARE the models of perfect_power (C08), final_step (C11), rho64 / P-1 result extraction / ECM exits (C16); residual: squfof's f < n, the UnexpectedFactor exit's d < n", 'OracleOK (Lemmas/FactorOracle.lean): every split returned for m multiplies to m with parts < m; sieve divisors divide m (established for the real sub-algorithms under C11/C16)']


def prefs_tokens(rng):
    toks = []
    if rng.random() < 0.4:
        toks.append(f"threads={rng.choice([1, 2, 4])}")
    if rng.random() < 0.25:
        toks.append(f"fb={rng.choice([60, 100, 300])}")    # a factor base far too small for the input makes classical QS loop for ever (user override, not judged)
    if rng.random() < 0.25:
        toks.append(f"lf={rng.choice([1, 2, 10, 100])}")
    if rng.random() < 0.3:
        toks.append(f"dbl={rng.choice([0, 1])}")
    if rng.random() < 0.2:
        toks.append(f"isz={rng.choice([32768, 65536, 131072])}")
    return toks


def _fork(rng, label):
    """own stream for the boundary family: depends on the run's seed, leaves the stream of the older families untouched"""
    return random.Random(f"{label}:{rng.getstate()[1][:4]}")


BOUNDARY_BITS = [65] + [64 * k + d for k in (2, 3, 4, 5, 6, 7) for d in (-1, 0, 1)] + [499, 500]


def exact_product(rng, bits, small):
    """product of the primes `small` and one more prime, of exactly `bits` bits"""
    m = fc.prod(small)
    while True:
        for qb in (bits - m.bit_length(), bits - m.bit_length() + 1):
            q = gen.rand_prime(rng, qb)
            if (m * q).bit_length() == bits:
                return fc.Input(list(small) + [q], "size-boundary")


def boundary_cases(rng, tier):
    """returned lists for inputs at every word boundary up to the 500-bit limit (factors of up to 460 bits)"""
    for j, bits in enumerate(BOUNDARY_BITS):
        small = [gen.rand_prime(rng, rng.randint(40, 46))]
        if j % 3 == 1:
            small.append(gen.rand_prime(rng, rng.randint(30, 40)))
        inp = exact_product(rng, bits, small)
        yield Case(f"factor {inp.n} ecm", k=False, tag=inp.shape, profiles=None if j % 2 else ["release"], timeout=300)
        if bits % 64 == 0 and bits <= 320:          # Auto above that runs P-1 with bounds that take seconds
            yield Case(f"factor {inp.n} auto", k=False, tag=inp.shape, profiles=["release"], timeout=400)


def cases(tier, rng, extended=False):
    yield from boundary_cases(_fork(rng, "C01-boundary"), tier)
    yield from rh.cases(tier, _fork(rng, "C01-rho"), extended)
    quick = tier == "quick"
    count = 600 if quick else 1500
    if extended:
        count *= 5
    maxbits = 100 if quick else 115
    for n in list(range(0, 301 if quick else 3000)):
        yield Case(f"factor {n} auto", k=False, tag="small", profiles=["release"] if n > 60 else None)
    # inputs with all-zero 64-bit words (2^128 + d, a*2^128 + b, 2^192 + d): multiword trial division
    # and conversions see zero limbs; kept to shapes that finish quickly (prime, or small cofactor)
    zl = []
    for base in (1 << 64, 1 << 128, 1 << 192, 1 << 256):
        for d in range(1, 500 if quick else 4000, 2):
            zl.append(base + d)
    for _ in range(120 if quick else 1500):
        zl.append((rng.getrandbits(rng.randrange(1, 40)) << 128) + rng.getrandbits(rng.randrange(1, 40)) | 1)
    kept = 0
    for n in zl:
        red = n
        for p in fc.SMALL_PRIMES:
            while red % p == 0:
                red //= p
        if red == 1 or gen.is_prime(red) or red.bit_length() <= 64:
            kept += 1
            yield Case(f"factor {n} auto", k=False, tag="zero-limb", profiles=None if kept % 7 == 0 else ["release"])
            if kept % 5 == 0 and red.bit_length() <= 64 or (kept % 5 == 0 and gen.is_prime(red)):
                yield Case(f"factor {n} {rng.choice(['siqs', 'ecm'])}", k=False, tag="zero-limb", profiles=["release"])
    for inp in fc.structured_inputs(rng, count, maxbits, classes=("tiny", "s16", "s32", "s52") if quick else ("tiny", "s16", "s32", "s52", "s64")):
        algs = [a for a in fc.ALGOS if fc.allowed(a, inp.n)]
        # sieves on tiny inputs crash (findings under C03); C01 is about returned lists: keep sieves >= 40 bits here
        if fc.nred_bits(inp.n) < 40:
            algs = [a for a in algs if a not in ("qs", "mpqs", "siqs", "qs64")]
        # classical QS has no early exit on larger inputs (minutes): keep it below 80 bits
        if fc.nred_bits(inp.n) > 80:
            algs = [a for a in algs if a != "qs"]
        # P-1 on big inputs is slow: keep it below 70 bits
        if inp.n.bit_length() > 60:
            algs = [a for a in algs if a != "pm1"]
        for alg in rng.sample(algs, min(len(algs), 2 if quick else 3)) + (["auto"] if "auto" not in algs[:0] else []):
            toks = prefs_tokens(rng)
            pr = None if rng.random() < 0.3 else ["release"]
            yield Case(" ".join([f"factor {inp.n} {alg}"] + toks), k=False, tag=inp.shape, profiles=pr)


def oracle(case, ans):
    if case.op in rh.OPS:
        return rh.oracle(case, ans)
    kind, fs, trace, md = fc.parse_answer(ans)
    n = int(case.args[0])
    if kind != "ok":
        return None          # failure value / crash: not a returned list (C03's business)
    if n == 0:
        return None if fs == [0] else "n = 0 must yield [0]"
    if n == 1:
        return None if fs == [] else "n = 1 must yield []"
    if fc.prod(fs) != n:
        return f"product of returned list {fs} is not n"
    if fs != sorted(fs):
        return "list not sorted"
    if any(f in (0, 1) for f in fs):
        return "list contains 0 or 1"
    if any(n % f for f in fs):
        return "element does not divide n"
    return None


def followup(case, ans):
    """the trace replay through the control-flow model, and — version 3 of the closed theorems — the recorded answers of
    perfect_power and rho re-asked to their whole-function MODELS (premises `PerfectPowerModel`, `RhoModel`)"""
    if case.op != "factor":
        return None
    out = []
    rp = fc.replay_request(case, ans)
    if rp:
        out.append(rp)
    trace = fc.parse_answer(ans)[2]
    out += rh.model_followups(trace)
    return out or None


def klass(case, ans):
    if case.op in rh.OPS:
        return rh.klass(case, ans)
    kind = fc.parse_answer(ans)[0]
    return f"{case.args[1]}/{case.tag or 'x'}/{kind}"


def nontrivial(case, ans):
    if case.op in rh.OPS:
        return rh.nontrivial(case, ans)
    n = int(case.args[0])
    return n > 3 and not gen.is_prime(n)


CLAIM = ("Lean theorems about a line-by-line model of factor/factor_impl/check_factors with every sub-algorithm an arbitrary "
         "stateful oracle: any returned list is sorted, has no 0/1, and multiplies to n (mod 2^1024 unconditionally; exactly, with "
         "every element a divisor and no internal assertion reachable, when each sub-algorithm returns genuine splits). The model is "
         "tied to the code by replaying the recorded trace of sub-algorithm results of every real run through the model.")
LEVEL_NOTE = ("Trusted: Lean kernel (+propext, Classical.choice, Quot.sound); model-to-code correspondence checked by trace replay on "
              "generated inputs (not proved); sub-algorithm contracts are hypotheses (see C11/C16); bnum/num_integer as Nat arithmetic.")
TECHNIQUE = "Lean 4 proof over a control-flow model with oracle parameters + trace-replay correspondence + spec oracle"
