/-
C14 "small", helper lemmas part 16 (Mathlib): the inductive step of block Lanczos on the CHECKED
model: from a state satisfying the invariant `LInv` (with the three-term property of the blocks that are
no longer projected as an explicit hypothesis) one iteration reaches no panic site — every
`debug_assert!` on A-orthogonality and on the rank holds — and re-establishes the invariant.
-/
import Ymq.Lemmas.Gf2SmallLoopInv

namespace Ymq.Gf2Small
open Ymq.Gf2 Ymq.Gf2Genblock Ymq.Gf2Lanczos
open scoped Matrix

theorem supported_mat {G : Mat} {S : Nat} (h : Supported 64 G S) :
    toMat 64 G * projS S = toMat 64 G ∧ projS S * toMat 64 G = toMat 64 G := by
  constructor
  · funext i t
    rw [projS, Matrix.mul_diagonal]
    show vec 64 (row G i.1) t * _ = vec 64 (row G i.1) t
    cases hb : (row G i.1).testBit t.1 with
    | false => rw [vec_eq_toZ, hb]; simp [Gf2.toZ]
    | true => rw [h.colsZero i.1 i.2 t.1 hb]; simp [Gf2.toZ]
  · funext i t
    rw [projS, Matrix.diagonal_mul]
    show _ * vec 64 (row G i.1) t = vec 64 (row G i.1) t
    cases hb : S.testBit i.1 with
    | true => simp [Gf2.toZ]
    | false => rw [h.rowsZero i.1 i.2 hb, vec_zero]; simp

theorem getD_append_singleton {α} (l : List α) (a d : α) (j : Nat) :
    (l ++ [a]).getD j d = if j < l.length then l.getD j d else if j = l.length then a else d := by
  simp only [List.getD_eq_getElem?_getD]
  by_cases h : j < l.length
  · rw [List.getElem?_append_left h, if_pos h]
  · rw [if_neg h, List.getElem?_append_right (by omega)]
    by_cases e : j = l.length
    · subst e; simp
    · rw [if_neg e]
      have : j - l.length ≠ 0 := by omega
      cases hh : j - l.length with
      | zero => exact absurd hh this
      | succ q => simp

/-- the Gram matrix of `B·v` is `vᵗ·A·v` -/
theorem toMat_gram {k : Nat} {cols : List (List Nat)} (hM : MatOK k cols) {v bv gram : List Nat}
    (hbv : optMul (qsOptimize k cols) v = some bv) (hbvl : bv.length = k)
    (hg : blockDot bv bv = some gram) : toMat 64 gram = Q k cols v v := by
  rw [toMat_blockDot hbvl hbvl hg, cellMat_optMul k cols v bv hM.hk hM.hn hM.hwf hbv, Matrix.transpose_mul]
  simp only [gramA, Matrix.mul_assoc]

/-- the invariant of block Lanczos on the model; `hist` lists every selected block (purged or not),
`Ss` their masks, `Y0` is the block returned by `genblock` -/
structure LInv (k : Nat) (cols : List (List Nat)) (Y0 : List Nat) (st : LState) (hist : List (List Nat))
    (Ss : List Nat) : Prop where
  wf : WFL cols.length st
  lenH : hist.length = st.ws.length
  lenS : Ss.length = st.ws.length
  histOK : ∀ j, j < st.ws.length → BlockOK cols.length (hist.getD j [])
  kept : ∀ (j : Nat) (w : List Nat), st.ws[j]? = some w → w.isEmpty = false →
    w = hist.getD j [] ∧ ∃ ig, st.invgs[j]? = some ig ∧ KeptOK k cols w ig (Ss.getD j 0)
  orth : ∀ j l, j < st.ws.length → l < st.ws.length → j ≠ l → Q k cols (hist.getD j []) (hist.getD l []) = 0
  /-- `Y` is A-orthogonal to every selected block -/
  yAll : ∀ j, j < st.ws.length → Q k cols (hist.getD j []) st.y = 0
  yOrth : ∀ X, BlockOK cols.length X → (∀ j, j < st.ws.length → Q k cols X (hist.getD j []) = 0) →
    (CM cols.length X)ᵀ * gramA k cols * (CM cols.length st.y + CM cols.length Y0) = 0

/-- the direction computed at the beginning of an iteration: `A·W_last ^ V_last` -/
def Direction (k : Nat) (cols : List (List Nat)) (st : LState) (next0 : List Nat) : Prop :=
  ∃ wl pv nx, st.ws.getLast? = some wl ∧ st.vs.getLast? = some pv ∧
    mulAabOpt (qsOptimize k cols) wl = some nx ∧ next0 = List.zipWith (fun a p => a ^^^ p) nx pv

/-- what an iteration that continues has computed (used to carry the extended invariant) -/
structure StepFacts (k : Nat) (cols : List (List Nat)) (st : LState) (hist : List (List Nat)) (st' : LState)
    (mk : Nat) (w next next0 : List Nat) : Prop where
  dir : Direction k cols st next0
  nextOK : BlockOK cols.length next
  mkLt : mk < 2 ^ 64
  wEq : w = next.map (fun v => v &&& mk)
  vsEq : ∃ vs0, st'.vs = vs0 ++ [next]
  wsEq : ∃ ws0, st'.ws = ws0 ++ [w] ∧ ws0.length = st.ws.length ∧
    ∀ (j : Nat) (x : List Nat), ws0[j]? = some x → x.isEmpty = true →
      (∃ w0, st.ws[j]? = some w0 ∧ w0.isEmpty = true) ∨ maskFor st.masks j st.ws.length = some 0
  masksEq : st'.masks = st.masks ++ [M64 ^^^ mk]
  orthV : ∀ j, j < st.ws.length → Q k cols (hist.getD j []) next = 0
  xform : ∀ X, BlockOK cols.length X → (∀ l, l < st.ws.length → Q k cols X (hist.getD l []) = 0) →
    Q k cols X next = Q k cols X next0

theorem Q_transpose (k : Nat) (cols : List (List Nat)) (x y : List Nat) :
    (Q k cols x y)ᵀ = Q k cols y x := by
  simp only [Q, Matrix.transpose_mul, Matrix.transpose_transpose, gramA_symm, Matrix.mul_assoc]

theorem lanczosStep_checked_ok {k : Nat} {cols : List (List Nat)} (hM : MatOK k cols) {Y0 ay : List Nat}
    (hay : mulAabOpt (qsOptimize k cols) Y0 = some ay) (hayOK : BlockOK cols.length ay)
    {st : LState} {hist : List (List Nat)} {Ss : List Nat} (hInv : LInv k cols Y0 st hist Ss)
    (h3 : ∀ next0, Direction k cols st next0 → ∀ j, j < st.ws.length →
      ¬ Projected st.ws st.masks st.ws.length j → Q k cols (hist.getD j []) next0 = 0) :
    (∃ st', lanczosStep true (qsOptimize k cols) ay st = .finished st' ∧ st'.y = st.y ∧
      ∀ w ∈ st'.ws, w.isEmpty = false → ∃ j : Nat, st.ws[j]? = some w) ∨
    (∃ st' mk w, lanczosStep true (qsOptimize k cols) ay st = .continue st' mk ∧
      LInv k cols Y0 st' (hist ++ [w]) (Ss ++ [mk]) ∧ ∃ next next0, StepFacts k cols st hist st' mk w next next0) := by
  have h := hInv.wf
  obtain ⟨wl, hwl, hwlOK⟩ := h.lastW
  obtain ⟨pv, hpv, hpvOK⟩ := h.lastV
  obtain ⟨nx, hn0, hn0OK⟩ := mulAabOpt_ok hM hwlOK
  have hn1OK : BlockOK cols.length (List.zipWith (fun a p => a ^^^ p) nx pv) := by
    refine ⟨by simp [hn0OK.1, hpvOK.1], ?_⟩
    intro w hw
    obtain ⟨i, hi, rfl⟩ := List.getElem_of_mem hw
    simp only [List.getElem_zipWith]
    exact Nat.xor_lt_two_pow (hn0OK.2 _ (List.getElem_mem _)) (hpvOK.2 _ (List.getElem_mem _))
  obtain ⟨av, hav, havOK⟩ := mulAabOpt_ok hM hn1OK
  have hC : ProjCtx k cols st hist Ss (List.zipWith (fun a p => a ^^^ p) nx pv) :=
    ⟨hInv.histOK, hInv.kept, hInv.orth, h3 _ ⟨wl, pv, nx, hwl, hpv, hn0, rfl⟩⟩
  obtain ⟨⟨vs', ws', next⟩, hfold, ⟨hv', hw', hwOK', hnextOK⟩, _, hsub, hq, hxf, hpr⟩ :=
    projFold_checked hM hn1OK hav h.lenI h.lenM hC st.ws.length 0
      (st.vs, st.ws, List.zipWith (fun a p => a ^^^ p) nx pv) (by omega)
      ⟨⟨h.lenV, rfl, h.wsOK, hn1OK⟩, fun _ _ => rfl, fun _ _ hh _ => hh, fun j hj => by
        rw [if_neg (by omega)], fun _ _ _ => rfl, fun j w hjw he => Or.inl ⟨w, hjw, he⟩⟩
  simp only at hv' hw' hwOK' hnextOK hsub hq hxf hpr
  rw [← List.range_eq_range'] at hfold
  -- the new direction is A-orthogonal to every block of the history
  have hqV : ∀ j, j < st.ws.length → Q k cols (hist.getD j []) next = 0 := by
    intro j hj
    rw [hq j hj]
    by_cases hp : Projected st.ws st.masks st.ws.length j
    · rw [if_pos ⟨hj, hp⟩]
    · rw [if_neg (fun hh => hp hh.2)]
      exact hC.threeTerm j hj hp
  obtain ⟨bv, hbv, hbvOK⟩ := optMul_ok hM hnextOK
  obtain ⟨gram, hg, hgl, hglt⟩ := blockDot_ok (x := bv) hbvOK.1 hbvOK
  have hsym := symmetric_blockDot_self bv gram hg
  have hgw : ∀ i, i < 64 → row gram i < 2 ^ 64 := fun i _ => row_lt_of_mem hglt i
  have hgM := toMat_gram hM hbv hbvOK.1 hg
  have hsel : ∃ rk mk, (if (vs'.length % 2 == 1) = true then rankReverse 64 true gram else rank 64 true gram)
      = some (rk, mk) ∧ Selected 64 gram rk mk := by
    cases (vs'.length % 2 == 1) with
    | true => simpa using rankReverse_selected true hgw
    | false => simpa using rank_selected true hgw
  obtain ⟨rk, mk, hr, hS⟩ := hsel
  by_cases hrk : rk = 0
  · left
    refine ⟨LState.mk vs' ws' st.invgs st.masks st.y, ?_, rfl, ?_⟩
    rotate_left
    · intro w hw hne
      obtain ⟨j, hj⟩ := List.getElem?_of_mem hw
      exact ⟨j, hsub j w hj hne⟩
    unfold lanczosStep
    rw [if_neg (by rw [h.lenV]; exact fun hh => hh rfl), hwl, hpv]
    simp only [h.lenV, hn0, if_neg (show ¬ pv.length < nx.length by rw [hpvOK.1, hn0OK.1]; omega), hav, hfold, hbv,
      hg, hr, hrk, if_true]
  · right
    have hmask := rank_masked_of_symmetric true hgw hsym hS
    obtain ⟨rows2, hB, hp⟩ := pseudoinverse_total true (by decide) (fun k hk => maskRows_lt mk hgw hk) hmask
      (supported_maskRows 64 gram mk)
    obtain ⟨hgl', hglt', hSup, hmul⟩ := hB.result
    generalize rows2.map (·.2) = ginv at hp hgl' hglt' hSup hmul
    have hpost : rank 64 true ginv = some (rk, mk) := by
      have := rank_of_left_inverse true hS.lt hglt' hSup hmul
      rw [hS.pc] at this; exact this
    have hWOK : BlockOK cols.length (next.map (fun v => v &&& mk)) :=
      ⟨by simp [hnextOK.1], fun w hw => by
        obtain ⟨v, hv, rfl⟩ := List.mem_map.mp hw
        exact Nat.lt_of_le_of_lt Nat.and_le_left (hnextOK.2 v hv)⟩
    have hWM : CM cols.length (next.map (fun v => v &&& mk)) = CM cols.length next * projS mk :=
      cellMat_mask hnextOK.1 mk
    have hT : toMat 64 (maskRows 64 gram mk) =
        Q k cols (next.map (fun v => v &&& mk)) (next.map (fun v => v &&& mk)) := by
      rw [toMat_maskRows, hgM]
      simp only [Q, hWM, Matrix.transpose_mul, projS_transpose, Matrix.mul_assoc]
    have hKW : KeptOK k cols (next.map (fun v => v &&& mk)) ginv mk :=
      { wOK := hWOK, igLen := hgl'
        masked := by
          show CM cols.length (next.map (fun v => v &&& mk)) * projS mk = CM cols.length (next.map (fun v => v &&& mk))
          rw [hWM, Matrix.mul_assoc, projS_idem]
        igP := (supported_mat hSup).1, pIg := (supported_mat hSup).2
        inv := by
          show toMat 64 ginv * Q k cols (next.map (fun v => v &&& mk)) (next.map (fun v => v &&& mk)) = projS mk
          rw [← hT, hmul, toMat_maskedId] }
    have hqW : ∀ j, j < st.ws.length → Q k cols (hist.getD j []) (next.map (fun v => v &&& mk)) = 0 := by
      intro j hj
      show (CM cols.length (hist.getD j []))ᵀ * gramA k cols * CM cols.length (next.map (fun v => v &&& mk)) = 0
      rw [hWM, ← Matrix.mul_assoc]
      show Q k cols (hist.getD j []) next * projS mk = 0
      rw [hqV j hj, Matrix.zero_mul]
    have hqW' : ∀ j, j < st.ws.length → Q k cols (next.map (fun v => v &&& mk)) (hist.getD j []) = 0 := by
      intro j hj
      rw [← Q_transpose, hqW j hj, Matrix.transpose_zero]
    obtain ⟨d, hd, hdl, hdlt⟩ := blockDot_ok (x := next.map (fun v => v &&& mk)) hWOK.1 hayOK
    have hdM : toMat 64 d = (CM cols.length (next.map (fun v => v &&& mk)))ᵀ * gramA k cols * CM cols.length Y0 := by
      rw [toMat_blockDot hWOK.1 hayOK.1 hd, cellMat_aab hM hay, Matrix.mul_assoc]
    obtain ⟨y', hy', hy'OK⟩ := blockMulAdd_ok (m := mul ginv d) h.yOK hWOK.1 (mul_lt _ d hdlt)
    have hy'M : CM cols.length y' = CM cols.length st.y +
        CM cols.length (next.map (fun v => v &&& mk)) * (toMat 64 ginv * toMat 64 d) := by
      show cellMat y'.toArray cols.length = _
      rw [cellMat_blockMulAdd h.yOK.1 hWOK.1 (by rw [length_mul]; exact hgl') hy', toMat_mul hgl' hdl]
    have hWt : projS mk * (CM cols.length (next.map (fun v => v &&& mk)))ᵀ =
        (CM cols.length (next.map (fun v => v &&& mk)))ᵀ := by
      have := congrArg Matrix.transpose hKW.masked
      rwa [Matrix.transpose_mul, projS_transpose] at this
    have hyorth : (CM cols.length (next.map (fun v => v &&& mk)))ᵀ * gramA k cols * CM cols.length y' = 0 := by
      have hJ := hInv.yOrth _ hWOK hqW'
      rw [Matrix.mul_add] at hJ
      rw [hy'M, Matrix.mul_add, ← Matrix.mul_assoc, ← Matrix.mul_assoc, hKW.right_inv, hdM]
      rw [← Matrix.mul_assoc, ← Matrix.mul_assoc, hWt]
      exact hJ
    obtain ⟨ayy, hayy, hayyOK⟩ := mulAabOpt_ok hM hy'OK
    have hzero : blockDot (next.map (fun v => v &&& mk)) ayy = some zeros64 := by
      apply blockDot_zero_of hWOK.1 hayyOK
      rw [cellMat_aab hM hayy, ← Matrix.mul_assoc]
      exact hyorth
    refine ⟨LState.mk (vs' ++ [next]) (ws' ++ [next.map (fun v => v &&& mk)]) (st.invgs ++ [ginv])
      (st.masks ++ [M64 ^^^ mk]) y', mk, next.map (fun v => v &&& mk), ?_, ?_,
      next, List.zipWith (fun a p => a ^^^ p) nx pv,
      { dir := ⟨wl, pv, nx, hwl, hpv, hn0, rfl⟩, nextOK := hnextOK, mkLt := hS.lt, wEq := rfl
        vsEq := ⟨vs', rfl⟩, wsEq := ⟨ws', rfl, hw', hpr⟩, masksEq := rfl, orthV := hqV, xform := hxf }⟩
    · unfold lanczosStep
      rw [if_neg (by rw [h.lenV]; exact fun hh => hh rfl), hwl, hpv]
      simp only [h.lenV, hn0, if_neg (show ¬ pv.length < nx.length by rw [hpvOK.1, hn0OK.1]; omega), hav, hfold, hbv,
        hg, hr, hrk, if_false, mask_eq, hp, hpost, bne_self_eq_false, Bool.and_false, Bool.false_eq_true, hd, hy',
        hayy, hzero]
    · have hlenH := hInv.lenH
      have hlenS := hInv.lenS
      have hgetH : ∀ j, j < st.ws.length →
          (hist ++ [next.map (fun v => v &&& mk)]).getD j [] = hist.getD j [] := by
        intro j hj; rw [getD_append_singleton, if_pos (by omega)]
      have hgetHl : (hist ++ [next.map (fun v => v &&& mk)]).getD st.ws.length [] = next.map (fun v => v &&& mk) := by
        rw [getD_append_singleton, if_neg (by omega), if_pos (by omega)]
      have hlen' : (ws' ++ [next.map (fun v => v &&& mk)]).length = st.ws.length + 1 := by simp [hw']
      exact {
        wf := {
          lenV := by simp [hv', hw']
          lenI := by simp [h.lenI, hw']
          lenM := by simp [h.lenM, hw']
          wsOK := by
            intro w hw
            rcases List.mem_append.mp hw with h1 | h1
            · exact hwOK' w h1
            · simp only [List.mem_singleton] at h1; rw [h1]; exact Or.inr hWOK
          lastW := ⟨_, by simp, hWOK⟩
          lastV := ⟨_, by simp, hnextOK⟩
          yOK := hy'OK }
        lenH := by simp [hlenH, hw']
        lenS := by simp [hlenS, hw']
        histOK := by
          intro j hj
          have hj' : j < st.ws.length + 1 := by rw [← hlen']; exact hj
          rcases Nat.lt_or_eq_of_le (Nat.le_of_lt_succ hj') with h1 | h1
          · rw [hgetH j h1]; exact hInv.histOK j h1
          · rw [h1, hgetHl]; exact hWOK
        kept := by
          intro j w hjw hwe
          have hjw' : (ws' ++ [next.map (fun v => v &&& mk)])[j]? = some w := hjw
          by_cases hj : j < ws'.length
          · rw [List.getElem?_append_left hj] at hjw'
            have hj2 : j < st.ws.length := by omega
            obtain ⟨e1, ig, hig, hK⟩ := hInv.kept j w (hsub j w hjw' hwe) hwe
            refine ⟨by rw [hgetH j hj2]; exact e1, ig, ?_, ?_⟩
            · show (st.invgs ++ [ginv])[j]? = some ig
              rw [List.getElem?_append_left (by rw [h.lenI]; exact hj2)]; exact hig
            · rw [getD_append_singleton, if_pos (by omega)]; exact hK
          · have hjl : j = ws'.length := by
              have := (List.getElem?_eq_some_iff.mp hjw').1
              simp at this; omega
            subst hjl
            rw [List.getElem?_append_right (Nat.le_refl _), Nat.sub_self] at hjw'
            simp only [List.getElem?_cons_zero, Option.some.injEq] at hjw'
            subst hjw'
            refine ⟨by rw [hw', hgetHl], ginv, ?_, ?_⟩
            · show (st.invgs ++ [ginv])[ws'.length]? = some ginv
              rw [List.getElem?_append_right (by rw [h.lenI, hw']), h.lenI, hw', Nat.sub_self]; rfl
            · rw [getD_append_singleton, if_neg (by omega), if_pos (by omega)]; exact hKW
        orth := by
          intro j l hj hl hne
          have hj' : j < st.ws.length + 1 := by rw [← hlen']; exact hj
          have hl' : l < st.ws.length + 1 := by rw [← hlen']; exact hl
          rcases Nat.lt_or_eq_of_le (Nat.le_of_lt_succ hj') with h1 | h1 <;>
            rcases Nat.lt_or_eq_of_le (Nat.le_of_lt_succ hl') with h2 | h2
          · rw [hgetH j h1, hgetH l h2]; exact hInv.orth j l h1 h2 hne
          · rw [hgetH j h1, h2, hgetHl]; exact hqW j h1
          · rw [h1, hgetHl, hgetH l h2]; exact hqW' l h2
          · omega
        yAll := by
          intro j hj
          have hj' : j < st.ws.length + 1 := by rw [← hlen']; exact hj
          show (CM cols.length _)ᵀ * gramA k cols * CM cols.length y' = 0
          rcases Nat.lt_or_eq_of_le (Nat.le_of_lt_succ hj') with h1 | h1
          · rw [hgetH j h1, hy'M, Matrix.mul_add, ← Matrix.mul_assoc]
            have e1 : (CM cols.length (hist.getD j []))ᵀ * gramA k cols * CM cols.length st.y = 0 := hInv.yAll j h1
            have e2 : (CM cols.length (hist.getD j []))ᵀ * gramA k cols *
                CM cols.length (next.map (fun v => v &&& mk)) = 0 := hqW j h1
            rw [e1, e2, Matrix.zero_mul, add_zero]
          · rw [h1, hgetHl]; exact hyorth
        yOrth := by
          intro X hX hall
          have hall' : ∀ j, j < st.ws.length → Q k cols X (hist.getD j []) = 0 := by
            intro j hj
            have := hall j (by rw [hlen']; omega)
            rwa [hgetH j hj] at this
          have hXW : Q k cols X (next.map (fun v => v &&& mk)) = 0 := by
            have := hall st.ws.length (by rw [hlen']; omega)
            rwa [hgetHl] at this
          have hJ := hInv.yOrth X hX hall'
          show (CM cols.length X)ᵀ * gramA k cols * (CM cols.length y' + CM cols.length Y0) = 0
          rw [hy'M, add_right_comm, Matrix.mul_add, hJ, zero_add, ← Matrix.mul_assoc]
          show Q k cols X (next.map (fun v => v &&& mk)) * _ = 0
          rw [hXW, Matrix.zero_mul] }

end Ymq.Gf2Small
