/-
The kernel path (`mulpbig`, `ker_pbig`): whatever vector is returned is a non-zero kernel vector.
-/
import Ymq.Model.WiedemannKer
import Ymq.Lemmas.WiedemannKrylov

namespace Ymq.Wied
open Matrix

variable {p : ℕ}

theorem chkI_eq {w : ℕ} {z y : Int} (h : chkI w z = some y) : y = z := by
  unfold chkI at h; split at h
  · exact (Option.some.inj h).symm
  · simp at h

/-- whatever an accumulation pass returns is the exact integer sum (the checks only refuse) -/
theorem accPassW_exact (w : ℕ) (sel : Int → Bool) (term : ℕ → Int → Option Int) (col : ℕ → ℕ)
    (c : ℕ × Int → Int) :
    ∀ (r : Row) (x y : Int), accPassW w sel term col r x = some y →
      (∀ je ∈ r, sel je.2 = true → ∀ t, term (col je.1) je.2 = some t → t = c je) →
      y = x + sumSel sel c r
  | [], x, y, h, _ => by simp [accPassW] at h; simp [sumSel, h]
  | (j, e) :: r, x, y, h, hc => by
    unfold accPassW at h
    unfold sumSel
    by_cases hs : sel e = true
    · simp only [hs, if_true] at h ⊢
      cases ht : term (col j) e with
      | none => rw [ht] at h; simp at h
      | some t =>
        rw [ht] at h; simp only at h
        cases hx : chkI w (x + t) with
        | none => rw [hx] at h; simp at h
        | some x' =>
          rw [hx] at h; simp only at h
          have e1 := chkI_eq hx
          have e2 := hc (j, e) List.mem_cons_self hs t ht
          have := accPassW_exact w sel term col c r x' y h
            (fun je hje => hc je (List.mem_cons_of_mem _ hje))
          rw [this, e1, e2]; ring
    · simp only [hs, Bool.false_eq_true, if_false, zero_add] at h ⊢
      exact accPassW_exact w sel term col c r x y h (fun je hje => hc je (List.mem_cons_of_mem _ hje))

theorem asI_small {w a : ℕ} (h : (a : Int) < 2 ^ (w - 1)) : asI w a = a := by simp [asI, h]

/-- one row of `mulpbig`: if it returns, it returns `(Σ_j M_ij v_j) mod p` -/
theorem rowBig_exact (w : ℕ) (col : ℕ → ℕ) (hcol : ∀ j, (col j : Int) < 2 ^ (w - 1)) (p : ℕ)
    (hp : (p : Int) < 2 ^ (w - 1)) (r : Row) (o : ℕ) (h : rowBig w col p r = some o) :
    o = (rowDot col r % (p : Int)).toNat ∧ p ≠ 0 := by
  unfold rowBig at h
  cases h1 : accPassW w (fun e => e == 1) (fun a _ => some (asI w a)) col r 0 with
  | none => rw [h1] at h; simp at h
  | some x1 =>
    rw [h1] at h; simp only at h
    cases h2 : accPassW w (fun e => e == -1) (fun a _ => some (-asI w a)) col r x1 with
    | none => rw [h2] at h; simp at h
    | some x2 =>
      rw [h2] at h; simp only at h
      cases h3 : accPassW w (fun e => e != 1 && e != -1) (fun a e => chkI w (e * asI w a)) col r x2 with
      | none => rw [h3] at h; simp at h
      | some x3 =>
        rw [h3] at h; simp only at h
        have e1 := accPassW_exact w selP _ col (fun je => (col je.1 : Int)) r 0 x1 h1
          (fun je _ _ t ht => by
            have := Option.some.inj ht; rw [← this, asI_small (hcol je.1)])
        have e2 := accPassW_exact w selM _ col (fun je => -(col je.1 : Int)) r x1 x2 h2
          (fun je _ _ t ht => by
            have := Option.some.inj ht; rw [← this, asI_small (hcol je.1)])
        have e3 := accPassW_exact w selX _ col (fun je => je.2 * (col je.1 : Int)) r x2 x3 h3
          (fun je _ _ t ht => by
            have := chkI_eq ht; rw [this, asI_small (hcol je.1)])
        have hx3 : x3 = rowDot col r := by rw [rowDot_split, e3, e2, e1]; ring
        unfold remEuclidW at h
        simp only [asI_small hp] at h
        by_cases hp0 : (p : Int) = 0
        · rw [if_pos hp0] at h; simp at h
        · rw [if_neg hp0] at h
          split at h
          · simp at h
          · refine ⟨by rw [← hx3]; exact (Option.some.inj h).symm, ?_⟩
            intro h0; apply hp0; rw [h0]; rfl

theorem mapM_some_getD {α} (f : α → Option ℕ) (d : α) : ∀ (l : List α) (out : List ℕ),
    l.mapM f = some out → out.length = l.length ∧
      ∀ i, i < l.length → f (l.getD i d) = some (out.getD i 0)
  | [], out, h => by
    simp at h; subst h; exact ⟨rfl, fun i hi => by simp at hi⟩
  | a :: l, out, h => by
    rw [List.mapM_cons] at h
    cases ha : f a with
    | none => rw [ha] at h; simp at h
    | some b =>
      rw [ha] at h
      cases hl : l.mapM f with
      | none => rw [hl] at h; simp at h
      | some bs =>
        rw [hl] at h
        have : out = b :: bs := by simpa using h.symm
        subst this
        obtain ⟨i1, i2⟩ := mapM_some_getD f d l bs hl
        refine ⟨by simp [i1], fun i hi => ?_⟩
        cases i with
        | zero => simpa using ha
        | succ i => simpa using i2 i (by simpa using hi)

/-- `mulpbig`: if it returns, it returns `M · v` over `ZMod p`, entry by entry -/
theorem mulpBig_exact (w : ℕ) (m : Mat) (p : ℕ) (hp : (p : Int) < 2 ^ (w - 1)) (v : List ℕ)
    (hv : ∀ j, ((v.getD j 0 : ℕ) : Int) < 2 ^ (w - 1)) (z : List ℕ)
    (h : mulpBig w m p v = some z) (hn : 0 < m.length) :
    p ≠ 0 ∧ z.length = m.length ∧
      ∀ i, i < m.length →
        z.getD i 0 = (rowDot (fun j => v.getD j 0) (m.getD i []) % (p : Int)).toNat := by
  unfold mulpBig at h
  split at h
  · simp at h
  · obtain ⟨h1, h2⟩ := mapM_some_getD _ [] m z h
    have h0 := (rowBig_exact w _ hv p hp _ _ (h2 0 hn)).2
    exact ⟨h0, h1, fun i hi => (rowBig_exact w _ hv p hp _ _ (h2 i hi)).1⟩


theorem getD_of_le (l : List ℕ) (i : ℕ) (h : l.length ≤ i) : l.getD i 0 = 0 := by
  simp [List.getD_eq_getElem?_getD, List.getElem?_eq_none h]

/-- state of the Horner loop: a vector of `size` reduced residues -/
def RedVec (p n : ℕ) (v : List ℕ) : Prop := v.length = n ∧ ∀ j, v.getD j 0 < p

theorem hornerBig_red (w : ℕ) (m : Mat) (p : ℕ) (cp v0 : List ℕ) :
    ∀ (c i : ℕ) (v out : List ℕ), hornerBig w m p cp v0 c i v = some out →
      RedVec p m.length v → RedVec p m.length out
  | 0, _, v, out, h, hv => by
    simp [hornerBig] at h; rw [← h]; exact hv
  | c + 1, i, v, out, h, _ => by
    unfold hornerBig at h
    cases h1 : mulpBig w m p v with
    | none => rw [h1] at h; simp at h
    | some u =>
      rw [h1] at h; simp only at h
      cases h2 : cp[i]? with
      | none => rw [h2] at h; simp at h
      | some ci =>
        rw [h2] at h; simp only at h
        by_cases hp0 : p = 0
        · rw [if_pos hp0] at h; simp at h
        · rw [if_neg hp0] at h
          refine hornerBig_red w m p cp v0 c (i + 1) _ out h ⟨by simp, fun j => ?_⟩
          by_cases hj : j < m.length
          · simp only [List.getD_eq_getElem?_getD, List.getElem?_map, List.getElem?_range hj,
              Option.map_some, Option.getD_some]
            exact Nat.mod_lt _ (Nat.pos_of_ne_zero hp0)
          · have hge : ((List.range m.length).map (fun j => (u.getD j 0 + ci * v0.getD j 0) % p)).length ≤ j := by
              simp; omega
            rw [getD_of_le _ _ hge]
            exact Nat.pos_of_ne_zero hp0

/-- **`ker_pbig` is sound**: a returned vector has `size` reduced entries, is not zero, and
`M · v = 0` over `ZMod p`. -/
theorem kerBig_sound (w : ℕ) (m : Mat) (hcols : ∀ r ∈ m, ∀ je ∈ r, je.1 < m.length) (p : ℕ)
    (hp : (p : Int) < 2 ^ (w - 1)) (v0 : List ℕ) (hv0 : ∀ x ∈ v0, x < p) (v : List ℕ)
    (h : kerBig w m p v0 = some (some v)) :
    RedVec p m.length v ∧ (∃ x ∈ v, x ≠ 0) ∧
      matOf p m.length m * colOf p m.length v = 0 := by
  unfold kerBig at h
  cases h1 : krylovBig w m p (2 * m.length + 1) (startVec m.length 0 1) [] with
  | none => rw [h1] at h; simp at h
  | some seq =>
    rw [h1] at h; simp only at h
    cases h2 : Ymq.BM.bmBig p seq with
    | none => rw [h2] at h; simp at h
    | some cp =>
      rw [h2] at h; simp only at h
      cases h3 : cp[m.length]? with
      | none => rw [h3] at h; simp at h
      | some c0 =>
        rw [h3] at h; simp only at h
        by_cases hc0 : c0 ≠ 0
        · rw [if_pos hc0] at h; simp at h
        · rw [if_neg hc0] at h
          cases h4 : cp[m.length - 1]? with
          | none => rw [h4] at h; simp at h
          | some c1 =>
            rw [h4] at h; simp only at h
            by_cases hc1 : c1 = 0
            · rw [if_pos hc1] at h; simp at h
            · rw [if_neg hc1] at h
              by_cases hl : v0.length ≠ m.length
              · rw [if_pos hl] at h; simp at h
              · rw [if_neg hl] at h
                cases h5 : hornerBig w m p cp v0 (m.length - 1) 1 v0 with
                | none => rw [h5] at h; simp at h
                | some v' =>
                  rw [h5] at h; simp only at h
                  cases h6 : mulpBig w m p v' with
                  | none => rw [h6] at h; simp at h
                  | some z =>
                    rw [h6] at h; simp only at h
                    by_cases hz : ¬ (z.all (· == 0)) = true
                    · rw [if_pos hz] at h; simp at h
                    · rw [if_neg hz] at h
                      by_cases hany : ¬ (v'.any (· != 0)) = true
                      · rw [if_pos hany] at h; simp at h
                      · rw [if_neg hany] at h
                        have hv : v' = v := by
                          have := Option.some.inj h
                          exact Option.some.inj this
                        subst hv
                        -- p > 0 : from the first mulpbig or from the seed entries
                        have hlen0 : v0.length = m.length := not_not.mp hl
                        have hn : 0 < m.length := by
                          by_contra hc
                          have hm0 : m.length = 0 := by omega
                          have : v0 = [] := List.length_eq_zero_iff.mp (by omega)
                          subst this
                          rw [hm0] at h5
                          simp [hornerBig] at h5
                          subst h5
                          simp at hany
                        have hp0 : 0 < p := by
                          have : 0 < v0.length := by omega
                          have hx := hv0 (v0[0]) (List.getElem_mem this)
                          omega
                        have hred0 : RedVec p m.length v0 := by
                          refine ⟨hlen0, fun j => ?_⟩
                          by_cases hj : j < v0.length
                          · have : v0.getD j 0 = v0[j] := by
                              simp [List.getD_eq_getElem?_getD, List.getElem?_eq_getElem hj]
                            rw [this]; exact hv0 _ (List.getElem_mem hj)
                          · rw [getD_of_le _ _ (by omega)]; exact hp0
                        have hred := hornerBig_red w m p cp v0 _ _ _ _ h5 hred0
                        have hvI : ∀ j, ((v'.getD j 0 : ℕ) : Int) < 2 ^ (w - 1) := fun j =>
                          lt_trans (by exact_mod_cast hred.2 j) hp
                        obtain ⟨_, z1, z2⟩ := mulpBig_exact w m p hp v' hvI z h6 hn
                        refine ⟨hred, ?_, ?_⟩
                        · have := not_not.mp hany
                          rw [List.any_eq_true] at this
                          obtain ⟨x, hx, hx'⟩ := this
                          exact ⟨x, hx, by simpa using hx'⟩
                        · have hall := not_not.mp hz
                          rw [List.all_eq_true] at hall
                          ext i k
                          rw [← mulp_matrix m.length m hcols v' hp0]
                          show (((m.map _).getD i.val 0 : ℕ) : ZMod p) = 0
                          have g0 : (rowDot (fun j => v'.getD j 0) [] % (p : Int)).toNat = 0 := by
                            simp [rowDot, sumSel]
                          rw [getD_map_zero _ g0, ← z2 i.val i.isLt]
                          have hi : i.val < z.length := by rw [z1]; exact i.isLt
                          have hzi : z.getD i.val 0 = z[i.val] := by
                            simp [List.getD_eq_getElem?_getD, List.getElem?_eq_getElem hi]
                          have := hall _ (List.getElem_mem hi)
                          rw [hzi]
                          simp at this
                          rw [this]; simp


theorem bitLen_lt (p k : ℕ) (h : bitLen p < k + 1) : p < 2 ^ k := by
  unfold bitLen at h
  by_cases hp : p = 0
  · subst hp; exact Nat.two_pow_pos k
  · rw [if_neg hp] at h
    exact (Nat.log2_lt hp).mp (by omega)

/-- the dispatch of `ker_p256` always picks a signed type in which `p` is positive, provided
`p < 2^255` -/
theorem kerWidth_bound (m : Mat) (p : ℕ) (h : p < 2 ^ 255) :
    (p : Int) < 2 ^ (kerWidth m p - 1) := by
  unfold kerWidth
  simp only
  split
  · rename_i hc
    have := bitLen_lt p 55 hc.1
    have h2 : (2 : ℕ) ^ 55 ≤ 2 ^ 63 := Nat.pow_le_pow_right (by norm_num) (by norm_num)
    exact_mod_cast lt_of_lt_of_le this h2
  · split
    · rename_i hc
      have := bitLen_lt p 119 hc.1
      have h2 : (2 : ℕ) ^ 119 ≤ 2 ^ 127 := Nat.pow_le_pow_right (by norm_num) (by norm_num)
      exact_mod_cast lt_of_lt_of_le this h2
    · split
      · rename_i hc
        have := bitLen_lt p 181 hc.1
        have h2 : (2 : ℕ) ^ 181 ≤ 2 ^ 191 := Nat.pow_le_pow_right (by norm_num) (by norm_num)
        exact_mod_cast lt_of_lt_of_le this h2
      · exact_mod_cast h

/-- `ker_pbig` returns `None` exactly when Berlekamp–Massey succeeds and the two lowest
coefficients of the characteristic polynomial it reads (`charpoly[size]`, `charpoly[size-1]`)
vanish -/
theorem kerBig_none_iff (w : ℕ) (m : Mat) (p : ℕ) (v0 : List ℕ) :
    kerBig w m p v0 = some none ↔
      ∃ seq cp, krylovBig w m p (2 * m.length + 1) (startVec m.length 0 1) [] = some seq ∧
        Ymq.BM.bmBig p seq = some cp ∧ cp[m.length]? = some 0 ∧ cp[m.length - 1]? = some 0 := by
  constructor
  · intro h
    unfold kerBig at h
    cases h1 : krylovBig w m p (2 * m.length + 1) (startVec m.length 0 1) [] with
    | none => rw [h1] at h; simp at h
    | some seq =>
      rw [h1] at h; simp only at h
      cases h2 : Ymq.BM.bmBig p seq with
      | none => rw [h2] at h; simp at h
      | some cp =>
        rw [h2] at h; simp only at h
        cases h3 : cp[m.length]? with
        | none => rw [h3] at h; simp at h
        | some c0 =>
          rw [h3] at h; simp only at h
          by_cases hc0 : c0 ≠ 0
          · rw [if_pos hc0] at h; simp at h
          · rw [if_neg hc0] at h
            cases h4 : cp[m.length - 1]? with
            | none => rw [h4] at h; simp at h
            | some c1 =>
              rw [h4] at h; simp only at h
              by_cases hc1 : c1 = 0
              · exact ⟨seq, cp, rfl, h2, by rw [h3, not_not.mp hc0], by rw [h4, hc1]⟩
              · rw [if_neg hc1] at h
                exfalso
                split at h
                · simp at h
                · split at h
                  · simp at h
                  · split at h
                    · simp at h
                    · split at h
                      · simp at h
                      · split at h
                        · simp at h
                        · simp at h
  · rintro ⟨seq, cp, h1, h2, h3, h4⟩
    simp [kerBig, h1, h2, h3, h4]

/-- a nonsingular matrix (the polynomial read has `charpoly[size] ≠ 0`) makes `ker_pbig` panic:
`assert!(c0.is_zero())` -/
theorem kerBig_panic_of_c0 (w : ℕ) (m : Mat) (p : ℕ) (v0 seq cp : List ℕ) (c0 : ℕ)
    (h1 : krylovBig w m p (2 * m.length + 1) (startVec m.length 0 1) [] = some seq)
    (h2 : Ymq.BM.bmBig p seq = some cp) (h3 : cp[m.length]? = some c0) (hc : c0 ≠ 0) :
    kerBig w m p v0 = none := by
  simp [kerBig, h1, h2, h3, hc]

/-- a panic of Berlekamp–Massey (in particular the degenerate Krylov sequence `[1,0,...,0]`:
`bm_big_no_panic_iff`) is a panic of `ker_pbig` -/
theorem kerBig_panic_of_bm (w : ℕ) (m : Mat) (p : ℕ) (v0 seq : List ℕ)
    (h1 : krylovBig w m p (2 * m.length + 1) (startVec m.length 0 1) [] = some seq)
    (h2 : Ymq.BM.bmBig p seq = none) : kerBig w m p v0 = none := by
  simp [kerBig, h1, h2]

end Ymq.Wied
