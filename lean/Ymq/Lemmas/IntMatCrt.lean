/-
Lemmas for the CRT reconstruction of src/matrix/intdense.rs (`crt`) and src/matrix/intsparse.rs
(`_crt`): model in Ymq/Model/IntMat.lean.
-/
import Ymq.Model.IntMat
import Mathlib.Data.Nat.ModEq
import Mathlib.Data.Int.ModEq
import Mathlib.Data.Nat.GCD.BigOperators
import Mathlib.Algebra.BigOperators.Group.List.Basic
import Mathlib.Algebra.BigOperators.Ring.List
import Mathlib.Algebra.Order.BigOperators.GroupWithZero.List
import Mathlib.Algebra.Ring.Divisibility.Basic
import Mathlib.Tactic.Ring
import Mathlib.Tactic.Linarith

namespace Ymq.IntMat

/-- 2^64 -/
def U64 : Nat := 18446744073709551616

/-- Specification of `arith::inv_mod64` used by the CRT theorems (property C08): for `u64` arguments, a modulus
`p > 1` and `a` coprime to `p` the routine returns `Some(i)` with `i < p` and `a·i ≡ 1 (mod p)`. -/
def InvSpec (inv : Inv) : Prop :=
  ∀ a p : Nat, a < U64 → p < U64 → 1 < p → Nat.Coprime a p →
    ∃ i, inv a p = some (some i) ∧ i < p ∧ a * i % p = 1

theorem prodSkip_pos (i : Nat) : ∀ (ps : List Nat) (j : Nat), (∀ p ∈ ps, 1 ≤ p) → 1 ≤ prodSkip i ps j
  | [], _, _ => by simp [prodSkip]
  | p :: ps, j, h => by
    have hp : 1 ≤ p := h p (by simp)
    have ih := prodSkip_pos i ps (j + 1) (fun q hq => h q (by simp [hq]))
    unfold prodSkip
    split
    · exact ih
    · exact Nat.mul_pos hp ih

/-- skipping an index outside of the list: the whole product -/
theorem prodSkip_out (i : Nat) : ∀ (ps : List Nat) (j : Nat), (i < j ∨ j + ps.length ≤ i) →
    prodSkip i ps j = ps.prod
  | [], _, _ => by simp [prodSkip]
  | p :: ps, j, h => by
    have hlen : (p :: ps).length = ps.length + 1 := by simp
    rw [hlen] at h
    have hij : i ≠ j := by omega
    have h' : i < j + 1 ∨ j + 1 + ps.length ≤ i := by omega
    unfold prodSkip
    rw [if_neg hij, prodSkip_out i ps (j + 1) h', List.prod_cons]

/-- `prodSkip i ps j · ps[i - j] = ps.prod` -/
theorem prodSkip_mul (i : Nat) : ∀ (ps : List Nat) (j : Nat) (h : j ≤ i) (h2 : i - j < ps.length),
    prodSkip i ps j * ps[i - j] = ps.prod
  | [], _, _, h2 => by simp at h2
  | p :: ps, j, h, h2 => by
    unfold prodSkip
    by_cases hij : i = j
    · subst hij
      rw [if_pos rfl, prodSkip_out i ps (i + 1) (by left; omega)]
      simp [Nat.mul_comm]
    · rw [if_neg hij]
      have hlt : j + 1 ≤ i := by omega
      have h3 : i - (j + 1) < ps.length := by simp at h2; omega
      have ih := prodSkip_mul i ps (j + 1) hlt h3
      have e : (p :: ps)[i - j] = ps[i - (j + 1)] := by
        have : i - j = (i - (j + 1)) + 1 := by omega
        simp [this]
      rw [e, Nat.mul_assoc, ih]
      simp

/-- every entry at an index different from `i` divides `prodSkip` -/
theorem dvd_prodSkip (i : Nat) : ∀ (ps : List Nat) (j t : Nat) (ht : t < ps.length), j + t ≠ i →
    ps[t] ∣ prodSkip i ps j
  | [], _, _, ht, _ => by simp at ht
  | p :: ps, j, t, ht, hne => by
    unfold prodSkip
    cases t with
    | zero =>
      have : i ≠ j := by omega
      rw [if_neg this]; simp
    | succ t =>
      have ht' : t < ps.length := by simp at ht; omega
      have ih := dvd_prodSkip i ps (j + 1) t ht' (by omega)
      simp only [List.getElem_cons_succ]
      split
      · exact ih
      · exact Dvd.dvd.mul_left ih p

theorem I4096LIM_ge : (2 : Int) ^ 256 ≤ I4096LIM := by
  unfold I4096LIM
  exact pow_le_pow_right₀ (by norm_num) (by norm_num)

theorem fit4096_of_lt {x : Int} (h0 : 0 ≤ x) (h : x < I4096LIM) : fit4096 x = some x := by
  unfold fit4096
  have : -I4096LIM ≤ x := by
    have : (0 : Int) ≤ I4096LIM := by unfold I4096LIM; positivity
    linarith
  simp [this, h]

/-- the inner loop of `crt`: value of the product, and the running inverse stays an inverse -/
theorem crtBasisLoop_spec (inv : Inv) (hinv : InvSpec inv) (i pi : Nat) (hpi : 1 < pi) (hpiU : pi < U64) :
    ∀ (ps : List Nat) (j : Nat) (b : Int) (a : Nat), 0 ≤ b → (∀ p ∈ ps, 1 ≤ p ∧ p < U64) →
      b * (prodSkip i ps j : Int) < I4096LIM →
      (∀ t (ht : t < ps.length), j + t ≠ i → Nat.Coprime ps[t] pi) → a < pi →
      ∃ a', crtBasisLoop inv i pi ps j b a = some (b * (prodSkip i ps j : Int), a') ∧ a' < pi ∧
        a' * prodSkip i ps j % pi = a % pi
  | [], j, b, a, _, _, _, _, ha => by
    refine ⟨a, ?_, ha, ?_⟩ <;> simp [crtBasisLoop, prodSkip]
  | pj :: ps, j, b, a, hb, hpos, hfit, hcop, ha => by
    have hpos' : ∀ p ∈ ps, 1 ≤ p ∧ p < U64 := fun q hq => hpos q (by simp [hq])
    have hpos1 : ∀ p ∈ ps, 1 ≤ p := fun q hq => (hpos' q hq).1
    have hcop' : ∀ t (ht : t < ps.length), (j + 1) + t ≠ i → Nat.Coprime ps[t] pi := by
      intro t ht hne
      have := hcop (t + 1) (by simp; omega) (by omega)
      simpa using this
    unfold crtBasisLoop
    by_cases hij : i = j
    · rw [if_pos hij]
      have e : prodSkip i (pj :: ps) j = prodSkip i ps (j + 1) := by
        rw [prodSkip, if_pos hij]
      rw [e] at hfit ⊢
      exact crtBasisLoop_spec inv hinv i pi hpi hpiU ps (j + 1) b a hb hpos' hfit hcop' ha
    · rw [if_neg hij]
      have e : prodSkip i (pj :: ps) j = pj * prodSkip i ps (j + 1) := by
        rw [prodSkip, if_neg hij]
      rw [e] at hfit ⊢
      have hpj : 1 ≤ pj := (hpos pj (by simp)).1
      have hpjU : pj < U64 := (hpos pj (by simp)).2
      have hrest : 1 ≤ prodSkip i ps (j + 1) := prodSkip_pos i ps (j + 1) hpos1
      have hb' : (0 : Int) ≤ b * pj := by positivity
      have hfit1 : b * (pj : Int) < I4096LIM := by
        have h1 : b * (pj : Int) ≤ b * ((pj * prodSkip i ps (j + 1) : Nat) : Int) := by
          apply mul_le_mul_of_nonneg_left _ hb
          have : pj ≤ pj * prodSkip i ps (j + 1) := Nat.le_mul_of_pos_right _ hrest
          exact_mod_cast this
        linarith
      rw [fit4096_of_lt hb' hfit1]
      have hc : Nat.Coprime pj pi := by
        have := hcop 0 (by simp) (by omega)
        simpa using this
      obtain ⟨ij, hij1, hij2, hij3⟩ := hinv pj pi hpjU hpiU hpi hc
      simp only [hij1]
      have hpi0 : pi ≠ 0 := by omega
      rw [if_neg hpi0]
      have hfit2 : b * (pj : Int) * (prodSkip i ps (j + 1) : Int) < I4096LIM := by
        have : b * ((pj * prodSkip i ps (j + 1) : Nat) : Int) = b * pj * prodSkip i ps (j + 1) := by
          push_cast; ring
        rw [← this]; exact hfit
      have ha' : a * ij % pi < pi := Nat.mod_lt _ (by omega)
      obtain ⟨a', h1, h2, h3⟩ := crtBasisLoop_spec inv hinv i pi hpi hpiU ps (j + 1) (b * pj) (a * ij % pi)
        hb' hpos' hfit2 hcop' ha'
      refine ⟨a', ?_, h2, ?_⟩
      · rw [h1]; congr 1; push_cast; ring_nf
      · -- a' * (pj * rest) ≡ pj * (a * ij) ≡ a
        have e1 : a' * (pj * prodSkip i ps (j + 1)) = pj * (a' * prodSkip i ps (j + 1)) := by ring
        rw [e1, Nat.mul_mod, h3, Nat.mod_mod, ← Nat.mul_mod]
        have e2 : pj * (a * ij) = a * (pj * ij) := by ring
        rw [e2, Nat.mul_mod, hij3, Nat.mul_one, Nat.mod_mod]

theorem mapOpt_eq_some {α β} (f : α → Option β) (g : α → β) :
    ∀ l : List α, (∀ x ∈ l, f x = some (g x)) → mapOpt f l = some (l.map g)
  | [], _ => rfl
  | a :: as, h => by
    have h1 := h a (by simp)
    have h2 := mapOpt_eq_some f g as (fun x hx => h x (by simp [hx]))
    simp [mapOpt, h1, h2]

theorem list_prod_pos (ps : List Nat) (h : ∀ p ∈ ps, 1 ≤ p) : 1 ≤ ps.prod :=
  List.prod_pos (fun a ha => h a ha)

/-- `crtProd` multiplies the accumulator by the product of the list -/
theorem crtProd_spec : ∀ (ps : List Nat) (acc : Int), 0 ≤ acc → (∀ p ∈ ps, 1 ≤ p) →
    acc * (ps.prod : Int) < I4096LIM → crtProd ps acc = some (acc * ps.prod)
  | [], acc, _, _, _ => by simp [crtProd]
  | p :: ps, acc, h0, hpos, hfit => by
    have hp : 1 ≤ p := hpos p (by simp)
    have hpos' : ∀ q ∈ ps, 1 ≤ q := fun q hq => hpos q (by simp [hq])
    have hprod : 1 ≤ ps.prod := list_prod_pos ps hpos'
    have e : acc * (((p :: ps).prod : Nat) : Int) = acc * p * ps.prod := by
      rw [List.prod_cons]; push_cast; ring
    rw [e] at hfit
    have h1 : (0 : Int) ≤ acc * p := by positivity
    have h2 : acc * (p : Int) < I4096LIM := by
      have : acc * (p : Int) ≤ acc * p * ps.prod := by
        have : (1 : Int) ≤ ps.prod := by exact_mod_cast hprod
        nlinarith
      linarith
    have ih := crtProd_spec ps (acc * p) h1 hpos' hfit
    simp only [crtProd, fit4096_of_lt h1 h2, ih, e]

/-- 2^64 -/
def W64 : Int := 18446744073709551616

/-- `crtSum` is the dot product when every partial sum fits -/
theorem crtSum_spec : ∀ (ms : List Nat) (bs : List Int) (acc B : Int), ms.length = bs.length →
    0 ≤ acc → (∀ m ∈ ms, (m : Int) < W64) → (∀ b ∈ bs, 0 ≤ b ∧ b < B) →
    acc + ms.length * (W64 * B) < I4096LIM → 0 ≤ B →
    crtSum ms bs acc = some (acc + (List.zipWith (fun (m : Nat) (b : Int) => (m : Int) * b) ms bs).sum)
  | [], [], acc, _, _, _, _, _, _, _ => by simp [crtSum]
  | [], _ :: _, _, _, h, _, _, _, _, _ => by simp at h
  | _ :: _, [], _, _, h, _, _, _, _, _ => by simp at h
  | m :: ms, b :: bs, acc, B, hlen, h0, hm, hb, hfit, hB => by
    have hm1 : (m : Int) < W64 := hm m (by simp)
    have hW : (0 : Int) ≤ W64 := by unfold W64; decide
    obtain ⟨hb0, hb1⟩ := hb b (by simp)
    have ht0 : (0 : Int) ≤ m * b := mul_nonneg (Int.natCast_nonneg m) hb0
    have ht1 : (m : Int) * b ≤ W64 * B := by
      have : (0 : Int) ≤ m := Int.natCast_nonneg m
      nlinarith
    have hlen' : ms.length = bs.length := by simpa using hlen
    have hcast : (((m :: ms).length : Nat) : Int) = ms.length + 1 := by simp
    rw [hcast] at hfit
    have hnn : (0 : Int) ≤ (ms.length : Int) * (W64 * B) :=
      mul_nonneg (Int.natCast_nonneg _) (mul_nonneg hW hB)
    have hfit1 : (m : Int) * b < I4096LIM := by nlinarith
    have hfit2 : acc + (m : Int) * b < I4096LIM := by nlinarith
    have ih := crtSum_spec ms bs (acc + m * b) B hlen' (by linarith) (fun x hx => hm x (by simp [hx]))
      (fun x hx => hb x (by simp [hx])) (by nlinarith) hB
    simp only [crtSum, fit4096_of_lt ht0 hfit1, fit4096_of_lt (show (0 : Int) ≤ acc + m * b by linarith) hfit2, ih,
      List.zipWith_cons_cons, List.sum_cons]
    congr 1; ring

/-- a list sum minus one of its terms is divisible by `c` when all the other terms are -/
theorem dvd_sum_sub_getElem (c : Int) : ∀ (ts : List Int) (k : Nat) (hk : k < ts.length),
    (∀ t (ht : t < ts.length), t ≠ k → c ∣ ts[t]) → c ∣ ts.sum - ts[k]
  | [], _, hk, _ => by simp at hk
  | x :: ts, 0, _, h => by
    simp only [List.sum_cons, List.getElem_cons_zero, add_sub_cancel_left]
    apply List.dvd_sum
    intro y hy
    obtain ⟨t, ht, rfl⟩ := List.getElem_of_mem hy
    have := h (t + 1) (by simp; omega) (by omega)
    simpa using this
  | x :: ts, k + 1, hk, h => by
    have hk' : k < ts.length := by simp at hk; omega
    have ih := dvd_sum_sub_getElem c ts k hk' (by
      intro t ht hne
      have := h (t + 1) (by simp; omega) (by omega)
      simpa using this)
    have hx : c ∣ x := by
      have := h 0 (by simp) (by omega)
      simpa using this
    simp only [List.sum_cons, List.getElem_cons_succ]
    have : x + ts.sum - ts[k] = x + (ts.sum - ts[k]) := by ring
    rw [this]
    exact dvd_add hx ih

/-- pairwise coprime moduli: divisibility by each gives divisibility by the product -/
theorem prod_dvd_of_pairwise_coprime : ∀ (ps : List Nat) (x : Int), ps.Pairwise Nat.Coprime →
    (∀ p ∈ ps, (p : Int) ∣ x) → ((ps.prod : Nat) : Int) ∣ x
  | [], x, _, _ => by simp
  | p :: ps, x, hco, h => by
    rw [List.pairwise_cons] at hco
    have ih := prod_dvd_of_pairwise_coprime ps x hco.2 (fun q hq => h q (by simp [hq]))
    have hp := h p (by simp)
    have hc : Nat.Coprime p ps.prod := Nat.coprime_list_prod_right_iff.mpr hco.1
    rw [Int.ofNat_dvd_left] at ih hp ⊢
    rw [List.prod_cons]
    exact Nat.Coprime.mul_dvd_of_dvd_of_dvd hc hp ih

/-- the symmetric lift recovers `d` from any non-negative representative of its class -/
theorem symLift_spec (S P d : Int) (hP : 0 < P) (hS : 0 ≤ S) (hdvd : P ∣ S - d)
    (hd1 : -P < 2 * d) (hd2 : 2 * d ≤ P) : symLift S P = some d := by
  unfold symLift
  rw [if_neg (by omega)]
  obtain ⟨k, hk⟩ := hdvd
  have htm : Int.tmod S P = S % P := Int.tmod_eq_emod_of_nonneg hS
  simp only [htm]
  by_cases hd : 0 ≤ d
  · have e : S % P = d := by
      have : S = d + P * k := by linarith
      rw [this, Int.add_mul_emod_self_left]
      exact Int.emod_eq_of_lt hd (by omega)
    rw [e]
    have : ¬ d > P / 2 := by omega
    simp [this]
  · have e : S % P = d + P := by
      have : S = (d + P) + P * (k - 1) := by ring_nf; linarith
      rw [this, Int.add_mul_emod_self_left]
      exact Int.emod_eq_of_lt (by omega) (by omega)
    rw [e]
    have : d + P > P / 2 := by omega
    simp [this]

/-- pairwise coprime entries at different positions -/
theorem coprime_of_pairwise (ps : List Nat) (hco : ps.Pairwise Nat.Coprime) (s t : Nat)
    (hs : s < ps.length) (ht : t < ps.length) (hne : s ≠ t) : Nat.Coprime ps[s] ps[t] := by
  rw [List.pairwise_iff_getElem] at hco
  rcases Nat.lt_or_gt_of_ne hne with h | h
  · exact hco s t hs ht h
  · exact (hco t s ht hs h).symm

theorem nat_dvd_sub_one_of_mod {x p : Nat} (h : x % p = 1) : ((p : Nat) : Int) ∣ (x : Int) - 1 := by
  have h1 : x = p * (x / p) + 1 := by
    have := Nat.div_add_mod x p
    omega
  refine ⟨(x / p : Nat), ?_⟩
  have : (x : Int) = (p : Int) * ((x / p : Nat) : Int) + 1 := by exact_mod_cast h1
  linarith

/-- `crt_basis[i]` is `≡ 1` modulo `p_i`, `≡ 0` modulo the other moduli, and below their product -/
theorem crtBasis_spec (inv : Inv) (hinv : InvSpec inv) (ps : List Nat) (hp : ∀ p ∈ ps, 1 < p)
    (hU : ∀ p ∈ ps, p < U64) (hco : ps.Pairwise Nat.Coprime) (hfit : ((ps.prod : Nat) : Int) < I4096LIM) (i : Nat) (hi : i < ps.length) :
    ∃ v, crtBasis inv ps i = some v ∧ 0 ≤ v ∧ v < ((ps.prod : Nat) : Int) ∧
      ((ps[i] : Nat) : Int) ∣ v - 1 ∧
      ∀ k (hk : k < ps.length), k ≠ i → ((ps[k] : Nat) : Int) ∣ v := by
  have hpi : 1 < ps[i] := hp _ (List.getElem_mem hi)
  have hpos : ∀ p ∈ ps, 1 ≤ p := fun p h => Nat.le_of_lt (hp p h)
  have hmul : prodSkip i ps 0 * ps[i] = ps.prod := by
    have := prodSkip_mul i ps 0 (Nat.zero_le _) (by simpa using hi)
    simpa using this
  have hskip_le : prodSkip i ps 0 ≤ ps.prod := by
    rw [← hmul]; exact Nat.le_mul_of_pos_right _ (by omega)
  have hfit1 : (1 : Int) * (prodSkip i ps 0 : Int) < I4096LIM := by
    have : ((prodSkip i ps 0 : Nat) : Int) ≤ ((ps.prod : Nat) : Int) := by exact_mod_cast hskip_le
    linarith
  have hcop : ∀ t (ht : t < ps.length), 0 + t ≠ i → Nat.Coprime ps[t] ps[i] := by
    intro t ht hne
    exact coprime_of_pairwise ps hco t i ht hi (by omega)
  obtain ⟨a', h1, h2, h3⟩ := crtBasisLoop_spec inv hinv i ps[i] hpi (hU _ (List.getElem_mem hi)) ps 0 1 1 (by norm_num)
    (fun p hpm => ⟨hpos p hpm, hU p hpm⟩) hfit1 hcop hpi
  have h3' : a' * prodSkip i ps 0 % ps[i] = 1 := by
    rw [h3]; exact Nat.mod_eq_of_lt hpi
  have hvlt : a' * prodSkip i ps 0 < ps.prod := by
    rw [← hmul, Nat.mul_comm]
    exact Nat.mul_lt_mul_of_pos_left h2 (prodSkip_pos i ps 0 hpos)
  refine ⟨((a' * prodSkip i ps 0 : Nat) : Int), ?_, Int.natCast_nonneg _, by exact_mod_cast hvlt, ?_, ?_⟩
  · unfold crtBasis
    rw [List.getElem?_eq_getElem hi]
    simp only [h1]
    have e : (1 : Int) * (prodSkip i ps 0 : Int) * (a' : Int) = ((a' * prodSkip i ps 0 : Nat) : Int) := by
      push_cast; ring
    rw [e]
    apply fit4096_of_lt (Int.natCast_nonneg _)
    have : ((a' * prodSkip i ps 0 : Nat) : Int) < ((ps.prod : Nat) : Int) := by exact_mod_cast hvlt
    linarith
  · exact nat_dvd_sub_one_of_mod h3'
  · intro k hk hne
    have := dvd_prodSkip i ps 0 k hk (by omega)
    have : ps[k] ∣ a' * prodSkip i ps 0 := Dvd.dvd.mul_left this a'
    exact_mod_cast this

/-- the term of index `i` in the sum of `_crt` (intsparse.rs) -/
theorem crtSparseTerm_spec (inv : Inv) (hinv : InvSpec inv) (modp ps : List Nat) (hlen : modp.length = ps.length)
    (hp : ∀ p ∈ ps, 1 < p) (hU : ∀ p ∈ ps, p < U64) (hco : ps.Pairwise Nat.Coprime) (i : Nat) (hi : i < ps.length) :
    ∃ v, crtSparseTerm inv modp ps i = some v ∧ 0 ≤ v ∧
      ((ps[i] : Nat) : Int) ∣ v - ((modp[i]'(by omega) : Nat) : Int) ∧
      ∀ k (hk : k < ps.length), k ≠ i → ((ps[k] : Nat) : Int) ∣ v := by
  have hi' : i < modp.length := by omega
  have hpi : 1 < ps[i] := hp _ (List.getElem_mem hi)
  have hpos : ∀ p ∈ ps, 1 ≤ p := fun p h => Nat.le_of_lt (hp p h)
  have hmul : prodSkip i ps 0 * ps[i] = ps.prod := by
    have := prodSkip_mul i ps 0 (Nat.zero_le _) (by simpa using hi)
    simpa using this
  -- the basis is coprime to p_i
  have hcb : Nat.Coprime (prodSkip i ps 0 % ps[i]) ps[i] := by
    have h1 : ∀ (l : List Nat) (j : Nat), (∀ t (ht : t < l.length), j + t ≠ i → Nat.Coprime l[t] ps[i]) →
        Nat.Coprime (prodSkip i l j) ps[i] := by
      intro l
      induction l with
      | nil => intro j _; simp [prodSkip]
      | cons q l ih =>
        intro j h
        have h' : ∀ t (ht : t < l.length), (j + 1) + t ≠ i → Nat.Coprime l[t] ps[i] := by
          intro t ht hne
          have := h (t + 1) (by simp; omega) (by omega)
          simpa using this
        unfold prodSkip
        split
        · exact ih (j + 1) h'
        · rename_i hij
          have hq : Nat.Coprime q ps[i] := by
            have := h 0 (by simp) (by omega)
            simpa using this
          exact Nat.Coprime.mul_left hq (ih (j + 1) h')
    have hc0 : Nat.Coprime (prodSkip i ps 0) ps[i] :=
      h1 ps 0 (fun t ht hne => coprime_of_pairwise ps hco t i ht hi (by omega))
    show Nat.gcd (prodSkip i ps 0 % ps[i]) ps[i] = 1
    rw [← Nat.gcd_rec]
    exact Nat.Coprime.symm hc0
  have hpiU : ps[i] < U64 := hU _ (List.getElem_mem hi)
  obtain ⟨iv, hiv1, hiv2, hiv3⟩ := hinv _ _ (lt_trans (Nat.mod_lt _ (by omega)) hpiU) hpiU hpi hcb
  refine ⟨((modp[i] * iv % ps[i] * prodSkip i ps 0 : Nat) : Int), ?_, Int.natCast_nonneg _, ?_, ?_⟩
  · unfold crtSparseTerm
    rw [List.getElem?_eq_getElem hi', List.getElem?_eq_getElem hi]
    simp only [hiv1]
    rw [if_neg (by omega)]
  · -- (m * iv % p) * B ≡ m * (iv * B) ≡ m  (mod p)
    have hB : iv * prodSkip i ps 0 % ps[i] = 1 := by
      rw [Nat.mul_comm, ← Nat.mod_mul_mod, hiv3]
    have key : (modp[i] * iv % ps[i] * prodSkip i ps 0) % ps[i] = modp[i] % ps[i] := by
      rw [Nat.mul_mod, Nat.mod_mod, ← Nat.mul_mod, Nat.mul_assoc, Nat.mul_mod, hB, Nat.mul_one, Nat.mod_mod]
    have : (modp[i] * iv % ps[i] * prodSkip i ps 0) ≡ modp[i] [MOD ps[i]] := key
    have := (Nat.modEq_iff_dvd.mp this.symm)
    simpa using this
  · intro k hk hne
    have := dvd_prodSkip i ps 0 k hk (by omega)
    have : ps[k] ∣ modp[i] * iv % ps[i] * prodSkip i ps 0 := Dvd.dvd.mul_left this _
    exact_mod_cast this

end Ymq.IntMat
