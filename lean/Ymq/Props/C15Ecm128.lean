/-
C15 / C16 — one run of the 128-bit ECM end to end (`ecm128::ecm_curve` and the curve loop of `ecm128::ecm`; model:
Ymq/Model/Ecm128Curve.lean, an interpreter over abstract point operations; lemmas: Ymq/Lemmas/Ecm128Curve*.lean).

As in Props/C15Stage2.lean the group-level statements read the point operations in an additive commutative group in which
the formulas are the group law (`grp128`: `ext`/`proj` are the identity, `double`/`dblext` are `x + x`, `add` is `+`,
`dbladd q g = (q + q) + g`, the coordinate negation is `-`); the exceptional points of the extended addition (listed
finding) are outside these statements. Only property theorems live here.
-/
import Ymq.Lemmas.Ecm128CurveGroup
import Ymq.Lemmas.Ecm128CurveTotal
import Ymq.Props.C15Stage2

namespace Ymq.C15
open Ymq.Chain Ymq.EcmCurve Ymq.Ecm128Curve Ymq.Stage2 Ymq.Gen

section Group
variable {G : Type} [AddCommGroup G]

/-- **Stage 1 of `ecm128::ecm_curve`.** For `u64` blocks, whatever number `xv` reads off a point and whatever `n` is: if
stage 1 goes on to stage 2 it does so with `[∏ factors] P`; it never panics; and with no exit the blocks applied in
order give that point. -/
theorem e128_stage1_point_spec (n : Nat) (xv : G → Nat) (factors : List Nat) (hf : ∀ f ∈ factors, f < 2 ^ 64) (P : G) :
    GoesTo (Ecm128Curve.stage1 (grp128 : Ops128 G G) n xv factors P) (factors.prod • P) ∧
    NoPanic (Ecm128Curve.stage1 (grp128 : Ops128 G G) n xv factors P) ∧
    Ecm128Curve.stage1Point (grp128 : Ops128 G G) factors P = some (factors.prod • P) :=
  Ecm128Curve.stage1_spec n xv factors P hf

/-- … for the blocks of `SmoothBase::new(b1, false)` as `ecm128::ecm` builds them (C17). `ecm_curve` reads `sb.factors`
only: the statement about the prime powers below `b1` is about `factors` and `larges` together (C17 does not prove that
`larges` is empty when `use_large` is false; on every instance evaluated it is — see the example below). -/
theorem e128_stage1_point_of_smoothbase (b1 : Nat) (hb : b1 ≤ 2 ^ 24) (P : G) :
    ∃ f l, Ymq.SmoothBase.new b1 false = some (f, l) ∧
      Ecm128Curve.stage1Point (grp128 : Ops128 G G) f P = some (f.prod • P) ∧
      ∀ p k, p.Prime → p ^ k < b1 → p ^ k ∣ f.prod * l.prod := by
  obtain ⟨f, l, h1, h2, _, h4⟩ := Ymq.C17.smoothbase_divides_16M b1 false hb
  exact ⟨f, l, h1, (e128_stage1_point_spec 0 (fun _ => 0) f h2 P).2.2, h4⟩

/-- **Baby steps.** For an even `d1 ≥ 4` the walk never indexes outside `gaps` and never underflows, and the table holds
`[b] Q` for exactly the `b` of `babyIdx d1` (the index list of `ecm::ecm_curve`), in order. -/
theorem e128_baby_steps_spec (Q : G) {d1 : Nat} (hev : 2 ∣ d1) (h4 : 4 ≤ d1) :
    Ecm128Curve.babySteps (grp128 : Ops128 G G) d1 Q = some ((babyIdx d1).map (· • Q)) := by
  rw [Ecm128Curve.babySteps_eq]; exact baby_steps_spec Q hev h4

/-- **Giant steps.** The table holds `[i d1] Q` for exactly `i = 1, 2, 3, …, d2` (`giantIdx d2`), in order: the first by
`scalar64_mul`, the second by `dblext`, the others by `d2 - 2` extended additions. -/
theorem e128_giant_steps_spec (Q : G) {d1 : Nat} (hd : d1 < 2 ^ 64) (d2 : Nat) :
    Ecm128Curve.giantSteps (grp128 : Ops128 G G) d1 d2 Q = some ((giantIdx d2).map (fun i => (i * d1) • Q)) := by
  rw [Ecm128Curve.giantSteps_eq hd]; exact giant_steps_spec Q hd d2

end Group

/-- **The index sets of the model are the ones C16 quantifies over for ecm128** (`ecm128IsGrid`, `ecm128_cover`,
`ecm128_grid_exact`; their loop bounds `Stage2Arms.ecm128Baby` / `ecm128Giant` are read from src/ecm128.rs by the
translator): `b ∈ babyIdx d1 ⇔ isEcmBabyOf ecm128Baby d1 b`, `i ∈ giantIdx d2 ⇔ isGiant ecm128Giant d2 i ⇔ 1 ≤ i ≤ d2`
— the closed range `[1, d2]` —, and the giant table has `giantCount ecm128Giant d2` entries. -/
theorem e128_index_sets (d1 d2 : Nat) (h2 : 2 ≤ d2) :
    (∀ b, b ∈ babyIdx d1 ↔ isEcmBabyOf Stage2Arms.ecm128Baby d1 b = true) ∧
    (∀ i, i ∈ giantIdx d2 ↔ isGiant Stage2Arms.ecm128Giant d2 i = true) ∧
    (giantIdx d2).length = giantCount Stage2Arms.ecm128Giant d2 ∧
    (∀ i, i ∈ giantIdx d2 ↔ 1 ≤ i ∧ i ≤ d2) := by
  refine ⟨?_, ?_, ?_, fun i => giantIdx_mem h2⟩
  · intro b
    rw [babyIdx_mem, ecm128Baby_iff]
    constructor <;> (intro h; refine ⟨by omega, h.2.1, h.2.2⟩)
  · intro i
    rw [giantIdx_mem h2]
    simp only [isGiant, ecm128GiantLo, ecm128GiantHi d2 h2, Bool.and_eq_true, decide_eq_true_eq]
    omega
  · delta Stage2Arms.ecm128Giant
    simp [giantIdx, giantCount]
    omega

section Cover
variable {G : Type} [AddCommGroup G]

/-- **The tables cover what C16 promises for ecm128.** For `6 ∣ d1`, `2 ≤ d2`, `d1` a `u64` and a prime `l` with
`d1/2 < l ≤ d2·d1 + d1/2 − 1` not dividing `d1` (`C16.ecm128_cover`): the giant table of the model contains `[i d1] Q`
and the baby table `[b] Q` for a pair with `l = i d1 ± b`; if `[l] Q = O` every even coordinate function (`y`) takes the
same value on the two entries. -/
theorem e128_tables_cover (Q : G) {d1 d2 l : Nat} (h6 : 6 ∣ d1) (hd : 0 < d1) (hd64 : d1 < 2 ^ 64) (hd2 : 2 ≤ d2)
    (hp : l.Prime) (hnd : ¬ l ∣ d1) (hlo : d1 / 2 < l) (hhi : l ≤ d2 * d1 + d1 / 2 - 1) :
    ecm128IsGrid d1 d2 l = true ∧
    ∃ bt gt, Ecm128Curve.babySteps (grp128 : Ops128 G G) d1 Q = some bt ∧
      Ecm128Curve.giantSteps (grp128 : Ops128 G G) d1 d2 Q = some gt ∧
      ∃ i b, (l = i * d1 + b ∨ l + b = i * d1) ∧ (i * d1) • Q ∈ gt ∧ b • Q ∈ bt ∧
        ∀ {Y : Type} (y : G → Y), (∀ P, y (-P) = y P) → l • Q = 0 → y ((i * d1) • Q) = y (b • Q) := by
  have hev : 2 ∣ d1 := Nat.dvd_trans (by decide) h6
  have h6' : 6 ≤ d1 := Nat.le_of_dvd hd h6
  obtain ⟨hgrid, i, b, hi1, hi2, hb1, hb2, hbg, hm⟩ := Ymq.C16.ecm128_cover h6 hd hd2 hp hnd hlo hhi
  refine ⟨hgrid, _, _, e128_baby_steps_spec Q hev (by omega), e128_giant_steps_spec Q hd64 d2, i, b, hm, ?_, ?_, ?_⟩
  · exact List.mem_map.mpr ⟨i, (giantIdx_mem hd2).mpr ⟨hi1, hi2⟩, rfl⟩
  · exact List.mem_map.mpr ⟨b, babyIdx_mem.mpr ⟨hb1, hb2, hbg⟩, rfl⟩
  · intro Y y heven h0
    have := Ymq.C16.ecm_hit (E := 1) (G := Q) y heven (by rw [one_mul]; exact h0) hm
    simpa using this

end Cover

section Ring

/-- **Equal coordinates ⇒ the accumulated product is 0.** If the (normalised) `y` of some giant step equals the `y` of
some baby step, `buffer` — the value whose gcd with `n` is returned — is 0 (over `Z/p`: `p` divides it). -/
theorem e128_accumulate_vanishes {X : Type} [CommRing X] (bys gys : List X) (one : X) (k : Nat) (gy : X)
    (hk : gys[k]? = some gy) (hmem : gy ∈ bys) :
    accumulate (· * ·) (· - ·) bys gys one = 0 := by
  have hlen := prodRows_length bys gys one
  have hkl : k < gys.length := (List.getElem?_eq_some_iff.mp hk).1
  unfold accumulate
  rw [List.getLast?_eq_getElem?]
  have hidx : (prodRows (· * ·) (· - ·) bys gys one).length - 1 < (prodRows (· * ·) (· - ·) bys gys one).length := by
    omega
  rw [List.getElem?_eq_getElem hidx]
  simp only [Option.getD_some]
  exact prodRows_hit bys gys one k gy hk hmem _ (by omega) _ (List.getElem?_eq_getElem hidx)

/-- … from the projective coordinates through the normalisation: over a domain, if no `z` vanishes and the affine `y/z`
of baby step `ib < nb` and of giant step `k` agree, the accumulated product is 0. -/
theorem e128_hit_product_zero {F : Type} [CommRing F] [IsDomain F] (steps : List (F × F)) (hz : ∀ e ∈ steps, e.2 ≠ 0)
    (nb ib k : Nat) (hib : ib < nb) (eb eg : F × F) (hb : steps[ib]? = some eb) (hg : steps[nb + k]? = some eg)
    (haff : eg.1 * eb.2 = eb.1 * eg.2) (one : F) :
    accumulate (· * ·) (· - ·) ((normY (· * ·) steps).take nb) ((normY (· * ·) steps).drop nb) one = 0 := by
  have h := stage2_hit_product_zero steps hz nb ib k hib eb eg hb hg haff one
  have hnl : (normY (· * ·) steps).length = steps.length := by
    unfold normY
    rw [List.length_map, Ymq.ExpModn.ynorm_eq_spec]
    have : ∀ (u : F) (l : List (F × F)), (Ymq.ExpModn.ynSpec u l).length = l.length := by
      intro u l
      induction l generalizing u with
      | nil => rfl
      | cons a t ih => obtain ⟨y, z⟩ := a; simp [Ymq.ExpModn.ynSpec, ih]
    exact this 1 steps
  have hgl : nb + k < steps.length := (List.getElem?_eq_some_iff.mp hg).1
  have hlen := prodRows_length ((normY (· * ·) steps).take nb) ((normY (· * ·) steps).drop nb) one
  have hdl : ((normY (· * ·) steps).drop nb).length = steps.length - nb := by rw [List.length_drop, hnl]
  unfold accumulate
  rw [List.getLast?_eq_getElem?]
  have hidx : (prodRows (· * ·) (· - ·) ((normY (· * ·) steps).take nb) ((normY (· * ·) steps).drop nb) one).length - 1 <
      (prodRows (· * ·) (· - ·) ((normY (· * ·) steps).take nb) ((normY (· * ·) steps).drop nb) one).length := by
    omega
  rw [List.getElem?_eq_getElem hidx]
  simp only [Option.getD_some]
  exact h _ (by omega) _ (List.getElem?_eq_getElem hidx)

end Ring

/-- **What `ecm128::ecm_curve` returns is a proper factorisation**, for every environment (any point operations, any
arithmetic): a returned pair `(d, e)` has `1 < d < n` and `d · e = n`. -/
theorem e128_returned_pair_sound {P E X : Type} (env : Ecm128Curve.Env P E X) (factors : List Nat) (d1 d2 : Nat) (g : P)
    (d e : Nat) (h : Ecm128Curve.ecmCurve env factors d1 d2 g = some (some (d, e))) :
    1 < d ∧ d < env.n ∧ d * e = env.n :=
  Ecm128Curve.ecmCurve_sound env factors d1 d2 g d e h

section NoPanic
open Ymq.Gen.Curves Ymq.Curve
variable {R : Type} [CommRing R]

/-- **`ecm128::ecm_curve` never panics on the domain `ecm128::ecm` passes**: over any commutative ring, for the translated
`e128*` formulas, a generator on the curve `-x² + y² = 1 + d x² y²`, an `is_valid` that accepts the extended form of the
points of the curve (`C15.e128_is_valid_of_curve`), `u64` blocks and an even `d1 ≥ 4` that is a `u64`: the chain builder
does not overflow, `gaps` is never indexed outside, `b - bexp` and `gap / 2 - 1` never underflow, `assert_eq!(bs[0], 1)`
and `assert!(c.is_valid(..))` hold. (`gcd` and `n / d` with `d > 1` cannot panic.) -/
theorem e128_curve_no_panic {X : Type} (env : Ecm128Curve.Env (Pt R) (Ext R) X) (g0 : Pt R) (d : R)
    (hops : env.ops = curveOps128 g0 Ecm128Curve.negExt)
    (hvalid : ∀ p, ecmIsValid d true p → env.valid (env.ops.ext p) = true)
    (factors : List Nat) (hf : ∀ f ∈ factors, f < 2 ^ 64) {d1 : Nat} (hev : 2 ∣ d1) (h4 : 4 ≤ d1) (hd : d1 < 2 ^ 64)
    (d2 : Nat) (g : Pt R) (hg : ecmIsValid d true g) :
    Ecm128Curve.ecmCurve env factors d1 d2 g ≠ none :=
  Ecm128Curve.ecmCurve_total env (hops ▸ curveOps128_fused g0) (hops ▸ curveOps128_closed g0 d) hvalid factors hf hev h4 hd
    d2 g hg

/-- … as `ecm128::ecm` calls it: `SmoothBase::new(b1, false)` for `b1 ≤ 2^24` (C17) and `stage2_params(b2)` for any
`b2` (every row of the table has an even `d1 ≥ 4` below `2^64`). -/
theorem e128_curve_b_no_panic {X : Type} (env : Ecm128Curve.Env (Pt R) (Ext R) X) (g0 : Pt R) (d : R)
    (hops : env.ops = curveOps128 g0 Ecm128Curve.negExt)
    (hvalid : ∀ p, ecmIsValid d true p → env.valid (env.ops.ext p) = true)
    (b1 b2 : Nat) (hb : b1 ≤ 2 ^ 24) (g : Pt R) (hg : ecmIsValid d true g) :
    Ecm128Curve.ecmCurveB env b1 b2 g ≠ none := by
  obtain ⟨f, l, h1, h2, _, _⟩ := Ymq.C17.smoothbase_divides_16M b1 false hb
  obtain ⟨row, hr1, hr2, _⟩ := Ymq.Checked.nearestRow_spec Stage2.ecmTable (by decide) b2 1
  have hrows : (Stage2.ecmTable.all fun r => r.2.1 % 2 == 0 && decide (4 ≤ r.2.1) && decide (r.2.1 < 2 ^ 64)) = true := by
    decide
  have hrow := List.all_eq_true.mp hrows row hr2
  simp only [Bool.and_eq_true, beq_iff_eq, decide_eq_true_eq] at hrow
  obtain ⟨lab, d1, d2⟩ := row
  unfold Ecm128Curve.ecmCurveB
  have hsel : Stage2.stage2Select b2 1 = some (lab, d1, d2) := hr1
  simp only [h1, hsel]
  exact e128_curve_no_panic env g0 d hops hvalid f h2 (Nat.dvd_of_mod_eq_zero hrow.1.1) hrow.1.2 hrow.2 d2 g hg

end NoPanic

/-- **The curve loop of `ecm128::ecm`.** What the loop returns comes from the first seed that yields something: a pair
`(p, n / p)` for a factor `p` met while selecting the curve of a seed, or the pair returned by the curve run on the
generator of a seed; all earlier seeds were skipped or their runs returned `None`. -/
theorem e128_ecm_loop_spec {P : Type} (n : Nat) (pick : Nat → Pick P) (run : P → Option (Option (Nat × Nat)))
    (seeds : List Nat) (r : Nat × Nat) (h : ecmLoop n pick run seeds = some (some r)) :
    ∃ pre s post, seeds = pre ++ s :: post ∧
      (∀ t ∈ pre, pick t = .skip ∨ ∃ g, pick t = .gen g ∧ run g = some none) ∧
      ((∃ p, pick s = .factor p ∧ p ≠ 0 ∧ r = (p, n / p)) ∨ ∃ g, pick s = .gen g ∧ run g = some (some r)) := by
  induction seeds with
  | nil => simp [ecmLoop] at h
  | cons s rest ih =>
    unfold ecmLoop at h
    cases hp : pick s with
    | panic => rw [hp] at h; cases h
    | factor p =>
      rw [hp] at h
      simp only at h
      split at h
      · cases h
      · rename_i hp0
        simp only [Option.some.injEq] at h
        exact ⟨[], s, rest, rfl, by simp, Or.inl ⟨p, hp, hp0, h.symm⟩⟩
    | skip =>
      rw [hp] at h
      obtain ⟨pre, s', post, e, h1, h2⟩ := ih h
      refine ⟨s :: pre, s', post, by rw [e]; rfl, ?_, h2⟩
      intro t ht
      rcases List.mem_cons.mp ht with rfl | ht
      · exact Or.inl hp
      · exact h1 t ht
    | gen g =>
      rw [hp] at h
      simp only at h
      cases hr : run g with
      | none => rw [hr] at h; cases h
      | some v =>
        rw [hr] at h
        cases v with
        | some r' =>
          simp only [Option.some.injEq] at h
          exact ⟨[], s, rest, rfl, by simp, Or.inr ⟨g, hp, by rw [hr, h]⟩⟩
        | none =>
          simp only at h
          obtain ⟨pre, s', post, e, h1, h2⟩ := ih h
          refine ⟨s :: pre, s', post, by rw [e]; rfl, ?_, h2⟩
          intro t ht
          rcases List.mem_cons.mp ht with rfl | ht
          · exact Or.inr ⟨g, hp, hr⟩
          · exact h1 t ht

/-- Sharpness of the giant range for ecm128 (what an off-by-one would lose): with `d1 = 66`, `d2 = 10` the value
691 = 10·66 + 31 is on the grid only through `i = d2`. -/
theorem e128_giant_range_sharp :
    10 ∈ giantIdx 10 ∧ 0 ∉ giantIdx 10 ∧ 11 ∉ giantIdx 10 ∧ ecm128IsGrid 66 10 691 = true ∧ ecm128IsGrid 66 9 691 = false := by
  decide

/-! ## non-vacuity -/

example : (∀ f ∈ [43589145600, 10131543907], f < 2 ^ 64) := by decide
example : Ecm128Curve.stage1Point (grp128 : Ops128 Int Int) [6, 35] 1 = some 210 := by
  rw [(e128_stage1_point_spec 0 (fun _ => 0) [6, 35] (by decide) (1 : Int)).2.2]; decide
example : Ymq.SmoothBase.new 100 false = some ([43589145600, 10131543907, 25828479029, 293391909323], []) := by
  decide +kernel
example : Ecm128Curve.babySteps (grp128 : Ops128 Int Int) 66 1 = some [1, 5, 7, 13, 17, 19, 23, 25, 29, 31] := by
  rw [e128_baby_steps_spec (1 : Int) (by decide) (by decide)]; decide
example : Ecm128Curve.giantSteps (grp128 : Ops128 Int Int) 66 4 1 = some [66, 132, 198, 264] := by
  rw [e128_giant_steps_spec (1 : Int) (by decide) 4]; decide
example : (6 ∣ 66) ∧ Nat.Prime 691 ∧ ¬ 691 ∣ 66 ∧ 66 / 2 < 691 ∧ 691 ≤ 10 * 66 + 66 / 2 - 1 :=
  ⟨by decide, by norm_num, by decide, by decide, by decide⟩
/-- a hit in row 1 of three (ℤ, baby `y`s 3 and 5, giant `y`s 7, 5, 9): the accumulated product is 0 -/
example : accumulate (· * ·) (· - ·) [3, 5] [7, 5, 9] (1 : Int) = 0 := by decide
example : ∃ steps : List (Int × Int), (∀ e ∈ steps, e.2 ≠ 0) ∧ steps[0]? = some (1, 2) ∧ steps[1 + 0]? = some (2, 4) ∧
    (2 : Int) * 2 = 1 * 4 := ⟨[(1, 2), (2, 4)], by decide, rfl, rfl, by decide⟩
/-- `gcdExit`: a proper divisor is returned, 0 (both factors at once) and units are not -/
example : gcdExit 35 14 = some (7, 5) ∧ gcdExit 35 0 = none ∧ gcdExit 35 3 = none := by decide
/-- non-vacuity of `e128_curve_no_panic` / `e128_curve_b_no_panic`: an environment over ℤ satisfying every hypothesis
(the neutral element `(0 : 1 : 1)` is on every curve) -/
example : Ecm128Curve.ecmCurveB (⟨curveOps128 ⟨0, 1, 1⟩ Ecm128Curve.negExt, 35, fun p => p.x.natAbs, fun p => (p.y, p.z), 1,
    (· * ·), (· - ·), Int.natAbs, fun _ => true⟩ : Ecm128Curve.Env (Ymq.Gen.Curves.Pt Int) (Ymq.Gen.Curves.Ext Int) Int)
    16 660 ⟨0, 1, 1⟩ ≠ none :=
  e128_curve_b_no_panic _ ⟨0, 1, 1⟩ (1 : Int) rfl (fun _ _ => rfl) 16 660 (by decide) ⟨0, 1, 1⟩
    (by simp [Ymq.Gen.Curves.ecmIsValid, Ymq.Gen.Curves.ecmIsValidSides])
/-- the loop: seed 1 skipped, seed 2 run without success, seed 3 yields a factor during selection -/
example : ecmLoop 35 (fun s => if s = 1 then Pick.skip else if s = 2 then Pick.gen () else Pick.factor 5)
    (fun _ => some none) [1, 2, 3] = some (some (5, 7)) := by decide

end Ymq.C15
