/-
The final check of `SmithNormalForm::reduce` (model: `St.reduce`, `St.checkDiag`): a returned state
is diagonal and its diagonal multiplies to `h` (the saturating product cannot hide an overflow).
-/
import Ymq.Model.Snf
import Mathlib.Algebra.BigOperators.Group.List.Basic
import Mathlib.Tactic.Ring
import Mathlib.Tactic.Linarith

namespace Ymq.Snf
open Ymq.Arith (I128MIN I128MAX)

/-- 2^126 -/
def BIG : Int := 85070591730234615865843651857942052864

/-- once the accumulator is `0` or has magnitude at least 2^126 it stays so -/
theorem satFold_big : ∀ (ds : List Int) (acc : Int), (acc = 0 ∨ acc ≤ -BIG ∨ BIG ≤ acc) →
    (ds.foldl satMul128 acc = 0 ∨ ds.foldl satMul128 acc ≤ -BIG ∨ BIG ≤ ds.foldl satMul128 acc)
  | [], acc, h => by simpa using h
  | d :: ds, acc, h => by
    simp only [List.foldl_cons]
    apply satFold_big ds
    have hB : (0 : Int) < BIG := by unfold BIG; decide
    have hmin : I128MIN ≤ -BIG := by unfold I128MIN BIG; decide
    have hmax : BIG ≤ I128MAX := by unfold I128MAX BIG; decide
    unfold satMul128
    simp only []
    split
    · right; left; exact hmin
    · split
      · right; right; exact hmax
      · rcases h with h | h | h
        · left; rw [h]; simp
        · rcases lt_trichotomy d 0 with hd | hd | hd
          · right; right; nlinarith
          · left; rw [hd]; simp
          · right; left; nlinarith
        · rcases lt_trichotomy d 0 with hd | hd | hd
          · right; left; nlinarith
          · left; rw [hd]; simp
          · right; right; nlinarith

/-- a saturating product that ends on a value in `(0, 2^126)` was exact at every step -/
theorem satFold_exact (h : Int) (h0 : 0 < h) (h1 : h < BIG) :
    ∀ (ds : List Int) (acc : Int), ds.foldl satMul128 acc = h → acc * ds.prod = h
  | [], acc, hf => by simpa using hf
  | d :: ds, acc, hf => by
    simp only [List.foldl_cons] at hf
    have hmin : I128MIN ≤ -BIG := by unfold I128MIN BIG; decide
    have hmax : BIG ≤ I128MAX := by unfold I128MAX BIG; decide
    have hexact : satMul128 acc d = acc * d := by
      unfold satMul128
      simp only []
      split
      · exfalso
        have hs : satMul128 acc d = I128MIN := by
          unfold satMul128; simp only []; rw [if_pos (by assumption)]
        have := satFold_big ds (satMul128 acc d) (by rw [hs]; right; left; exact hmin)
        rw [hf] at this
        omega
      · split
        · exfalso
          rename_i hc1 hc2
          have hs : satMul128 acc d = I128MAX := by
            unfold satMul128; simp only []; rw [if_neg hc1, if_pos hc2]
          have := satFold_big ds (satMul128 acc d) (by rw [hs]; right; right; exact hmax)
          rw [hf] at this
          omega
        · rfl
    rw [hexact] at hf
    have := satFold_exact h h0 h1 ds (acc * d) hf
    rw [List.prod_cons, ← mul_assoc]; exact this

/-- the matrix is diagonal: every off-diagonal entry inside the square is `0` -/
def IsDiag (M : Mat) : Prop :=
  ∀ i j, i < M.length → j < M.length → i ≠ j → get2 M i j = some 0

theorem offDiagOk_full {M : Mat} (h : offDiagOk M true = true) : IsDiag M := by
  intro i j hi hj hij
  unfold offDiagOk at h
  rw [List.all_eq_true] at h
  have := h i (List.mem_range.mpr hi)
  simp only [if_true] at this
  rw [List.all_eq_true] at this
  have := this j (List.mem_filter.mpr ⟨List.mem_range.mpr hj, by simpa using Ne.symm hij⟩)
  simpa using this

/-- what `checkDiag true` certifies about the state it returns -/
theorem checkDiag_full {s s' : St} {det : Int} (h : s.checkDiag true = some (s', det)) :
    IsDiag s'.rows ∧ ∃ ds, diagList s'.rows = some ds ∧ ds.foldl satMul128 1 = det := by
  unfold St.checkDiag at h
  split at h
  · exact absurd h (by simp)
  · rename_i s1 _
    split at h
    · exact absurd h (by simp)
    · rename_i ds hds
      split at h
      · rename_i hok
        have := Option.some.inj h
        simp only [Prod.mk.injEq] at this
        obtain ⟨e1, e2⟩ := this
        subst e1
        exact ⟨offDiagOk_full hok, ds, hds, e2⟩
      · exact absurd h (by simp)

/-- **reduce** ends on a diagonal matrix whose diagonal multiplies to `h` -/
theorem reduce_diag {s s' : St} (h : s.reduce = some s') (h0 : 0 < s'.h) (h1 : s'.h < 2 ^ 125) :
    IsDiag s'.rows ∧ ∃ ds, diagList s'.rows = some ds ∧ ds.prod = (s'.h : Int) := by
  unfold St.reduce at h
  split at h
  · exact absurd h (by simp)
  · split at h
    · exact absurd h (by simp)
    · split at h
      · exact absurd h (by simp)
      · split at h
        · exact absurd h (by simp)
        · split at h
          · exact absurd h (by simp)
          · split at h
            · exact absurd h (by simp)
            · rename_i s5 det hcd
              split at h
              · exact absurd h (by simp)
              · rename_i hdet
                have e : s5 = s' := Option.some.inj h
                subst e
                have hdet' : det = (s5.h : Int) := by
                  by_contra hne; exact hdet hne
                obtain ⟨hd, ds, hds, hfold⟩ := checkDiag_full hcd
                refine ⟨hd, ds, hds, ?_⟩
                have hh0 : (0 : Int) < (s5.h : Int) := by exact_mod_cast h0
                have hh1 : (s5.h : Int) < BIG := by
                  have : (s5.h : Int) < 2 ^ 125 := by exact_mod_cast h1
                  have : (2 : Int) ^ 125 < BIG := by unfold BIG; decide
                  omega
                have := satFold_exact (s5.h : Int) hh0 hh1 ds 1 (by rw [hfold, hdet'])
                simpa using this

end Ymq.Snf
