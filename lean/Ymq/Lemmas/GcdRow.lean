/- `reduce64`: the FIRST row `(a, b)` of the returned matrix is below `2^34` in absolute value.
Reason: it is the second row of the state before the last continuing iteration, which passed the
matrix-size test `bits(q+1) + bits(max |c| |d|) <= 36` with `q + 1 >= 2`. -/
import Ymq.Lemmas.GcdReduceInv

namespace Ymq.Gcd

theorem lt_of_bits_le {n k : Nat} (h : bits n ≤ k) : n < 2 ^ k :=
  Nat.lt_of_lt_of_le (lt_two_pow_bits n) (Nat.pow_le_pow_right (by decide) h)

theorem two_le_bits {n : Nat} (h : 2 ≤ n) : 2 ≤ bits n := by
  by_contra hlt
  have := lt_of_bits_le (n := n) (k := 1) (by omega)
  omega

/-- loop invariant: the first row is below `2^34`; so is the second while the loop has not made its
first regular step (`u < v`: the next iteration swaps the rows) -/
def Row1 (a b c d : Int) (u v : Nat) : Prop :=
  |a| < 2 ^ 34 ∧ |b| < 2 ^ 34 ∧ (u < v → |c| < 2 ^ 34 ∧ |d| < 2 ^ 34)

theorem abs_lt_of_max_natAbs {c d : Int} {k : Nat} (h : max c.natAbs d.natAbs < 2 ^ k) :
    |c| < 2 ^ k ∧ |d| < 2 ^ k := by
  have h1 : c.natAbs < 2 ^ k := Nat.lt_of_le_of_lt (Nat.le_max_left _ _) h
  have h2 : d.natAbs < 2 ^ k := Nat.lt_of_le_of_lt (Nat.le_max_right _ _) h
  rw [Int.abs_eq_natAbs, Int.abs_eq_natAbs]
  exact ⟨by exact_mod_cast h1, by exact_mod_cast h2⟩

theorem reduce64Loop_row1 (x y : Nat) : ∀ (f : Nat) (a b c d : Int) (u v : Nat),
    Row1 a b c d u v → u < W → v < W → ∀ a' b' c' d',
    reduce64Loop x y f a b c d u v = some (a', b', c', d') → |a'| < 2 ^ 34 ∧ |b'| < 2 ^ 34 := by
  intro f
  induction f with
  | zero => intro a b c d u v _ _ _ a' b' c' d' h; simp [reduce64Loop] at h
  | succ f ih =>
    intro a b c d u v hJ hu hv a' b' c' d' h
    unfold reduce64Loop at h
    have hexit : ∀ r, reduce64Exit a b c d = some r → r = (a', b', c', d') →
        |a'| < 2 ^ 34 ∧ |b'| < 2 ^ 34 := by
      intro r hr he
      have := (reduce64Exit_some hr).1
      rw [this] at he
      simp only [Prod.mk.injEq] at he
      obtain ⟨rfl, rfl, _, _⟩ := he
      exact ⟨hJ.1, hJ.2.1⟩
    by_cases hg : u / 2 ^ 24 > 0 ∧ v / 2 ^ 24 > 0
    · rw [if_pos hg] at h
      have hv24 := guard_ge hg.2
      cases hst : reduce64Body x y a b c d u v with
      | none => rw [hst] at h; simp at h
      | some st =>
        rw [hst] at h
        cases st with
        | brk => exact hexit _ h rfl
        | cont a1 b1 c1 d1 u1 v1 =>
          simp only at h
          have hlt := reduce64Body_cont_lt hst hu hv hv24
          refine ih a1 b1 c1 d1 u1 v1 ?_ hlt.1 hlt.2 a' b' c' d' h
          rcases reduce64Body_cont hst hu hv24 with
            ⟨huv, e1, e2, e3, e4, e5, e6, _⟩ | ⟨hvu, e1, e2, e5, _, _, hnb, hc⟩
          · rw [e1, e2, e3, e4, e5, e6]
            obtain ⟨hc', hd'⟩ := hJ.2.2 huv
            exact ⟨hc', hd', fun hlt' => by omega⟩
          · rw [e1, e2, e5]
            have hq : 1 ≤ u / v := (Nat.le_div_iff_mul_le (by omega)).2 (by omega)
            have hb2 := two_le_bits (n := u / v + 1) (by omega)
            have hm := lt_of_bits_le (n := max c.natAbs d.natAbs) (k := 34) (by omega)
            obtain ⟨hc', hd'⟩ := abs_lt_of_max_natAbs hm
            refine ⟨hc', hd', fun hlt' => ?_⟩
            have : u % v < v := Nat.mod_lt _ (by omega)
            rcases hc with ⟨_, _, _, e⟩ | ⟨_, _, _, e⟩ <;> omega
    · rw [if_neg hg] at h
      exact hexit _ h rfl

/-- the first row of the matrix returned by `reduce64` is below `2^34` (all word pairs) -/
theorem reduce64_row1 {x y : Nat} {a b c d : Int} (hx : x < W) (hy : y < W)
    (h : reduce64 x y = some (a, b, c, d)) : |a| < 2 ^ 34 ∧ |b| < 2 ^ 34 := by
  unfold reduce64 at h
  refine reduce64Loop_row1 x y _ 1 0 0 1 x y ⟨by norm_num, by norm_num, fun _ => ⟨by norm_num, by norm_num⟩⟩
    hx hy a b c d h

end Ymq.Gcd
