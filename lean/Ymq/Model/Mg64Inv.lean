/-
Model of `arith_montgomery::mg_inv` (src/arith_montgomery.rs:63-71): inversion in 64-bit
Montgomery form. It composes `mg_redc` / `mg_mul` (Ymq/Model/Mg64.lean) with
`arith::inv_mod64` (Ymq/Model/Arith.lean, property C08). Kept in its own file because
Ymq/Model/Mg64.lean is shared with C06. No Mathlib import.
-/
import Ymq.Model.Mg64
import Ymq.Model.Arith

namespace Ymq.Mg64

/-- `mg_inv(n, ninv, r2, x)`: input `x = a·R mod n`, output `R/a mod n`.
Outer `Option`: panic; inner `Option`: the Rust return value. -/
def mgInv (n ninv r2 x : Nat) : Option (Option Nat) :=
  match mgRedc n ninv x with                      -- mm = mg_redc(n, ninv, x as u128)
  | none => none
  | some mm =>
    match Ymq.Arith.invMod64 mm n with            -- arith::inv_mod64(mm, n)?
    | none => none
    | some none => some none
    | some (some mminv) =>
      match mgMul n ninv mminv r2 with            -- mg_mul(n, ninv, mminv, r2)
      | none => none
      | some r => some (some r)

end Ymq.Mg64
