/-
C13 helper lemmas: the `idx_by_log` table as `FBase::new` computes it (incrementally, while pushing the
sorted primes) is the documented one ("index of the first prime of bit length ≥ l"), hence the
class partition the sieve relies on (`FB.WF`) holds for the factor bases `FBase::new` builds.
-/
import Ymq.Lemmas.SieveRun

namespace Ymq.Sieve

/-- `for idx in lo..lo+n { a[idx] = v }` -/
theorem setRange_spec (v : Nat) :
    ∀ (n lo : Nat) (a : Array Nat), lo + n ≤ a.size →
      ∃ a', (List.range' lo n).foldlM (fun (a : Array Nat) idx =>
          if idx < a.size then some (a.setIfInBounds idx v) else none) a = some a' ∧
        a'.size = a.size ∧ ∀ i, a'[i]? = if lo ≤ i ∧ i < lo + n then some v else a[i]? := by
  intro n
  induction n with
  | zero =>
    intro lo a _
    refine ⟨a, by simp, rfl, fun i => ?_⟩
    have : ¬ (lo ≤ i ∧ i < lo + 0) := by omega
    simp [this]
  | succ n ih =>
    intro lo a h
    have hlo : lo < a.size := by omega
    obtain ⟨a', h1, h2, h3⟩ := ih (lo + 1) (a.setIfInBounds lo v) (by simp; omega)
    refine ⟨a', ?_, by simpa using h2, ?_⟩
    · rw [List.range'_succ, List.foldlM_cons]
      simp only [hlo, if_true, bind, Option.bind_some]
      exact h1
    · intro i
      rw [h3 i]
      by_cases hi : i = lo
      · subst hi
        have c1 : ¬ (i + 1 ≤ i ∧ i < i + 1 + n) := by omega
        have c2 : i ≤ i ∧ i < i + (n + 1) := by omega
        simp [c1, c2, Array.getElem?_setIfInBounds, hlo]
      · rw [Array.getElem?_setIfInBounds_ne (fun e => hi e.symm)]
        by_cases hr : lo + 1 ≤ i ∧ i < lo + 1 + n
        · have : lo ≤ i ∧ i < lo + (n + 1) := by omega
          simp [hr, this]
        · have : ¬ (lo ≤ i ∧ i < lo + (n + 1)) := by omega
          simp [hr, this]

/-- state of the loop of `FBase::new` after the primes `pre`. -/
def IblInv (pre : List Nat) (st : Array Nat × Nat × Nat) : Prop :=
  st.1.size = 26 ∧ st.2.2 = pre.length ∧ st.2.1 ≤ 25 ∧ (∀ p ∈ pre, bitlen p < st.2.1) ∧
  ((st.2.1 = 0 ∧ pre = []) ∨ ∃ q ∈ pre, bitlen q + 1 = st.2.1) ∧
  ∀ idx, idx < st.2.1 → st.1[idx]? = some (pre.countP fun p => decide (bitlen p < idx))

theorem fbaseIbl_loop :
    ∀ (rest pre : List Nat) (st : Array Nat × Nat × Nat), IblInv pre st →
      (∀ q ∈ pre, ∀ p ∈ rest, bitlen q ≤ bitlen p) → rest.Pairwise (fun a b => bitlen a ≤ bitlen b) →
      (∀ p ∈ rest, bitlen p ≤ 24) →
      ∃ st', rest.foldlM fbaseIblStep st = some st' ∧ IblInv (pre ++ rest) st' := by
  intro rest
  induction rest with
  | nil => intro pre st h _ _ _; exact ⟨st, by simp, by simpa using h⟩
  | cons p rest ih =>
    intro pre st hinv hchain hsorted h24
    obtain ⟨ibl, log, cnt⟩ := st
    obtain ⟨hsz, hcnt, hlog, hlt, hlast, hval⟩ := hinv
    simp only at hsz hcnt hlog hlt hlast hval
    have hp24 := h24 p List.mem_cons_self
    rw [List.pairwise_cons] at hsorted
    -- the next prime is not shorter than the previous ones
    have hge : log ≤ bitlen p + 1 := by
      rcases hlast with ⟨h0, _⟩ | ⟨q, hq, hql⟩
      · omega
      · have := hchain q hq p List.mem_cons_self; omega
    have hstep : ∃ st1, fbaseIblStep (ibl, log, cnt) p = some st1 ∧ IblInv (pre ++ [p]) st1 := by
      unfold fbaseIblStep
      simp only
      by_cases hl : bitlen p ≥ log
      · simp only [hl, if_true]
        obtain ⟨a', h1, h2, h3⟩ := setRange_spec cnt (bitlen p + 1 - log) log ibl (by omega)
        refine ⟨(a', bitlen p + 1, cnt + 1), by simp [h1], h2.trans hsz, by simp [hcnt], by simp only; omega, ?_,
          Or.inr ⟨p, by simp, rfl⟩, ?_⟩
        · intro q hq
          rcases List.mem_append.1 hq with hq | hq
          · have := hlt q hq; simp only; omega
          · simp only [List.mem_singleton] at hq; subst hq; simp only; omega
        · intro idx hidx
          simp only at hidx ⊢
          rw [h3 idx, List.countP_append]
          have hpc : ([p].countP fun q => decide (bitlen q < idx)) = 0 := by
            simp only [List.countP_cons, List.countP_nil, decide_eq_true_eq]
            have : ¬ bitlen p < idx := by omega
            simp [this]
          simp only [hpc, Nat.add_zero]
          by_cases hr : log ≤ idx ∧ idx < log + (bitlen p + 1 - log)
          · simp only [hr, and_self, if_true]
            congr 1
            rw [hcnt]
            symm
            rw [List.countP_eq_length]
            intro q hq
            have := hlt q hq
            simp only [decide_eq_true_eq]; omega
          · simp only [hr, if_false]
            exact hval idx (by omega)
      · simp only [hl, if_false]
        have hl' : bitlen p + 1 = log := by omega
        refine ⟨(ibl, log, cnt + 1), rfl, hsz, by simp [hcnt], hlog, ?_, Or.inr ⟨p, by simp, hl'⟩, ?_⟩
        · intro q hq
          rcases List.mem_append.1 hq with hq | hq
          · exact hlt q hq
          · simp only [List.mem_singleton] at hq; subst hq; simp only; omega
        · intro idx hidx
          simp only at hidx ⊢
          rw [hval idx hidx, List.countP_append]
          have hpc : ([p].countP fun q => decide (bitlen q < idx)) = 0 := by
            simp only [List.countP_cons, List.countP_nil, decide_eq_true_eq]
            have : ¬ bitlen p < idx := by omega
            simp [this]
          rw [hpc, Nat.add_zero]
    obtain ⟨st1, hs1, hi1⟩ := hstep
    obtain ⟨st', hs', hi'⟩ := ih (pre ++ [p]) st1 hi1
      (by
        intro q hq r hr
        rcases List.mem_append.1 hq with hq | hq
        · exact hchain q hq r (List.mem_cons_of_mem _ hr)
        · simp only [List.mem_singleton] at hq; subst hq; exact hsorted.1 r hr)
      hsorted.2 (fun r hr => h24 r (List.mem_cons_of_mem _ hr))
    refine ⟨st', ?_, by simpa using hi'⟩
    rw [List.foldlM_cons]
    simp [bind, hs1, hs']

/-- `FBase::new` fills `idx_by_log` with the documented values: for primes pushed in increasing order,
all below `2^24`, the incrementally maintained table is `mkIbl` (no write outside the 26 entries). -/
theorem fbaseIbl_eq (ps : List Nat) (hs : ps.Pairwise (· < ·)) (h24 : ∀ p ∈ ps, p < 2 ^ 24) :
    fbaseIbl ps = some (mkIbl ps.toArray) := by
  have hb24 : ∀ p ∈ ps, bitlen p ≤ 24 := by
    intro p hp
    have := (bitlen_lt_succ_iff p 24).2 (h24 p hp)
    omega
  obtain ⟨⟨ibl, log, cnt⟩, hf, hsz, hcnt, hlog, hlt, _, hval⟩ := fbaseIbl_loop ps [] (Array.replicate 26 0, 0, 0)
    ⟨by simp, rfl, by simp, by simp, Or.inl ⟨rfl, rfl⟩, by intro idx h; simp at h⟩
    (by simp) (hs.imp (fun h => bitlen_mono (le_of_lt h))) hb24
  simp only [List.nil_append] at hcnt hlt hval
  simp only at hsz hcnt hlog hlt hval
  obtain ⟨a', h1, h2, h3⟩ := setRange_spec cnt (26 - log) log ibl (by omega)
  unfold fbaseIbl
  simp only [hf, Option.bind_eq_bind, Option.bind_some]
  rw [h1]
  congr 1
  apply Array.ext
  · simp [mkIbl, h2, hsz]
  · intro i hi1 hi2
    have hi : i < 26 := by rw [h2, hsz] at hi1; exact hi1
    have e1 : a'[i]? = some a'[i] := Array.getElem?_eq_getElem hi1
    have e2 : (mkIbl ps.toArray)[i]? = some (ps.countP fun p => decide (bitlen p < i)) := by
      simp only [mkIbl, Array.getElem?_map]
      rw [Array.getElem?_eq_getElem (by simpa using hi)]
      simp
    have e3 : (mkIbl ps.toArray)[i]? = some (mkIbl ps.toArray)[i] := Array.getElem?_eq_getElem hi2
    rw [h3 i] at e1
    by_cases hr : log ≤ i ∧ i < log + (26 - log)
    · simp only [hr, and_self, if_true] at e1
      have : cnt = ps.countP fun p => decide (bitlen p < i) := by
        rw [hcnt]; symm
        rw [List.countP_eq_length]
        intro q hq
        have := hlt q hq
        simp only [decide_eq_true_eq]; omega
      rw [this, ← e2, e3] at e1
      exact (Option.some.inj e1).symm
    · simp only [hr, if_false] at e1
      rw [hval i (by omega), ← e2, e3] at e1
      exact (Option.some.inj e1).symm

/-- the class partition the sieve relies on holds for what `FBase::new` builds: primes strictly increasing
in `[2, 2^24)` and `idx_by_log` computed by its own loop give a well-formed factor base
(in particular `idx_by_log[l] ≤ i < idx_by_log[l+1]` iff prime `i` has bit length exactly `l`). -/
theorem fbase_new_WF (ps : Array Nat) (ibl : Array Nat) (hs : ps.toList.Pairwise (· < ·))
    (hr : ∀ p ∈ ps.toList, 2 ≤ p ∧ p < 2 ^ 24) (h : fbaseIbl ps.toList = some ibl) :
    FB.WF { primes := ps, ibl := ibl } := by
  rw [fbaseIbl_eq ps.toList hs (fun p hp => (hr p hp).2)] at h
  have : ibl = mkIbl ps := by simpa using (Option.some.inj h).symm
  subst this
  exact FB.ofPrimes_WF ps hs hr

end Ymq.Sieve
