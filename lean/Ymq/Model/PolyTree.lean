/-
Mechanism models of the product tree and of multipoint evaluation in src/arith_poly.rs (property
C10): `Poly::_product_tree`, `Poly::from_roots`, `Poly::_multi_eval` (Bernstein's scaled
remainder tree: `P/Q` as a series in `1/x`, then one middle product per tree edge),
`Poly::multi_eval` and `Poly::roots_eval`.

Level of detail: value level, on top of Ymq/Model/PolySeries.lean. A monic node polynomial of
degree `d` is the list of its `d` low coefficients (the code stores them in a block of `2d` slots
followed by an explicit `one`; the remaining slots hold stale data that no routine reads). A layer
is the list of its node polynomials; the remainder-tree state is the list of its blocks. Buffer
sizes enter through the scratch lengths passed to `_longmul`/`_middlemul`/`_div_mod_xn`; every
assert, slice and index of the code is a panic site (`none`).
No Mathlib import: this file is linked into the native driver.
-/
import Ymq.Model.PolySeries

namespace Ymq.PolyMul

variable {α : Type}

/-- product of the monic polynomials `x^d + a`, `x^d + b` at tree layer `i` (`d = 2^(i-1) = |a| = |b|`):
the `2d` low coefficients. `i = 1`, `i = 2` are written out in the code; above, `_longmul` of the low
parts plus `x^d·(a + b)`. -/
def mergeMonic (c : Ctx) (o : Ops α) (i tmplen : Nat) (a b : List α) : Option (List α) :=
  if i = 1 then
    some [o.mul (a.getD 0 o.zero) (b.getD 0 o.zero), o.add (a.getD 0 o.zero) (b.getD 0 o.zero)]
  else if i = 2 then
    some [o.mul (a.getD 0 o.zero) (b.getD 0 o.zero),
          o.add (o.mul (a.getD 0 o.zero) (b.getD 1 o.zero)) (o.mul (a.getD 1 o.zero) (b.getD 0 o.zero)),
          o.add (o.add (a.getD 0 o.zero) (b.getD 0 o.zero)) (o.mul (a.getD 1 o.zero) (b.getD 1 o.zero)),
          o.add (a.getD 1 o.zero) (b.getD 1 o.zero)]
  else
    let d := a.length
    match longmul c o (2 * d) tmplen a b with
    | none => none
    | some lm =>
      match zipOp o.add (lm.drop d) a with
      | none => none
      | some s1 =>
        match zipOp o.add s1 b with
        | none => none
        | some s2 => some (lm.take d ++ s2)

/-- merge the nodes of a layer pairwise -/
def mergeLayer (c : Ctx) (o : Ops α) (i tmplen : Nat) : List (List α) → Option (List (List α))
  | a :: b :: rest =>
    match mergeMonic c o i tmplen a b, mergeLayer c o i tmplen rest with
    | some m, some ms => some (m :: ms)
    | _, _ => none
  | _ => some []

/-- layers `i, i+1, …, logn` given layer `i - 1` -/
def buildLayers (c : Ctx) (o : Ops α) (tmplen : Nat) : Nat → Nat → List (List α) → Option (List (List (List α)))
  | 0, _, _ => some []
  | cnt + 1, i, prev =>
    match mergeLayer c o i tmplen prev with
    | none => none
    | some cur =>
      match buildLayers c o tmplen cnt (i + 1) cur with
      | none => none
      | some ls => some (cur :: ls)

/-- `Poly::_product_tree(zr, roots, true)`: layers `0 … logn`, `n = 2^logn ≥ |roots|` leaves
(`x - r_i`, padded with `x`) -/
def productTree (c : Ctx) (o : Ops α) (roots : List α) : Option (List (List (List α))) :=
  if roots.length = 0 then none                                     -- roots.len() - 1
  else
    let logn := Ymq.Checked.bitlen (roots.length - 1)
    let n := 2 ^ logn
    let layer0 := (List.range n).map fun i =>
      if i < roots.length then [o.sub o.zero (roots.getD i o.zero)] else [o.zero]
    (buildLayers c o (6 * n) logn 1 layer0).map fun ls => layer0 :: ls

/-- `Poly::from_roots(r, roots)`: `∏ (x - r_i)`, `|roots| + 1` coefficients -/
def fromRoots (c : Ctx) (o : Ops α) (roots : List α) : Option (List α) :=
  match productTree c o roots with
  | none => none
  | some layers =>
    match layers.getLast? with
    | some [top] =>
      -- product[n - deg .. n + 1]: the top block holds x^(n - deg)·∏(x - r_i)
      some ((top ++ [o.one]).drop (top.length - roots.length))
    | _ => none


/-! ### multipoint evaluation -/

/-- one level of the remainder tree: every block (the `2k` scaled coefficients of `P/(Q1·Q2)`,
`deg Q1 = deg Q2 = k`) is replaced by the blocks of `P/Q1` (`_middlemul_xn` by `Q2`) and of `P/Q2`
(`_middlemul_xn` by `Q1`); `layer` lists the low coefficients of the children -/
def splitLevel (c : Ctx) (o : Ops α) (tmplen : Nat) : List (List α) → List (List α) → Option (List (List α))
  | blk :: bs, q1 :: q2 :: qs =>
    match middlemulXn c o q1.length blk q2 tmplen, middlemulXn c o q1.length blk q1 tmplen,
        splitLevel c o tmplen bs qs with
    | some d1, some d2, some rest => some (d1 :: d2 :: rest)
    | _, _, _ => none
  | [], _ => some []
  | _ :: _, _ => none                                               -- &layer[idx1..idx2]

/-- the loop `for i in 1..=logn` over the layers below the top, from the top down -/
def splitAll (c : Ctx) (o : Ops α) (tmplen : Nat) : List (List (List α)) → List (List α) → Option (List (List α))
  | [], blocks => some blocks
  | layer :: below, blocks =>
    match splitLevel c o tmplen blocks layer with
    | none => none
    | some bl => splitAll c o tmplen below bl

/-- `Poly::_multi_eval(&self, tree)`: the values of `p` at the leaves of `tree` (all `n` of them,
padding included) -/
def multiEvalTree (c : Ctx) (o : Ops α) (p : List α) (layers : List (List (List α))) : Option (List α) :=
  if p.length = 0 then none                                         -- self.c.len() - 1
  else
    match layers.reverse with
    | [top] :: below =>
      let n := top.length
      if layers.length ≠ n.log2 + 1 then none                       -- assert_eq!(layers.len(), logn + 1)
      else
        let degp := p.length - 1
        let q := top ++ [o.one]
        let revp := (List.range (n + 1)).map fun i => if i ≤ degp then p.getD (degp - i) o.zero else o.zero
        let revq := (List.range (n + 1)).map fun i => q.getD (n - i) o.zero
        match divModXn c o revp revq (10 * n) with
        | none => none
        | some dst =>
          if 2 * n ≤ degp then none                                   -- node[i], i ≤ degp
          else
            -- node[i] = dst[degp - i] (dst has 2n entries, the quotient in the first n + 1)
            let node := (List.range n).map fun i => if i ≤ degp then dst.getD (degp - i) o.zero else o.zero
            match splitAll c o (10 * n) below [node] with
            | none => none
            | some blocks => some (blocks.map fun b => b.getD 0 o.zero)
    | _ => none

/-- `slice.chunks(k)` -/
def chunks : Nat → Nat → List α → List (List α)
  | 0, _, _ => []
  | _ + 1, _, [] => []
  | f + 1, k, l => l.take k :: chunks f k (l.drop k)

/-- one chunk of `Poly::multi_eval`: a short chunk is padded with zero points up to `deg p` points
(commit "fix: Poly::multi_eval …"), then tree, remainder tree, `truncate(chk.len())` -/
def multiEvalChunk (c : Ctx) (o : Ops α) (p chk : List α) : Option (List α) :=
  let pts := if chk.length + 1 < p.length then chk ++ List.replicate (p.length - 1 - chk.length) o.zero else chk
  match productTree c o pts with
  | none => none
  | some tree =>
    match multiEvalTree c o p tree with
    | none => none
    | some vs => some (vs.take chk.length)

/-- `Poly::multi_eval(&self, a)` -/
def multiEval (c : Ctx) (o : Ops α) (p a : List α) : Option (List α) :=
  if p.length = 0 ∨ a.length = 0 then none                          -- plen - 1, alen - 1
  else
    let n := 2 ^ Ymq.Checked.bitlen (p.length - 1)
    let nchunks := (a.length - 1) / n + 1
    let chunklen := (a.length - 1) / nchunks + 1
    if a.length > nchunks * chunklen then none                       -- assert!
    else
      (chunks a.length chunklen a).foldlM (fun (vals : List α) chk =>
        (multiEvalChunk c o p chk).map fun vs => vals ++ vs) []

/-- `p` reduced by the monic `q` of the same length when its top coefficient is non-zero:
`resize(1 + n)`, `if c[n] != 0 { c -= q; assert!(c[n] == 0) }`, `truncate(n)` -/
def reduceTop (o : Ops α) (n : Nat) (pc q : List α) : Option (List α) :=
  let c := pc ++ List.replicate (n + 1 - pc.length) o.zero
  if c.length ≠ n + 1 then none
  else if !(o.eq (c.getD n o.zero) o.zero) then
    match zipOp o.sub c q with
    | none => none
    | some c' => if o.eq (c'.getD n o.zero) o.zero then some (c'.take n) else none
  else some (c.take n)

/-- `revq[i] = q[n - i]` for `i < n`, `revq[n]` stays zero -/
def revTop (o : Ops α) (n : Nat) (q : List α) : List α :=
  (List.range (n + 1)).map fun i => if i < n then q.getD (n - i) o.zero else o.zero

/-- one round of the loop over the chunks of `a` in `roots_eval`: `pmodq ← (∏_{r ∈ chk}(x - r) · pmodq) mod Q`
by three `_longmul`s with the precomputed reversed inverse `qinvr` (`q` = the `n + 1` coefficients of `Q`) -/
def barrettStep (c : Ctx) (o : Ops α) (n : Nat) (q qinvr pmodq chk : List α) : Option (List α) :=
  match fromRoots c o chk with
  | none => none
  | some pi0 =>
    match reduceTop o n pi0 q with
    | none => none
    | some pic =>
      match longmul c o (2 * n) (6 * n) pic pmodq with
      | none => none
      | some pp =>
        match longmul c o (2 * n) (6 * n) (pp.drop n) (qinvr.drop 1) with
        | none => none
        | some quo =>
          match longmul c o (2 * n) (6 * n) ((quo.drop (n - 1)).take (n - 1)) q with
          | none => none
          | some pq =>
            -- debug_assert!(pp[n..] == pq[n..])
            if !((List.range n).all fun i =>
                o.eq (pp.getD (n + i) o.zero) (pq.getD (n + i) o.zero)) then none
            else zipOp o.sub (pp.take n) (pq.take n)

/-- the branch `a.len() >= n` of `roots_eval`: `∏ (x - a_i)` modulo `Q = ∏ (x - b_j)` (`top` = the `n` low
coefficients of the monic top node of the tree over `b`), chunk by chunk, then `_multi_eval` -/
def rootsEvalLong (c : Ctx) (o : Ops α) (tree : List (List (List α))) (top a : List α) : Option (List α) :=
  let n := top.length
  let q := top ++ [o.one]
  let revq := revTop o n q
  match invModXn c o FUEL revq (6 * n) with
  | none => none
  | some qinv =>
    if !(o.eq (revq.getD 0 o.zero) o.one) then none          -- assert!(revq[0] == zn.one())
    else
      match chunks a.length n a with
      | [] => none                                         -- achunks.next().unwrap()
      | c0 :: cs =>
        match fromRoots c o c0 with
        | none => none
        | some p0 =>
          match reduceTop o n p0 q with
          | none => none
          | some pm0 =>
            match cs.foldlM (barrettStep c o n q qinv.reverse) pm0 with
            | none => none
            | some pmodq => multiEvalTree c o pmodq tree

/-- `Poly::roots_eval(zn, a, b)`: the values of `∏ (x - a_i)` at the points `b_j` -/
def rootsEval (o : Ops α) (a b : List α) : Option (List α) :=
  let c := Ctx.new b.length
  match productTree c o b with
  | none => none
  | some tree =>
    match tree.getLast? with
    | some [top] =>
      let n := top.length
      let vals : Option (List α) :=
        if a.length < n then
          match fromRoots c o a with
          | none => none
          | some p => multiEvalTree c o p tree
        else rootsEvalLong c o tree top a
      match vals with
      | none => none
      | some vs => if vs.length < b.length then none else some (vs.take b.length)
    | _ => none

end Ymq.PolyMul
