import Ymq.Props.C18
import Ymq.Props.C18C19
import Ymq.Props.C18Forms
import Ymq.Props.C18Legendre
import Ymq.Props.C18Group
#print axioms Ymq.C18.b_plus_unique
#print axioms Ymq.C18.parity_exactly_one
#print axioms Ymq.C18.bPlus_spec_odd
#print axioms Ymq.C18.bPlus_spec_even
#print axioms Ymq.C18.sign_total
#print axioms Ymq.C18.sign_exclusive
#print axioms Ymq.C18.large_sign_consistent
#print axioms Ymq.C18.poly_factors_total
#print axioms Ymq.C18.relation_no_panic
#print axioms Ymq.C18.emitted_subset_inputs
#print axioms Ymq.C18.complete_relations_emitted
#print axioms Ymq.C18.store_total
#print axioms Ymq.C18.emit_hom
#print axioms Ymq.C18.emit_hom_map
#print axioms Ymq.C18.relLine_val
#print axioms Ymq.C18.filter_hom
#print axioms Ymq.C18.reduced_enum_sound
#print axioms Ymq.C18.reduced_enum_complete
#print axioms Ymq.C18.reduced_enum_nodup
#print axioms Ymq.C18.reduced_enum
#print axioms Ymq.C18.invariants_multiply
#print axioms Ymq.C18.invariantsOk_spec
#print axioms Ymq.C18C19.reported_invariants_multiply
#print axioms Ymq.C18.value_form_equiv
#print axioms Ymq.C18.dirichlet_composition
#print axioms Ymq.C18.concordant_product
#print axioms Ymq.C18.product_disc
#print axioms Ymq.C18.prime_form_sign_odd
#print axioms Ymq.C18.prime_form_sign_two
#print axioms Ymq.C18.normalised_root_exists
#print axioms Ymq.C18.relation_genuine
#print axioms Ymq.C18.primitive_of_fundamental
#print axioms Ymq.C18.relation_genuine_fundamental
#print axioms Ymq.C18.theRoot_is_b_plus
#print axioms Ymq.C18.reduce_pequiv
#print axioms Ymq.C18.legendre_eq_legendreSym_partial
#print axioms Ymq.C18.legendre_no_panic
#print axioms Ymq.C18.legendre_two
#print axioms Ymq.C18.legendre_residue_form
#print axioms Ymq.C18.legendre_panics_of_ge_two_pow_30
#print axioms Ymq.C18.legendre_large_prime_panics
#print axioms Ymq.C18.legendre_panics_small_moduli
#print axioms Ymq.C18.legendre_composite_debug_assert
#print axioms Ymq.C18.xgcd_correct
#print axioms Ymq.C18.compose_raw_identity
#print axioms Ymq.C18.compose_is_composition
#print axioms Ymq.C18.compose_dirichlet
#print axioms Ymq.C18.compose_concordant
