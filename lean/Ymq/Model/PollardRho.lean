/-
Model of the two drivers of `rho64` in src/pollard_rho.rs, line by line, on top of the word-exact
model `Ymq.ExpModn.rho64` (Ymq/Model/ExpModn.lean, C16):

  `rho(n: &Uint, verbosity)`   (pollard_rho.rs:119-151) — what lib.rs calls (lib.rs:270 in the
      automatic strategy below 52 bits, lib.rs:437 for `Algo::Rho` after `assert!(n.bits() <= 64)`):
      iteration budget from the bit length, `for c in 1..10`, first success `([p], q)`;
  `rho_semiprime(n: u64)`      (pollard_rho.rs:42-57) — what fbase.rs:486 calls on the cofactor of a
      double-large-prime relation: three size windows, `.or_else` chains of `rho64(n, c, budget)`.

Outer `none` = the real function does not return normally (a panic site of `rho64` in the checked
profile, or `mg_2adic_inv` looping for ever on an even modulus). No Mathlib import: linked into the
native driver.
-/
import Ymq.Model.ExpModn

namespace Ymq.PollardRho
open Ymq.ExpModn

/-- `Uint::bits()` -/
def bits (n : Nat) : Nat := if n = 0 then 0 else Nat.log2 n + 1

/-- `let iters = match size { 0..=24 => 128, ..., 63..=64 => 131072, _ => return None }` -/
def rhoIters (size : Nat) : Option Nat :=
  if size ≤ 24 then some 128
  else if size ≤ 32 then some 512
  else if size ≤ 40 then some 2048
  else if size ≤ 48 then some 8192
  else if size ≤ 52 then some 16384
  else if size ≤ 57 then some 32768
  else if size ≤ 62 then some 65536
  else if size ≤ 64 then some 131072
  else none

/-- `for c in cs { if let Some((p, q)) = rho64(n0, c, iters) { return Some(..) } } None` -/
def rhoTry (n0 iters : Nat) : List Nat → Option (Option (Nat × Nat))
  | [] => some none
  | c :: cs =>
    match rho64 n0 c iters with
    | none => none
    | some (some pq) => some (some pq)
    | some none => rhoTry n0 iters cs

/-- the range `1..10` -/
def rhoCs : List Nat := [1, 2, 3, 4, 5, 6, 7, 8, 9]

/-- `pollard_rho::rho(n, verbosity)`: `n0 = n.digits()[0]` is the low word (the whole of `n` whenever
a budget is selected) -/
def rho (n : Nat) : Option (Option (List Nat × Nat)) :=
  let n0 := n % Mg64.W
  match rhoIters (bits n) with
  | none => some none
  | some iters =>
    match rhoTry n0 iters rhoCs with
    | none => none
    | some none => some none
    | some (some (p, q)) => some (some ([p], q))

/-- `pollard_rho::rho_semiprime(n)` for a `u64` argument: `a.or_else(|| b).or_else(|| c)` is `rhoTry`
over `[1, 2, 3]` (the closures run only when everything before answered `None`) -/
def rhoSemiprime (n : Nat) : Option (Option (Nat × Nat)) :=
  if n / 2 ^ 40 = 0 then rhoTry n 2048 [1, 2, 3]
  else if n / 2 ^ 48 = 0 then rhoTry n 4096 [1, 2, 3]
  else rhoTry n 8192 [1]

end Ymq.PollardRho
