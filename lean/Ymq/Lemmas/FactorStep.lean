/-
Decomposition of one level of `factorImpl` (Model/Factor.lean) into named phases with the
recursive call abstracted as a parameter `rec`, and the *shape lemma*: every result of one
level is one of a handful of forms (return, perfect power, push, give-up, sequence of recursive
calls over a split, sieve combination loop, or one of the listed panic sites).

Nothing here changes the model: `factorImpl_succ` proves (by `rfl`) that the decomposition is
the model.
-/
import Ymq.Lemmas.FactorBasic

namespace Ymq.Factor

variable {σ : Type}

/-! ### one level with the recursion abstracted -/

/-- `for a in a_s { factor_impl(a) }; factor_impl(b)` -/
def splitManyR (rec : Nat → St σ → Res (St σ)) (s : St σ) (as : List Nat) (b : Nat) : Res (St σ) :=
  match bindList (fun s m => rec m s) as s with
  | .ok s' => rec b s'
  | e => e

/-- `factor_impl(a); factor_impl(b)` -/
def splitTwoR (rec : Nat → St σ → Res (St σ)) (s : St σ) (a b : Nat) : Res (St σ) :=
  match rec a s with
  | .ok s' => rec b s'
  | e => e

/-- Auto: Pollard rho below 52 bits (lib.rs:262-277) -/
def autoRho (o : Oracle σ) (rec : Nat → St σ → Res (St σ)) (n : Nat) (s : St σ) :
    Res (St σ) ⊕ St σ :=
  if bits n < 52 then
    match (o.rho s.os n).1 with
    | some (as, b) => .inl (splitManyR rec { s with os := (o.rho s.os n).2 } as b)
    | none => .inr { s with os := (o.rho s.os n).2 }
  else .inr s

/-- Auto: P-1 once, above 64 bits (lib.rs:279-307) -/
def autoPm1 (o : Oracle σ) (rec : Nat → St σ → Res (St σ)) (n : Nat) (s : St σ) :
    Res (St σ) ⊕ St σ :=
  if bits n > 64 ∧ !s.pm1done then
    match (o.pm1q s.os n).1 with
    | some (as, b) => .inl (splitManyR rec { s with os := (o.pm1q s.os n).2, pm1done := true } as b)
    | none => .inr { s with os := (o.pm1q s.os n).2, pm1done := true }
  else .inr s

/-- Auto: ECM, then the fallback selector (lib.rs:309-331) -/
def autoEcm (o : Oracle σ) (rec : Nat → St σ → Res (St σ)) (n : Nat) (s : St σ) :
    Res (St σ) ⊕ (Algo × St σ) :=
  match (o.ecmauto s.os n).1 with
  | some (a, b) => .inl (splitTwoR rec { s with os := (o.ecmauto s.os n).2 } a b)
  | none => .inr (if bits n ≤ 80 then Algo.ecm128 else Algo.siqs, { s with os := (o.ecmauto s.os n).2 })

/-- the `Algo::Auto` strategy (lib.rs:259-334) -/
def autoPhase (o : Oracle σ) (rec : Nat → St σ → Res (St σ)) (n : Nat) (alg : Algo) (s : St σ) :
    Res (St σ) ⊕ (Algo × St σ) :=
  if alg = .auto then
    match autoRho o rec n s with
    | .inl r => .inl r
    | .inr s =>
    match autoPm1 o rec n s with
    | .inl r => .inl r
    | .inr s => autoEcm o rec n s
  else .inr (alg, s)

/-- arms returning `(a_s, b)` -/
def armMany (rec : Nat → St σ → Res (St σ)) (n : Nat) (s : St σ)
    (r : Option (List Nat × Nat) × σ) : Res (St σ) ⊕ St σ :=
  match r.1 with
  | some (as, b) => .inl (splitManyR rec { s with os := r.2 } as b)
  | none => .inl (.ok ({ s with os := r.2 }.giveup n))

/-- arms returning `(a, b)` -/
def armTwo (rec : Nat → St σ → Res (St σ)) (n : Nat) (s : St σ)
    (r : Option (Nat × Nat) × σ) : Res (St σ) ⊕ St σ :=
  match r.1 with
  | some (a, b) => .inl (splitTwoR rec { s with os := r.2 } a b)
  | none => .inl (.ok ({ s with os := r.2 }.giveup n))

/-- the `match alg_real` arms (lib.rs:336-468) -/
def armPhase (o : Oracle σ) (rec : Nat → St σ → Res (St σ)) (n : Nat) (algReal : Algo) (s : St σ) :
    Res (St σ) ⊕ St σ :=
  match algReal with
  | .auto => .inl (.panic "unreachable!(impossible)")
  | .pm1 => armMany rec n s (o.pm1 s.os n)
  | .ecm => armTwo rec n s (o.ecm s.os n)
  | .ecm128 => armTwo rec n s (o.ecm128 s.os n)
  | .qs64 =>
    if bits n > 64 then .inl (.panic "assert!(n.bits() <= 64)")
    else armTwo rec n s (o.qs64 s.os n)
  | .rho =>
    if bits n > 64 then .inl (.panic "assert!(n.bits() <= 64)")
    else armMany rec n s (o.rho s.os n)
  | .squfof =>
    if bits n > 64 then .inl (.panic "assert!(n.bits() <= 64)")
    else armTwo rec n s (o.squfof s.os n)
  | .qs | .mpqs | .siqs => .inr s

/-- body of the final `for f in facs` loop (lib.rs:536-554) -/
def finalStep (o : Oracle σ) (rec : Nat → St σ → Res (St σ)) (n : Nat) (s : St σ) (f : Nat) :
    Res (St σ) :=
  if f = n then .ok (s.giveup f)
  else if !(o.prime s.os f).1 then rec f { s with os := (o.prime s.os f).2 }
  else .ok ({ s with os := (o.prime s.os f).2 }.push f)

/-- after the sieve returned (lib.rs:490-555) -/
def sieveResult (o : Oracle σ) (rec : Nat → St σ → Res (St σ)) (n : Nat) (s : St σ) :
    SieveRes → Res (St σ)
  | .unexpected d =>
    if d = 0 then .panic "division by zero (n / d)"
    else splitTwoR rec s d (n / d)
  | .divs [] => .ok (s.giveup n)
  | .divs ds =>
    match combineDivs [n] ds with
    | .panic e => .panic e
    | .fuel => .fuel
    | .ok facs => bindList (finalStep o rec n) facs s

/-- from the abort poll to the end (lib.rs:469-555) -/
def sievePhase (o : Oracle σ) (rec : Nat → St σ → Res (St σ)) (n : Nat) (algReal : Algo) (s : St σ) :
    Res (St σ) :=
  if (o.abort s.os n).1 then .ok ({ s with os := (o.abort s.os n).2 }.giveup n)
  else
  if algReal ≠ .qs ∧ algReal ≠ .mpqs ∧ algReal ≠ .siqs then .panic "unreachable!(impossible)"
  else
  sieveResult o rec n { s with os := (o.sieve (o.abort s.os n).2 algReal n).2 }
    (o.sieve (o.abort s.os n).2 algReal n).1

/-- everything after the pseudoprime test said "composite" -/
def compositePhase (o : Oracle σ) (rec : Nat → St σ → Res (St σ)) (n : Nat) (alg : Algo) (s : St σ) :
    Res (St σ) :=
  match autoPhase o rec n alg s with
  | .inl r => r
  | .inr (algReal, s) =>
    match armPhase o rec n algReal s with
    | .inl r => r
    | .inr s => sievePhase o rec n algReal s

/-- the perfect-power branch: `facs` of the recursive call appended `k` times -/
def ppResult (s : St σ) (k : Nat) : Res (St σ) → Res (St σ)
  | .ok s' => .ok { s' with factors := s.factors ++ replicateAppend k s'.factors }
  | e => e

/-- one level of `factor_impl` -/
def factorStep (o : Oracle σ) (rec : Nat → St σ → Res (St σ)) (n : Nat) (alg : Algo) (s : St σ) :
    Res (St σ) :=
  if n = 1 then .ok s
  else
  match (o.pp s.os n).1 with
  | some (p, k) => ppResult s k (rec p { s with os := (o.pp s.os n).2, factors := [] })
  | none =>
  if (o.prime (o.pp s.os n).2 n).1 then
    .ok ({ s with os := (o.prime (o.pp s.os n).2 n).2 }.push n)
  else compositePhase o rec n alg { s with os := (o.prime (o.pp s.os n).2 n).2 }

/-- The decomposition IS the model. -/
theorem factorImpl_succ (o : Oracle σ) (fuel n : Nat) (alg : Algo) (s : St σ) :
    factorImpl o (fuel + 1) n alg s = factorStep o (fun m s => factorImpl o fuel m alg s) n alg s := by
  rw [factorImpl]
  rfl

theorem factorImpl_zero (o : Oracle σ) (n : Nat) (alg : Algo) (s : St σ) :
    factorImpl o 0 n alg s = .fuel := by
  rw [factorImpl]

end Ymq.Factor
