/-
C01 ∘ (C08, C03/rho, C03/qs64, C03/squfof): the closed factor theorems, third version.
Two more oracle hypotheses are replaced by "the field IS the MODEL of the whole function":

  v2 premise                          v3 premise
  `UsesPerfectPower o` (a `Some` answer is an output of the model)
                                      `PerfectPowerModel o`: `(o.pp t n).1 = (Arith.perfectPower n).join`
  `UsesRho64 o`        (`([a], b)` with `(a, b)` returned by `rho64(n, c, iters)` for SOME `c`, `iters`)
                                      `RhoModel o`: `(o.rho t n).1 = (PollardRho.rho n).join`, the model of
                                      `pollard_rho::rho` as lib.rs calls it (budget by bit length, c = 1..9)

unchanged: `Qs64Model`, `SqufofModel` (whole functions, v2); `UsesFinalStep`, `UsesPm1`, `UsesEcmExits`,
`UsesUnexpectedFactor` (outputs of modelled exits), `ResidualOK`; `prime`, `abort` arbitrary.
NOT done in this version: `PM1Base::factor` / `pm1_quick` as whole functions (`UsesPm1` stays).

Call-site facts (what `factor_impl` guarantees about the argument of `rho`): `NoSmall n ∧ n ≠ 1`
(`trial_divided_noSmall`, threaded through the recursion in Lemmas/FactorClosed2.lean), hence odd,
`≥ 211`, and below `2^64 - 16` when it fits a word (`C03Rho.noSmall_below_top`): the domain of
`C03Rho.rho_no_panic_call_site`. After a `None` of `pp` the argument is not a square (`pp_none_not_tried_power`).
`RhoModel` / `PerfectPowerModel` read a model panic as `None` (`.join`); `rho_call_sites_total` (the model returns
normally on EVERY `RhoGuard` argument, whatever the answer), `rho_join_harmless`, `pp_join_harmless` and
`rho_model_exact_on_guard` show that this reading never applies at a call site.
Tie to the code: both functions are deterministic; every real `factor` run of the C01 stream re-asks its
recorded `pp` and `rho` answers to the models (follow-ups of props/c01.py), and `rho` / `rho_semiprime` have a
direct K stream (ops `rho`, `rho_semiprime`).
-/
import Ymq.Lemmas.FactorClosed3
import Ymq.Props.C01Closed2

namespace Ymq.C01
open Ymq.Factor

variable {σ : Type}

/-- the whole-function premise implies the exit premise of v1/v2 -/
theorem usesPerfectPower_of_model (o : Oracle σ) (h : PerfectPowerModel o) : UsesPerfectPower o :=
  usesPerfectPower_of_model' h

/-- the whole-function premise implies the exit premise of v1/v2 -/
theorem usesRho64_of_model (o : Oracle σ) (h : RhoModel o) : UsesRho64 o :=
  usesRho64_of_model' h

/-- after a `None` of the modelled `perfect_power` the argument is no e-th power, e ∈ {2,3,5,…,19} -/
theorem pp_none_not_tried_power (o : Oracle σ) (h : PerfectPowerModel o) (t : σ) (n : Nat)
    (hn : n < 2 ^ 1024) (hnone : (o.pp t n).1 = none) :
    ∀ e ∈ Ymq.Arith.ppExps, ¬ ∃ r, r ^ e = n :=
  pp_none_not_power h t n hn hnone

/-- **`oracleOK_of_models_v3`**: `perfect_power`, `rho`, `qsieve64::qsieve`, `squfof::squfof` are the
models of the whole functions; the contract holds for `guardOracle3 o` (= `o` with `rho` silenced
outside `RhoGuard n := NoSmall n ∧ n ≠ 1` and `qs64` / `squfof` outside `51 ≤ n`, `bits n ≤ 64`), and
`factor` cannot tell `o` from `guardOracle3 o`, for any fuel, input, selector and oracle state: these
ARE the call-site facts (`rho` is only ever asked about numbers without prime factor `≤ 199`, where
`C03Rho.rho_no_panic_call_site` shows that `rho64` reaches no panic site). -/
theorem oracleOK_of_models_v3 (o : Oracle σ) (hpp : PerfectPowerModel o) (hfs : UsesFinalStep o)
    (hqs : Qs64Model o) (hrho : RhoModel o) (hpm1 : UsesPm1 o) (hecm : UsesEcmExits o)
    (hsq : SqufofModel Ymq.Squfof.exactSeed o) (hun : UsesUnexpectedFactor o) (hres : ResidualOK o) :
    OracleOK (guardOracle3 o) ∧
      ∀ fuel n alg os, factor o fuel n alg os = factor (guardOracle3 o) fuel n alg os := by
  have hok := oracleOK_guard3 hpp hfs hqs hrho hpm1 hecm hsq hun hres
  exact ⟨hok, fun fuel n alg os => factor_guard3_eq o hok fuel n alg os⟩

/-- **`rho_call_sites_total`**: on EVERY call-site argument (`RhoGuard n := NoSmall n ∧ n ≠ 1`, what
`factor_impl` guarantees about the argument of `rho`) the model of `pollard_rho::rho` returns normally:
no panic site of `rho64` (overflow of `x2 += c`, `mg_redc`, the `debug_assert` on `pow2k`) is reached
and `mg_2adic_inv` terminates — whatever the answer (`None` included) is. -/
theorem rho_call_sites_total (n : Nat) (hg : RhoGuard n) : ∃ r, Ymq.PollardRho.rho n = some r :=
  rho_total_on_guard hg

/-- **the `.join` of `RhoModel` is harmless on the guard**: `RhoModel` reads a model panic as `None`;
on a call-site argument this reading never applies — `(rho n).join = r` says exactly `rho n = some r`. -/
theorem rho_join_harmless (n : Nat) (hg : RhoGuard n) (r : Option (List Nat × Nat)) :
    (Ymq.PollardRho.rho n).join = r ↔ Ymq.PollardRho.rho n = some r :=
  rho_join_iff_on_guard hg r

/-- same for `PerfectPowerModel` below the size limit of `factor` (`n < 2^1024`; `factor` refuses
inputs above 500 bits and only passes divisors of the trial-divided input on) -/
theorem pp_join_harmless (n : Nat) (hn : n < 2 ^ 1024) (r : Option (Nat × Nat)) :
    (Ymq.Arith.perfectPower n).join = r ↔ Ymq.Arith.perfectPower n = some r :=
  pp_join_iff_small hn r

/-- consequence for an oracle satisfying `RhoModel`: on the guard the field's answer IS the normal
return value of the model, `None` answers included (no "panic read as `None`") -/
theorem rho_model_exact_on_guard (o : Oracle σ) (h : RhoModel o) (t : σ) (n : Nat) (hg : RhoGuard n) :
    Ymq.PollardRho.rho n = some (o.rho t n).1 :=
  (rho_join_iff_on_guard hg _).mp (h t n).symm

/-- corollary of `rho_call_sites_total` (kept under its old name; it only speaks about `some` answers
of the guarded field, which exist only inside `RhoGuard`): where the `rho` field of `guardOracle3 o`
answers `some _`, the model of `pollard_rho::rho` returns normally. The statement about ALL call-site
arguments, `None` answers included, is `rho_call_sites_total`. -/
theorem rho_call_sites_return (o : Oracle σ) (t : σ) (n : Nat) (as : List Nat) (b : Nat)
    (h : ((guardOracle3 o).rho t n).1 = some (as, b)) : ∃ r, Ymq.PollardRho.rho n = some r :=
  guard3_rho_returns t n as b h

/-- **`factor_exact_closed_v3`**: a list returned by `factor` multiplies to exactly `n`, is sorted,
every element divides `n` and is `≥ 2` (for `n ≥ 1`) — with `perfect_power`, `pollard_rho::rho`,
`qsieve64::qsieve` and `squfof::squfof` inside the model. -/
theorem factor_exact_closed_v3 (o : Oracle σ) (hpp : PerfectPowerModel o) (hfs : UsesFinalStep o)
    (hqs : Qs64Model o) (hrho : RhoModel o) (hpm1 : UsesPm1 o) (hecm : UsesEcmExits o)
    (hsq : SqufofModel Ymq.Squfof.exactSeed o) (hun : UsesUnexpectedFactor o) (hres : ResidualOK o)
    (fuel n : Nat) (alg : Algo) (os : σ) (l : List Nat)
    (h : factor o fuel n alg os = .ok l) :
    l.prod = n ∧ l.Pairwise (· ≤ ·) ∧ ∀ x ∈ l, x ∣ n ∧ (1 ≤ n → 2 ≤ x) :=
  factor_exact_closed_v2 o (usesPerfectPower_of_model o hpp) hfs hqs (usesRho64_of_model o hrho) hpm1 hecm
    hsq hun hres fuel n alg os l h

/-- **`factor_total_closed_v3`**: selector precondition met and enough fuel ⟹ a list with product
`n` or the declared failure; no panic site of lib.rs — same four whole-function models. -/
theorem factor_total_closed_v3 (o : Oracle σ) (hpp : PerfectPowerModel o) (hfs : UsesFinalStep o)
    (hqs : Qs64Model o) (hrho : RhoModel o) (hpm1 : UsesPm1 o) (hecm : UsesEcmExits o)
    (hsq : SqufofModel Ymq.Squfof.exactSeed o) (hun : UsesUnexpectedFactor o) (hres : ResidualOK o)
    (fuel n : Nat) (alg : Algo) (os : σ)
    (hsel : SelectorPre alg (trialDivideBy 1100 Ymq.Gen.Primality.smallPrimes n []).1)
    (hfuel : bits (trialDivideBy 1100 Ymq.Gen.Primality.smallPrimes n []).1 ≤ fuel) :
    (∃ l, factor o fuel n alg os = .ok l ∧ l.prod = n) ∨ factor o fuel n alg os = .failure :=
  factor_total_closed_v2 o (usesPerfectPower_of_model o hpp) hfs hqs (usesRho64_of_model o hrho) hpm1 hecm
    hsq hun hres fuel n alg os hsel hfuel

/-! ### non-vacuity: an oracle whose `pp`, `rho`, `qs64`, `squfof` fields ARE the models -/

open Ymq.Factor.Closed

/-- `modelOracle2` (pp = the `perfect_power` model already) with the `rho` field the model of
`pollard_rho::rho`, unguarded -/
def modelOracle4 : Oracle Unit :=
  { modelOracle2 with rho := fun s n => ((Ymq.PollardRho.rho n).join, s) }

theorem model4_pp : PerfectPowerModel modelOracle4 := fun _ _ => rfl

theorem model4_rho : RhoModel modelOracle4 := fun _ _ => rfl

theorem model4_qs64 : Qs64Model modelOracle4 := fun t n a b h => model2_qs64 t n a b h

theorem model4_squfof : SqufofModel Ymq.Squfof.exactSeed modelOracle4 :=
  fun t n a b h => model2_squfof t n a b h

/-- every premise of the v3 theorems holds for it -/
example : OracleOK (guardOracle3 modelOracle4) ∧
    ∀ fuel n alg os, factor modelOracle4 fuel n alg os = factor (guardOracle3 modelOracle4) fuel n alg os :=
  oracleOK_of_models_v3 modelOracle4 model4_pp model_finalStep model4_qs64 model4_rho model_pm1 model_ecm
    model4_squfof model_unexpected ⟨model_residual.unexpectedNotWhole⟩

/-- `factor(4·58447, Algo::Rho)`: trial division, `perfect_power` and `pseudoprime` say no, then the
model of `pollard_rho::rho` (16 bits: budget 128, polynomial c = 1) splits 211·277 -/
example : factor modelOracle4 20 233788 .rho () = .ok [2, 2, 211, 277] := by decide +kernel

/-- the automatic strategy takes the same road below 52 bits -/
example : factor modelOracle4 20 233788 .auto () = .ok [2, 2, 211, 277] := by decide +kernel

/-- a prime square is caught by the `perfect_power` model before `rho` is asked -/
example : factor modelOracle4 20 (211 * 211) .rho () = .ok [211, 211] := by decide +kernel

example : [2, 2, 211, 277].prod = 233788 ∧ [2, 2, 211, 277].Pairwise (· ≤ ·) ∧
    ∀ x ∈ [2, 2, 211, 277], x ∣ 233788 ∧ (1 ≤ 233788 → 2 ≤ x) :=
  factor_exact_closed_v3 modelOracle4 model4_pp model_finalStep model4_qs64 model4_rho model_pm1 model_ecm
    model4_squfof model_unexpected ⟨model_residual.unexpectedNotWhole⟩ 20 233788 .rho () _
    (by decide +kernel)

example : (∃ l, factor modelOracle4 20 233788 .auto () = .ok l ∧ l.prod = 233788) ∨
    factor modelOracle4 20 233788 .auto () = .failure :=
  factor_total_closed_v3 modelOracle4 model4_pp model_finalStep model4_qs64 model4_rho model_pm1 model_ecm
    model4_squfof model_unexpected ⟨model_residual.unexpectedNotWhole⟩ 20 233788 .auto ()
    (fun _ => by decide +kernel) (by decide +kernel)

example : (modelOracle4.pp () 58447).1 = none ∧ 58447 < 2 ^ 1024 := by decide +kernel

/-- non-vacuity of `rho_call_sites_total` / `rho_join_harmless` / `rho_call_sites_return`:
58447 = 211·277 is inside `RhoGuard` -/
example : RhoGuard 58447 := ⟨by unfold NoSmall; decide +kernel, by decide⟩

/-- … and so is the prime 211, where the answer is `None` (the case the old statement did not cover) -/
example : RhoGuard 211 ∧ Ymq.PollardRho.rho 211 = some none ∧ (modelOracle4.rho () 211).1 = none :=
  ⟨⟨by unfold NoSmall; decide +kernel, by decide⟩, by decide +kernel, by decide +kernel⟩

example : Ymq.PollardRho.rho 211 = some (modelOracle4.rho () 211).1 :=
  rho_model_exact_on_guard modelOracle4 model4_rho () 211 ⟨by unfold NoSmall; decide +kernel, by decide⟩

/-- outside the guard the `.join` does matter: the model of `rho` on the even word 4 does not return
(`mg_2adic_inv` loops), and `.join` reads it as `None` -/
example : Ymq.PollardRho.rho 4 = none ∧ (Ymq.PollardRho.rho 4).join = none ∧ ¬ RhoGuard 4 := by decide +kernel

/-- non-vacuity of `pp_join_harmless` -/
example : (58447 : Nat) < 2 ^ 1024 ∧ Ymq.Arith.perfectPower 58447 = some none := by decide +kernel

end Ymq.C01
