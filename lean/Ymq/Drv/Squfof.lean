/-
Driver of the SQUFOF model (Ymq/Model/Squfof.lean).

  squfof <n>         -> `none` | `some <a> <b>` | `panic`       (same request as harness/src/ops_squfof.rs)
  squfof_seed <n>    -> the f64 seed `(n as f64).sqrt() as u64` of squfof::isqrt
  squfof_trace <n>   -> `k=<k> <outcome> i1=<iterations of the first loop in that round>`
                        (model only; used to print branch distributions)

The seed handed to the model is the value the real code computes: `Float.ofNat` is the C cast
`(double) n` for `n < 2^64` (round to nearest even, like `as f64`), `Float.sqrt` the correctly
rounded IEEE square root, `Float.toUInt64` the saturating truncation (like `as u64`). The theorems
do not depend on this: they hold for every seed within 1 of the floor square root.
-/
import Ymq.Drv.Util
import Ymq.Model.Squfof

namespace Ymq.Drv
open Ymq.Squfof

/-- `(n as f64).sqrt() as u64` -/
def f64Seed (n : Nat) : Nat := (Float.sqrt (Float.ofNat n)).toUInt64.toNat

def showSqufof : Option (Option (Nat × Nat)) → String
  | none => "panic"
  | some none => "none"
  | some (some (a, b)) => s!"some {a} {b}"

def showStep : Option Step → String
  | none => "panic"
  | some .stop => "stop"
  | some .next => "exhausted"
  | some (.ret a b) => s!"ret {a} {b}"

def handleSqufof : Handler
  | ["squfof", n] => do
    let n ← parseNat n
    if n ≥ W then none else
    some (showSqufof (squfof f64Seed n))
  | ["squfof_seed", n] => do
    let n ← parseNat n
    if n ≥ W then none else
    some (toString (f64Seed n))
  | ["squfof_trace", n] => do
    let n ← parseNat n
    if n ≥ W then none else
    let (k, r) := traceK f64Seed n 50 1
    let i1 :=
      if n * k ≥ W then 0 else
      match isqrt f64Seed (n * k) with
      | none => 0
      | some s =>
        match isqrt f64Seed s with
        | none => 0
        | some r => fwdCount f64Seed s (3 * r) (3 * r) 1 s 1 (n * k - s * s)
    some s!"k={k} {showStep r} i1={i1}"
  | _ => none

end Ymq.Drv
