/-
Models of the exponentiation helpers and of the result-extraction routines of the
group-order methods (C16):

  src/pollard_pm1.rs  `exp_modn`        (3-bit windows on the bit-reversed exponent)
  src/pp1.rs          `chebyshev_modn`  (binary Lucas ladder)
  src/arith_montgomery.rs `gcd_factors` / `find_factors` (binary search over cumulative gcds)
  src/pollard_rho.rs  `rho64`           (Brent's cycle finding on Montgomery words; return guards)

The ring is abstract: `exp_modn` and `chebyshev_modn` only call `zn.mul`, `zn.sub`, `zn.add`,
`zn.one()`; the model takes these operations as parameters (the driver instantiates them with
arithmetic modulo n, the theorems with any commutative monoid / ring).  ZmodN itself is C07.
`none` = panic in the checked profile.  No Mathlib import.
-/
import Ymq.Model.Mg64
import Ymq.Gen.Stage2Arms

namespace Ymq.ExpModn
open Ymq.Gen

/-! ### exp_modn -/

/-- `revBits k x`: the low `k` bits of `x` in reverse order (`u64::reverse_bits` is `revBits 64`). -/
def revBits : Nat → Nat → Nat
  | 0, _ => 0
  | k + 1, x => (x / 2 ^ k) % 2 + 2 * revBits k (x % 2 ^ k)

/-- `x.trailing_zeros()` followed by `x >>= tz` for `x ≠ 0` (fuel = word size): (shifted x, tz). -/
def stripZeros : Nat → Nat → Nat → Nat × Nat
  | 0, x, i => (x, i)
  | f + 1, x, i => if x % 2 = 1 then (x, i) else stripZeros f (x / 2) (i + 1)

/-- the `while i < 64` loop of `exp_modn` -/
def expLoop {α} (mul : α → α → α) (g g3 g5 g7 : α) : Nat → Nat → Nat → α → Option α
  | 0, _, _, _ => none
  | f + 1, exprev, i, res =>
    if i ≥ 64 then some res
    else if exprev % 2 = 0 then
      expLoop mul g g3 g5 g7 f (exprev / 2) (i + 1) (mul res res)
    else
      match exprev % 8 with
      | 1 => expLoop mul g g3 g5 g7 f (exprev / 2) (i + 1) (mul (mul res res) g)
      | 3 => expLoop mul g g3 g5 g7 f (exprev / 4) (i + 2) (mul (mul (mul res res) (mul res res)) g3)
      | 5 =>
        let r2 := mul res res; let r4 := mul r2 r2; let r8 := mul r4 r4
        expLoop mul g g3 g5 g7 f (exprev / 8) (i + 3) (mul r8 g5)
      | 7 =>
        let r2 := mul res res; let r4 := mul r2 r2; let r8 := mul r4 r4
        expLoop mul g g3 g5 g7 f (exprev / 8) (i + 3) (mul r8 g7)
      | _ => none                                   -- unreachable!("impossible")

/-- `exp_modn(zn, g, exp)` for a `u64` exponent. -/
def expModn {α} (mul : α → α → α) (one g : α) (exp : Nat) : Option α :=
  if exp = 0 then some one
  else
    let g2 := mul g g
    let g3 := mul g g2
    let g5 := mul g3 g2
    let g7 := mul g5 g2
    let (exprev, i) := stripZeros 64 (revBits 64 exp) 0
    let first : Option (α × Nat) :=
      match exprev % 8 with
      | 1 => if i > 60 then some (g, 1) else some (g2, 2)
      | 3 => some (g3, 2)
      | 5 => some (g5, 3)
      | 7 => some (g7, 3)
      | _ => none
    match first with
    | none => none
    | some (res, consumed) => expLoop mul g g3 g5 g7 65 (exprev / 2 ^ consumed) (i + consumed) res

def bitlen (n : Nat) : Nat := if n = 0 then 0 else Nat.log2 n + 1

/-! ### exp_modn_large -/

/-- `g_smalls`: `[g, g^3, .., g^63]` built by `gk = gk * g2` -/
def smallPows {α} (mul : α → α → α) (g2 : α) : Nat → α → List α
  | 0, _ => []
  | n + 1, gk => gk :: smallPows mul g2 n (mul gk g2)

/-- `n` squarings -/
def sqN {α} (mul : α → α → α) : Nat → α → α
  | 0, x => x
  | n + 1, x => sqN mul n (mul x x)

/-- `blk.trailing_zeros()` for `0 < blk < 64` -/
def tz6 : Nat → Nat → Nat
  | 0, _ => 0
  | f + 1, b => if b % 2 = 1 then 0 else 1 + tz6 f (b / 2)

/-- the 6-bit block `(exp >> offset) & 63` (`expblock`: the three word-extraction cases all compute this) -/
def expBlock (exp offset : Nat) : Nat := exp / 2 ^ offset % 64

/-- the main loop of `exp_modn_large`; `none` = index out of range in `g_smalls` -/
def largeLoop {α} (mul : α → α → α) (g : α) (smalls : List α) (exp : Nat) : Nat → Nat → α → Option α
  | 0, _, _ => none
  | f + 1, rem, gk =>
    if rem = 0 then some gk
    else if exp / 2 ^ (rem - 1) % 2 = 0 then largeLoop mul g smalls exp f (rem - 1) (mul gk gk)
    else if rem ≥ 6 then
      let blk := expBlock exp (rem - 6)
      let tz := tz6 6 blk
      match smalls[blk / 2 ^ (tz + 1)]? with
      | none => none
      | some s => largeLoop mul g smalls exp f (rem - 6) (sqN mul tz (mul (sqN mul (6 - tz) gk) s))
    else largeLoop mul g smalls exp f (rem - 1) (mul (mul gk gk) g)

/-- `exp_modn_large(zn, g, exp)` for a 1024-bit exponent -/
def expModnLarge {α} (mul : α → α → α) (one g : α) (exp : Nat) : Option α :=
  let bl := bitlen exp
  if bl = 0 then some one
  else if bl = 1 then some g
  else if bl ≤ 64 then expModn mul one g (exp % 2 ^ 64)
  else
    let g2 := mul g g
    let smalls := smallPows mul g2 32 g
    let blk := expBlock exp (bl - 6)
    let tz := tz6 6 blk
    match smalls[blk / 2 ^ (tz + 1)]? with
    | none => none
    | some s => largeLoop mul g smalls exp 1025 (bl - 6) (sqN mul tz s)

/-! ### chebyshev_modn -/

/-- `for i in 1..expbits`: state `(p_k, p_kp1)` -/
def chebLoop {α} (mul sub : α → α → α) (two g : α) (exp expbits : Nat) : Nat → Nat → α × α → α × α
  | 0, _, st => st
  | f + 1, i, (pk, pk1) =>
    let k := exp / 2 ^ (expbits - i)
    let st' := if k % 2 = 0 then (sub (mul pk pk) two, sub (mul pk pk1) g)
               else (sub (mul pk pk1) g, sub (mul pk1 pk1) two)
    chebLoop mul sub two g exp expbits f (i + 1) st'

/-- `chebyshev_modn(zn, g, exp)`; `zero` is the value returned for `exp = 0`. -/
def chebyshevModn {α} (mul sub : α → α → α) (two g zero : α) (exp : Nat) : α :=
  if exp = 0 then zero
  else
    let expbits := bitlen exp
    let (pk, pk1) := chebLoop mul sub two g exp expbits (expbits - 1) 1 (two, g)
    if exp % 2 = 0 then sub (mul pk pk) two else sub (mul pk pk1) g

/-! ### gcd_factors -/

/-- `find_factors`: `G i = gcd(n, vals[i])`, the slice is `vals[lo .. lo+len)`, `pp` = `pseudoprime`.
The `debug_assert!(gcd2 > gcd1 && gcd2 == p*gcd1)` is a panic of the checked profile. -/
def findFactors (G : Nat → Nat) (pp : Nat → Bool) : Nat → Nat → Nat → Nat → Nat → List Nat → Option (List Nat)
  | 0, _, _, _, _, _ => none
  | f + 1, lo, len, g1, g2, acc =>
    if g1 = g2 then some acc
    else if g1 = 0 then none                         -- division by zero
    else
      let p := g2 / g1
      if ¬ (g2 > g1 ∧ g2 = p * g1) then none
      else if pp p || len ≤ 2 then some (acc ++ [p])
      else
        let mid := len / 2
        let d := G (lo + mid)
        match findFactors G pp f lo (mid + 1) g1 d acc with
        | none => none
        | some acc' => findFactors G pp f (lo + mid) (len - mid) d g2 acc'

/-- successive `n /= f` -/
def divAll : Nat → List Nat → Option Nat
  | n, [] => some n
  | n, f :: fs => if f = 0 then none else divAll (n / f) fs

/-- `gcd_factors(n, vals)` where `vals[i]` is given by any integer having the same gcd with `n`. -/
def gcdFactors (n : Nat) (vals : List Nat) (pp : Nat → Bool) : Option (List Nat × Nat) :=
  match vals with
  | [] => none                                        -- vals[0]
  | _ =>
    let G := fun i => Nat.gcd n (vals.getD i 0)
    match findFactors G pp (vals.length + 2) 0 vals.length (G 0) (G (vals.length - 1)) [] with
    | none => none
    | some facs =>
      match divAll n facs with
      | none => none
      | some rest => some (facs, rest)

/-! ### rho64 -/

def absDiff (a b : Nat) : Nat := if a ≤ b then b - a else a - b

/-- the return guard used at every exit of `rho64` (and of `PM1Base::factor`, `ecm128::ecm_curve`) -/
def guard (n d : Nat) : Option (Nat × Nat) := if 1 < d ∧ d < n then some (d, n / d) else none

structure RhoState where
  x1 : Nat
  x2 : Nat
  prod : Nat
  nstart : Nat
  nend : Nat

/-- body of `for e2 in 1..iters`; outer `none` = panic, `some (.inl r)` = `return r`. -/
def rhoStep (n ninv c : Nat) (s : RhoState) (e2 : Nat) : Option (Sum (Nat × Nat) RhoState) := do
  let sq ← Mg64.mgMul n ninv s.x2 s.x2
  let x2 := sq + c
  if x2 ≥ Mg64.W then none                           -- `x2 += c` overflows
  else if e2 < s.nstart then some (.inr { s with x2 := x2 })
  else do
    let prodnext ← Mg64.mgMul n ninv s.prod (absDiff s.x1 x2)
    let r1 := if prodnext = 0 then guard n (Nat.gcd n (absDiff s.x1 x2)) else none
    match r1 with
    | some r => some (.inl r)
    | none =>
      let r2 := if e2 ≥ 512 ∧ e2 % 128 = 127 then guard n (Nat.gcd n s.prod) else none
      match r2 with
      | some r => some (.inl r)
      | none =>
        if e2 = s.nend then
          let pow2k := e2 + 1
          if pow2k ≠ 2 ^ Nat.log2 pow2k then none      -- debug_assert!(pow2k & (pow2k - 1) == 0)
          else some (.inr { x1 := x2, x2 := x2, prod := prodnext, nstart := pow2k + pow2k / 2, nend := 2 * pow2k - 1 })
        else some (.inr { s with x2 := x2, prod := prodnext })

def rhoLoop (n ninv c iters : Nat) : Nat → Nat → RhoState → Option (Option (Nat × Nat))
  | 0, _, s => some (guard n (Nat.gcd n s.prod))
  | f + 1, e2, s =>
    if e2 ≥ iters then some (guard n (Nat.gcd n s.prod))
    else
      match rhoStep n ninv c s e2 with
      | none => none
      | some (.inl r) => some (some r)
      | some (.inr s') => rhoLoop n ninv c iters f (e2 + 1) s'

/-- `rho64(n, c, iters)`; outer `none` = panic (or `mg_2adic_inv` does not terminate: even `n`). -/
def rho64 (n c iters : Nat) : Option (Option (Nat × Nat)) := do
  let ninv ← Mg64.mg2adicInv n
  rhoLoop n ninv c iters iters 1 { x1 := 2, x2 := 2, prod := 1, nstart := 0, nend := 1 }

end Ymq.ExpModn
