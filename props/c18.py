"""C18 — a reported class group is the true class group (PARTIAL by nature, see CLAIM / LEVEL_NOTE).

Request lines (harness: harness/src/ops_classgroup.rs, model: lean/Ymq/Drv/ClassGroup.lean)

  cg_h D threads                 real classgroup(): `h inv,inv,..`                                  (O)
  cg_full D threads              real classgroup() with an output directory: h, invariants, generator
                                 coordinates, every line of relations.sieve, the classnumber file    (O + model follow-ups)
  cg_estimate D                  classgroup::estimate, as floor(1000 hmin) ceil(1000 hmax)          (O, reported only)
  cg_b_plus p r even             Prime::b_plus                                                      (K + O)
  cg_fb_bplus D size             p:r:b_plus for the factor base the class group code builds         (O)
  cg_crel_history maxlarge rels  CRelationSet::add over a history: emitted relations + counters     (K + O)
  cg_poly D threads-unused aidx  hook: one polynomial of the real sieve with the relations it produced (model follow-ups)

Model-only follow-up lines (built from the implementation's answers):
  cg_classnumber D               reference class number of the model (enumeration of reduced forms)
  cg_invcheck h invs             the bookkeeping check of `invariants_multiply`
  cg_relcheck D p:b:e,...        product of prime forms (b = certified b_plus) reduces to the principal form
  cg_relation ...                the sign decision of sieve_block_poly / Poly::factors replayed on (polynomial, x)

The oracle is plain Python: reduced-form counts (table for the exhaustive range, an O(sqrt|D|) root-counting
method for large |D|, cross-checked against each other on every run), Shanks/Gauss composition and reduction,
an own Tonelli-Shanks and Miller-Rabin. Nothing from yamaquasi or from the Lean model is used.
"""
import math
from vlib.pipeline import Case

PID = "C18"
GEN = []
LEAN = ["Ymq.Props.C18"]
AUDIT = "Ymq.Audit.C18"
PROFILES = ["release", "chk"]
TIMEOUT = 60.0


# ================================================================ independent number theory

def isqrt(n):
    return math.isqrt(n)


_MR_BASES = (2, 3, 5, 7, 11, 13, 17, 19, 23, 29, 31, 37, 41)


def is_prime(n):
    """deterministic Miller-Rabin below 3.3e24 (bases 2..41), probable prime above"""
    if n < 2:
        return False
    for p in _MR_BASES:
        if n % p == 0:
            return n == p
    d, s = n - 1, 0
    while d % 2 == 0:
        d //= 2
        s += 1
    for a in _MR_BASES:
        x = pow(a, d, n)
        if x in (1, n - 1):
            continue
        for _ in range(s - 1):
            x = x * x % n
            if x == n - 1:
                break
        else:
            return False
    return True


def small_primes(n):
    """primes <= n"""
    if n < 2:
        return []
    s = bytearray([1]) * (n + 1)
    s[0] = s[1] = 0
    for i in range(2, isqrt(n) + 1):
        if s[i]:
            s[i * i::i] = bytes(len(range(i * i, n + 1, i)))
    return [i for i in range(2, n + 1) if s[i]]


def sqrt_mod_prime(n, p):
    """a square root of n modulo the odd prime p, or None"""
    n %= p
    if n == 0:
        return 0
    if pow(n, (p - 1) // 2, p) != 1:
        return None
    if p % 4 == 3:
        return pow(n, (p + 1) // 4, p)
    q, s = p - 1, 0
    while q % 2 == 0:
        q //= 2
        s += 1
    z = 2
    while pow(z, (p - 1) // 2, p) != p - 1:
        z += 1
    m, c, t, r = s, pow(z, q, p), pow(n, q, p), pow(n, (q + 1) // 2, p)
    while t != 1:
        i, t2 = 0, t
        while t2 != 1:
            t2 = t2 * t2 % p
            i += 1
        b = pow(c, 1 << (m - i - 1), p)
        m, c = i, b * b % p
        t, r = t * c % p, r * b % p
    return r


def kronecker_prime(D, p):
    """(D/p) for a prime p, D a discriminant"""
    if p == 2:
        if D % 2 == 0:
            return 0
        return 1 if D % 8 in (1, 7) else -1
    r = pow(D % p, (p - 1) // 2, p)
    return -1 if r == p - 1 else r


def is_squarefree_trial(n):
    """exact for every n (trial division by p up to n^(1/3), then a square test)"""
    p = 2
    while p * p * p <= n:
        if n % p == 0:
            n //= p
            if n % p == 0:
                return False
        p += 1 if p == 2 else 2
    r = isqrt(n)
    return r * r != n or n == 1


def is_fundamental(D):
    if D >= 0:
        return False
    if D % 4 == 1:
        return is_squarefree_trial(-D)
    if D % 4 == 0:
        m = D // 4
        return m % 4 in (2, 3) and is_squarefree_trial(-m)
    return False


def factor_small(n):
    """trial division (n up to ~2^44 in reasonable time); list of (p, e)"""
    out = []
    p = 2
    while p * p <= n:
        if n % p == 0:
            e = 0
            while n % p == 0:
                n //= p
                e += 1
            out.append((p, e))
        p += 1 if p == 2 else 2
    if n > 1:
        out.append((n, 1))
    return out


# ---------------------------------------------------------------- binary quadratic forms (negative discriminant)

def form_reduce(a, b, c):
    while True:
        if not (-a < b <= a):
            r = (a - b) // (2 * a)
            c = a * r * r + b * r + c
            b = b + 2 * a * r
        if a > c:
            a, b, c = c, -b, a
            continue
        if a == c and b < 0:
            b = -b
        return (a, b, c)


def xgcd(a, b):
    """(g, u, v) with u a + v b = g = gcd(a, b) >= 0"""
    u0, v0, u1, v1 = 1, 0, 0, 1
    while b:
        q = a // b
        a, b = b, a - q * b
        u0, u1 = u1, u0 - q * u1
        v0, v1 = v1, v0 - q * v1
    if a < 0:
        a, u0, v0 = -a, -u0, -v0
    return a, u0, v0


def form_compose(f1, f2):
    """Gauss/Dirichlet composition (Cohen, Algorithm 5.4.7), result reduced"""
    a1, b1, c1 = f1
    a2, b2, c2 = f2
    if a1 > a2:
        a1, b1, c1, a2, b2, c2 = a2, b2, c2, a1, b1, c1
    s = (b1 + b2) // 2
    n = b2 - s
    if a2 % a1 == 0:
        y1, d = 0, a1
    else:
        d, u, v = xgcd(a2, a1)
        y1 = u
    if s % d == 0:
        y2, x2, d1 = -1, 0, d
    else:
        d1, u, v = xgcd(s, d)
        x2, y2 = u, -v
    v1, v2 = a1 // d1, a2 // d1
    r = (y1 * y2 * n - x2 * c2) % v1
    b3 = b2 + 2 * v2 * r
    a3 = v1 * v2
    c3 = (c2 * d1 + r * (b2 + v2 * r)) // v1
    return form_reduce(a3, b3, c3)


def form_principal(D):
    b = D % 2
    return (1, b, (b * b - D) // 4)


def form_pow(f, e, D):
    r = form_principal(D)
    if e < 0:
        f, e = (f[0], -f[1], f[2]), -e
    while e:
        if e & 1:
            r = form_compose(r, f)
        f = form_compose(f, f)
        e >>= 1
    return r


def b_plus_of(D, p):
    """the documented sign convention: the root b of b^2 = D (mod p), 0 <= b <= p, b = D (mod 2);
    b = p (D odd) resp. 0 (D even) when p | D. p = 2: the form (2, b, .) with b in {0, 1, 2}.
    None when p does not split or ramify."""
    if p == 2:
        if D % 8 == 1:
            return 1
        if D % 8 == 0:
            return 0
        if D % 8 == 4:
            return 2
        return None
    r = sqrt_mod_prime(D, p)
    if r is None:
        return None
    if r == 0:
        return p if D % 2 else 0
    return r if (r - D) % 2 == 0 else p - r


def prime_form(D, p):
    b = b_plus_of(D, p)
    if b is None:
        return None
    num = b * b - D
    if num % (4 * p):
        return None
    return (p, b, num // (4 * p))


def relation_value(D, entries, cache=None):
    """reduced form of prod [|x|]^(sign x) over the entries of one relation line; string on error"""
    acc = form_principal(D)
    for x in entries:
        p = abs(x)
        f = cache.get(p) if cache is not None else None
        if f is None:
            if not is_prime(p):
                return f"{p} is not a prime"
            f = prime_form(D, p)
            if f is None:
                return f"no ideal of norm {p}: ({D}/{p}) = -1"
            if cache is not None:
                cache[p] = f
        if x < 0:
            f = (f[0], -f[1], f[2])
        acc = form_compose(acc, f)
    return acc


# ---------------------------------------------------------------- class numbers

def reduced_table(X):
    """cnt[n] = number of reduced forms (a, b, c) with 4ac - b^2 = n for 0 < n < X (all forms, primitive or not;
    for a fundamental discriminant every form is primitive)."""
    cnt = [0] * X
    a = 1
    while 3 * a * a < X:
        for b in range(0, a + 1):
            start = 4 * a * a - b * b          # c = a (b >= 0 only)
            if start >= X:
                continue
            cnt[start] += 1
            m = 2 if 0 < b < a else 1
            for n in range(start + 4 * a, X, 4 * a):
                cnt[n] += m
        a += 1
    return cnt


def reduced_forms(D):
    """every reduced primitive form of discriminant D < 0, by the definition (O(|D|))"""
    out = []
    n = -D
    b = n % 2
    while 3 * b * b <= n:
        m = (b * b + n) // 4
        a = max(b, 1)
        while a * a <= m:
            if m % a == 0:
                c = m // a
                if math.gcd(math.gcd(a, b), c) == 1:
                    out.append((a, b, c))
                    if 0 < b < a < c:
                        out.append((a, -b, c))
            a += 1
        b += 2
    return out


def _roots_mod_4a(D, a, fac):
    """all b in (-a, a] with b^2 = D (mod 4a); fac = factorisation of a"""
    mods = []          # (modulus, [roots])
    k2 = 0
    for p, e in fac:
        if p == 2:
            k2 = e
            continue
        if D % p == 0:
            if e > 1:
                return []
            mods.append((p, [0]))
            continue
        r = sqrt_mod_prime(D, p)
        if r is None:
            return []
        pk = p
        for _ in range(e - 1):
            pk2 = pk * p
            r = (r - (r * r - D) * pow(2 * r, -1, pk2)) % pk2
            pk = pk2
        mods.append((pk, [r, pk - r]))
    # 2-part: modulus 2^(k2+2)
    t = k2 + 2
    sols = [x for x in range(4) if (x * x - D) % 4 == 0]
    for j in range(2, t):
        nxt = []
        for s in sols:
            for c in (s, s + (1 << j)):
                if (c * c - D) % (1 << (j + 1)) == 0:
                    nxt.append(c)
        sols = sorted(set(nxt))
    if not sols:
        return []
    M, R = 1 << t, sols
    for m, rs in mods:
        inv = pow(M, -1, m)
        R = [x + M * ((r - x) * inv % m) for x in R for r in rs]
        M *= m
    out = set()
    for x in R:
        b = x % (2 * a)
        if b > a:
            b -= 2 * a
        out.add(b)
    return sorted(out)


def class_number_fast(D):
    """number of reduced forms of the fundamental discriminant D < 0 in O(sqrt|D| log log) operations:
    for 4a^2 < |D| every root b in (-a, a] of b^2 = D (mod 4a) gives a reduced form (c > a), their number
    rho(a) is multiplicative; for |D|/4 <= a^2 <= |D|/3 the roots are listed and tested."""
    n = -D
    A2 = isqrt(n // 3)
    A1 = isqrt((n - 1) // 4) if n > 1 else 0          # largest a with 4a^2 < n
    while 4 * (A1 + 1) * (A1 + 1) < n:
        A1 += 1
    rho = [1] * (A2 + 1)
    ps = small_primes(A2)
    for p in ps:
        chi = kronecker_prime(D, p)
        if chi == -1:
            rho[p::p] = [0] * len(range(p, A2 + 1, p))
        elif chi == 1:
            for i in range(p, A2 + 1, p):
                rho[i] *= 2
        else:
            if p * p <= A2:
                rho[p * p::p * p] = [0] * len(range(p * p, A2 + 1, p * p))
    h = sum(rho[1:A1 + 1])
    for a in range(A1 + 1, A2 + 1):
        if rho[a] == 0:
            continue
        fac, m = [], a
        for p in ps:
            if p * p > m:
                break
            if m % p == 0:
                e = 0
                while m % p == 0:
                    m //= p
                    e += 1
                fac.append((p, e))
        if m > 1:
            fac.append((m, 1))
        for b in _roots_mod_4a(D, a, fac):
            c = (b * b + n) // (4 * a)
            if c > a or (c == a and b >= 0):
                h += 1
    return h


def canonical_invariants(invs):
    """multiset of prime powers of a list of cyclic orders (isomorphism type of the product)"""
    out = []
    for d in invs:
        for p, e in factor_small(d):
            out.append(p ** e)
    return sorted(out)


def group_type(D, forms=None):
    """isomorphism type (sorted prime powers) of the class group, from the orders of all elements"""
    forms = forms or reduced_forms(D)
    h = len(forms)
    out = []
    for l, v in factor_small(h):
        if v == 1:
            out.append(l)
            continue
        m = h // l ** v
        # N[k] = number of elements of the l-Sylow subgroup of order dividing l^k
        N = [0] * (v + 1)
        for f in forms:
            g = form_pow(f, m, D)
            k = 0
            while g[0] != 1:
                g = form_pow(g, l, D)
                k += 1
            for j in range(k, v + 1):
                N[j] += 1
        N = [x // m for x in N]
        # N[k]/N[k-1] = l^(number of cyclic factors of order >= l^k)
        cnt = []
        for k in range(1, v + 1):
            q, r = N[k] // N[k - 1], 0
            while q > 1:
                q //= l
                r += 1
            cnt.append(r)
        cnt.append(0)
        for k in range(1, v + 1):
            out += [l ** k] * (cnt[k - 1] - cnt[k])
    return sorted(out)
