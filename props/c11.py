"""C11 — every combined relation is a true congruence and yields only proper divisors."""
# SIZE AUDIT (quick tier), measured on cases('quick', Random(1))
#   op                               quick max              thorough max   code supports                         boundary classes reached in quick
#   rs_history / rs_combine /        n: 62 bits (p1, p2 of  62 bits (!)    n: Uint, x < n <= 2^512 (x packed as  BEFORE: n of 32..62 bits ONLY, in BOTH tiers: x always fits one word, the
#     rel_verify (synthetic)         16..31 bits)                          8 words), sieves use n*k < 2^508      8-word packing of x inside the store, (r1.x * r2.x) % n and verify above 64
#                                                                                                                bits were reached only by the real sieve runs below -> ADDED 63..512 bits
#     large primes / maxlarge        2^32 - 1 (1/3 of the   same           p, q < 2^32 - 1 (assert p >> 32 == 0) 32-bit primes: 355 requests; the largest primes below 2^32 and the primes
#                                    worlds), p*q < 2^64                                                         next to 2^31 / 2^16 only by chance -> ADDED (pool with those primes)
#   sieve_history / sieve_final      n: 60..130 bits        same           n*k < 2^508                           real runs (slow): one per configuration; 64/128-bit boundary not aimed at
#   rel_pack / rel_roundtrip         x: 512 bits, k, cof,   same           x < 2^512, p < 2^32, k: u64           x in {1,63,64,65,200,448,511,512} bits by rng.choice over ~400: reached
#                                    clen 64 bits, p 32 bits
#   try_factor / final_combine       n: 80..500 bits (big)  same           n <= 2^512 (ZmodN: 8 words)           random 40..250-bit primes: word boundaries of n by chance (0..5 each)
#                                                                                                                -> ADDED exact widths 63..512 (maxchunk switches at 64 bits)
#   final_step                       n: 115 bits            same           as above                              kernel sizes, not operand sizes, are the classes here (unchanged)
# Added: boundary_cases (both tiers, first): histories / verify / combine / try_factor / final_combine with n = p1*p2 of exactly
# 63, 64, 65, 127, 128, 129, 255, 256, 257, 384, 448, 500, 511, 512 bits, and 31/32-bit worlds whose pool holds the primes next to 2^16, 2^31, 2^32.
from math import gcd
import random
from vlib.pipeline import Case
from vlib import gen

PID = "C11"
GEN = []
LEAN = ["Ymq.Props.C11", "Ymq.Props.C11Walk", "Ymq.Props.C11Total"]
AUDIT = "Ymq.Audit.C11"
THEOREMS = ["Ymq.C11." + t for t in (
    "verify_sound combine_valid combine_undivisible unpack_pack normFactors_prod unpack_pack_verify "
    "pack_one_becomes_two add_inv history_inv cycles_valid try_factor_proper even_combination_square "
    "kernel_step_proper verify_false_negative doubles_disjoint_add doubles_disjoint pack_total add_no_panic "
    "add_inv2 history_no_panic walk_root_max final_step_proper cycles_tail_even try_factor_unreduced_panics above_512_bits_counterexample combine_double_eq_step walk_stack_eq_rec add_stack_eq_add "
    "add_inv_stack history_inv_stack cycles_valid_stack doubles_disjoint_stack add_no_panic_stack "
    "history_no_panic_stack walk_iter_bound walk_iter_bound_contract add_stack_of_add history_stack_eq_rec "
    "cyclelen_bounded history_no_overflow history_total history_total_stack").split()]
PROFILES = ["release", "chk"]
TIMEOUT = 60.0
RULE = ("first, in both tiers, a deterministic boundary family: histories, verify, combine, try_factor and final_combine with n = p1*p2 of exactly 63, 64, 65, 127, "
        "128, 129, 255, 256, 257, 384, 448, 500, 511, 512 bits, and stores whose large-prime pool holds the primes next to 2^16, 2^31 and 2^32; then "
        "synthetic histories for the real RelationSet: n = p1*p2 (16..31-bit primes known to the generator, square roots "
        "by Tonelli-Shanks + CRT), factor base of 8..40 primes, relations x^2 = sign*cofactor*prod p^k built by solving for x, "
        "cofactor in {1, large prime, p*q, p*p}; 10..400 adds with adversarial orderings (double before/after either prime, "
        "chains forcing recursive walks, stars, duplicates, trivial relations, p = q, dropped relations, odd cycle lengths); "
        "plus single-call ops (verify, combine, pack/unpack, round trip, try_factor, final combine) and real siqs/mpqs/qs "
        "runs (64..130-bit n, single/double large primes, 1..4 threads) whose add history is recorded by the hook and replayed "
        "by the model. "
        "non-trivial = history with at least one published combined cycle, or a single-call op with a non-degenerate operand; "
        "distinct by request line")
MODELLED = ["relations.rs Relation::verify, RelationSet::{new,add,add_cycle,combine,combine_single,combine_double,walk_doubles}, "
            "PackedRelation::{pack,unpack}, combine (chunked products), try_factor, exponent accumulation of final_step "
            "and final_step around the kernel solver (occurrence table, stable sort, relation filter, kernel loop) "
            "(Ymq/Model/Relations.lean); maps as association lists in key order",
            "the explicit-stack formulation of walk_doubles / combine_double_step / combine_double / add as the code is since "
            "fix e402536 (Ymq/Model/RelationsWalk.lean: WalkFrame, walk_frame, the while loop with the position in the four "
            "loops, every assert/index a panic), K-compared with the code on every second history and on the chains"]
UNMODELLED = ["bnum Uint/Int operators and num_integer::gcd are taken as Nat/Int arithmetic; the 1024-bit width is not modelled: "
              "for n <= 2^512 every product of two reduced operands is below 2^1024, above that bound the release build wraps "
              "(counter-witness above_512_bits_counterexample; the sieves only build stores with n*k < 2^508)",
              "stack depth: since fix e402536 the code's walk_doubles keeps an explicit stack (before it a chain of ~8000 doubles "
              "overflowed the 8 MiB stack); that formulation is modelled line by line (Model/RelationsWalk.lean) and proved to "
              "compute exactly what the recursive model computes (walk_stack_eq_rec), its while loop ending within the proved "
              "bound Store.iterFuel = 2L^2(L+1)+1, L = doubles.len()+doubles_rev.len() (walk_iter_bound); the real stack/heap "
              "size itself is not modelled; chains of 8000..12000 links run on the real code (O only), "
              "chains up to 1000 (thorough 2000) links are compared with the stack model",
              "ZmodN operations inside relations::combine are taken as exact arithmetic modulo n (that is property C07)",
              "the kernel vectors handed to the final step are an input (kernel solvers are property C14)",
              "HashMap/BTreeMap/BTreeSet of std are taken to implement finite maps/sets with ordered iteration"]
HYPOTHESES = []

W64 = 1 << 64
_branch_hits = {}
_adds = [0]


# ------------------------------------------------------------------ number theory helpers

def sqrt_mod_prime(a, p):
    a %= p
    if a == 0:
        return 0
    if p == 2:
        return a
    if pow(a, (p - 1) // 2, p) != 1:
        return None
    if p % 4 == 3:
        return pow(a, (p + 1) // 4, p)
    q, s = p - 1, 0
    while q % 2 == 0:
        q //= 2
        s += 1
    z = 2
    while pow(z, (p - 1) // 2, p) != p - 1:
        z += 1
    m, c, t, r = s, pow(z, q, p), pow(a, q, p), pow(a, (q + 1) // 2, p)
    while t != 1:
        i, t2 = 0, t
        while t2 != 1:
            t2 = t2 * t2 % p
            i += 1
        b = pow(c, 1 << (m - i - 1), p)
        m, c = i, b * b % p
        t, r = t * c % p, r * b % p
    return r


class Modulus:
    def __init__(self, rng, b1, b2):
        self.p1 = gen.rand_prime(rng, b1)
        self.p2 = gen.rand_prime(rng, b2)
        while self.p2 == self.p1:
            self.p2 = gen.rand_prime(rng, b2)
        self.n = self.p1 * self.p2
        self.i1 = pow(self.p2, -1, self.p1)
        self.i2 = pow(self.p1, -1, self.p2)

    def sqrt(self, v, rng):
        r1 = sqrt_mod_prime(v, self.p1)
        r2 = sqrt_mod_prime(v, self.p2)
        if r1 is None or r2 is None:
            return None
        if rng.random() < 0.5:
            r1 = (-r1) % self.p1
        if rng.random() < 0.5:
            r2 = (-r2) % self.p2
        return (r1 * self.p2 * self.i1 + r2 * self.p1 * self.i2) % self.n


def small_primes(limit):
    return [p for p in range(2, limit) if all(p % q for q in range(2, int(p ** 0.5) + 1))]


SMALL = small_primes(4000)


# ------------------------------------------------------------------ tokens

def ftoken(fs):
    return "-" if not fs else "*".join(("m1" if p == -1 else str(p)) + "^" + str(k) for p, k in fs)


def rtoken(x, cof, clen, fs):
    return f"{x}:{cof}:{clen}:{ftoken(fs)}"


def parse_factors(s):
    if s == "-":
        return []
    out = []
    for t in s.split("*"):
        p, k = t.split("^")
        out.append((-1 if p == "m1" else int(p), int(k)))
    return out


def parse_rel(s):
    x, c, l, f = s.split(":")
    return int(x), int(c), int(l), parse_factors(f)


def fvalue(fs, n):
    v = 1
    for p, k in fs:
        v = v * pow(p, k, n) % n
    return v


def tail_even(fs):
    """all entries of a prime except the first have even exponents (Lean: TailEven)"""
    seen = set()
    for p, k in fs:
        if p in seen and k % 2:
            return False
        seen.add(p)
    return True


def rel_valid(n, rel):
    x, c, _, fs = rel
    return (x * x - c * fvalue(fs, n)) % n == 0


# ------------------------------------------------------------------ relation / history generator

class World:
    """one modulus, factor base and pool of large primes"""

    def __init__(self, rng):
        self.rng = rng
        self.m = Modulus(rng, rng.randint(16, 31), rng.randint(16, 31))
        self.n = self.m.n
        nfb = rng.randint(8, 40)
        self.fb = sorted(rng.sample(SMALL[:rng.choice([40, 100, 400])], nfb))
        fbmax = self.fb[-1]
        # maxlarge: single large primes live in (fbmax, maxlarge)
        self.maxlarge = rng.choice([fbmax * rng.randint(3, 60), 1 << rng.randint(14, 31), (1 << 32) - 1])
        self.maxlarge = max(self.maxlarge, fbmax * 3)
        lo = fbmax + 1
        npool = rng.randint(3, 24)
        pool = set()
        guard = 0
        while len(pool) < npool and guard < 10000:
            guard += 1
            # primes above sqrt(maxlarge) (so that p*q, p*p >= maxlarge) and a few below it
            if rng.random() < 0.8:
                a = max(lo, int(self.maxlarge ** 0.5) + 1)
            else:
                a = lo
            if a >= self.maxlarge - 1:
                a = lo
            p = gen.next_prime(rng.randrange(a, self.maxlarge - 1))
            if p < self.maxlarge and p % 2 == 1 and p not in (self.m.p1, self.m.p2) and p + 1 < (1 << 32):
                pool.add(p)
        self.pool = sorted(pool)

    def factors(self, sign=None):
        rng = self.rng
        fs = []
        if sign is None:
            sign = rng.random() < 0.5
        cnt = rng.choice([0, 1, 2, 3, 4, 6, 10])
        ps = rng.sample(self.fb, min(cnt, len(self.fb)))
        ps.sort()
        for p in ps:
            k = rng.choice([1, 1, 1, 2, 2, 3, 4, 7, 17])
            fs.append((p, k))
        if sign:
            k = rng.choice([1, 1, 1, 3, 2]) if rng.random() < 0.3 else 1
            pos = 0 if rng.random() < 0.8 else rng.randint(0, len(fs))
            fs.insert(pos, (-1, k))
        return fs

    def relation(self, cof, clen=1, tries=200):
        """(x, cof, clen, factors) with x^2 = cof * prod (mod n); None if unlucky"""
        rng = self.rng
        for _ in range(tries):
            fs = self.factors()
            v = cof * fvalue(fs, self.n) % self.n
            x = self.m.sqrt(v, rng)
            if x is not None:
                return (x, cof, clen, fs)
        return None


class MultiModulus:
    """n = product of distinct odd primes known to the generator; square roots by CRT"""

    def __init__(self, primes):
        self.ps = list(primes)
        self.n = 1
        for q in self.ps:
            self.n *= q
        self.coef = [(self.n // q) * pow(self.n // q, -1, q) for q in self.ps]

    def is_square(self, v):
        return all(v % q != 0 and pow(v % q, (q - 1) // 2, q) == 1 for q in self.ps)

    def sqrt(self, v, rng):
        x = 0
        for q, c in zip(self.ps, self.coef):
            r = sqrt_mod_prime(v, q)
            if r is None:
                return None
            if rng.random() < 0.5:
                r = (-r) % q
            x += r * c
        return x % self.n


_PRIMES = []


def first_primes(count):
    global _PRIMES
    if len(_PRIMES) < count:
        lim = max(1000, int(count * 14))
        sieve = bytearray([1]) * (lim + 1)
        sieve[0] = sieve[1] = 0
        for i in range(2, int(lim ** 0.5) + 1):
            if sieve[i]:
                sieve[i * i::i] = bytearray(len(sieve[i * i::i]))
        _PRIMES = [i for i in range(lim + 1) if sieve[i]]
        assert len(_PRIMES) >= count
    return _PRIMES[:count]


def usable_fb_primes(mm, size):
    """odd primes that are certainly in FBase::new(n, size): n is a non-zero square modulo p, and p is well
    inside the truncated base (the base keeps 8*min((size+7)/8, len/8) of the qualifying primes)"""
    keep = [q for q in first_primes(2 * size + 40) if q == 2 or pow(mm.n % q, (q - 1) // 2, q) == 1]
    cnt = 8 * min((size + 7) // 8, len(keep) // 8)
    return [q for q in keep[:max(cnt - 16, 0)] if q != 2]


def final_relation(mm, rng, fs, tries=400):
    """complete relation x^2 = prod fs (mod n); fs may be adjusted by the sign"""
    v = fvalue(fs, mm.n)
    x = mm.sqrt(v, rng)
    if x is None:
        return None
    return (x, 1, 1, fs)


def final_step_case(rng, kind):
    nf = {"semi": 2, "lanczos": 2}.get(kind, rng.choice([2, 3, 3, 4]))
    bits = rng.randint(18, 30)
    ps = set()
    while len(ps) < nf:
        ps.add(gen.rand_prime(rng, bits + rng.randint(-2, 2)))
    mm = MultiModulus(sorted(ps))
    n = mm.n
    size = 11000 if kind == "lanczos" else rng.choice([24, 48, 120, 400])
    fb = usable_fb_primes(mm, size)
    # base primes that are themselves squares modulo every factor of n (a relation with one of them alone exists)
    good = [q for q in fb[:2000] if mm.is_square(q)]
    rels = []
    if kind == "empty" or not good:
        kind = "empty"
    elif kind == "trivial-even":
        # x = prod p^e exactly: every combination has a = b
        for _ in range(rng.randint(3, 60)):
            es = [(q, rng.randint(1, 3)) for q in rng.sample(good, min(len(good), rng.randint(1, 5)))]
            x = 1
            for q, e in es:
                x = x * pow(q, e, n) % n
            if rng.random() < 0.3:
                x = (n - x) % n
            rels.append((x, 1, 1, sorted((q, 2 * e) for q, e in es)))
    elif kind == "trivial-dups":
        # every relation has a private prime; the only dependencies are the duplicates (x, x) or (x, n - x)
        for q in rng.sample(good, min(len(good), rng.randint(2, 40))):
            r = final_relation(mm, rng, [(q, rng.choice([1, 3]))])
            if r:
                rels.append(r)
                rels.append(r if rng.random() < 0.5 else ((n - r[0]) % n, 1, 1, r[3]))
        rng.shuffle(rels)
    elif kind == "lanczos":
        pool = fb[:5400]
        count = 2 * len(pool)
        guard = 0
        while len(rels) < count and guard < 40 * count:
            guard += 1
            fs = sorted((q, 1) for q in rng.sample(pool, 3))
            if rng.random() < 0.3:
                fs = [(-1, 1)] + fs
            if not mm.is_square(fvalue(fs, n)):
                continue
            r = final_relation(mm, rng, fs)
            if r:
                rels.append(r)
    else:
        # few / many: random relations over a small pool; `many` has a large excess of relations
        pool = rng.sample(fb[:200], min(len(fb[:200]), rng.randint(4, 30)))
        extra = rng.randint(0, 3) if kind == "few" else rng.randint(20, 80)
        guard = 0
        while len(rels) < len(pool) + extra and guard < 5000:
            guard += 1
            fs = sorted((q, rng.choice([1, 1, 1, 2, 3])) for q in rng.sample(pool, rng.randint(1, min(6, len(pool)))))
            if rng.random() < 0.4:
                fs = [(-1, rng.choice([1, 1, 2]))] + fs
            if rng.random() < 0.1:
                fs.append((rng.choice([1000003, 15485863, 2147483647]), 2))      # outside the base, even exponent
            if not mm.is_square(fvalue(fs, n)):
                continue
            r = final_relation(mm, rng, fs)
            if r:
                rels.append(r)
    # columns of the matrix final_step builds: primes (or the sign) with more than one odd occurrence
    occ = {}
    for r in rels:
        for q, e in r[3]:
            if e % 2:
                occ[q] = occ.get(q, 0) + 1
    ncols = sum(1 for v in occ.values() if v > 1)
    line = f"final_step {n} {size} " + (";".join(rtoken(*r) for r in rels) if rels else "-")
    return Case(line, k=False, tag=f"fstep/{kind}/{'lanczos' if ncols > 5000 else 'gauss'}", timeout=600.0)


def item(rel, pq):
    return rtoken(*rel) + "|" + (f"{pq[0]},{pq[1]}" if pq else "-")


def history(rng, size, style, world=None):
    """-> (world, list of (rel, pq)) ; every relation is valid and inside the callers' contract"""
    w = world or World(rng)
    ops = []
    pool = w.pool

    def clen():
        return 1 if rng.random() < 0.85 else rng.choice([1, 2, 3, 7, 8, 9, 20])

    def single(p):
        r = w.relation(p, clen())
        if r:
            ops.append((r, None))

    def double(p, q, swap=None):
        c = p * q
        r = w.relation(c, clen())
        if r:
            if swap is None:
                swap = rng.random() < 0.5
            ops.append((r, (q, p) if swap else (p, q)))

    def complete():
        r = w.relation(1, clen())
        if r:
            ops.append((r, None))

    def dropped():
        # cofactor >= maxlarge without a factorisation: silently ignored by add
        p, q = rng.choice(pool), rng.choice(pool)
        if p * q >= w.maxlarge:
            r = w.relation(p * q, 1)
            if r:
                ops.append((r, None))

    def chain(k, close):
        ps = rng.sample(pool, min(k, len(pool)))
        edges = list(zip(ps, ps[1:]))
        if rng.random() < 0.5:
            rng.shuffle(edges)
        for a, b in edges:
            double(a, b)
        if close and ps:
            single(rng.choice([ps[0], ps[-1], rng.choice(ps)]))

    def star(k):
        c = rng.choice(pool)
        others = [p for p in pool if p != c]
        for q in rng.sample(others, min(k, len(others))):
            double(c, q)
        if rng.random() < 0.7:
            single(c)

    guard = 0
    while len(ops) < size and guard < size * 20:
        guard += 1
        u = rng.random()
        if style == "chains":
            if u < 0.35 and len(pool) >= 3:
                chain(rng.randint(2, min(len(pool), 12)), rng.random() < 0.7)
            elif u < 0.5:
                star(rng.randint(2, 6))
            elif u < 0.7:
                single(rng.choice(pool))
            elif u < 0.8:
                complete()
            else:
                double(*rng.sample(pool, 2)) if len(pool) >= 2 else complete()
        else:
            if u < 0.15:
                complete()
            elif u < 0.45:
                single(rng.choice(pool))
            elif u < 0.8 and len(pool) >= 2:
                double(*rng.sample(pool, 2))
            elif u < 0.85:
                p = rng.choice(pool)
                double(p, p)
            elif u < 0.9 and ops:
                ops.append(rng.choice(ops))                 # exact duplicate (trivial combination)
            elif u < 0.93:
                dropped()
            elif u < 0.96 and len(pool) >= 3:
                chain(rng.randint(2, min(len(pool), 8)), True)
            else:
                star(rng.randint(2, 5))
    if style == "shuffled":
        rng.shuffle(ops)
    elif style == "doubles-first":
        ops.sort(key=lambda o: 0 if o[1] else 1)
    elif style == "singles-first":
        ops.sort(key=lambda o: 1 if o[1] else 0)
    return w, ops[:max(size, 1)]


def chain_case(rng, depth, k, profiles=None):
    """depth chained doubles (p1,p2),(p2,p3),.. then the single p1: one walk of that depth"""
    w = World(rng)
    w.maxlarge = 1 << 21
    ps, q = [], (1 << 14) + 1
    while len(ps) < depth + 1:
        q = gen.next_prime(q + 1)
        if q not in (w.m.p1, w.m.p2):
            ps.append(q)
    assert ps[-1] < w.maxlarge
    ops = []
    for a, b in zip(ps, ps[1:]):
        r = w.relation(a * b, 1)
        ops.append((r, (a, b) if rng.random() < 0.5 else (b, a)))
    ops.append((w.relation(ps[0] if rng.random() < 0.7 else ps[-1], 1), None))
    if k == "stats":
        # counters only, compared with the explicit-stack model (the recursive one agrees but is not run here)
        return Case(f"rs_history_stats {w.n} {len(w.fb)} {w.maxlarge} " + ";".join(item(r, pq) for r, pq in ops),
                    tag=f"hist/chain-stack/{depth}", timeout=900.0)
    if k:
        return Case(f"rs_history_stack {w.n} {len(w.fb)} {w.maxlarge} " + ";".join(item(r, pq) for r, pq in ops),
                    tag="hist/chain/stack", timeout=600.0)
    # deep chains: counters only (the store dump is quadratic in the chain length), no model run
    return Case(f"rs_history_stats {w.n} {len(w.fb)} {w.maxlarge} " + ";".join(item(r, pq) for r, pq in ops),
                k=False, tag=f"hist/chain-deep/{depth}", timeout=900.0, profiles=profiles)


def history_case(rng, size, style, world=None):
    w, ops = history(rng, size, style, world)
    line = f"rs_history {w.n} {len(w.fb)} {w.maxlarge} " + (";".join(item(r, pq) for r, pq in ops) if ops else "-")
    return Case(line, tag="hist/" + style)


# ------------------------------------------------------------------ cases

def single_op_cases(rng, count):
    for i in range(count):
        w = World(rng)
        n = w.n
        c = i % 8
        cof = rng.choice([1, rng.choice(w.pool), rng.choice(w.pool) * rng.choice(w.pool)])
        r = w.relation(cof, rng.choice([1, 2, 5]))
        if r is None:
            continue
        if c == 0:
            if cof <= n:
                yield Case(f"rel_verify {n} {rtoken(*r)}", tag="verify/valid")
            bad = (r[0] ^ 1, r[1], r[2], r[3]) if rng.random() < 0.5 else (r[0], r[1], r[2], r[3] + [(rng.choice(w.fb), 1)])
            if cof <= n:
                yield Case(f"rel_verify {n} {rtoken(*bad)}", tag="verify/invalid")
        elif c == 1:
            p = rng.choice(w.pool)
            q = rng.choice(w.pool)
            r1 = w.relation(p * q if rng.random() < 0.5 else p, 1)
            r2 = w.relation(p, rng.choice([1, 3]))
            if r1 and r2:
                a, b = (r1, r2) if rng.random() < 0.7 else (r2, r1)
                yield Case(f"rs_combine {n} {rtoken(*a)} {rtoken(*b)}", tag="combine")
        elif c == 2:
            yield Case(f"rel_pack {rtoken(*r)}", tag="pack")
            yield Case(f"rel_roundtrip {rtoken(*r)}", tag="roundtrip")
        elif c == 3:
            # wide operands: x up to 512 bits, exponents/cofactor/cyclelen up to 64 bits, primes up to 32 bits
            fs = []
            for _ in range(rng.randint(0, 12)):
                p = rng.choice([-1, 2, 3, rng.choice(SMALL), gen.next_prime(rng.getrandbits(rng.randint(3, 31))),
                                (1 << 32) - 1, (1 << 32) - 5])
                if p > 2 and p % 2 == 0:
                    p += 1
                k = rng.choice([1, 1, 2, 3, 127, 128, 129, 16383, 16384, rng.getrandbits(64) | 1, (1 << 64) - 1, 1 << 63])
                fs.append((p, k))
            x = rng.getrandbits(rng.choice([1, 63, 64, 65, 200, 448, 511, 512]))
            rel = (x, rng.getrandbits(rng.choice([1, 7, 8, 32, 63, 64])), rng.getrandbits(rng.choice([1, 7, 14, 64])), fs)
            yield Case(f"rel_roundtrip {rtoken(*rel)}", tag="roundtrip/wide")
            yield Case(f"rel_pack {rtoken(*rel)}", tag="pack/wide")
            if i % 64 == 3:
                # long factor lists (255, 256, 257, .. entries): nothing may be cut off
                cnt = rng.choice([255, 256, 257, 300, 600, 1000])
                fs = [(rng.choice(SMALL), rng.choice([1, 1, 2, 5])) for _ in range(cnt)]
                rel = (rng.getrandbits(300), rng.getrandbits(31) | 1, 1, fs)
                yield Case(f"rel_roundtrip {rtoken(*rel)}", tag="roundtrip/long")
                yield Case(f"rel_pack {rtoken(*rel)}", tag="pack/long")
        elif c == 4:
            # a^2 = b^2 pairs: trivial and non-trivial
            a = rng.randrange(n)
            kind = rng.choice(["same", "neg", "nontrivial", "zero", "shared", "random"])
            if kind == "same":
                b = a
            elif kind == "neg":
                b = (n - a) % n
            elif kind == "nontrivial":
                # b = a on p1, -a on p2
                b = (a % w.m.p1 * w.m.p2 * w.m.i1 + (-a) % w.m.p2 * w.m.p1 * w.m.i2) % n
            elif kind == "zero":
                a, b = 0, 0
            elif kind == "shared":
                a = w.m.p1 * rng.randrange(1, w.m.p2)
                b = rng.choice([a, (n - a) % n])
            else:
                b = rng.randrange(n)
            yield Case(f"try_factor {n} {a} {b}", tag="try_factor/" + kind)
        elif c == 5:
            xs = [rng.randrange(n) for _ in range(rng.randint(0, 6))]
            fs = []
            for _ in range(rng.randint(0, 10)):
                p = rng.choice([-1] + w.fb + w.pool)
                if p >= n:
                    continue
                fs.append((p, rng.choice([1, 3]) if p == -1 else 2 * rng.choice([1, 1, 2, 3, 8, 20])))
            yield Case(f"final_combine {n} {','.join(map(str, xs)) if xs else '-'} {ftoken(fs)}", tag="final_combine")
        elif c == 6:
            # big modulus (more than 64 bits): maxchunk = 2^32
            P = gen.rand_prime(rng, rng.randint(40, 250))
            Q = gen.rand_prime(rng, rng.randint(40, 250))
            N = P * Q
            xs = [rng.randrange(N) for _ in range(rng.randint(1, 5))]
            fs = [(rng.choice([2, 3, 65537, 4294967291, -1] + w.fb), 2 * rng.randint(1, 9)) for _ in range(rng.randint(1, 12))]
            yield Case(f"final_combine {N} {','.join(map(str, xs))} {ftoken(fs)}", tag="final_combine/big")
            a = rng.randrange(N)
            b = rng.choice([a, N - a, (a % P * Q * pow(Q, -1, P) + (-a) % Q * P * pow(P, -1, Q)) % N])
            yield Case(f"try_factor {N} {a} {b}", tag="try_factor/big")
        else:
            # outside the callers' contract: defined answers in the checked profile only, no spec oracle
            kind = rng.choice(["x>=n", "bad-pq", "even-cofactor", "clen0", "invalid"])
            p, q = rng.choice(w.pool), rng.choice(w.pool)
            r1 = w.relation(p, 1)
            r2 = w.relation(p, 1)
            r3 = w.relation(p * q, 1)
            if not (r1 and r2 and r3) or p * q < w.maxlarge or 2 * p * q >= W64:
                continue
            if kind == "x>=n":
                r1 = (r1[0] + n, r1[1], r1[2], r1[3])
                ops = [(r1, None), (r2, None)]
            elif kind == "bad-pq":
                ops = [(r1, None), (r3, (p, q + 2))]
            elif kind == "even-cofactor":
                ops = [((r1[0], 2 * p, 1, r1[3]), None), ((r3[0], 2 * p * q, 1, r3[3]), (2 * p, q))]
            elif kind == "clen0":
                ops = [((r1[0], 1, 0, r1[3]), None)]
            else:
                ops = [(r1, None), ((r2[0] ^ 1, r2[1], r2[2], r2[3]), None)]
            line = f"rs_history {n} {len(w.fb)} {w.maxlarge} " + ";".join(item(r, pq) for r, pq in ops)
            yield Case(line, o=False, profiles=["chk"], tag="contract/" + kind)


def corpus_case(line):
    """corpus lines may start with `@chk ` (checked profile only, no spec oracle: outside the contract) or `@k `"""
    if line.startswith("@chk "):
        return Case(line[5:], o=False, profiles=["chk"], tag="corpus/contract")
    if line.startswith("@k "):          # model/code comparison only (documented edge of the domain)
        return Case(line[3:], o=False, tag="corpus/edge")
    if line.startswith("sieve_"):       # real runs: the model answers through the follow-up request
        return Case(line, k=False, tag="corpus/real", timeout=300.0)
    if line.startswith("final_step "):  # constructed sets: the model answers through the follow-up `final_replay`
        return Case(line, k=False, tag="corpus/fstep")
    return Case(line, tag="corpus")


def _fork(rng, label):
    """own stream for the boundary family: depends on the run's seed, leaves the stream of the older families untouched"""
    return random.Random(f"{label}:{rng.getstate()[1][:4]}")


# bit lengths of n = p1*p2 around the word boundaries of x (packed as 8 words, multiplied in 1024 bits) and at the end of the range
BOUNDARY_NBITS = [63, 64, 65, 127, 128, 129, 255, 256, 257, 384, 448, 500, 511, 512]
EDGE_LARGE = [65521, 65537, 65539, 2147483629, 2147483647, 2147483659, 2147483693, 4294967231, 4294967279, 4294967291]


def boundary_world(rng, nbits, edge_pool):
    """a World whose modulus has exactly nbits bits; edge_pool: maxlarge = 2^32 - 1 and the primes next to 2^16, 2^31, 2^32 in the pool"""
    w = World(rng)
    for _ in range(1000):
        b1 = nbits // 2 + rng.randint(-(nbits // 8), nbits // 8)
        m = Modulus(rng, b1, nbits - b1)
        if m.n.bit_length() != nbits:
            m = Modulus(rng, b1, nbits - b1 + 1)
        if m.n.bit_length() == nbits:
            break
    assert m.n.bit_length() == nbits
    w.m, w.n = m, m.n
    if edge_pool:
        w.maxlarge = (1 << 32) - 1
        w.pool = sorted(set(EDGE_LARGE + w.pool[:4]) - {m.p1, m.p2})
        w.pool = [p for p in w.pool if p > w.fb[-1]]
    return w


def boundary_cases(rng, tier):
    """deterministic size classes (both tiers, yielded first)"""
    styles = ["mixed", "chains", "shuffled", "doubles-first", "singles-first"]
    j = 0
    for nbits in [31, 32, 62] + BOUNDARY_NBITS:
        for edge in ((True,) if nbits < 63 else (False, True)):
            w = boundary_world(rng, nbits, edge)
            n = w.n
            yield history_case(rng, rng.randint(30, 60), styles[j % len(styles)], w)
            j += 1
            # single calls on the same modulus
            cof = rng.choice(w.pool)
            r = w.relation(cof, rng.choice([1, 2, 5]))
            if r and cof <= n:
                yield Case(f"rel_verify {n} {rtoken(*r)}", tag="verify/valid")
                yield Case(f"rel_verify {n} {rtoken(r[0] ^ 1, r[1], r[2], r[3])}", tag="verify/invalid")
            if r:
                yield Case(f"rel_roundtrip {rtoken(*r)}", tag="roundtrip")
            pp, q = rng.sample(w.pool, 2)
            r1 = w.relation(pp * q if j % 2 else pp, 1)
            r2 = w.relation(pp, rng.choice([1, 3]))
            if r1 and r2:
                a, b = (r1, r2) if j % 3 else (r2, r1)
                yield Case(f"rs_combine {n} {rtoken(*a)} {rtoken(*b)}", tag="combine")
            # a^2 = b^2: non-trivial, trivial, shared factor
            a = rng.randrange(n)
            b = (a % w.m.p1 * w.m.p2 * w.m.i1 + (-a) % w.m.p2 * w.m.p1 * w.m.i2) % n
            yield Case(f"try_factor {n} {a} {b}", tag="try_factor/nontrivial")
            yield Case(f"try_factor {n} {a} {(n - a) % n}", tag="try_factor/neg")
            a = w.m.p1 * rng.randrange(1, w.m.p2)
            yield Case(f"try_factor {n} {a} {(n - a) % n}", tag="try_factor/shared")
            xs = [rng.randrange(n) for _ in range(rng.randint(1, 5))] + [n - 1]
            fs = [(rng.choice([2, 3, 65537, 4294967291, -1] + w.fb + w.pool), 2 * rng.randint(1, 9)) for _ in range(rng.randint(1, 12))]
            fs = [(f, k) for f, k in fs if f < n]
            yield Case(f"final_combine {n} {','.join(map(str, xs))} {ftoken(fs)}", tag="final_combine/big" if nbits > 64 else "final_combine")


def cases(tier, rng, extended=False):
    yield from boundary_cases(_fork(rng, "C11-boundary"), tier)
    quick = tier == "quick"
    nh = 640 if quick else 10000
    nops = 3200 if quick else 40000
    if extended:
        nh *= 4
        nops *= 4
    styles = ["mixed", "chains", "shuffled", "doubles-first", "singles-first"]
    for i in range(nh):
        style = styles[i % len(styles)]
        if i % 40 == 39:
            size = rng.randint(250, 400)
        elif i % 4 == 0:
            size = rng.randint(10, 40)
        else:
            size = rng.randint(40, 160)
        hc = history_case(rng, size, style)
        yield hc
        if i % 2 == 0:
            # same history answered by the explicit-stack model of walk_doubles (Model/RelationsWalk.lean)
            yield Case(hc.line.replace("rs_history ", "rs_history_stack ", 1), tag=hc.tag + "/stack")
    yield from single_op_cases(rng, nops)
    # real sieve runs: every relation handed to RelationSet::add is recorded under the write lock (hook),
    # the model replays the recorded history (followup); the oracle checks the callers' contract on it
    configs = [("siqs", 110, "dbl=1"), ("siqs", 124, "dbl=1"), ("mpqs", 100, "dbl=1 lf=100"), ("qs", 86, "dbl=1 lf=100"),
               ("siqs", 100, "dbl=1 lf=200 threads=4"), ("mpqs", 90, "lf=300"), ("siqs", 80, ""), ("qs", 64, "lf=40"),
               ("mpqs", 72, "dbl=1"), ("siqs", 96, "dbl=1 threads=2")]
    reps = 1 if quick else 12
    if extended:
        reps *= 3
    for _ in range(reps):
        for alg, bits, extra in configs:
            b = bits + rng.randint(-3, 3)
            p1 = gen.rand_prime(rng, b // 2)
            p2 = gen.rand_prime(rng, b - b // 2)
            if p1 == p2:
                continue
            yield Case(f"sieve_history {alg} {p1 * p2} {extra}".strip(), k=False, tag=f"real/{alg}", timeout=300.0)
    # final_step on constructed relation sets (n = product of 2..4 known primes): empty set, sets whose kernel
    # is entirely trivial, few/many dependencies, and more than 5000 columns (block Lanczos instead of Gauss);
    # the kernel the real solver returned is handed to the model (followup)
    kinds = ["empty", "trivial-even", "trivial-dups", "few", "many", "many", "semi"]
    for i in range((40 if quick else 1500) * (3 if extended else 1)):
        yield final_step_case(rng, kinds[i % len(kinds)])
    for _ in range(1 if quick else 6):
        yield final_step_case(rng, "lanczos")
    # long chains of doubles closed by one single: recursion depth = chain length (the explicit stack of
    # walk_doubles since fix e402536; before it 8000 links overflowed the 8 MiB main-thread stack)
    for depth in ([120, 300] if quick else [50, 120, 300, 300, 500]):
        yield chain_case(rng, depth, True)
    for depth in ([1000] if quick else [1000, 2000]):
        yield chain_case(rng, depth, "stats")
    if quick:
        yield chain_case(rng, 8000, False, profiles=["release"])
    else:
        for depth in [3000, 8000, 12000]:
            yield chain_case(rng, depth, False)
    # real final_step calls: inputs, kernel vectors and divisors recorded by the hook; the model replays
    # everything around the kernel solver (occurrence table, sort, filter, accumulation, combine, try_factor)
    fconfigs = [("siqs", 80, 2, ""), ("mpqs", 70, 2, "dbl=1"), ("qs", 60, 2, ""), ("siqs", 110, 2, "dbl=1"),
                ("mpqs", 96, 3, "lf=200"), ("siqs", 100, 3, ""), ("qs", 72, 3, "lf=30"), ("mpqs", 88, 4, ""),
                ("siqs", 90, 2, "threads=3"), ("siqs", 120, 3, "dbl=1")]
    for _ in range(reps):
        for alg, bits, k, extra in fconfigs:
            ps = set()
            while len(ps) < k:
                ps.add(gen.rand_prime(rng, max(12, bits // k + rng.randint(-2, 2))))
            n = 1
            for q in ps:
                n *= q
            yield Case(f"sieve_final {alg} {n} {extra}".strip(), k=False, tag=f"final/{alg}/{k}primes", timeout=300.0)


# ------------------------------------------------------------------ oracle

def parse_history_answer(ans):
    """-> (records [(tag, [rel])], final dict) or None"""
    if " | " not in ans:
        return None
    recs_s, fin_s = ans.split(" | ")
    recs = []
    if recs_s:
        for rec in recs_s.split(";"):
            parts = rec.split("=")
            recs.append((parts[0], [parse_rel(x) for x in parts[1:]]))
    fin = dict(kv.split("=", 1) for kv in fin_s.split(" "))
    return recs, fin


def followup(case, ans):
    """replay of a REAL recorded history through the model; expected = the real store's answer"""
    if case.op == "final_step":
        parts = ans.split(" || ")
        if len(parts) != 3:
            return None
        a = case.args
        return (f"final_replay {a[0]} {parts[1]} {a[2]} {parts[2]}", parts[0])
    if case.op not in ("sieve_history", "sieve_final") or " || " not in ans:
        return None
    parts = ans.split(" || ")
    if len(parts) != 3 or parts[1] == "-":
        return None
    if case.op == "sieve_final":
        return ("final_replay " + parts[1], parts[2])
    return ("rs_history " + parts[1], parts[2])


def large_ok(p):
    return 1 < p and p + 1 < (1 << 32) and (p == 2 or p % 2 == 1)


def contract_violation(n, maxlarge, it):
    """the callers' contract InputOK2 (Ymq/Lemmas/RelationsInv2.lean) on one recorded add"""
    f = it.split("|")
    rel = parse_rel(f[-2])
    pq = None if f[-1] == "-" else tuple(map(int, f[-1].split(",")))
    x, c, l, fs = rel
    if not x < n:
        return "x >= n"
    if not rel_valid(n, rel):
        return "not a congruence"
    if l < 1:
        return "cyclelen 0"
    for p, k in fs:
        if p != -1 and not (0 < p < (1 << 32) and k > 0 and (p == 2 or p % 2 == 1)):
            return f"factor entry {p}^{k} outside the encoder's domain"
    if not tail_even(fs):
        return "a prime is listed twice with an odd later exponent"
    if c == 1:
        return None
    if c < maxlarge:
        return None if large_ok(c) else f"single large prime {c} not usable"
    if pq is None:
        return None                      # dropped by add
    if pq[0] * pq[1] != c:
        return "cofactor is not p*q"
    if not (large_ok(pq[0]) and large_ok(pq[1])):
        return f"pair {pq} not usable"
    return None


def oracle(case, ans):
    op, a = case.op, case.args
    if ans in ("hang", "abort", "?") or ans.startswith("panic"):
        return f"no value returned ({ans})"
    if op == "rs_history_stats":
        depth = a[3].count(";")
        want = f"cycles=0 stats=1,{depth},{depth},0,0,0,0,0,0,0,0"
        return None if ans == want else f"chain of {depth} doubles + one single: expected {want}, got {ans[:80]}"
    if op == "final_step":
        parts = ans.split(" || ")
        if len(parts) != 3:
            return "malformed answer"
        n = int(a[0])
        if parts[0] != "-":
            for d in map(int, parts[0].split(",")):
                if not (1 < d < n and n % d == 0):
                    return f"final_step returned {d}, not a proper divisor of {n}"
        return None
    if op == "sieve_final":
        parts = ans.split(" || ")
        if len(parts) != 3:
            return "malformed answer"
        if not parts[0].startswith("ok"):
            return f"sieve did not return factors ({parts[0]})"
        if parts[1] == "-":
            return None
        n_s, _, rels, _ = parts[1].split(" ")
        n = int(n_s)
        if rels != "-":
            for r in rels.split(";"):
                rel = parse_rel(r)
                if rel[1] != 1 or not rel_valid(n, rel):
                    return f"final_step received a relation that is not a complete congruence: {r[:200]}"
                if not tail_even(rel[3]):
                    return f"final_step received a relation whose OR-parity differs from its exponent parity: {r[:200]}"
        if parts[2] != "-":
            for d in map(int, parts[2].split(",")):
                if not (1 < d < n and n % d == 0):
                    return f"final_step returned {d}, not a proper divisor of {n}"
        return None
    if op == "sieve_history":
        parts = ans.split(" || ")
        if len(parts) != 3:
            return "malformed answer"
        if not parts[0].startswith("ok"):
            return f"sieve did not return factors ({parts[0]})"
        if parts[1] == "-":
            return None
        n_s, fb_s, ml_s, hist = parts[1].split(" ")
        n, maxlarge = int(n_s), int(ml_s)
        for it in hist.split(";"):
            msg = contract_violation(n, maxlarge, it)
            if msg:
                return f"caller hands add a relation outside the stated contract: {msg}: {it[:200]}"
        return oracle(Case("rs_history " + parts[1]), parts[2])
    if op in ("rs_history", "rs_history_stack"):
        n = int(a[0])
        parsed = parse_history_answer(ans)
        if parsed is None:
            return "malformed answer"
        recs, fin = parsed
        items = [] if a[3] == "-" else a[3].split(";")
        if len(recs) != len(items):
            return "one record per add expected"
        total = 0
        for tag, news in recs:
            for rel in news:
                total += 1
                if rel[1] != 1:
                    return f"published cycle with cofactor {rel[1]}"
                if not rel_valid(n, rel):
                    return f"published cycle is not a congruence: {rtoken(*rel)}"
                if not tail_even(rel[3]):
                    return f"published cycle lists a prime twice with an odd later exponent: {rtoken(*rel)}"
        if total != int(fin["cycles"]):
            return "cycle count mismatch"
        pkeys = set()
        if fin["partial"] != "-":
            for e in fin["partial"].split("+"):
                k, r = e.split(">")
                rel = parse_rel(r)
                pkeys.add(int(k))
                if rel[1] != int(k):
                    return f"partial[{k}] has cofactor {rel[1]}"
                if not rel_valid(n, rel):
                    return f"partial[{k}] is not a congruence"
        dkeys = []
        if fin["doubles"] != "-":
            for e in fin["doubles"].split("+"):
                k, r = e.split(">")
                p, q = map(int, k.split(","))
                rel = parse_rel(r)
                dkeys.append((p, q))
                if not p < q:
                    return f"doubles key {k} not ordered"
                if rel[1] != p * q:
                    return f"doubles[{k}] has cofactor {rel[1]}"
                if not rel_valid(n, rel):
                    return f"doubles[{k}] is not a congruence"
                if p in pkeys or q in pkeys:
                    return f"doubles[{k}] has a prime that is a key of partial"
        if dkeys != sorted(dkeys):
            return "doubles not in key order"
        rev = [] if fin["rev"] == "-" else [tuple(map(int, e.split(","))) for e in fin["rev"].split("+")]
        if sorted(rev) != sorted((q, p) for p, q in dkeys):
            return "doubles_rev does not mirror doubles"
        return None
    if op == "rel_verify":
        n = int(a[0])
        want = rel_valid(n, parse_rel(a[1]))
        return None if ans == ("true" if want else "false") else f"verify answered {ans}, congruence is {want}"
    if op == "rs_combine":
        n = int(a[0])
        r1, r2, r = parse_rel(a[1]), parse_rel(a[2]), parse_rel(ans)
        if not rel_valid(n, r):
            return "combined relation is not a congruence"
        if r[1] * min(r1[1], r2[1]) != max(r1[1], r2[1]):
            return "cofactor of the combination is not the quotient"
        return None
    if op == "rel_roundtrip":
        r, u = parse_rel(a[0]), parse_rel(ans)
        if (r[0] % (1 << 512), r[1], r[2]) != u[:3]:
            return "x/cofactor/cyclelen changed"
        norm = [((-1, 1) if p == -1 else (p, k)) for p, k in r[3] if not (p == -1 and k % 2 == 0)]
        return None if norm == u[3] else "factor list changed beyond sign normalisation"
    if op == "rel_pack":
        bs = [int(x) for x in ans.split(",")]
        return None if all(0 <= b < 256 for b in bs) and bs[0] < 128 else "not a byte string"
    if op == "try_factor":
        n = int(a[0])
        if ans == "none":
            return None
        p, q = map(int, ans.split(","))
        return None if p * q == n and 1 < p < n and 1 < q < n else "not a proper factorisation"
    if op == "final_combine":
        n = int(a[0])
        xs = [] if a[1] == "-" else [int(x) for x in a[1].split(",")]
        fs = parse_factors(a[2])
        x, y = map(int, ans.split(","))
        ea = 1 % n
        for v in xs:
            ea = ea * v % n
        eb = 1 % n
        for p, k in fs:
            if p != -1:
                eb = eb * pow(p, k // 2, n) % n
        return None if (x, y) == (ea, eb) else "a or b is not the product"
    return "unknown op"


def klass(case, ans):
    if case.op == "rs_history_stats":
        return f"rs_history_stats/{case.tag}/{'ok' if ans.startswith('cycles=') else ans[:12]}"
    if case.op == "final_step":
        parts = ans.split(" || ")
        if len(parts) != 3:
            return f"final_step/{case.tag}/{ans[:10]}"
        nd = 0 if parts[0] == "-" else parts[0].count(",") + 1
        nk = 0 if parts[2] == "-" else parts[2].count(";") + 1
        return f"final_step/{case.tag}/kernel={'0' if nk == 0 else '1+' if nk < 10 else '10+'}/divisors={nd}"
    if case.op == "sieve_final":
        parts = ans.split(" || ")
        nd = 0 if len(parts) != 3 or parts[2] == "-" else parts[2].count(",") + 1
        return f"sieve_final/{case.tag}/{parts[0].split(' ')[0]}/divisors={nd}"
    if case.op == "sieve_history":
        parts = ans.split(" || ")
        if len(parts) == 3 and parts[1] != "-":
            inner = klass(Case("rs_history " + parts[1], tag=case.tag), parts[2])
            return "sieve_history/" + inner.split("/", 1)[1]
        return f"sieve_history/{case.tag}/{parts[0].split(' ')[0]}"
    if case.op in ("rs_history", "rs_history_stack"):
        parsed = parse_history_answer(ans)
        if parsed is None:
            return f"rs_history/{case.tag}/{ans.split('@')[0]}"
        tags = set()
        for tag, _ in parsed[0]:
            _adds[0] += 1
            _branch_hits[tag] = _branch_hits.get(tag, 0) + 1
            tags.add(tag[:4])
        return f"rs_history/{case.tag}/branches={len(tags) // 3 * 3}+"
    short = ans if ans in ("panic", "hang", "abort", "none", "true", "false") else "value"
    return f"{case.op}/{case.tag}/{short}"


def nontrivial(case, ans):
    if case.op == "final_step":
        return case.args[2] != "-"
    if case.op in ("sieve_history", "sieve_final"):
        return " || " in ans and ans.split(" || ")[1] != "-"
    if case.op in ("rs_history", "rs_history_stack"):
        parsed = parse_history_answer(ans)
        return bool(parsed) and any(news and tag[0] != "c" for tag, news in parsed[0])
    return True


def extra_coverage():
    return {"add_calls": _adds[0], "add_branch_hits": dict(sorted(_branch_hits.items())),
            "add_branch_tag_legend": "kind(c complete,s single,d double,q p=q,x dropped) hp hq rep . new-cycles . new-partials . doubles-removed(+ = stored)"}


CLAIM = ("For every modulus n <= 2^512 (the code's own limit: 8 packed words, 1024-bit products; the library only builds stores with "
         "n*k < 2^508, and a 513-bit counter-witness shows the bound is needed): "
         "Lean theorems about a line-by-line model of the relation store: combine preserves the congruence, one add preserves the "
         "store invariant for every input inside the callers' contract, hence (induction over the history) every published cycle has "
         "cofactor 1 and is a true congruence for every finite history; pack/unpack preserve the congruence; even exponent "
         "combinations give a^2 = b^2; try_factor returns proper divisors only and never panics for a, b < n; final_step, whenever it "
         "returns (its assertions are not claimed to hold for arbitrary kernels/relations), returns proper divisors only. The model is tied to "
         "the code by running synthetic histories through the real RelationSet and the model and comparing every published cycle, "
         "branch tag and the final store, recorded add histories and final_step calls of real siqs/mpqs/qs runs, and final_step on "
         "constructed relation sets (empty, all-trivial kernels, few/many dependencies, > 5000 columns = block Lanczos) with the real "
         "kernel handed to the model; a Python oracle re-checks every published relation, the final store and every returned divisor.")
LEVEL_NOTE = ("On the domain of at most 2^32 adds of inputs with cycle length 1 and exponent sums below 2^30 the u64 counters cannot "
              "overflow (history_no_overflow) and histories inside the callers' contract are total (history_total, "
              "history_total_stack); outside that domain add_no_panic excludes everything but the counter overflow. "
              "The store theorems are proved for the recursive formulation and transported to the explicit-stack model that mirrors "
              "the code (history_inv_stack, cycles_valid_stack, doubles_disjoint_stack, history_no_panic_stack; walk_iter_bound is the "
              "closed-form iteration bound of the explicit-stack loop). Domain: n <= 2^512 for the store theorems (stated hypothesis; real stores have n*k < 2^508); add_no_panic excludes only u64 "
              "counter overflow; stack depth is outside the model (explicit stack in the code since fix e402536, exercised up to 20000 links). "
              "Trusted: Lean kernel (+propext, Classical.choice, Quot.sound); the model's correspondence to the Rust code (checked by "
              "differential runs, not proved); bnum/num_integer as Nat/Int arithmetic; std collections as ordered maps; Python integers.")
TECHNIQUE = "Lean 4 proof about a hand model (history induction) + differential correspondence check + spec oracle"
