/-
C01 ∘ (C08, C11, C16): the control-flow theorems of C01/C03 with the oracle contract `OracleOK`
discharged, clause by clause, from the MODELS of the sub-algorithms that the other properties
verified. Kept in its own module so that no property's file depends on another's.
Helper definitions and lemmas: Ymq/Lemmas/FactorClosed.lean.
-/
import Ymq.Lemmas.FactorClosedExample
import Ymq.Props.C01
import Ymq.Props.C03

namespace Ymq.C01
open Ymq.Factor

variable {σ : Type}

/-- **`oracleOK_of_models`**: the contract `OracleOK` holds for every oracle whose fields return
outputs of the modelled sub-algorithms. Discharged clauses and their sources:
* `pp`            ← `UsesPerfectPower`: C08 `perfect_power_spec` (Model/Arith.lean `perfectPower`);
* `sieveDivs`     ← `UsesFinalStep`:    C11 `final_step_proper` (Model/Relations.lean `finalStep`,
                     for SOME factor base / relations / kernel vectors / primality answers);
* `qs64`          ← `UsesQs64`:         C11 `final_step_proper` + `divs.first()`, `(p, n / p)`;
* `rho`           ← `UsesRho64`:        C16 `rho64_proper` (Model/ExpModn.lean `rho64`);
* `pm1q`, `pm1`   ← `UsesPm1`:          C16 `check_gcd_factors_inv`, `pm1_polyeval_inv`,
                     `pm1_result_proper` along `Pm1Reach` (states reachable by `pm1_impl`);
* `ecmauto`, `ecm`, `ecm128` ← `UsesEcmExits`: C16 `guard_proper`, `check_gcd_factor_proper`;
* `squfof`        ← `UsesSqufofExit`:   the two exits of squfof.rs (square; gcd with `p_prev`);
* `sieveUnexpected` ← `UsesUnexpectedFactor` (fbase.rs `check_divisors`: a prime divisor of `n`)
                     + `ResidualOK`.
STILL ASSUMED:
* `ResidualOK o`: an `UnexpectedFactor(d)` is not the sieved number itself (`d ≠ n`; sufficient:
  `n` is not prime — `unexpected_ne_of_composite` — or `d < B ≤ n` — `unexpected_ne_of_size`);
* inside `UsesSqufofExit`: the named fact `0 < p_prev < n` at the final gcd (premise of
  `SqufofExit.gcd`; squfof.rs guards `f > 1` only). `squfof_pprev_lt` derives it from
  `p_prev ≤ 2·isqrt(k·n)`, `k ≤ 50`, for every `n ≥ 201`;
* `prime` and `abort` stay arbitrary (no clause). -/
theorem oracleOK_of_models (o : Oracle σ) (hpp : UsesPerfectPower o) (hfs : UsesFinalStep o)
    (hqs : UsesQs64 o) (hrho : UsesRho64 o) (hpm1 : UsesPm1 o) (hecm : UsesEcmExits o)
    (hsq : UsesSqufofExit o) (hun : UsesUnexpectedFactor o) (hres : ResidualOK o) : OracleOK o :=
  oracleOK_of_models_aux hpp hfs hqs hrho hpm1 hecm hsq hun hres

/-- **`factor_exact_closed`**: `factor_exact` for oracles that are the models (hypotheses and what
is still assumed: see `oracleOK_of_models`): a returned list multiplies to exactly `n`, is
sorted, every element divides `n` and is `≥ 2` (for `n ≥ 1`). -/
theorem factor_exact_closed (o : Oracle σ) (hpp : UsesPerfectPower o) (hfs : UsesFinalStep o)
    (hqs : UsesQs64 o) (hrho : UsesRho64 o) (hpm1 : UsesPm1 o) (hecm : UsesEcmExits o)
    (hsq : UsesSqufofExit o) (hun : UsesUnexpectedFactor o) (hres : ResidualOK o)
    (fuel n : Nat) (alg : Algo) (os : σ) (l : List Nat)
    (h : factor o fuel n alg os = .ok l) :
    l.prod = n ∧ l.Pairwise (· ≤ ·) ∧ ∀ x ∈ l, x ∣ n ∧ (1 ≤ n → 2 ≤ x) :=
  factor_exact o (oracleOK_of_models o hpp hfs hqs hrho hpm1 hecm hsq hun hres) fuel n alg os l h

/-- **`factor_total_closed`**: `C03.factor_total` for oracles that are the models: selector
precondition met and enough fuel (both on the trial-divided value) ⟹ a list with product `n` or the declared failure; no
panic site of lib.rs, recursion depth `≤ bits n`. -/
theorem factor_total_closed (o : Oracle σ) (hpp : UsesPerfectPower o) (hfs : UsesFinalStep o)
    (hqs : UsesQs64 o) (hrho : UsesRho64 o) (hpm1 : UsesPm1 o) (hecm : UsesEcmExits o)
    (hsq : UsesSqufofExit o) (hun : UsesUnexpectedFactor o) (hres : ResidualOK o)
    (fuel n : Nat) (alg : Algo) (os : σ)
    (hsel : SelectorPre alg (trialDivideBy 1100 Ymq.Gen.Primality.smallPrimes n []).1)
    (hfuel : bits (trialDivideBy 1100 Ymq.Gen.Primality.smallPrimes n []).1 ≤ fuel) :
    (∃ l, factor o fuel n alg os = .ok l ∧ l.prod = n) ∨ factor o fuel n alg os = .failure :=
  Ymq.C03.factor_total o (oracleOK_of_models o hpp hfs hqs hrho hpm1 hecm hsq hun hres) fuel n alg os
    hsel hfuel

/-! ### non-vacuity: an oracle assembled from the actual model functions -/

open Ymq.Factor.Closed

/-- `modelOracle` = modelled `perfect_power`, `pseudoprime`, `rho64(·, 1, 128)` and `final_step`
(on two relations modulo 15); it satisfies every hypothesis -/
example : OracleOK modelOracle :=
  oracleOK_of_models modelOracle model_pp model_finalStep model_qs64 model_rho model_pm1 model_ecm
    model_squfof model_unexpected model_residual

/-- the modelled `final_step` splits 15 inside `factor_impl` (selector Siqs) -/
example : factorImpl modelOracle 5 15 .siqs (initSt () []) =
    .ok { os := (), factors := [5, 3], pm1done := false, giveups := [] } := by decide +kernel

/-- the modelled `rho64` splits 47053 = 211·223; the modelled `pseudoprime` accepts both parts -/
example : factor modelOracle 20 188212 .rho () = .ok [2, 2, 211, 223] := by decide +kernel

example : [2, 2, 211, 223].prod = 188212 ∧ [2, 2, 211, 223].Pairwise (· ≤ ·) ∧
    ∀ x ∈ [2, 2, 211, 223], x ∣ 188212 ∧ (1 ≤ 188212 → 2 ≤ x) :=
  factor_exact_closed modelOracle model_pp model_finalStep model_qs64 model_rho model_pm1
    model_ecm model_squfof model_unexpected model_residual 20 188212 .rho () _ (by decide +kernel)

example : (∃ l, factor modelOracle 20 188212 .rho () = .ok l ∧ l.prod = 188212) ∨
    factor modelOracle 20 188212 .rho () = .failure :=
  factor_total_closed modelOracle model_pp model_finalStep model_qs64 model_rho model_pm1
    model_ecm model_squfof model_unexpected model_residual 20 188212 .rho () (fun _ => by decide +kernel) (by decide +kernel)

/-- the modelled `perfect_power` drives the perfect-power branch: 211² -/
example : factor modelOracle 20 (211 * 211) .rho () = .ok [211, 211] := by decide +kernel

/-- `Pm1Reach` is inhabited beyond `init`: one `check_gcd_factors` call on 15 with values whose
gcds are 1 and 3 records the factor 3 -/
example : Pm1Reach 15 (fun _ => true) { factors := [3], nred := 5, vals := [1, 3] } ∧
    Ymq.ExpModn.splitResult { factors := [3], nred := 5, vals := [1, 3] } = some ([3], 5) := by
  refine ⟨?_, by decide⟩
  refine Pm1Reach.check { factors := [], nred := 15, vals := [1, 3] } _ true
    (Pm1Reach.init [1, 3]) (by decide) ?_ (by decide +kernel)
  intro i j hij hj
  have : j = 0 ∨ j = 1 := by simp at hj; omega
  rcases this with rfl | rfl
  · have : i = 0 := by omega
    subst this; exact dvd_rfl
  · have : i = 0 ∨ i = 1 := by omega
    rcases this with rfl | rfl <;> decide

/-- the polynomial path of P-1 (C16 `pm1PolyStep`): a proper factor is recorded … -/
example : Pm1Reach 15 (fun _ => true) { factors := [3], nred := 5, vals := [] } := by
  refine Pm1Reach.polyeval { factors := [], nred := 15, vals := [1, 3] } _
    (Pm1Reach.init [1, 3]) (by decide) ?_ (by decide +kernel)
  intro i j hij hj
  have : j = 0 ∨ j = 1 := by simp at hj; omega
  rcases this with rfl | rfl
  · have : i = 0 := by omega
    subst this; exact dvd_rfl
  · have : i = 0 ∨ i = 1 := by omega
    rcases this with rfl | rfl <;> decide

/-- … while the whole of `n` found in one step is refused (guard of the `fix:` 9b94f92; before
it this was the state `([n], 1)` on which `factor_impl(n, Pm1)` recursed forever) -/
example : Ymq.ExpModn.pm1PolyStep 15 (fun _ => false) { factors := [], nred := 15, vals := [1, 15] } =
    some none := by decide +kernel

example : EcmExit 15 3 5 := EcmExit.guard 3 (by decide)

/-- the SQUFOF gcd exit from the size bound: n = 211·223, k = 1, p_prev = 223 ≤ 2·⌊√n⌋ = 432 -/
example : SqufofExit 47053 223 211 :=
  SqufofExit.gcd_of_bound (k := 1) (x := 223) (by decide) (by decide) (by decide)
    (by decide +kernel) (by decide) (by decide) (by decide)

end Ymq.C01
