/- No panic: word-level helpers on their domain, the non-extended loop on all of `BUint<N>`. -/
import Ymq.Lemmas.GcdTerm

namespace Ymq.Gcd

theorem ofDigits_take_toDigits : ∀ (N n sz : Nat), sz ≤ N → ofDigits ((toDigits N n).take sz) = n % W ^ sz
  | _, n, 0, _ => by simp [ofDigits, Nat.mod_one]
  | 0, _, sz + 1, h => by omega
  | N + 1, n, sz + 1, h => by
    simp only [toDigits, List.take_succ_cons, ofDigits]
    rw [ofDigits_take_toDigits N (n / W) sz (by omega), Nat.pow_succ, Nat.mul_comm (W ^ sz) W,
      Nat.mod_mul]

/-- `mulword` does not index out of range when the loop stays inside the array and either a free
word is left for the carry or the product fits -/
theorem mulwordAux_total (w : Nat) : ∀ (sz : Nat) (ds : List Nat) (carry : Nat), sz ≤ ds.length →
    (sz < ds.length ∨ ofDigits (ds.take sz) * w + carry < W ^ sz) →
    ∃ r, mulwordAux w sz ds carry = some r
  | 0, ds, carry, _, h => by
    unfold mulwordAux
    split
    · rename_i hc
      cases ds with
      | nil => simp [ofDigits] at h; omega
      | cons d t => exact ⟨_, rfl⟩
    · exact ⟨_, rfl⟩
  | sz + 1, [], _, hl, _ => by simp at hl
  | sz + 1, d :: t, carry, hl, h => by
    unfold mulwordAux
    simp only
    have hl' : sz ≤ t.length := by simpa using hl
    obtain ⟨r, hr⟩ := mulwordAux_total w sz t ((d * w + carry) / W) hl' (by
      rcases h with h | h
      · left; simpa using h
      · right
        simp only [List.take_succ_cons, ofDigits] at h
        rw [Nat.pow_succ, Nat.mul_comm (W ^ sz) W] at h
        have e : (d + W * ofDigits (t.take sz)) * w + carry
            = W * (ofDigits (t.take sz) * w) + (d * w + carry) := by ring
        rw [e] at h
        have h2 := Nat.div_add_mod (d * w + carry) W
        have h3 : W * (ofDigits (t.take sz) * w + (d * w + carry) / W) < W * W ^ sz := by
          have : W * (ofDigits (t.take sz) * w + (d * w + carry) / W)
              = W * (ofDigits (t.take sz) * w) + W * ((d * w + carry) / W) := by ring
          rw [this]; omega
        exact Nat.lt_of_mul_lt_mul_left h3)
    rw [hr]; exact ⟨_, rfl⟩

theorem mulword_total {N w sz n : Nat} (hsz : sz ≤ N) (hn : n < W ^ sz)
    (h : sz < N ∨ n * w < W ^ sz) : ∃ r, mulword N w sz n = some r := by
  unfold mulword
  obtain ⟨r, hr⟩ := mulwordAux_total w sz (toDigits N n) 0 (by rw [toDigits_length]; exact hsz) (by
    rw [toDigits_length, ofDigits_take_toDigits N n sz hsz, Nat.mod_eq_of_lt hn]
    rcases h with h | h
    · exact Or.inl h
    · exact Or.inr (by omega))
  rw [hr]; exact ⟨_, rfl⟩

/-- `dot_product` does not panic in the situation of the Lehmer step: operands below `2^bts`,
coefficients below `2^36`, `bts + 36 < 64 N` -/
theorem dotProduct_total {N bts : Nat} {a b : Int} {x y : Nat} (hb : bts + 36 < 64 * N)
    (hx : x < 2 ^ bts) (hy : y < 2 ^ bts) (ha : |a| < 2 ^ 36) (hbb : |b| < 2 ^ 36) :
    ∃ r neg, dotProduct N ((bts + 63) / 64) a x b y = some (r, neg) := by
  have hsz : (bts + 63) / 64 ≤ N := by omega
  have hle : 2 ^ bts ≤ W ^ ((bts + 63) / 64) := by
    rw [W_pow]; exact Nat.pow_le_pow_right (by decide) (by omega)
  have hxW : x < W ^ ((bts + 63) / 64) := Nat.lt_of_lt_of_le hx hle
  have hyW : y < W ^ ((bts + 63) / 64) := Nat.lt_of_lt_of_le hy hle
  have haN : a.natAbs < 2 ^ 36 := by
    rw [Int.abs_eq_natAbs] at ha; exact_mod_cast ha
  have hbN : b.natAbs < 2 ^ 36 := by
    rw [Int.abs_eq_natAbs] at hbb; exact_mod_cast hbb
  -- a product `w * n` with `w < 2^36`, `n < 2^bts` is below `2^(64N - 1)`
  have hprod : ∀ w n : Nat, w < 2 ^ 36 → n < 2 ^ bts → n * w < 2 ^ (bts + 36) := by
    intro w n hw hn
    rw [Nat.pow_add]
    exact Nat.mul_lt_mul_of_lt_of_le hn (Nat.le_of_lt hw) (Nat.pow_pos (by decide))
  have hfit : ∀ w n : Nat, w < 2 ^ 36 → n < 2 ^ bts →
      (bts + 63) / 64 < N ∨ n * w < W ^ ((bts + 63) / 64) := by
    intro w n hw hn
    by_cases hlt : (bts + 63) / 64 < N
    · exact Or.inl hlt
    · right
      have hN : (bts + 63) / 64 = N := by omega
      rw [hN, W_pow]
      exact Nat.lt_of_lt_of_le (hprod w n hw hn) (Nat.pow_le_pow_right (by decide) (by omega))
  obtain ⟨ax, hax⟩ := mulword_total (N := N) (w := a.natAbs) hsz hxW (hfit _ _ haN hx)
  obtain ⟨bY, hby⟩ := mulword_total (N := N) (w := b.natAbs) hsz hyW (hfit _ _ hbN hy)
  unfold dotProduct
  simp only [hax, hby]
  split
  · exact ⟨_, _, rfl⟩
  · have e1 := mulword_some hax hxW
    have e2 := mulword_some hby hyW
    have h1 := hprod _ _ haN hx
    have h2 := hprod _ _ hbN hy
    have hM : 2 ^ (bts + 36) + 2 ^ (bts + 36) ≤ M N := by
      unfold M
      have : 2 ^ (bts + 36) + 2 ^ (bts + 36) = 2 ^ (bts + 37) := by
        have e : 2 ^ (bts + 37) = 2 ^ (bts + 36) * 2 := Nat.pow_succ _ _
        omega
      rw [this]; exact Nat.pow_le_pow_right (by decide) (by omega)
    have hsum : ax + bY < M N := by
      rw [e1, e2, Nat.mul_comm a.natAbs x, Nat.mul_comm b.natAbs y]; omega
    unfold chkU
    rw [if_pos hsum]
    exact ⟨_, _, rfl⟩

/-- the `(x, y)` part of a Lehmer step never panics -/
theorem lehmer_xy_total {N : Nat} {s : St} {xtop ytop : Nat} (hb : bits s.x + 36 < 64 * N)
    (hyx : s.y ≤ s.x) (hxt : xtop < W) (hyt : ytop < W) (h63 : 2 ^ 63 ≤ xtop) (hytx : ytop ≤ xtop)
    (h32 : 2 ^ 32 ≤ ytop) :
    ∃ a b c d r1 n1 r2 n2, reduce64 xtop ytop = some (a, b, c, d) ∧
      |a| < 2 ^ 36 ∧ |b| < 2 ^ 36 ∧ |c| < 2 ^ 36 ∧ |d| < 2 ^ 36 ∧
      dotProduct N ((bits s.x + 63) / 64) a s.x b s.y = some (r1, n1) ∧
      dotProduct N ((bits s.x + 63) / 64) c s.x d s.y = some (r2, n2) := by
  obtain ⟨a, b, c, d, u, v, hr, hinv, _⟩ := reduce64_spec xtop ytop hxt hyt
  have hx := lt_two_pow_bits s.x
  have hy : s.y < 2 ^ bits s.x := Nat.lt_of_le_of_lt hyx hx
  obtain ⟨r1, n1, h1⟩ := dotProduct_total (N := N) hb hx hy hinv.ba hinv.bb
  obtain ⟨r2, n2, h2⟩ := dotProduct_total (N := N) hb hx hy hinv.bc hinv.bd
  exact ⟨a, b, c, d, r1, n1, r2, n2, hr, hinv.ba, hinv.bb, hinv.bc, hinv.bd, h1, h2⟩


/-- the non-extended iteration never panics on values of `BUint<N>` -/
theorem gcdStep_noext_total {N : Nat} {s0 : St} (hx : s0.x < M N) (hy : s0.y < M N) :
    ∃ st, gcdStep N K false s0 = some st := by
  obtain ⟨hyx, _, hrange⟩ := swapSt_facts s0
  obtain ⟨hxM, hyM⟩ := hrange (M N) hx hy
  unfold gcdStep
  simp only
  generalize swapSt s0 = s at *
  by_cases hlx : bits s.x = 0
  · rw [if_pos hlx]; exact ⟨_, rfl⟩
  · rw [if_neg hlx]
    by_cases hly : bits s.y = 0
    · rw [if_pos hly]; exact ⟨_, rfl⟩
    · rw [if_neg hly]
      by_cases hsm : bits s.x < 64 ∧ bits s.y < 64
      · rw [if_pos hsm]; exact ⟨_, rfl⟩
      · rw [if_neg hsm]
        have hbm := bits_mono hyx
        have hmax : max (bits s.x) (bits s.y) = bits s.x := Nat.max_eq_left hbm
        rw [hmax]
        have h64 : 64 ≤ bits s.x := by omega
        have hbN : bits s.x ≤ 64 * N := by unfold M at hxM; exact bits_le_of_lt hxM
        obtain ⟨xt, yt, xl, yl, t1, t2, ex, ey, hxl, hyl, hxtW, h63, hytx⟩ :=
          top_facts (N := N) hyx h64 hbN
        rw [t1, t2]
        simp only
        by_cases hc : bits s.x + 36 ≥ N * 64 ∨ bits s.y + 36 ≥ N * 64 ∨ yt < 2 ^ 32
        · rw [if_pos hc]
          simp [fallbackStep]
        · rw [if_neg hc]
          have hb : bits s.x + 36 < 64 * N := by omega
          obtain ⟨a, b, c, d, r1, n1, r2, n2, hr, _, _, _, _, h1, h2⟩ :=
            lehmer_xy_total (N := N) (s := s) hb hyx hxtW (by omega) h63 hytx (by omega)
          simp [lehmerStep, hr, h1, h2]

/-- the non-extended loop returns a value for every pair of `BUint<N>` operands -/
theorem gcdLoop_noext_total {N : Nat} : ∀ (f : Nat) (s : St), s.x < M N → s.y < M N →
    s.x * s.y * 3 ^ f < 4 ^ f → ∃ r, gcdLoop N K false (f + 1) s = some r := by
  intro f
  induction f with
  | zero =>
    intro s hx hy hm
    have hm0 : s.x * s.y = 0 := by simpa using hm
    obtain ⟨st, hst⟩ := gcdStep_noext_total hx hy
    unfold gcdLoop
    rw [hst]
    cases st with
    | ret d u v => exact ⟨_, rfl⟩
    | next s' => exact absurd hm0 (gcdStep_zero hst)
  | succ f ih =>
    intro s hx hy hm
    obtain ⟨st, hst⟩ := gcdStep_noext_total hx hy
    rw [gcdLoop, hst]
    cases st with
    | ret d u v => exact ⟨_, rfl⟩
    | next s' =>
      simp only
      obtain ⟨m1, m2, m3⟩ := gcdStep_measure hst hx hy
      refine ih s' m2 m3 ?_
      have e3 : 3 ^ (f + 1) = 3 ^ f * 3 := Nat.pow_succ _ _
      have e4 : 4 ^ (f + 1) = 4 ^ f * 4 := Nat.pow_succ _ _
      rw [e3, e4] at hm
      have : 4 * (s'.x * s'.y) * 3 ^ f ≤ 3 * (s.x * s.y) * 3 ^ f := Nat.mul_le_mul_right _ m1
      have e5 : 3 * (s.x * s.y) * 3 ^ f = s.x * s.y * (3 ^ f * 3) := by ring
      have e6 : 4 * (s'.x * s'.y) * 3 ^ f = 4 * (s'.x * s'.y * 3 ^ f) := by ring
      omega

theorem gcdInternal_noext_total {N : Nat} {n p : Nat} (hn : n < M N) (hp : p < M N) :
    ∃ r, gcdInternal N false n p = some r := by
  unfold gcdInternal
  obtain ⟨r, hr⟩ := gcdLoop_noext_total (N := N) (3 * (bits n + bits p)) (initSt n p) hn hp
    (fuel_arith n p)
  rw [gcdLoop_fuel hn hp _ (gcdFuel_ge hn hp), hr]
  exact ⟨r, rfl⟩


theorem egcdLoop_exit (f : Nat) (r1 s0 s1 t0 t1 : Int) (h : 0 ≤ r1) :
    egcdLoop (f + 1) 0 r1 s0 s1 t0 t1 = some (r1, s1, t1) := by
  simp [egcdLoop, h]

theorem egcdLoop_step (f : Nat) (r0 r1 s0 s1 t0 t1 q : Int) (h0 : r0 ≠ 0)
    (hq : chkI64 (r1.tdiv r0) = some q)
    (h1 : chkI64 (q * r0) = some (q * r0)) (h2 : chkI64 (q * s0) = some (q * s0))
    (h3 : chkI64 (q * t0) = some (q * t0)) (h4 : chkI64 (r1 - q * r0) = some (r1 - q * r0))
    (h5 : chkI64 (s1 - q * s0) = some (s1 - q * s0)) (h6 : chkI64 (t1 - q * t0) = some (t1 - q * t0)) :
    egcdLoop (f + 1) r0 r1 s0 s1 t0 t1 = egcdLoop f (r1 - q * r0) r0 (s1 - q * s0) s0 (t1 - q * t0) t0 := by
  simp [egcdLoop, h0, hq, h1, h2, h3, h4, h5, h6]

/-- one column of cofactors in a Euclid step: signs alternate, `|s0| r1 + |s1| r0` is invariant -/
theorem egcd_col {s0 s1 : Int} {a r q Z : Nat} {b : Int} (hb : b = a * q + r) (ha : 0 < a)
    (hs : s0 * s1 ≤ 0) (es : |s0| * b + |s1| * a = Z) :
    (s1 - q * s0) * s0 ≤ 0 ∧ |s1 - q * s0| * a + |s0| * r = Z ∧ |s1 - q * s0| ≤ Z ∧
    |(q : Int) * s0| ≤ Z := by
  have hqI : (0 : Int) ≤ q := Int.natCast_nonneg _
  have hrI : (0 : Int) ≤ r := Int.natCast_nonneg _
  have haI : (1 : Int) ≤ a := by exact_mod_cast ha
  have es' : |s1 - q * s0| = q * |s0| + |s1| := by
    rw [abs_sub_comm]; exact abs_mul_sub_opp hqI (by linarith [mul_comm s0 s1])
  have hs0n := abs_nonneg s0
  have hs1n := abs_nonneg s1
  have ids : |s1 - q * s0| * a + |s0| * r = Z := by
    rw [es', ← es, hb]; ring
  have h1 : 0 ≤ |s0| * r := mul_nonneg hs0n hrI
  have h2 : |s1 - q * s0| ≤ |s1 - q * s0| * a := le_mul_of_one_le_right (abs_nonneg _) haI
  have bs' : |s1 - q * s0| ≤ Z := by linarith
  refine ⟨by nlinarith [mul_self_nonneg s0], ids, bs', ?_⟩
  rw [abs_mul, abs_of_nonneg hqI]; linarith

theorem chkI64_of_abs {z : Int} {X : Nat} (hX : X < 9223372036854775808) (h : |z| ≤ X) :
    chkI64 z = some z := by
  have hI : I63 = 9223372036854775808 := rfl
  have := abs_le.1 h
  exact chkI64_of_range (by rw [hI]; omega) (by rw [hI]; omega)

/-- `extended_gcd` on i64 never overflows for `0 < Y <= X < 2^63`; cofactors bounded by the operands -/
theorem egcdLoop_total (X Y : Nat) (hX : X < 9223372036854775808) (hYX : Y ≤ X) :
    ∀ (f a b : Nat) (s0 s1 t0 t1 : Int), a ≤ b → b ≤ X →
    s0 * s1 ≤ 0 → t0 * t1 ≤ 0 → |s0| * b + |s1| * a = Y → |t0| * b + |t1| * a = X →
    |s0| ≤ Y → |s1| ≤ Y → |t0| ≤ X → |t1| ≤ X → a * b < 2 ^ f →
    ∃ g s t, egcdLoop (f + 1) a b s0 s1 t0 t1 = some (g, s, t) ∧ |s| ≤ Y ∧ |t| ≤ X := by
  intro f
  induction f with
  | zero =>
    intro a b s0 s1 t0 t1 hab hbX _ _ _ _ _ hs1 _ ht1 hm
    have ha : a = 0 := by
      have : a * b = 0 := by simpa using hm
      rcases Nat.mul_eq_zero.1 this with h | h <;> omega
    subst ha
    exact ⟨_, _, _, egcdLoop_exit 0 _ _ _ _ _ (Int.natCast_nonneg b), hs1, ht1⟩
  | succ f ih =>
    intro a b s0 s1 t0 t1 hab hbX hs ht es et bs0 bs1 bt0 bt1 hm
    by_cases ha : a = 0
    · subst ha
      exact ⟨_, _, _, egcdLoop_exit _ _ _ _ _ _ (Int.natCast_nonneg b), bs1, bt1⟩
    · have hapos : 0 < a := Nat.pos_of_ne_zero ha
      have hdm := Nat.div_add_mod b a
      have hmod := two_mod_le hapos hab
      have hrlt : b % a < a := Nat.mod_lt _ hapos
      have hqle : b / a ≤ b := Nat.div_le_self _ _
      have etd : (b : Int).tdiv a = ((b / a : Nat) : Int) := (Int.ofNat_tdiv b a).symm
      generalize b / a = q at *
      generalize b % a = r at *
      have hbI : (b : Int) = a * q + r := by exact_mod_cast hdm.symm
      obtain ⟨k1, k2, k3, k4⟩ := egcd_col hbI hapos hs es
      obtain ⟨l1, l2, l3, l4⟩ := egcd_col hbI hapos ht et
      have hYI : (Y : Int) ≤ X := by omega
      have hrem : (b : Int) - q * a = r := by rw [hbI]; ring
      have hqaN : q * a ≤ b := by rw [Nat.mul_comm]; omega
      have c0 : chkI64 ((b : Int).tdiv a) = some (q : Int) := by
        rw [etd]; exact chkI64_of_abs hX (by rw [abs_of_nonneg (Int.natCast_nonneg q)]; omega)
      have c1 : chkI64 ((q : Int) * a) = some ((q : Int) * a) := by
        have e : (q : Int) * a = ((q * a : Nat) : Int) := by push_cast; ring
        rw [e]; exact chkI64_of_abs hX (by rw [abs_of_nonneg (Int.natCast_nonneg _)]; omega)
      have c2 := chkI64_of_abs hX (le_trans k4 hYI)
      have c3 := chkI64_of_abs hX l4
      have c4 : chkI64 ((b : Int) - q * a) = some ((b : Int) - q * a) := by
        rw [hrem]; exact chkI64_of_abs hX (by rw [abs_of_nonneg (Int.natCast_nonneg r)]; omega)
      have c5 := chkI64_of_abs hX (le_trans k3 hYI)
      have c6 := chkI64_of_abs hX l3
      have ha0 : (a : Int) ≠ 0 := by omega
      rw [egcdLoop_step (f + 1) a b s0 s1 t0 t1 q ha0 c0 c1 c2 c3 c4 c5 c6, hrem]
      refine ih r a (s1 - q * s0) s0 (t1 - q * t0) t0 (by omega) (by omega) k1 l1 k2 l2 k3 bs0 l3 bt0 ?_
      have e : 2 ^ (f + 1) = 2 ^ f * 2 := Nat.pow_succ _ _
      rw [e] at hm
      have : 2 * (r * a) ≤ a * b := by
        calc 2 * (r * a) = a * (2 * r) := by ring
          _ ≤ a * b := Nat.mul_le_mul_left _ hmod
      omega

/-- `Integer::extended_gcd(x0, y0)` for `0 < y0 <= x0 < 2^63` -/
theorem egcdI64_total {X Y : Nat} (hX : X < 9223372036854775808) (hY : 0 < Y) (hYX : Y ≤ X) :
    ∃ g s t, egcdI64 X Y = some (g, s, t) ∧ |s| ≤ Y ∧ |t| ≤ X := by
  have hm : Y * X < 2 ^ 199 := by
    have h1 : Y * X < 2 ^ 63 * 2 ^ 63 :=
      Nat.mul_lt_mul_of_lt_of_le (by omega) (by omega) (by norm_num)
    have h2 : (2 : Nat) ^ 63 * 2 ^ 63 ≤ 2 ^ 199 := by norm_num
    omega
  exact egcdLoop_total X Y hX hYX 199 Y X 0 1 1 0 hYX (Nat.le_refl _) (by simp) (by simp)
    (by simp) (by simp) (by simp) (by simp; omega) (by simp; omega) (by simp) hm


/-- `BInt<K>` range check passes below the bound `L <= 2^(64K-1)` -/
theorem chkB_of_abs {K : Nat} {z L : Int} (hL : L ≤ ((M K / 2 : Nat) : Int)) (h : |z| < L) :
    chkB K z = some z := by
  have := abs_lt.1 h
  exact chkB_of_range (by omega) (by omega)

theorem lin2_total {K : Nat} {p A q C P B L : Int} (hL : L ≤ ((M K / 2 : Nat) : Int))
    (hp : |p| ≤ P) (hA : |A| ≤ B) (hq : |q| ≤ P) (hC : |C| ≤ B) (hfit : 2 * P * B < L) :
    lin2 K p A q C = some (p * A + q * C) ∧ |p * A + q * C| ≤ 2 * P * B := by
  have hP : 0 ≤ P := le_trans (abs_nonneg _) hp
  have hB : 0 ≤ B := le_trans (abs_nonneg _) hA
  have h1 : |p * A| ≤ P * B := by rw [abs_mul]; exact mul_le_mul hp hA (abs_nonneg _) hP
  have h2 : |q * C| ≤ P * B := by rw [abs_mul]; exact mul_le_mul hq hC (abs_nonneg _) hP
  have h3 : |p * A + q * C| ≤ 2 * P * B := by
    calc |p * A + q * C| ≤ |p * A| + |q * C| := abs_add_le _ _
      _ ≤ 2 * P * B := by linarith
  have hPB : 0 ≤ P * B := mul_nonneg hP hB
  unfold lin2
  rw [chkB_of_abs hL (by linarith), chkB_of_abs hL (by linarith)]
  simp only
  exact ⟨chkB_of_abs hL (by linarith), h3⟩

theorem subMul_total {K : Nat} {A q C P B L : Int} (hL : L ≤ ((M K / 2 : Nat) : Int))
    (hA : |A| ≤ B) (hq : |q| ≤ P) (hC : |C| ≤ B) (hP1 : 1 ≤ P) (hfit : 2 * P * B < L) :
    subMul K A q C = some (A - q * C) ∧ |A - q * C| ≤ 2 * P * B := by
  have hB : 0 ≤ B := le_trans (abs_nonneg _) hA
  have h2 : |q * C| ≤ P * B := by rw [abs_mul]; exact mul_le_mul hq hC (abs_nonneg _) (by linarith)
  have hPB : B ≤ P * B := by nlinarith
  have h3 : |A - q * C| ≤ 2 * P * B := by
    calc |A - q * C| ≤ |A| + |q * C| := abs_sub _ _
      _ ≤ 2 * P * B := by linarith
  unfold subMul
  rw [chkB_of_abs hL (by linarith)]
  simp only
  exact ⟨chkB_of_abs hL (by linarith), h3⟩

theorem mulSub_total {K : Nat} {A q C P B L : Int} (hL : L ≤ ((M K / 2 : Nat) : Int))
    (hA : |A| ≤ B) (hq : |q| ≤ P) (hC : |C| ≤ B) (hP1 : 1 ≤ P) (hfit : 2 * P * B < L) :
    mulSub K q C A = some (q * C - A) ∧ |q * C - A| ≤ 2 * P * B := by
  have hB : 0 ≤ B := le_trans (abs_nonneg _) hA
  have h2 : |q * C| ≤ P * B := by rw [abs_mul]; exact mul_le_mul hq hC (abs_nonneg _) (by linarith)
  have hPB : B ≤ P * B := by nlinarith
  have h3 : |q * C - A| ≤ 2 * P * B := by
    calc |q * C - A| ≤ |q * C| + |A| := abs_sub _ _
      _ ≤ 2 * P * B := by linarith
  unfold mulSub
  rw [chkB_of_abs hL (by linarith)]
  simp only
  exact ⟨chkB_of_abs hL (by linarith), h3⟩

theorem M_half_ge {N : Nat} (hN : 0 < N) : 2 ≤ M N / 2 := by
  unfold M
  have : 2 ^ 64 ≤ 2 ^ (64 * N) := Nat.pow_le_pow_right (by decide) (by omega)
  omega

theorem castB_abs {N q : Nat} (hN : 0 < N) (hq : q < M N) :
    |castB N q| ≤ (M N : Int) - 1 ∧ |castB N q + 1| ≤ (M N : Int) := by
  unfold castB
  have hM := M_half_ge hN
  have hqI : (q : Int) < (M N : Int) := by exact_mod_cast hq
  have h0 : (0 : Int) ≤ q := Int.natCast_nonneg _
  split
  · constructor
    · rw [abs_of_nonneg h0]; omega
    · rw [abs_of_nonneg (by omega)]; omega
  · have hneg : (q : Int) - (M N : Int) < 0 := by omega
    constructor
    · rw [abs_of_neg hneg]; omega
    · rw [abs_of_nonpos (by omega)]; omega


/-- all four cofactors are bounded by `B` in absolute value -/
def CofLe (s : St) (B : Int) : Prop := |s.A| ≤ B ∧ |s.B| ≤ B ∧ |s.C| ≤ B ∧ |s.D| ≤ B

theorem CofLe_swap {s : St} {B : Int} (h : CofLe s B) : CofLe (swapSt s) B := by
  unfold swapSt
  split
  · exact ⟨h.2.2.1, h.2.2.2, h.1, h.2.1⟩
  · exact h

theorem M_pos (N : Nat) : 0 < M N := Nat.pow_pos (by decide)

/-- extended quotient step: no panic as long as the cofactors are far enough from the `BInt<K>`
range; they grow at most by the factor `2 * 2^(64N)` -/
theorem fallbackStep_ext_total {N K : Nat} (hN : 0 < N) {s : St} {B L : Int} (hy0 : s.y ≠ 0)
    (hxM : s.x < M N) (hc : CofLe s B) (hB1 : 1 ≤ B)
    (hL : L ≤ ((M K / 2 : Nat) : Int)) (hfit : 2 * (M N : Int) * B < L) :
    ∃ s', fallbackStep N K true s = some s' ∧ CofLe s' (2 * (M N : Int) * B) := by
  obtain ⟨hA, hB, hC, hD⟩ := hc
  have hypos : 0 < s.y := Nat.pos_of_ne_zero hy0
  have hMI : (1 : Int) ≤ (M N : Int) := by exact_mod_cast M_pos N
  have hdm := Nat.div_add_mod s.x s.y
  have hrlt : s.x % s.y < s.y := Nat.mod_lt _ hypos
  have hqy : s.x / s.y * s.y ≤ s.x := Nat.div_mul_le_self _ _
  have hr : s.x - s.x / s.y * s.y = s.x % s.y := by
    have e : s.x / s.y * s.y = s.y * (s.x / s.y) := Nat.mul_comm _ _
    omega
  have hqM : s.x / s.y < M N := Nat.lt_of_le_of_lt (Nat.div_le_self _ _) hxM
  obtain ⟨cb1, cb2⟩ := castB_abs hN hqM
  have hBle : B ≤ 2 * (M N : Int) * B := by nlinarith
  have hMN_L : (M N : Int) < L := by nlinarith
  unfold fallbackStep
  simp only [if_true]
  rw [show chkU N (s.x / s.y * s.y) = some (s.x / s.y * s.y) from by
    unfold chkU; rw [if_pos (by omega)]]
  simp only
  rw [if_neg (by omega), hr]
  by_cases hbr : s.x % s.y * 2 % M N > s.y
  · rw [if_pos hbr, if_neg (by omega)]
    rw [chkB_of_abs hL (lt_of_le_of_lt cb2 hMN_L)]
    simp only
    obtain ⟨m1, m2⟩ := mulSub_total (K := K) (A := s.A) (q := castB N (s.x / s.y) + 1) (C := s.C)
      hL hA cb2 hC hMI hfit
    obtain ⟨m3, m4⟩ := mulSub_total (K := K) (A := s.B) (q := castB N (s.x / s.y) + 1) (C := s.D)
      hL hB cb2 hD hMI hfit
    rw [m1, m3]
    exact ⟨_, rfl, le_trans hC hBle, le_trans hD hBle, m2, m4⟩
  · rw [if_neg hbr]
    have cb1' : |castB N (s.x / s.y)| ≤ (M N : Int) := by linarith
    obtain ⟨m1, m2⟩ := subMul_total (K := K) (A := s.A) (q := castB N (s.x / s.y)) (C := s.C)
      hL hA cb1' hC hMI hfit
    obtain ⟨m3, m4⟩ := subMul_total (K := K) (A := s.B) (q := castB N (s.x / s.y)) (C := s.D)
      hL hB cb1' hD hMI hfit
    rw [m1, m3]
    exact ⟨_, rfl, le_trans hC hBle, le_trans hD hBle, m2, m4⟩

theorem negIf_total {K : Nat} {neg : Bool} {z L Bd : Int} (hL : L ≤ ((M K / 2 : Nat) : Int))
    (hz : |z| ≤ Bd) (hfit : Bd < L) :
    ∃ r, (if neg = true then chkB K (-z) else some z) = some r ∧ |r| ≤ Bd := by
  cases neg
  · exact ⟨z, by simp, hz⟩
  · refine ⟨-z, ?_, by rw [abs_neg]; exact hz⟩
    simp only [if_true]
    exact chkB_of_abs hL (by rw [abs_neg]; linarith)

theorem two36_le_M {N : Nat} (hN : 0 < N) : (2 : Int) ^ 36 ≤ (M N : Int) := by
  have : 2 ^ 36 ≤ M N := by
    unfold M; exact Nat.pow_le_pow_right (by decide) (by omega)
  exact_mod_cast this

/-- extended Lehmer step: no panic as long as the cofactors are far enough from the `BInt<K>` range -/
theorem lehmerStep_ext_total {N K : Nat} (hN : 0 < N) {s : St} {xtop ytop : Nat} {B L : Int}
    (hb : bits s.x + 36 < 64 * N) (hyx : s.y ≤ s.x) (hxt : xtop < W) (hyt : ytop < W)
    (h63 : 2 ^ 63 ≤ xtop) (hytx : ytop ≤ xtop) (h32 : 2 ^ 32 ≤ ytop)
    (hc : CofLe s B) (hL : L ≤ ((M K / 2 : Nat) : Int)) (hfit : 2 * (M N : Int) * B < L) :
    ∃ s', lehmerStep N K true s (bits s.x) xtop ytop = some s' ∧ CofLe s' (2 * (M N : Int) * B) := by
  obtain ⟨hA, hB, hC, hD⟩ := hc
  obtain ⟨a, b, c, d, r1, n1, r2, n2, hr, ba, bb, bc, bd, h1, h2⟩ :=
    lehmer_xy_total (N := N) (s := s) hb hyx hxt hyt h63 hytx h32
  have hM := two36_le_M hN
  have ba' : |a| ≤ (M N : Int) := by linarith
  have bb' : |b| ≤ (M N : Int) := by linarith
  have bc' : |c| ≤ (M N : Int) := by linarith
  have bd' : |d| ≤ (M N : Int) := by linarith
  obtain ⟨l1, k1⟩ := lin2_total (K := K) hL ba' hA bb' hC hfit
  obtain ⟨l2, k2⟩ := lin2_total (K := K) hL ba' hB bb' hD hfit
  obtain ⟨l3, k3⟩ := lin2_total (K := K) hL bc' hA bd' hC hfit
  obtain ⟨l4, k4⟩ := lin2_total (K := K) hL bc' hB bd' hD hfit
  obtain ⟨aa, e1, g1⟩ := negIf_total (K := K) (neg := n1) hL k1 hfit
  obtain ⟨bb2, e2, g2⟩ := negIf_total (K := K) (neg := n1) hL k2 hfit
  obtain ⟨cc, e3, g3⟩ := negIf_total (K := K) (neg := n2) hL k3 hfit
  obtain ⟨dd, e4, g4⟩ := negIf_total (K := K) (neg := n2) hL k4 hfit
  unfold lehmerStep
  simp only [hr, h1, h2, if_true, l1, l2, l3, l4, e1, e2, e3, e4]
  exact ⟨_, rfl, g1, g2, g3, g4⟩

theorem asI64_mod' {x : Nat} (h : bits x < 64) : asI64 (x % W) = (x : Int) := by
  have hx := lt_of_bits_lt_64 h
  rw [Nat.mod_eq_of_lt (by unfold W; omega), asI64_small hx]

/-- the extended iteration never panics as long as the cofactors are far enough from the
`BInt<K>` range; cofactors grow at most by the factor `2 * 2^(64N)` per iteration -/
theorem gcdStep_ext_total {N K : Nat} (hN : 0 < N) {s0 : St} {B L : Int} (hx : s0.x < M N)
    (hy : s0.y < M N) (hc : CofLe s0 B) (hB1 : 1 ≤ B)
    (hL : L ≤ ((M K / 2 : Nat) : Int)) (hfit : 2 * (M N : Int) * B < L) :
    ∃ st, gcdStep N K true s0 = some st ∧ ∀ s', st = .next s' → CofLe s' (2 * (M N : Int) * B) := by
  obtain ⟨hyx, _, hrange⟩ := swapSt_facts s0
  obtain ⟨hxM, hyM⟩ := hrange (M N) hx hy
  have hcs := CofLe_swap hc
  unfold gcdStep
  simp only
  generalize swapSt s0 = s at *
  by_cases hlx : bits s.x = 0
  · rw [if_pos hlx]; exact ⟨_, rfl, fun s' h => by simp at h⟩
  · rw [if_neg hlx]
    by_cases hly : bits s.y = 0
    · rw [if_pos hly]; exact ⟨_, rfl, fun s' h => by simp at h⟩
    · rw [if_neg hly]
      have hy0 : s.y ≠ 0 := fun h0 => hly (bits_eq_zero.2 h0)
      by_cases hsm : bits s.x < 64 ∧ bits s.y < 64
      · rw [if_pos hsm]
        simp only [if_true]
        have hxs := lt_of_bits_lt_64 hsm.1
        rw [asI64_mod' hsm.1, asI64_mod' hsm.2]
        obtain ⟨g, ex, ey, he, b1, b2⟩ := egcdI64_total hxs (Nat.pos_of_ne_zero hy0) hyx
        rw [he]
        simp only
        have hMI : ((2 ^ 63 : Nat) : Int) ≤ (M N : Int) := by
          have : 2 ^ 63 ≤ M N := by unfold M; exact Nat.pow_le_pow_right (by decide) (by omega)
          exact_mod_cast this
        have hxI : (s.x : Int) ≤ (M N : Int) := by exact_mod_cast Nat.le_of_lt hxM
        have hyI : (s.y : Int) ≤ (s.x : Int) := by exact_mod_cast hyx
        obtain ⟨l1, _⟩ := lin2_total (K := K) hL (le_trans b1 (le_trans hyI hxI)) hcs.1
          (le_trans b2 hxI) hcs.2.2.1 hfit
        obtain ⟨l2, _⟩ := lin2_total (K := K) hL (le_trans b1 (le_trans hyI hxI)) hcs.2.1
          (le_trans b2 hxI) hcs.2.2.2 hfit
        rw [l1, l2]
        exact ⟨_, rfl, fun s' h => by simp at h⟩
      · rw [if_neg hsm]
        have hbm := bits_mono hyx
        have hmax : max (bits s.x) (bits s.y) = bits s.x := Nat.max_eq_left hbm
        rw [hmax]
        have h64 : 64 ≤ bits s.x := by omega
        have hbN : bits s.x ≤ 64 * N := by unfold M at hxM; exact bits_le_of_lt hxM
        obtain ⟨xt, yt, xl, yl, t1, t2, ex, ey, hxl, hyl, hxtW, h63, hytx⟩ :=
          top_facts (N := N) hyx h64 hbN
        rw [t1, t2]
        simp only
        by_cases hcnd : bits s.x + 36 ≥ N * 64 ∨ bits s.y + 36 ≥ N * 64 ∨ yt < 2 ^ 32
        · rw [if_pos hcnd]
          obtain ⟨s', hs', hc'⟩ := fallbackStep_ext_total (K := K) hN hy0 hxM hcs hB1 hL hfit
          rw [hs']
          exact ⟨_, rfl, fun s'' h => by simp at h; subst h; exact hc'⟩
        · rw [if_neg hcnd]
          obtain ⟨s', hs', hc'⟩ := lehmerStep_ext_total (K := K) hN (s := s) (by omega) hyx hxtW
            (by omega) h63 hytx (by omega) hcs hL hfit
          rw [hs']
          exact ⟨_, rfl, fun s'' h => by simp at h; subst h; exact hc'⟩


/-- the extended loop returns a value as long as the cofactor range `L` leaves room for a growth
by `2 * 2^(64N)` per iteration -/
theorem gcdLoop_ext_total {N K : Nat} (hN : 0 < N) {L : Int} (hL : L ≤ ((M K / 2 : Nat) : Int)) :
    ∀ (f : Nat) (s : St) (B : Int), s.x < M N → s.y < M N → CofLe s B → 1 ≤ B →
    (2 * (M N : Int)) ^ (f + 1) * B < L → s.x * s.y * 3 ^ f < 4 ^ f →
    ∃ r, gcdLoop N K true (f + 1) s = some r := by
  have hM1 : (1 : Int) ≤ 2 * (M N : Int) := by
    have : (1 : Int) ≤ (M N : Int) := by exact_mod_cast M_pos N
    linarith
  intro f
  induction f with
  | zero =>
    intro s B hx hy hc hB1 hfit hm
    have hm0 : s.x * s.y = 0 := by simpa using hm
    obtain ⟨st, hst, _⟩ := gcdStep_ext_total (K := K) hN hx hy hc hB1 hL (by simpa using hfit)
    unfold gcdLoop
    rw [hst]
    cases st with
    | ret d u v => exact ⟨_, rfl⟩
    | next s' => exact absurd hm0 (gcdStep_zero hst)
  | succ f ih =>
    intro s B hx hy hc hB1 hfit hm
    have hpow : (1 : Int) ≤ (2 * (M N : Int)) ^ (f + 1) := one_le_pow₀ hM1
    have hB0 : (0 : Int) ≤ B := by linarith
    have e : (2 * (M N : Int)) ^ (f + 1 + 1) * B = (2 * (M N : Int)) ^ (f + 1) * (2 * (M N : Int) * B) := by
      rw [pow_succ]; ring
    have hfit1 : 2 * (M N : Int) * B < L := by
      have h2 : 0 ≤ 2 * (M N : Int) * B := mul_nonneg (by linarith) hB0
      have : 2 * (M N : Int) * B ≤ (2 * (M N : Int)) ^ (f + 1) * (2 * (M N : Int) * B) :=
        le_mul_of_one_le_left h2 hpow
      rw [e] at hfit; linarith
    obtain ⟨st, hst, hnext⟩ := gcdStep_ext_total (K := K) hN hx hy hc hB1 hL hfit1
    rw [gcdLoop, hst]
    cases st with
    | ret d u v => exact ⟨_, rfl⟩
    | next s' =>
      simp only
      obtain ⟨m1, m2, m3⟩ := gcdStep_measure hst hx hy
      refine ih s' (2 * (M N : Int) * B) m2 m3 (hnext s' rfl) (by nlinarith) (by rw [← e]; exact hfit) ?_
      have e3 : 3 ^ (f + 1) = 3 ^ f * 3 := Nat.pow_succ _ _
      have e4 : 4 ^ (f + 1) = 4 ^ f * 4 := Nat.pow_succ _ _
      rw [e3, e4] at hm
      have : 4 * (s'.x * s'.y) * 3 ^ f ≤ 3 * (s.x * s.y) * 3 ^ f := Nat.mul_le_mul_right _ m1
      have e5 : 3 * (s.x * s.y) * 3 ^ f = s.x * s.y * (3 ^ f * 3) := by ring
      have e6 : 4 * (s'.x * s'.y) * 3 ^ f = 4 * (s'.x * s'.y * 3 ^ f) := by ring
      omega

/-- a cofactor width that is certainly sufficient -/
def bigK (N f : Nat) : Nat := (N + 1) * (f + 2)

theorem bigK_fits (N f : Nat) : (2 * (M N : Int)) ^ (f + 1) * 1 < ((M (bigK N f) / 2 : Nat) : Int) := by
  have h1 : (2 * M N) ^ (f + 1) = 2 ^ ((64 * N + 1) * (f + 1)) := by
    unfold M
    rw [show 2 * 2 ^ (64 * N) = 2 ^ (64 * N + 1) from by rw [Nat.pow_succ]; ring, ← Nat.pow_mul]
  have h2 : M (bigK N f) / 2 = 2 ^ (64 * bigK N f - 1) := by
    unfold M
    have hpos : 0 < 64 * bigK N f := by unfold bigK; positivity
    have : 64 * bigK N f = (64 * bigK N f - 1) + 1 := by omega
    rw [this, Nat.pow_succ]; simp
  have h3 : (64 * N + 1) * (f + 1) < 64 * bigK N f - 1 := by
    unfold bigK
    have : (64 * N + 1) * (f + 1) + 2 ≤ 64 * ((N + 1) * (f + 2)) := by nlinarith
    omega
  have : (2 * M N) ^ (f + 1) < M (bigK N f) / 2 := by
    rw [h1, h2]; exact Nat.pow_lt_pow_right (by decide) h3
  rw [mul_one]
  exact_mod_cast this

/-- for every pair of `BUint<N>` operands there is a cofactor width for which the extended loop
returns: no panic site other than the `BInt` range checks is reachable -/
theorem gcdLoop_ext_exists {N : Nat} (hN : 0 < N) {n p : Nat} (hn : n < M N) (hp : p < M N) :
    ∃ K r, gcdLoop N K true (gcdFuel N) (initSt n p) = some r := by
  refine ⟨bigK N (3 * (bits n + bits p)), ?_⟩
  obtain ⟨r, hr⟩ := gcdLoop_ext_total (K := bigK N (3 * (bits n + bits p))) hN (Int.le_refl _)
    (3 * (bits n + bits p)) (initSt n p) 1 hn hp (by simp [CofLe, initSt]) (Int.le_refl _)
    (bigK_fits N _) (fuel_arith n p)
  rw [gcdLoop_fuel hn hp _ (gcdFuel_ge hn hp), hr]
  exact ⟨r, rfl⟩


end Ymq.Gcd
