/-
C13 helper lemmas: the logs `sieve_block` reads back from the size-class tables (bit lengths 16..18) are the
bit lengths of the primes registered with a root at the position (no overflow counted).
-/
import Ymq.Lemmas.SieveTableNew
import Ymq.Lemmas.SieveLogCover
import Ymq.Lemmas.SieveTotal

namespace Ymq.SieveLog
open Ymq.Sieve

theorem largeOffsets_nodup {interval p o1 o2 : Nat} {l : List Nat} (hp : 0 < p) (h1 : o1 < p) (h2 : o2 < p)
    (hne : o1 ≠ o2) (h : largeOffsets interval p o1 o2 = some l) : l.Nodup := by
  unfold largeOffsets at h
  simp only [Option.bind_eq_bind, Option.bind_eq_some_iff, Option.some.injEq] at h
  obtain ⟨⟨l0, kp⟩, hu, t1, ht1, t2, ht2, rfl⟩ := h
  obtain ⟨hn0, _, hb0⟩ := unrolled_nodup interval p o1 o2 (max o1 o2) hp h1 h2 hne
    (le_max_left _ _) (le_max_right _ _) _ _ _ _ hu
  obtain ⟨j, hj, _, _⟩ := unrolled_spec interval p o1 o2 (max o1 o2) (le_max_left _ _) (le_max_right _ _) _ _ _ _ hu
  simp only [Nat.zero_add] at hj
  obtain ⟨_, b1⟩ := arith_complete p interval _ _ _ ht1
  obtain ⟨_, b2⟩ := arith_complete p interval _ _ _ ht2
  rw [List.nodup_append, List.nodup_append]
  refine ⟨⟨hn0, arith_nodup p interval hp _ _ _ ht1, ?_⟩, arith_nodup p interval hp _ _ _ ht2, ?_⟩
  · intro a ha b hb e
    subst e
    have := (hb0 a ha).2
    obtain ⟨_, k, hk⟩ := b1 a hb
    omega
  · intro a ha b hb e
    subst e
    obtain ⟨_, k', hk'⟩ := b2 a hb
    rcases List.mem_append.1 ha with ha | ha
    · have := (hb0 a ha).2; omega
    · obtain ⟨_, k, hk⟩ := b1 a ha
      have e1 : a % p = o1 := by
        rw [hk, hj]
        have : o1 + j * (2 * p) + k * p = o1 + (2 * j + k) * p := by ring
        rw [this, Nat.add_mul_mod_self_right, Nat.mod_eq_of_lt h1]
      have e2 : a % p = o2 := by
        rw [hk', hj]
        have : o2 + j * (2 * p) + k' * p = o2 + (2 * j + k') * p := by ring
        rw [this, Nat.add_mul_mod_self_right, Nat.mod_eq_of_lt h2]
      exact hne (e1.symm.trans e2)

/-- what prime index `pidx` (a prime ≥ 32768 of bit length ≤ 18) adds at the absolute position `X`: its bit length
when `X` is below the interval end and congruent to one of its two roots. -/
def tabF (fb : FB) (r1 r2 : Array Nat) (interval X pidx : Nat) : Nat :=
  match fb.primes[pidx]?, r1[pidx]?, r2[pidx]? with
  | some p, some o1, some o2 => if X < interval ∧ (X % p = o1 ∨ X % p = o2) then bitlen p else 0
  | _, _, _ => 0

/-- membership in the registered offsets of a prime = root congruence below the interval end. -/
theorem mem_offsL {fb : FB} {r1 r2 : Array Nat} {interval pidx p o1 o2 X : Nat} (hfb : fb.WF)
    (hp : fb.primes[pidx]? = some p) (h1 : r1[pidx]? = some o1) (h2 : r2[pidx]? = some o2)
    (hl1 : o1 < p) (hl2 : o2 < p) :
    X ∈ offsL fb r1 r2 interval pidx ↔ (X < interval ∧ (X % p = o1 ∨ X % p = o2)) := by
  have hp2 := hfb.ge2 _ _ hp
  obtain ⟨l, hl⟩ := largeOffsets_some interval p o1 o2 (by omega)
  obtain ⟨c1, c2, c3⟩ := largeOffsets_spec hl
  unfold offsL
  simp only [hp, h1, h2, hl, Option.getD_some]
  rw [← mod_eq_iff_prog hl1, ← mod_eq_iff_prog hl2]
  constructor
  · intro hm
    obtain ⟨hlt, k, hk⟩ := c3 X hm
    exact ⟨hlt, hk.imp (fun h => ⟨k, h⟩) (fun h => ⟨k, h⟩)⟩
  · rintro ⟨hlt, ⟨k, rfl⟩ | ⟨k, rfl⟩⟩
    · exact c1 k hlt
    · exact c2 k hlt

theorem offsL_nodup {fb : FB} {r1 r2 : Array Nat} {interval pidx : Nat} (hfb : fb.WF) (hr : RootsOK fb r1 r2)
    (hd : RootsDistinct fb r1 r2) (hbig : ∀ p, fb.primes[pidx]? = some p → 32768 ≤ p) :
    (offsL fb r1 r2 interval pidx).Nodup := by
  unfold offsL
  cases hp : fb.primes[pidx]? with
  | none => simp
  | some p =>
    obtain ⟨o1, o2, h1, h2, hl1, hl2⟩ := hr _ _ hp
    simp only [h1, h2]
    have hp2 := hfb.ge2 _ _ hp
    obtain ⟨l, hl⟩ := largeOffsets_some interval p o1 o2 (by omega)
    rw [hl, Option.getD_some]
    refine largeOffsets_nodup (by omega) hl1 hl2 ?_ hl
    intro e
    exact hd pidx p hp (hbig p hp) (by rw [h1, h2, e])

/-- the bucket entries of one prime, read back as hits of bucket `bidx` of block `blkNo`, add its log exactly when
`bidx` is the bucket of `x` and `blkNo·32768 + x` is one of its registered offsets. -/
theorem partL_sum {fb : FB} {r1 r2 : Array Nat} {interval pidx blkNo bidx x lg : Nat}
    (hnd : (offsL fb r1 r2 interval pidx).Nodup) (hb : bidx < 128) (hx : x < BLOCK) :
    hitSum ((partL fb r1 r2 interval (blkNo * 128 + bidx) pidx).map fun e => (bidx * 256 + e.1, lg)) x =
      if bidx = x / 256 ∧ blkNo * BLOCK + x ∈ offsL fb r1 r2 interval pidx then lg else 0 := by
  unfold partL
  rw [List.map_map]
  -- positions of the mapped entries
  have hmap : ((offsL fb r1 r2 interval pidx).filter fun off => off / 256 = blkNo * 128 + bidx).map
      ((fun e : Nat × Nat => (bidx * 256 + e.1, lg)) ∘ fun off => (off % 256, pidx % 2 ^ 32 % 256)) =
      ((((offsL fb r1 r2 interval pidx).filter fun off => off / 256 = blkNo * 128 + bidx).map
        fun off => bidx * 256 + off % 256)).map fun y => (y, lg) := by
    rw [List.map_map]; rfl
  rw [hmap]
  have hinj : (((offsL fb r1 r2 interval pidx).filter fun off => off / 256 = blkNo * 128 + bidx).map
      fun off => bidx * 256 + off % 256).Nodup := by
    apply List.Nodup.map_on _ (hnd.filter _)
    intro a ha b hb' e
    have ha' := (List.mem_filter.1 ha).2
    have hb'' := (List.mem_filter.1 hb').2
    simp only [decide_eq_true_eq] at ha' hb''
    have := Nat.div_add_mod a 256
    have := Nat.div_add_mod b 256
    omega
  rw [hitSum_map_nodup lg x _ hinj]
  congr 1
  apply propext
  rw [List.mem_map]
  constructor
  · rintro ⟨off, hm, he⟩
    obtain ⟨hm1, hm2⟩ := List.mem_filter.1 hm
    simp only [decide_eq_true_eq] at hm2
    have := Nat.div_add_mod off 256
    have hx' : x < 32768 := by simpa [BLOCK] using hx
    have hb2 : bidx = x / 256 := by omega
    refine ⟨hb2, ?_⟩
    have : off = blkNo * BLOCK + x := by simp only [BLOCK]; omega
    rw [← this]; exact hm1
  · rintro ⟨hb2, hm⟩
    have hx' : x < 32768 := by simpa [BLOCK] using hx
    refine ⟨blkNo * BLOCK + x, List.mem_filter.2 ⟨hm, ?_⟩, ?_⟩
    · rw [decide_eq_true_eq]; simp only [BLOCK]; omega
    · simp only [BLOCK]; omega

/-- every bucket of every size-class table holds exactly the registered hits of the primes of its class. -/
def TablesExact (fb : FB) (r1 r2 : Array Nat) (interval nblocks : Nat) (tables : Array Table) : Prop :=
  ∀ (tidx : Nat) (t : Table), tables[tidx]? = some t → ∃ idx1 idx2, fb.ibl[tidx + 16]? = some idx1 ∧
    fb.ibl[tidx + 17]? = some idx2 ∧ ∀ b, b < 128 * nblocks →
      t.bucket b = some ((List.range' idx1 (idx2 - idx1)).flatMap (partL fb r1 r2 interval b))

theorem hitSum_flatMap_map {α} (P : α → List (Nat × Nat)) (m : Nat × Nat → Nat × Nat) (x : Nat) :
    ∀ (L : List α), hitSum ((L.flatMap P).map m) x = (L.map fun i => hitSum ((P i).map m) x).sum := by
  intro L
  induction L with
  | nil => rfl
  | cons a t ih => rw [List.flatMap_cons, List.map_append, hitSum_append, ih, List.map_cons, List.sum_cons]

theorem sum_single (f : Nat → Nat) (j : Nat) :
    ∀ (n s : Nat), s ≤ j → j < s + n → (∀ i, i ≠ j → f i = 0) → ((List.range' s n).map f).sum = f j := by
  intro n
  induction n with
  | zero => intro s h1 h2 _; omega
  | succ n ih =>
    intro s h1 h2 h0
    rw [List.range'_succ, List.map_cons, List.sum_cons]
    by_cases hs : s = j
    · subst hs
      have : ((List.range' (s + 1) n).map f).sum = 0 := by
        apply List.sum_eq_zero
        intro v hv
        obtain ⟨i, hi, rfl⟩ := List.mem_map.1 hv
        have := List.mem_range'_1.1 hi
        exact h0 i (by omega)
      omega
    · rw [h0 s hs, Nat.zero_add]
      exact ih (s + 1) (by omega) (by omega) h0

/-- the logs read back from the size-class tables at position `x` of block `blkNo`: one `bitlen`-class log per
registered hit of a prime of the class at the absolute position `blkNo·32768 + x`. -/
theorem tableHits_sum {fb : FB} {r1 r2 : Array Nat} {interval nblocks : Nat} {s : State} {th : List (Nat × Nat)}
    (hex : TablesExact fb r1 r2 interval nblocks s.tables) (hblk : s.blkNo < nblocks) (hl0 : s.ltables.size = 0)
    (hnd : ∀ (tidx idx1 : Nat), fb.ibl[tidx + 16]? = some idx1 → ∀ pidx, idx1 ≤ pidx →
      (offsL fb r1 r2 interval pidx).Nodup) {x : Nat} (hx : x < BLOCK)
    (h : tableHits s = some th) :
    hitSum th x = ((List.range' 0 s.tables.size).map fun tidx =>
      (((List.range' ((fb.ibl[tidx + 16]?).getD 0) ((fb.ibl[tidx + 17]?).getD 0 - (fb.ibl[tidx + 16]?).getD 0)).map
        fun pidx => if s.blkNo * BLOCK + x ∈ offsL fb r1 r2 interval pidx then (16 + tidx) % 256 else 0).sum)).sum := by
  unfold tableHits at h
  by_cases h0 : s.tables.size = 0
  · simp only [h0, if_true, Option.some.injEq] at h
    subst h
    simp [h0, hitSum_nil]
  simp only [h0, if_false, Option.bind_eq_bind, Option.bind_eq_some_iff, Option.some.injEq] at h
  obtain ⟨h1, hh1, h2, hh2, rfl⟩ := h
  have hx' : x < 32768 := by simpa [BLOCK] using hx
  -- no large table: the second part is empty
  have e2 : hitSum h2.flatten x = 0 := by
    rw [mapM_flatten_sum _ (fun _ => 0) x _ _ hh2]
    · simp
    · intro bucket _ l hl
      simp only [hl0, List.range'_zero, List.mapM_nil, Option.pure_def, Option.bind_eq_bind, Option.bind_some,
        Option.some.injEq] at hl
      subst hl; rfl
  rw [hitSum_append, e2, Nat.add_zero]
  -- per bucket and table
  have hcell : ∀ bidx, bidx < 128 → ∀ tidx l, tableBucketHits s bidx tidx = some l →
      hitSum l x = if bidx = x / 256 then
        (((List.range' ((fb.ibl[tidx + 16]?).getD 0) ((fb.ibl[tidx + 17]?).getD 0 - (fb.ibl[tidx + 16]?).getD 0)).map
          fun pidx => if s.blkNo * BLOCK + x ∈ offsL fb r1 r2 interval pidx then (16 + tidx) % 256 else 0).sum) else 0 := by
    intro bidx hb tidx l hl
    unfold tableBucketHits at hl
    simp only [Option.bind_eq_bind, Option.bind_eq_some_iff, Option.some.injEq, N_BUCKETS, N_ENTRIES, BUCKET_SIZE,
      BUCKET_WIDTH, LARGE_LOG] at hl
    obtain ⟨t, ht, blen, hblen, es, hes, rfl⟩ := hl
    obtain ⟨idx1, idx2, hi1, hi2, hbk⟩ := hex tidx t ht
    have hb' : s.blkNo * 128 + bidx < 128 * nblocks := by
      have : (s.blkNo + 1) * 128 ≤ nblocks * 128 := Nat.mul_le_mul_right _ hblk
      omega
    have hbucket := hbk _ hb'
    -- the entries read are the bucket
    have hes' : t.bucket (s.blkNo * 128 + bidx) = some es := by
      unfold Table.bucket
      simp only [hblen, BUCKET_SIZE]
      have : (s.blkNo * 128 + bidx) * 32 = s.blkNo * 4096 + bidx * 32 := by ring
      rw [this]; exact hes
    rw [hbucket] at hes'
    have := Option.some.inj hes'
    subst this
    simp only [hi1, hi2, Option.getD_some]
    have hmm : (fun e : Nat × Nat => (bidx * 256 + e.1, (16 + tidx) % 256)) =
        fun e : Nat × Nat => (bidx * 256 + e.1, (16 + tidx) % 256) := rfl
    rw [hitSum_flatMap_map]
    by_cases hq : bidx = x / 256
    · rw [if_pos hq]
      congr 1
      apply List.map_congr_left
      intro pidx hm
      rw [partL_sum (hnd tidx idx1 hi1 pidx (List.mem_range'_1.1 hm).1) hb hx]
      simp [hq]
    · rw [if_neg hq]
      apply List.sum_eq_zero
      intro v hv
      obtain ⟨pidx, hm, rfl⟩ := List.mem_map.1 hv
      rw [partL_sum (hnd tidx idx1 hi1 pidx (List.mem_range'_1.1 hm).1) hb hx]
      simp [hq]
  rw [mapM_flatten_sum _ (fun bidx => if bidx = x / 256 then
      ((List.range' 0 s.tables.size).map fun tidx =>
        (((List.range' ((fb.ibl[tidx + 16]?).getD 0) ((fb.ibl[tidx + 17]?).getD 0 - (fb.ibl[tidx + 16]?).getD 0)).map
          fun pidx => if s.blkNo * BLOCK + x ∈ offsL fb r1 r2 interval pidx then (16 + tidx) % 256 else 0).sum)).sum
      else 0) x _ _ hh1]
  · simp only [N_BUCKETS]
    rw [sum_single _ (x / 256) 128 0 (by omega) (by omega) (fun i hi => by simp [hi])]
    simp
  · intro bidx hbm l hl
    have hb : bidx < 128 := by have := List.mem_range'_1.1 hbm; simp only [N_BUCKETS] at this; omega
    simp only [Option.bind_eq_bind, Option.bind_eq_some_iff, Option.some.injEq] at hl
    obtain ⟨ls, hls, rfl⟩ := hl
    rw [mapM_flatten_sum _ (fun tidx => if bidx = x / 256 then
        (((List.range' ((fb.ibl[tidx + 16]?).getD 0) ((fb.ibl[tidx + 17]?).getD 0 - (fb.ibl[tidx + 16]?).getD 0)).map
          fun pidx => if s.blkNo * BLOCK + x ∈ offsL fb r1 r2 interval pidx then (16 + tidx) % 256 else 0).sum) else 0)
      x _ _ hls (fun tidx _ l hl => hcell bidx hb tidx l hl)]
    by_cases hq : bidx = x / 256
    · simp [hq]
    · simp [hq]

/-! ### `Sieve::new` establishes `TablesExact` -/

/-- recycled tables have the bucket-length array of a sieve with the same number of blocks (and the 32 slots). -/
def RecycledBlens (n : Nat) (recycled : Option (Array Table × Array LTable)) : Prop :=
  ∀ ts lts, recycled = some (ts, lts) → ∀ (i : Nat) (t : Table), ts[i]? = some t →
    t.blens.size = 128 * n ∧ t.overflows.size = 32

theorem RecycledBlens.ok {n : Nat} {recycled : Option (Array Table × Array LTable)} (h : RecycledBlens n recycled) :
    RecycledOK recycled := fun ts lts hr i t ht => (h ts lts hr i t ht).2

theorem bucket_of_zero_blens {t : Table} {b : Nat} (h : t.blens[b]? = some 0) : t.bucket b = some [] := by
  unfold Table.bucket; simp [h]

theorem newTables_bucket_nil {n maxlog : Nat} {recycled : Option (Array Table × Array LTable)}
    {T0 : Array Table} {L0 : Array LTable} (hrec : RecycledBlens n recycled)
    (h : newTables n maxlog recycled = some (T0, L0)) :
    ∀ (ti : Nat) (t0 : Table), T0[ti]? = some t0 → ∀ b, b < 128 * n → t0.bucket b = some [] := by
  unfold newTables at h
  cases recycled with
  | none =>
    simp only [Option.some.injEq, Prod.mk.injEq] at h
    obtain ⟨rfl, rfl⟩ := h
    intro ti t0 ht b hb
    rw [getElem?_replicate_eq ht]
    apply bucket_of_zero_blens
    simp [Table.new, N_BUCKETS, Array.getElem?_replicate]; omega
  | some r =>
    obtain ⟨ts, lts⟩ := r
    simp only at h
    split_ifs at h
    simp only [Option.some.injEq, Prod.mk.injEq] at h
    obtain ⟨rfl, rfl⟩ := h
    intro ti t0 ht b hb
    rw [Array.getElem?_map] at ht
    simp only [Option.map_eq_some_iff] at ht
    obtain ⟨t', ht', rfl⟩ := ht
    apply bucket_of_zero_blens
    have := (hrec ts lts rfl ti t' ht').1
    simp [Table.reset, Array.getElem?_replicate, this]; omega

theorem new_tablesExact {fb : FB} {r1 r2 : Array Nat} {offset : Int} {nblocks : Nat}
    {recycled : Option (Array Table × Array LTable)} {s : State} (hrec : RecycledBlens nblocks recycled)
    (h : new offset nblocks fb r1 r2 recycled = some s)
    (hov : ∀ (ti : Nat) (t : Table), s.tables[ti]? = some t → t.nOverflows = 0) :
    TablesExact fb r1 r2 (nblocks * BLOCK) nblocks s.tables := by
  unfold new at h
  simp only [Option.bind_eq_bind, Option.bind_eq_some_iff] at h
  obtain ⟨_, _, maxprime, hmax, ⟨T0, L0⟩, hnt, h⟩ := h
  by_cases hbig : nblocks * BLOCK ≥ 2 ^ 62
  · simp at h; omega
  simp only [hbig, if_false, Option.pure_def, Option.bind_some, Option.bind_eq_some_iff, Option.some.injEq] at h
  obtain ⟨⟨offs, tables, ltables⟩, hf, rfl⟩ := h
  simp only at hov ⊢
  obtain ⟨hT, hL, hTs, hLs⟩ := newTables_spec hrec.ok hnt
  have hT3 : T0.size ≤ 3 := by omega
  have hrel := newFold_tab (fb := fb) (r1 := r1) (r2 := r2) (interval := nblocks * BLOCK) hT3
    (fun ti t ht => (hT ti t ht).1) (fun li t ht => (hL li t ht).1) hf
  simp only at hrel
  intro tidx t ht
  have hti : tidx < T0.size := by
    have := (Array.getElem?_eq_some_iff.1 ht).1
    rw [hrel.1] at this; exact this
  obtain ⟨_, hafter⟩ := newFold_table (fb := fb) (r1 := r1) (r2 := r2) (interval := nblocks * BLOCK) (T0 := T0) (L0 := L0)
    (offs0 := #[]) (ti := tidx) (by omega) (bitlen maxprime + 1) _ hf
  obtain ⟨idx1, idx2, t0, t', a1, a2, a3, a4, a5⟩ := hafter (by omega)
  simp only at a5
  rw [ht] at a5
  have := Option.some.inj a5; subst this
  obtain ⟨hw0, hz0, _⟩ := hT tidx t0 a3
  obtain ⟨_, _, hbk⟩ := newLarge_fold_bucket _ t0 t hw0 a4
  refine ⟨idx1, idx2, a1, a2, ?_⟩
  intro b hb
  have := hbk (by rw [hov tidx t ht, hz0]) b [] (newTables_bucket_nil hrec hnt tidx t0 a3 b hb)
  simpa using this

theorem runBlocks_tables (fb : FB) : ∀ (b : Nat) (s s' : State), runBlocks fb b s = some s' →
    s'.tables = s.tables ∧ s'.ltables = s.ltables := by
  intro b
  induction b with
  | zero => intro s s' h; simp only [runBlocks, Option.some.injEq] at h; subst h; exact ⟨rfl, rfl⟩
  | succ b ih =>
    intro s s' h
    simp only [runBlocks, Option.bind_eq_bind, Option.bind_eq_some_iff] at h
    obtain ⟨s1, h1, s2, h2, h3⟩ := h
    obtain ⟨e1, e2⟩ := ih s s1 h1
    have e3 : s2.tables = s1.tables ∧ s2.ltables = s1.ltables := by
      unfold sieveBlock at h2
      simp only [Option.bind_eq_bind, Option.bind_eq_some_iff] at h2
      obtain ⟨⟨lo, lp⟩, _, h2⟩ := h2
      simp only at h2
      split_ifs at h2 <;> (have := Option.some.inj h2; subst this; exact ⟨rfl, rfl⟩)
    have e4 : s'.tables = s2.tables ∧ s'.ltables = s2.ltables := by
      unfold nextBlock at h3
      split_ifs at h3
      have := Option.some.inj h3; subst this; exact ⟨rfl, rfl⟩
    exact ⟨e4.1.trans (e3.1.trans e1), e4.2.trans (e3.2.trans e2)⟩

/-! ### collapsing the sum over the size classes -/

theorem map_shift_range' (R : Nat → Nat) (a : Nat) :
    ∀ (n s : Nat), (List.range' s n).map (fun t => R (t + a)) = (List.range' (s + a) n).map R := by
  intro n
  induction n with
  | zero => intro s; rfl
  | succ n ih =>
    intro s
    rw [List.range'_succ, List.range'_succ, List.map_cons, List.map_cons, ih (s + 1)]
    have : s + 1 + a = s + a + 1 := by omega
    rw [this]

theorem ibl_top {fb : FB} (hfb : fb.WF) {maxprime l v : Nat} (hmax : fb.primes.back? = some maxprime)
    (hv : fb.ibl[l]? = some v) (hl : bitlen maxprime < l) : v = fb.primes.size := by
  have hle := hfb.ibl_le _ _ hv
  by_contra hne
  obtain ⟨p, hp⟩ := hfb.prime_at (i := v) (by omega)
  have := bitlen_mono (hfb.le_back hp hmax)
  have := (hfb.ibl_spec l v v p hv hp).2 (by omega)
  omega

theorem tableSum_collapse {fb : FB} {r1 r2 : Array Nat} {interval nS maxprime size X : Nat} (hfb : fb.WF)
    (hr : RootsOK fb r1 r2) (hnS : fb.ibl[16]? = some nS) (hmax : fb.primes.back? = some maxprime)
    (hml : bitlen maxprime ≤ 18) (hsize : size = min 18 (bitlen maxprime) + 1 - 16) :
    ((List.range' 0 size).map fun tidx =>
      (((List.range' ((fb.ibl[tidx + 16]?).getD 0) ((fb.ibl[tidx + 17]?).getD 0 - (fb.ibl[tidx + 16]?).getD 0)).map
        fun pidx => if X ∈ offsL fb r1 r2 interval pidx then (16 + tidx) % 256 else 0).sum)).sum =
      rangeSum (tabF fb r1 r2 interval X) nS (fb.primes.size - nS) := by
  let A : Nat → Nat := fun l => (fb.ibl[l]?).getD 0
  have hA : ∀ l v, fb.ibl[l]? = some v → A l = v := by intro l v hv; simp [A, hv]
  -- one class
  have hclass : ∀ tidx, tidx < size →
      (((List.range' (A (tidx + 16)) (A (tidx + 17) - A (tidx + 16))).map
        fun pidx => if X ∈ offsL fb r1 r2 interval pidx then (16 + tidx) % 256 else 0).sum) =
      rangeSum (tabF fb r1 r2 interval X) (A (tidx + 16)) (A (tidx + 16 + 1) - A (tidx + 16)) := by
    intro tidx ht
    unfold rangeSum
    congr 1
    apply List.map_congr_left
    intro pidx hm
    have hm' := List.mem_range'_1.1 hm
    obtain ⟨v, hv⟩ := hfb.ibl_some (tidx + 16) (by omega)
    obtain ⟨v', hv'⟩ := hfb.ibl_some (tidx + 17) (by omega)
    rw [hA _ _ hv, hA _ _ hv'] at hm'
    have hle := hfb.ibl_le _ _ hv'
    obtain ⟨p, hp⟩ := hfb.prime_at (i := pidx) (by omega)
    have hb := (hfb.class_of hp hv hv').1 ⟨by omega, by omega⟩
    obtain ⟨o1, o2, h1, h2, hl1, hl2⟩ := hr _ _ hp
    unfold tabF
    simp only [hp, h1, h2]
    have e256 : (16 + tidx) % 256 = tidx + 16 := by omega
    rw [e256, hb]
    exact if_congr (mem_offsL hfb hp h1 h2 hl1 hl2) rfl rfl
  have e1 : ((List.range' 0 size).map fun tidx =>
      (((List.range' (A (tidx + 16)) (A (tidx + 17) - A (tidx + 16))).map
        fun pidx => if X ∈ offsL fb r1 r2 interval pidx then (16 + tidx) % 256 else 0).sum)) =
      (List.range' 0 size).map fun tidx =>
        rangeSum (tabF fb r1 r2 interval X) (max 0 (A (tidx + 16))) (A (tidx + 16 + 1) - max 0 (A (tidx + 16))) := by
    apply List.map_congr_left
    intro tidx hm
    have := List.mem_range'_1.1 hm
    rw [hclass tidx (by omega), Nat.zero_max]
  show ((List.range' 0 size).map fun tidx =>
      (((List.range' (A (tidx + 16)) (A (tidx + 17) - A (tidx + 16))).map
        fun pidx => if X ∈ offsL fb r1 r2 interval pidx then (16 + tidx) % 256 else 0).sum)).sum = _
  rw [e1, map_shift_range' (fun l => rangeSum (tabF fb r1 r2 interval X) (max 0 (A l)) (A (l + 1) - max 0 (A l))) 16
    size 0, Nat.zero_add, rangeSum_chain _ 0 A size 16 (fun l h1 h2 => by
      obtain ⟨v, hv⟩ := hfb.ibl_some l (by omega)
      obtain ⟨v', hv'⟩ := hfb.ibl_some (l + 1) (by omega)
      rw [hA _ _ hv, hA _ _ hv']
      exact hfb.ibl_mono (by omega) hv hv'), Nat.zero_max, hA 16 nS hnS]
  congr 1
  by_cases h16 : 16 ≤ bitlen maxprime
  · have e : 16 + size = bitlen maxprime + 1 := by omega
    obtain ⟨v, hv⟩ := hfb.ibl_some (16 + size) (by omega)
    rw [hA _ _ hv, ibl_top hfb hmax hv (by omega)]
  · have e : size = 0 := by omega
    subst e
    rw [Nat.add_zero, hA 16 nS hnS, ibl_top hfb hmax hnS (by omega)]

/-- the table term is bounded by the bit lengths of the distinct primes that contribute. -/
theorem tabSum_le {fb : FB} {r1 r2 : Array Nat} {interval X nS : Nat} (hfb : fb.WF) (hr : RootsOK fb r1 r2)
    (ps : Finset ℕ)
    (hps : ∀ i p, nS ≤ i → fb.primes[i]? = some p → 0 < tabF fb r1 r2 interval X i → p ∈ ps) :
    rangeSum (tabF fb r1 r2 interval X) nS (fb.primes.size - nS) ≤ ∑ p ∈ ps, bitlen p := by
  unfold rangeSum
  refine list_sum_le_finset (fun i => (fb.primes[i]?).getD 0) _ _ ps (List.nodup_range' (step := 1) (by omega)) ?_ ?_ ?_
  · intro i hi
    have hm := List.mem_range'_1.1 hi
    obtain ⟨p, hp⟩ := hfb.prime_at (i := i) (by omega)
    obtain ⟨o1, o2, h1, h2, _, _⟩ := hr _ _ hp
    unfold tabF
    simp only [hp, h1, h2, Option.getD_some]
    split_ifs <;> omega
  · intro i hi hg
    have hm := List.mem_range'_1.1 hi
    obtain ⟨p, hp⟩ := hfb.prime_at (i := i) (by omega)
    simp only [hp, Option.getD_some]
    exact hps i p (by omega) hp hg
  · intro i hi j hj hij
    have hmi := List.mem_range'_1.1 hi
    have hmj := List.mem_range'_1.1 hj
    obtain ⟨p, hp⟩ := hfb.prime_at (i := i) (by omega)
    obtain ⟨q, hq⟩ := hfb.prime_at (i := j) (by omega)
    simp only [hp, hq, Option.getD_some] at hij
    subst hij
    by_contra hne
    rcases Nat.lt_or_gt_of_ne hne with h | h
    · exact absurd (hfb.sorted i j p p h hp hq) (lt_irrefl _)
    · exact absurd (hfb.sorted j i p p h hq hp) (lt_irrefl _)

end Ymq.SieveLog
