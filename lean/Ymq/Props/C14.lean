/-
C14 — binary kernel solvers return only genuine, non-zero dependencies.
Only property theorems live here (helper lemmas: Ymq/Lemmas/Gf2*.lean).

Reading guide. A matrix for `kernel_gauss` is the list `M` of its columns, each a bit list
(`BVec = List Bool`, index 0 first, as `bitvec_simd::BitVec`); `Rect size M` says that every column
has `size` entries. `mulVec size M v` is the product `M·v` over GF(2) (xor of the columns selected
by `v`), `isZero v` is `BitVec::none()`, `lzTop` is `BitVec::leading_zeros`.
`kernelGauss M = some K` means "the Rust routine returns `K` (same order) without reaching any
panic site (assert, debug_assert, index, length check of xor_inplace) in either build profile".
The state of the loop is `(pre, rest)`: the positions `[..done]` and `[done..]` of the three
parallel vectors `zeros`, `coefs`, `cols` (one record `Col` per position).
A sparse matrix is `(k, cols)`: `k` rows, `cols` the list of columns, each a list of row indices
(any order, repetitions allowed: an index listed an even number of times cancels, as in
`impl Mul<&Block> for &SparseMat`); `denseOfSparse k cols` is its dense form. A block is a list of
64-bit words (one per row). `matZ`, `vecZ` translate bit lists to Mathlib matrices/vectors over `ZMod 2`.
All theorems are about the model Ymq/Model/Gf2.lean.
-/
import Ymq.Lemmas.Gf2Gauss
import Ymq.Lemmas.Gf2Sparse
import Ymq.Lemmas.Gf2Lanczos
import Ymq.Lemmas.Gf2Rank
import Ymq.Lemmas.Gf2Rot

namespace Ymq.C14
open Ymq.Gf2

/-- Loop invariant of `kernel_gauss`, for every state visited by the loop (`Reach`): the
coefficient tracking is faithful — at every position `cols[j] = M · coefs[j]` and
`zeros[j] = cols[j].leading_zeros()`; the processed columns `[..done]` are non-zero and have
strictly increasing leading positions, all smaller than those of the columns still to process;
and the rows of `coefs` stay linearly independent (`coefs` is the identity multiplied by swaps and
transvections, hence invertible). -/
theorem gauss_inv (size : Nat) (M : List BVec) (hR : Rect size M) (pre rest : List Col)
    (h : Reach size M pre rest) :
    (∀ e ∈ pre ++ rest, e.coef.length = M.length ∧ e.col.length = size ∧
        mulVec size M e.coef = e.col ∧ e.z = lzTop e.col) ∧
    pre.length + rest.length = M.length ∧
    (∀ e ∈ pre, e.z < size) ∧ pre.Pairwise (fun a b => a.z < b.z) ∧
    (∀ e ∈ pre, ∀ r ∈ rest, e.z < r.z) ∧
    Indep ((pre ++ rest).map (·.coef)) := by
  have hI := h.inv hR
  exact ⟨fun e he => ⟨(hI.entries e he).hcoef, (hI.entries e he).hcol, (hI.entries e he).hmul,
    (hI.entries e he).hz⟩, hI.len, hI.preLt, hI.preSorted, hI.preRest, hI.indep⟩

/-- `kernel_gauss` never panics on a rectangular matrix (any shape, any content): neither the
`assert!` on the lengths, nor the two `debug_assert!`s, nor an index, nor the length check of
`xor_inplace`. -/
theorem gauss_total (size : Nat) (M : List BVec) (hR : Rect size M) : ∃ K, kernelGauss M = some K := by
  obtain ⟨_, rest, hk, _, _⟩ := kernelGauss_spec size M hR
  exact ⟨_, hk⟩

/-- Every vector returned by `kernel_gauss` has one entry per column, is annihilated by the
matrix (`M · v = 0`) and is non-zero. -/
theorem gauss_kernel (size : Nat) (M : List BVec) (hR : Rect size M) (K : List BVec)
    (h : kernelGauss M = some K) :
    ∀ v ∈ K, v.length = M.length ∧ mulVec size M v = List.replicate size false ∧ isZero v = false := by
  intro v hv
  obtain ⟨h1, h2, i, hi⟩ := kernelGauss_mem hR h v hv
  refine ⟨h1, h2, ?_⟩
  cases hz : isZero v with
  | false => rfl
  | true => rw [(isZero_iff v).mp hz i] at hi; cases hi

/-- The family returned by `kernel_gauss` is linearly independent over GF(2): the only
xor-combination of returned vectors that vanishes is the empty one (list form), equivalently
Mathlib's `LinearIndependent (ZMod 2)` for the vectors read in `GF(2)^ncols`. -/
theorem gauss_independent (size : Nat) (M : List BVec) (hR : Rect size M) (K : List BVec)
    (h : kernelGauss M = some K) :
    (∀ c : List Bool, c.length = K.length → mulVec M.length K c = List.replicate M.length false →
        ∀ b ∈ c, b = false) ∧
    LinearIndependent (ZMod 2) (fun j : Fin K.length => vecZ M.length K[j]) := by
  have hind := kernelGauss_indep hR h
  have hlen : ∀ v ∈ K, v.length = M.length := fun v hv => (kernelGauss_mem hR h v hv).1
  refine ⟨fun c hc hzero b hb => ?_, hind.linearIndependent M.length (fun v hv => by rw [hlen v hv])⟩
  have hZ : (K.zip c).map Prod.fst = K := List.map_fst_zip (by omega)
  have hS : (K.zip c).map Prod.snd = c := List.map_snd_zip (by omega)
  have hall := hind (K.zip c) hZ (fun i => by
    have := bitAt_mulVec M.length K c hlen i
    rw [hzero, bitAt_replicate_false] at this
    rw [this]
    unfold combZ
    rw [← List.map_uncurry_zip_eq_zipWith]
    rfl)
  rw [← hS] at hb
  obtain ⟨z, hz, rfl⟩ := List.mem_map.mp hb
  exact hall z hz

/-- The number of vectors returned by `kernel_gauss` is the number of columns minus the rank of
the matrix (Mathlib's `Matrix.rank` over `ZMod 2`): the returned family is a basis of the kernel. -/
theorem gauss_count (size : Nat) (M : List BVec) (hR : Rect size M) (K : List BVec)
    (h : kernelGauss M = some K) : K.length = M.length - (matZ size M).rank := by
  have := kernelGauss_count hR h
  omega

/-- `qs_optimize` denotes the same matrix: for every block `y` the product computed from the
optimised representation (dense 64-row block + coordinate list, in ANY order of the coordinate
list) equals the plain sparse product `&SparseMat * &Block`, including the cases where both
panic (block of the wrong length). Domain: a well-formed sparse matrix (row indices `< k`) with
at least 64 rows (with fewer rows the optimised product indexes out of range, see
`optMul_few_rows`) and fewer than 2^32 rows and columns (the coordinates are stored as `u32`). -/
theorem qs_optimize_same_matrix (k : Nat) (cols : List (List Nat)) (y : List Nat)
    (hk64 : 64 ≤ k) (hk : k ≤ 2 ^ 32) (hn : cols.length ≤ 2 ^ 32)
    (hwf : ∀ col ∈ cols, ∀ a ∈ col, a < k) :
    optMul (qsOptimize k cols) y = spMul k cols y ∧
    ∀ xy', (qsOptimize k cols).xy.Perm xy' →
      optMul { qsOptimize k cols with xy := xy' } y = spMul k cols y := by
  have h := optMul_eq_spMul k cols y hk64 hk hn hwf
  exact ⟨h, fun xy' hp => by rw [optMul_perm _ _ _ hp, h]⟩

/-- The block product `&Block * &Block` as the code computes it (rotation trick: `m[r] ^= x &
y.rotate_right(r)` over the rows, `SmallMat::transpose`, row `r` rotated left by `r`) is the
bilinear product `out[i] = xor of the y-words whose x-word has bit i`, for all blocks of 64-bit
words of any length (both refuse blocks of different lengths). `optMul` uses the latter form. -/
theorem block_product_rotation (x y : List Nat) (hy : ∀ w ∈ y, w < 2 ^ 64) :
    blockDotRot x y = blockDot x y :=
  blockDotRot_eq x y hy

/-- With fewer than 64 rows `impl Mul<&Block> for &SparseMatOpt` panics (`out.0[i] = dense.0[i]`
for `i < 64` indexes out of range), whatever the matrix: `kernel_lanczos` needs 64 rows. -/
theorem optMul_few_rows (k : Nat) (cols : List (List Nat)) (y : List Nat) (hk : k < 64) :
    optMul (qsOptimize k cols) y = none := by
  cases h : optMul (qsOptimize k cols) y with
  | none => rfl
  | some blk => have := (optMul_some_inv k cols y blk h).2; omega

/-- Final stage of `kernel_lanczos` (B·Y, `kernel_gauss` on its bit columns, Y·K, removal of the
null vectors), for EVERY block `y` — the randomised Lanczos iteration is an arbitrary producer of
`y`: each returned vector has one entry per column, is non-zero, and is annihilated by `B`
(`B · v = 0` with `B` the dense form of the sparse matrix). Domain: row indices `< k`, fewer than
2^32 rows and columns (`u32` coordinates). -/
theorem lanczos_final (k : Nat) (cols : List (List Nat)) (y : List Nat) (basis : List BVec)
    (hk : k ≤ 2 ^ 32) (hn : cols.length ≤ 2 ^ 32) (hwf : ∀ col ∈ cols, ∀ a ∈ col, a < k)
    (h : lanczosFinal k cols y = some basis) :
    ∀ v ∈ basis, v.length = cols.length ∧ isZero v = false ∧
      mulVec k (denseOfSparse k cols) v = List.replicate k false :=
  lanczosFinal_spec k cols y basis hk hn hwf h

/-- The final stage does not panic when the matrix is well formed, has at least 64 rows and the
block has one word per column. -/
theorem lanczos_final_total (k : Nat) (cols : List (List Nat)) (y : List Nat) (hk64 : 64 ≤ k)
    (hk : k ≤ 2 ^ 32) (hn : cols.length ≤ 2 ^ 32) (hy : y.length = cols.length)
    (hwf : ∀ col ∈ cols, ∀ a ∈ col, a < k) : ∃ basis, lanczosFinal k cols y = some basis := by
  obtain ⟨blk, ho, _, _⟩ := optMul_spec k cols y hk64 hk hn hy hwf
  obtain ⟨ker, hg⟩ := gauss_total blk.length (byBits blk) (rect_byBits blk)
  exact ⟨popNull ker.length (ker.map (fun kv => y.map (fun w => dotBits w kv))),
    by simp only [lanczosFinal, ho, hg]⟩

/-! ### non-vacuity: a concrete 3×4 matrix (columns 110, 011, 101, 111) and a concrete sparse matrix -/

/-- columns (1,1,0), (0,1,1), (1,0,1), (1,1,1): rank 3, kernel spanned by (1,1,1,0) -/
def M34 : List BVec :=
  [[true, true, false], [false, true, true], [true, false, true], [true, true, true]]

theorem rect_M34 : Rect 3 M34 := by
  intro c hc
  simp only [M34, List.mem_cons, List.not_mem_nil, or_false] at hc
  rcases hc with rfl | rfl | rfl | rfl <;> rfl

theorem kernelGauss_M34 : kernelGauss M34 = some [[true, true, true, false]] := by decide

example : Reach 3 M34 [] (initCols M34.length 0 M34) := Reach.init
example : Reach 3 M34 [{ z := 0, coef := [false, true, false, false], col := [false, true, true] }]
    [{ z := 1, coef := [true, false, false, false], col := [true, true, false] },
     { z := 1, coef := [false, true, true, false], col := [true, true, false] },
     { z := 2, coef := [false, true, false, true], col := [true, false, false] }] :=
  Reach.step Reach.init (by rfl)
example : ∃ K, kernelGauss M34 = some K ∧ K ≠ [] := ⟨_, kernelGauss_M34, by simp⟩
example : mulVec 3 M34 [true, true, true, false] = List.replicate 3 false := by decide
example : (matZ 3 M34).rank = 3 := by
  have h2 := kernelGauss_count rect_M34 kernelGauss_M34
  have h4 : M34.length = 4 := rfl
  have h1 : ([[true, true, true, false]] : List BVec).length = 1 := rfl
  omega

/-- 64 rows, two equal columns `e0`; block `y = (1, 1)`: the final stage returns `(1, 1)` -/
example : lanczosFinal 64 [[0], [0]] [1, 1] = some [[true, true]] := by decide +kernel
example : (64 : Nat) ≤ 2 ^ 32 ∧ ([[0], [0]] : List (List Nat)).length ≤ 2 ^ 32 ∧
    ∀ col ∈ ([[0], [0]] : List (List Nat)), ∀ a ∈ col, a < 64 := by decide
example : blockDotRot [3, 1] [5, 2] = some ([7, 5] ++ List.replicate 62 0) := by decide +kernel
example : optMul (qsOptimize 70 [[0, 65, 3, 3, 3], [64], []]) [1, 2, 4] = spMul 70 [[0, 65, 3, 3, 3], [64], []] [1, 2, 4] ∧
    optMul (qsOptimize 70 [[0, 65, 3, 3, 3], [64], []]) [1, 2, 4] ≠ none := by decide +kernel

end Ymq.C14
