/-
Checked machine arithmetic used by the generated parameter models (Ymq/Gen/Params.lean,
Ymq/Gen/Stage2.lean).  Import-free: linked into the native driver.

Values are `Nat`; an operation returns `none` exactly where the Rust expression would not
produce its mathematical value in the type it is computed in:

* `cadd w`, `cmul w`  : result ≥ 2^w  (overflow: panic in the checked profile, wrap in release);
* `csub`              : negative result (same);
* `cdiv`, `cmod`      : division by zero (panic in both profiles);
* `cshl w a s`        : s ≥ w (panic in the checked profile) **or** a·2^s ≥ 2^w.  The second case
                        is stricter than Rust, which silently drops the high bits in both
                        profiles: a parameter formula that loses bits is treated as a failure.
                        The C20 theorems show that it never happens on the domain, and the
                        correspondence run would show a disagreement if it did;
* `cshr w a s`        : s ≥ w;
* `ccast w a`         : a ≥ 2^w on a narrowing `as` cast (again stricter than Rust, which truncates).

Signed types (`i64`, `i32`) are modelled by their non-negative half: width 63 resp. 31.
-/
namespace Ymq.Checked

def cadd (w a b : Nat) : Option Nat := if a + b < 2 ^ w then some (a + b) else none
def csub (a b : Nat) : Option Nat := if b ≤ a then some (a - b) else none
def cmul (w a b : Nat) : Option Nat := if a * b < 2 ^ w then some (a * b) else none
def cdiv (a b : Nat) : Option Nat := if b = 0 then none else some (a / b)
def cmod (a b : Nat) : Option Nat := if b = 0 then none else some (a % b)
def cshl (w a s : Nat) : Option Nat :=
  if s < w ∧ a * 2 ^ s < 2 ^ w then some (a * 2 ^ s) else none
def cshr (w a s : Nat) : Option Nat := if s < w then some (a / 2 ^ s) else none
def ccast (w a : Nat) : Option Nat := if a < 2 ^ w then some a else none

/-- bit length: `T::BITS - x.leading_zeros()` -/
def bitlen (n : Nat) : Nat := if n = 0 then 0 else Nat.log2 n + 1

/-- `x.leading_zeros()` for a `w`-bit `x` -/
def clz (w n : Nat) : Nat := w - bitlen n

/-- binary-search integer square root: after the loop on bits `k-1 .. 0`,
`r² ≤ n < (r+1)²` whenever `n < 4^k` (spec: `Ymq.Checked.isqrt_spec`). -/
def isqrtAux : Nat → Nat → Nat → Nat
  | 0, r, _ => r
  | k + 1, r, n => if (r + 2 ^ k) * (r + 2 ^ k) ≤ n then isqrtAux k (r + 2 ^ k) n else isqrtAux k r n

/-- `⌊√n⌋` for `n < 2^64`. -/
def isqrt (n : Nat) : Nat := isqrtAux 32 0 n

/-- `(x as f64).sqrt() as uN` for an integer `x`.
`x as f64` is exact below 2^53 and IEEE-754 `sqrt` is correctly rounded.  Let `r = ⌊√x⌋`.  If `x`
is a perfect square the result is exactly `r`.  Otherwise `√x ≤ √((r+1)² - 1) < r + 1 - 1/(2r+2)`,
while the spacing of doubles just below `r + 1 ≤ 2^27` is at most `2^-26`; rounding `√x` up to
`r + 1` would need `1/(2r+2) ≤ 2^-27`, i.e. `r + 1 ≥ 2^26`, i.e. `x ≥ 2^52 - 2^27`.  The arguments
that occur are `256·(bits + 40) < 2^18` (a margin of more than ten orders of magnitude), and the
`as uN` cast truncates, so the value is `⌊√x⌋ = isqrt x` (`isqrt_spec`).  Arguments `≥ 2^53` are
refused.  The equality with the real code is checked for every size by the correspondence run. -/
def csqrtF64 (x : Nat) : Option Nat := if x < 2 ^ 53 then some (isqrt x) else none

/-- square-and-multiply `a^e mod m`, `e < 2^fuel` (spec: `Ymq.Checked.powmod_eq`). -/
def powmodAux : Nat → Nat → Nat → Nat → Nat → Nat
  | 0, acc, _, _, _ => acc
  | f + 1, acc, b, e, m =>
    if e = 0 then acc
    else powmodAux f (if e % 2 = 1 then acc * b % m else acc) (b * b % m) (e / 2) m

def powmod (a e m : Nat) : Nat := powmodAux 64 (1 % m) (a % m) e m

/-- `slice.partition_point(pred)` for a slice that is partitioned by `pred` (all `true` before all
`false`): the length of the longest prefix satisfying `pred`.  That the tables are partitioned
(keys strictly increasing) is itself a C20 theorem. -/
def partitionPoint {α} (p : α → Bool) : List α → Nat
  | [] => 0
  | x :: xs => if p x then 1 + partitionPoint p xs else 0

/-- `iter().min_by(|x, y| (x.0 - b2).abs().total_cmp(&(y.0 - b2).abs()))` for `b2 = num/den`,
`den > 0`, on rows with integral first component: the first row minimising `|row.0·den − num|`
(`Iterator::min_by` keeps the earlier element on ties). -/
def absDiff (a b : Nat) : Nat := if a ≤ b then b - a else a - b

def nearestAux (num den : Nat) : (Nat × Nat × Nat) → List (Nat × Nat × Nat) → (Nat × Nat × Nat)
  | best, [] => best
  | best, r :: rs =>
    if absDiff (r.1 * den) num < absDiff (best.1 * den) num then nearestAux num den r rs
    else nearestAux num den best rs

def nearestRow (table : List (Nat × Nat × Nat)) (num den : Nat) : Option (Nat × Nat × Nat) :=
  match table with
  | [] => none                       -- `.unwrap()` of `None`
  | r :: rs => some (nearestAux num den r rs)

/-- `o` is a value and the value satisfies `p` ("the Rust expression does not fail and ..."). -/
def Holds {α} (o : Option α) (p : α → Prop) : Prop := ∃ a, o = some a ∧ p a

instance {α} (o : Option α) (p : α → Prop) [DecidablePred p] : Decidable (Holds o p) :=
  match o with
  | none => isFalse (fun ⟨_, h, _⟩ => by cases h)
  | some a =>
    if h : p a then isTrue ⟨a, rfl, h⟩
    else isFalse (fun ⟨b, hb, hp⟩ => by cases hb; exact h hp)

theorem Holds.elim {α} {o : Option α} {p : α → Prop} (h : Holds o p) : ∃ a, o = some a ∧ p a := h

end Ymq.Checked
