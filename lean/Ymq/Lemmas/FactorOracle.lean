/-
The oracle contract `OracleOK` under which the exact product / totality theorems of the
`Factor` model are proved, and the notion `IsSplit o n L` ("the list of recursive-call arguments
`L` was produced for `n` by one of the splitting sub-algorithms").
-/
import Ymq.Lemmas.FactorStep
import Mathlib.Algebra.BigOperators.Group.List.Lemmas

namespace Ymq.Factor

variable {σ : Type}

/-- contract of a split `(a_s, b)` returned for `n`: the parts multiply to `n` and every part is
a proper part. (Hence every part is `≥ 1` and divides `n`; `b = 1` is allowed: `pm1_impl` returns
`nred = 1` when the listed factors already multiply to `n`, pollard_pm1.rs:436. A part equal to 1
is harmless: `factor_impl` returns at once on 1.) -/
def SplitOK (n : Nat) (as : List Nat) (b : Nat) : Prop :=
  as.prod * b = n ∧ (∀ a ∈ as, a < n) ∧ b < n

/-- contract of a two-way split `(a, b)` returned for `n` -/
def PairOK (n a b : Nat) : Prop := a * b = n ∧ 2 ≤ a ∧ 2 ≤ b

/-- What the control flow of `factor_impl` needs from the sub-algorithms, for every oracle state
and every argument `n ≥ 2`. This is the *weakest* contract used by the proofs; the real
functions are meant to satisfy it:
* `pp` = `arith::perfect_power`: returns `(p, k)` only with `p^k = n`, `k ≥ 2`;
* `rho` = `pollard_rho::rho`: returns `([p], n / p)` with `p = gcd(n, ·)`, `1 < p < n`
  (pollard_rho.rs:86-111, 142-147);
* `pm1q`/`pm1` = `pollard_pm1::pm1_quick/pm1_only` → `pm1_impl`: the listed factors are quotients
  of nested gcds with `n` (`gcd_factors`), the list is non-empty, never contains `n` itself
  (`fs.contains(n)` check, pollard_pm1.rs:425) and `nred = n / ∏ factors`;
* `ecmauto/ecm/ecm128/qs64/squfof`: `(a, b)` with `a * b = n`, both proper;
* `sieve` = `qsieve/mpqs/siqs`: every reported divisor divides `n` (gcds with `n`,
  relations.rs `try_factor`), `UnexpectedFactor(d)` is a factor-base prime dividing the composite `n`.
Where the real guarantee is established: properties C11 (sieve divisors are gcds with n) and
C16 (P-1 / ECM outputs); `rho`, `squfof`, `qs64`, `perfect_power` by the K/O streams of C01.
There is NO condition on `prime` and on `abort`: they are arbitrary stateful functions. -/
structure OracleOK (o : Oracle σ) : Prop where
  pp : ∀ s n p k, 2 ≤ n → (o.pp s n).1 = some (p, k) → p ^ k = n ∧ 2 ≤ k ∧ 2 ≤ p
  rho : ∀ s n as b, 2 ≤ n → (o.rho s n).1 = some (as, b) → SplitOK n as b
  pm1q : ∀ s n as b, 2 ≤ n → (o.pm1q s n).1 = some (as, b) → SplitOK n as b
  pm1 : ∀ s n as b, 2 ≤ n → (o.pm1 s n).1 = some (as, b) → SplitOK n as b
  ecmauto : ∀ s n a b, 2 ≤ n → (o.ecmauto s n).1 = some (a, b) → PairOK n a b
  ecm : ∀ s n a b, 2 ≤ n → (o.ecm s n).1 = some (a, b) → PairOK n a b
  ecm128 : ∀ s n a b, 2 ≤ n → (o.ecm128 s n).1 = some (a, b) → PairOK n a b
  qs64 : ∀ s n a b, 2 ≤ n → (o.qs64 s n).1 = some (a, b) → PairOK n a b
  squfof : ∀ s n a b, 2 ≤ n → (o.squfof s n).1 = some (a, b) → PairOK n a b
  sieveDivs : ∀ s alg n ds, 2 ≤ n → (o.sieve s alg n).1 = .divs ds → ∀ d ∈ ds, d ∣ n ∧ 0 < d
  sieveUnexpected : ∀ s alg n d, 2 ≤ n → (o.sieve s alg n).1 = .unexpected d →
    d ∣ n ∧ 2 ≤ d ∧ d < n

/-- `L` is the list of arguments of the recursive calls made for `n` after one of the splitting
sub-algorithms succeeded (in call order). -/
inductive IsSplit (o : Oracle σ) (n : Nat) : List Nat → Prop
  | rho (t : σ) (as : List Nat) (b : Nat) : (o.rho t n).1 = some (as, b) → IsSplit o n (as ++ [b])
  | pm1q (t : σ) (as : List Nat) (b : Nat) : (o.pm1q t n).1 = some (as, b) → IsSplit o n (as ++ [b])
  | pm1 (t : σ) (as : List Nat) (b : Nat) : (o.pm1 t n).1 = some (as, b) → IsSplit o n (as ++ [b])
  | ecmauto (t : σ) (a b : Nat) : (o.ecmauto t n).1 = some (a, b) → IsSplit o n [a, b]
  | ecm (t : σ) (a b : Nat) : (o.ecm t n).1 = some (a, b) → IsSplit o n [a, b]
  | ecm128 (t : σ) (a b : Nat) : (o.ecm128 t n).1 = some (a, b) → IsSplit o n [a, b]
  | qs64 (t : σ) (a b : Nat) : (o.qs64 t n).1 = some (a, b) → IsSplit o n [a, b]
  | squfof (t : σ) (a b : Nat) : (o.squfof t n).1 = some (a, b) → IsSplit o n [a, b]
  | unexpected (t : σ) (alg : Algo) (d : Nat) : (o.sieve t alg n).1 = .unexpected d → d ≠ 0 →
      IsSplit o n [d, n / d]

theorem SplitOK.list {n : Nat} {as : List Nat} {b : Nat} (h : SplitOK n as b) :
    (as ++ [b]).prod = n ∧ ∀ m ∈ as ++ [b], m < n := by
  obtain ⟨h1, h2, h3⟩ := h
  refine ⟨by simpa using h1, ?_⟩
  intro m hm
  rcases List.mem_append.mp hm with hm | hm
  · exact h2 m hm
  · simp at hm; omega

theorem PairOK.list {n a b : Nat} (h : PairOK n a b) :
    [a, b].prod = n ∧ ∀ m ∈ [a, b], m < n := by
  obtain ⟨h1, h2, h3⟩ := h
  refine ⟨by simpa using h1, ?_⟩
  intro m hm
  simp at hm
  rcases hm with rfl | rfl
  · subst h1; exact (Nat.lt_mul_iff_one_lt_right (by omega)).mpr (by omega)
  · subst h1; exact (Nat.lt_mul_iff_one_lt_left (by omega)).mpr (by omega)

/-- Under the contract a split of `n ≥ 2` multiplies back to `n` and has only proper parts. -/
theorem IsSplit.ok {o : Oracle σ} (hok : OracleOK o) {n : Nat} (hn : 2 ≤ n) {L : List Nat}
    (h : IsSplit o n L) : L.prod = n ∧ ∀ m ∈ L, m < n := by
  cases h with
  | rho t as b h => exact (hok.rho t n as b hn h).list
  | pm1q t as b h => exact (hok.pm1q t n as b hn h).list
  | pm1 t as b h => exact (hok.pm1 t n as b hn h).list
  | ecmauto t a b h => exact (hok.ecmauto t n a b hn h).list
  | ecm t a b h => exact (hok.ecm t n a b hn h).list
  | ecm128 t a b h => exact (hok.ecm128 t n a b hn h).list
  | qs64 t a b h => exact (hok.qs64 t n a b hn h).list
  | squfof t a b h => exact (hok.squfof t n a b hn h).list
  | unexpected t alg d h hd =>
    obtain ⟨h1, h2, h3⟩ := hok.sieveUnexpected t alg n d hn h
    have hmul : d * (n / d) = n := Nat.mul_div_cancel' h1
    exact (show PairOK n d (n / d) from ⟨hmul, h2, by
      rcases Nat.lt_or_ge (n / d) 2 with h4 | h4
      · have : n / d ≤ 1 := by omega
        have : d * (n / d) ≤ d * 1 := Nat.mul_le_mul_left d this
        omega
      · exact h4⟩).list

/-- parts of a split are positive and divide `n` -/
theorem IsSplit.parts {o : Oracle σ} (hok : OracleOK o) {n : Nat} (hn : 2 ≤ n) {L : List Nat}
    (h : IsSplit o n L) : ∀ m ∈ L, 1 ≤ m ∧ m ∣ n ∧ m < n := by
  obtain ⟨hp, hlt⟩ := h.ok hok hn
  intro m hm
  have hd : m ∣ n := hp ▸ List.dvd_prod hm
  refine ⟨?_, hd, hlt m hm⟩
  rcases Nat.eq_zero_or_pos m with h0 | h0
  · subst h0; have := Nat.eq_zero_of_zero_dvd hd; omega
  · exact h0

end Ymq.Factor
