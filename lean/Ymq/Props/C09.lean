/-
C09 — multiprecision gcd and modular inverse are exact, with valid Bezout cofactors.
Only property theorems live here (helper lemmas: Ymq/Lemmas/Gcd*.lean).
The model (Ymq/Model/Gcd.lean) returns `none` wherever the real code panics in the checked
profile (overflow of i64 / BUint / BInt arithmetic, index out of range, assertion) or where the
fuel of a loop runs out.
-/
import Ymq.Lemmas.GcdLoop
import Ymq.Lemmas.GcdReduceInv
import Ymq.Lemmas.GcdTerm
import Ymq.Lemmas.GcdOne
import Ymq.Lemmas.GcdInv
import Ymq.Lemmas.GcdTotal

namespace Ymq.C09
open Ymq.Gcd

/-- a unimodular integer matrix applied to `(x, y)` preserves the gcd (one Lehmer step, one
quotient step: every step of `gcd_internal` has this shape). -/
theorem step_gcd (a b c d : Int) (x y : Nat) (hdet : a * d - b * c = 1 ∨ a * d - b * c = -1) :
    Nat.gcd (a * x + b * y).natAbs (c * x + d * y).natAbs = Nat.gcd x y :=
  nat_gcd_unimodular a b c d x y hdet

example : (2 : Int) * 3 - 5 * 1 = 1 ∧
    Nat.gcd ((2 : Int) * (12 : Nat) + 5 * (18 : Nat)).natAbs ((1 : Int) * (12 : Nat) + 3 * (18 : Nat)).natAbs
      = Nat.gcd 12 18 := by decide

/-- `reduce64(x, y)` for **all** pairs of 64-bit words (no precondition is needed): no panic (no i64
overflow, no failing debug assertion, the loop ends within 70 iterations), the returned matrix
satisfies `a x + b y = u`, `c x + d y = v` for the final `(u, v)` of the loop, which are not larger
than the inputs, `a d - b c = ±1`, and every entry is bounded by `2^36` in absolute value (the
code's debug assertions; in fact the bound is strict). -/
theorem reduce64_inv (x y : Nat) (hx : x < 2 ^ 64) (hy : y < 2 ^ 64) :
    ∃ (a b c d : Int) (u v : Nat), reduce64 x y = some (a, b, c, d) ∧
      a * x + b * y = u ∧ c * x + d * y = v ∧ u ≤ max x y ∧ v ≤ max x y ∧
      (a * d - b * c = 1 ∨ a * d - b * c = -1) ∧
      a.natAbs ≤ 2 ^ 36 ∧ b.natAbs ≤ 2 ^ 36 ∧ c.natAbs ≤ 2 ^ 36 ∧ d.natAbs ≤ 2 ^ 36 := by
  obtain ⟨a, b, c, d, u, v, hr, hinv, _⟩ := reduce64_spec x y (by rw [W_eq]; exact hx) (by rw [W_eq]; exact hy)
  refine ⟨a, b, c, d, u, v, hr, hinv.relu, hinv.relv, ?_, ?_, hinv.det, ?_, ?_, ?_, ?_⟩
  · rcases hinv.phase with ⟨_, _, _, _, rfl, rfl⟩ | ⟨_, _, _, _, rfl, rfl, _⟩ | ⟨h1, h2⟩ <;> omega
  · rcases hinv.phase with ⟨_, _, _, _, rfl, rfl⟩ | ⟨_, _, _, _, rfl, rfl, _⟩ | ⟨h1, h2⟩ <;> omega
  all_goals
    first
    | (have h := hinv.ba; rw [Int.abs_eq_natAbs] at h; omega)
    | (have h := hinv.bb; rw [Int.abs_eq_natAbs] at h; omega)
    | (have h := hinv.bc; rw [Int.abs_eq_natAbs] at h; omega)
    | (have h := hinv.bd; rw [Int.abs_eq_natAbs] at h; omega)

example : reduce64 18446744073709551615 12345678901234567 =
    some (-3133215, 4681606876, 11521471, -17215223933) := by decide +kernel

/-- `gcd_internal::<N, EXT>` (partial correctness, all operands, every fuel): whenever the loop
returns, `d = gcd(n, p)` and, in the extended variant, `u*n + v*p = d` over the integers.
No bound on the operands is needed: every arithmetic overflow is a panic site of the model, and the
only silent wrap (`BInt::cast_from(q)` of a quotient `>= 2^(64N-1)`) can only happen when `y = 1`,
where the wrapped row has value 0 and is never used.
(`gcdLoop N K` : `K` = width of the `BInt` cofactors, the real code is `K = N`, and
`gcdInternal N ext n p = gcdLoop N N ext (gcdFuel N) (initSt n p)`.) -/
theorem gcd_internal_spec (N : Nat) (hN : 0 < N) (ext : Bool) (fuel n p d : Nat) (u v : Int)
    (h : gcdLoop N N ext fuel (initSt n p) = some (d, u, v)) :
    d = Nat.gcd n p ∧ (ext = true → u * n + v * p = d) :=
  gcdLoop_spec hN fuel _ d u v h (GInv_init ext n p)

example : gcdLoop 16 16 true 10 (initSt 1234567890123456789012345678901234567890
      9876543210987654321098765432109876543210) = some (90000000009000000000900000000090, -8, 1) := by
  decide +kernel

/-- termination of `gcd_internal` with an explicit fuel bound: for operands that are values of
`BUint<N>`, running the loop with more than `3 (bits n + bits p) + 1` units of fuel gives the same
result as running it with exactly that much — so with that fuel (and with the fuel
`gcdFuel N = 384 N + 3` used by `gcdInternal`, which is larger) the model never returns `none` for
lack of fuel: `none` can only be a panic site. Reason: every iteration that continues shrinks the
product `x * y` by a factor `3/4` at least (quotient steps: `1/2`; Lehmer steps: analysis of
`reduce64` on the top words). -/
theorem gcd_terminates (N : Nat) (ext : Bool) (n p : Nat) (hn : n < 2 ^ (64 * N)) (hp : p < 2 ^ (64 * N))
    (f : Nat) (hf : 3 * (bits n + bits p) + 1 ≤ f) :
    gcdLoop N N ext f (initSt n p) = gcdLoop N N ext (3 * (bits n + bits p) + 1) (initSt n p) ∧
    3 * (bits n + bits p) + 1 ≤ gcdFuel N :=
  ⟨gcdLoop_fuel hn hp f hf, gcdFuel_ge hn hp⟩

example : (12345678901234567890 : Nat) < 2 ^ (64 * 4) ∧ 3 * (bits 12345678901234567890 + bits 987654321) + 1 = 283 ∧
    gcdFuel 4 = 1539 := by decide +kernel

/-- `big_gcd::<N>` returns the gcd (including zero operands) whenever it returns. -/
theorem big_gcd_spec (N : Nat) (hN : 0 < N) (n p d : Nat) (h : bigGcd N n p = some d) :
    d = Nat.gcd n p := by
  unfold bigGcd at h
  split at h
  · rename_i hp; simp at h; subst h; subst hp; simp
  · split at h
    · rename_i hn; simp at h; subst h; subst hn; simp
    · split at h
      · simp at h
      · rename_i d' u v hg
        simp at h; subst h
        exact (gcd_internal_spec N hN false _ n p _ u v hg).1

example : bigGcd 8 (2 ^ 300 * 3) (2 ^ 200 * 9) = some (2 ^ 200 * 3) := by decide +kernel

/-- `mulword::<N>(w, sz, n)`: the index `nd[sz]` (and `nd[i]`, `i < sz`) is in range and the result
is the exact product whenever `sz <= N`, the operand fits in its `sz` low words and either a free
word is left for the carry (`sz < N`) or the product fits in `sz` words — the situation of
`dot_product` inside `gcd_internal`, where `n < 2^bits`, `w < 2^36`, `bits + 36 < 64 N`. -/
theorem mulword_no_panic (N w sz n : Nat) (hsz : sz ≤ N) (hn : n < (2 ^ 64) ^ sz)
    (h : sz < N ∨ n * w < (2 ^ 64) ^ sz) : mulword N w sz n = some (w * n) := by
  rw [← W_eq] at hn h
  obtain ⟨r, hr⟩ := mulword_total (N := N) (w := w) hsz hn h
  rw [hr, mulword_some hr hn]

example : mulword 2 5 2 (2 ^ 100) = some (5 * 2 ^ 100) ∧ mulword 2 (2 ^ 40) 2 (2 ^ 100) = none := by
  decide +kernel

/-- `no_panic`, partial: **proved** for the non-extended variant on the whole of `BUint<N>`
(`big_gcd`, hence `ZmodN::gcd`), including operands within 36 bits of the type width (quotient
fallback), operands with a small top word, the `mulword` index, the `BUint` addition in
`dot_product`, every i64 operation and debug assertion of `reduce64`, `top64`, and fuel: `big_gcd`
returns, and what it returns is the gcd.
See `no_panic_ext_partial` for what is proved about the extended variant.
**Missing** for the full statement (extended variant `gcd_internal::<N, true>` / `inv_mod` on
operands of at most `64 N - 12` bits): a bound on the `BInt<N>` cofactors `biga..bigd` showing that
their range checks cannot fail. The loop's `(x, y)` evolution, `reduce64`, `dot_product`, `mulword`
and `top64` are covered by `reduce64_inv`, `mulword_no_panic` and the lemmas behind this theorem
for both variants; the cofactor range is covered by the differential runs only (no panic observed up
to 1012 / 500 bits; a 511-bit modulus in the 512-bit instantiation does overflow `BInt<8>` in the
checked profile, see corpus/C09). -/
theorem no_panic_partial (N : Nat) (hN : 0 < N) (n p : Nat) (hn : n < 2 ^ (64 * N)) (hp : p < 2 ^ (64 * N)) :
    bigGcd N n p = some (Nat.gcd n p) := by
  have hd : ∃ d, bigGcd N n p = some d := by
    unfold bigGcd
    split
    · exact ⟨_, rfl⟩
    · split
      · exact ⟨_, rfl⟩
      · obtain ⟨⟨d, u, v⟩, hr⟩ := gcdInternal_noext_total (N := N) hn hp
        rw [hr]; exact ⟨_, rfl⟩
  obtain ⟨d, hd⟩ := hd
  rw [hd, big_gcd_spec N hN n p d hd]

example : ((2 ^ 1018 + 12345) * 35 : Nat) < 2 ^ (64 * 16) ∧ bigGcd 16 ((2 ^ 1018 + 12345) * 35) ((2 ^ 1000 + 15) * 35) = some 35 := by
  decide +kernel

/-- `no_panic` for the extended variant, partial. The model's loop takes the width `K` (in words)
of the `BInt` cofactors as a separate parameter; the real code is the instance `K = N`
(`gcdInternal N ext n p = gcdLoop N N ext (gcdFuel N) (initSt n p)`). **Proved**: for every pair of
`BUint<N>` operands there is a cofactor width `K` for which `gcd_internal::<N, true>` returns (and
returns the gcd with valid Bezout cofactors) — i.e. no panic site other than the `BInt` range checks
on `biga..bigd` is reachable in the extended variant either: not the `mulword` index, not the
`BUint` addition/multiplication/subtraction, not `top64`, not `reduce64`, not the i64
`extended_gcd` of the final step, not lack of fuel; this includes operands within 36 bits of the
type width. **Missing**: that `K = N` suffices for operands of at most `64 N - 12` bits (a bound
`|cofactor| <= c * max(n, p)`); this is covered by the differential runs only. -/
theorem no_panic_ext_partial (N : Nat) (hN : 0 < N) (n p : Nat) (hn : n < 2 ^ (64 * N)) (hp : p < 2 ^ (64 * N)) :
    ∃ (K d : Nat) (u v : Int), gcdLoop N K true (gcdFuel N) (initSt n p) = some (d, u, v) ∧
      d = Nat.gcd n p ∧ u * n + v * p = d := by
  obtain ⟨K, ⟨d, u, v⟩, hr⟩ := gcdLoop_ext_exists hN (n := n) (p := p) hn hp
  obtain ⟨h1, h2⟩ := gcdLoop_spec hN _ _ d u v hr (GInv_init true n p)
  exact ⟨K, d, u, v, hr, h1, h2 rfl⟩

example : gcdInternal 4 true 1234567890123456789012345678901234567890 987654321098765432109876543210 =
    gcdLoop 4 4 true (gcdFuel 4) (initSt 1234567890123456789012345678901234567890 987654321098765432109876543210) :=
  rfl

/-- `inv_mod::<N>(n, p)` for every `n` and every modulus `p` (`p = 0` is refused by the assertion:
the model returns `none`): whenever it returns,
* `Ok(x)`: `x < p` and `n * x ≡ 1 (mod p)` (for `p = 1` this reads `x = 0`);
* `Err(d)`: `d = gcd(n, p)` and `d ≠ 1` (for `n = 0`, `p ≠ 1` the gcd is `p`).
On the pinned tree `inv_mod(0, 1)` returned `Err(1)`, violating the second clause (and the doc
comment "Err(gcd) if gcd > 1"); repaired by the `fix:` commit 370d025 in /repo, which the model
follows. The case `p = 1`, `n > 0` needs the sign of the cofactor: `gcdLoop_one_nonneg`. -/
theorem inv_mod_spec (N : Nat) (hN : 0 < N) (n p : Nat) (r : InvRes)
    (h : invMod N n p = some r) :
    match r with
    | .ok x => x < p ∧ n * x % p = 1 % p
    | .err d => d = Nat.gcd n p ∧ d ≠ 1 := by
  by_cases hp2 : 2 ≤ p
  · exact invMod_spec_ge2 N hN n p hp2 r h
  · have hp : p = 0 ∨ p = 1 := by omega
    rcases hp with rfl | rfl
    · simp [invMod] at h
    · unfold invMod at h
      rw [if_neg (by omega)] at h
      split at h
      · simp at h; subst h; simp
      · rename_i hn0
        split at h
        · simp at h
        · rename_i d u v hg
          have hd := (gcdLoop_spec hN _ _ d u v hg (GInv_init true n 1)).1
          have hu := gcdLoop_one_nonneg hN (Nat.pos_of_ne_zero hn0) _ d u v hg
          rw [Nat.gcd_one_right] at hd
          rw [if_neg (by omega), if_neg (by omega)] at h
          simp at h; subst h
          simp [Nat.mod_one]

example : invMod 8 3 7 = some (.ok 5) ∧ invMod 8 6 9 = some (.err 3) ∧ invMod 8 0 9 = some (.err 9) ∧
    invMod 8 0 1 = some (.ok 0) ∧ invMod 8 5 1 = some (.ok 0) := by
  decide +kernel

end Ymq.C09
