/-
φ(d1) from a checked prime factorisation (the translator emits the factorisation of every d1
of the stage-2 tables; nothing about it is trusted: `okFactors` re-checks it).
-/
import Mathlib.Data.Nat.Totient
import Mathlib.Tactic.NormNum.Prime

namespace Ymq.Stage2

def valOf : List (Nat × Nat) → Nat
  | [] => 1
  | (p, e) :: t => p ^ e * valOf t

def phiOf : List (Nat × Nat) → Nat
  | [] => 1
  | (p, e) :: t => p ^ (e - 1) * (p - 1) * phiOf t

def smallPrimes : List Nat := [2, 3, 5, 7, 11, 13, 17, 19, 23, 29, 31, 37, 41, 43, 47]

theorem smallPrimes_prime : ∀ p ∈ smallPrimes, Nat.Prime p := by
  intro p hp
  simp only [smallPrimes, List.mem_cons, List.not_mem_nil, or_false] at hp
  rcases hp with rfl | rfl | rfl | rfl | rfl | rfl | rfl | rfl | rfl | rfl | rfl | rfl | rfl | rfl | rfl <;> norm_num

/-- every base is a listed small prime, every exponent positive, every prime power coprime to the rest -/
def okFactors : List (Nat × Nat) → Bool
  | [] => true
  | (p, e) :: t => smallPrimes.contains p && decide (0 < e) && Nat.gcd (p ^ e) (valOf t) == 1 && okFactors t

theorem totient_valOf : ∀ (l : List (Nat × Nat)), okFactors l = true → Nat.totient (valOf l) = phiOf l
  | [], _ => by simp [valOf, phiOf]
  | (p, e) :: t, h => by
    simp only [okFactors, Bool.and_eq_true, List.contains_iff_mem, decide_eq_true_eq, beq_iff_eq] at h
    obtain ⟨⟨⟨hp, he⟩, hc⟩, ht⟩ := h
    have hpp := smallPrimes_prime p hp
    rw [valOf, phiOf, Nat.totient_mul hc, Nat.totient_prime_pow hpp he, totient_valOf t ht]

/-- a prime dividing `valOf l` is one of the bases -/
theorem prime_dvd_valOf {q : Nat} (hq : Nat.Prime q) : ∀ (l : List (Nat × Nat)), okFactors l = true →
    q ∣ valOf l → ∃ pe ∈ l, q = pe.1
  | [], _, h => by
    simp [valOf] at h; exact absurd h hq.ne_one
  | (p, e) :: t, h, hd => by
    simp only [okFactors, Bool.and_eq_true, List.contains_iff_mem, decide_eq_true_eq, beq_iff_eq] at h
    obtain ⟨⟨⟨hp, _⟩, _⟩, ht⟩ := h
    rw [valOf] at hd
    rcases (Nat.Prime.dvd_mul hq).mp hd with h1 | h1
    · have := Nat.Prime.dvd_of_dvd_pow hq h1
      exact ⟨(p, e), List.mem_cons_self .., ((Nat.prime_dvd_prime_iff_eq hq (smallPrimes_prime p hp)).mp this)⟩
    · obtain ⟨pe, hmem, heq⟩ := prime_dvd_valOf hq t ht h1
      exact ⟨pe, List.mem_cons_of_mem _ hmem, heq⟩

end Ymq.Stage2
