/-
The reference echelon builder in plain modular arithmetic (`EchP`, Ymq/Model/IntMat.lean): the
elimination loop and the invariant kept by `add`.
-/
import Ymq.Model.IntMat
import Ymq.Lemmas.IntMatEchDet
import Ymq.Lemmas.IntMatPerm
import Mathlib.Data.ZMod.Basic
import Mathlib.Data.List.GetD
import Mathlib.Algebra.Module.Pi
import Mathlib.Tactic.Ring
import Mathlib.Tactic.Linarith

namespace Ymq.IntMat

/-- a list of residues as a vector over `Z/p` (`n` columns; missing entries count as 0) -/
def vecN (p n : Nat) (l : List Nat) : Fin n → ZMod p := fun c => ((l.getD c 0 : Nat) : ZMod p)

/-- a list of integers as a vector over `Z/p` -/
def vecI (p n : Nat) (l : List Int) : Fin n → ZMod p := fun c => ((l.getD c 0 : Int) : ZMod p)

theorem vecN_apply (p n : Nat) (l : List Nat) (c : Fin n) (hc : (c : Nat) < l.length) :
    vecN p n l c = ((l[(c : Nat)] : Nat) : ZMod p) := by
  simp [vecN, List.getD_eq_getElem?_getD, List.getElem?_eq_getElem hc]

theorem rowSubMul_length (p : Nat) (v w : List Nat) (m : Nat) (h : v.length = w.length) :
    (rowSubMul p v w m).length = v.length := by
  simp [rowSubMul, h]

/-- `rowSubMul` is `v - m • w` over `Z/p` -/
theorem rowSubMul_vec (p n : Nat) (hp : 0 < p) (v w : List Nat) (m : Nat) (hv : v.length = n) (hw : w.length = n) :
    vecN p n (rowSubMul p v w m) = vecN p n v - ((m : Nat) : ZMod p) • vecN p n w := by
  funext c
  have hc1 : (c : Nat) < v.length := by rw [hv]; exact c.2
  have hc2 : (c : Nat) < w.length := by rw [hw]; exact c.2
  have hc3 : (c : Nat) < (rowSubMul p v w m).length := by rw [rowSubMul_length p v w m (by omega)]; exact hc1
  rw [Pi.sub_apply, Pi.smul_apply, vecN_apply _ _ _ _ hc3, vecN_apply _ _ _ _ hc1, vecN_apply _ _ _ _ hc2, smul_eq_mul]
  simp only [rowSubMul, List.getElem_zipWith]
  have hle : m * w[(c : Nat)] % p ≤ p := Nat.le_of_lt (Nat.mod_lt _ hp)
  rw [ZMod.natCast_mod, Nat.cast_add, Nat.cast_sub hle, ZMod.natCast_self, ZMod.natCast_mod, Nat.cast_mul]
  ring

/-- **the elimination loop**: `piv a` is the pivot column of the `a`-th remaining basis row; the
rows are in echelon form (`1` on their own pivot, `0` on the pivots of the rows before them). The
result is `vp` minus a combination of the rows, it vanishes on every pivot column, and it agrees
with `vp` on the columns where all the rows vanish. -/
theorem elimP_spec (p n : Nat) (hp : 0 < p) : ∀ (rows : List (List Nat)) (idxs : List Nat) (piv : Nat → Fin n)
    (vp vp' : List Nat), vp.length = n → (∀ r ∈ rows, r.length = n) →
    (∀ a, a < rows.length → idxs[a]? = some ((piv a : Fin n) : Nat)) →
    (∀ a, a < rows.length → vecN p n (rows.getD a []) (piv a) = 1) →
    (∀ a b, a < b → b < rows.length → vecN p n (rows.getD b []) (piv a) = 0) →
    elimP p rows idxs vp = some vp' →
    vp'.length = n ∧
    (∃ m : Nat → ZMod p, vecN p n vp' = vecN p n vp - ∑ a ∈ Finset.range rows.length, m a • vecN p n (rows.getD a [])) ∧
    (∀ col : Fin n, (∀ r ∈ rows, vecN p n r col = 0) → vecN p n vp' col = vecN p n vp col) ∧
    (∀ a, a < rows.length → vecN p n vp' (piv a) = 0)
  | [], idxs, piv, vp, vp', hl, _, _, _, _, h => by
    simp only [elimP] at h
    have e := Option.some.inj h
    subst e
    refine ⟨hl, ⟨fun _ => 0, by simp⟩, fun _ _ => rfl, fun a ha => by simp at ha⟩
  | row :: rows, [], piv, vp, vp', hl, _, hidx, _, _, h => by
    have := hidx 0 (by simp)
    simp at this
  | row :: rows, idx :: idxs, piv, vp, vp', hl, hrl, hidx, hone, hzero, h => by
    unfold elimP at h
    have hrow : row.length = n := hrl row (by simp)
    have hidx0 : idx = ((piv 0 : Fin n) : Nat) := by
      have := hidx 0 (by simp)
      simpa using this
    have hidxn : idx < vp.length := by rw [hl, hidx0]; exact (piv 0).2
    rw [List.getElem?_eq_getElem hidxn] at h
    simp only [] at h
    -- the vector after the first row
    set vp1 := (if vp[idx] = 0 then vp else rowSubMul p vp row vp[idx]) with hvp1
    have hl1 : vp1.length = n := by
      rw [hvp1]; split
      · exact hl
      · rw [rowSubMul_length p vp row _ (by omega)]; exact hl
    have hv1 : vecN p n vp1 = vecN p n vp - ((vp[idx] : Nat) : ZMod p) • vecN p n row := by
      rw [hvp1]; split
      · rename_i h0; rw [h0]; simp
      · exact rowSubMul_vec p n hp vp row _ hl hrow
    have hone0 : vecN p n row (piv 0) = 1 := by
      have := hone 0 (by simp)
      simpa using this
    have hpiv0 : vecN p n vp (piv 0) = ((vp[idx] : Nat) : ZMod p) := by
      rw [vecN_apply _ _ _ _ (by rw [← hidx0]; exact hidxn)]
      simp [hidx0]
    have hv1p : vecN p n vp1 (piv 0) = 0 := by
      rw [hv1, Pi.sub_apply, Pi.smul_apply, hone0, hpiv0]; simp
    -- induction on the tail with shifted pivots
    obtain ⟨ih1, ⟨m', ih2⟩, ih3, ih4⟩ := elimP_spec p n hp rows idxs (fun a => piv (a + 1)) vp1 vp' hl1
      (fun r hr => hrl r (by simp [hr]))
      (fun a ha => by
        have := hidx (a + 1) (by simp; omega)
        simpa using this)
      (fun a ha => by
        have := hone (a + 1) (by simp; omega)
        simpa using this)
      (fun a b hab hb => by
        have := hzero (a + 1) (b + 1) (by omega) (by simp; omega)
        simpa using this)
      h
    refine ⟨ih1, ?_, ?_, ?_⟩
    · refine ⟨fun a => if a = 0 then ((vp[idx] : Nat) : ZMod p) else m' (a - 1), ?_⟩
      rw [ih2, hv1]
      simp only [List.length_cons]
      rw [Finset.sum_range_succ' _ rows.length]
      simp only [List.getD_cons_succ, Nat.add_sub_cancel, if_true, List.getD_cons_zero]
      have : ∀ a ∈ Finset.range rows.length,
          (if a + 1 = 0 then ((vp[idx] : Nat) : ZMod p) else m' a) • vecN p n (rows.getD a []) =
          m' a • vecN p n (rows.getD a []) := by
        intro a _; rw [if_neg (by omega)]
      rw [Finset.sum_congr rfl this]
      abel
    · intro col hcol
      rw [ih3 col (fun r hr => hcol r (by simp [hr])), hv1, Pi.sub_apply, Pi.smul_apply,
        hcol row (by simp)]
      simp
    · intro a ha
      cases a with
      | zero =>
        -- all later rows vanish on the first pivot, the value stays 0
        rw [ih3 (piv 0) (fun r hr => by
          obtain ⟨b, hb, rfl⟩ := List.getElem_of_mem hr
          have := hzero 0 (b + 1) (by omega) (by simp; omega)
          simpa [List.getD_eq_getElem?_getD, List.getElem?_eq_getElem hb] using this)]
        exact hv1p
      | succ a => exact ih4 a (by simpa using ha)

/-! ### the invariant of `add` -/

theorem firstNonzero_spec : ∀ (l : List Nat) (off i v : Nat), firstNonzero l off = some (i, v) →
    off ≤ i ∧ ∃ (h : i - off < l.length), l[i - off] = v ∧ v ≠ 0
  | [], _, _, _, h => by simp [firstNonzero] at h
  | x :: xs, off, i, v, h => by
    unfold firstNonzero at h
    split at h
    · rename_i hx
      have := Option.some.inj h
      simp only [Prod.mk.injEq] at this
      obtain ⟨e1, e2⟩ := this
      subst e1; subst e2
      exact ⟨le_refl _, by simp, by simp, hx⟩
    · obtain ⟨h1, h2, h3, h4⟩ := firstNonzero_spec xs (off + 1) i v h
      refine ⟨by omega, by simp; omega, ?_, h4⟩
      have : i - off = (i - (off + 1)) + 1 := by omega
      simp [this, h3]

theorem permList_one (n : Nat) : permList (1 : Equiv.Perm (Fin n)) = List.range n := by
  apply List.ext_getElem
  · simp [permList]
  · intro k h1 h2
    simp [permList]

theorem vecN_mod_cast (p n : Nat) (hp : 0 < p) (v : List Int) :
    vecN p n (v.map (fun x => (x % (p : Int)).toNat)) = vecI p n v := by
  funext c
  unfold vecN vecI
  by_cases hc : (c : Nat) < v.length
  · simp only [List.getD_eq_getElem?_getD, List.getElem?_map, List.getElem?_eq_getElem hc, Option.map_some,
      Option.getD_some]
    have h0 : 0 ≤ v[(c : Nat)] % (p : Int) := Int.emod_nonneg _ (by omega)
    have : (((v[(c : Nat)] % (p : Int)).toNat : Nat) : ZMod p) = ((v[(c : Nat)] % (p : Int) : Int) : ZMod p) := by
      have e : (((v[(c : Nat)] % (p : Int)).toNat : Nat) : Int) = v[(c : Nat)] % (p : Int) := Int.toNat_of_nonneg h0
      have h2 : ((((v[(c : Nat)] % (p : Int)).toNat : Nat) : Int) : ZMod p) = ((v[(c : Nat)] % (p : Int) : Int) : ZMod p) := by
        rw [e]
      rw [Int.cast_natCast] at h2
      exact h2
    rw [this, ZMod.intCast_mod]
  · simp [List.getD_eq_getElem?_getD, List.getElem?_eq_none (Nat.le_of_not_lt hc)]

theorem vecN_scale (p n : Nat) (vp : List Nat) (iv : Nat) :
    vecN p n (vp.map (fun x => x * iv % p)) = ((iv : Nat) : ZMod p) • vecN p n vp := by
  funext c
  unfold vecN
  rw [Pi.smul_apply, smul_eq_mul]
  by_cases hc : (c : Nat) < vp.length
  · simp only [List.getD_eq_getElem?_getD, List.getElem?_map, List.getElem?_eq_getElem hc, Option.map_some,
      Option.getD_some]
    rw [ZMod.natCast_mod, Nat.cast_mul]; ring
  · simp [List.getD_eq_getElem?_getD, List.getElem?_eq_none (Nat.le_of_not_lt hc)]

/-- the invariant kept by `add`: `rows` are the accepted rows, `σ` the column order (`indices`),
the basis is in echelon form with respect to `σ`, and every accepted row is its pivot factor times
its basis row plus a combination of the earlier basis rows. -/
structure EchInv (p n : Nat) (e : EchP) (rows : List (List Int)) : Prop where
  hp : e.p = p
  len_b : e.basis.length = rows.length
  len_f : e.factors.length = rows.length
  row_len : ∀ r ∈ e.basis, r.length = n
  k_le : rows.length ≤ n
  p_pos : rows ≠ [] → 0 < p
  ex : ∃ (σ : Equiv.Perm (Fin n)) (c : Nat → Nat → ZMod p),
      (rows ≠ [] → e.indices = permList σ) ∧
      (∀ t (_ : t < rows.length) (htn : t < n), vecN p n (e.basis.getD t []) (σ ⟨t, htn⟩) = 1) ∧
      (∀ t s (hst : s < t) (_ : t < rows.length) (htn : t < n),
        vecN p n (e.basis.getD t []) (σ ⟨s, by omega⟩) = 0) ∧
      (∀ t (_ : t < rows.length), vecI p n (rows.getD t []) =
        ((e.factors.getD t 0 : Nat) : ZMod p) • vecN p n (e.basis.getD t []) +
        ∑ s ∈ Finset.range t, c t s • vecN p n (e.basis.getD s []))

theorem EchInv.init (p n : Nat) : EchInv p n { p := p, indices := [], basis := [], factors := [] } [] :=
  ⟨rfl, rfl, rfl, by simp, Nat.zero_le _, by simp, 1, fun _ _ => 0, by simp, by simp, by simp, by simp⟩

theorem elimP_length (p : Nat) : ∀ (rows : List (List Nat)) (idxs vp vp' : List Nat),
    (∀ r ∈ rows, r.length = vp.length) → elimP p rows idxs vp = some vp' → vp'.length = vp.length
  | [], _, vp, vp', _, h => by
    simp only [elimP] at h; rw [← Option.some.inj h]
  | _ :: _, [], _, _, _, h => by simp [elimP] at h
  | row :: rows, idx :: idxs, vp, vp', hr, h => by
    unfold elimP at h
    split at h
    · exact absurd h (by simp)
    · rename_i vi _
      have hrow : row.length = vp.length := hr row (by simp)
      have hl : (if vi = 0 then vp else rowSubMul p vp row vi).length = vp.length := by
        split
        · rfl
        · exact rowSubMul_length p vp row vi (by omega)
      have := elimP_length p rows idxs _ vp' (fun r hr' => by rw [hl]; exact hr r (by simp [hr'])) h
      rw [this, hl]

theorem getD_snoc_lt {α} (l : List α) (a d : α) (t : Nat) (h : t < l.length) : (l ++ [a]).getD t d = l.getD t d :=
  List.getD_append l [a] d t h

theorem getD_snoc_eq {α} (l : List α) (a d : α) : (l ++ [a]).getD l.length d = a := by
  rw [List.getD_append_right l [a] d l.length (le_refl _)]; simp

/-- what a successful, accepting `add` computed -/
theorem EchP.add_true_unfold {inv : Inv} {e e' : EchP} {v : List Int} (h : e.add inv v = some (e', true)) :
    0 < e.p ∧ ∃ vp' i vi iv pos ind',
      elimP (e.start v.length).p (e.start v.length).basis (e.start v.length).indices
        (v.map (fun x => (x % ((e.start v.length).p : Int)).toNat)) = some vp' ∧
      firstNonzero vp' 0 = some (i, vi) ∧
      (vp'.map (fun x => x * iv % (e.start v.length).p))[i]? = some 1 ∧
      (e.start v.length).indices.idxOf? i = some pos ∧
      swapIdx (e.start v.length).indices pos (e.start v.length).basis.length = some ind' ∧
      e' = { p := (e.start v.length).p, indices := ind',
             basis := (e.start v.length).basis ++ [vp'.map (fun x => x * iv % (e.start v.length).p)],
             factors := (e.start v.length).factors ++ [vi] } := by
  unfold EchP.add at h
  split at h
  · exact absurd h (by simp)
  · rename_i hpr
    split at h
    · exact absurd h (by simp)
    · simp only [] at h
      split at h
      · exact absurd h (by simp)
      · rename_i vp' helim
        split at h
        · exact absurd (congrArg Prod.snd (Option.some.inj h)) Bool.false_ne_true
        · rename_i i vi hfirst
          split at h
          · rename_i iv hiv
            split at h
            · exact absurd h (by simp)
            · rename_i hassert
              split at h
              · exact absurd h (by simp)
              · rename_i pos hpos
                split at h
                · exact absurd h (by simp)
                · rename_i ind' hswap
                  have hres := Option.some.inj h
                  simp only [Prod.mk.injEq, and_true] at hres
                  refine ⟨by omega, vp', i, vi, iv, pos, ind', helim, hfirst, ?_, hpos, hswap, hres.symm⟩
                  by_contra hne
                  exact hassert hne
          · exact absurd h (by simp)

theorem EchP.start_basis (e : EchP) (len : Nat) : (e.start len).basis = e.basis := by
  unfold EchP.start; split <;> rfl

theorem EchP.start_factors (e : EchP) (len : Nat) : (e.start len).factors = e.factors := by
  unfold EchP.start; split <;> rfl

theorem EchP.start_p (e : EchP) (len : Nat) : (e.start len).p = e.p := by
  unfold EchP.start; split <;> rfl

/-- **`add` keeps the invariant** when it accepts the row -/
theorem EchInv.add_true (inv : Inv) (p n : Nat) (e e' : EchP) (rows : List (List Int)) (v : List Int)
    (hI : EchInv p n e rows) (hv : v.length = n) (h : e.add inv v = some (e', true)) :
    EchInv p n e' (rows ++ [v]) := by
  obtain ⟨hp, len_b, len_f, row_len, k_le, _, σ0, c, hidx, hone, hzero, hrow⟩ := hI
  obtain ⟨hp0', vp', i, vi, iv, pos, ind', helim, hfirst, hassert, hpos, hswap, hres⟩ := EchP.add_true_unfold h
  have hp0 : 0 < p := by rw [← hp]; exact hp0'
  simp only [EchP.start_basis, EchP.start_p, EchP.start_factors, hp] at helim hswap hres hassert
  -- the column order of the started builder is a permutation σ satisfying the echelon clauses
  obtain ⟨σ, hσ, hone', hzero'⟩ : ∃ σ : Equiv.Perm (Fin n), (e.start v.length).indices = permList σ ∧
      (∀ t (_ : t < rows.length) (htn : t < n), vecN p n (e.basis.getD t []) (σ ⟨t, htn⟩) = 1) ∧
      (∀ t s (hst : s < t) (_ : t < rows.length) (htn : t < n),
        vecN p n (e.basis.getD t []) (σ ⟨s, by omega⟩) = 0) := by
    by_cases hr : rows = []
    · refine ⟨1, ?_, ?_, ?_⟩
      · have : e.basis.isEmpty = true := by
          rw [List.isEmpty_iff]; exact List.eq_nil_of_length_eq_zero (by rw [len_b, hr]; rfl)
        unfold EchP.start
        rw [if_pos this, hv]; exact (permList_one n).symm
      · intro t ht; rw [hr] at ht; simp at ht
      · intro t s _ ht; rw [hr] at ht; simp at ht
    · refine ⟨σ0, ?_, hone, hzero⟩
      have : ¬ e.basis.isEmpty = true := by
        rw [List.isEmpty_iff]; intro hb
        apply hr; exact List.eq_nil_of_length_eq_zero (by rw [← len_b, hb]; rfl)
      unfold EchP.start
      rw [if_neg this]; exact hidx hr
  rw [hσ] at helim hpos hswap
  -- lengths
  set vp0 := v.map (fun x => (x % (p : Int)).toNat) with hvp0
  have hl0 : vp0.length = n := by simp [hvp0, hv]
  have hlen' : vp'.length = n := by
    rw [elimP_length p e.basis (permList σ) vp0 vp' (fun r hr => by rw [hl0]; exact row_len r hr) helim, hl0]
  obtain ⟨_, hi', hvi, hvi0⟩ := firstNonzero_spec vp' 0 i vi hfirst
  simp only [Nat.sub_zero] at hi' hvi
  have hin : i < n := by rw [← hlen']; exact hi'
  have hn0 : 0 < n := by omega
  -- the elimination
  let piv : Nat → Fin n := fun a => if ha : a < n then σ ⟨a, ha⟩ else σ ⟨0, hn0⟩
  have hpiv : ∀ a (ha : a < n), piv a = σ ⟨a, ha⟩ := fun a ha => by simp [piv, ha]
  have hk : e.basis.length ≤ n := by rw [len_b]; exact k_le
  obtain ⟨_, ⟨m, hvec⟩, _, hpz⟩ := elimP_spec p n hp0 e.basis (permList σ) piv vp0 vp' hl0 row_len
    (fun a ha => by
      rw [hpiv a (by omega)]
      exact permList_getElem? σ a (by omega))
    (fun a ha => by
      rw [hpiv a (by omega)]
      exact hone' a (by rw [← len_b]; exact ha) (by omega))
    (fun a b hab hb => by
      rw [hpiv a (by omega)]
      exact hzero' b a hab (by rw [← len_b]; exact hb) (by omega))
    helim
  -- the inverse of the pivot
  have hrowi : vi * iv % p = 1 := by
    have : (vp'.map (fun x => x * iv % p))[i]? = some (vp'[i] * iv % p) := by
      simp [List.getElem?_map, List.getElem?_eq_getElem hi']
    rw [this, hvi] at hassert
    exact Option.some.inj hassert
  have hunit : ((vi : Nat) : ZMod p) * ((iv : Nat) : ZMod p) = 1 := by
    have : (((vi * iv % p : Nat)) : ZMod p) = ((1 : Nat) : ZMod p) := by rw [hrowi]
    rw [ZMod.natCast_mod, Nat.cast_mul, Nat.cast_one] at this
    exact this
  have hvi_ne : ((vi : Nat) : ZMod p) ≠ 0 := by
    intro h0
    rw [ZMod.natCast_eq_zero_iff] at h0
    obtain ⟨q, hq⟩ := h0
    rw [hq, Nat.mul_assoc, Nat.mul_mod_right] at hrowi
    exact absurd hrowi (by decide)
  have hvpi : vecN p n vp' ⟨i, hin⟩ = ((vi : Nat) : ZMod p) := by
    rw [vecN_apply _ _ _ _ (by simpa using hi')]; simp [hvi]
  -- the position of the pivot column in the column order
  rw [List.idxOf?_eq_some_iff] at hpos
  obtain ⟨hposl, hposv, _⟩ := hpos
  have hposn : pos < n := by rw [permList_length] at hposl; exact hposl
  have hσpos : σ ⟨pos, hposn⟩ = ⟨i, hin⟩ := by
    apply Fin.ext
    have := permList_getElem? σ pos hposn
    rw [List.getElem?_eq_getElem hposl, hposv] at this
    exact (Option.some.inj this).symm
  have hkn : e.basis.length < n := by
    unfold swapIdx at hswap
    split at hswap
    · rename_i a b ha hb
      by_contra hge
      rw [List.getElem?_eq_none (by rw [permList_length]; omega)] at hb
      exact absurd hb (by simp)
    · exact absurd hswap (by simp)
  have hposk : e.basis.length ≤ pos := by
    by_contra hlt
    have hlt' : pos < e.basis.length := by omega
    have := hpz pos hlt'
    rw [hpiv pos hposn, hσpos, hvpi] at this
    exact hvi_ne this
  have hind' : ind' = permList (σ * Equiv.swap ⟨pos, hposn⟩ ⟨e.basis.length, hkn⟩) := by
    have := swapIdx_permList σ ⟨pos, hposn⟩ ⟨e.basis.length, hkn⟩
    simp only [] at this
    rw [this] at hswap
    exact (Option.some.inj hswap).symm
  set σ' := σ * Equiv.swap ⟨pos, hposn⟩ ⟨e.basis.length, hkn⟩ with hσ'
  have hσ'lt : ∀ t (ht : t < e.basis.length), σ' ⟨t, by omega⟩ = σ ⟨t, by omega⟩ := by
    intro t ht
    rw [hσ', Equiv.Perm.mul_apply, Equiv.swap_apply_of_ne_of_ne]
    · intro heq; have := congrArg Fin.val heq; simp at this; omega
    · intro heq; have := congrArg Fin.val heq; simp at this; omega
  have hσ'k : σ' ⟨e.basis.length, hkn⟩ = ⟨i, hin⟩ := by
    rw [hσ', Equiv.Perm.mul_apply, Equiv.swap_apply_right, hσpos]
  set row := vp'.map (fun x => x * iv % p) with hrowdef
  have hrowvec : vecN p n row = ((iv : Nat) : ZMod p) • vecN p n vp' := vecN_scale p n vp' iv
  have hklen : rows.length = e.basis.length := len_b.symm
  -- assemble the invariant of the new state
  rw [hres]
  refine ⟨by simp [hp], by simp [len_b], by simp [len_f], ?_, by simp; omega, fun _ => hp0, σ',
    fun t s => if t = e.basis.length then m s else c t s, ?_, ?_, ?_, ?_⟩
  · intro r hr
    simp only at hr
    rcases List.mem_append.mp hr with hr | hr
    · exact row_len r hr
    · simp at hr; rw [hr, hrowdef]; simp [hlen']
  · intro _; exact hind'
  · intro t ht htn
    simp only [List.length_append, List.length_singleton] at ht ⊢
    by_cases htk : t < e.basis.length
    · rw [getD_snoc_lt _ _ _ _ htk, hσ'lt t htk]
      exact hone' t (by omega) htn
    · have : t = e.basis.length := by omega
      subst this
      rw [getD_snoc_eq, hσ'k, hrowvec, Pi.smul_apply, hvpi, smul_eq_mul, mul_comm]
      exact hunit
  · intro t s hst ht htn
    simp only [List.length_append, List.length_singleton] at ht ⊢
    by_cases htk : t < e.basis.length
    · rw [getD_snoc_lt _ _ _ _ htk, hσ'lt s (by omega)]
      exact hzero' t s hst (by omega) htn
    · have : t = e.basis.length := by omega
      subst this
      rw [getD_snoc_eq, hσ'lt s hst, hrowvec, Pi.smul_apply]
      have := hpz s hst
      rw [hpiv s (by omega)] at this
      rw [this]; simp
  · intro t ht
    simp only [List.length_append, List.length_singleton] at ht ⊢
    by_cases htk : t < e.basis.length
    · rw [getD_snoc_lt _ _ _ _ (by omega), getD_snoc_lt _ _ _ _ (by omega), getD_snoc_lt _ _ _ _ htk]
      rw [hrow t (by omega)]
      congr 1
      apply Finset.sum_congr rfl
      intro s hs
      have hs' : s < t := Finset.mem_range.mp hs
      rw [getD_snoc_lt _ _ _ _ (by omega), if_neg (by omega)]
    · have htk' : t = e.basis.length := by omega
      subst htk'
      rw [show (rows ++ [v]).getD e.basis.length [] = v by rw [← hklen]; exact getD_snoc_eq _ _ _]
      rw [show (e.factors ++ [vi]).getD e.basis.length 0 = vi by
        rw [← hklen, ← len_f]; exact getD_snoc_eq _ _ _]
      rw [getD_snoc_eq]
      -- v = vp' + Σ m a • b_a and vp' = vi • row
      have h1 : vecI p n v = vecN p n vp0 := (vecN_mod_cast p n hp0 v).symm
      have h2 : ((vi : Nat) : ZMod p) • vecN p n row = vecN p n vp' := by
        rw [hrowvec, smul_smul, hunit, one_smul]
      rw [h1, h2, hvec]
      have : ∑ s ∈ Finset.range e.basis.length,
            (if e.basis.length = e.basis.length then m s else c e.basis.length s) •
              vecN p n ((e.basis ++ [row]).getD s []) =
          ∑ s ∈ Finset.range e.basis.length, m s • vecN p n (e.basis.getD s []) := by
        apply Finset.sum_congr rfl
        intro s hs
        rw [getD_snoc_lt _ _ _ _ (Finset.mem_range.mp hs), if_pos rfl]
      rw [this]; abel

end Ymq.IntMat
