/-
C14 "small", helper lemmas part 8 (Mathlib only, no model): Montgomery's lemma
([Montgomery 1995, Section 8]) for symmetric matrices over any field: if the rows indexed by `p`
are linearly independent and as many as the rank, the rows of the principal submatrix on `p`
(written as the masked matrix, null outside `p × p`) are linearly independent as well.
-/
import Mathlib.LinearAlgebra.Matrix.Rank
import Mathlib.LinearAlgebra.FiniteDimensional.Lemmas
import Mathlib.LinearAlgebra.Matrix.Symmetric

namespace Ymq.Gf2Small
open Matrix Module

theorem montgomery_masked_independent {K : Type} [Field K] {n : Nat} (T : Matrix (Fin n) (Fin n) K)
    (hT : T.IsSymm) (p : Fin n → Prop) [DecidablePred p]
    (hli : LinearIndependent K (fun s : {i // p i} => T s.1))
    (hcard : Fintype.card {i // p i} = T.rank) :
    LinearIndependent K (fun s : {i // p i} => fun j => if p j then T s.1 j else 0) := by
  -- the selected rows span the row space
  have hspan : Submodule.span K (Set.range fun s : {i // p i} => T s.1) =
      Submodule.span K (Set.range T.row) := by
    apply Submodule.eq_of_le_of_finrank_eq
    · apply Submodule.span_mono
      rintro _ ⟨s, rfl⟩
      exact ⟨s.1, rfl⟩
    · rw [finrank_span_eq_card hli, hcard, Matrix.rank_eq_finrank_span_row]
  rw [Fintype.linearIndependent_iff]
  intro g hg
  have hvS : ∀ j, p j → ∑ s : {i // p i}, g s * T s.1 j = 0 := by
    intro j hj
    have := congrFun hg j
    simp only [Finset.sum_apply, Pi.smul_apply, smul_eq_mul, Pi.zero_apply, if_pos hj] at this
    exact this
  have hv : ∑ s : {i // p i}, g s • T s.1 = 0 := by
    funext j
    simp only [Finset.sum_apply, Pi.smul_apply, smul_eq_mul, Pi.zero_apply]
    have hmem : T j ∈ Submodule.span K (Set.range fun s : {i // p i} => T s.1) := by
      rw [hspan]; exact Submodule.subset_span ⟨j, rfl⟩
    obtain ⟨c, hc⟩ := (Submodule.mem_span_range_iff_exists_fun K).mp hmem
    have hrow : ∀ i, T j i = ∑ s' : {i // p i}, c s' * T s'.1 i := by
      intro i
      have := congrFun hc i
      simp only [Finset.sum_apply, Pi.smul_apply, smul_eq_mul] at this
      exact this.symm
    calc ∑ s : {i // p i}, g s * T s.1 j
        = ∑ s : {i // p i}, g s * T j s.1 := by
          apply Finset.sum_congr rfl; intro s _; rw [hT.apply]
      _ = ∑ s : {i // p i}, ∑ s' : {i // p i}, c s' * (g s * T s'.1 s.1) := by
          apply Finset.sum_congr rfl; intro s _
          rw [hrow, Finset.mul_sum]
          apply Finset.sum_congr rfl; intro s' _; ring
      _ = ∑ s' : {i // p i}, c s' * ∑ s : {i // p i}, g s * T s.1 s'.1 := by
          rw [Finset.sum_comm]
          apply Finset.sum_congr rfl; intro s' _
          rw [Finset.mul_sum]
          apply Finset.sum_congr rfl; intro s _; rw [hT.apply]
      _ = 0 := by
          apply Finset.sum_eq_zero; intro s' _
          rw [hvS s'.1 s'.2, mul_zero]
  exact (Fintype.linearIndependent_iff.mp hli) g hv

end Ymq.Gf2Small
