/- Lemmas for the second generation of shapes (fork-join interleavings, flag soundness): C04, C05. -/
import Ymq.Lemmas.SchedShape
namespace Ymq.Sched
open Ymq.Gen.SchedShape
variable {ρ σ : Type}

theorem merge_perm : ∀ (a b : List ρ) (ch : List Bool), (merge a b ch).Perm (a ++ b)
  | [], b, _ => by simp [merge]
  | x :: a, [], _ => by simp [merge]
  | x :: a, y :: b, [] => by simp [merge]
  | x :: a, y :: b, c :: cs => by
    unfold merge
    split
    · exact (merge_perm a (y :: b) cs).cons x
    · have h := (merge_perm (x :: a) b cs).cons y
      refine h.trans ?_
      simpa using (List.perm_middle (a := y) (l₁ := x :: a) (l₂ := b)).symm

theorem merge_sublist_left : ∀ (a b : List ρ) (ch : List Bool), a.Sublist (merge a b ch)
  | [], b, _ => by simp
  | x :: a, [], _ => by simp [merge]
  | x :: a, y :: b, [] => by simp [merge]
  | x :: a, y :: b, c :: cs => by
    unfold merge
    split
    · exact (merge_sublist_left a (y :: b) cs).cons_cons x
    · exact (merge_sublist_left (x :: a) b cs).cons y

theorem merge_sublist_right : ∀ (a b : List ρ) (ch : List Bool), b.Sublist (merge a b ch)
  | [], b, _ => by simp [merge]
  | x :: a, [], _ => by simp
  | x :: a, y :: b, [] => by
    simp only [merge]
    exact (List.sublist_append_right (x :: a) (y :: b))
  | x :: a, y :: b, c :: cs => by
    unfold merge
    split
    · exact (merge_sublist_right a (y :: b) cs).cons x
    · exact (merge_sublist_right (x :: a) b cs).cons_cons y

/-- an invariant of single steps is an invariant of runs -/
theorem run_induction (add : σ → ρ → σ) (enough : σ → Bool) (P : Cfg ρ σ → Prop)
    (hstep : ∀ c w st ab, P c → P (step add enough c w st ab)) :
    ∀ (sched : List (Nat × Bool × Bool)) (c : Cfg ρ σ), P c → P (run add enough c sched) := by
  intro sched
  induction sched with
  | nil => intro c h; exact h
  | cons a sched ih =>
    intro c h
    obtain ⟨w, st, ab⟩ := a
    exact ih _ (hstep c w st ab h)

/-- the completion flag is only ever set after the store was seen complete: if completeness survives adds,
a set flag implies a complete store -/
theorem step_done_enough (add : σ → ρ → σ) (enough : σ → Bool)
    (hmono : ∀ s r, enough s = true → enough (add s r) = true) (c : Cfg ρ σ) (w : Nat) (st ab : Bool)
    (h : c.done = true → enough c.store = true) :
    (step add enough c w st ab).done = true → enough (step add enough c w st ab).store = true := by
  unfold step
  split
  · exact h
  · exact h
  · split <;> exact h
  · split <;> exact h
  · intro hd; exact hmono _ _ (h hd)
  · intro hd
    simp only [Bool.or_eq_true] at hd
    rcases hd with hd | hd
    · exact h hd
    · exact hd

theorem run_done_enough (add : σ → ρ → σ) (enough : σ → Bool)
    (hmono : ∀ s r, enough s = true → enough (add s r) = true) (sched : List (Nat × Bool × Bool)) (c : Cfg ρ σ)
    (h : c.done = true → enough c.store = true) :
    (run add enough c sched).done = true → enough (run add enough c sched).store = true :=
  run_induction add enough (fun c => c.done = true → enough c.store = true)
    (fun c w st ab hc => step_done_enough add enough hmono c w st ab hc) sched c h

theorem foldl_snoc (l : List ρ) : ∀ s : List ρ, l.foldl (fun s r => s ++ [r]) s = s ++ l := by
  induction l with
  | nil => intro s; simp
  | cons x xs ih => intro s; simp [List.foldl_cons, ih]

end Ymq.Sched
