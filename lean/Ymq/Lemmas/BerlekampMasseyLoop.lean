/-
The main loop of the Berlekamp–Massey model: it ends, without reaching a panic site, in `finish`
applied to a state that satisfies the invariant with `df < n / 2`; and `finish`.
-/
import Ymq.Lemmas.BerlekampMasseyStep

namespace Ymq.BM
open Polynomial

variable {p : ℕ} {o : Ops} {κ : ZMod p} {n : ℕ} {S : (ZMod p)[X]}

theorem gd_cons_zero (x : ℕ) (l : List ℕ) : gd (x :: l) 0 = x := by simp [gd]

theorem gd_cons_succ (x : ℕ) (l : List ℕ) (i : ℕ) : gd (x :: l) (i + 1) = gd l i := by simp [gd]

theorem gd_nil (i : ℕ) : gd [] i = 0 := by simp [gd]

theorem mapM_mul (ok : OpsOK o p κ) (hp : 0 < p) (q : ℕ) (hq : q < p) : ∀ l : List ℕ, Red p l →
    ∃ out, l.mapM (fun x => o.mul x q) = some out ∧ out.length = l.length ∧
      ∀ i, gd out i < p ∧ co p out i = κ * co p l i * q
  | [], _ => ⟨[], by simp, rfl, fun i => ⟨by rw [gd_nil]; exact hp, by simp [co, gd_nil]⟩⟩
  | x :: xs, h => by
    have hx : x < p := by have := h 0; rwa [gd_cons_zero] at this
    have hxs : Red p xs := fun i => by have := h (i + 1); rwa [gd_cons_succ] at this
    obtain ⟨r, r1, r2, r3⟩ := ok.mul x q hx hq
    obtain ⟨out, e1, e2, e3⟩ := mapM_mul ok hp q hq xs hxs
    refine ⟨r :: out, by simp [List.mapM_cons, r1, e1], by simp [e2], ?_⟩
    intro i
    cases i with
    | zero =>
      simp only [co, gd_cons_zero]
      exact ⟨r2, r3⟩
    | succ j =>
      simp only [co, gd_cons_succ]
      exact e3 j

theorem finish_none (u : List ℕ) (hl : 0 < u.length) (h0 : gd u 0 = 0) : finish o u = none := by
  simp [finish, getElem?_of_lt u 0 hl, h0]

theorem finish_some [Fact p.Prime] (ok : OpsOK o p κ) (u : List ℕ) (hl : 0 < u.length)
    (ru : Red p u) (h0 : gd u 0 ≠ 0) :
    ∃ out c, finish o u = some out ∧ out.length = u.length ∧ Red p out ∧ gd out 0 = 1 ∧
      ∀ i, co p out i = c * co p u i := by
  have hp1 : 1 < p := (Fact.out : p.Prime).one_lt
  obtain ⟨q, q1, q2, q3⟩ := ok.fin (gd u 0) (Nat.pos_of_ne_zero h0) (ru 0)
  obtain ⟨out, e1, e2, e3⟩ := mapM_mul ok (by omega) q q2 u ru
  have hc : ∀ i, co p out i = κ * q * co p u i := fun i => by rw [(e3 i).2]; ring
  refine ⟨out, κ * q, ?_, e2, fun i => (e3 i).1, ?_, hc⟩
  · simp [finish, getElem?_of_lt u 0 hl, h0, q1, e1]
  · have h1 : ((gd out 0 : ℕ) : ZMod p) = ((1 : ℕ) : ZMod p) := by
      have := hc 0
      unfold co at this
      rw [this, Nat.cast_one, q3]
    have := (ZMod.natCast_eq_natCast_iff' _ _ _).mp h1
    rwa [Nat.mod_eq_of_lt (e3 0).1, Nat.mod_eq_of_lt hp1] at this

/-- the main loop: no panic site before `finish`; the state handed to `finish` satisfies the
invariant and the exit condition. -/
theorem mainLoop_spec (ok : OpsOK o p κ) (hn : 2 ≤ n) : ∀ (k : ℕ) (s : St), Inv p n S s →
    s.df + s.dg + 2 ≤ k →
    ∃ s', Inv p n S s' ∧ s'.df < n / 2 ∧ s'.df ≤ s'.dg ∧ mainLoop o n k s = finish o s'.u
  | 0, s, _, hk => by omega
  | k + 1, s, h, hk => by
    have h1 := inv_swap h
    have hle := swap_le s
    have hsum := swap_sum s
    by_cases hd : (swapIf s).df < n / 2
    · refine ⟨swapIf s, h1, hd, hle, ?_⟩
      simp [mainLoop, hd]
    · obtain ⟨s2, e1, e2, e3, e4⟩ := step_spec ok hn h1 hle (by omega)
      obtain ⟨s3, f1, f2, f3, f4⟩ := mainLoop_spec ok hn k s2 e2 (by omega)
      refine ⟨s3, f1, f2, f3, ?_⟩
      simp [mainLoop, hd, e1, f4]

end Ymq.BM
