/- Digit arrays: `toDigits`/`ofDigits`, `mulword`, `dot_product`, `top64` (partial correctness). -/
import Ymq.Lemmas.Gcd

namespace Ymq.Gcd

theorem W_pos : 0 < W := by decide

theorem toDigits_length : ∀ (N n : Nat), (toDigits N n).length = N
  | 0, _ => rfl
  | N + 1, n => by simp [toDigits, toDigits_length N]

theorem toDigits_lt : ∀ (N n : Nat), ∀ d ∈ toDigits N n, d < W
  | 0, _ => by simp [toDigits]
  | N + 1, n => by
    intro d hd
    simp only [toDigits, List.mem_cons] at hd
    rcases hd with rfl | hd
    · exact Nat.mod_lt _ W_pos
    · exact toDigits_lt N _ d hd

theorem ofDigits_zeros : ∀ (l : List Nat), (∀ d ∈ l, d = 0) → ofDigits l = 0
  | [], _ => rfl
  | d :: t, h => by
    have h1 : d = 0 := h d (by simp)
    have h2 := ofDigits_zeros t (fun e he => h e (by simp [he]))
    simp [ofDigits, h1, h2]

theorem toDigits_zero : ∀ (N : Nat), ∀ d ∈ toDigits N 0, d = 0
  | 0 => by simp [toDigits]
  | N + 1 => by
    intro d hd
    simp only [toDigits, List.mem_cons, Nat.zero_mod, Nat.zero_div] at hd
    rcases hd with rfl | hd
    · rfl
    · exact toDigits_zero N d hd

theorem toDigits_drop_zero : ∀ (N n sz : Nat), n < W ^ sz → ∀ d ∈ (toDigits N n).drop sz, d = 0
  | 0, _, _, _ => by simp [toDigits]
  | N + 1, n, 0, h => by
    have : n = 0 := by simpa using h
    subst this
    intro d hd
    exact toDigits_zero (N + 1) d (by simpa using hd)
  | N + 1, n, sz + 1, h => by
    intro d hd
    simp only [toDigits, List.drop_succ_cons] at hd
    refine toDigits_drop_zero N (n / W) sz ?_ d hd
    rw [Nat.div_lt_iff_lt_mul W_pos]
    rw [Nat.pow_succ] at h; exact h

theorem ofDigits_toDigits : ∀ (N n : Nat), n < W ^ N → ofDigits (toDigits N n) = n
  | 0, n, h => by
    have : n = 0 := by simpa using h
    simp [toDigits, ofDigits, this]
  | N + 1, n, h => by
    have h' : n / W < W ^ N := by
      rw [Nat.div_lt_iff_lt_mul W_pos]; rw [Nat.pow_succ] at h; exact h
    simp only [toDigits, ofDigits, ofDigits_toDigits N (n / W) h']
    have := Nat.div_add_mod n W
    omega

theorem mulwordAux_length (w : Nat) : ∀ (sz : Nat) (ds : List Nat) (carry : Nat) (r : List Nat),
    mulwordAux w sz ds carry = some r → sz ≤ ds.length
  | 0, _, _, _, _ => Nat.zero_le _
  | sz + 1, [], _, _, h => by simp [mulwordAux] at h
  | sz + 1, d :: t, carry, r, h => by
    unfold mulwordAux at h
    simp only at h
    split at h
    · simp at h
    · rename_i r' hr'
      have := mulwordAux_length w sz t _ r' hr'
      simp; omega

/-- `mulword` multiplies exactly when the operand fits in the `sz` low words -/
theorem mulwordAux_spec (w : Nat) : ∀ (sz : Nat) (ds : List Nat) (carry : Nat) (r : List Nat),
    mulwordAux w sz ds carry = some r → (∀ d ∈ ds.drop sz, d = 0) →
    ofDigits r = w * ofDigits ds + carry
  | 0, ds, carry, r, h, hz => by
    have hz' : ∀ d ∈ ds, d = 0 := by simpa using hz
    unfold mulwordAux at h
    split at h
    · split at h
      · simp at h
      · rename_i d t
        simp at h; subst h
        have h0 := ofDigits_zeros _ hz'
        have ht : ofDigits t = 0 := ofDigits_zeros t (fun e he => hz' e (by simp [he]))
        simp [ofDigits, ht] at h0 ⊢
        rw [h0]; simp
    · rename_i hc
      simp at h; subst h
      have h0 := ofDigits_zeros _ hz'
      rw [h0]; omega
  | sz + 1, [], _, _, h, _ => by simp [mulwordAux] at h
  | sz + 1, d :: t, carry, r, h, hz => by
    unfold mulwordAux at h
    simp only at h
    split at h
    · simp at h
    · rename_i r' hr'
      simp at h; subst h
      have ih := mulwordAux_spec w sz t _ r' hr' (by simpa using hz)
      simp only [ofDigits, ih]
      have := Nat.div_add_mod (d * w + carry) W
      have e : W * (w * ofDigits t + (d * w + carry) / W) = W * (w * ofDigits t) + W * ((d * w + carry) / W) := by ring
      rw [e]
      have e2 : w * (d + W * ofDigits t) = d * w + W * (w * ofDigits t) := by ring
      rw [e2]; omega

theorem mulword_some {N w sz n r : Nat} (h : mulword N w sz n = some r) (hn : n < W ^ sz) :
    r = w * n := by
  unfold mulword at h
  split at h
  · simp at h
  · rename_i r' hr'
    simp at h; subst h
    have hlen := mulwordAux_length w sz _ _ _ hr'
    rw [toDigits_length] at hlen
    have hN : n < W ^ N := Nat.lt_of_lt_of_le hn (Nat.pow_le_pow_right W_pos hlen)
    have := mulwordAux_spec w sz _ _ _ hr' (toDigits_drop_zero N n sz hn)
    rw [this, ofDigits_toDigits N n hN]; omega

/-- `dot_product` returns `|a x + b y|` and whether `a x + b y` was negative -/
theorem dotProduct_some {N sz : Nat} {a b : Int} {x y r : Nat} {neg : Bool}
    (h : dotProduct N sz a x b y = some (r, neg)) (hx : x < W ^ sz) (hy : y < W ^ sz) :
    a * x + b * y = if neg then -(r : Int) else (r : Int) := by
  unfold dotProduct at h
  simp only at h
  split at h
  · rename_i ax bY hax hby
    have e1 := mulword_some hax hx
    have e2 := mulword_some hby hy
    have ea : (ax : Int) = (a.natAbs : Int) * x := by rw [e1]; push_cast; ring
    have eb : (bY : Int) = (b.natAbs : Int) * y := by rw [e2]; push_cast; ring
    split at h
    · rename_i hs
      simp only [Option.some.injEq, Prod.mk.injEq] at h
      obtain ⟨hr, hneg⟩ := h
      unfold sgn at hs
      rcases lt_trichotomy a 0 with ha | ha | ha <;> rcases lt_trichotomy b 0 with hb | hb | hb <;>
        simp [ha, hb, not_lt.2, le_of_lt] at hs
      · -- a < 0 < b
        have ha' : (a.natAbs : Int) = -a := by omega
        have hb' : (b.natAbs : Int) = b := by omega
        rw [ha'] at ea; rw [hb'] at eb
        subst hneg; subst hr
        by_cases hc : ax > bY
        · have : ax ≥ bY := by omega
          simp [hc, ha, this]; push_cast [this]; linarith
        · have hb0 : ¬ b < 0 := by omega
          simp [hc, hb0]
          split
          · rename_i hge; have : ax = bY := by omega
            push_cast [hge]; linarith
          · rename_i hge; have : ax ≤ bY := by omega
            push_cast [this]; linarith
      · -- b < 0 < a
        have ha' : (a.natAbs : Int) = a := by omega
        have hb' : (b.natAbs : Int) = -b := by omega
        rw [ha'] at ea; rw [hb'] at eb
        subst hneg; subst hr
        have ha0 : ¬ a < 0 := by omega
        by_cases hc : ax < bY
        · have : ¬ ax ≥ bY := by omega
          have h2 : ¬ ax > bY := by omega
          have h3 : ax ≤ bY := by omega
          simp [hc, hb, this, h2, ha0]; push_cast [h3]; linarith
        · have hge : ax ≥ bY := by omega
          simp [hc, ha0, hge]; push_cast [hge]; linarith
    · rename_i hs
      split at h
      · simp at h
      · rename_i s hsum
        simp only [Option.some.injEq, Prod.mk.injEq] at h
        obtain ⟨hr, hneg⟩ := h
        have hs' := (chkU_some hsum).1
        subst hneg; subst hr; subst hs'
        unfold sgn at hs
        rcases lt_trichotomy a 0 with ha | ha | ha <;> rcases lt_trichotomy b 0 with hb | hb | hb <;>
          simp [ha, hb, not_lt.2, le_of_lt] at hs ⊢ <;> push_cast <;>
          (first
            | (have ha' : (a.natAbs : Int) = -a := by omega
               have hb' : (b.natAbs : Int) = -b := by omega
               rw [ea, eb, ha', hb']; first | done | ring1 | (rw [hb]; ring1) | (rw [ha]; ring1) | (simp [ha, hb]))
            | (have ha' : (a.natAbs : Int) = a := by omega
               have hb' : (b.natAbs : Int) = b := by omega
               rw [ea, eb, ha', hb']; first | done | ring1 | (rw [hb]; ring1) | (rw [ha]; ring1) | (simp [ha, hb])))
  · simp at h

/-! ### bit length -/

theorem bits_eq_zero {n : Nat} : bits n = 0 ↔ n = 0 := by
  unfold bits; split <;> simp_all

theorem lt_two_pow_bits (n : Nat) : n < 2 ^ bits n := by
  unfold bits
  split
  · rename_i h; subst h; simp
  · exact Nat.lt_log2_self

theorem bits_le_of_lt {n k : Nat} (h : n < 2 ^ k) : bits n ≤ k := by
  unfold bits
  split
  · omega
  · rename_i hn
    have := (Nat.log2_lt hn).2 h
    omega

theorem two_pow_le_of_bits {n : Nat} (hn : n ≠ 0) : 2 ^ (bits n - 1) ≤ n := by
  unfold bits
  rw [if_neg hn]
  simpa using Nat.log2_self_le hn

theorem W_eq : W = 2 ^ 64 := by decide

theorem W_pow (k : Nat) : W ^ k = 2 ^ (64 * k) := by rw [W_eq, ← Nat.pow_mul]

theorem lt_W_pow_of_bits {n b : Nat} (h : bits n ≤ b) : n < W ^ ((b + 63) / 64) := by
  rw [W_pow]
  refine Nat.lt_of_lt_of_le (lt_two_pow_bits n) (Nat.pow_le_pow_right (by decide) ?_)
  omega

/-! ### top64 stays in word range -/

theorem top64_lt {digs : List Nat} {bts t : Nat} (h : top64 digs bts = some t)
    (hd : ∀ d ∈ digs, d < W) : t < W := by
  unfold top64 at h
  simp only at h
  split at h
  · simp at h
  · split at h
    · exact hd t (List.mem_of_getElem? h)
    · split at h
      · rename_i x1 x2 h1 h2
        simp at h; subst h
        rw [W_eq]
        apply Nat.or_lt_two_pow
        · rw [← W_eq]; exact Nat.mod_lt _ W_pos
        · have := hd x1 (List.mem_of_getElem? h1)
          rw [W_eq] at this
          exact Nat.lt_of_le_of_lt (Nat.div_le_self _ _) this
      · simp at h

theorem getElem_toDigits : ∀ (N n i : Nat), i < N → (toDigits N n)[i]? = some (n / W ^ i % W)
  | 0, _, _, h => by omega
  | N + 1, n, 0, _ => by simp [toDigits]
  | N + 1, n, i + 1, h => by
    simp only [toDigits, List.getElem?_cons_succ]
    rw [getElem_toDigits N (n / W) i (by omega), Nat.pow_succ, Nat.div_div_eq_div_mul, Nat.mul_comm]

/-- `top64` extracts bits `[bts-64, bts)` of the number -/
theorem top64_toDigits (N n bts : Nat) (h1 : 64 ≤ bts) (h2 : bts ≤ 64 * N) :
    top64 (toDigits N n) bts = some (n / 2 ^ (bts - 64) % W) := by
  unfold top64
  simp only
  rw [if_neg (by omega)]
  have hw := Nat.div_add_mod bts 64
  generalize hwd : bts / 64 = w at *
  generalize hkd : bts % 64 = k at *
  have hk : k < 64 := by rw [← hkd]; exact Nat.mod_lt _ (by decide)
  have hw1 : 1 ≤ w := by omega
  by_cases hk0 : k = 0
  · rw [if_pos hk0, getElem_toDigits N n (w - 1) (by omega), W_pow]
    have : 64 * (w - 1) = bts - 64 := by omega
    rw [this]
  · rw [if_neg hk0, getElem_toDigits N n (w - 1) (by omega), getElem_toDigits N n w (by omega)]
    simp only [Option.some.injEq]
    rw [W_pow, W_pow, W_eq]
    apply Nat.eq_of_testBit_eq
    intro i
    simp only [Nat.testBit_or, Nat.testBit_mod_two_pow, Nat.testBit_mul_two_pow, Nat.testBit_div_two_pow]
    by_cases hi : i < 64
    · by_cases hik : 64 - k ≤ i
      · have e1 : i - (64 - k) + 64 * w = i + (bts - 64) := by omega
        have e2 : ¬ (i + k < 64) := by omega
        have e3 : i - (64 - k) < 64 := by omega
        simp [hi, hik, e1, e2, e3]
      · have e1 : i + k + 64 * (w - 1) = i + (bts - 64) := by omega
        have e2 : i + k < 64 := by omega
        simp [hi, hik, e1, e2]
    · have e2 : ¬ (i + k < 64) := by omega
      simp [hi, e2]


end Ymq.Gcd
