/-
C11, explicit-stack formulation. Since fix e402536 the code's `walk_doubles` runs on an explicit
stack of `WalkFrame`s and `combine_double` is `combine_double_step` plus the requested walk
(src/relations.rs:336-401, 522-581). Ymq/Model/RelationsWalk.lean mirrors that code line by line
(`walkFrame`, `frameStep`, `walkIter`, `combineDoubleStep`, `addStack`, `runHistoryStack`); the
theorems of Ymq/Props/C11.lean are about the recursive formulation (`walkDoubles`, `add`,
`runHistory`). This file proves that the two formulations compute the same thing and restates the
store theorems for the model that mirrors the code.
-/
import Ymq.Props.C11
import Ymq.Lemmas.RelationsWalkCor

namespace Ymq.C11
open Ymq.Relations

/-- `combine_double` is `combine_double_step` followed by the walk it requests — for every walker,
every relation and every store, including all error cases (the 8 panic sites of
`combine_double_step` are those of the recursive model's `combineDouble`). -/
theorem combine_double_eq_step (walk : Nat → Store → M Store) (r : Relation) (p q : Nat) (s : Store) :
    combineDouble walk r p q s = combineDoubleStep r p q s >>= afterStep walk :=
  combineDouble_eq_step walk r p q s

/-- `walk_stack_eq_rec`: for every store and every requested walk, the explicit-stack loop and
the recursive walk return the same thing — same resulting store (hence same combination order),
same error — as soon as neither runs out of its fuel:
(1) a result of the loop with `k` iterations other than "out of iterations" is the result of the
recursive walk for every recursion fuel `> k`;
(2) a result of the recursive walk other than "out of fuel" is the result of the loop for every
sufficiently large number of iterations: in particular the loop TERMINATES whenever the recursion
does (and the recursion does within `doubles.len() + 1` levels: `add_no_panic`). -/
theorem walk_stack_eq_rec (root : Nat) (s : Store) :
    (∀ k R, walkStack k root s = R → R ≠ .error .fuel → ∀ f, k + 1 ≤ f → walkDoubles f root s = R) ∧
    (∀ f R, walkDoubles f root s = R → R ≠ .error .fuel → ∃ c, ∀ k, c ≤ k → walkStack k root s = R) :=
  ⟨fun _ _ h hR => walkStack_eq_rec_of_stack h hR, fun _ _ h hR => walkStack_eq_rec_of_rec h hR⟩

/-- the same for a whole `add`: whatever the explicit-stack `add` returns (other than "out of
iterations") is what the recursive `add` returns (when that does not run out of recursion fuel). -/
theorem add_stack_eq_add (r : Relation) (pq : Option (Nat × Nat)) (s : Store) (R R' : M Store)
    (h : add r pq s = R) (hR : R ≠ .error .fuel) (h' : addStack r pq s = R')
    (hR' : R' ≠ .error .fuel) : R' = R :=
  addStack_eq_add h hR h' hR'

/-- `add_inv` for the model that mirrors the code -/
theorem add_inv_stack (s s' : Store) (r : Relation) (pq : Option (Nat × Nat)) (hi : Inv s)
    (hn : s.n ≤ 2 ^ 512) (hin : InputOK s.n r pq) (h : addStack r pq s = .ok s') :
    Inv s' ∧ s'.n = s.n ∧ s'.maxlarge = s.maxlarge := by
  have := addStack_keeps h hi (by rw [X512_eq]; exact hn) hin
  exact ⟨this.2.2, this.1, this.2.1⟩

/-- `history_inv` for the model that mirrors the code: every finite history of `add`s (explicit
stack) from `RelationSet::new` ends in a store satisfying the invariant. -/
theorem history_inv_stack (n fbsize maxlarge : Nat) (hn : n ≤ 2 ^ 512)
    (ops : List (Relation × Option (Nat × Nat))) (hok : HistoryOK n ops) (s' : Store)
    (h : runHistoryStack ops (Store.new n fbsize maxlarge) = .ok s') : Inv s' ∧ s'.n = n := by
  have := runHistoryStack_keeps ops _ s' h (inv_new n fbsize maxlarge) (by rw [X512_eq]; exact hn) hok
  exact ⟨this.2.2, this.1⟩

/-- `cycles_valid` for the model that mirrors the code -/
theorem cycles_valid_stack (n fbsize maxlarge : Nat) (hn : n ≤ 2 ^ 512)
    (ops : List (Relation × Option (Nat × Nat))) (hok : HistoryOK n ops) (s' : Store)
    (h : runHistoryStack ops (Store.new n fbsize maxlarge) = .ok s') :
    ∀ r ∈ s'.cycles, r.cofactor = 1 ∧ (r.x : Int) * r.x ≡ fprod r.factors [ZMOD n] := by
  obtain ⟨hi, hn'⟩ := history_inv_stack n fbsize maxlarge hn ops hok s' h
  intro r hr
  obtain ⟨h1, h2⟩ := hi.cyc r hr
  refine ⟨h1, ?_⟩
  unfold Valid at h2
  rw [h1, hn'] at h2
  simpa using h2

/-- `doubles_disjoint` for the model that mirrors the code -/
theorem doubles_disjoint_stack (n fbsize maxlarge : Nat) (hn : n ≤ 2 ^ 512)
    (ops : List (Relation × Option (Nat × Nat))) (hok : HistoryOK n ops) (s' : Store)
    (h : runHistoryStack ops (Store.new n fbsize maxlarge) = .ok s') :
    ∀ p q b, ((p, q), b) ∈ s'.doubles → (∀ c, (p, c) ∉ s'.partials) ∧ (∀ c, (q, c) ∉ s'.partials) := by
  have hD0 : Disj (Store.new n fbsize maxlarge) := by intro k ⟨b, hb⟩; cases hb
  have := runHistoryStack_disj ops _ s' h (inv_new n fbsize maxlarge) (by rw [X512_eq]; exact hn) hok hD0
  intro p q b hb
  obtain ⟨h1, h2⟩ := this (p, q) ⟨b, hb⟩
  exact ⟨fun c hc => h1 ⟨c, hc⟩, fun c hc => h2 ⟨c, hc⟩⟩

/-- `add_no_panic` for the model that mirrors the code. PARTIAL: inside the callers' contract no
assertion, unwrap, index or debug assertion of `add`/`combine_double_step`/`walk_doubles` is
reachable; the errors left are a `u64` counter overflow and "out of iterations" of the `while` loop
with the model's bound `Store.iterFuel` (2·L²·(L+1)+1, L = doubles.len() + doubles_rev.len()).
What is missing for the full statement is an explicit iteration bound: termination itself is
proved (`walk_stack_eq_rec` (2): the loop ends whenever the recursion does, and the recursion ends
within doubles.len()+1 levels), the closed-form bound is validated by the correspondence runs only
(up to chains of 1000/2000 links against the model). -/
theorem add_no_panic_stack_partial (s : Store) (r : Relation) (pq : Option (Nat × Nat)) (hi : Inv s)
    (hi2 : Inv2 s) (hn : s.n ≤ 2 ^ 512) (hin : InputOK2 s r pq) :
    ∀ e, addStack r pq s = .error e → e = .overflow ∨ e = .fuel :=
  addStack_np hi hi2 (by rw [X512_eq]; exact hn) hin

/-- `history_no_panic` for the model that mirrors the code (PARTIAL in the same sense). -/
theorem history_no_panic_stack_partial (n fbsize maxlarge : Nat) (hn : n ≤ 2 ^ 512)
    (ops : List (Relation × Option (Nat × Nat))) (hok : HistoryOK2 n maxlarge ops) :
    ∀ e, runHistoryStack ops (Store.new n fbsize maxlarge) = .error e → e = .overflow ∨ e = .fuel :=
  runHistoryStack_np ops _ (inv_new n fbsize maxlarge) (inv2_new n fbsize maxlarge)
    (by rw [X512_eq]; exact hn) hok

/-- non-vacuity: on the history modulo 15 (single, partner, p = q double, double with one known
prime and a walk) both formulations return the same store. -/
example :
    let ops : List (Relation × Option (Nat × Nat)) :=
      [({ x := 2, cofactor := 77, cyclelen := 1, factors := [(2, 1)] }, some (11, 7)),
       ({ x := 3, cofactor := 7, cyclelen := 1, factors := [(2, 2), (3, 1)] }, none),
       ({ x := 5, cofactor := 7, cyclelen := 1, factors := [(5, 1), (-1, 1)] }, none),
       ({ x := 4, cofactor := 121, cyclelen := 1, factors := [] }, some (11, 11))]
    (runHistoryStack ops (Store.new 15 3 50)).toOption = (runHistory ops (Store.new 15 3 50)).toOption ∧
    ((runHistoryStack ops (Store.new 15 3 50)).toOption.map fun s => (s.cycles.length, s.partials.map (·.1),
      s.doubles.length)) = some (2, [7, 11], 0) := by
  decide +kernel

end Ymq.C11
