import Ymq.Drv.Util
import Ymq.Model.WiedemannKer

/-!
Driver op of the kernel path (C19): `im_ker_model <rows> <p> <v0>` → `panic` | `none` | `c0,c1,...`:
the model of `SparseMat::ker_p256(p)` replayed with the start vector `v0` that the real run drew
(follow-up of the harness op `im_ker_trace`, see props/c19_wied.py).
-/
namespace Ymq.Drv
open Ymq.Wied

private def parseSparseK (s : String) : Option Mat :=
  if s = "-" then some []
  else (s.splitOn ";").mapM (fun r =>
    if r = "-" then some []
    else (r.splitOn ",").mapM (fun e =>
      match e.splitOn ":" with
      | [j, c] => do
        let j ← parseNat j; let c ← parseInt c
        if j < 2 ^ 32 ∧ -(2 ^ 31 : Int) ≤ c ∧ c < 2 ^ 31 then some (j, c) else none
      | _ => none))

def handleWiedKer : Handler
  | ["im_ker_model", rows, p, v0] => do
    let rows ← parseSparseK rows; let p ← parseNat p; let v0 ← parseNatList v0
    if p ≥ 2 ^ 256 then none else
    some (match (mkMat rows).bind (fun m => kerP256 m p v0) with
      | none => "panic"
      | some none => "none"
      | some (some v) => showList v)
  | _ => none

end Ymq.Drv
