/-
C08 — Word-level division, inversion and square-root primitives are exact.
Only property theorems live here (helper lemmas: Ymq/Lemmas/Dividers*.lean, Inverter.lean,
Arith*.lean). Every theorem is about the executable model (Ymq/Model/{Dividers,Inverter,Arith});
`= some …` means "no panic site of the checked profile is reached and the value is …".
-/
import Ymq.Lemmas.Dividers

namespace Ymq.C08
open Ymq.Limbs (W val Wf)
open Ymq.Dividers

/-! ### Dividers: constructor -/

/-- `Dividers::new(p)` does not panic for p = 2 and for every 3 ≤ p < 2^30 that is not a power
of two (in particular for every prime below 2^30). -/
theorem new_no_panic (p : Nat) (h : p = 2 ∨ (3 ≤ p ∧ p < 2 ^ 30 ∧ ∀ k, p ≠ 2 ^ k)) :
    ∃ d, new p = some d ∧ d.p = p := by
  rcases h with rfl | ⟨h3, h30, hk⟩
  · exact ⟨_, new_two, rfl⟩
  · obtain ⟨d, hd⟩ := new_some p h3 h30 ((W_mod_ne_zero_iff p h30).mpr hk)
    exact ⟨d, hd, (new_ok p d hd).1⟩

/-- … and that is exactly the accepted domain: every other `p` panics
(`assert!(p >> 30 == 0)`, division by zero, `incorrect divider`). -/
theorem new_domain (p : Nat) (d : Div) (h : new p = some d) :
    p = 2 ∨ (3 ≤ p ∧ p < 2 ^ 30 ∧ ∀ k, p ≠ 2 ^ k) := by
  by_cases h2 : p = 2
  · exact Or.inl h2
  · obtain ⟨hp, g⟩ := new_good p d h h2
    have h3 := g.p3; have h30 := g.p30; have hnz := g.r64nz
    rw [hp] at h3 h30 hnz
    exact Or.inr ⟨h3, h30, (W_mod_ne_zero_iff p h30).mp hnz⟩

/-- Key lemma about the 64-bit reciprocal: `0 < m64·p − 2^(64+s64) ≤ p`, and the stored
`r64` is `2^64 mod p`. -/
theorem recip_key (p : Nat) (d : Div) (h : new p = some d) (h2 : p ≠ 2) :
    0 < d.m64 * p - 2 ^ (64 + d.s64) ∧ d.m64 * p - 2 ^ (64 + d.s64) ≤ p ∧
    2 ^ 63 < d.m64 ∧ d.m64 < 2 ^ 64 ∧ d.r64 = 2 ^ 64 % p := by
  obtain ⟨hp, g⟩ := new_good p d h h2
  have h1 := g.m_lo; have h2 := g.m_hi; have h3 := g.r64
  rw [hp] at h1 h2 h3
  exact ⟨by omega, by omega, g.m63, g.m64, by rw [h3, W_eq]⟩

/-- Key lemma about the 17-bit reciprocal used by `modu16`: `0 < m16·p − 2^s16 ≤ p`. -/
theorem recip16_key (p : Nat) (d : Div) (h : new p = some d) (h2 : p ≠ 2) :
    0 < d.m16 * p - 2 ^ d.s16 ∧ d.m16 * p - 2 ^ d.s16 ≤ p ∧ 2 ^ 16 < d.m16 ∧ d.m16 ≤ 2 ^ 17 := by
  obtain ⟨hp, g⟩ := new_good p d h h2
  have h1 := g.m16_lo; have h2 := g.m16_hi
  rw [hp] at h1 h2
  exact ⟨by omega, by omega, g.m16, g.m16'⟩

/-! ### Dividers: word operands -/

/-- `divmod64` returns the true quotient and remainder for every `u64` operand and every
divisor accepted by the constructor. -/
theorem divmod64_spec (p : Nat) (d : Div) (h : new p = some d) (n : Nat) (hn : n < 2 ^ 64) :
    divmod64 d n = some (n / p, n % p) := by
  obtain ⟨hp, ok⟩ := new_ok p d h
  rw [← hp]; exact divmod64_ok d ok n hn

/-- `modu63` is exact (without correction step) whenever the top bit of `n` is clear. -/
theorem modu63_spec (p : Nat) (d : Div) (h : new p = some d) (n : Nat) (hn : n < 2 ^ 63) :
    modu63 d n = some (n % p) := by
  obtain ⟨hp, ok⟩ := new_ok p d h
  rw [← hp]; exact modu63_ok d ok n hn

/-- `modu16` is exact for every `u16` operand. (The statement needs no bound `p < 2^16`: for
larger `p` the estimated quotient is 0.) -/
theorem modu16_spec (p : Nat) (d : Div) (h : new p = some d) (n : Nat) (hn : n < 2 ^ 16) :
    modu16 d n = some (n % p) := by
  obtain ⟨hp, ok⟩ := new_ok p d h
  rw [← hp]; exact modu16_ok d ok n hn

/-- `modi64` returns the least non-negative residue for every `i64`, `i64::MIN` included. -/
theorem modi64_spec (p : Nat) (d : Div) (h : new p = some d) (n : Int)
    (hlo : -2 ^ 63 ≤ n) (hhi : n < 2 ^ 63) :
    ∃ r, modi64 d n = some r ∧ (r : Int) = n % (p : Int) := by
  obtain ⟨hp, ok⟩ := new_ok p d h
  rw [← hp]; exact modi64_ok d ok n hlo hhi

/-- `mod_u128` is exact for every `u128` operand. -/
theorem mod_u128_spec (p : Nat) (d : Div) (h : new p = some d) (n : Nat) (hn : n < 2 ^ 128) :
    modU128 d n = some (n % p) := by
  obtain ⟨hp, ok⟩ := new_ok p d h
  rw [← hp]; exact modU128_ok d ok n hn

/-- non-vacuity: the constructor accepts 3, 274177 and 2^30 − 1, and the routines compute. -/
example : (∃ d, new 3 = some d) ∧ (∃ d, new 274177 = some d) ∧ (∃ d, new 1073741823 = some d) :=
  ⟨(new_no_panic 3 (Or.inr ⟨by decide, by decide, fun k hk => by
      have : W % 3 ≠ 0 := by decide
      exact (W_mod_ne_zero_iff 3 (by decide)).mp this k hk⟩)).imp fun _ h => h.1,
   new_some 274177 (by decide) (by decide) (by decide),
   new_some 1073741823 (by decide) (by decide) (by decide)⟩

end Ymq.C08
