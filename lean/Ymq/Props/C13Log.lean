/-
C13, log accumulation and threshold part of `src/sieve.rs` (model: Ymq/Model/SieveLog.lean, one model per
build profile: `dbg = true` checked, `dbg = false` release; lemmas: Ymq/Lemmas/SieveLog.lean).

`allHits fb s` is the list of ALL `blk[off] += log` sites of `sieve_block` in the order of the code (state `s`
after `Sieve.sieveBlock`), `hitSum hits x` the total added at position `x`, `byteAt blk x` the byte.
-/
import Ymq.Lemmas.SieveLogCover
import Ymq.Lemmas.SieveTableExact
import Ymq.Lemmas.SieveLogTables
import Ymq.Lemmas.SieveShapeClosed
import Ymq.Lemmas.SieveShapeRounds
import Ymq.Props.C13

namespace Ymq.C13
open Ymq.Sieve Ymq.SieveLog

/-- `accumulator_hits_spec`. Whenever the model of `sieve_block` returns the byte array: every `+=` site
addresses a byte of the block, and byte `x` is the sum of the logs added at `x` by the sites of the code —
exactly in the checked profile (no wrap happened), modulo 256 in release. Per prime, the sites add
`bitlen p` exactly once at every position congruent to one of its (one or two, different) cursors and nowhere
else (`pairHits_sum`: classes ≤ 12, unrolled loop + tails; `singleHits_sum`: classes 13..15), so with the
cursor invariant (`cursor_inv`) a prime contributes its bit length exactly at the positions where it has a root.
(The closed form over the primes is `class_loops_cover` / `accumulator_spec_small` / `accumulator_spec_hits`.) -/
theorem accumulator_hits_spec (dbg : Bool) (fb : FB) (s : State) (blk : Array Nat)
    (h : blkOf dbg fb s = some blk) :
    ∃ hits, allHits fb s = some hits ∧ blk.size = 32768 ∧ (∀ g ∈ hits, g.1 < 32768) ∧
      (∀ x, byteAt blk x % 256 = hitSum hits x % 256) ∧ (dbg = true → ∀ x, byteAt blk x = hitSum hits x) ∧
      -- what the sites of one prime add up to (p ≤ 4096: classes ≤ 12; p ≤ 32768: classes 13..15)
      (∀ p c1 c2 lg x l, 0 < p → p ≤ 4096 → c1 < p → ((c2 < p ∧ c2 ≠ c1) ∨ c2 = NONE) → x < 32768 →
        pairHits p c1 c2 = some l →
        hitSum (l.map fun y => (y, lg)) x =
          (if x % p = c1 then lg else 0) + (if c2 ≠ NONE ∧ x % p = c2 then lg else 0)) ∧
      (∀ p c lg x l, 0 < p → c < p → c ≠ NONE → x < 32768 → singleHits p c = some l →
        hitSum (l.map fun y => (y, lg)) x = if x % p = c then lg else 0) := by
  unfold blkOf at h
  simp only [Option.bind_eq_bind, Option.bind_eq_some_iff] at h
  obtain ⟨hits, hh, hacc⟩ := h
  obtain ⟨hsz, hin, hm, hd⟩ := accumulate_spec dbg hits _ _ hacc
  have h0 : ∀ x, byteAt (Array.replicate BLOCK 0) x = 0 := by
    intro x; unfold byteAt; rw [Array.getElem?_replicate]; split <;> rfl
  refine ⟨hits, hh, by simpa [BLOCK] using hsz, fun g hg => by simpa [BLOCK] using hin g hg, ?_, ?_, ?_, ?_⟩
  · intro x; rw [hm x, h0 x, Nat.zero_add]
  · intro hdb x; rw [hd hdb x, h0 x, Nat.zero_add]
  · intro p c1 c2 lg x l hp hp4 h1 h2 hx hl
    exact pairHits_sum hp hp4 h1 h2 (by simpa [BLOCK] using hx) hl
  · intro p c lg x l hp hc hcn hx hl
    exact singleHits_sum hp hc hcn (by simpa [BLOCK] using hx) hl

/-- `accumulator_overflow_iff` — the recorded finding `sieve-u8-log-accumulator-overflow` as a theorem about the
model: the checked model of `sieve_block` panics in the accumulation exactly when the logs added at some
position of the block sum to 256 or more; the release model never does (it wraps). -/
theorem accumulator_overflow_iff (fb : FB) (s : State) (hits : List (Nat × Nat)) (hh : allHits fb s = some hits)
    (hin : ∀ g ∈ hits, g.1 < 32768) :
    (blkOf true fb s = none ↔ ∃ x, x < 32768 ∧ 256 ≤ hitSum hits x) ∧ (∃ blk, blkOf false fb s = some blk) := by
  have h0 : ∀ x, byteAt (Array.replicate BLOCK 0) x = 0 := by
    intro x; unfold byteAt; rw [Array.getElem?_replicate]; split <;> rfl
  constructor
  · unfold blkOf
    simp only [hh, Option.bind_eq_bind, Option.bind_some]
    rw [accumulate_none_iff hits _ (fun g hg => by simpa [BLOCK] using hin g hg) (fun x => by rw [h0 x]; omega)]
    constructor
    · rintro ⟨x, hx, hs⟩
      rw [h0 x, Nat.zero_add] at hs
      exact ⟨x, by simpa [BLOCK] using hx, hs⟩
    · rintro ⟨x, hx, hs⟩
      exact ⟨x, by simpa [BLOCK] using hx, by rw [h0 x, Nat.zero_add]; exact hs⟩
  · unfold blkOf
    simp only [hh, Option.bind_eq_bind, Option.bind_some]
    -- release: every step returns
    have : ∀ (l : List (Nat × Nat)) (b : Array Nat), (∀ g ∈ l, g.1 < b.size) → ∃ b', accumulate false b l = some b' := by
      intro l
      induction l with
      | nil => intro b _; exact ⟨b, rfl⟩
      | cons g t ih =>
        intro b hb
        have hi := hb g List.mem_cons_self
        have hv : b[g.1]? = some b[g.1] := Array.getElem?_eq_getElem hi
        obtain ⟨v', hv'⟩ : ∃ v', addU8 false b[g.1] g.2 = some v' := by
          unfold addU8
          by_cases hge : b[g.1] + g.2 ≥ 256
          · exact ⟨(b[g.1] + g.2) % 256, by simp [hge]⟩
          · exact ⟨b[g.1] + g.2, by simp [hge]⟩
        obtain ⟨b', hb'⟩ := ih (b.setIfInBounds g.1 v') (fun q hq => by
          simpa using hb q (List.mem_cons_of_mem _ hq))
        exact ⟨b', by simp [accumulate, List.foldlM_cons, bind, hitStep, hv, hv']; exact hb'⟩
    exact this hits _ (fun g hg => by simpa [BLOCK] using hin g hg)

/-- `accumulator_no_overflow_hits`. If at every position the logs added are bounded by the bit lengths of
distinct primes dividing a value `v ≠ 0` with `bitlen v + #primes ≤ 256` (the hypothesis of `log_sum_bound`: with
true roots the primes hitting `x` divide the polynomial value there), no `+=` site of `sieve_block` overflows:
the checked model returns, and the release model returns the same bytes (no wrap).
(Formerly `accumulator_no_overflow_partial`: the link `hitSum hits x ≤ Σ bitlen p` over the primes with a root at `x` is
a hypothesis of this hits-level lemma; it is PROVED in `accumulator_no_overflow` for every `+=` site — cursors,
size-class tables, large tables — on the `new`/`rehash` path.) -/
theorem accumulator_no_overflow_hits (fb : FB) (s : State) (hits : List (Nat × Nat))
    (hh : allHits fb s = some hits) (hin : ∀ g ∈ hits, g.1 < 32768)
    (hdiv : ∀ x, x < 32768 → ∃ (ps : Finset ℕ) (v : ℕ), (∀ p ∈ ps, p.Prime) ∧ v ≠ 0 ∧ (∀ p ∈ ps, p ∣ v) ∧
      bitlen v + ps.card ≤ 256 ∧ hitSum hits x ≤ ∑ p ∈ ps, bitlen p) :
    ∃ blk, blkOf true fb s = some blk ∧ blkOf false fb s = some blk ∧ ∀ x, byteAt blk x = hitSum hits x := by
  have h0 : ∀ x, byteAt (Array.replicate BLOCK 0) x = 0 := by
    intro x; unfold byteAt; rw [Array.getElem?_replicate]; split <;> rfl
  have hsum : ∀ x, x < (Array.replicate BLOCK 0).size → byteAt (Array.replicate BLOCK 0) x + hitSum hits x < 256 := by
    intro x hx
    obtain ⟨ps, v, hp, hv, hd, hb, hle⟩ := hdiv x (by simpa [BLOCK] using hx)
    have := log_sum_lt ps hp v hv hd
    rw [h0 x]; omega
  obtain ⟨blk, e1, e2⟩ := accumulate_total false hits _ (fun g hg => by simpa [BLOCK] using hin g hg) hsum
  refine ⟨blk, by simp [blkOf, hh, e2], by simp [blkOf, hh, e1], ?_⟩
  intro x
  have := (accumulate_spec true hits _ _ e2).2.2.2 rfl x
  rw [this, h0 x, Nat.zero_add]

/-- `smooths_threshold_spec`. For a threshold ≥ 1, whenever the scan of `smooths` returns: with
`threshold2 = threshold − min(skipbits (+15 with a root hint), threshold/2) ≥ 1`, position `x` is reported exactly
when `x < 32768`, its byte exceeds `threshold2` (strictly: the 16-byte chunk test `> threshold2 − 1` and the
per-byte test `t <= threshold2 → continue`), and the corrected value — the byte plus the logs of the skipped
smallest primes with a root at `x` (`addSkipped`) plus the root-distance bonus (`rootComp`), in `u8` arithmetic of
the profile — reaches `threshold`. Consequently (with `listed_complete`) a position whose byte exceeds
`threshold2` and whose corrected value reaches the threshold is reported with every factor-base prime that has
a root there. (Threshold 0: the checked profile panics on `threshold2 - 1`, release reports nothing:
`reportScan` with `thrOf`.) -/
theorem smooths_threshold_spec (dbg : Bool) (fb : FB) (s : State) (blk : Array Nat) (threshold : Nat)
    (root : Option Nat) (res : List Nat) (hthr : 1 ≤ threshold)
    (h : reportScan dbg fb s blk threshold root = some res) :
    ∃ threshold2, threshold2Of fb s threshold root = some threshold2 ∧ 1 ≤ threshold2 ∧
      ∀ x, x ∈ res ↔ (x < 32768 ∧ ∃ t0 t1 t2, blk[x]? = some t0 ∧ threshold2 < t0 ∧
        addSkipped dbg fb s x t0 = some t1 ∧ rootComp dbg s (mzerosOf s) root x t1 = some t2 ∧ threshold ≤ t2) := by
  obtain ⟨t2, h1, h2, h3⟩ := reportScan_mem hthr h
  refine ⟨t2, h1, h2, ?_⟩
  intro x
  rw [h3 x, scanElem_some_iff]
  simp [BLOCK]

/-- a synthetic factor base for the witness: 18 primes of 15 bits, roots 5 and 6 for all of them. -/
def witnessFB : FB := FB.ofPrimes #[16411, 16417, 16421, 16427, 16433, 16447, 16451, 16453, 16477, 16481, 16487, 16493, 16519, 16529, 16547, 16553, 16561, 16567]
def witnessR1 : Array Nat := #[5, 5, 5, 5, 5, 5, 5, 5, 5, 5, 5, 5, 5, 5, 5, 5, 5, 5]
def witnessR2 : Array Nat := #[6, 6, 6, 6, 6, 6, 6, 6, 6, 6, 6, 6, 6, 6, 6, 6, 6, 6]

/-- `accumulator_overflow_witness`: on the synthetic factor base above (valid: increasing primes, reduced
different roots) position 5 of the first block receives 18·15 = 270 ≥ 256, so the checked model of `sieve_block`
panics while the release model returns (the byte wraps to 14): the finding as a theorem about the model. -/
theorem accumulator_overflow_witness (s0 s : State)
    (h0 : Sieve.new 0 1 witnessFB witnessR1 witnessR2 none = some s0) (h1 : sieveBlock witnessFB s0 = some s) :
    blkOf true witnessFB s = none ∧ ∃ blk, blkOf false witnessFB s = some blk := by
  have key : (((Sieve.new 0 1 witnessFB witnessR1 witnessR2 none).bind (sieveBlock witnessFB)).bind
      (allHits witnessFB)).map (fun hs => (decide (∀ g ∈ hs, g.1 < 32768), hitSum hs 5)) = some (true, 270) := by
    decide +kernel
  rw [h0, Option.bind_some, h1, Option.bind_some] at key
  cases hh : allHits witnessFB s with
  | none => rw [hh] at key; simp at key
  | some hits =>
    rw [hh] at key
    simp only [Option.map_some, Option.some.injEq, Prod.mk.injEq, decide_eq_true_eq] at key
    obtain ⟨hin, hsum⟩ := key
    obtain ⟨a, b⟩ := accumulator_overflow_iff witnessFB s hits hh hin
    exact ⟨a.2 ⟨5, by omega, by omega⟩, b⟩

/-- non-vacuity of the witness: the two calls return. -/
example : ((Sieve.new 0 1 witnessFB witnessR1 witnessR2 none).bind (sieveBlock witnessFB)).isSome = true := by
  decide +kernel

/-! ### closed form: the class loops visit every non-skipped cursor exactly once -/

/-- the state in which `smooths` runs: cursors of block `b` in `lo_prev`. -/
theorem state_for_block {fb : FB} (hfb : fb.WF) {r1 r2 : Array Nat} (hr : RootsOK fb r1 r2) {offset : Int}
    {nblocks : Nat} {recycled : Option (Array Table × Array LTable)} (hrec : RecycledOK recycled) {s0 s1 s : State}
    (h0 : Sieve.new offset nblocks fb r1 r2 recycled = some s0) {b : Nat} (h1 : runBlocks fb b s0 = some s1)
    (h2 : sieveBlock fb s1 = some s) {nS : Nat} (hnS : fb.ibl[16]? = some nS) :
    CurInv fb r1 r2 s.idxskip nS b s.loPrev ∧ s.idxskip % 2 = 0 := by
  obtain ⟨_, _, _, inv0⟩ := new_spec hfb hr hrec hnS h0
  obtain ⟨inv, _, _, _⟩ := runBlocks_spec hfb hnS b 0 s0 s1 inv0 h1
  simp only [Nat.zero_add] at inv
  obtain ⟨inv2, hprev, _⟩ := sieveBlock_spec hfb hnS inv h2
  exact ⟨hprev, inv2.skip_even⟩

/-- `class_loops_cover`. After `Sieve::new` (fresh or recycled tables), `b` rounds and `sieve_block()`: the `+=` sites
of the class loops of `sieve_block` — classes 2..12 with the 4-at-a-time unrolled loop and the two tail loops,
classes 13..15 one cursor at a time, index ranges taken from `idx_by_log` and clipped at `idxskip` — add at every
position `x` of the block exactly `Σ_{k = idxskip}^{2·nS−1} rootF k`: every non-skipped cursor slot (`nS` = number of
primes below 32768; slot `2i` ↔ root `r1[i]`, slot `2i+1` ↔ root `r2[i]` when it differs from `r1[i]`) is visited
exactly once and contributes the bit length of its prime exactly at the positions of its arithmetic progression
`b·32768 + x ≡ root (mod p)`; the skipped slots `k < idxskip` contribute nothing. -/
theorem class_loops_cover (fb : FB) (hfb : fb.WF) (r1 r2 : Array Nat) (hr : RootsOK fb r1 r2)
    (offset : Int) (nblocks : Nat) (recycled : Option (Array Table × Array LTable)) (hrec : RecycledOK recycled)
    (s0 s1 s : State) (h0 : Sieve.new offset nblocks fb r1 r2 recycled = some s0)
    (b : Nat) (h1 : runBlocks fb b s0 = some s1) (h2 : sieveBlock fb s1 = some s)
    (nS : Nat) (hnS : fb.ibl[16]? = some nS)
    (l : List (Nat × Nat)) (hl : smallHits fb s.idxskip s.loPrev = some l) :
    ∀ x, x < 32768 → hitSum l x = rangeSum (rootF fb r1 r2 b x) s.idxskip (2 * nS - s.idxskip) := by
  obtain ⟨hprev, hev⟩ := state_for_block hfb hr hrec h0 h1 h2 hnS
  intro x hx
  rw [smallHits_sum hfb hnS hev hprev (by simpa [BLOCK] using hx) hl]
  exact rangeSum_congr (fun k hk1 hk2 => slotF_eq_rootF hfb hnS hprev (by omega) hk1)

/-- `accumulator_spec_hits`: the general form (closed form for the primes below the block size + bucket tables).
Whenever the model of `sieve_block` returns the byte array of block `b`: byte `x` is
`Σ_{k = idxskip}^{2·nS−1} rootF k` — the sum of `bitlen p` over the non-skipped factor-base primes `p < 32768` with a
root at `x`, each prime counted once per distinct root (`class_loops_cover`) — plus the logs read back from the
bucket tables (`tableHits`), exactly in the checked profile and modulo 256 in release. When the factor base has no
prime ≥ 32768 (`s.tables.size = 0`: no bucket table exists and the code returns before the table loops) this is
the complete closed form `blk[x] = Σ bitlen p over the non-skipped primes with a root at x`.
(Formerly `accumulator_spec_partial`: the table term `hitSum th x` is expanded into
`Σ bitlen p over the primes ≥ 32768 with a root at x` by `accumulator_spec` — any factor-base size, any number of
`rehash` rounds — through `new_shape`, `rehash_shape`, `tableHits_rel` and `allClassSum_collapse`.) -/
theorem accumulator_spec_hits (dbg : Bool) (fb : FB) (hfb : fb.WF) (r1 r2 : Array Nat) (hr : RootsOK fb r1 r2)
    (offset : Int) (nblocks : Nat) (recycled : Option (Array Table × Array LTable)) (hrec : RecycledOK recycled)
    (s0 s1 s : State) (h0 : Sieve.new offset nblocks fb r1 r2 recycled = some s0)
    (b : Nat) (h1 : runBlocks fb b s0 = some s1) (h2 : sieveBlock fb s1 = some s)
    (nS : Nat) (hnS : fb.ibl[16]? = some nS) (blk : Array Nat) (h : blkOf dbg fb s = some blk) :
    ∃ th, tableHits s = some th ∧ (s.tables.size = 0 → th = []) ∧ ∀ x, x < 32768 →
      byteAt blk x % 256 = (rangeSum (rootF fb r1 r2 b x) s.idxskip (2 * nS - s.idxskip) + hitSum th x) % 256 ∧
      (dbg = true → byteAt blk x = rangeSum (rootF fb r1 r2 b x) s.idxskip (2 * nS - s.idxskip) + hitSum th x) := by
  obtain ⟨hits, hh, _, _, hm, hd, _⟩ := accumulator_hits_spec dbg fb s blk h
  unfold allHits at hh
  simp only [Option.bind_eq_bind, Option.bind_eq_some_iff, Option.some.injEq] at hh
  obtain ⟨l, hl, th, hth, rfl⟩ := hh
  have hc := class_loops_cover fb hfb r1 r2 hr offset nblocks recycled hrec s0 s1 s h0 b h1 h2 nS hnS l hl
  refine ⟨th, hth, ?_, ?_⟩
  · intro h0'
    unfold tableHits at hth
    simp only [h0', if_true, Option.some.injEq] at hth
    exact hth.symm
  · intro x hx
    constructor
    · rw [hm x, hitSum_append, hc x hx]
    · intro hdb; rw [hd hdb x, hitSum_append, hc x hx]

/-- `accumulator_spec_small`: the full closed form `blk[x] = Σ bitlen p over the non-skipped primes with a root at x`
(exact in the checked profile, modulo 256 in release) for factor bases whose primes are all below the block size
(`s.tables.size = 0`: no bucket table exists). -/
theorem accumulator_spec_small (dbg : Bool) (fb : FB) (hfb : fb.WF) (r1 r2 : Array Nat) (hr : RootsOK fb r1 r2)
    (offset : Int) (nblocks : Nat) (recycled : Option (Array Table × Array LTable)) (hrec : RecycledOK recycled)
    (s0 s1 s : State) (h0 : Sieve.new offset nblocks fb r1 r2 recycled = some s0)
    (b : Nat) (h1 : runBlocks fb b s0 = some s1) (h2 : sieveBlock fb s1 = some s)
    (nS : Nat) (hnS : fb.ibl[16]? = some nS) (hsmall : s.tables.size = 0)
    (blk : Array Nat) (h : blkOf dbg fb s = some blk) :
    ∀ x, x < 32768 →
      byteAt blk x % 256 = rangeSum (rootF fb r1 r2 b x) s.idxskip (2 * nS - s.idxskip) % 256 ∧
      (dbg = true → byteAt blk x = rangeSum (rootF fb r1 r2 b x) s.idxskip (2 * nS - s.idxskip)) := by
  obtain ⟨th, _, hth, hx⟩ := accumulator_spec_hits dbg fb hfb r1 r2 hr offset nblocks recycled hrec s0 s1 s h0 b h1
    h2 nS hnS blk h
  have := hth hsmall
  subst this
  intro x hx'
  have := hx x hx'
  simpa [hitSum_nil] using this

/-- `accumulator_spec_tables`: the full closed form for factor bases below 2^18 (no `SieveTableLarge`: every prime
≥ 32768 is in one of the size-class tables of 16, 17 or 18 bits), on the path `Sieve::new` (fresh, or recycled tables
of the same `nblocks`) → `b < nblocks` rounds → `sieve_block()`, when no size-class table has counted an overflow
(`n_overflows = 0`, the case in which nothing can be lost) and the two roots of every prime ≥ 32768 differ
(`RootsDistinct`: the code registers the root twice otherwise). Byte `x` of block `b` is
`Σ_{k = idxskip}^{2·nS−1} rootF k + Σ_{pidx = nS}^{#primes−1} tabF pidx`: the sum of `bitlen p` over the non-skipped
primes `p < 32768` with a root at `x` (once per distinct root) plus the sum of `bitlen p` over ALL primes `p ≥ 32768`
with `(b·32768 + x) mod p ∈ {r1, r2}` — exactly in the checked profile, modulo 256 in release. `table_bucket_exact`
is carried through the nested loops of `Sieve::new` (`new_tablesExact`: which adds are made for which prime and root
into which bucket) and through the read loops of `sieve_block` (`tableHits_sum`). -/
theorem accumulator_spec_tables (dbg : Bool) (fb : FB) (hfb : fb.WF) (r1 r2 : Array Nat) (hr : RootsOK fb r1 r2)
    (hd : RootsDistinct fb r1 r2) (offset : Int) (nblocks : Nat) (recycled : Option (Array Table × Array LTable))
    (hrec : RecycledBlens nblocks recycled)
    (s0 s1 s : State) (h0 : Sieve.new offset nblocks fb r1 r2 recycled = some s0)
    (b : Nat) (hb : b < nblocks) (h1 : runBlocks fb b s0 = some s1) (h2 : sieveBlock fb s1 = some s)
    (nS : Nat) (hnS : fb.ibl[16]? = some nS) (hl0 : s.ltables.size = 0)
    (hov : ∀ (ti : Nat) (t : Table), s.tables[ti]? = some t → t.nOverflows = 0)
    (blk : Array Nat) (h : blkOf dbg fb s = some blk) :
    ∀ x, x < 32768 →
      byteAt blk x % 256 = (rangeSum (rootF fb r1 r2 b x) s.idxskip (2 * nS - s.idxskip) +
        rangeSum (tabF fb r1 r2 (nblocks * BLOCK) (b * BLOCK + x)) nS (fb.primes.size - nS)) % 256 ∧
      (dbg = true → byteAt blk x = rangeSum (rootF fb r1 r2 b x) s.idxskip (2 * nS - s.idxskip) +
        rangeSum (tabF fb r1 r2 (nblocks * BLOCK) (b * BLOCK + x)) nS (fb.primes.size - nS)) := by
  have hrecOK := hrec.ok
  obtain ⟨th, hth, _, hx⟩ := accumulator_spec_hits dbg fb hfb r1 r2 hr offset nblocks recycled hrecOK s0 s1 s h0 b
    h1 h2 nS hnS blk h
  obtain ⟨hb0, hn0, _, hinv0⟩ := new_spec hfb hr hrecOK hnS h0
  obtain ⟨hinv1, hb1, _, _⟩ := runBlocks_spec hfb hnS b 0 s0 s1 hinv0 h1
  obtain ⟨hinv2, _, hb2, _, _, ht2, hlt2, _⟩ := sieveBlock_spec hfb hnS hinv1 h2
  obtain ⟨et, elt⟩ := runBlocks_tables fb b s0 s1 h1
  have etab : s.tables = s0.tables := ht2.trans et
  have hblk : s.blkNo = b := by rw [hb2, hb1, hb0]; omega
  obtain ⟨maxprime, hmax, hts, hlts⟩ := hinv2.tsize
  have hml : bitlen maxprime ≤ 18 := by omega
  have hex : TablesExact fb r1 r2 (nblocks * BLOCK) nblocks s.tables := by
    rw [etab]; exact new_tablesExact hrec h0 (by rw [← etab]; exact hov)
  have hnd : ∀ (tidx idx1 : Nat), fb.ibl[tidx + 16]? = some idx1 → ∀ pidx, idx1 ≤ pidx →
      (offsL fb r1 r2 (nblocks * BLOCK) pidx).Nodup := by
    intro tidx idx1 hi pidx hle
    apply offsL_nodup hfb hr hd
    intro p hp
    have := hfb.ibl_spec _ _ _ _ hi hp
    have h16 : ¬ bitlen p < 15 + 1 := by omega
    rw [bitlen_lt_succ_iff] at h16
    norm_num at h16; exact h16
  intro x hx'
  have hsum := tableHits_sum hex (by omega) hl0 hnd (x := x) (by simp only [BLOCK]; exact hx') hth
  rw [hblk, tableSum_collapse hfb hr hnS hmax hml hts] at hsum
  have := hx x hx'
  rw [hsum] at this
  exact this

/-- non-vacuity of `accumulator_spec_tables`: a factor base with a 16-bit and a 17-bit prime (two size-class tables,
no large table), `new` and `sieve_block` return and no overflow is counted. -/
example : ((Sieve.new 0 1 (FB.ofPrimes #[3, 5, 32771, 65537]) #[1, 2, 7, 65000] #[2, 3, 9, 70] none).bind fun s0 =>
    (sieveBlock (FB.ofPrimes #[3, 5, 32771, 65537]) s0).map fun s =>
      (s.tables.size, s.ltables.size, s.tables.all fun t => t.nOverflows == 0)) = some (2, 0, true) := by
  decide +kernel

/-- helper: the table term in closed form (the part of `accumulator_spec_tables` about `tableHits`). -/
theorem tableHits_closed {fb : FB} (hfb : fb.WF) {r1 r2 : Array Nat} (hr : RootsOK fb r1 r2)
    (hd : RootsDistinct fb r1 r2) {offset : Int} {nblocks : Nat} {recycled : Option (Array Table × Array LTable)}
    (hrec : RecycledBlens nblocks recycled)
    {s0 s1 s : State} (h0 : Sieve.new offset nblocks fb r1 r2 recycled = some s0)
    {b : Nat} (hb : b < nblocks) (h1 : runBlocks fb b s0 = some s1) (h2 : sieveBlock fb s1 = some s)
    {nS : Nat} (hnS : fb.ibl[16]? = some nS) (hl0 : s.ltables.size = 0)
    (hov : ∀ (ti : Nat) (t : Table), s.tables[ti]? = some t → t.nOverflows = 0)
    {th : List (Nat × Nat)} (hth : tableHits s = some th) :
    ∀ x, x < 32768 →
      hitSum th x = rangeSum (tabF fb r1 r2 (nblocks * BLOCK) (b * BLOCK + x)) nS (fb.primes.size - nS) := by
  have hrecOK := hrec.ok
  obtain ⟨hb0, hn0, _, hinv0⟩ := new_spec hfb hr hrecOK hnS h0
  obtain ⟨hinv1, hb1, _, _⟩ := runBlocks_spec hfb hnS b 0 s0 s1 hinv0 h1
  obtain ⟨hinv2, _, hb2, _, _, ht2, hlt2, _⟩ := sieveBlock_spec hfb hnS hinv1 h2
  obtain ⟨et, elt⟩ := runBlocks_tables fb b s0 s1 h1
  have etab : s.tables = s0.tables := ht2.trans et
  have hblk : s.blkNo = b := by rw [hb2, hb1, hb0]; omega
  obtain ⟨maxprime, hmax, hts, hlts⟩ := hinv2.tsize
  have hml : bitlen maxprime ≤ 18 := by omega
  have hex : TablesExact fb r1 r2 (nblocks * BLOCK) nblocks s.tables := by
    rw [etab]; exact new_tablesExact hrec h0 (by rw [← etab]; exact hov)
  have hnd : ∀ (tidx idx1 : Nat), fb.ibl[tidx + 16]? = some idx1 → ∀ pidx, idx1 ≤ pidx →
      (offsL fb r1 r2 (nblocks * BLOCK) pidx).Nodup := by
    intro tidx idx1 hi pidx hle
    apply offsL_nodup hfb hr hd
    intro p hp
    have := hfb.ibl_spec _ _ _ _ hi hp
    have h16 : ¬ bitlen p < 15 + 1 := by omega
    rw [bitlen_lt_succ_iff] at h16
    norm_num at h16; exact h16
  intro x hx'
  have hsum := tableHits_sum hex (by omega) hl0 hnd (x := x) (by simp only [BLOCK]; exact hx') hth
  rw [hblk, tableSum_collapse hfb hr hnS hmax hml hts] at hsum
  exact hsum

/-- `accumulator_no_overflow_tables`: `accumulator_no_overflow` for factor bases below 2^18 on the path of
`accumulator_spec_tables` (no counted overflow in the size-class tables, distinct roots for the primes ≥ 32768): if at
every position `x` the primes with a root at `x` — non-skipped primes below the block size and ALL primes ≥ 32768 — belong
to a finite set of primes dividing some `v ≠ 0` with `bitlen v + #primes ≤ 256` (the hypothesis of `log_sum_bound`), then
no `+=` site of `sieve_block` overflows, table loops included: the checked model returns whenever the release model
does, with the same bytes, and every byte is the closed form (no wrap). -/
theorem accumulator_no_overflow_tables (fb : FB) (hfb : fb.WF) (r1 r2 : Array Nat) (hr : RootsOK fb r1 r2)
    (hd : RootsDistinct fb r1 r2) (offset : Int) (nblocks : Nat) (recycled : Option (Array Table × Array LTable))
    (hrec : RecycledBlens nblocks recycled)
    (s0 s1 s : State) (h0 : Sieve.new offset nblocks fb r1 r2 recycled = some s0)
    (b : Nat) (hb : b < nblocks) (h1 : runBlocks fb b s0 = some s1) (h2 : sieveBlock fb s1 = some s)
    (nS : Nat) (hnS : fb.ibl[16]? = some nS) (hl0 : s.ltables.size = 0)
    (hov : ∀ (ti : Nat) (t : Table), s.tables[ti]? = some t → t.nOverflows = 0)
    (blk0 : Array Nat) (hrel : blkOf false fb s = some blk0)
    (hdiv : ∀ x, x < 32768 → ∃ (ps : Finset ℕ) (v : ℕ), (∀ p ∈ ps, p.Prime) ∧ v ≠ 0 ∧ (∀ p ∈ ps, p ∣ v) ∧
      bitlen v + ps.card ≤ 256 ∧
      ∀ i p o, (s.idxskip ≤ 2 * i ∨ 32768 ≤ p) → fb.primes[i]? = some p → (r1[i]? = some o ∨ r2[i]? = some o) →
        (b * 32768 + x) % p = o → p ∈ ps) :
    blkOf true fb s = some blk0 ∧
      ∀ x, x < 32768 → byteAt blk0 x = rangeSum (rootF fb r1 r2 b x) s.idxskip (2 * nS - s.idxskip) +
        rangeSum (tabF fb r1 r2 (nblocks * BLOCK) (b * BLOCK + x)) nS (fb.primes.size - nS) := by
  have hrecOK := hrec.ok
  obtain ⟨hprev, hev⟩ := state_for_block hfb hr hrecOK h0 h1 h2 hnS
  obtain ⟨hits, hh, _, hin, _, _, _⟩ := accumulator_hits_spec false fb s blk0 hrel
  have hh' := hh
  unfold allHits at hh'
  simp only [Option.bind_eq_bind, Option.bind_eq_some_iff, Option.some.injEq] at hh'
  obtain ⟨l, hl, th, hth, rfl⟩ := hh'
  have htab := tableHits_closed hfb hr hd hrec h0 hb h1 h2 hnS hl0 hov hth
  have hnn := hfb.ibl_le _ _ hnS
  have hbound : ∀ x, x < 32768 → ∃ (ps : Finset ℕ) (v : ℕ), (∀ p ∈ ps, p.Prime) ∧ v ≠ 0 ∧ (∀ p ∈ ps, p ∣ v) ∧
      bitlen v + ps.card ≤ 256 ∧ hitSum (l ++ th) x ≤ ∑ p ∈ ps, bitlen p := by
    intro x hx
    obtain ⟨ps, v, hp, hv, hdv, hbd, hmem⟩ := hdiv x hx
    refine ⟨ps, v, hp, hv, hdv, hbd, ?_⟩
    rw [hitSum_append, htab x hx, smallHits_sum hfb hnS hev hprev (by simpa [BLOCK] using hx) hl,
      ← Finset.sum_filter_add_sum_filter_not ps (fun p => p < 32768) bitlen]
    refine add_le_add (smallSum_le hfb hnS hev hprev _ ?_) (tabSum_le hfb hr _ ?_)
    · intro i p hge hi hpi hpos
      have hps := prime_small hfb hnS (k := 2 * i) (by omega) (by
        have : (2 * i) / 2 = i := by omega
        rw [this]; exact hpi)
      refine Finset.mem_filter.2 ⟨?_, hps⟩
      obtain ⟨o1, o2, ho1, ho2, _⟩ := hr i p hpi
      have e0 : (2 * i) / 2 = i := by omega
      have e1 : (2 * i + 1) / 2 = i := by omega
      rw [slotF_eq_rootF hfb hnS hprev (by omega) hge, slotF_eq_rootF hfb hnS hprev (by omega) (by omega)] at hpos
      unfold rootF at hpos
      simp only [e0, e1, hpi, ho1, ho2] at hpos
      by_cases c0 : ((2 * i) % 2 = 0 ∨ o1 ≠ o2) ∧ (b * BLOCK + x) % p = (if (2 * i) % 2 = 0 then o1 else o2)
      · have m0 : (2 * i) % 2 = 0 := by omega
        simp only [m0, if_true] at c0
        exact hmem i p o1 (Or.inl hge) hpi (Or.inl ho1) (by simpa [BLOCK] using c0.2)
      · rw [if_neg c0, Nat.zero_add] at hpos
        by_cases c1 : ((2 * i + 1) % 2 = 0 ∨ o1 ≠ o2) ∧
            (b * BLOCK + x) % p = (if (2 * i + 1) % 2 = 0 then o1 else o2)
        · have m1 : ¬ (2 * i + 1) % 2 = 0 := by omega
          simp only [m1, if_false] at c1
          exact hmem i p o2 (Or.inl hge) hpi (Or.inr ho2) (by simpa [BLOCK] using c1.2)
        · rw [if_neg c1] at hpos; omega
    · intro i p hge hpi hpos
      have hbig : 32768 ≤ p := by
        have := hfb.ibl_spec _ _ _ _ hnS hpi
        have h16 : ¬ bitlen p < 15 + 1 := by omega
        rw [bitlen_lt_succ_iff] at h16
        norm_num at h16; exact h16
      refine Finset.mem_filter.2 ⟨?_, by omega⟩
      obtain ⟨o1, o2, ho1, ho2, _⟩ := hr i p hpi
      unfold tabF at hpos
      simp only [hpi, ho1, ho2] at hpos
      by_cases c : b * BLOCK + x < nblocks * BLOCK ∧ ((b * BLOCK + x) % p = o1 ∨ (b * BLOCK + x) % p = o2)
      · rcases c.2 with c1 | c2
        · exact hmem i p o1 (Or.inr hbig) hpi (Or.inl ho1) (by simpa [BLOCK] using c1)
        · exact hmem i p o2 (Or.inr hbig) hpi (Or.inr ho2) (by simpa [BLOCK] using c2)
      · rw [if_neg c] at hpos; omega
  obtain ⟨blk, e1, e2, e3⟩ := accumulator_no_overflow_hits fb s (l ++ th) hh hin hbound
  rw [hrel] at e2
  have := Option.some.inj e2
  subst this
  refine ⟨e1, ?_⟩
  intro x hx
  rw [e3 x, hitSum_append, htab x hx, class_loops_cover fb hfb r1 r2 hr offset nblocks recycled hrecOK s0 s1 s h0 b h1
    h2 nS hnS l hl x hx]

/-- helper: the table term for ANY factor-base size on the path `new → rounds → sieve_block`: at most the closed form,
and equal to it when no table has lost an entry. -/
theorem tableHits_closed_gen {fb : FB} (hfb : fb.WF) {r1 r2 : Array Nat} (hr : RootsOK fb r1 r2)
    (hd : RootsDistinct fb r1 r2) {offset : Int} {nblocks : Nat} {recycled : Option (Array Table × Array LTable)}
    (hrec : RecycledLens nblocks recycled)
    {s0 s1 s : State} (h0 : Sieve.new offset nblocks fb r1 r2 recycled = some s0)
    {b : Nat} (hb : b < nblocks) (h1 : runBlocks fb b s0 = some s1) (h2 : sieveBlock fb s1 = some s)
    {nS : Nat} (hnS : fb.ibl[16]? = some nS) {th : List (Nat × Nat)} (hth : tableHits s = some th) :
    ∀ x, x < 32768 →
      hitSum th x ≤ rangeSum (tabF fb r1 r2 (nblocks * BLOCK) (b * BLOCK + x)) nS (fb.primes.size - nS) ∧
      ((∀ (ti : Nat) (t : Table), s.tables[ti]? = some t → t.nOverflows = 0) →
        (∀ (ti : Nat) (t : LTable), s.ltables[ti]? = some t → t.overflows.size = 0) →
        hitSum th x = rangeSum (tabF fb r1 r2 (nblocks * BLOCK) (b * BLOCK + x)) nS (fb.primes.size - nS)) := by
  have hrecOK := hrec.1.ok
  obtain ⟨hb0, hn0, _, hinv0⟩ := new_spec hfb hr hrecOK hnS h0
  obtain ⟨hinv1, hb1, _, _⟩ := runBlocks_spec hfb hnS b 0 s0 s1 hinv0 h1
  obtain ⟨hinv2, _, hb2, _, _, ht2, hlt2, _⟩ := sieveBlock_spec hfb hnS hinv1 h2
  obtain ⟨et, elt⟩ := runBlocks_tables fb b s0 s1 h1
  have etab : s.tables = s0.tables := ht2.trans et
  have eltab : s.ltables = s0.ltables := hlt2.trans elt
  have hblk : s.blkNo = b := by rw [hb2, hb1, hb0]; omega
  obtain ⟨maxprime, hmax, hts, hlts⟩ := hinv2.tsize
  obtain ⟨hT0, hL0⟩ := new_shape hrec h0
  rw [← etab] at hT0
  rw [← eltab] at hL0
  have hndT : ∀ (tidx idx1 : Nat), fb.ibl[tidx + 16]? = some idx1 → ∀ pidx, idx1 ≤ pidx →
      (offsL fb r1 r2 (nblocks * BLOCK) pidx).Nodup := fun tidx idx1 hi pidx hle =>
    offsL_nodup hfb hr hd (fun p hp => big_of_class hfb (by omega) hi hle hp)
  have hndV : ∀ (tidx idx1 : Nat), fb.ibl[tidx + 19]? = some idx1 → ∀ pidx, idx1 ≤ pidx →
      (offsV fb r1 r2 (nblocks * BLOCK) pidx).Nodup := fun tidx idx1 hi pidx hle =>
    offsV_nodup hfb hr hd (fun p hp => big_of_class hfb (by omega) hi hle hp)
  have hTL : s.tables.size = 0 → s.ltables.size = 0 := by omega
  intro x hx'
  have hxB : x < BLOCK := by simp only [BLOCK]; exact hx'
  have hcol := allClassSum_collapse (interval := nblocks * BLOCK) (X := s.blkNo * BLOCK + x) hfb hr hnS hmax hts hlts
    (offsL fb r1 r2 (nblocks * BLOCK)) (offsV fb r1 r2 (nblocks * BLOCK))
    (fun pidx p o1 o2 hp h1 h2 => by
      obtain ⟨o1', o2', h1', h2', hl1, hl2⟩ := hr _ _ hp
      rw [h1] at h1'; rw [h2] at h2'
      have := Option.some.inj h1'; subst this
      have := Option.some.inj h2'; subst this
      exact mem_offsL hfb hp h1 h2 hl1 hl2)
    (fun pidx p o1 o2 hp h1 h2 => by
      obtain ⟨o1', o2', h1', h2', hl1, hl2⟩ := hr _ _ hp
      rw [h1] at h1'; rw [h2] at h2'
      have := Option.some.inj h1'; subst this
      have := Option.some.inj h2'; subst this
      exact mem_offsV hfb hp h1 h2 hl1 hl2)
  rw [hblk] at hcol
  constructor
  · have := tableHits_rel (fun a b => a ≤ b) List.Sublist (le_refl 0) (fun a b c d h1 h2 => Nat.add_le_add h1 h2)
      (x := x) (fun a b m hab => hitSum_sublist (hab.map m) x) hT0.sub hL0.sub (by omega) hTL hndT hndV hxB hth
    rw [hblk, hcol] at this
    exact this
  · intro hzT hzL
    have := tableHits_rel (fun a b => a = b) Eq rfl (fun a b c d h1 h2 => by rw [h1, h2])
      (x := x) (fun a b m hab => by rw [hab]) (hT0.eq hzT) (hL0.eq hzL) (by omega) hTL hndT hndV hxB hth
    rw [hblk, hcol] at this
    exact this

/-- `accumulator_spec_large`: the full closed form for ANY factor-base size (size-class tables and `SieveTableLarge`)
on the path `Sieve::new` (fresh tables, or recycled tables of the same `nblocks`) → `b < nblocks` rounds →
`sieve_block()`, when no table has lost an entry (`n_overflows = 0` in the size-class tables, empty overflow vector in
the large tables) and the two roots of every prime ≥ 32768 differ: byte `x` of block `b` is the sum of `bitlen p` over
the non-skipped primes `p < 32768` with a root at `x` (once per distinct root) plus the sum of `bitlen p` over ALL
primes `p ≥ 32768` with `(b·32768 + x) mod p ∈ {r1, r2}` — exactly in the checked profile, modulo 256 in release. -/
theorem accumulator_spec_large (dbg : Bool) (fb : FB) (hfb : fb.WF) (r1 r2 : Array Nat) (hr : RootsOK fb r1 r2)
    (hd : RootsDistinct fb r1 r2) (offset : Int) (nblocks : Nat) (recycled : Option (Array Table × Array LTable))
    (hrec : RecycledLens nblocks recycled)
    (s0 s1 s : State) (h0 : Sieve.new offset nblocks fb r1 r2 recycled = some s0)
    (b : Nat) (hb : b < nblocks) (h1 : runBlocks fb b s0 = some s1) (h2 : sieveBlock fb s1 = some s)
    (nS : Nat) (hnS : fb.ibl[16]? = some nS)
    (hov : ∀ (ti : Nat) (t : Table), s.tables[ti]? = some t → t.nOverflows = 0)
    (hovL : ∀ (ti : Nat) (t : LTable), s.ltables[ti]? = some t → t.overflows.size = 0)
    (blk : Array Nat) (h : blkOf dbg fb s = some blk) :
    ∀ x, x < 32768 →
      byteAt blk x % 256 = (rangeSum (rootF fb r1 r2 b x) s.idxskip (2 * nS - s.idxskip) +
        rangeSum (tabF fb r1 r2 (nblocks * BLOCK) (b * BLOCK + x)) nS (fb.primes.size - nS)) % 256 ∧
      (dbg = true → byteAt blk x = rangeSum (rootF fb r1 r2 b x) s.idxskip (2 * nS - s.idxskip) +
        rangeSum (tabF fb r1 r2 (nblocks * BLOCK) (b * BLOCK + x)) nS (fb.primes.size - nS)) := by
  obtain ⟨th, hth, _, hx⟩ := accumulator_spec_hits dbg fb hfb r1 r2 hr offset nblocks recycled hrec.1.ok s0 s1 s h0 b
    h1 h2 nS hnS blk h
  intro x hx'
  have hsum := (tableHits_closed_gen hfb hr hd hrec h0 hb h1 h2 hnS hth x hx').2 hov hovL
  have := hx x hx'
  rw [hsum] at this
  exact this

/-- non-vacuity of `accumulator_spec_large` / `accumulator_no_overflow_new`: a factor base with a 16-bit, a 17-bit and a
19-bit prime (three size-class tables, one large table), `new` and `sieve_block` return and nothing is lost. -/
example : ((Sieve.new 0 1 (FB.ofPrimes #[3, 5, 32771, 65537, 262147]) #[1, 2, 7, 65000, 100] #[2, 3, 9, 70, 20000]
      none).bind fun s0 => (sieveBlock (FB.ofPrimes #[3, 5, 32771, 65537, 262147]) s0).map fun s =>
      (s.tables.size, s.ltables.size, s.tables.all (fun t => t.nOverflows == 0),
        s.ltables.all (fun t => t.overflows.size == 0))) = some (3, 1, true, true) := by
  decide +kernel

/-- `accumulator_no_overflow_new`: `accumulator_no_overflow` for ANY factor-base size and WITHOUT any hypothesis on
the overflow counters, on the path `Sieve::new → b < nblocks rounds → sieve_block()`: if at every position `x` the
primes with a root at `x` — non-skipped primes below the block size and all primes ≥ 32768 — belong to a finite set of
primes dividing some `v ≠ 0` with `bitlen v + #primes ≤ 256` (the hypothesis of `log_sum_bound`), then no `+=` site of
`sieve_block` overflows, both families of table loops included: the checked model returns whenever the release model
does, with the same bytes; every byte is at most the closed form (bucket entries lost to an overflow are not added:
each bucket holds a sublist of the registered entries), and equal to it when no table has lost an entry. -/
theorem accumulator_no_overflow_new (fb : FB) (hfb : fb.WF) (r1 r2 : Array Nat) (hr : RootsOK fb r1 r2)
    (hd : RootsDistinct fb r1 r2) (offset : Int) (nblocks : Nat) (recycled : Option (Array Table × Array LTable))
    (hrec : RecycledLens nblocks recycled)
    (s0 s1 s : State) (h0 : Sieve.new offset nblocks fb r1 r2 recycled = some s0)
    (b : Nat) (hb : b < nblocks) (h1 : runBlocks fb b s0 = some s1) (h2 : sieveBlock fb s1 = some s)
    (nS : Nat) (hnS : fb.ibl[16]? = some nS)
    (blk0 : Array Nat) (hrel : blkOf false fb s = some blk0)
    (hdiv : ∀ x, x < 32768 → ∃ (ps : Finset ℕ) (v : ℕ), (∀ p ∈ ps, p.Prime) ∧ v ≠ 0 ∧ (∀ p ∈ ps, p ∣ v) ∧
      bitlen v + ps.card ≤ 256 ∧
      ∀ i p o, (s.idxskip ≤ 2 * i ∨ 32768 ≤ p) → fb.primes[i]? = some p → (r1[i]? = some o ∨ r2[i]? = some o) →
        (b * 32768 + x) % p = o → p ∈ ps) :
    blkOf true fb s = some blk0 ∧
      ∀ x, x < 32768 →
        byteAt blk0 x ≤ rangeSum (rootF fb r1 r2 b x) s.idxskip (2 * nS - s.idxskip) +
          rangeSum (tabF fb r1 r2 (nblocks * BLOCK) (b * BLOCK + x)) nS (fb.primes.size - nS) ∧
        ((∀ (ti : Nat) (t : Table), s.tables[ti]? = some t → t.nOverflows = 0) →
          (∀ (ti : Nat) (t : LTable), s.ltables[ti]? = some t → t.overflows.size = 0) →
          byteAt blk0 x = rangeSum (rootF fb r1 r2 b x) s.idxskip (2 * nS - s.idxskip) +
            rangeSum (tabF fb r1 r2 (nblocks * BLOCK) (b * BLOCK + x)) nS (fb.primes.size - nS)) := by
  have hrecOK := hrec.1.ok
  obtain ⟨hprev, hev⟩ := state_for_block hfb hr hrecOK h0 h1 h2 hnS
  obtain ⟨hits, hh, _, hin, _, _, _⟩ := accumulator_hits_spec false fb s blk0 hrel
  have hh' := hh
  unfold allHits at hh'
  simp only [Option.bind_eq_bind, Option.bind_eq_some_iff, Option.some.injEq] at hh'
  obtain ⟨l, hl, th, hth, rfl⟩ := hh'
  have htab := tableHits_closed_gen hfb hr hd hrec h0 hb h1 h2 hnS hth
  have hnn := hfb.ibl_le _ _ hnS
  have hbound : ∀ x, x < 32768 → ∃ (ps : Finset ℕ) (v : ℕ), (∀ p ∈ ps, p.Prime) ∧ v ≠ 0 ∧ (∀ p ∈ ps, p ∣ v) ∧
      bitlen v + ps.card ≤ 256 ∧ hitSum (l ++ th) x ≤ ∑ p ∈ ps, bitlen p := by
    intro x hx
    obtain ⟨ps, v, hp, hv, hdv, hbd, hmem⟩ := hdiv x hx
    refine ⟨ps, v, hp, hv, hdv, hbd, ?_⟩
    rw [hitSum_append, smallHits_sum hfb hnS hev hprev (by simpa [BLOCK] using hx) hl,
      ← Finset.sum_filter_add_sum_filter_not ps (fun p => p < 32768) bitlen]
    refine add_le_add (smallSum_le hfb hnS hev hprev _ ?_) (le_trans (htab x hx).1 (tabSum_le hfb hr _ ?_))
    · intro i p hge hi hpi hpos
      have hps := prime_small hfb hnS (k := 2 * i) (by omega) (by
        have : (2 * i) / 2 = i := by omega
        rw [this]; exact hpi)
      refine Finset.mem_filter.2 ⟨?_, hps⟩
      obtain ⟨o1, o2, ho1, ho2, _⟩ := hr i p hpi
      have e0 : (2 * i) / 2 = i := by omega
      have e1 : (2 * i + 1) / 2 = i := by omega
      rw [slotF_eq_rootF hfb hnS hprev (by omega) hge, slotF_eq_rootF hfb hnS hprev (by omega) (by omega)] at hpos
      unfold rootF at hpos
      simp only [e0, e1, hpi, ho1, ho2] at hpos
      by_cases c0 : ((2 * i) % 2 = 0 ∨ o1 ≠ o2) ∧ (b * BLOCK + x) % p = (if (2 * i) % 2 = 0 then o1 else o2)
      · have m0 : (2 * i) % 2 = 0 := by omega
        simp only [m0, if_true] at c0
        exact hmem i p o1 (Or.inl hge) hpi (Or.inl ho1) (by simpa [BLOCK] using c0.2)
      · rw [if_neg c0, Nat.zero_add] at hpos
        by_cases c1 : ((2 * i + 1) % 2 = 0 ∨ o1 ≠ o2) ∧
            (b * BLOCK + x) % p = (if (2 * i + 1) % 2 = 0 then o1 else o2)
        · have m1 : ¬ (2 * i + 1) % 2 = 0 := by omega
          simp only [m1, if_false] at c1
          exact hmem i p o2 (Or.inl hge) hpi (Or.inr ho2) (by simpa [BLOCK] using c1.2)
        · rw [if_neg c1] at hpos; omega
    · intro i p hge hpi hpos
      have hbig : 32768 ≤ p := big_of_class hfb (le_refl 16) hnS hge hpi
      refine Finset.mem_filter.2 ⟨?_, by omega⟩
      obtain ⟨o1, o2, ho1, ho2, _⟩ := hr i p hpi
      unfold tabF at hpos
      simp only [hpi, ho1, ho2] at hpos
      by_cases c : b * BLOCK + x < nblocks * BLOCK ∧ ((b * BLOCK + x) % p = o1 ∨ (b * BLOCK + x) % p = o2)
      · rcases c.2 with c1 | c2
        · exact hmem i p o1 (Or.inr hbig) hpi (Or.inl ho1) (by simpa [BLOCK] using c1)
        · exact hmem i p o2 (Or.inr hbig) hpi (Or.inr ho2) (by simpa [BLOCK] using c2)
      · rw [if_neg c] at hpos; omega
  obtain ⟨blk, e1, e2, e3⟩ := accumulator_no_overflow_hits fb s (l ++ th) hh hin hbound
  rw [hrel] at e2
  have := Option.some.inj e2
  subst this
  refine ⟨e1, ?_⟩
  intro x hx
  have hcl := class_loops_cover fb hfb r1 r2 hr offset nblocks recycled hrecOK s0 s1 s h0 b h1 h2 nS hnS l hl x hx
  constructor
  · rw [e3 x, hitSum_append, hcl]
    exact Nat.add_le_add_left (htab x hx).1 _
  · intro hz hzL
    rw [e3 x, hitSum_append, hcl, (htab x hx).2 hz hzL]

/-! ### general form: any factor-base size, any number of `rehash` rounds, overflows counted or not -/

/-- core of the closed form, from the cursor invariant of the small primes and the table term. -/
theorem accumulator_core_spec (dbg : Bool) (fb : FB) (hfb : fb.WF) (rS1 rS2 rL1 rL2 : Array Nat)
    (s : State) (nS : Nat) (hnS : fb.ibl[16]? = some nS) (B b interval : Nat)
    (hprev : CurInv fb rS1 rS2 s.idxskip nS B s.loPrev) (hev : s.idxskip % 2 = 0) (Z : Prop)
    (htab : ∀ th, tableHits s = some th → ∀ x, x < 32768 →
      hitSum th x ≤ rangeSum (tabF fb rL1 rL2 interval (b * BLOCK + x)) nS (fb.primes.size - nS) ∧
      (Z → hitSum th x = rangeSum (tabF fb rL1 rL2 interval (b * BLOCK + x)) nS (fb.primes.size - nS)))
    (blk : Array Nat) (h : blkOf dbg fb s = some blk) (hZ : Z) :
    ∀ x, x < 32768 →
      byteAt blk x % 256 = (rangeSum (rootF fb rS1 rS2 B x) s.idxskip (2 * nS - s.idxskip) +
        rangeSum (tabF fb rL1 rL2 interval (b * BLOCK + x)) nS (fb.primes.size - nS)) % 256 ∧
      (dbg = true → byteAt blk x = rangeSum (rootF fb rS1 rS2 B x) s.idxskip (2 * nS - s.idxskip) +
        rangeSum (tabF fb rL1 rL2 interval (b * BLOCK + x)) nS (fb.primes.size - nS)) := by
  intro x hx
  obtain ⟨hits, hh, _, _, hm, hd, _⟩ := accumulator_hits_spec dbg fb s blk h
  unfold allHits at hh
  simp only [Option.bind_eq_bind, Option.bind_eq_some_iff, Option.some.injEq] at hh
  obtain ⟨l, hl, th, hth, rfl⟩ := hh
  have hnn := hfb.ibl_le _ _ hnS
  have hc : hitSum l x = rangeSum (rootF fb rS1 rS2 B x) s.idxskip (2 * nS - s.idxskip) := by
    rw [smallHits_sum hfb hnS hev hprev (by simpa [BLOCK] using hx) hl]
    exact rangeSum_congr (fun k hk1 hk2 => slotF_eq_rootF hfb hnS hprev (by omega) hk1)
  have ht := (htab th hth x hx).2 hZ
  constructor
  · rw [hm x, hitSum_append, hc, ht]
  · intro hdb; rw [hd hdb x, hitSum_append, hc, ht]

/-- core of the no-overflow theorem. -/
theorem accumulator_core_no_overflow (fb : FB) (hfb : fb.WF) (rS1 rS2 rL1 rL2 : Array Nat)
    (hrS : RootsOK fb rS1 rS2) (hrL : RootsOK fb rL1 rL2)
    (s : State) (nS : Nat) (hnS : fb.ibl[16]? = some nS) (B b interval : Nat)
    (hprev : CurInv fb rS1 rS2 s.idxskip nS B s.loPrev) (hev : s.idxskip % 2 = 0) (Z : Prop)
    (htab : ∀ th, tableHits s = some th → ∀ x, x < 32768 →
      hitSum th x ≤ rangeSum (tabF fb rL1 rL2 interval (b * BLOCK + x)) nS (fb.primes.size - nS) ∧
      (Z → hitSum th x = rangeSum (tabF fb rL1 rL2 interval (b * BLOCK + x)) nS (fb.primes.size - nS)))
    (blk0 : Array Nat) (hrel : blkOf false fb s = some blk0)
    (hdiv : ∀ x, x < 32768 → ∃ (ps : Finset ℕ) (v : ℕ), (∀ p ∈ ps, p.Prime) ∧ v ≠ 0 ∧ (∀ p ∈ ps, p ∣ v) ∧
      bitlen v + ps.card ≤ 256 ∧
      (∀ i p o, s.idxskip ≤ 2 * i → fb.primes[i]? = some p → p < 32768 → (rS1[i]? = some o ∨ rS2[i]? = some o) →
        (B * 32768 + x) % p = o → p ∈ ps) ∧
      (∀ (i p o : Nat), fb.primes[i]? = some p → 32768 ≤ p → (rL1[i]? = some o ∨ rL2[i]? = some o) →
        (b * 32768 + x) % p = o → p ∈ ps)) :
    blkOf true fb s = some blk0 ∧
      ∀ x, x < 32768 →
        byteAt blk0 x ≤ rangeSum (rootF fb rS1 rS2 B x) s.idxskip (2 * nS - s.idxskip) +
          rangeSum (tabF fb rL1 rL2 interval (b * BLOCK + x)) nS (fb.primes.size - nS) ∧
        (Z → byteAt blk0 x = rangeSum (rootF fb rS1 rS2 B x) s.idxskip (2 * nS - s.idxskip) +
            rangeSum (tabF fb rL1 rL2 interval (b * BLOCK + x)) nS (fb.primes.size - nS)) := by
  obtain ⟨hits, hh, _, hin, _, _, _⟩ := accumulator_hits_spec false fb s blk0 hrel
  have hh' := hh
  unfold allHits at hh'
  simp only [Option.bind_eq_bind, Option.bind_eq_some_iff, Option.some.injEq] at hh'
  obtain ⟨l, hl, th, hth, rfl⟩ := hh'
  have htab' := htab th hth
  have hnn := hfb.ibl_le _ _ hnS
  have hc : ∀ x, x < 32768 → hitSum l x = rangeSum (rootF fb rS1 rS2 B x) s.idxskip (2 * nS - s.idxskip) := by
    intro x hx
    rw [smallHits_sum hfb hnS hev hprev (by simpa [BLOCK] using hx) hl]
    exact rangeSum_congr (fun k hk1 hk2 => slotF_eq_rootF hfb hnS hprev (by omega) hk1)
  have hbound : ∀ x, x < 32768 → ∃ (ps : Finset ℕ) (v : ℕ), (∀ p ∈ ps, p.Prime) ∧ v ≠ 0 ∧ (∀ p ∈ ps, p ∣ v) ∧
      bitlen v + ps.card ≤ 256 ∧ hitSum (l ++ th) x ≤ ∑ p ∈ ps, bitlen p := by
    intro x hx
    obtain ⟨ps, v, hp, hv, hdv, hbd, hmemS, hmemL⟩ := hdiv x hx
    refine ⟨ps, v, hp, hv, hdv, hbd, ?_⟩
    rw [hitSum_append, smallHits_sum hfb hnS hev hprev (by simpa [BLOCK] using hx) hl,
      ← Finset.sum_filter_add_sum_filter_not ps (fun p => p < 32768) bitlen]
    refine add_le_add (smallSum_le hfb hnS hev hprev _ ?_) (le_trans (htab' x hx).1 (tabSum_le hfb hrL _ ?_))
    · intro i p hge hi hpi hpos
      have hps := prime_small hfb hnS (k := 2 * i) (by omega) (by
        have : (2 * i) / 2 = i := by omega
        rw [this]; exact hpi)
      refine Finset.mem_filter.2 ⟨?_, hps⟩
      obtain ⟨o1, o2, ho1, ho2, _⟩ := hrS i p hpi
      have e0 : (2 * i) / 2 = i := by omega
      have e1 : (2 * i + 1) / 2 = i := by omega
      rw [slotF_eq_rootF hfb hnS hprev (by omega) hge, slotF_eq_rootF hfb hnS hprev (by omega) (by omega)] at hpos
      unfold rootF at hpos
      simp only [e0, e1, hpi, ho1, ho2] at hpos
      by_cases c0 : ((2 * i) % 2 = 0 ∨ o1 ≠ o2) ∧ (B * BLOCK + x) % p = (if (2 * i) % 2 = 0 then o1 else o2)
      · have m0 : (2 * i) % 2 = 0 := by omega
        simp only [m0, if_true] at c0
        exact hmemS i p o1 hge hpi hps (Or.inl ho1) (by simpa [BLOCK] using c0.2)
      · rw [if_neg c0, Nat.zero_add] at hpos
        by_cases c1 : ((2 * i + 1) % 2 = 0 ∨ o1 ≠ o2) ∧
            (B * BLOCK + x) % p = (if (2 * i + 1) % 2 = 0 then o1 else o2)
        · have m1 : ¬ (2 * i + 1) % 2 = 0 := by omega
          simp only [m1, if_false] at c1
          exact hmemS i p o2 hge hpi hps (Or.inr ho2) (by simpa [BLOCK] using c1.2)
        · rw [if_neg c1] at hpos; omega
    · intro i p hge hpi hpos
      have hbig : 32768 ≤ p := big_of_class hfb (le_refl 16) hnS hge hpi
      refine Finset.mem_filter.2 ⟨?_, by omega⟩
      obtain ⟨o1, o2, ho1, ho2, _⟩ := hrL i p hpi
      unfold tabF at hpos
      simp only [hpi, ho1, ho2] at hpos
      by_cases c : b * BLOCK + x < interval ∧ ((b * BLOCK + x) % p = o1 ∨ (b * BLOCK + x) % p = o2)
      · rcases c.2 with c1 | c2
        · exact hmemL i p o1 hpi hbig (Or.inl ho1) (by simpa [BLOCK] using c1)
        · exact hmemL i p o2 hpi hbig (Or.inr ho2) (by simpa [BLOCK] using c2)
      · rw [if_neg c] at hpos; omega
  obtain ⟨blk, e1, e2, e3⟩ := accumulator_no_overflow_hits fb s (l ++ th) hh hin hbound
  rw [hrel] at e2
  have := Option.some.inj e2
  subst this
  refine ⟨e1, ?_⟩
  intro x hx
  constructor
  · rw [e3 x, hitSum_append, hc x hx]
    exact Nat.add_le_add_left (htab' x hx).1 _
  · intro hz
    rw [e3 x, hitSum_append, hc x hx, (htab' x hx).2 hz]

/-- the facts about the state in which `sieve_block` runs on the path
`new → rs rounds (sieve the interval, rehash) → b rounds → sieve_block`. -/
theorem path_facts {fb : FB} (hfb : fb.WF) {r1 r2 : Array Nat} (hr : RootsOK fb r1 r2)
    {offset : Int} {nblocks : Nat} {recycled : Option (Array Table × Array LTable)}
    (hrec : RecycledLens nblocks recycled) {rs : List (Array Nat × Array Nat)}
    (hrL : RootsOK fb (lastRoots rs (r1, r2)).1 (lastRoots rs (r1, r2)).2)
    (hdL : RootsDistinct fb (lastRoots rs (r1, r2)).1 (lastRoots rs (r1, r2)).2)
    {s0 sb s1 s : State} (h0 : Sieve.new offset nblocks fb r1 r2 recycled = some s0)
    (hb : rehashRounds fb nblocks rs s0 = some sb)
    {b : Nat} (hbn : b < nblocks) (h1 : runBlocks fb b sb = some s1) (h2 : sieveBlock fb s1 = some s)
    {nS : Nat} (hnS : fb.ibl[16]? = some nS) :
    CurInv fb r1 r2 s.idxskip nS (rs.length * nblocks + b) s.loPrev ∧ s.idxskip % 2 = 0 ∧
    ∀ th, tableHits s = some th → ∀ x, x < 32768 →
      hitSum th x ≤ rangeSum (tabF fb (lastRoots rs (r1, r2)).1 (lastRoots rs (r1, r2)).2 (nblocks * BLOCK)
        (b * BLOCK + x)) nS (fb.primes.size - nS) ∧
      (((∀ (ti : Nat) (t : Table), s.tables[ti]? = some t → t.nOverflows = 0) ∧
        (∀ (ti : Nat) (t : LTable), s.ltables[ti]? = some t → t.overflows.size = 0)) →
        hitSum th x = rangeSum (tabF fb (lastRoots rs (r1, r2)).1 (lastRoots rs (r1, r2)).2 (nblocks * BLOCK)
          (b * BLOCK + x)) nS (fb.primes.size - nS)) := by
  have hrecOK := hrec.1.ok
  obtain ⟨b0, n0, _, inv0⟩ := new_spec hfb hr hrecOK hnS h0
  obtain ⟨invb, nb, bkb, hnil⟩ := rehashRounds_spec hfb hnS rs (r1, r2) 0 s0 sb inv0 n0 hb
  obtain ⟨inv1, bk1, n1, _⟩ := runBlocks_spec hfb hnS b _ sb s1 invb h1
  obtain ⟨inv2, hprev, bk2, _, _, ht2, hlt2, _⟩ := sieveBlock_spec hfb hnS inv1 h2
  obtain ⟨et, elt⟩ := runBlocks_tables fb b sb s1 h1
  have etab : s.tables = sb.tables := ht2.trans et
  have eltab : s.ltables = sb.ltables := hlt2.trans elt
  have hsb0 : sb.blkNo = 0 := by
    by_cases hrs : rs = []
    · rw [hnil hrs]; exact b0
    · exact bkb hrs
  have hblk : s.blkNo = b := by rw [bk2, bk1, hsb0]; omega
  have hB : 0 + rs.length * nblocks + b = rs.length * nblocks + b := by omega
  rw [hB] at hprev
  refine ⟨hprev, inv2.skip_even, ?_⟩
  obtain ⟨maxprime, hmax, hts, hlts⟩ := inv2.tsize
  obtain ⟨hT0, hL0⟩ := new_shape hrec h0
  intro th hth x hx
  have hn0 : nblocks ≠ 0 := by omega
  -- the shapes of the tables of `s`, with offsets functions for the last roots
  have key : ∃ OT OV : Nat → List Nat, TShape fb OT nblocks s.tables ∧ LShape fb OV nblocks s.ltables ∧
      (∀ X pidx p o1 o2, fb.primes[pidx]? = some p → (lastRoots rs (r1, r2)).1[pidx]? = some o1 →
        (lastRoots rs (r1, r2)).2[pidx]? = some o2 → (X ∈ OT pidx ↔ (X < nblocks * BLOCK ∧ (X % p = o1 ∨ X % p = o2)))) ∧
      (∀ X pidx p o1 o2, fb.primes[pidx]? = some p → (lastRoots rs (r1, r2)).1[pidx]? = some o1 →
        (lastRoots rs (r1, r2)).2[pidx]? = some o2 → (X ∈ OV pidx ↔ (X < nblocks * BLOCK ∧ (X % p = o1 ∨ X % p = o2)))) ∧
      (∀ pidx p, fb.primes[pidx]? = some p → 32768 ≤ p → (OT pidx).Nodup) ∧
      (∀ pidx p, fb.primes[pidx]? = some p → 32768 ≤ p → (OV pidx).Nodup) ∧
      (∀ pidx, fb.primes[pidx]? = none → (OT pidx).Nodup) ∧ (∀ pidx, fb.primes[pidx]? = none → (OV pidx).Nodup) := by
    have memV : ∀ X pidx p o1 o2, fb.primes[pidx]? = some p → (lastRoots rs (r1, r2)).1[pidx]? = some o1 →
        (lastRoots rs (r1, r2)).2[pidx]? = some o2 →
        (X ∈ offsV fb (lastRoots rs (r1, r2)).1 (lastRoots rs (r1, r2)).2 (nblocks * BLOCK) pidx ↔
          (X < nblocks * BLOCK ∧ (X % p = o1 ∨ X % p = o2))) := by
      intro X pidx p o1 o2 hp h1 h2
      obtain ⟨o1', o2', h1', h2', hl1, hl2⟩ := hrL _ _ hp
      rw [h1] at h1'; rw [h2] at h2'
      have := Option.some.inj h1'; subst this
      have := Option.some.inj h2'; subst this
      exact mem_offsV hfb hp h1 h2 hl1 hl2
    have ndV : ∀ pidx p, fb.primes[pidx]? = some p → 32768 ≤ p →
        (offsV fb (lastRoots rs (r1, r2)).1 (lastRoots rs (r1, r2)).2 (nblocks * BLOCK) pidx).Nodup :=
      fun pidx p hp hbig => offsV_nodup hfb hrL hdL (fun q hq => by rw [hp] at hq; rw [← Option.some.inj hq]; exact hbig)
    have ndV0 : ∀ pidx, fb.primes[pidx]? = none →
        (offsV fb (lastRoots rs (r1, r2)).1 (lastRoots rs (r1, r2)).2 (nblocks * BLOCK) pidx).Nodup :=
      fun pidx hp => by unfold offsV; simp [hp]
    by_cases hrs : rs = []
    · subst hrs
      have hsb : sb = s0 := hnil rfl
      have e : lastRoots [] (r1, r2) = (r1, r2) := by simp [lastRoots]
      rw [e] at memV ndV ndV0 hrL hdL ⊢
      simp only at memV ndV ndV0 hrL hdL ⊢
      refine ⟨offsL fb r1 r2 (nblocks * BLOCK), offsV fb r1 r2 (nblocks * BLOCK), by rw [etab, hsb]; exact hT0,
        by rw [eltab, hsb]; exact hL0, ?_, memV, ?_, ndV, ?_, ndV0⟩
      · intro X pidx p o1 o2 hp h1 h2
        obtain ⟨o1', o2', h1', h2', hl1, hl2⟩ := hrL _ _ hp
        rw [h1] at h1'; rw [h2] at h2'
        have := Option.some.inj h1'; subst this
        have := Option.some.inj h2'; subst this
        exact mem_offsL hfb hp h1 h2 hl1 hl2
      · exact fun pidx p hp hbig => offsL_nodup hfb hrL hdL
          (fun q hq => by rw [hp] at hq; rw [← Option.some.inj hq]; exact hbig)
      · exact fun pidx hp => by unfold offsL; simp [hp]
    · obtain ⟨hT', hL'⟩ := rehashRounds_shape hfb hnS hn0 rs _ _ (r1, r2) 0 s0 sb inv0 n0 hT0 hL0 hb hrs
      exact ⟨_, _, by rw [etab]; exact hT', by rw [eltab]; exact hL', memV, memV, ndV, ndV, ndV0, ndV0⟩
  obtain ⟨OT, OV, hT, hL, mT, mV, nT, nV, nT0, nV0⟩ := key
  have := tableHits_closed_core hfb hrL hT hL mT mV nT nV nT0 nV0 hnS hmax hts hlts hblk hbn hth x hx
  exact ⟨this.1, fun hz => this.2 hz.1 hz.2⟩

/-- `accumulator_spec`: the closed form of the byte array of `sieve_block`, GENERAL: any factor-base size (primes below
the block size through the cursors, primes ≥ 32768 through the size-class tables and `SieveTableLarge`), any number
`rs.length ≥ 0` of rounds "sieve the whole interval, then `rehash(roots)`" after `Sieve::new` (fresh tables, or recycled
tables of the same `nblocks`), then `b < nblocks` rounds and `sieve_block()`. When no table has lost an entry
(`n_overflows = 0` in the size-class tables, empty overflow vector in the large tables) and the two roots of the last
root table differ for every prime ≥ 32768, byte `x` is
`Σ_{k = idxskip}^{2·nS−1} rootF k + Σ_{pidx = nS}^{#primes−1} tabF pidx`: the sum of `bitlen p` over the non-skipped primes
`p < 32768` with `((rs.length·nblocks + b)·32768 + x) mod p` a root given to `new` (once per distinct root; the cursors
run on across `rehash`), plus the sum of `bitlen p` over ALL primes `p ≥ 32768` with `(b·32768 + x) mod p` a root of the
LAST root table (`lastRoots`: the one of the last `rehash`, or the one given to `new`) — exactly in the checked profile,
modulo 256 in release. -/
theorem accumulator_spec (dbg : Bool) (fb : FB) (hfb : fb.WF) (r1 r2 : Array Nat) (hr : RootsOK fb r1 r2)
    (offset : Int) (nblocks : Nat) (recycled : Option (Array Table × Array LTable))
    (hrec : RecycledLens nblocks recycled) (rs : List (Array Nat × Array Nat))
    (hrL : RootsOK fb (lastRoots rs (r1, r2)).1 (lastRoots rs (r1, r2)).2)
    (hdL : RootsDistinct fb (lastRoots rs (r1, r2)).1 (lastRoots rs (r1, r2)).2)
    (s0 sb s1 s : State) (h0 : Sieve.new offset nblocks fb r1 r2 recycled = some s0)
    (hb : rehashRounds fb nblocks rs s0 = some sb)
    (b : Nat) (hbn : b < nblocks) (h1 : runBlocks fb b sb = some s1) (h2 : sieveBlock fb s1 = some s)
    (nS : Nat) (hnS : fb.ibl[16]? = some nS)
    (hov : ∀ (ti : Nat) (t : Table), s.tables[ti]? = some t → t.nOverflows = 0)
    (hovL : ∀ (ti : Nat) (t : LTable), s.ltables[ti]? = some t → t.overflows.size = 0)
    (blk : Array Nat) (h : blkOf dbg fb s = some blk) :
    ∀ x, x < 32768 →
      byteAt blk x % 256 = (rangeSum (rootF fb r1 r2 (rs.length * nblocks + b) x) s.idxskip (2 * nS - s.idxskip) +
        rangeSum (tabF fb (lastRoots rs (r1, r2)).1 (lastRoots rs (r1, r2)).2 (nblocks * BLOCK) (b * BLOCK + x)) nS
          (fb.primes.size - nS)) % 256 ∧
      (dbg = true → byteAt blk x =
        rangeSum (rootF fb r1 r2 (rs.length * nblocks + b) x) s.idxskip (2 * nS - s.idxskip) +
        rangeSum (tabF fb (lastRoots rs (r1, r2)).1 (lastRoots rs (r1, r2)).2 (nblocks * BLOCK) (b * BLOCK + x)) nS
          (fb.primes.size - nS)) := by
  obtain ⟨hprev, hev, htab⟩ := path_facts hfb hr hrec hrL hdL h0 hb hbn h1 h2 hnS
  exact accumulator_core_spec dbg fb hfb r1 r2 _ _ s nS hnS _ b _ hprev hev _ htab blk h ⟨hov, hovL⟩

/-- `accumulator_no_overflow`: GENERAL (any factor-base size, any number of `rehash` rounds, NO hypothesis on the
overflow counters). On the path of `accumulator_spec`: if at every position `x` the primes with a root at `x` —
non-skipped primes below the block size (roots given to `new`, block `rs.length·nblocks + b` since `new`) and all primes
≥ 32768 (last root table, block `b` of the interval) — belong to a finite set of primes dividing some `v ≠ 0` with
`bitlen v + #primes ≤ 256` (the hypothesis of `log_sum_bound`), then no `+=` site of `sieve_block` overflows: the checked
model returns whenever the release model does, with the same bytes; every byte is at most the closed form of
`accumulator_spec` (entries lost to a bucket overflow are not added: every bucket holds a sublist of the registered
entries) and equal to it when no table has lost an entry. -/
theorem accumulator_no_overflow (fb : FB) (hfb : fb.WF) (r1 r2 : Array Nat) (hr : RootsOK fb r1 r2)
    (offset : Int) (nblocks : Nat) (recycled : Option (Array Table × Array LTable))
    (hrec : RecycledLens nblocks recycled) (rs : List (Array Nat × Array Nat))
    (hrL : RootsOK fb (lastRoots rs (r1, r2)).1 (lastRoots rs (r1, r2)).2)
    (hdL : RootsDistinct fb (lastRoots rs (r1, r2)).1 (lastRoots rs (r1, r2)).2)
    (s0 sb s1 s : State) (h0 : Sieve.new offset nblocks fb r1 r2 recycled = some s0)
    (hb : rehashRounds fb nblocks rs s0 = some sb)
    (b : Nat) (hbn : b < nblocks) (h1 : runBlocks fb b sb = some s1) (h2 : sieveBlock fb s1 = some s)
    (nS : Nat) (hnS : fb.ibl[16]? = some nS)
    (blk0 : Array Nat) (hrel : blkOf false fb s = some blk0)
    (hdiv : ∀ x, x < 32768 → ∃ (ps : Finset ℕ) (v : ℕ), (∀ p ∈ ps, p.Prime) ∧ v ≠ 0 ∧ (∀ p ∈ ps, p ∣ v) ∧
      bitlen v + ps.card ≤ 256 ∧
      (∀ i p o, s.idxskip ≤ 2 * i → fb.primes[i]? = some p → p < 32768 → (r1[i]? = some o ∨ r2[i]? = some o) →
        ((rs.length * nblocks + b) * 32768 + x) % p = o → p ∈ ps) ∧
      (∀ (i p o : Nat), fb.primes[i]? = some p → 32768 ≤ p →
        ((lastRoots rs (r1, r2)).1[i]? = some o ∨ (lastRoots rs (r1, r2)).2[i]? = some o) →
        (b * 32768 + x) % p = o → p ∈ ps)) :
    blkOf true fb s = some blk0 ∧
      ∀ x, x < 32768 →
        byteAt blk0 x ≤ rangeSum (rootF fb r1 r2 (rs.length * nblocks + b) x) s.idxskip (2 * nS - s.idxskip) +
          rangeSum (tabF fb (lastRoots rs (r1, r2)).1 (lastRoots rs (r1, r2)).2 (nblocks * BLOCK) (b * BLOCK + x)) nS
            (fb.primes.size - nS) ∧
        (((∀ (ti : Nat) (t : Table), s.tables[ti]? = some t → t.nOverflows = 0) ∧
          (∀ (ti : Nat) (t : LTable), s.ltables[ti]? = some t → t.overflows.size = 0)) →
          byteAt blk0 x = rangeSum (rootF fb r1 r2 (rs.length * nblocks + b) x) s.idxskip (2 * nS - s.idxskip) +
            rangeSum (tabF fb (lastRoots rs (r1, r2)).1 (lastRoots rs (r1, r2)).2 (nblocks * BLOCK) (b * BLOCK + x)) nS
              (fb.primes.size - nS)) := by
  obtain ⟨hprev, hev, htab⟩ := path_facts hfb hr hrec hrL hdL h0 hb hbn h1 h2 hnS
  exact accumulator_core_no_overflow fb hfb r1 r2 _ _ hr hrL s nS hnS _ b _ hprev hev _ htab blk0 hrel hdiv

/-- non-vacuity of `accumulator_spec` / `accumulator_no_overflow` on the rehash path: a factor base with a 16-bit, a
17-bit and a 19-bit prime, `new`, one round "sieve the interval, rehash with other roots", `sieve_block`: all calls
return, three size-class tables and one large table, nothing lost. -/
example : ((Sieve.new 0 1 (FB.ofPrimes #[3, 5, 32771, 65537, 262147]) #[1, 2, 7, 65000, 100] #[2, 3, 9, 70, 20000]
      none).bind fun s0 =>
    (rehashRounds (FB.ofPrimes #[3, 5, 32771, 65537, 262147]) 1 [(#[0, 1, 11, 3, 5000], #[1, 4, 12, 32000, 6])] s0).bind
      fun sb => (sieveBlock (FB.ofPrimes #[3, 5, 32771, 65537, 262147]) sb).map fun s =>
        (s.blkNo, s.tables.size, s.ltables.size, s.tables.all (fun t => t.nOverflows == 0),
          s.ltables.all (fun t => t.overflows.size == 0))) = some (0, 3, 1, true, true) := by
  decide +kernel

/-- `accumulator_no_overflow_small`: for factor bases whose primes are all below the block size, under the hypothesis of
`log_sum_bound` — at every position `x` the non-skipped primes with a root at `x` (true roots: they divide the
polynomial value) all belong to a finite set of primes dividing some `v ≠ 0` with `bitlen v + #primes ≤ 256` — no `+=`
site of `sieve_block` overflows: the checked model returns whenever the release model does, with the same bytes,
and every byte is the closed form (no wrap). The link `Σ of the added logs ≤ Σ bitlen p over those primes` is
PROVED (`class_loops_cover`, each prime at most once per position, distinct primes). -/
theorem accumulator_no_overflow_small (fb : FB) (hfb : fb.WF) (r1 r2 : Array Nat) (hr : RootsOK fb r1 r2)
    (offset : Int) (nblocks : Nat) (recycled : Option (Array Table × Array LTable)) (hrec : RecycledOK recycled)
    (s0 s1 s : State) (h0 : Sieve.new offset nblocks fb r1 r2 recycled = some s0)
    (b : Nat) (h1 : runBlocks fb b s0 = some s1) (h2 : sieveBlock fb s1 = some s)
    (nS : Nat) (hnS : fb.ibl[16]? = some nS) (hsmall : s.tables.size = 0)
    (blk0 : Array Nat) (hrel : blkOf false fb s = some blk0)
    (hdiv : ∀ x, x < 32768 → ∃ (ps : Finset ℕ) (v : ℕ), (∀ p ∈ ps, p.Prime) ∧ v ≠ 0 ∧ (∀ p ∈ ps, p ∣ v) ∧
      bitlen v + ps.card ≤ 256 ∧
      ∀ i p o, s.idxskip ≤ 2 * i → fb.primes[i]? = some p → p < 32768 → (r1[i]? = some o ∨ r2[i]? = some o) →
        (b * 32768 + x) % p = o → p ∈ ps) :
    blkOf true fb s = some blk0 ∧
      ∀ x, x < 32768 → byteAt blk0 x = rangeSum (rootF fb r1 r2 b x) s.idxskip (2 * nS - s.idxskip) := by
  obtain ⟨hprev, hev⟩ := state_for_block hfb hr hrec h0 h1 h2 hnS
  obtain ⟨hits, hh, _, hin, _, _, _⟩ := accumulator_hits_spec false fb s blk0 hrel
  have hh' := hh
  unfold allHits at hh'
  simp only [Option.bind_eq_bind, Option.bind_eq_some_iff, Option.some.injEq] at hh'
  obtain ⟨l, hl, th, hth, rfl⟩ := hh'
  have hth0 : th = [] := by
    unfold tableHits at hth
    simp only [hsmall, if_true, Option.some.injEq] at hth
    exact hth.symm
  subst hth0
  have hnn := hfb.ibl_le _ _ hnS
  -- the bound at every position
  have hbound : ∀ x, x < 32768 → ∃ (ps : Finset ℕ) (v : ℕ), (∀ p ∈ ps, p.Prime) ∧ v ≠ 0 ∧ (∀ p ∈ ps, p ∣ v) ∧
      bitlen v + ps.card ≤ 256 ∧ hitSum (l ++ []) x ≤ ∑ p ∈ ps, bitlen p := by
    intro x hx
    obtain ⟨ps, v, hp, hv, hd, hb, hmem⟩ := hdiv x hx
    refine ⟨ps, v, hp, hv, hd, hb, ?_⟩
    rw [List.append_nil, smallHits_sum hfb hnS hev hprev (by simpa [BLOCK] using hx) hl]
    refine smallSum_le hfb hnS hev hprev ps ?_
    intro i p hge hi hpi hpos
    have hps := prime_small hfb hnS (k := 2 * i) (by omega) (by
      have : (2 * i) / 2 = i := by omega
      rw [this]; exact hpi)
    obtain ⟨o1, o2, ho1, ho2, _⟩ := hr i p hpi
    -- one of the two slots is positive: its root matches
    have e0 : (2 * i) / 2 = i := by omega
    have e1 : (2 * i + 1) / 2 = i := by omega
    rw [slotF_eq_rootF hfb hnS hprev (by omega) hge, slotF_eq_rootF hfb hnS hprev (by omega) (by omega)] at hpos
    unfold rootF at hpos
    simp only [e0, e1, hpi, ho1, ho2] at hpos
    by_cases c0 : ((2 * i) % 2 = 0 ∨ o1 ≠ o2) ∧ (b * BLOCK + x) % p = (if (2 * i) % 2 = 0 then o1 else o2)
    · have m0 : (2 * i) % 2 = 0 := by omega
      simp only [m0, if_true] at c0
      exact hmem i p o1 hge hpi hps (Or.inl ho1) (by simpa [BLOCK] using c0.2)
    · rw [if_neg c0, Nat.zero_add] at hpos
      by_cases c1 : ((2 * i + 1) % 2 = 0 ∨ o1 ≠ o2) ∧
          (b * BLOCK + x) % p = (if (2 * i + 1) % 2 = 0 then o1 else o2)
      · have m1 : ¬ (2 * i + 1) % 2 = 0 := by omega
        simp only [m1, if_false] at c1
        exact hmem i p o2 hge hpi hps (Or.inr ho2) (by simpa [BLOCK] using c1.2)
      · rw [if_neg c1] at hpos; omega
  obtain ⟨blk, e1, e2, e3⟩ := accumulator_no_overflow_hits fb s (l ++ []) hh hin hbound
  rw [hrel] at e2
  have := Option.some.inj e2
  subst this
  refine ⟨e1, ?_⟩
  intro x hx
  rw [e3 x, List.append_nil, class_loops_cover fb hfb r1 r2 hr offset nblocks recycled hrec s0 s1 s h0 b h1 h2 nS hnS
    l hl x hx]

theorem factorsAt_zip {fb : FB} {s : State} {r1 r2 : Array Nat} :
    ∀ (res : List Nat) (facs : List (List Nat)), factorsAt fb s r1 r2 res = some facs →
      (∀ xf ∈ res.zip facs, factorsOf fb s r1 r2 xf.1 = some xf.2) ∧ (∀ x ∈ res, ∃ f, (x, f) ∈ res.zip facs) := by
  intro res
  induction res with
  | nil => intro facs _; simp
  | cons a t ih =>
    intro facs h
    unfold factorsAt at h
    rw [List.mapM_cons] at h
    simp only [bind, Option.bind_eq_some_iff, pure, Option.some.injEq] at h
    obtain ⟨f, hf, fs, hfs, rfl⟩ := h
    obtain ⟨i1, i2⟩ := ih fs hfs
    constructor
    · intro xf hxf
      simp only [List.zip_cons_cons, List.mem_cons] at hxf
      rcases hxf with rfl | hxf
      · exact hf
      · exact i1 xf hxf
    · intro x hx
      rcases List.mem_cons.1 hx with rfl | hx
      · exact ⟨f, by simp⟩
      · obtain ⟨g, hg⟩ := i2 x hx
        exact ⟨g, by simp only [List.zip_cons_cons, List.mem_cons]; exact Or.inr hg⟩

/-- `smooth_candidate_reported`. After `Sieve::new`, `b < nblocks` rounds and `sieve_block()`, when
`smooths(threshold ≥ 1, root, roots)` returns `(res, facs)`: every position `x` of the block whose byte exceeds
`threshold2` and whose corrected value (byte + logs of the skipped primes with a root at `x` + root-distance bonus)
reaches the threshold — in particular a position where the polynomial value is fully smooth over the factor base
and the log sum of its non-skipped primes, which `accumulator_spec_small` identifies with the byte, clears the threshold —
IS reported (`x ∈ res`), and the factor list attached to it contains every factor-base prime with a root at `x`
(`listed_complete`; size classes 16..18 up to the `n_overflows − 32` counted losses): trial division by the list
(`cofactor_spec`) then leaves cofactor 1 for a fully smooth value. -/
theorem smooth_candidate_reported (dbg : Bool) (fb : FB) (hfb : fb.WF) (r1 r2 : Array Nat) (hr : RootsOK fb r1 r2)
    (offset : Int) (nblocks : Nat) (hN : nblocks ≤ 2 ^ 17)
    (recycled : Option (Array Table × Array LTable)) (hrec : RecycledOK recycled)
    (s0 : State) (h0 : Sieve.new offset nblocks fb r1 r2 recycled = some s0)
    (b : Nat) (hb : b < nblocks) (s1 : State) (h1 : runBlocks fb b s0 = some s1)
    (s : State) (h2 : sieveBlock fb s1 = some s)
    (blk : Array Nat) (threshold : Nat) (hthr : 1 ≤ threshold) (root : Option Nat)
    (res : List Nat) (facs : List (List Nat))
    (hsm : SieveLog.smooths dbg fb s blk threshold root r1 r2 = some (res, facs))
    (x : Nat) (hx : x < 32768) (threshold2 t0 t1 t2 : Nat) (ht2 : threshold2Of fb s threshold root = some threshold2)
    (hb0 : blk[x]? = some t0) (hgt : threshold2 < t0) (ha : addSkipped dbg fb s x t0 = some t1)
    (hc : rootComp dbg s (mzerosOf s) root x t1 = some t2) (hge : threshold ≤ t2) :
    x ∈ res ∧ ∃ f, (x, f) ∈ res.zip facs ∧
      ∃ lost : Nat → List (Nat × Nat),
        (∀ (ti : Nat) (t : Table), s.tables[ti]? = some t → (lost ti).length = t.nOverflows - 32) ∧
        ∀ pidx p o, fb.primes[pidx]? = some p → (r1[pidx]? = some o ∨ r2[pidx]? = some o) →
          (b * 32768 + x) % p = o →
          pidx ∈ f ∨ (16 ≤ bitlen p ∧ bitlen p ≤ 18 ∧ (b * 32768 + x, pidx % 2 ^ 32) ∈ lost (bitlen p - 16)) := by
  unfold SieveLog.smooths at hsm
  simp only [Option.bind_eq_bind, Option.bind_eq_some_iff, Option.some.injEq, Prod.mk.injEq] at hsm
  obtain ⟨res', hres, facs', hfacs, rfl, rfl⟩ := hsm
  obtain ⟨th2, e1, _, hmem⟩ := smooths_threshold_spec dbg fb s blk threshold root res' hthr hres
  rw [ht2] at e1
  have := Option.some.inj e1; subst this
  have hxr : x ∈ res' := (hmem x).2 ⟨hx, t0, t1, t2, hb0, hgt, ha, hc, hge⟩
  obtain ⟨z1, z2⟩ := factorsAt_zip res' facs' hfacs
  obtain ⟨f, hf⟩ := z2 x hxr
  obtain ⟨lost, hl, hcpl⟩ := listed_complete fb hfb r1 r2 hr offset nblocks hN recycled hrec s0 h0 b hb s1 h1 s h2
  exact ⟨hxr, f, hf, lost, hl, fun pidx p o hp hroot hmod => hcpl x hx f (z1 (x, f) hf) pidx p o hp hroot hmod⟩

/-- `table_bucket_exact` — the table-level half of "the bucket entries read back are exactly the registered hits":
starting from a table whose bucket `b` is empty (`Table.new`, or any table after `reset`), after any sequence of
`add(offset, pidx)` during which NO overflow was counted, the visible part of bucket `b` — what `sieve_block` reads
back and accumulates — is exactly the list of the adds with `offset / 256 = b`, in order and with multiplicity,
each as `(offset % 256, pidx % 256)`. (Strengthens `table_recovery`, which is about membership only.)
Still open for the general `accumulator_spec`: carrying this through the loops of `Sieve::new` / `rehash` (which
adds are made for which prime) and the same statement for `SieveTableLarge`. -/
theorem table_bucket_exact (t0 t : Table) (hwf : t0.WF) (adds : List (Nat × Nat))
    (h : adds.foldlM (fun t a => t.add a.1 a.2) t0 = some t) (hov : t.nOverflows = t0.nOverflows)
    (b : Nat) (hb : t0.bucket b = some []) :
    t.bucket b = some ((adds.filter fun a => a.1 / 256 = b).map fun a => (a.1 % 256, a.2 % 256)) := by
  simpa using Table.foldl_bucket_exact adds t0 t hwf h hov b [] hb

/-- non-vacuity: three adds into two buckets of a fresh table. -/
example : ((([(5, 7), (300, 9), (6, 263)] : List (Nat × Nat)).foldlM (fun (t : Table) a => t.add a.1 a.2) (Table.new 1)).bind
    fun t => t.bucket 0) = some [(5, 7), (6, 7)] := by decide +kernel

end Ymq.C13
