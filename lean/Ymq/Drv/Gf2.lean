import Ymq.Drv.Util
import Ymq.Model.Gf2

/-!
Driver for the GF(2) kernel solvers (C14). Formats as in harness/src/ops_gf2.rs:
bit vectors are hexadecimal integers (bit i = v[i]); a sparse matrix is
`<nrows> <ncols> <cols>`, columns joined by `;`, a column = comma separated row indices
(`-` = none), `<cols>` = `-` when ncols = 0; blocks are comma separated hexadecimal words.
-/
namespace Ymq.Drv
open Ymq.Gf2

private def hexDigit (c : Char) : Option Nat :=
  if '0' ≤ c ∧ c ≤ '9' then some (c.toNat - '0'.toNat)
  else if 'a' ≤ c ∧ c ≤ 'f' then some (c.toNat - 'a'.toNat + 10)
  else if 'A' ≤ c ∧ c ≤ 'F' then some (c.toNat - 'A'.toNat + 10)
  else none

private def parseHex (s : String) : Option Nat :=
  s.toList.foldlM (fun acc c => do let d ← hexDigit c; pure (acc * 16 + d)) 0

private def parseWords (s : String) : Option (List Nat) :=
  if s = "-" then some []
  else (s.splitOn ",").mapM (fun t => do
    let w ← parseHex t
    if t.isEmpty ∨ w ≥ 2 ^ 64 then none else some w)

private def showHex (n : Nat) : String := String.ofList (Nat.toDigits 16 n)

private def showWords (l : List Nat) : String :=
  if l.isEmpty then "-" else ",".intercalate (l.map showHex)

private def natOfBits (v : List Bool) : Nat := v.foldr (fun b acc => 2 * acc + b.toNat) 0

private def showVecs (vs : List BVec) : String :=
  if vs.isEmpty then "-" else ",".intercalate (vs.map (fun v => showHex (natOfBits v)))

private def showRes : Option (List BVec) → String
  | none => "panic"
  | some vs => showVecs vs

private def showBlk : Option (List Nat) → String
  | none => "panic"
  | some ws => showWords ws

private def parseSparse (ncols : Nat) (s : String) : Option (List (List Nat)) :=
  if ncols = 0 then (if s = "-" then some [] else none)
  else do
    let cols ← (s.splitOn ";").mapM (fun c => parseNatList c)
    if cols.length = ncols then some cols else none

/-- `BitVec::set(i, true)` on a vector: grows the vector when `i` is beyond its length -/
private def setBit (v : List Bool) (i : Nat) : List Bool :=
  if i < v.length then v.set i true else v ++ List.replicate (i - v.length) false ++ [true]

private def denseOfSparse (nrows : Nat) (col : List Nat) : List Bool :=
  col.foldl setBit (List.replicate nrows false)

private def bitsOfHex (nrows : Nat) (s : String) : Option (List Bool) := do
  let n ← parseHex s
  if n ≥ 2 ^ nrows then none else some ((List.range nrows).map (fun i => n.testBit i))

private def bitsOfString (s : String) : Option (List Bool) :=
  if s = "e" then some []
  else s.toList.mapM (fun c => if c = '0' then some false else if c = '1' then some true else none)

private def gaussColumns (nrows ncols : Nat) (fmt data : String) : Option (List BVec) := do
  let cols ← match fmt with
    | "s" => (parseSparse ncols data).map (fun cs => cs.map (denseOfSparse nrows))
    | "h" => if ncols = 0 then (if data = "-" then some [] else none)
             else (data.splitOn ",").mapM (bitsOfHex nrows)
    | "b" => if ncols = 0 then (if data = "-" then some [] else none)
             else (data.splitOn ",").mapM bitsOfString
    | _ => none
  if cols.length = ncols then some cols else none

private def pairLe (a b : Nat × Nat) : Bool := a.1 < b.1 || (a.1 == b.1 && a.2 ≤ b.2)

def handleGf2 : Handler
  | ["gf2_gauss", nrows, ncols, fmt, data] => do
    let nrows ← parseNat nrows; let ncols ← parseNat ncols
    let cols ← gaussColumns nrows ncols fmt data
    some (showRes (kernelGauss cols))
  | ["gf2_lanczos_final", nrows, ncols, data, y] => do
    let nrows ← parseNat nrows; let ncols ← parseNat ncols
    let cols ← parseSparse ncols data
    let y ← parseWords y
    some (showRes (lanczosFinal nrows cols y))
  | ["gf2_qsopt", nrows, ncols, data] => do
    let nrows ← parseNat nrows; let ncols ← parseNat ncols
    let cols ← parseSparse ncols data
    let o := qsOptimize nrows cols
    let xy := o.xy.mergeSort pairLe
    let xys := if xy.isEmpty then "-" else ",".intercalate (xy.map (fun p => s!"{p.1}.{p.2}"))
    some s!"{o.nx} {o.ny} {showWords o.block} {xys}"
  | ["gf2_optmul", nrows, ncols, data, y] => do
    let nrows ← parseNat nrows; let ncols ← parseNat ncols
    let cols ← parseSparse ncols data
    let y ← parseWords y
    some (showBlk (optMul (qsOptimize nrows cols) y))
  | ["gf2_spmul", nrows, ncols, data, y] => do
    let nrows ← parseNat nrows; let ncols ← parseNat ncols
    let cols ← parseSparse ncols data
    let y ← parseWords y
    some (showBlk (spMul nrows cols y))
  | ["gf2_blockdot", x, y] => do
    let x ← parseWords x; let y ← parseWords y
    some (showBlk (blockDotRot x y))
  | _ => none

end Ymq.Drv
