/-
Lemmas for the word-exact `FInt` model, part 2: `shl` (bit-shift loop, the three whole-word
branches with their carry-free shortcuts, the `top = 1` case, reduction of the shift amount
modulo `128 N`) and `shr`.
-/
import Ymq.Lemmas.FIntBasic

namespace Ymq.FInt
open Ymq.Limbs

theorem W_eq : W = 2 ^ 64 := by decide

/-- the bit-shift loop multiplies the word vector by `2^sb` -/
theorem shlBits_spec (sb : Nat) (h0 : 0 < sb) (h64 : sb < 64) (ws : List Nat) (c : Nat) (hws : Wf ws)
    (hc : c < 2 ^ sb) :
    val (shlBits sb ws c).1 + W ^ ws.length * (shlBits sb ws c).2 = val ws * 2 ^ sb + c ∧
    (shlBits sb ws c).1.length = ws.length ∧ Wf (shlBits sb ws c).1 ∧ (shlBits sb ws c).2 < 2 ^ sb := by
  have hW : W = 2 ^ (64 - sb) * 2 ^ sb := by rw [← pow_add, W_eq]; congr 1; omega
  have hp : 0 < 2 ^ sb := Nat.pow_pos (by decide)
  have hp2 : 0 < 2 ^ (64 - sb) := Nat.pow_pos (by decide)
  induction ws generalizing c with
  | nil => simp [shlBits, Wf_nil, hc]
  | cons x xs ih =>
    have ⟨hx, hxs⟩ := Wf_cons.1 hws
    have hq : x / 2 ^ (64 - sb) < 2 ^ sb := by
      rw [Nat.div_lt_iff_lt_mul hp2, Nat.mul_comm, ← hW]; exact hx
    obtain ⟨e1, e2, e3, e4⟩ := ih (x / 2 ^ (64 - sb)) hxs hq
    simp only [shlBits, val_cons, List.length_cons]
    have hmod : x * 2 ^ sb % W = x % 2 ^ (64 - sb) * 2 ^ sb := by
      rw [hW, Nat.mul_mod_mul_right]
    have hdiv : x * 2 ^ sb / W = x / 2 ^ (64 - sb) := by
      rw [hW, Nat.mul_div_mul_right _ _ hp]
    have hdm := Nat.div_add_mod (x * 2 ^ sb) W
    rw [hdiv] at hdm
    have hlt : x * 2 ^ sb % W + c < W := by
      rw [hmod]
      have : x % 2 ^ (64 - sb) + 1 ≤ 2 ^ (64 - sb) := Nat.mod_lt _ hp2
      have : (x % 2 ^ (64 - sb) + 1) * 2 ^ sb ≤ 2 ^ (64 - sb) * 2 ^ sb := Nat.mul_le_mul_right _ this
      rw [← hW] at this
      nlinarith
    refine ⟨?_, by simp [e2], Wf_cons.2 ⟨hlt, e3⟩, e4⟩
    rw [pow_succ]
    have : W * (val (shlBits sb xs (x / 2 ^ (64 - sb))).1 + W ^ xs.length * (shlBits sb xs (x / 2 ^ (64 - sb))).2) =
        W * (val xs * 2 ^ sb + x / 2 ^ (64 - sb)) := by rw [e1]
    nlinarith


theorem pow_split {N sw : Nat} (h : sw ≤ N) : W ^ sw * W ^ (N - sw) = W ^ N := by
  rw [← pow_add]; congr 1; omega

/-- whole-word shift by `0 < sw < N` words -/
theorem shlWordsLow_spec {N : Nat} (x : FI) (sw : Nat) (hx : WfN N x) (ht : x.top = 0)
    (h1 : 0 < sw) (h2 : sw < N) :
    ∃ r, shlWordsLow x sw = some r ∧ WfN N r ∧ r.top ≤ 1 ∧
      r.value ≡ x.value * W ^ sw [MOD Fmod N] := by
  obtain ⟨ws, t⟩ := x
  simp only at ht; subst ht
  obtain ⟨hlen, hwf⟩ := hx
  simp only at hlen hwf
  unfold shlWordsLow
  simp only [hlen]
  have hsplit := val_take_drop ws (N - sw)
  have hlo_len : (ws.take (N - sw)).length = N - sw := by simp [hlen]
  have hhi_len : (ws.drop (N - sw)).length = sw := by simp [hlen]; omega
  have hlo_wf := Wf_take hwf (N - sw)
  have hhi_wf := Wf_drop hwf (N - sw)
  have hB := pow_split (le_of_lt h2)
  generalize ws.take (N - sw) = lo at *
  generalize ws.drop (N - sw) = hi at *
  cases hi with
  | nil => simp at hhi_len; omega
  | cons h0 hs =>
  cases lo with
  | nil => simp at hlo_len; omega
  | cons l0 ls =>
  have ⟨hh0, hhs⟩ := Wf_cons.1 hhi_wf
  have ⟨hl0, hls⟩ := Wf_cons.1 hlo_wf
  have hLlt := val_lt hlo_wf; rw [hlo_len] at hLlt
  have hHlt := val_lt hhi_wf; rw [hhi_len] at hHlt
  simp only
  by_cases hf : h0 ≠ 0 ∧ l0 > 0
  · rw [if_pos hf]
    have hwf1 : Wf ((h0 - 1) :: hs) := Wf_cons.2 ⟨by omega, hhs⟩
    have hcv := compl_val ((h0 - 1) :: hs) hwf1
    have hlen1 : ((h0 - 1) :: hs).length = sw := by simpa using hhi_len
    rw [hlen1] at hcv
    refine ⟨_, rfl, ⟨?_, ?_⟩, by simp, ?_⟩
    · simp only [List.length_append, compl_length, List.length_cons] at *; omega
    · exact Wf_append.2 ⟨compl_Wf _, Wf_cons.2 ⟨by omega, hls⟩⟩
    · apply modEq_of_eq (k1 := val (h0 :: hs)) (k2 := 0)
      simp only [FI.value_mk, val_append, compl_length, hlen1, val_cons, List.length_append, List.length_cons,
        Fmod, Nat.mul_zero, Nat.add_zero] at *
      have hl : ls.length + 1 = N - sw := hlo_len
      have hlenN : sw + (ls.length + 1) = N := by omega
      rw [hsplit]
      have e1 : h0 - 1 + 1 = h0 := by omega
      have e2 : l0 - 1 + 1 = l0 := by omega
      generalize h0 - 1 = h' at *
      generalize l0 - 1 = l' at *
      subst e1 e2
      generalize val (compl (h' :: hs)) = c at *
      generalize val hs = vh at *
      generalize val ls = vl at *
      generalize W ^ sw = A at *
      generalize W ^ (N - sw) = Bq at *
      generalize W ^ N = B at *
      subst hB
      have : c = A - (h' + W * vh) - 1 := by omega
      nlinarith
  · rw [if_neg hf]
    have hN : 0 < N := by omega
    have hza : (zeros sw ++ l0 :: ls).length = N := by
      simp only [List.length_append, zeros_length, List.length_cons] at *; omega
    have hzb : (h0 :: hs ++ zeros (N - sw)).length = N := by
      simp only [List.length_append, zeros_length, List.length_cons] at *; omega
    obtain ⟨e1, e2, e3, e4⟩ := subSlices_spec (zeros sw ++ l0 :: ls) (h0 :: hs ++ zeros (N - sw)) 0
      (by rw [hza, hzb]) (Wf_append.2 ⟨Wf_zeros _, hlo_wf⟩) (Wf_append.2 ⟨hhi_wf, Wf_zeros _⟩) (by omega)
    rw [hza] at e1 e2
    have hva : val (zeros sw ++ l0 :: ls) = W ^ sw * val (l0 :: ls) := by
      rw [val_append, val_zeros, zeros_length]; ring
    have hvb : val (h0 :: hs ++ zeros (N - sw)) = val (h0 :: hs) := by
      have := val_append (h0 :: hs) (zeros (N - sw))
      rw [val_zeros] at this
      simpa using this
    rw [hva, hvb] at e1
    generalize subSlices (zeros sw ++ l0 :: ls) (h0 :: hs ++ zeros (N - sw)) 0 = r at *
    by_cases hb : r.2 = 1
    · rw [if_pos hb]
      obtain ⟨r1, hr1, hw1, hv1, ht1⟩ := addSmall_spec' ⟨r.1, 0⟩ 1 hN ⟨e2, e3⟩ (by decide) (show 0 + 1 < W by decide)
      refine ⟨r1, hr1, hw1, by simpa using ht1, ?_⟩
      apply modEq_of_eq (k1 := val (h0 :: hs)) (k2 := 1)
      rw [hb] at e1
      rw [hv1]
      simp only [FI.value_mk, Fmod, e2, Nat.mul_zero, Nat.add_zero]
      rw [hsplit]
      generalize val (h0 :: hs) = H at *
      generalize val (l0 :: ls) = L at *
      generalize W ^ sw = A at *
      generalize W ^ (N - sw) = Bq at *
      generalize W ^ N = B at *
      subst hB
      nlinarith
    · rw [if_neg hb]
      have hb0 : r.2 = 0 := by omega
      refine ⟨_, rfl, ⟨e2, e3⟩, by simp, ?_⟩
      apply modEq_of_eq (k1 := val (h0 :: hs)) (k2 := 0)
      rw [hb0] at e1
      simp only [FI.value_mk, Fmod, e2, Nat.mul_zero, Nat.add_zero]
      rw [hsplit]
      generalize val (h0 :: hs) = H at *
      generalize val (l0 :: ls) = L at *
      generalize W ^ sw = A at *
      generalize W ^ (N - sw) = Bq at *
      generalize W ^ N = B at *
      subst hB
      linarith


/-- whole-word shift by exactly `N` words: negation -/
theorem shlNeg_spec {N : Nat} (x : FI) (hN : 0 < N) (hx : WfN N x) (ht : x.top = 0) :
    ∃ r, addSmall ⟨compl x.ws, x.top⟩ 2 = some r ∧ WfN N r ∧ r.top ≤ 1 ∧
      r.value ≡ x.value * W ^ N [MOD Fmod N] := by
  obtain ⟨r, hr, hw, hv, htop⟩ := addSmall_spec' ⟨compl x.ws, x.top⟩ 2 hN
    ⟨by simp only [compl_length]; exact hx.1, compl_Wf _⟩ (by decide) (by simp only [ht]; decide)
  refine ⟨r, hr, hw, by simpa [ht] using htop, ?_⟩
  apply modEq_of_eq (k1 := val x.ws) (k2 := 1)
  have hcv := compl_val x.ws hx.2
  rw [hv]
  simp only [FI.value, compl_length, ht, hx.1, Fmod, Nat.mul_zero, Nat.add_zero] at *
  generalize val (compl x.ws) = c at *
  generalize val x.ws = V at *
  generalize W ^ N = B at *
  subst hcv
  ring

/-- whole-word shift by `N + swhi` words, `0 < swhi < N` -/
theorem shlWordsHigh_spec {N : Nat} (x : FI) (swhi : Nat) (hx : WfN N x) (ht : x.top = 0)
    (h1 : 0 < swhi) (h2 : swhi < N) :
    ∃ r, shlWordsHigh x swhi = some r ∧ WfN N r ∧ r.top ≤ 1 ∧
      r.value ≡ x.value * W ^ (N + swhi) [MOD Fmod N] := by
  obtain ⟨ws, t⟩ := x
  simp only at ht; subst ht
  obtain ⟨hlen, hwf⟩ := hx
  simp only at hlen hwf
  unfold shlWordsHigh
  simp only [hlen]
  have hsplit := val_take_drop ws (N - swhi)
  have hlo_len : (ws.take (N - swhi)).length = N - swhi := by simp [hlen]
  have hhi_len : (ws.drop (N - swhi)).length = swhi := by simp [hlen]; omega
  have hlo_wf := Wf_take hwf (N - swhi)
  have hhi_wf := Wf_drop hwf (N - swhi)
  have hB := pow_split (le_of_lt h2)
  have hN : 0 < N := by omega
  generalize ws.take (N - swhi) = lo at *
  generalize ws.drop (N - swhi) = hi at *
  cases hi with
  | nil => simp at hhi_len; omega
  | cons h0 hs =>
  cases lo with
  | nil => simp at hlo_len; omega
  | cons l0 ls =>
  have ⟨hh0, hhs⟩ := Wf_cons.1 hhi_wf
  have ⟨hl0, hls⟩ := Wf_cons.1 hlo_wf
  simp only
  by_cases hf : l0 ≠ 0 ∧ h0 ≠ W - 1
  · rw [if_pos hf]
    have hwf1 : Wf ((l0 - 1) :: ls) := Wf_cons.2 ⟨by omega, hls⟩
    have hcv := compl_val ((l0 - 1) :: ls) hwf1
    have hlen1 : ((l0 - 1) :: ls).length = N - swhi := by simpa using hlo_len
    rw [hlen1] at hcv
    refine ⟨_, rfl, ⟨?_, ?_⟩, by simp, ?_⟩
    · simp only [List.length_append, compl_length, List.length_cons] at *; omega
    · exact Wf_cons.2 ⟨by omega, Wf_append.2 ⟨hhs, compl_Wf _⟩⟩
    · apply modEq_of_eq (k1 := val (l0 :: ls) * W ^ swhi + val (h0 :: hs) * W ^ N) (k2 := 1 + val (h0 :: hs))
      have happ : val ((h0 + 1) :: hs ++ compl ((l0 - 1) :: ls)) =
          val ((h0 + 1) :: hs) + W ^ swhi * val (compl ((l0 - 1) :: ls)) := by
        have := val_append ((h0 + 1) :: hs) (compl ((l0 - 1) :: ls))
        simp only [List.length_cons] at this hhi_len
        rw [hhi_len] at this
        simpa using this
      have hlenN : ((h0 + 1) :: hs ++ compl ((l0 - 1) :: ls)).length = N := by
        simp only [List.length_append, compl_length, List.length_cons] at *; omega
      simp only [FI.value_mk, hlenN, Fmod, Nat.mul_zero, Nat.add_zero]
      rw [happ, hsplit, pow_add]
      simp only [val_cons] at *
      have e2 : l0 - 1 + 1 = l0 := by omega
      generalize l0 - 1 = l' at *
      subst e2
      generalize val (compl (l' :: ls)) = c at *
      generalize val hs = vh at *
      generalize val ls = vl at *
      generalize W ^ swhi = A at *
      generalize W ^ (N - swhi) = Bq at *
      generalize W ^ N = B at *
      subst hB
      have hc : c + (l' + W * vl) + 1 = Bq := hcv
      subst hc
      ring
  · rw [if_neg hf]
    have hza : (h0 :: hs ++ zeros (N - swhi)).length = N := by
      simp only [List.length_append, zeros_length, List.length_cons] at *; omega
    have hzb : (zeros swhi ++ l0 :: ls).length = N := by
      simp only [List.length_append, zeros_length, List.length_cons] at *; omega
    obtain ⟨e1, e2, e3, e4⟩ := subSlices_spec (h0 :: hs ++ zeros (N - swhi)) (zeros swhi ++ l0 :: ls) 0
      (by rw [hza, hzb]) (Wf_append.2 ⟨hhi_wf, Wf_zeros _⟩) (Wf_append.2 ⟨Wf_zeros _, hlo_wf⟩) (by omega)
    rw [hza] at e1 e2
    have hvb : val (zeros swhi ++ l0 :: ls) = W ^ swhi * val (l0 :: ls) := by
      rw [val_append, val_zeros, zeros_length]; ring
    have hva : val (h0 :: hs ++ zeros (N - swhi)) = val (h0 :: hs) := by
      have := val_append (h0 :: hs) (zeros (N - swhi))
      rw [val_zeros] at this
      simpa using this
    rw [hva, hvb] at e1
    generalize subSlices (h0 :: hs ++ zeros (N - swhi)) (zeros swhi ++ l0 :: ls) 0 = r at *
    by_cases hb : r.2 = 1
    · rw [if_pos hb]
      obtain ⟨r1, hr1, hw1, hv1, ht1⟩ := addSmall_spec' ⟨r.1, 0⟩ 1 hN ⟨e2, e3⟩ (by decide) (show 0 + 1 < W by decide)
      refine ⟨r1, hr1, hw1, by simpa using ht1, ?_⟩
      apply modEq_of_eq (k1 := val (l0 :: ls) * W ^ swhi + val (h0 :: hs) * W ^ N) (k2 := val (h0 :: hs) + 1)
      rw [hb] at e1
      rw [hv1]
      simp only [FI.value_mk, Fmod, e2, Nat.mul_zero, Nat.add_zero]
      rw [hsplit, pow_add]
      generalize val (h0 :: hs) = H at *
      generalize val (l0 :: ls) = L at *
      generalize W ^ swhi = A at *
      generalize W ^ (N - swhi) = Bq at *
      generalize W ^ N = B at *
      subst hB
      have : val r.1 = H + A * Bq * 1 - A * L := by omega
      have hle : A * L ≤ H + A * Bq * 1 := by omega
      nlinarith
    · rw [if_neg hb]
      have hb0 : r.2 = 0 := by omega
      refine ⟨_, rfl, ⟨e2, e3⟩, by simp, ?_⟩
      apply modEq_of_eq (k1 := val (l0 :: ls) * W ^ swhi + val (h0 :: hs) * W ^ N) (k2 := val (h0 :: hs))
      rw [hb0] at e1
      simp only [FI.value_mk, Fmod, e2, Nat.mul_zero, Nat.add_zero]
      rw [hsplit, pow_add]
      generalize val (h0 :: hs) = H at *
      generalize val (l0 :: ls) = L at *
      generalize W ^ swhi = A at *
      generalize W ^ (N - swhi) = Bq at *
      generalize W ^ N = B at *
      subst hB
      nlinarith


theorem wordStage_spec {N : Nat} (x : FI) (sw : Nat) (hN : 0 < N) (hx : WfN N x) (ht : x.top = 0)
    (hsw : sw < 2 * N) :
    ∃ x1, (if sw = 0 then some x
        else if sw < N then shlWordsLow x sw
        else if sw = N then addSmall ⟨compl x.ws, x.top⟩ 2
        else shlWordsHigh x (sw - N)) = some x1 ∧ WfN N x1 ∧ x1.top ≤ 1 ∧
      x1.value ≡ x.value * W ^ sw [MOD Fmod N] := by
  by_cases h0 : sw = 0
  · rw [if_pos h0]
    exact ⟨x, rfl, hx, by omega, by subst h0; simp [Nat.ModEq]⟩
  · rw [if_neg h0]
    by_cases h1 : sw < N
    · rw [if_pos h1]
      exact shlWordsLow_spec x sw hx ht (by omega) h1
    · rw [if_neg h1]
      by_cases h2 : sw = N
      · rw [if_pos h2]
        subst h2
        exact shlNeg_spec x hN hx ht
      · rw [if_neg h2]
        obtain ⟨r, hr, hw, htop, hv⟩ := shlWordsHigh_spec x (sw - N) hx ht (by omega) (by omega)
        refine ⟨r, hr, hw, htop, ?_⟩
        have : N + (sw - N) = sw := by omega
        rwa [this] at hv

theorem pow_two_split (s : Nat) : 2 ^ s = W ^ (s / 64) * 2 ^ (s % 64) := by
  rw [W_eq, ← pow_mul, ← pow_add]
  congr 1
  have := Nat.div_add_mod s 64
  omega

/-- `shl` after the reduction of the shift amount, on an element with `top = 0`. -/
theorem shlMain_spec {N : Nat} (x : FI) (s : Nat) (hN : 0 < N) (hx : WfN N x) (ht : x.top = 0)
    (hs : s < 128 * N) :
    ∃ r, shlMain x s = some r ∧ WfN N r ∧ Norm r ∧ r.value ≡ x.value * 2 ^ s [MOD Fmod N] := by
  unfold shlMain
  simp only [hx.1]
  by_cases h0 : s = 0
  · rw [if_pos h0]
    exact ⟨x, rfl, hx, Or.inl ht, by subst h0; simp [Nat.ModEq]⟩
  · rw [if_neg h0]
    obtain ⟨x1, h1, hw1, ht1, hv1⟩ := wordStage_spec x (s / 64) hN hx ht (by omega)
    rw [h1]
    simp only
    have hW := W_gt
    by_cases hb : s % 64 > 0
    · rw [if_pos hb]
      have h64 : s % 64 < 64 := Nat.mod_lt _ (by decide)
      obtain ⟨e1, e2, e3, e4⟩ := shlBits_spec (s % 64) hb h64 x1.ws 0 hw1.2 (Nat.pow_pos (by decide))
      rw [hw1.1] at e1 e2
      have hp : 2 ^ (s % 64) < W := by
        rw [W_eq]; exact Nat.pow_lt_pow_right (by decide) h64
      have htop : x1.top * 2 ^ (s % 64) % W = x1.top * 2 ^ (s % 64) := by
        apply Nat.mod_eq_of_lt
        rcases Nat.lt_or_ge x1.top 1 with h | h
        · have : x1.top = 0 := by omega
          simp [this, W_pos]
        · have : x1.top = 1 := by omega
          simp [this, hp]
      rw [htop]
      have hle : x1.top * 2 ^ (s % 64) ≤ 2 ^ (s % 64) := by
        have := Nat.mul_le_mul_right (2 ^ (s % 64)) ht1
        simpa using this
      have hp2 : 2 ^ (s % 64) * 2 ≤ W := by
        rw [W_eq, ← pow_succ]; exact Nat.pow_le_pow_right (by decide) (by omega)
      obtain ⟨r, hr, hw, hn, hv⟩ := reduce_spec'
        ⟨(shlBits (s % 64) x1.ws 0).1, x1.top * 2 ^ (s % 64) + (shlBits (s % 64) x1.ws 0).2⟩ hN
        ⟨e2, e3⟩ (by simp only; omega)
      refine ⟨r, hr, hw, hn, hv.trans ?_⟩
      have hexact : (FI.mk (shlBits (s % 64) x1.ws 0).1
          (x1.top * 2 ^ (s % 64) + (shlBits (s % 64) x1.ws 0).2)).value = x1.value * 2 ^ (s % 64) := by
        simp only [FI.value, e2, hw1.1]
        nlinarith
      rw [hexact, pow_two_split s, ← Nat.mul_assoc]
      exact Nat.ModEq.mul_right _ hv1
    · rw [if_neg hb]
      have hb0 : s % 64 = 0 := by omega
      obtain ⟨r, hr, hw, hn, hv⟩ := reduce_spec' x1 hN hw1 (by omega)
      refine ⟨r, hr, hw, hn, hv.trans ?_⟩
      rw [pow_two_split s, hb0, pow_zero, Nat.mul_one]
      exact hv1


theorem pow_period (N : Nat) : 2 ^ (128 * N) ≡ 1 [MOD Fmod N] := by
  apply modEq_of_eq (k1 := 0) (k2 := W ^ N - 1)
  have h1 : 2 ^ (128 * N) = W ^ N * W ^ N := by
    rw [W_eq, ← pow_mul, ← pow_add]; congr 1; omega
  have hp : 0 < W ^ N := Nat.pow_pos W_pos
  rw [h1, Fmod]
  have : W ^ N - 1 + 1 = W ^ N := by omega
  generalize W ^ N - 1 = u at *
  rw [← this]
  ring

theorem pow_mod_period (N s : Nat) : 2 ^ s ≡ 2 ^ (s % (128 * N)) [MOD Fmod N] := by
  conv_lhs => rw [← Nat.div_add_mod s (128 * N), pow_add, pow_mul]
  have := (pow_period N).pow (s / (128 * N))
  rw [one_pow] at this
  have := this.mul_right (2 ^ (s % (128 * N)))
  rwa [one_mul] at this

/-- `FInt::shl(s)`: on a normal form the routine does not panic, returns a normal form and multiplies
the residue by `2^s`, for every `s`. -/
theorem shl_spec' {N : Nat} (x : FI) (s : Nat) (hN : 0 < N) (hx : WfN N x) (hn : Norm x) :
    ∃ r, shl x s = some r ∧ WfN N r ∧ Norm r ∧ r.value ≡ x.value * 2 ^ s [MOD Fmod N] := by
  unfold shl
  simp only [hx.1, isReduced_of_norm hn]
  have hN0 : ¬ N = 0 := by omega
  simp only [hN0, if_false, Bool.not_true, Bool.false_eq_true]
  have hs : s % (128 * N) < 128 * N := Nat.mod_lt _ (by omega)
  by_cases h1 : x.top = 1
  · rw [if_pos h1]
    have hv0 : val x.ws = 0 := by rcases hn with h | ⟨_, h⟩; omega; exact h
    have hone : WfN N ⟨1 :: zeros (N - 1), 0⟩ := by
      refine ⟨by simp; omega, Wf_cons.2 ⟨by decide, Wf_zeros _⟩⟩
    obtain ⟨z, hz, hwz, hnz, hvz⟩ := shlMain_spec ⟨1 :: zeros (N - 1), 0⟩ (s % (128 * N)) hN hone rfl hs
    rw [hz]
    simp only
    have hzero : WfN N (zero N) := ⟨by simp [zero], Wf_zeros _⟩
    obtain ⟨r, hr, hwr, hnr, hvr⟩ := sub_spec' (zero N) z hN hzero hwz (Or.inl rfl) hnz
    refine ⟨r, hr, hwr, hnr, ?_⟩
    -- r + z ≡ 0, z ≡ 2^s, x = W^N ≡ -1
    have hzv : z.value ≡ 2 ^ s [MOD Fmod N] := by
      refine hvz.trans ?_
      have : (FI.mk (1 :: zeros (N - 1)) 0).value = 1 := by
        simp [FI.value, val_zeros]
      rw [this, one_mul]
      exact (pow_mod_period N s).symm
    have hxv : x.value = W ^ N := by simp [FI.value, hv0, h1, hx.1]
    have h0 : (zero N).value = 0 := by simp [FI.value, zero, val_zeros]
    rw [h0] at hvr
    -- r ≡ W^N * 2^s  because r + 2^s ≡ 0 and (W^N + 1) * 2^s ≡ 0
    have h2 : r.value + 2 ^ s ≡ 0 [MOD Fmod N] := (Nat.ModEq.add_left _ hzv.symm).trans hvr
    have h3 : x.value * 2 ^ s + 2 ^ s ≡ 0 [MOD Fmod N] := by
      apply modEq_of_eq (k1 := 0) (k2 := 2 ^ s)
      rw [hxv, Fmod]; ring
    exact Nat.ModEq.add_right_cancel' (2 ^ s) (h2.trans h3.symm)
  · rw [if_neg h1]
    have ht : x.top = 0 := by have := norm_top_le hn; omega
    obtain ⟨r, hr, hw, hnr, hv⟩ := shlMain_spec x (s % (128 * N)) hN hx ht hs
    exact ⟨r, hr, hw, hnr, hv.trans ((pow_mod_period N s).symm.mul_left _)⟩

/-- `FInt::shr(s)` for `s ≤ 128 N`: division by `2^s`. -/
theorem shr_spec' {N : Nat} (x : FI) (s : Nat) (hN : 0 < N) (hx : WfN N x) (hn : Norm x)
    (hs : s ≤ 128 * N) :
    ∃ r, shr x s = some r ∧ WfN N r ∧ Norm r ∧ r.value * 2 ^ s ≡ x.value [MOD Fmod N] := by
  unfold shr
  simp only [hx.1]
  by_cases h0 : s = 0
  · rw [if_pos h0]; subst h0
    exact ⟨x, rfl, hx, hn, by simp [Nat.ModEq]⟩
  · rw [if_neg h0]
    have : ¬ 128 * N < s := by omega
    rw [if_neg this]
    obtain ⟨r, hr, hw, hnr, hv⟩ := shl_spec' x (128 * N - s) hN hx hn
    refine ⟨r, hr, hw, hnr, ?_⟩
    have h1 := hv.mul_right (2 ^ s)
    refine h1.trans ?_
    rw [Nat.mul_assoc, ← pow_add, Nat.sub_add_cancel hs]
    have := (pow_period N).mul_left x.value
    rwa [Nat.mul_one] at this

end Ymq.FInt
