/-
`HSmall` (C17): the model's `primes(6542)` — block 0 of the `PrimeSieve` — is the list of all
primes below 2^16.  Proved from the correctness theorem of the sieve model (`primes_eq`) and the
kernel-computed count π(65536) = 6542 (Ymq/Lemmas/PrimesCount.lean).
-/
import Ymq.Lemmas.PrimesCount

namespace Ymq.Primes

theorem primes_6542 : primes 6542 = some (primesBelow 65536) := by
  have hb : bound 6542 = some 85046 := by decide +kernel
  have e : (primesBelow (2 * (85046 / 2))).take 6542 = primesBelow 65536 := by
    rw [show 2 * (85046 / 2) = 65536 + 19510 from rfl, primesBelow_append,
      List.take_append_of_le_length (by rw [length_primesBelow_65536]),
      List.take_of_length_le (by rw [length_primesBelow_65536])]
  rw [primes_eq 6542 85046 hb, e]

end Ymq.Primes
