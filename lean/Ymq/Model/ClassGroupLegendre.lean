/-
Model of `fn legendre(d: &Uint, p: u32) -> i32` (src/classgroup.rs:629-649), the Legendre symbol
by Euler's criterion used by `smoothness_bias` and `estimate`.

Conventions (see Ymq/Model/Dividers.lean): machine words are `Nat`; every wrap of the Rust code
is an explicit `%`; every panic site of the *checked* profile (assert, debug_assert,
overflow/underflow) returns `none`. `Uint` = `U1024` = 16 little-endian 64-bit words.
No Mathlib import: this file is linked into the native driver.

Panic sites, in program order:
* `Dividers::new(p)`: `assert!(p >> 30 == 0)`, `p = 0` (division by zero), `p = 1`
  (`127 - sz` underflows; the release profile reaches `panic!("incorrect divider")`), `p = 2^k`,
  `k ≥ 2` (`panic!("incorrect divider")`) — all of them in both profiles;
* `pow * sq`, `sq * sq` (u64 products) and `debug_assert!(n >> 63 == 0)` of `modu63`
  (checked profile only; unreachable after a successful `Dividers::new`: operands are `< p < 2^30`);
* `debug_assert!(pow == p as u64 - 1)` (checked profile only: reachable for composite `p`,
  the release profile returns `pow - p`);
* `pow as i32 - p as i32` (i32 subtraction; cannot overflow for `pow < p < 2^30`).
-/
import Ymq.Model.Dividers

namespace Ymq.ClassGroup
open Ymq.Limbs (W ofNat)
open Ymq.Dividers (Div)

/-- `x as i32` for an unsigned `x` (u32 or u64): keep the low 32 bits, reinterpret. -/
def asI32 (x : Nat) : Int :=
  let y : Nat := x % 2 ^ 32
  if y < 2 ^ 31 then (y : Int) else (y : Int) - 2 ^ 32

/-- the `while k > 0` loop of `legendre`: state `(k, pow, sq)`, returns the final `pow`.
`k : u32` is halved at each turn, so 33 units of fuel are enough. -/
def legendreLoop (dv : Div) : Nat → Nat → Nat → Nat → Option Nat
  | 0, _, _, _ => none                               -- out of fuel (never: k < 2^32)
  | fuel + 1, k, pow, sq =>
    if k = 0 then some pow
    else
      let powr : Option Nat :=
        if k % 2 = 1 then
          if pow * sq ≥ W then none                   -- pow * sq overflows u64
          else Dividers.modu63 dv (pow * sq)
        else some pow
      match powr with
      | none => none
      | some pow' =>
        if sq * sq ≥ W then none                      -- sq * sq overflows u64
        else
          match Dividers.modu63 dv (sq * sq) with
          | none => none
          | some sq' => legendreLoop dv fuel (k / 2) pow' sq'

/-- `legendre(d, p)`, `d : Uint` (its value, `< 2^1024`), `p : u32`. -/
def legendre (d p : Nat) : Option Int :=
  match Dividers.new p with
  | none => none
  | some dv =>
    match Dividers.modUint dv (ofNat 16 d) with
    | none => none
    | some r =>
      let dmodp := r % 2 ^ 32                         -- as u32
      match legendreLoop dv 33 (p / 2) 1 dmodp with
      | none => none
      | some pow =>
        if pow > 1 then
          if p = 0 then none                          -- p as u64 - 1
          else if pow ≠ p - 1 then none               -- debug_assert!(pow == p as u64 - 1)
          else
            let r := asI32 pow - asI32 p
            if r < -2 ^ 31 ∨ r ≥ 2 ^ 31 then none     -- i32 subtraction
            else some r
        else some (asI32 pow)                         -- debug_assert!(pow <= 1) holds here

end Ymq.ClassGroup
