/-
C13 helper lemmas: `fbase::cofactor` (trial division of a candidate by the listed primes).
-/
import Ymq.Lemmas.SieveCursor
import Mathlib.Data.Nat.Prime.Basic

namespace Ymq.Sieve

/-- the integer represented by a factor list `[(base, exponent)]`. -/
def fprod (l : List (Int × Nat)) : Int := (l.map fun be => be.1 ^ be.2).prod

theorem fprod_append (a b : List (Int × Nat)) : fprod (a ++ b) = fprod a * fprod b := by
  simp [fprod]

theorem divideOut_spec (p : Nat) (hp : 2 ≤ p) :
    ∀ (f c e c' e' : Nat), c ≠ 0 → divideOut p f c e = some (c', e') →
      e ≤ e' ∧ c = c' * p ^ (e' - e) ∧ ¬ p ∣ c' ∧ c' ≠ 0 := by
  intro f
  induction f with
  | zero => intro c e c' e' _ h; simp [divideOut] at h
  | succ f ih =>
    intro c e c' e' hc h
    rw [divideOut] at h
    by_cases hd : c % p = 0
    · simp only [hd, if_true] at h
      have hdvd : p ∣ c := Nat.dvd_of_mod_eq_zero hd
      have hc' : c / p ≠ 0 := by
        intro h0
        have := Nat.div_mul_cancel hdvd
        rw [h0] at this; omega
      obtain ⟨h1, h2, h3, h4⟩ := ih (c / p) (e + 1) c' e' hc' h
      refine ⟨by omega, ?_, h3, h4⟩
      have e1 : e' - e = (e' - (e + 1)) + 1 := by omega
      rw [e1, pow_succ, ← mul_assoc, ← h2]
      exact (Nat.div_mul_cancel hdvd).symm
    · simp only [hd, if_false, Option.some.injEq, Prod.mk.injEq] at h
      obtain ⟨rfl, rfl⟩ := h
      refine ⟨le_refl _, by simp, ?_, hc⟩
      intro hdv
      exact hd (Nat.mod_eq_zero_of_dvd hdv)

/-- the loop over the listed prime indices. -/
theorem cofactor_loop (primes : Array Nat) (hp2 : ∀ (i p : Nat), primes[i]? = some p → 2 ≤ p) (x : Int) :
    ∀ (facs : List Nat) (st st' : Nat × List (Int × Nat)),
      st.1 ≠ 0 → fprod st.2 * (st.1 : Int) = x →
      facs.foldlM (cofactorStep primes) st = some st' →
      st'.1 ≠ 0 ∧ fprod st'.2 * (st'.1 : Int) = x ∧ st'.1 ∣ st.1 ∧
      (∀ pidx ∈ facs, ∀ pp, primes[pidx]? = some pp → ¬ pp ∣ st'.1) ∧
      (∀ be ∈ st'.2, be ∈ st.2 ∨ ∃ pidx ∈ facs, primes[pidx]? = some be.1.toNat ∧ (be.1.toNat : Int) = be.1 ∧ 0 < be.2) := by
  intro facs
  induction facs with
  | nil =>
    intro st st' h0 hx h
    simp at h; subst h
    exact ⟨h0, hx, dvd_refl _, by simp, fun be hbe => Or.inl hbe⟩
  | cons pidx rest ih =>
    intro st st' h0 hx h
    rw [List.foldlM_cons] at h
    simp only [bind, Option.bind_eq_some_iff] at h
    obtain ⟨st1, h1, h2⟩ := h
    unfold cofactorStep at h1
    simp only [Option.bind_eq_bind, Option.bind_eq_some_iff] at h1
    obtain ⟨pp, hpp, ⟨c, e⟩, hdo, hst1⟩ := h1
    simp only [Option.some.injEq] at hst1
    have hp := hp2 _ _ hpp
    obtain ⟨_, hc, hnd, hc0⟩ := divideOut_spec pp hp 300 st.1 0 c e h0 hdo
    simp only [Nat.sub_zero] at hc
    have hx1 : fprod st1.2 * (st1.1 : Int) = x := by
      rw [← hst1]
      simp only
      rw [← hx, hc]
      by_cases he : e > 0
      · simp only [he, if_true, fprod_append]
        simp only [fprod, List.map_cons, List.map_nil, List.prod_cons, List.prod_nil, mul_one]
        push_cast; ring
      · have : e = 0 := by omega
        subst this
        simp
    have h10 : st1.1 ≠ 0 := by rw [← hst1]; exact hc0
    obtain ⟨a1, a2, a3, a4, a5⟩ := ih st1 st' h10 hx1 h2
    have hdv1 : st1.1 ∣ st.1 := by rw [← hst1]; simp only; rw [hc]; exact Dvd.intro _ rfl
    refine ⟨a1, a2, dvd_trans a3 hdv1, ?_, ?_⟩
    · intro q hq qq hqq
      rcases List.mem_cons.1 hq with rfl | hq
      · rw [hpp] at hqq
        have := Option.some.inj hqq; subst this
        intro hdv
        have : pp ∣ st1.1 := dvd_trans hdv a3
        rw [← hst1] at this
        exact hnd this
      · exact a4 q hq qq hqq
    · intro be hbe
      rcases a5 be hbe with hb | ⟨q, hq, hq2⟩
      · rw [← hst1] at hb
        simp only at hb
        by_cases he : e > 0
        · simp only [he, if_true, List.mem_append, List.mem_singleton] at hb
          rcases hb with hb | rfl
          · exact Or.inl hb
          · exact Or.inr ⟨pidx, List.mem_cons_self, by simpa using hpp, by simp, he⟩
        · simp only [he, if_false] at hb
          exact Or.inl hb
      · exact Or.inr ⟨q, List.mem_cons_of_mem _ hq, hq2⟩

/-- every `Some` result of the tail carries the factor list unchanged and a pair with `p·q = cofactor`. -/
theorem cofactorTail_some {primes : Array Nat} {cof : Nat} {fs : List (Int × Nat)} {maxlarge : Nat} {double : Bool}
    {tf : Nat → Option (Nat × Nat)} {p q : Nat} {factors : List (Int × Nat)}
    (htf : ∀ n a b, tf n = some (a, b) → a * b = n)
    (h : cofactorTail primes cof fs maxlarge double tf = some (some ((p, q), factors))) :
    factors = fs ∧ p * q = cof := by
  unfold cofactorTail at h
  by_cases h1 : cof ≥ 2 ^ 64
  · rw [if_pos h1] at h; simp at h
  rw [if_neg h1] at h
  by_cases h2 : maxlarge * maxlarge ≥ 2 ^ 64
  · rw [if_pos h2] at h; simp at h
  rw [if_neg h2] at h
  by_cases h3 : cof > maxlarge * maxlarge
  · rw [if_pos h3] at h; simp at h
  rw [if_neg h3] at h
  cases hb : primes.back? with
  | none => rw [hb] at h; simp at h
  | some maxprime =>
    rw [hb] at h
    simp only at h
    by_cases h4 : double = true ∧ cof > maxprime * maxprime
    · rw [if_pos h4] at h
      cases htfc : tf cof with
      | none => rw [htfc] at h; simp at h
      | some ab =>
        obtain ⟨a, b⟩ := ab
        rw [htfc] at h
        simp only at h
        by_cases h5 : a > maxlarge ∨ b > maxlarge
        · rw [if_pos h5] at h; simp at h
        rw [if_neg h5] at h
        simp only [Option.some.injEq, Prod.mk.injEq] at h
        obtain ⟨⟨rfl, rfl⟩, rfl⟩ := h
        exact ⟨rfl, htf _ _ _ htfc⟩
    · rw [if_neg h4] at h
      by_cases h5 : cof > maxlarge
      · rw [if_pos h5] at h; simp at h
      rw [if_neg h5] at h
      cases hcc : certainlyComposite cof with
      | none => rw [hcc] at h; simp at h
      | some cc =>
        rw [hcc] at h
        simp only at h
        by_cases h6 : cc = true
        · rw [if_pos h6] at h; simp at h
        rw [if_neg h6] at h
        simp only [Option.some.injEq, Prod.mk.injEq] at h
        obtain ⟨⟨rfl, rfl⟩, rfl⟩ := h
        exact ⟨rfl, by simp⟩

/-- `cofactor_spec`, core: whenever `cofactor` returns `Some(((p, q), factors))` for a non-zero value,
the factors and the cofactor multiply back to the value, and the cofactor `p·q` is divisible by none of
the listed primes. `htf`: `try_factor64` (not modelled) returns a factorisation when it returns something. -/
theorem cofactor_core {primes : Array Nat} {x : Int} {facs : List Nat} {maxlarge : Nat} {double : Bool}
    {tf : Nat → Option (Nat × Nat)} {p q : Nat} {factors : List (Int × Nat)}
    (hp2 : ∀ (i pp : Nat), primes[i]? = some pp → 2 ≤ pp) (hx : x ≠ 0)
    (htf : ∀ n a b, tf n = some (a, b) → a * b = n)
    (h : cofactor primes x facs maxlarge double tf = some (some ((p, q), factors))) :
    fprod factors * ((p * q : Nat) : Int) = x ∧ p * q ≠ 0 ∧ p * q ∣ x.natAbs ∧
    (∀ pidx ∈ facs, ∀ pp, primes[pidx]? = some pp → ¬ pp ∣ p * q) ∧
    (∀ be ∈ factors, be = (-1, 1) ∨ ∃ pidx ∈ facs, primes[pidx]? = some be.1.toNat ∧ (be.1.toNat : Int) = be.1 ∧ 0 < be.2) := by
  unfold cofactor at h
  simp only [Option.bind_eq_bind, Option.bind_eq_some_iff] at h
  obtain ⟨⟨cof, fs⟩, hloop, h⟩ := h
  obtain ⟨rfl, hpq⟩ := cofactorTail_some htf h
  have h0 : x.natAbs ≠ 0 := Int.natAbs_ne_zero.2 hx
  generalize hf0 : (if x < 0 then [((-1 : Int), 1)] else []) = f0 at hloop
  have hinit : fprod f0 * ((x.natAbs : Nat) : Int) = x := by
    subst hf0
    by_cases hneg : x < 0
    · simp only [hneg, if_true, fprod, List.map_cons, List.map_nil, List.prod_cons, List.prod_nil, pow_one, mul_one]
      rw [Int.ofNat_natAbs_of_nonpos (le_of_lt hneg)]; ring
    · simp only [hneg, if_false, fprod, List.map_nil, List.prod_nil, one_mul]
      exact Int.natAbs_of_nonneg (by omega)
  have hf0mem : ∀ be ∈ f0, be = ((-1 : Int), 1) := by
    intro be hbe
    subst hf0
    by_cases hneg : x < 0
    · simpa [hneg] using hbe
    · simp [hneg] at hbe
  obtain ⟨c0, cx, cdv, cnd, cfs⟩ := cofactor_loop primes hp2 x facs (x.natAbs, f0) (cof, factors) h0 hinit hloop
  rw [hpq]
  refine ⟨cx, c0, cdv, cnd, ?_⟩
  intro be hbe
  rcases cfs be hbe with hb | hb
  · exact Or.inl (hf0mem be hb)
  · exact Or.inr hb

/-- the consequence named by the property: if every prime up to `bound` dividing the value is one of the
listed primes, the cofactor has only prime factors above `bound` (so it is 1 or such a product). -/
theorem cofactor_large {primes : Array Nat} {x : Int} {facs : List Nat} {p q bound : Nat}
    (hdv : p * q ∣ x.natAbs)
    (hnd : ∀ pidx ∈ facs, ∀ pp, primes[pidx]? = some pp → ¬ pp ∣ p * q)
    (hcomplete : ∀ l : Nat, l.Prime → l ≤ bound → l ∣ x.natAbs → ∃ pidx ∈ facs, primes[pidx]? = some l) :
    ∀ l : Nat, l.Prime → l ∣ p * q → bound < l := by
  intro l hl hlpq
  by_contra hc
  obtain ⟨pidx, hmem, hp⟩ := hcomplete l hl (by omega) (dvd_trans hlpq hdv)
  exact hnd pidx hmem l hp hlpq

end Ymq.Sieve
