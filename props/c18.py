"""C18 — a reported class group is the true class group (PARTIAL by nature, see CLAIM / LEVEL_NOTE).

Request lines (harness: harness/src/ops_classgroup.rs, model: lean/Ymq/Drv/ClassGroup.lean)

  (cg_h, cg_full, cg_poly accept an optional last argument 0|1: force the double large prime variation, and trailing
   fb=N large=N dbl=0|1 = Preferences::{fb_size, large_factor, use_double}, the documented ymcls options)
  cg_h D threads                 real classgroup(): `h inv,inv,..`                                  (O)
  cg_full D threads              real classgroup() with an output directory: h, invariants, generator
                                 coordinates, every line of relations.sieve, the classnumber file    (O + model follow-ups)
  cg_estimate D                  classgroup::estimate, as floor(1000 hmin) ceil(1000 hmax)          (O, reported only)
  cg_estimate_bits D             classgroup::estimate as two f64 bit patterns: |D| at every row boundary of the
                                 parameter tables (b-1, b, b+1 bits, to 512 bits): no panic, finite bracket  (O)
  cg_b_plus p r even             Prime::b_plus                                                      (K + O)
  cg_fb_bplus D size             p:r:b_plus for the factor base the class group code builds         (O)
  cg_crel_history maxlarge rels  CRelationSet::add over a history: emitted relations + counters     (K + O)
  cg_poly D first count target [1]  hook: polynomials first..first+count of the real sieve (fresh relation set each, sieve stops after
                                 `target` complete relations; last argument 1 = double large primes forced) with the relations they
                                 produced (O: every relation by form arithmetic; model follow-ups cg_poly_model = K on relationOf).
                                 A panic of cg_poly / rf_real is ALWAYS an oracle failure (relation_no_panic); cg_h / cg_full / cg_poly
                                 answer `panic <message> @ <file>:<line>`: for cg_h / cg_full only the recorded refusals
                                 (RECORDED_REFUSALS: C19 lattice index, Smith form assertion) are accepted as refusals

Model-only follow-up lines (built from the implementation's answers):
  cg_classnumber D               reference class number of the model (enumeration of reduced forms)
  cg_invcheck h invs             the bookkeeping check of `invariants_multiply`
  cg_relcheck D p:b:e,...        product of prime forms (b = certified b_plus) reduces to the principal form
  cg_compose a1 b1 c1 a2 b2 c2   Form.compose of the model (Cohen 5.4.7 + own xgcd + reduce; Props/C18Group) on prime forms of
                                 the REAL factor base, against an independent composition (united forms found by search)
  cg_reduce a b c                Form.reduce with the model's fuel + isReducedPrim, against Python's reduction loop
  cg_relation ...                the sign decision of sieve_block_poly / Poly::factors replayed on (polynomial, x)

The oracle is plain Python: reduced-form counts (table for the exhaustive range, an O(sqrt|D|) root-counting
method for large |D|, cross-checked against each other on every run), Shanks/Gauss composition and reduction,
an own Tonelli-Shanks and Miller-Rabin. Nothing from yamaquasi or from the Lean model is used.
"""
# SIZE AUDIT (quick tier)
# sizes the code supports: classgroup(d: &Int) takes a 1024-bit Int (ymcls refuses above 512 bits); in practice the run time decides
# (0.1 s at 128 bits, 1 s at 160, 5..20 s at 200, minutes beyond 230). Width classes inside the code: |D| above 64 / 128 bits (no
# special path: Int throughout, I256 polynomial values), the parameter tables keyed by adjsize = bits - 2.5 bias at 32/33, 64/65, 80/81,
# 99/100, 119/120, 128/129, 149/150, 160/161, 180/181 (use_double by default above 180), the factor base: above 800 primes (default
# parameters: adjsize 157..180 and above ~200) group_structure_sparse is used (class number only), otherwise SmithNormalForm, whose
# arithmetic depends on the CLASS NUMBER: fast i128 row operations for h < 2^63/N (N = 1, 8: h below 2^60 / 2^63), I256 products above,
# h as u128 (assert h < 2^125, hmax.log2() < 126), invariants and coordinates as u128 (above u64 for |D| beyond ~130 bits).
#   op               max |D| quick / thorough / supported          boundary classes reached by quick before this audit
#   cg_h             44 bits judged exactly, 101 by necessary      32/33 bits (random 16..34): yes; 63/64 bits: by chance; 65 bits: no;
#                    conditions / the same (40 exact) / see above   128 bits: no; above 128 bits: NEVER (either tier)
#   cg_full          128 bits (8 runs; 120: 4) / 128 / see above   64, 128 yes; 65, 129 and above: never; h >= 2^60: yes (128 bits);
#                                                                  h >= 2^63: by chance (L(1) > 1.9 at 128 bits); h >= 2^64: never
#   cg_poly          128 bits / 128 / see above                    64, 72, 128; nothing above 128
#   cg_fb_bplus      128 bits / 128                                 table lookups only: nothing size dependent above
#   cg_b_plus        p < 2^30 (assert of Dividers::new), 30-bit    random 30-bit primes; not the largest prime below 2^30, not the
#                    primes reached in both tiers                   16/17-bit switch of Dividers
#   cg_crel_history  large primes to 2^32-1 (u32): reached (1/15 of 400 histories); rf_*: exponents to 2^31-1 (i32 overflow): reached
# gaps: everything above 128 bits (SmithNormalForm with h above 2^63 / 2^64, u128 invariants and generator coordinates above u64,
# interval / large prime / a_params classes 129.., the sparse path and the double large prime variation chosen by DEFAULT parameters),
# |D| of 65 bits. Added: boundary_cases (first in the stream, both tiers, own rng stream).
import math
from vlib.pipeline import Case

PID = "C18"
GEN = []
LEAN = ["Ymq.Props.C18", "Ymq.Props.C18C19", "Ymq.Props.C18Forms", "Ymq.Props.C18Legendre", "Ymq.Props.C18Group"]
AUDIT = "Ymq.Audit.C18"
PROFILES = ["release", "chk"]
TIMEOUT = 60.0


# ================================================================ independent number theory

def isqrt(n):
    return math.isqrt(n)


_MR_BASES = (2, 3, 5, 7, 11, 13, 17, 19, 23, 29, 31, 37, 41)


def is_prime(n):
    """deterministic Miller-Rabin below 3.3e24 (bases 2..41), probable prime above"""
    if n < 2:
        return False
    for p in _MR_BASES:
        if n % p == 0:
            return n == p
    d, s = n - 1, 0
    while d % 2 == 0:
        d //= 2
        s += 1
    for a in _MR_BASES:
        x = pow(a, d, n)
        if x in (1, n - 1):
            continue
        for _ in range(s - 1):
            x = x * x % n
            if x == n - 1:
                break
        else:
            return False
    return True


def small_primes(n):
    """primes <= n"""
    if n < 2:
        return []
    s = bytearray([1]) * (n + 1)
    s[0] = s[1] = 0
    for i in range(2, isqrt(n) + 1):
        if s[i]:
            s[i * i::i] = bytes(len(range(i * i, n + 1, i)))
    return [i for i in range(2, n + 1) if s[i]]


def sqrt_mod_prime(n, p):
    """a square root of n modulo the odd prime p, or None"""
    n %= p
    if n == 0:
        return 0
    if pow(n, (p - 1) // 2, p) != 1:
        return None
    if p % 4 == 3:
        return pow(n, (p + 1) // 4, p)
    q, s = p - 1, 0
    while q % 2 == 0:
        q //= 2
        s += 1
    z = 2
    while pow(z, (p - 1) // 2, p) != p - 1:
        z += 1
    m, c, t, r = s, pow(z, q, p), pow(n, q, p), pow(n, (q + 1) // 2, p)
    while t != 1:
        i, t2 = 0, t
        while t2 != 1:
            t2 = t2 * t2 % p
            i += 1
        b = pow(c, 1 << (m - i - 1), p)
        m, c = i, b * b % p
        t, r = t * c % p, r * b % p
    return r


def kronecker_prime(D, p):
    """(D/p) for a prime p, D a discriminant"""
    if p == 2:
        if D % 2 == 0:
            return 0
        return 1 if D % 8 in (1, 7) else -1
    r = pow(D % p, (p - 1) // 2, p)
    return -1 if r == p - 1 else r


def is_squarefree_trial(n):
    """exact for every n (trial division by p up to n^(1/3), then a square test)"""
    p = 2
    while p * p * p <= n:
        if n % p == 0:
            n //= p
            if n % p == 0:
                return False
        p += 1 if p == 2 else 2
    r = isqrt(n)
    return r * r != n or n == 1


def is_fundamental(D):
    if D >= 0:
        return False
    if D % 4 == 1:
        return is_squarefree_trial(-D)
    if D % 4 == 0:
        m = D // 4
        return m % 4 in (2, 3) and is_squarefree_trial(-m)
    return False


def factor_small(n):
    """trial division (n up to ~2^44 in reasonable time); list of (p, e)"""
    out = []
    p = 2
    while p * p <= n:
        if n % p == 0:
            e = 0
            while n % p == 0:
                n //= p
                e += 1
            out.append((p, e))
        p += 1 if p == 2 else 2
    if n > 1:
        out.append((n, 1))
    return out


# ---------------------------------------------------------------- binary quadratic forms (negative discriminant)

def form_reduce(a, b, c):
    while True:
        if not (-a < b <= a):
            r = (a - b) // (2 * a)
            c = a * r * r + b * r + c
            b = b + 2 * a * r
        if a > c:
            a, b, c = c, -b, a
            continue
        if a == c and b < 0:
            b = -b
        return (a, b, c)


def xgcd(a, b):
    """(g, u, v) with u a + v b = g = gcd(a, b) >= 0"""
    u0, v0, u1, v1 = 1, 0, 0, 1
    while b:
        q = a // b
        a, b = b, a - q * b
        u0, u1 = u1, u0 - q * u1
        v0, v1 = v1, v0 - q * v1
    if a < 0:
        a, u0, v0 = -a, -u0, -v0
    return a, u0, v0


def form_compose(f1, f2):
    """Gauss/Dirichlet composition (Cohen, Algorithm 5.4.7), result reduced"""
    a1, b1, c1 = f1
    a2, b2, c2 = f2
    if a1 > a2:
        a1, b1, c1, a2, b2, c2 = a2, b2, c2, a1, b1, c1
    s = (b1 + b2) // 2
    n = b2 - s
    if a2 % a1 == 0:
        y1, d = 0, a1
    else:
        d, u, v = xgcd(a2, a1)
        y1 = u
    if s % d == 0:
        y2, x2, d1 = -1, 0, d
    else:
        d1, u, v = xgcd(s, d)
        x2, y2 = u, -v
    v1, v2 = a1 // d1, a2 // d1
    r = (y1 * y2 * n - x2 * c2) % v1
    b3 = b2 + 2 * v2 * r
    a3 = v1 * v2
    c3 = (c2 * d1 + r * (b2 + v2 * r)) // v1
    return form_reduce(a3, b3, c3)


def form_principal(D):
    b = D % 2
    return (1, b, (b * b - D) // 4)


def form_pow(f, e, D):
    r = form_principal(D)
    if e < 0:
        f, e = (f[0], -f[1], f[2]), -e
    while e:
        if e & 1:
            r = form_compose(r, f)
        f = form_compose(f, f)
        e >>= 1
    return r


def b_plus_of(D, p):
    """the documented sign convention: the root b of b^2 = D (mod p), 0 <= b <= p, b = D (mod 2);
    b = p (D odd) resp. 0 (D even) when p | D. p = 2: the form (2, b, .) with b in {0, 1, 2}.
    None when p does not split or ramify."""
    if p == 2:
        if D % 8 == 1:
            return 1
        if D % 8 == 0:
            return 0
        if D % 8 == 4:
            return 2
        return None
    r = sqrt_mod_prime(D, p)
    if r is None:
        return None
    if r == 0:
        return p if D % 2 else 0
    return r if (r - D) % 2 == 0 else p - r


def prime_form(D, p):
    b = b_plus_of(D, p)
    if b is None:
        return None
    num = b * b - D
    if num % (4 * p):
        return None
    return (p, b, num // (4 * p))


def relation_value(D, entries, cache=None):
    """reduced form of prod [|x|]^(sign x) over the entries of one relation line; string on error"""
    acc = form_principal(D)
    for x in entries:
        p = abs(x)
        f = cache.get(p) if cache is not None else None
        if f is None:
            if not is_prime(p):
                return f"{p} is not a prime"
            f = prime_form(D, p)
            if f is None:
                return f"no ideal of norm {p}: ({D}/{p}) = -1"
            if cache is not None:
                cache[p] = f
        if x < 0:
            f = (f[0], -f[1], f[2])
        acc = form_compose(acc, f)
    return acc


# ---------------------------------------------------------------- class numbers

def reduced_table(X):
    """cnt[n] = number of reduced forms (a, b, c) with 4ac - b^2 = n for 0 < n < X (all forms, primitive or not;
    for a fundamental discriminant every form is primitive)."""
    cnt = [0] * X
    a = 1
    while 3 * a * a < X:
        for b in range(0, a + 1):
            start = 4 * a * a - b * b          # c = a (b >= 0 only)
            if start >= X:
                continue
            cnt[start] += 1
            m = 2 if 0 < b < a else 1
            for n in range(start + 4 * a, X, 4 * a):
                cnt[n] += m
        a += 1
    return cnt


def reduced_forms(D):
    """every reduced primitive form of discriminant D < 0, by the definition (O(|D|))"""
    out = []
    n = -D
    b = n % 2
    while 3 * b * b <= n:
        m = (b * b + n) // 4
        a = max(b, 1)
        while a * a <= m:
            if m % a == 0:
                c = m // a
                if math.gcd(math.gcd(a, b), c) == 1:
                    out.append((a, b, c))
                    if 0 < b < a < c:
                        out.append((a, -b, c))
            a += 1
        b += 2
    return out


def _roots_mod_4a(D, a, fac):
    """all b in (-a, a] with b^2 = D (mod 4a); fac = factorisation of a"""
    mods = []          # (modulus, [roots])
    k2 = 0
    for p, e in fac:
        if p == 2:
            k2 = e
            continue
        if D % p == 0:
            if e > 1:
                return []
            mods.append((p, [0]))
            continue
        r = sqrt_mod_prime(D, p)
        if r is None:
            return []
        pk = p
        for _ in range(e - 1):
            pk2 = pk * p
            r = (r - (r * r - D) * pow(2 * r, -1, pk2)) % pk2
            pk = pk2
        mods.append((pk, [r, pk - r]))
    # 2-part: modulus 2^(k2+2)
    t = k2 + 2
    sols = [x for x in range(4) if (x * x - D) % 4 == 0]
    for j in range(2, t):
        nxt = []
        for s in sols:
            for c in (s, s + (1 << j)):
                if (c * c - D) % (1 << (j + 1)) == 0:
                    nxt.append(c)
        sols = sorted(set(nxt))
    if not sols:
        return []
    M, R = 1 << t, sols
    for m, rs in mods:
        inv = pow(M, -1, m)
        R = [x + M * ((r - x) * inv % m) for x in R for r in rs]
        M *= m
    out = set()
    for x in R:
        b = x % (2 * a)
        if b > a:
            b -= 2 * a
        out.add(b)
    return sorted(out)


def class_number_fast(D):
    """number of reduced forms of the fundamental discriminant D < 0 in O(sqrt|D| log log) operations:
    for 4a^2 < |D| every root b in (-a, a] of b^2 = D (mod 4a) gives a reduced form (c > a), their number
    rho(a) is multiplicative; for |D|/4 <= a^2 <= |D|/3 the roots are listed and tested."""
    n = -D
    A2 = isqrt(n // 3)
    A1 = isqrt((n - 1) // 4) if n > 1 else 0          # largest a with 4a^2 < n
    while 4 * (A1 + 1) * (A1 + 1) < n:
        A1 += 1
    rho = [1] * (A2 + 1)
    ps = small_primes(A2)
    for p in ps:
        chi = kronecker_prime(D, p)
        if chi == -1:
            rho[p::p] = [0] * len(range(p, A2 + 1, p))
        elif chi == 1:
            for i in range(p, A2 + 1, p):
                rho[i] *= 2
        else:
            if p * p <= A2:
                rho[p * p::p * p] = [0] * len(range(p * p, A2 + 1, p * p))
    h = sum(rho[1:A1 + 1])
    for a in range(A1 + 1, A2 + 1):
        if rho[a] == 0:
            continue
        fac, m = [], a
        for p in ps:
            if p * p > m:
                break
            if m % p == 0:
                e = 0
                while m % p == 0:
                    m //= p
                    e += 1
                fac.append((p, e))
        if m > 1:
            fac.append((m, 1))
        for b in _roots_mod_4a(D, a, fac):
            c = (b * b + n) // (4 * a)
            if c > a or (c == a and b >= 0):
                h += 1
    return h


def canonical_invariants(invs):
    """multiset of prime powers of a list of cyclic orders (isomorphism type of the product)"""
    out = []
    for d in invs:
        for p, e in factor_small(d):
            out.append(p ** e)
    return sorted(out)


def group_type(D, forms=None):
    """isomorphism type (sorted prime powers) of the class group, from the orders of all elements"""
    forms = forms or reduced_forms(D)
    h = len(forms)
    out = []
    for l, v in factor_small(h):
        if v == 1:
            out.append(l)
            continue
        m = h // l ** v
        # N[k] = number of elements of the l-Sylow subgroup of order dividing l^k
        N = [0] * (v + 1)
        for f in forms:
            g = form_pow(f, m, D)
            k = 0
            while g[0] != 1:
                g = form_pow(g, l, D)
                k += 1
            for j in range(k, v + 1):
                N[j] += 1
        N = [x // m for x in N]
        # N[k]/N[k-1] = l^(number of cyclic factors of order >= l^k)
        cnt = []
        for k in range(1, v + 1):
            q, r = N[k] // N[k - 1], 0
            while q > 1:
                q //= l
                r += 1
            cnt.append(r)
        cnt.append(0)
        for k in range(1, v + 1):
            out += [l ** k] * (cnt[k - 1] - cnt[k])
    return sorted(out)


def sylow_type(D, h, q, v, cap=1 << 13, plimit=3000):
    """isomorphism type (sorted list of powers of q) of the q-Sylow subgroup of the class group of D, h = q^v * m the
    (verified) class number. The subgroup is generated by the m-th powers of prime forms (the forms of prime norm
    below sqrt(|D|/3) generate the class group: every reduced form has a <= sqrt(|D|/3)); it is enumerated element by
    element until it has q^v elements, then the numbers of solutions of x^(q^k) = 1 give the type.
    None when q^v > cap or the prime forms below plimit do not generate it (inconclusive)."""
    size = q ** v
    if size > cap:
        return None
    m = h // size
    one = form_principal(D)
    S = {one}
    for p in small_primes(plimit):
        if len(S) == size:
            break
        f = prime_form(D, p)
        if f is None:
            continue
        s_ = form_pow(f, m, D)
        if s_ in S:
            continue
        base = list(S)
        frozen = set(base)
        t = s_
        while t not in frozen:                    # S <- union of the cosets S * s^j
            for x in base:
                S.add(form_compose(x, t))
            t = form_compose(t, s_)
    if len(S) != size:
        return None
    # N[k] = #{x : x^(q^k) = 1}
    N = [0] * (v + 1)
    for x in S:
        k, g = 0, x
        while g != one:
            g = form_pow(g, q, D)
            k += 1
        for j in range(k, v + 1):
            N[j] += 1
    cnt = []
    for k in range(1, v + 1):
        r, t = 0, N[k] // N[k - 1]
        while t > 1:
            t //= q
            r += 1
        cnt.append(r)
    cnt.append(0)
    out = []
    for k in range(1, v + 1):
        out += [q ** k] * (cnt[k - 1] - cnt[k])
    return sorted(out)


# ================================================================ discriminant generators

TABLE_BOUND = {"quick": 40000, "thorough": 1000000}
_TABLE = {"X": 0, "cnt": []}


def table_upto(X):
    if _TABLE["X"] < X:
        _TABLE["cnt"] = reduced_table(X)
        _TABLE["X"] = X
    return _TABLE["cnt"]


_REF_CACHE = {}

# class numbers documented in /repo/README_classgroup.md (used only when |D| is out of reach of the reference)
README_H = {
    -672772578839: 959482,
    -560979400532204839: 594097986,
    -367908113612190744468907: 73361502182,
    -835530720420926898479116136119: 589709265061998,
}
FAST_LIMIT = 1 << 46        # class_number_fast is used up to here (sqrt(|D|/3) ~ 4.8e6)


def reference_h(D):
    """independent class number or None when out of reach"""
    if D in _REF_CACHE:
        return _REF_CACHE[D]
    n = -D
    if n < _TABLE["X"]:
        h = _TABLE["cnt"][n]
    elif n < 3000:
        h = len(reduced_forms(D))
    elif n < FAST_LIMIT:
        h = class_number_fast(D)
    else:
        h = README_H.get(D)
    _REF_CACHE[D] = h
    return h


def random_fundamental(rng, bits, cls=None):
    """random fundamental discriminant with |D| of exactly `bits` bits; cls in {1, 5, 8, 12}: D mod 8 = 1, 5 resp.
    D mod 16 = 8, 12. Squarefreeness is exact for bits <= 60 (trial division), otherwise D is built as -(4|8)*prime
    or -prime so that it is fundamental by construction."""
    cls = cls or rng.choice([1, 5, 8, 12])
    if bits <= 12:
        want = {1: (1, 8), 5: (5, 8), 8: (8, 16), 12: (12, 16)}[cls]
        cand = [-n for n in range(max(3, 1 << (bits - 1)), 1 << bits) if is_fundamental(-n)]
        sel = [D for D in cand if D % want[1] == want[0]] or cand or [-3]
        return rng.choice(sel)
    for _ in range(100000):
        if bits <= 60:
            if cls in (1, 5):
                n = rng.getrandbits(bits) | (1 << (bits - 1))
                n = n - (n % 8) + (8 - cls)               # D = -n = cls mod 8
                if n.bit_length() != bits or n < 3:
                    continue
                D = -n
            else:
                mb = bits - (3 if cls == 8 else 2)
                if mb < 1:
                    continue
                m = rng.getrandbits(mb) | (1 << (mb - 1)) | 1
                if cls == 8:
                    D = -8 * m                            # D/4 = -2m = 2 mod 4
                else:
                    m = m - (m % 4) + 1                   # D/4 = -m = 3 mod 4
                    if m.bit_length() != mb or m < 1:
                        continue
                    D = -4 * m
                if (-D).bit_length() != bits:
                    continue
            if is_fundamental(D):
                return D
        else:
            if cls in (1, 5):
                p = rng.getrandbits(bits) | (1 << (bits - 1))
                p = p - (p % 8) + (8 - cls)
                if p.bit_length() == bits and is_prime(p):
                    return -p
            elif cls == 8:
                p = rng.getrandbits(bits - 3) | (1 << (bits - 4)) | 1
                if is_prime(p):
                    return -8 * p
            else:
                p = rng.getrandbits(bits - 2) | (1 << (bits - 3))
                p = p - (p % 4) + 1
                if p.bit_length() == bits - 2 and is_prime(p):
                    return -4 * p
    raise RuntimeError("no discriminant found")


def composite_fundamental(rng, bits, nf):
    """fundamental discriminant -(p1 ... pnf) or -4(...) with known distinct odd prime factors (2-rank = nf - 1 resp. nf)"""
    while True:
        ps = set()
        while len(ps) < nf:
            b = max(3, bits // nf + rng.randrange(-1, 2))
            p = rng.getrandbits(b) | (1 << (b - 1)) | 1
            if is_prime(p):
                ps.add(p)
        n = 1
        for p in ps:
            n *= p
        D = -n if n % 4 == 3 else -4 * n
        if abs((-D).bit_length() - bits) <= 3:
            return D, sorted(ps)


def dclass(D):
    if D % 2:
        return "1mod8" if D % 8 == 1 else "5mod8"
    return "8mod16" if D % 16 == 8 else ("12mod16" if D % 16 == 12 else "nonfund")


def sizeclass(D):
    b = (-D).bit_length()
    for lim in (16, 32, 40, 64, 100, 128):
        if b <= lim:
            return f"<={lim}b"
    return ">128b"


# ================================================================ cases

def bplus_cases(rng, n):
    ps = [p for p in small_primes(2000) if p > 2]
    for i in range(n):
        c = rng.randrange(6)
        if c == 0:
            p = rng.choice(ps[:20])
        elif c == 1:
            p = rng.choice(ps)
        else:
            b = rng.choice([12, 16, 20, 24, 24, 28, 30])      # Dividers::new needs p < 2^30
            while True:
                p = rng.getrandbits(b) | (1 << (b - 1)) | 1
                if is_prime(p):
                    break
        r = rng.choice([0, 1, p - 1, p // 2, (p + 1) // 2, rng.randrange(p), rng.randrange(p), rng.randrange(p)])
        even = rng.choice(["true", "false"])
        yield Case(f"cg_b_plus {p} {r} {even}")
    for p in (2, 3, 5, 7):
        for r in range(p + 1):
            for even in ("true", "false"):
                if r <= p:
                    yield Case(f"cg_b_plus {p} {r} {even}", o=(r < p))
    # r > p: u64 underflow, only the checked profile has a defined behaviour
    for _ in range(20):
        p = rng.choice(ps)
        yield Case(f"cg_b_plus {p} {p + 1 + 2 * rng.randrange(5) + (p % 2 == 0)} false", o=False, profiles=["chk"])


def show_fac(pe):
    return f"{pe[0]}^{pe[1]}"


def show_rel(fs, l1, l2):
    f = ".".join(show_fac(x) for x in fs) if fs else "-"
    return f"{f}/{show_fac(l1) if l1 else '_'}/{show_fac(l2) if l2 else '_'}"


def parse_fac(s):
    p, e = s.split("^")
    return int(p), int(e)


def parse_rel(s):
    f, l1, l2 = s.split("/")
    fs = [] if f == "-" else [parse_fac(x) for x in f.split(".")]
    return fs, (None if l1 == "_" else parse_fac(l1)), (None if l2 == "_" else parse_fac(l2))


def history_cases(rng, n):
    for i in range(n):
        npool = rng.choice([2, 3, 5, 8, 12, 30, 80])
        pool = rng.sample(range(101, 101 + 4 * npool), npool)
        if rng.randrange(15) == 0:
            pool.append(rng.choice([(1 << 32) - 1, (1 << 32) - 5, 4294967291]))
        maxlarge = rng.choice([1000, 1000, 1000, 101 + 2 * npool, 0, (1 << 32) - 1])
        nrel = rng.choice([1, 3, 8, 20, 40, 90])
        rels = []
        for _ in range(nrel):
            fs = [(rng.choice([2, 3, 5, 7, 11, 13]), rng.choice([-3, -2, -1, 1, 1, 2, 0 if rng.randrange(9) == 0 else 1]))
                  for _ in range(rng.randrange(0, 4))]
            c = rng.randrange(12)
            sg = lambda: rng.choice([-2, -1, 1, 1, 2])
            if c < 3:
                rels.append(show_rel(fs, None, None))
            elif c < 7:
                rels.append(show_rel(fs, (rng.choice(pool), sg()), None))
            elif c < 11:
                p, q = rng.choice(pool), rng.choice(pool)
                if p == q and rng.randrange(40):          # p == q: assert!(p != q) fires, keep it rare
                    q = rng.choice([x for x in pool if x != p])
                rels.append(show_rel(fs, (p, sg()), (q, sg())))
            else:
                rels.append(show_rel(fs, None, (rng.choice(pool), sg())))
        yield Case(f"cg_crel_history {maxlarge} {';'.join(rels)}")
    yield Case("cg_crel_history 1000 -")
    # deep recursion of update_tree: a chain of doubles, attached to the root by the last relation (both orders),
    # then cycles of every length through it; stars
    for L in (3, 10, 60, 250):
        ps = [101 + 2 * i for i in range(L)]
        rng.shuffle(ps)
        chain = [show_rel([(2, 1)], (ps[i], 1), (ps[i + 1], -1)) for i in range(L - 1)]
        rng.shuffle(chain)
        for root in (ps[0], ps[L // 2], ps[-1]):
            hist = chain + [show_rel([(3, 1)], (root, 1), None)]
            hist += [show_rel([(5, 1)], (rng.choice(ps), -1), None) for _ in range(4)]
            hist += [show_rel([(7, 1)], (rng.choice(ps), 1), (rng.choice(ps[:L // 2]), 1)) for _ in range(3)
                     ]
            hist = [h for h in hist if not (h.count("/") == 2 and h.split("/")[1].split("^")[0] == h.split("/")[2].split("^")[0])]
            yield Case(f"cg_crel_history 100000 {';'.join(hist)}")
        star = [show_rel([(2, 1)], (ps[0], 1), (q, 1)) for q in ps[1:]] + [show_rel([], (ps[0], 2), None)]
        yield Case(f"cg_crel_history 100000 {';'.join(star)}")


def _rand_rels(rng, nprimes, nrel, maxlen, emax=3, larges=True, minlen=0, extras=True):
    """relations with DISTINCT primes (as sieved relations have); a hidden rank deficiency makes eliminations cascade"""
    primes = small_primes(7 * nprimes + 50)[:nprimes]
    lp = [p for p in small_primes(12 * nprimes + 300) if p > primes[-1]][:max(2, nprimes // 3)]
    out = []
    for _ in range(nrel):
        k = rng.randrange(minlen, maxlen + 1)
        ps = sorted(rng.sample(primes, min(k, len(primes))))
        rng.shuffle(ps)
        fs = [(q, rng.choice([-emax, -2, -1, -1, 1, 1, 1, 2, emax, 0 if rng.randrange(12) == 0 else 1])) for q in ps]
        l1 = l2 = None
        if larges and rng.randrange(3) == 0:
            l1 = (rng.choice(lp), rng.choice([-2, -1, 1, 1]))
            if rng.randrange(3) == 0:
                q = rng.choice(lp)
                if q != l1[0]:
                    l2 = (q, rng.choice([-1, 1]))
        out.append(show_rel(fs, l1, l2))
    # duplicates and opposite relations (remove_duplicates normalises the sign)
    for _ in range(rng.randrange(0, 3) if extras else 0):
        if out:
            r = rng.choice(out)
            fs, l1, l2 = parse_rel(r)
            neg = lambda x: (x[0], -x[1])
            out.append(rng.choice([r, show_rel([neg(x) for x in fs], l1 and neg(l1), l2 and neg(l2))]))
    return out


def filter_cases(rng, scale):
    # rowsub: the merge with every interleaving, cancellations, checked_mul / checked_add overflow
    for i in range(150 * scale):
        rels = _rand_rels(rng, rng.choice([3, 5, 8]), 2, 6, emax=rng.choice([3, 3, 1 << 20, (1 << 31) - 1]), minlen=1, extras=False)
        c = rng.choice([1, -1, 2, -3, 7, 1 << 12, -(1 << 30), (1 << 31) - 1])
        yield Case(f"rf_rowsub {rng.choice(['0 1', '1 0'])} {c} {';'.join(rels)}")
    for a in ("0 0 1", "0 1 0"):                                   # debug_assert!(c != 0 && i != j)
        yield Case(f"rf_rowsub {a} 3^1.5^-1/_/_;3^1.7^3/101^1/_", o=False, profiles=["chk"])
    yield Case("rf_rowsub 0 5 1 3^1.5^-1/_/_;3^1.7^3/101^1/_", o=False)      # index out of range
    for i in range(60 * scale):
        rels = _rand_rels(rng, rng.choice([3, 6, 10]), rng.choice([3, 8, 20]), 5)
        yield Case(f"rf_trim {rng.choice([0, 1, 2, 3, 5, 9, 50])} {';'.join(rels)}")
    for i in range(120 * scale):
        rels = _rand_rels(rng, rng.choice([2, 4, 6, 10, 16]), rng.choice([2, 5, 12, 25, 40]), rng.choice([2, 4, 6]))
        yield Case(f"rf_pivots {rng.choice([0, 1, 2, 3, 5, 100])} {';'.join(rels)}")
    for i in range(120 * scale):
        rels = _rand_rels(rng, rng.choice([2, 4, 6, 10, 16, 30]), rng.choice([2, 5, 12, 25, 40, 90]), rng.choice([2, 4, 6]))
        yield Case(f"rf_dense {';'.join(rels)}")
    yield Case("rf_dense -")
    yield Case("rf_dense -/_/_;-/_/_")
    # enough columns and surplus rows for the trimming branch (weight.len() % 64 == 0, rows > 1.5 columns + 128)
    for i in range(3 * scale):
        rels = _rand_rels(rng, rng.choice([70, 100, 140]), rng.choice([420, 520]), rng.choice([3, 5]), larges=False)
        yield Case(f"rf_dense {';'.join(rels)}", timeout=120)
    # real sieved relations through the real filter (model follow-up + form arithmetic)
    for i in range(14 * scale):
        bits = rng.choice([14, 20, 30, 40, 50, 64, 80, 100])
        D = random_fundamental(rng, bits, [1, 5, 8, 12][i % 4])
        yield Case(f"rf_real {D} 0 {1 if bits <= 32 else rng.choice([4, 12, 30])} {rng.choice([30, 60])}", k=False, timeout=120)


def fundamental_range(lo, hi):
    for n in range(lo, hi):
        if is_fundamental(-n):
            yield -n


FULL_QUICK = [
    # (bits, how many) : every class of D mod 16 is cycled through
    (8, 4), (14, 4), (24, 4), (31, 4), (36, 4), (48, 4), (62, 4), (80, 4), (100, 4), (120, 2), (128, 2),
]


def ymcls_cases(tier, rng):
    """the shipped program ymcls (built without the verification cfg) as a child process: what it prints and what it
    writes (group.structure by the program itself, classnumber by the library) for discriminants with a known class
    group; negation of a positive argument; its refusals"""
    quick = tier == "quick"
    yield Case("clscli_build release", k=False, tag="ymcls", profiles=["release"], timeout=900)
    yield Case("clscli_build chk", k=False, tag="ymcls", profiles=["release"], timeout=900)
    ds = [-3, -4, -7, -8, -15, -23, -56, -84, -3299, -5460, -1000003, -(4 * 1000001)]
    ds = [D for D in ds if is_fundamental(D)]
    for i in range(10 if quick else 60):
        ds.append(random_fundamental(rng, rng.choice([10, 16, 20, 24, 30, 34]), [1, 5, 8, 12][i % 4]))
    for prof in ("release", "chk"):
        for i, D in enumerate(ds):
            if prof == "chk" and i % 2:
                continue
            extra = [[], ["--threads", "3"], ["--use-double", "true"]][i % 3] if abs(D) > 10000 else []
            yield Case(" ".join(["clscli", prof, "120", "--verbose", "silent"] + extra + [str(D), "OUT"]), k=False, tag="ymcls/run",
                       profiles=["release"], timeout=150)
        # a positive argument is negated; without output directory only stdout exists
        yield Case(f"clscli {prof} 120 --verbose silent 1000003", k=False, tag="ymcls/run", profiles=["release"], timeout=150)
        yield Case(f"clscli {prof} 120 --verbose silent 23", k=False, tag="ymcls/run", profiles=["release"], timeout=150)
        for D, what in ((-1000002, "refused-mod4"), (-21, "refused-mod4"), (-((1 << 512) + 3), "refused-size"), ("abc", "refused-parse")):
            yield Case(f"clscli {prof} 30 --verbose silent {D} OUT", k=False, tag="ymcls/" + what, profiles=["release"], timeout=60)


def ymcls_oracle(case, ans):
    if case.op == "clscli_build":
        return None if ans == "ok" else f"ymcls does not build: {ans}"
    if not ans.startswith("exit="):
        return f"no answer from the child process ({ans})"
    kv = dict(x.split("=", 1) for x in ans.split())
    code, err, out = kv["exit"], kv["err"], kv["out"]
    what = case.tag.split("/")[1]
    if err.startswith("panic:") or err == "timeout" or code.startswith("sig"):
        # C18 speaks about returned results; a crash of the program is reported all the same: these inputs are tiny
        return f"ymcls crashed or hung: exit={code} {err}"
    if what != "run":
        return None if (code != "0" and err == what) else f"expected the refusal {what}: exit={code} err={err} out={out[:60]}"
    toks = [t for t in case.args[2:] if t != "OUT"]
    D = int(toks[-1])
    if D > 0:
        D = -D
    if code != "0" or err != "-":
        return f"ymcls failed on D = {D}: exit={code} err={err}"
    lines = out.split(",")
    if not lines[0].startswith("G"):
        return f"first output line is not the invariants line: {lines[0]}"
    invs = [int(x) for x in lines[0].split("_")[1:]]
    h = 1
    for d in invs:
        h *= d
    files = {}
    if "files" in kv and kv["files"] != "-":
        for f in kv["files"].split(";"):
            nm, c = f.split(":", 1)
            files[nm] = c
    if "OUT" in case.args:
        if files.get("group.structure") != out:
            return f"group.structure ({files.get('group.structure')}) differs from what was printed ({out})"
        if "classnumber" not in files or int(files["classnumber"]) != h:
            return f"file classnumber = {files.get('classnumber')}, printed invariants {invs} multiply to {h} (D = {D})"
        if "relations.sieve" not in files:
            return "no relations.sieve in the output directory"
    # generator lines: `p x1 .. xk` with as many coordinates as invariants, each within its modulus
    for l in lines[1:]:
        t = [int(x) for x in l.split("_")]
        if len(t) != 1 + len(invs) or any(not (0 <= x < d) for x, d in zip(t[1:], invs)) or not is_prime(t[0]):
            return f"malformed generator line {l} for invariants {invs}"
    return _check_h(D, h, invs)


def _fork(rng, label):
    """own stream for the boundary family: depends on the run's seed, leaves the stream of the older families untouched"""
    import random
    return random.Random(f"{label}:{rng.getstate()[1][:4]}")


def _d_with_h_in(rng, lo, hi, cls):
    """fundamental D of 127..132 bits whose class number lies in [lo, hi) according to the Euler product (8 % margin)"""
    best = None
    for _ in range(1500):
        D = random_fundamental(rng, rng.randrange(127, 133), cls)
        e = analytic_estimate(D)
        if 1.08 * lo <= e < hi / 1.08:
            return D
        mid = (lo * hi) ** 0.5
        dist = abs(math.log(e / mid)) if e > 0 else float("inf")
        if best is None or dist < best[0]:
            best = (dist, D)
    # a generator never fails the check: the closest discriminant seen (its class number may fall just outside the band)
    return best[1]


DBLFAM_BITS = (34, 40, 48, 56, 64, 72, 80, 90, 100, 110, 120, 128)
DBLFAM_MIN_RELS = 400      # large2 executions required from the family in EACH profile (a run gives ~5000)
DBLFAM_MIN_SIDE = 80       # ... with large1 < large2, with large1 > large2, with exponent +1 and with exponent -1, each


def double_family_cases():
    """DETERMINISTIC family (the same requests in every run, whatever the seed; both profiles): the real sieve with the double
    large prime variation forced (`cg_poly D first count target 1` = Preferences::use_double = Some(true)), 12 sizes x 4 classes
    of fundamental D, 3 polynomials each, so that the `large2` block of sieve_block_poly (second large prime: sign of
    bx mod q, parity rule) runs thousands of times, with both orders of the two primes returned by try_factor64 and both signs.
    Judged by the oracle (every relation re-checked by form arithmetic; ANY panic is a failure: the model of the loop body is
    panic-free) and K-compared with the model relationOf through the follow-up cg_poly_model, relations with two large primes first.
    The last request carries a vacuity guard on the number of large2 executions seen."""
    import random
    rng = random.Random("C18-dblfam")
    out = []
    for bits in DBLFAM_BITS:
        for cls in (1, 5, 8, 12):
            D = random_fundamental(rng, bits, cls)
            first = rng.randrange(0, 3 if bits <= 40 else 16)
            out.append(f"cg_poly {D} {first} 3 150 1")
    for i, line in enumerate(out):
        tag = "dblfam/first" if i == 0 else ("dblfam/last" if i == len(out) - 1 else "dblfam")
        yield Case(line, k=False, timeout=120, tag=tag)


def boundary_cases(rng, tier):
    """size classes the random families never reach (see SIZE AUDIT): |D| on both sides of 64 and 128 bits, class numbers on both
    sides of 2^63 and 2^64 (SmithNormalForm switches from i128 to I256 row operations at h = 2^63/N; invariants and generator
    coordinates leave u64), 140..150 bits (dense, h ~ 2^70..2^75), a discriminant whose DEFAULT factor base exceeds 800 primes
    (sparse path, class number only: the known finding) and one above 180 bits (double large primes by default, dense, h ~ 2^90).
    Above 2^46 the oracle has no independent class number: h must annihilate prime forms and sit within 25 % of the Euler
    product, the invariants must multiply to h; cg_full: every relation line and the generator coordinates are checked."""
    quick = tier == "quick"
    cl = [1, 5, 8, 12]
    for rep in range(1 if quick else 3):
        for i, bits in enumerate((63, 64, 65, 66)):
            D = random_fundamental(rng, bits, cl[(i + rep) % 4])
            yield Case(f"cg_h {D} {(0, 3)[(i + rep) % 2]}", k=False, timeout=240, tag="edge")
            if bits >= 65:
                yield Case(f"cg_full {D} 0", k=False, timeout=240, tag="edge")
                yield Case(f"cg_poly {D} {rng.randrange(0, 24)} 1 25", k=False, timeout=120, tag="edge")
        for i, bits in enumerate((127, 128, 129, 130, 131, 132)):
            D = random_fundamental(rng, bits, cl[(i + rep + 1) % 4])
            yield Case(f"cg_h {D} {(0, 3)[(i + rep) % 2]}", k=False, timeout=240, tag="edge")
            if bits >= 129:
                yield Case(f"cg_poly {D} {rng.randrange(0, 24)} 1 25{(' 1', '')[i % 2]}", k=False, timeout=120, tag="edge")
        # class number just below 2^63, in [2^63, 2^64), in [2^64, 2^65), above 2^65
        for i, (lo, hi) in enumerate(((1 << 61, 1 << 63), (1 << 63, 1 << 64), (1 << 64, 1 << 65), (1 << 65, 1 << 67))):
            D = _d_with_h_in(rng, lo, hi, cl[(i + rep + 2) % 4])
            # (a full run of this size costs the oracle 2..5 s for the relation lines: quick does it for the two middle classes)
            op = "cg_full" if i in (1, 2) or not quick else "cg_h"
            yield Case(f"{op} {D} {(0, 3)[(i + rep) % 2]}", k=False, timeout=240, tag="edge")
        for i, bits in enumerate((140, 150)):
            D = random_fundamental(rng, bits, cl[(i + rep + 3) % 4])
            yield Case(f"{'cg_h' if quick else 'cg_full'} {D} {(0, 3)[(i + rep) % 2]}", k=False, timeout=240, tag="edge")
            yield Case(f"cg_poly {D} {rng.randrange(0, 24)} 1 25", k=False, timeout=120, tag="edge")
        # default parameters above 800 primes: group_structure_sparse (SPARSE_KEY); above 180 bits: use_double by default
        D = random_fundamental(rng, 168 if quick else rng.choice([164, 168, 172]), cl[rep % 4])
        yield Case(f"cg_h {D} {(0, 3)[rep % 2]}", k=False, timeout=240, tag="edge")
        D = random_fundamental(rng, 184 if quick else rng.choice([184, 190, 200]), cl[(rep + 1) % 4])
        yield Case(f"cg_h {D} 3", k=False, timeout=300, tag="edge")
    # b_plus next to the limit of Dividers::new (p < 2^30) and at its 16 / 17-bit switch
    for p in (1073741789, 1073741783, 65521, 65537, 131071, 131101):
        assert is_prime(p)
        for r in (1, p - 1, p // 2, (p + 1) // 2, rng.randrange(p)):
            for even in ("true", "false"):
                yield Case(f"cg_b_plus {p} {r} {even}")


# ---- C18 / legendre: paste into props/c18.py (uses only `Case`, already imported there) ---------------------
# op: `cg_legendre d p` -> i32 returned by classgroup::legendre(&d, p)   (harness: ops_classgroup_legendre.rs,
# driver: Drv/ClassGroupLegendre.lean, model: Ymq.ClassGroup.legendre, theorems: Ymq.Props.C18Legendre)
#
# Behaviour of the real code (both sides verified by hand, 2026-09-29):
#   odd prime p < 2^30          : Legendre symbol, both profiles                       (K + O)
#   p = 2                       : d mod 2, both profiles                               (K + O)
#   p = 0, 1, 2^k (k>=2), >=2^30: panic in BOTH profiles (Dividers::new)               (K + O, expected `panic`)
#   other composite p < 2^30    : x = d^(p//2) mod p; x in {0,1} -> x, x = p-1 -> -1 in both profiles;
#                                 otherwise chk panics (debug_assert!(pow == p-1)) and release returns x - p.
#                                 Those profile dependent requests are issued with profiles=["chk"] (K against the
#                                 model, which has the checked profile's panic) and once more with
#                                 profiles=["release"], k=False (O accepts `x - p`).

LEG_P16, LEG_P29, LEG_P30 = 65521, 536870909, 1073741789     # largest primes below 2^16, 2^29, 2^30
LEG_REJECTED = [0, 1, 4, 8, 64, 2 ** 16, 2 ** 29, 2 ** 30, 1073741827, 2 ** 31 - 1, 2147483659, 4294967291, 2 ** 32 - 1]
#   1073741827 = first prime above 2^30, 2^31-1 = largest prime below 2^31, 2147483659 = first prime above 2^31,
#   4294967291 = largest prime below 2^32


def _leg_is_prime(n):
    if n < 2:
        return False
    for q in (2, 3, 5, 7, 11, 13, 17, 19, 23, 29, 31, 37):
        if n % q == 0:
            return n == q
    d, s = n - 1, 0
    while d % 2 == 0:
        d //= 2
        s += 1
    for a in (2, 3, 5, 7, 11, 13, 17, 19, 23, 29, 31, 37):      # deterministic below 3.3e24
        x = pow(a, d, n)
        if x in (1, n - 1):
            continue
        for _ in range(s - 1):
            x = x * x % n
            if x == n - 1:
                break
        else:
            return False
    return True


def _leg_rand_prime(rng, bits):
    while True:
        p = rng.randrange(1 << (bits - 1), 1 << bits) | 1
        if p > 2 and _leg_is_prime(p):
            return p


def _leg_ds(rng, p):
    """d values for one modulus p >= 2: boundary sizes of Uint, multiples of p, residues, non-residues"""
    ds = [0, 1, 2, p - 1, p, p + 1, 2 * p, p * p, 2 ** 63, 2 ** 64 - 1, 2 ** 64, 2 ** 64 + 1, 2 ** 127, 2 ** 128 - 1,
          2 ** 255, 2 ** 256 - 1, 2 ** 512 + 1, 2 ** 1023, 2 ** 1024 - 1]
    ds.append(p * rng.randrange(1, 2 ** 990))                              # multiple of p, ~1020 bits
    for bits in (1, 64, 65, 128, 256, 1024):
        ds.append(rng.randrange(1 << (bits - 1), 1 << bits))
    x = rng.randrange(1, p) if p > 1 else 0
    ds.append(x * x)                                                       # a square
    ds.append(x * x % p + p * rng.randrange(2 ** 200))                     # a residue, large representative
    if p > 2 and _leg_is_prime(p):
        n = 2
        while pow(n, (p - 1) // 2, p) != p - 1:
            n += 1
        ds.append(n)                                                       # least non-residue
        ds.append(n * x * x % p + p * rng.randrange(2 ** 64))              # a random non-residue
    return [d for d in ds if 0 <= d < 2 ** 1024]


def _leg_expect(d, p):
    """('val', v) | ('panic',) | ('profile', v_release) for the request `cg_legendre d p`"""
    if p >= 2 ** 30 or p < 2 or (p & (p - 1)) == 0 and p != 2:
        return ("panic",)
    if p == 2:
        return ("val", d % 2)
    x = pow(d, p // 2, p)
    if x <= 1:
        return ("val", x)
    if x == p - 1:
        return ("val", -1)
    assert not _leg_is_prime(p)
    return ("profile", x - p)


def legendre_cases(rng, tier):
    """list of Case; requests are `c.line`"""
    quick = tier == "quick"
    out = []

    def emit(d, p, tag):
        e = _leg_expect(d, p)
        if e[0] == "profile":
            out.append(Case(f"cg_legendre {d} {p}", tag=tag + "/chk-only-panic", profiles=["chk"]))
            out.append(Case(f"cg_legendre {d} {p}", k=False, tag=tag + "/release-value", profiles=["release"]))
        else:
            out.append(Case(f"cg_legendre {d} {p}", tag=tag))

    # p = 2 and the smallest odd primes: every residue, plus the boundary d
    for d in list(range(8)) + _leg_ds(rng, 2):
        emit(d, 2, "leg/p=2")
    for p in (3, 5, 7, 11, 13):
        for d in list(range(2 * p + 1)) + _leg_ds(rng, p):
            emit(d, p, "leg/small-prime")
    # boundary primes of the accepted range
    for p in (LEG_P16, 65537, LEG_P29, 536870923, LEG_P30):
        for d in _leg_ds(rng, p):
            emit(d, p, "leg/boundary-prime")
    # random primes of every bit length 2..30
    for bits in range(2, 31):
        for _ in range(1 if quick else 6):
            p = _leg_rand_prime(rng, bits)
            for d in _leg_ds(rng, p)[-8:] + [rng.randrange(2 ** 1024)]:
                emit(d, p, "leg/random-prime")
    # moduli rejected by Dividers::new in both profiles
    for p in LEG_REJECTED:
        for d in (0, 1, 3, 2 ** 64 + 5, 2 ** 1024 - 1):
            emit(d, p, "leg/rejected-modulus")
    # composite moduli accepted by Dividers::new: deterministic and profile dependent requests
    for p in (6, 9, 15, 21, 25, 91, 561, 65535, 2 ** 30 - 1, LEG_P16 * 16381, 32749 * 32771):
        for d in [0, 1, 2, 3, p - 1, p, p + 1, 8, 2 ** 64, 2 ** 1024 - 1] + [rng.randrange(2 ** 256) for _ in range(4)]:
            emit(d, p, "leg/composite")
    return out


def legendre_oracle(case, ans):
    """None if fine, else an error string. Plain integers: Euler's criterion, and for p < 5000 the list of squares."""
    d, p = int(case.args[0]), int(case.args[1])
    e = _leg_expect(d, p)
    if e[0] == "panic":
        return None if ans == "panic" else f"modulus {p} must be rejected (Dividers::new), got {ans}"
    if e[0] == "profile":
        # composite modulus, d^(p//2) mod p not in {0, 1, p-1}: chk panics, release returns x - p
        return None if ans in ("panic", str(e[1])) else f"composite p={p}: expected panic (chk) or {e[1]} (release), got {ans}"
    want = e[1]
    if p > 2 and p < 5000 and _leg_is_prime(p):
        sq = {x * x % p for x in range(1, p)}
        brute = 0 if d % p == 0 else (1 if d % p in sq else -1)
        if brute != want:
            return f"oracle self-check failed for d={d} p={p}"
    return None if ans == str(want) else f"legendre({d}, {p}) = {ans}, expected {want}"


def legendre_klass(case, ans):
    d, p = int(case.args[0]), int(case.args[1])
    e = _leg_expect(d, p)
    kind = "p=2" if p == 2 else ("rejected" if e[0] == "panic" else ("odd-prime" if _leg_is_prime(p) else "composite"))
    sz = "d=0" if d == 0 else ("p|d" if p > 1 and d % p == 0 else ("d<2^64" if d < 2 ** 64 else "d>=2^64"))
    return f"cg_legendre/{kind}/{sz}/{ans if ans in ('panic', '0', '1', '-1', '?', 'abort', 'hang') else 'other'}"


# ---------------------------------------------------------------- parameter-table boundaries (classgroup::estimate)

def param_table_boundaries(fb_only=False):
    """every bit size at which one of the class group parameter tables changes row, READ FROM THE SOURCE (YMQ_REPO or /repo):
    params::clsgrp_fb_size (the `bitsize < N` cut-off and the first column of CLASSGROUP_FBSIZES) and the match arms of
    classgroup::{a_params, interval_size, large_prime_factor, double_large_factor}. A pattern that no longer matches raises."""
    import os, re
    repo = os.environ.get("YMQ_REPO", "/repo")
    par = open(os.path.join(repo, "src/params.rs")).read()
    cls = open(os.path.join(repo, "src/classgroup.rs")).read()
    out = set()
    m = re.search(r"pub fn clsgrp_fb_size\(.*?\n}\n", par, re.S)
    cut = re.search(r"bitsize\s*(<=?|>=?)\s*(\d+)", m.group(0)) if m else None
    if not cut:
        raise RuntimeError("param_table_boundaries: clsgrp_fb_size cut-off not found")
    out.add(int(cut.group(2)))
    m = re.search(r"const CLASSGROUP_FBSIZES[^=]*=\s*&\[(.*?)\n\];", par, re.S)
    rows = re.findall(r"\(\s*(\d+)\s*,\s*\d+\s*,\s*\d+\s*\)", m.group(1)) if m else []
    if len(rows) < 5:
        raise RuntimeError("param_table_boundaries: CLASSGROUP_FBSIZES not found")
    out.update(int(r) for r in rows)
    if fb_only:
        return sorted(out)
    for fn in ("a_params", "interval_size", "large_prime_factor", "double_large_factor"):
        m = re.search(r"fn %s\(.*?\n}\n" % fn, cls, re.S)
        arms = re.findall(r"(\d+)\s*\.\.(?:=\s*(\d+))?\s*=>", m.group(0)) if m else []
        if len(arms) < 3:
            raise RuntimeError(f"param_table_boundaries: match arms of {fn} not found")
        for lo, hi in arms:
            if int(lo) > 0:
                out.add(int(lo))          # first size of the row: lo-1 | lo is the boundary
    return sorted(out)


MAX_SUPPORTED_BITS = 512                  # ymcls refuses larger |D| (MAXBITS in src/bin/ymcls.rs)


def estimate_boundary_cases(rng, tier):
    """DETERMINISTIC sizes: |D| of exactly b-1, b, b+1 bits for every row boundary b of the parameter tables (379/380/381
    included: the cut-off of clsgrp_fb_size, where the generic fallback of select_fb_size would return 252000 and
    fbsize * fbsize overflow u32 in estimate) and the largest supported size, through the real classgroup::estimate (no sieving),
    both profiles. estimate walks the primes to min(10^8, fb^2): about 1 s per call from 320 bits on, so the quick tier keeps
    b-1, b, b+1 for every boundary below 260 bits and for the cut-off, and b alone for the larger rows of CLASSGROUP_FBSIZES
    (the only table estimate reads)."""
    quick = tier == "quick"
    bs = param_table_boundaries()
    fbrows = param_table_boundaries(fb_only=True)
    cutoff = 380 if 380 in bs else max(bs)
    sizes = set()
    for b in bs:
        if not quick or b < 260 or b == cutoff:
            sizes.update((b - 1, b, b + 1))
        elif b in fbrows:
            sizes.add(b)
    sizes.update((MAX_SUPPORTED_BITS,) if quick else (MAX_SUPPORTED_BITS - 1, MAX_SUPPORTED_BITS))
    for i, s in enumerate(sorted(x for x in sizes if 5 <= x <= MAX_SUPPORTED_BITS)):
        n = rng.getrandbits(s) | (1 << (s - 1))
        if i % 2 == 0:
            n = n - (n % 8) + (3, 7)[(i // 2) % 2]                    # D = -n = 5 resp. 1 mod 8
        else:
            n = n - (n % 16) + (4, 8)[(i // 2) % 2]                   # D = -n = 12 resp. 8 mod 16
        if n.bit_length() != s:
            n = (1 << (s - 1)) + (3 if i % 2 == 0 else 4)
        yield Case(f"cg_estimate_bits {-n}", k=False, o=True, timeout=120, tag=f"param-boundary/{s}b")


def estimate_bits_oracle(case, ans):
    """no panic; both bounds finite, 0 < lo <= hi; and a gross window: the Euler product over the primes below 2*10^5 (own
    floats) lies within a factor 2 of the bracket (no theorem says the bracket contains h; a factor 2 is far outside the few
    per cent the truncations differ by)."""
    import struct
    D = int(case.args[0])
    if ans in ("panic", "abort", "hang", "?"):
        return f"classgroup::estimate({D}) [{(-D).bit_length()} bits]: {ans}"
    try:
        lo, hi = (struct.unpack("<d", struct.pack("<Q", int(x)))[0] for x in ans.split(" "))
    except Exception:
        return f"classgroup::estimate({D}): unreadable answer {ans!r}"
    if not (math.isfinite(lo) and math.isfinite(hi) and 0 < lo <= hi):
        return f"classgroup::estimate({D}) [{(-D).bit_length()} bits] = ({lo!r}, {hi!r}): not a finite bracket 0 < lo <= hi"
    est = analytic_estimate(D)
    if not (lo / 2 <= est <= 2 * hi):
        return f"classgroup::estimate({D}) = ({lo:.6g}, {hi:.6g}) is not within a factor 2 of the Euler product {est:.6g}"
    return None


def nonfundamental_poly_cases(rng, tier):
    """NON-FUNDAMENTAL discriminants with an ODD conductor, D = f^2 D0 (D0 fundamental, f | 3*5*7*11*13; D odd or D/4 = 2, 3 mod 4,
    the shapes classgroup() keeps as they are), through the real sieve one polynomial at a time (cg_poly): the conductor list
    of the real run is compared with its definition, no sieved relation may contain an odd conductor prime (the rejection of
    sieve_block_poly; theorem relation_genuine_conductor), every relation line is re-checked by form arithmetic, the accepted
    relations are replayed by the model WITH the conductor list, and candidates the model must reject are added to the replay."""
    n = 6 if tier == "quick" else 30
    for i in range(n):
        f = (3, 5, 7, 15, 11, 21, 13, 35)[i % 8]
        bits = (10, 16, 24, 30, 36, 44)[i % 6] if tier == "quick" else rng.choice([8, 12, 16, 24, 30, 36, 44, 56, 64])
        D0 = random_fundamental(rng, bits, [1, 5, 8, 12][i % 4])
        D = f * f * D0
        first = 0 if (-D).bit_length() <= 32 else rng.randrange(0, 12)
        yield Case(f"cg_poly {D} {first} 1 25", k=False, timeout=120, tag=f"nonfund/f={f}")


def cases(tier, rng, extended=False):
    quick = tier == "quick"
    scale = 1 if quick else 6
    X = TABLE_BOUND[tier]
    if extended:
        scale *= 5
        X = max(X, 400000)
    table_upto(X)
    yield from boundary_cases(_fork(rng, "C18-boundary"), tier)
    yield from double_family_cases()
    yield from estimate_boundary_cases(_fork(rng, "C18-estimate-boundary"), tier)
    yield from nonfundamental_poly_cases(_fork(rng, "C18-nonfundamental"), tier)
    if not extended:
        yield from ymcls_cases(tier, rng)
    yield from legendre_cases(_fork(rng, "C18-legendre"), tier)
    yield from bplus_cases(rng, 1500 * scale)
    yield from history_cases(rng, 400 * scale)
    yield from filter_cases(rng, scale)
    # ---- factor bases: b_plus of the real factor base against the documented convention
    for i in range(60 * scale):
        bits = rng.choice([5, 10, 20, 30, 40, 64, 100, 128])
        D = random_fundamental(rng, bits)
        yield Case(f"cg_fb_bplus {D} {rng.choice([8, 16, 40, 120])}", k=False)
    # ---- class numbers, exhaustively below the bound
    i = 0
    for D in fundamental_range(3, X):
        yield Case(f"cg_h {D} 0", k=False, timeout=60)
        i += 1
        if i % 23 == 0:
            yield Case(f"cg_h {D} {rng.choice([2, 3, 4])}", k=False, timeout=60)
    # ---- random fundamental discriminants with an independent reduced-form count
    top = 34 if quick else 40
    if extended:
        top = 40
    for i in range(160 * scale):
        bits = rng.randrange(16, top + 1)
        D = random_fundamental(rng, bits, [1, 5, 8, 12][i % 4])
        yield Case(f"cg_h {D} {rng.choice([0, 0, 0, 3])}", k=False, timeout=120)
    for i in range(4 if quick else 16):
        D = random_fundamental(rng, rng.randrange(41, 45), [1, 5, 8, 12][i % 4])
        yield Case(f"cg_h {D} 0", k=False, timeout=120)
    # ---- known 2-rank (composite discriminants with known factors), larger sizes: necessary conditions only
    for i in range(24 * scale):
        bits = rng.choice([30, 40, 50, 64, 80, 100])
        D, ps = composite_fundamental(rng, bits, rng.choice([2, 3, 4, 5]))
        yield Case(f"cg_h {D} {rng.choice([0, 0, 2])}", k=False, timeout=120, tag="f=" + ",".join(map(str, ps)))
    # ---- full runs with an output directory: every relation line is checked
    for bits, cnt in FULL_QUICK:
        for rep in range(1 if quick else 3):
            for j, cls in enumerate([1, 5, 8, 12]):
                for threads in ((0, 3) if cnt >= 4 else ((0, 3)[(j + rep) % 2],)):
                    D = random_fundamental(rng, bits, cls) if bits > 8 else {1: -23, 5: -83, 8: -56, 12: -84}[cls]
                    yield Case(f"cg_full {D} {threads}", k=False, timeout=240)
    # ---- two computations into the SAME output directory (a longer one first): the files must describe the second
    for i in range(6 * scale):
        D0 = random_fundamental(rng, rng.choice([80, 90, 100]), [1, 5, 8, 12][i % 4])
        D = random_fundamental(rng, rng.choice([34, 42, 50]), [1, 5, 8, 12][(i + 1) % 4])
        yield Case(f"cg_full_reuse {D0} {D} 0", k=False, timeout=240)
    # ---- documented preference `--fb N` (Preferences::fb_size): a factor base above 800 primes sends even small
    #      discriminants through group_structure_sparse (Wiedemann lattice index, no Smith form). The class number is
    #      judged as everywhere; the missing structure is the known finding SPARSE_KEY. (|D| < ~250 is avoided: the
    #      sparse lattice index gives up after several seconds there.)
    for D, threads, fb in ((-263, 0, 808), (-263, 3, 808), (-10148, 0, 1000), (-424708, 0, 1000), (-3299, 0, 808)):
        yield Case(f"cg_h {D} {threads} fb={fb}", k=False, timeout=240)
    yield Case("cg_full -10148 0 fb=1000", k=False, timeout=240)
    for i in range(10 * scale):
        D = random_fundamental(rng, rng.choice([12, 14, 16, 20, 24, 28, 32]), [1, 5, 8, 12][i % 4])
        yield Case(f"cg_h {D} {(0, 0, 3)[i % 3]} fb={rng.choice([808, 1000, 1200])}", k=False, timeout=240)
    for i in range(2 * scale):
        D = random_fundamental(rng, rng.choice([14, 20, 26]), [1, 5, 8, 12][i % 4])
        yield Case(f"cg_full {D} 0 fb=1000", k=False, timeout=240)
    # other documented preferences on the dense path: large prime multiplier, smaller / larger factor bases
    for i in range(12 * scale):
        D = random_fundamental(rng, rng.choice([20, 30, 40, 50, 64]), [1, 5, 8, 12][i % 4])
        yield Case(f"cg_h {D} 0 {rng.choice(['large=1', 'large=8', 'large=50', 'fb=40', 'fb=200', 'fb=400 large=2'])}", k=False, timeout=240)
    # ---- the same with the double large prime variation forced (Preferences::use_double, `ymcls --use-double true`):
    #      relations with two large primes, try_factor64, add_path(p, q)
    for i in range(16 * scale):
        bits = rng.choice([40, 48, 56, 64, 80, 100, 128])
        D = random_fundamental(rng, bits, [1, 5, 8, 12][i % 4])
        yield Case(f"cg_full {D} {(0, 3)[i % 2]} 1", k=False, timeout=240)
    for i in range(24 * scale):
        bits = rng.choice([34, 40, 50, 64, 72, 90, 110, 128])
        D = random_fundamental(rng, bits, [1, 5, 8, 12][i % 4])
        for first in sorted(rng.sample(range(0, 24), 2)):
            yield Case(f"cg_poly {D} {first} 1 25 1", k=False, timeout=120)
    # ---- the real sieve polynomial by polynomial (hook): sign decision replayed by the model
    for i in range(50 * scale):
        bits = rng.choice([6, 12, 20, 30, 34, 40, 50, 64, 72, 90, 110, 128])
        D = random_fundamental(rng, bits, [1, 5, 8, 12][i % 4])
        firsts = [0] if bits <= 32 else sorted(rng.sample(range(0, 24), 3))
        for first in firsts:
            yield Case(f"cg_poly {D} {first} 1 25", k=False, timeout=120)
    # ---- analytic estimate (reported, never judged: no theorem brackets h)
    for i in range(60 * scale):
        D = random_fundamental(rng, rng.randrange(4, 41))
        yield Case(f"cg_estimate {D}", k=False, o=True)


def corpus_case(line):
    if line.startswith("!chk "):
        return Case(line[5:], o=False, profiles=["chk"])
    op = line.split(" ", 1)[0]
    return Case(line, k=op in ("cg_b_plus", "cg_crel_history", "rf_pivots", "rf_dense", "rf_rowsub", "rf_trim"), timeout=300)


# ================================================================ oracle

def _parse_h(ans):
    """`h inv,inv` -> (h, [inv])"""
    t = ans.split(" ")
    h = int(t[0])
    invs = [] if t[1] == "-" else [int(x) for x in t[1].split(",")]
    return h, invs


def _check_h(D, h, invs, tag="", structure=True):
    ref = reference_h(D)
    if ref is not None and h != ref:
        return f"class number {h} reported for D = {D}, true class number {ref}"
    if not structure:
        return _check_h_unknown_ref(D, h) if ref is None else None
    prod = 1
    for d in invs:
        if d <= 1:
            return f"invariant {d} listed for D = {D}"
        prod *= d
    if prod != h:
        return f"invariants {invs} multiply to {prod}, not to the reported class number {h} (D = {D})"
    n = -D
    # 2-rank by genus theory: number of even invariants = (number of prime divisors of D) - 1
    t = None
    if tag.startswith("f="):
        t = len(tag[2:].split(",")) + (1 if D % 2 == 0 else 0)
    elif n < (1 << 36):
        t = len(factor_small(n))
    if t is not None:
        ev = sum(1 for d in invs if d % 2 == 0)
        if ev != t - 1:
            return f"D = {D} has {t} prime divisors, the 2-rank of the class group is {t - 1}, reported invariants {invs}"
    # isomorphism type, independently of what was reported: for EVERY prime q with q^2 | h the type of the q-Sylow subgroup
    # (enumerated from prime forms) against the q-part of the reported cyclic factors
    if ref is not None and _sylow_wanted(n):
        canon = canonical_invariants(invs)
        for q, v in factor_small(h):
            if v < 2:
                continue
            key = (D, q)
            if key not in _SYL_CACHE:
                _SYL_CACHE[key] = sylow_type(D, h, q, v)
            want = _SYL_CACHE[key]
            if want is None:
                _COV["sylow_inconclusive"] += 1
                continue
            _COV["sylow"] += 1
            got = sorted(x for x in canon if x % q == 0)
            if got != want:
                return (f"D = {D}: the {q}-part of the class group has type {want} (h = {h}), "
                        f"the reported cyclic factors {invs} have {q}-part {got}")
    # cross-check with a second independent method (orders of ALL reduced forms) on cheap cases
    if ref is not None and n < 3000000 and h <= 400:
        canon = canonical_invariants(invs)
        odd_noncyclic = any(canon.count(q) > 1 or any(q2 != q and q2 % 2 and math.gcd(q, q2) > 1 for q2 in canon) for q in canon if q % 2)
        if odd_noncyclic or (n % 17 == 0 and n < 150000) or n % 331 == 0 or h <= 40:
            want = _GT_CACHE.get(D)
            if want is None:
                want = _GT_CACHE[D] = group_type(D)
            if canon != want:
                return f"D = {D}: reported invariants {invs} (type {canon}), class group has type {want}"
    if ref is None:
        return _check_h_unknown_ref(D, h)
    return None


def _check_h_unknown_ref(D, h):
    if True:
        # necessary conditions: h annihilates prime forms; gross analytic sanity
        cnt = 0
        for p in small_primes(400):
            f = prime_form(D, p)
            if f is None or D % p == 0:
                continue
            if form_pow(f, h, D) != form_principal(D):
                return f"D = {D}: [{p}]^h is not principal for the reported h = {h}"
            cnt += 1
            if cnt >= 5:
                break
        est = analytic_estimate(D)
        if not (0.75 * est <= h <= 1.25 * est):
            return f"D = {D}: reported h = {h} is not within 25% of the Euler product estimate {est:.6g}"
    return None


_GT_CACHE = {}
_SYL_CACHE = {}


def _sylow_wanted(n):
    return True                              # every discriminant with an independent class number
_EST_PRIMES = []
_RATE = {"n": 0, "bad": 0}
_COV = {"lines": 0, "lines_with_coords": 0, "sparse_empty": 0, "filtered": 0, "removed": 0, "sylow": 0, "sylow_inconclusive": 0,
        "dbl_requests": 0, "dbl_rels": 0, "dbl_p_lt_q": 0, "dbl_p_gt_q": 0, "dbl_e2_plus": 0, "dbl_e2_minus": 0,
        "dbl_e1_plus": 0, "dbl_e1_minus": 0, "poly_panics": 0, "refusals_recorded": 0}
_DBLFAM = {"rels": 0, "lt": 0, "gt": 0, "plus": 0, "minus": 0, "n": 0}


def _pans(ans):
    """the harness answers `panic <message> @ <file>:<line>` (first panic of the request) for cg_h / cg_full / cg_poly:
    -> ("panic", "<message> @ <file>:<line>"); every other answer -> (answer, "")"""
    if ans.startswith("panic "):
        return "panic", ans[6:]
    return ans, ""


# the ONLY panics of classgroup() that count as refusals (not results, outside C18's quantifier): the recorded findings of C19
# (known_findings.json), recognised by message AND source file of the first panic of the request
RECORDED_REFUSALS = (
    # lattice-index-refusal / sparse-lattice-index-refusal / sparse-lattice-index-selection
    ("lattice-index", "failed to determine lattice index", ("matrix/intdense.rs", "matrix/intsparse.rs")),
    # snf-reduce-refusal: assert_eq!(det, self.h as i128, "generators {:?}", ..) in SmithNormalForm::reduce
    ("snf-reduce", "generators [", ("matrix/intdense.rs",)),
    # the explicit refusals that fix e56a8cb put in place of a silent truncation in SparseMat::new (sparse path, forced large
    # factor bases: an exponent outside i16 / a column index outside the matrix): a refusal, not a returned result
    ("sparse-i16", "does not fit i16", ("matrix/intsparse.rs",)),
    ("sparse-index", "outside matrix", ("matrix/intsparse.rs",)),
)


def refusal_kind(pmsg):
    """name of the recorded refusal a panic message belongs to, or None (any other panic)"""
    msg, _, loc = pmsg.rpartition(" @ ")
    for name, text, files in RECORDED_REFUSALS:
        if text in msg and any(("/" + f + ":") in loc or loc.startswith("src/" + f + ":") for f in files):
            return name
    return None


def analytic_estimate(D):
    """sqrt|D|/pi * prod_{p < 2e5} (1 - (D/p)/p)^-1 (floats; used only as a gross sanity window)"""
    global _EST_PRIMES
    if not _EST_PRIMES:
        _EST_PRIMES = small_primes(200000)
    lg = 0.0
    for p in _EST_PRIMES:
        chi = kronecker_prime(D, p)
        if chi:
            lg -= math.log1p(-chi / p)
    return math.sqrt(-D) / math.pi * math.exp(lg)


def lattice_is_full(rows, k):
    """do the integer vectors `rows` (length k) generate Z^k ?  (own Hermite reduction, column by column)"""
    rows = [list(r) for r in rows if any(r)]
    for c in range(k):
        piv = None
        while True:
            nz = [r for r in rows if r[c] != 0 and all(x == 0 for x in r[:c])]
            if not nz:
                return False
            piv = min(nz, key=lambda r: abs(r[c]))
            done = True
            for r in nz:
                if r is piv:
                    continue
                q = r[c] // piv[c]
                if q:
                    for j in range(c, k):
                        r[j] -= q * piv[j]
                if r[c] != 0:
                    done = False
            if done:
                break
        if abs(piv[c]) != 1:
            return False
        # clear the column in every other row (keeps the lattice)
        for r in rows:
            if r is not piv and r[c] != 0:
                q = r[c] // piv[c]
                for j in range(c, k):
                    r[j] -= q * piv[j]
        rows = [r for r in rows if r is not piv and any(r)]
    return True


def _line_entries(s):
    return [] if s in ("e", "") else [int(x) for x in s.split(",")]


def _rel_entries(fs, l1, l2):
    out = []
    for p, e in fs + ([l1] if l1 else []) + ([l2] if l2 else []):
        out += [p if e > 0 else -p] * abs(e)
    return out


def _check_lines(D, lines, what):
    cache = {}
    pr = form_principal(D)
    for i, ent in enumerate(lines):
        v = relation_value(D, ent, cache)
        if isinstance(v, str):
            return f"D = {D}: {what} {i}: {v}: {' '.join(map(str, ent))}"
        if v != pr:
            return f"D = {D}: {what} {i} is not trivial in the class group (product of prime forms reduces to {v}): {' '.join(map(str, ent))}"
    return None


def _coords(text):
    g = []
    if text != "-":
        for t in text.split(";"):
            p, v = t.split(":")
            g.append((int(p), [] if v == "-" else [int(x) for x in v.split(",")]))
    return g


def parse_full(ans):
    parts = ans.split(" | ")
    hs, gens, rels, files = parts[:4]
    h, invs = _parse_h(hs)
    g = _coords(gens)
    lines = [] if rels == "-" else [_line_entries(t) for t in rels.split(";")]
    extra = _coords(parts[4][6:]) if len(parts) > 4 and parts[4].startswith("extra=") else []
    _FILES["filtered"] = _FILES["removed"] = None
    for t in parts[5:]:
        if t.startswith("filtered="):
            _FILES["filtered"] = [] if t[9:] == "-" else [[] if l == "e" else [parse_fac(x) for x in l.split(",")] for l in t[9:].split(";")]
        if t.startswith("removed="):
            _FILES["removed"] = []
            if t[8:] != "-":
                for l in t[8:].split(";"):
                    q, rest = l.split("=", 1)
                    _FILES["removed"].append((int(q), [parse_fac(x) for x in rest.split(",")] if rest else []))
    return h, invs, g, lines, files, extra


_FILES = {"filtered": None, "removed": None}      # relations.filtered / relations.removed of the answer parsed last


def relation_value_exp(D, pes, cache):
    """reduced form of prod [p]^e over (p, e) pairs; string on error"""
    acc = form_principal(D)
    for p, e in pes:
        f = cache.get(p)
        if f is None:
            if not is_prime(p):
                return f"{p} is not a prime"
            f = prime_form(D, p)
            if f is None:
                return f"no ideal of norm {p}: ({D}/{p}) = -1"
            cache[p] = f
        acc = form_compose(acc, form_pow(f, e, D))
    return acc


def _check_filter_files(D):
    """relations.filtered: every line is a trivial product; relations.removed: `p = prod l^e` holds in the class group"""
    cache = {}
    pr = form_principal(D)
    fl, rm = _FILES["filtered"] or [], _FILES["removed"] or []
    # at most ~MAX_FILTER_LINES lines of each file (evenly spread; exponents are of the size of h, every line costs
    # dozens of compositions); identical lines of a second run (other profile) are not recomputed
    for i in range(0, len(fl), max(1, len(fl) // MAX_FILTER_LINES)):
        row = fl[i]
        key = (D, "f", tuple(row))
        if key in _SEEN:
            continue
        v = relation_value_exp(D, row, cache)
        if v != pr:
            return f"D = {D}: relations.filtered line {i} is not trivial in the class group ({v}): {' '.join(show_fac(x) for x in row)}"
        _SEEN.add(key)
        _COV["filtered"] += 1
    for i in range(0, len(rm), max(1, len(rm) // MAX_FILTER_LINES)):
        q, row = rm[i]
        key = (D, "r", q, tuple(row))
        if key in _SEEN:
            continue
        v = relation_value_exp(D, [(q, -1)] + row, cache)
        if v != pr:
            return f"D = {D}: relations.removed line {i} does not hold in the class group ({v}): {q} = {' '.join(show_fac(x) for x in row)}"
        _SEEN.add(key)
        _COV["removed"] += 1
    return None


MAX_FILTER_LINES = 60
_SEEN = set()


def parse_poly(ans):
    parts = ans.split(" | ")
    head = dict(t.split("=") for t in parts[0].split(" "))
    fb = [tuple(map(int, t.split(":"))) for t in head["fb"].split(",")]
    cond = [] if head["cond"] == "-" else [int(x) for x in head["cond"].split(",")]
    polys = []
    for t in parts[1:]:
        ty, a, b, c, af, qf, rels = t.split(" ")
        polys.append(dict(
            type=int(ty), a=int(a), b=int(b), c=int(c),
            af=[] if af == "-" else [tuple(map(int, x.split(":"))) for x in af.split(",")],
            qf=[] if qf == "-" else [parse_fac(x) for x in qf.split(".")],
            rels=[] if rels == "-" else [parse_rel(x) for x in rels.split(";")]))
    return dict(fb=fb, cond=cond, maxlarge=int(head["maxlarge"]), maxdouble=int(head["maxdouble"]),
                mm=int(head["mm"]), polys=polys)


SPARSE_KEY = "classgroup-sparse-structure-empty-invariants"


def case_kv(case):
    """trailing key=value arguments (documented preferences): fb, large, dbl"""
    return dict(t.split("=", 1) for t in case.args if "=" in t)


def sparse_empty_structure(case, ans):
    """(h, D) when the answer has the shape of the group_structure_sparse defect: a factor base above 800 was
    requested (`fb=`) or chosen by the default parameters (|D| of 140 bits or more), a class number h > 1 was returned and NO cyclic factor is listed; else None"""
    case = _norm(case)
    ans = _pans(ans)[0]
    if case.op not in ("cg_h", "cg_full") or ans in ("panic", "abort", "hang", "?", "none"):
        return None
    if int(case_kv(case).get("fb", "0")) < 808 and (-int(case.args[0])).bit_length() < 140:
        # (default parameters: the factor base exceeds 800 primes from adjsize = 157 on; the dense path asserts det = h)
        return None
    h, invs = _parse_h(ans.split(" | ")[0])
    if invs or h <= 1:
        return None
    return h, int(case.args[0])


def finding_key(case, ans, profile):
    """the known finding is exactly: sparse path, CORRECT class number, empty list of cyclic factors"""
    if case.op in ("clscli", "clscli_build"):
        return None
    sp = sparse_empty_structure(case, ans)
    if sp is None:
        return None
    h, D = sp
    if _check_h(D, h, [], structure=False) is not None:
        return None                       # a wrong class number on that path is a NEW failure
    return SPARSE_KEY


def _norm(case):
    """`cg_full_reuse D0 D threads [dbl]` is judged exactly like `cg_full D threads [dbl]`: the files left in a
    REUSED output directory must describe the second computation only"""
    if case.op == "cg_full_reuse":
        return Case("cg_full " + " ".join(case.args[1:]), k=case.k, o=case.o, tag=case.tag, timeout=case.timeout)
    return case


def oracle(case, ans):
    if case.op in ("clscli", "clscli_build"):
        return ymcls_oracle(case, ans)
    case = _norm(case)
    op, a = case.op, case.args
    ans, pmsg = _pans(ans)
    if op == "cg_legendre":
        return legendre_oracle(case, ans)
    if op == "cg_estimate_bits":
        return estimate_bits_oracle(case, ans)
    if op == "cg_b_plus":
        p, r, even = int(a[0]), int(a[1]), a[2] == "true"
        if not ans.isdigit():
            return f"no value ({ans})"
        b = int(ans)
        base = 2 * r if even else r
        if not (0 <= b <= p and ((b - base) % p == 0 or (b + base) % p == 0)):
            return f"b_plus = {b} is not +-{'2r' if even else 'r'} mod p in [0, p]"
        if p > 2 and base % p != 0 and b % 2 != (0 if even else 1):
            return f"b_plus = {b} has the wrong parity"
        return None
    if op == "cg_crel_history":
        return oracle_history(case, ans)
    if op.startswith("rf_"):
        return oracle_filter(case, ans)
    if op in ("cg_h", "cg_full"):
        _RATE["n"] += 1
    if ans in ("panic", "abort", "hang", "?"):
        # C18 speaks about returned results; a RECORDED refusal (refusal_kind) is not a wrong result (counted in the distribution).
        # Vacuity guard: when most computations are refused the check would pass without checking anything.
        if op == "cg_poly" and ans in ("panic", "abort"):
            # cg_poly runs the real per-polynomial sieve (vh_sieve_polys -> siqs_sieve_poly -> sieve_block_poly); the model of
            # its loop body (relationOf) answers every request built from a real trace and is proved panic-free
            # (relation_no_panic): a panic of the real code here is a model/code DISAGREEMENT, in either profile, never a refusal
            _COV["poly_panics"] += 1
            return (f"D = {a[0]}: the real sieve panicked on polynomials {a[1]}.. ({pmsg or ans}); the model of the loop body "
                    f"(relationOf, theorem relation_no_panic) never panics: model/code disagreement")
        if op in ("cg_h", "cg_full"):
            _RATE["bad"] += 1
            if ans in ("panic", "abort"):
                kind = refusal_kind(pmsg)
                if kind is None:
                    # a refusal is accepted ONLY when it is one of the recorded ones (C19: lattice index, Smith form)
                    return (f"D = {a[0]}: classgroup() panicked with a message that is not a recorded refusal: "
                            f"{pmsg or ans!r} (recorded: {', '.join(t for _, t, _ in RECORDED_REFUSALS)})")
                _COV["refusals_recorded"] += 1
            if _RATE["n"] >= 200 and 2 * _RATE["bad"] > _RATE["n"]:
                return (f"vacuity guard: classgroup() gave no result for {_RATE['bad']} of the first {_RATE['n']} discriminants "
                        f"({ans} on D = {a[0]}); the property is about returned results and would hold vacuously")
        return None if ans in ("panic", "hang") else f"no answer ({ans})"
    D = int(a[0])
    if op == "cg_fb_bplus":
        kind, lst = ans.split(" ")
        if (kind == "even") != (D % 4 == 0 and (D // 4) % 4 != 1):
            return f"polynomial type {kind} for D = {D}"
        dred = D // 4 if D % 4 == 0 else D
        for t in lst.split(","):
            p, r, b = map(int, t.split(":"))
            if not is_prime(p) or (r * r - dred) % p:
                return f"factor base entry {t}: r^2 != D mod p"
            want = b_plus_of(D, p)
            if p > 2 and b != want:
                return f"D = {D}, p = {p}: b_plus = {b}, documented convention gives {want}"
        return None
    if op == "cg_estimate":
        return None
    if ans == "none":
        return f"classgroup returned None without an abort request (D = {D})"
    sparse = sparse_empty_structure(case, ans)
    sparse_msg = None
    if sparse is not None:
        # group_structure_sparse returns `invariants: vec![]` (source: "FIXME: structure is incomplete"): the listed cyclic
        # factors (none) multiply to 1, not to h: an oracle failure, unconditionally (finding_key maps it to the known
        # finding). The class number and the relation lines are judged as usual and reported first when they fail.
        _COV["sparse_empty"] += 1
        sparse_msg = (f"D = {D}, fb_size = {case_kv(case).get('fb', 'default')}: class number {sparse[0]} but NO cyclic factor is listed "
                      f"(group_structure_sparse): the listed factors multiply to 1")
    if op == "cg_h":
        h, invs = _parse_h(ans)
        return _check_h(D, h, invs, case.tag, structure=sparse is None) or sparse_msg
    if op == "cg_full":
        h, invs, gens, lines, files, extra = parse_full(ans)
        msg = _check_h(D, h, invs, case.tag, structure=sparse is None)
        if msg:
            return msg
        if files != f"classnumber={h}":
            return f"D = {D}: file classnumber says {files}, returned h = {h}"
        if not lines:
            return f"D = {D}: relations.sieve is empty"
        msg = _check_lines(D, lines, "relations.sieve line")
        if msg:
            return msg
        msg = _check_filter_files(D)
        if msg:
            return msg
        # coordinates: every emitted relation supported on the generators maps to 0, orders agree with the forms
        coords = dict(extra)
        coords.update(dict(gens))
        for p, v in list(gens) + list(extra):
            if len(v) != len(invs):
                return f"D = {D}: prime {p} has {len(v)} coordinates for {len(invs)} cyclic factors"
        _COV["lines"] += len(lines)
        for i, ent in enumerate(lines):
            if all(abs(x) in coords for x in ent):
                _COV["lines_with_coords"] += 1
                for j, d in enumerate(invs):
                    if sum((1 if x > 0 else -1) * coords[abs(x)][j] for x in ent) % d:
                        return f"D = {D}: coordinates do not kill relation line {i}: {ent}"
        # the coordinates generate the whole product of cyclic groups
        k = len(invs)
        if k and not lattice_is_full([v for _, v in list(gens) + list(extra)] +
                                     [[d if i == j else 0 for j in range(k)] for i, d in enumerate(invs)], k):
            return f"D = {D}: the reported coordinates do not generate the product of the cyclic groups {invs}"
        hfac = factor_small(h) if h < (1 << 40) else None
        if hfac:
            for p, v in list(gens[:6]) + list(extra[:4]):
                o = 1
                for j, d in enumerate(invs):
                    oj = d // math.gcd(d, v[j])
                    o = o * oj // math.gcd(o, oj)
                f = prime_form(D, p)
                if f is None:
                    return f"D = {D}: generator {p} is not the norm of a prime ideal"
                # true order of [p]
                t = h
                for l, e in hfac:
                    for _ in range(e):
                        if form_pow(f, t // l, D) == form_principal(D):
                            t //= l
                if t != o:
                    return f"D = {D}: [{p}] has order {t} in the class group, its coordinates {v} have order {o} in {invs}"
        return sparse_msg
    if op == "cg_poly":
        tr = parse_poly(ans)
        ents = []
        # conductor list of the real run = factor-base primes with stored root 0 whose square divides the (reduced) discriminant
        dred = D // 4 if D % 4 == 0 else D
        want_cond = [q for q, r in tr["fb"] if r == 0 and dred % (q * q) == 0]
        if sorted(tr["cond"]) != want_cond:
            return f"D = {D}: conductor primes {tr['cond']}, the factor-base primes p with p^2 | D are {want_cond}"
        oddc = set(q for q in want_cond if q != 2)
        for pol in tr["polys"]:
            for fs, l1, l2 in pol["rels"]:
                hit = [q for q, e in list(fs) + [x for x in (l1, l2) if x] if q in oddc and e != 0]
                if hit:
                    return f"D = {D}: a sieved relation contains the conductor prime {hit[0]}: {show_rel(fs, l1, l2)}"
        for pol in tr["polys"]:
            disc = pol["b"] ** 2 - 4 * pol["a"] * pol["c"] if pol["type"] == 2 else 4 * (pol["b"] ** 2 - pol["a"] * pol["c"])
            if disc != D:
                return f"D = {D}: polynomial ({pol['a']}, {pol['b']}, {pol['c']}) type {pol['type']} has discriminant {disc}"
            for r in pol["rels"]:
                ents.append(_rel_entries(*r))
        msg = _check_lines(D, ents, "sieved relation")
        if msg:
            return msg
        # coverage of the `large2` block of sieve_block_poly: relations with two distinct large primes, both orders, both signs
        fam = case.tag.startswith("dblfam")
        if case.tag == "dblfam/first":
            for k in _DBLFAM:
                _DBLFAM[k] = 0
        if len(a) > 4 and a[4] == "1":
            _COV["dbl_requests"] += 1
        if fam:
            _DBLFAM["n"] += 1
        for pol in tr["polys"]:
            for fs, l1, l2 in pol["rels"]:
                if l1 and l2:
                    _COV["dbl_rels"] += 1
                    _COV["dbl_p_lt_q" if l1[0] < l2[0] else "dbl_p_gt_q"] += 1
                    _COV["dbl_e2_plus" if l2[1] > 0 else "dbl_e2_minus"] += 1
                    _COV["dbl_e1_plus" if l1[1] > 0 else "dbl_e1_minus"] += 1
                    if fam:
                        _DBLFAM["rels"] += 1
                        _DBLFAM["lt" if l1[0] < l2[0] else "gt"] += 1
                        _DBLFAM["plus" if l2[1] > 0 else "minus"] += 1
        if case.tag == "dblfam/last":
            # the family is deterministic (fixed discriminants, single thread): the counts do not depend on the seed
            f = _DBLFAM
            if f["rels"] < DBLFAM_MIN_RELS or min(f["lt"], f["gt"]) < DBLFAM_MIN_SIDE or min(f["plus"], f["minus"]) < DBLFAM_MIN_SIDE:
                return (f"vacuity guard: the forced-double family ({f['n']} requests answered) went through the large2 block of sieve_block_poly "
                        f"only {f['rels']} times (large1 < large2: {f['lt']}, large1 > large2: {f['gt']}, exponent of large2 +1: {f['plus']}, -1: {f['minus']}); "
                        f"required: {DBLFAM_MIN_RELS} in all, {DBLFAM_MIN_SIDE} on every side")
        return None
    return "unknown op"


_P61 = (1 << 61) - 1


def _rank_mod(rows):
    """rank over GF(2^61 - 1) of sparse rows {prime: coefficient} (own elimination)"""
    piv = {}
    for r in rows:
        r = {k: v % _P61 for k, v in r.items() if v % _P61}
        while r:
            k = min(r)
            if k not in piv:
                inv = pow(r[k], -1, _P61)
                piv[k] = {j: v * inv % _P61 for j, v in r.items()}
                break
            f = r[k]
            for j, v in piv[k].items():
                nv = (r.get(j, 0) - f * v) % _P61
                if nv:
                    r[j] = nv
                else:
                    r.pop(j, None)
    return len(piv)


def _vec(fs, l1=None, l2=None):
    v = {}
    for q, e in list(fs) + ([l1] if l1 else []) + ([l2] if l2 else []):
        v[q] = v.get(q, 0) + e
    return v


def parse_dump(text):
    parts = text.split(" | ")
    d = {}
    for t in parts:
        if t.startswith("rows="):
            d["rows"] = [] if t[5:] == "-" else [[] if r == "-" else [parse_fac(x) for x in r.split(".")] for r in t[5:].split(";")]
        elif t.startswith("removed="):
            d["removed"] = []
            if t[8:] != "-":
                for x in t[8:].split(";"):
                    q, r = x.split("=", 1)
                    d["removed"].append((int(q), [] if r == "-" else [parse_fac(y) for y in r.split(".")]))
        elif t.startswith("weight="):
            d["weight"] = {} if t[7:] == "-" else {int(a): int(b) for a, b in (x.split(":") for x in t[7:].split(","))}
        elif t.startswith("dups=") or t.startswith("n=") or t.startswith("trimmed="):
            k, v = t.split("=")
            d[k] = int(v)
    return d


def oracle_filter(case, ans):
    """specification of the relation filter, independent of its strategy: it only replaces relations by integer
    combinations of relations. Checked as equality of rational spans (rank over GF(2^61-1)): every kept row and every
    saved relation `p = prod l^e` lies in the span of the input relations; nothing is lost unless rows were trimmed."""
    op, a = case.op, case.args
    rels_txt = a[-1]
    if op == "rf_real":
        if ans in ("panic", "abort"):
            # the real per-polynomial sieve followed by the real filter on its relations: neither has a refusal (the model of the
            # sieve's loop body is panic-free: relation_no_panic; a filter panic on well-formed relations is judged below as well)
            return f"D = {a[0]}: the real sieve / relation filter panicked on real sieved relations"
        if ans == "hang":
            return None
        rels_txt, ans = ans.split(" || ")
    if ans == "panic":
        return "panic on a well-formed relation list"
    if ans == "overflow":
        return None                           # reported by the code, the caller stops filtering
    rels = [] if rels_txt == "-" else [parse_rel(x) for x in rels_txt.split(";")]
    inp = [_vec(*r) for r in rels]
    d = parse_dump(ans)
    out = [_vec(r) for r in d["rows"] if r]
    for q, r in d["removed"]:
        v = _vec(r)
        v = {k: -e for k, e in v.items()}
        v[q] = v.get(q, 0) + 1
        out.append(v)
    if len(inp) <= 120:
        r_in = _rank_mod(inp)
        if _rank_mod(inp + out) != r_in:
            return "a kept row or a saved relation is not a combination of the input relations"
        if op in ("rf_dense", "rf_pivots", "rf_rowsub", "rf_real") and _rank_mod(out) != r_in:
            return "the kept rows and saved relations span less than the input relations (a relation was lost)"
    # an eliminated prime occurs in no kept row and in no later saved relation
    gone = set()
    for q, r in d["removed"]:
        if any(x in gone and e != 0 for x, e in r):            # (entries with exponent 0 are inert leftovers)
            return f"saved relation of {q} mentions a prime eliminated earlier"
        gone.add(q)
    for r in d["rows"]:
        if any(x in gone and e != 0 for x, e in r):
            return "a kept row still contains an eliminated prime"
    if op in ("rf_dense", "rf_real"):
        rows = [tuple(r) for r in d["rows"]]
        if any(not r for r in rows) or rows != sorted(set(rows)) or any(r[0][1] < 0 for r in rows):
            return "after remove_duplicates the rows must be non-empty, sorted, distinct and sign-normalised"
    if op == "rf_real":
        D = int(a[0])
        cache, pr = {}, form_principal(D)
        rows = [r for r in d["rows"]][:40]
        for r in rows:
            if relation_value_exp(D, r, cache) != pr:
                return f"D = {D}: filtered row is not trivial in the class group: {r}"
        for q, r in d["removed"][:40]:
            if relation_value_exp(D, [(q, -1)] + r, cache) != pr:
                return f"D = {D}: saved relation {q} = {r} does not hold in the class group"
    return None


def oracle_history(case, ans):
    """independent bookkeeping: union-find on the large prime graph (vertex 1 = no large prime)"""
    maxlarge = int(case.args[0])
    rels = [] if case.args[1] == "-" else case.args[1].split(";")
    parent = {}

    def find(x):
        parent.setdefault(x, x)
        while parent[x] != x:
            parent[x] = parent[parent[x]]
            x = parent[x]
        return x
    expect_panic = False
    complete = 0
    edges = set()
    for s in rels:
        fs, l1, l2 = parse_rel(s)
        if l1 is None and l2 is None:
            complete += 1
            continue
        if l1 is None:
            continue
        if l2 is None:
            if l1[0] >= maxlarge:
                continue
            p, q = 1, l1[0]
        else:
            p, q = l1[0], l2[0]
            if p == q:
                expect_panic = True
                break
        if (1 << 32) - 1 in (p, q):
            return None if True else None         # u32::MAX + 1: refusal is acceptable, nothing to judge
        edges.add((min(p, q), max(p, q)))
        rp, rq, r1 = find(p), find(q), find(1)
        if rp == r1 and rq == r1:
            complete += 1
        else:
            parent[rp] = rq
    if expect_panic:
        return None if ans == "panic" else "assert!(p != q) did not fire"
    if ans == "panic":
        return "panic on a valid history"
    parts = ans.split(" | ")
    emitted = [] if parts[0] == "-" else parts[0].split(";")
    stored = [] if parts[2] == "stored=-" else [t.split("=", 1)[1] for t in parts[2][7:].split(";")]
    # every emitted / stored relation is an input relation, not more often than it was input
    pool = {}
    for s in rels:
        pool[s] = pool.get(s, 0) + 1
    for s in emitted + stored:
        if pool.get(s, 0) == 0:
            return f"relation {s} emitted/stored more often than it was added (or never added)"
        pool[s] -= 1
    cnt = dict(t.split("=") for t in parts[4].split(" "))
    if int(cnt["len"]) != complete:
        return f"len() = {cnt['len']}, independent count of complete relations + cycles = {complete}"
    # paths: a tree rooted at 1 made of input edges, covering exactly the component of 1
    paths = {}
    for t in parts[1][6:].split(","):
        k, v = t.split(":")
        paths[int(k)] = [int(x) for x in v.split(">")]
    r1 = find(1)
    comp = {v for v in list(parent) if find(v) == r1} | {1}
    if set(paths) != comp:
        return f"paths covers {sorted(paths)}, component of 1 is {sorted(comp)}"
    for k, v in paths.items():
        if v[0] != 1 or v[-1] != k:
            return f"path of {k} is {v}"
        for x, y in zip(v, v[1:]):
            if (min(x, y), max(x, y)) not in edges:
                return f"path of {k} uses {x}-{y} which is not an input edge"
    # usefulness: in the graph of the emitted relations every large prime is connected to the root 1
    # (a cycle is emitted together with both tree paths that close it)
    par2 = {}

    def find2(x):
        par2.setdefault(x, x)
        while par2[x] != x:
            par2[x] = par2[par2[x]]
            x = par2[x]
        return x
    for s_ in emitted:
        fs, l1, l2 = parse_rel(s_)
        if l1 is not None:
            par2[find2(l1[0])] = find2(l2[0] if l2 is not None else 1)
    for v in list(par2):
        if find2(v) != find2(1):
            return f"large prime {v} of an emitted relation is not connected to the root through emitted relations"
    # ... and lies on a cycle: it occurs in at least two emitted relations (otherwise the relation can never
    # take part in a combination that is free of large primes)
    deg = {}
    for s_ in emitted:
        fs, l1, l2 = parse_rel(s_)
        for l in (l1, l2):
            if l is not None:
                deg[l[0]] = deg.get(l[0], 0) + 1
    for v, d in deg.items():
        if d < 2 and v != 1:
            return f"large prime {v} occurs in only one emitted relation (the tree path that closes its cycle was not emitted)"
    # written lines = emitted relations in the documented format
    lines = [] if parts[5] == "lines=-" else parts[5][6:].split(";")
    want = [",".join(map(str, _rel_entries(*parse_rel(s)))) or "e" for s in emitted]
    if lines != want:
        return "relations.sieve lines differ from the emitted relations"
    return None


# ================================================================ model follow-ups (built from implementation answers)

MAX_FU_LINES = 60


def _triples(D, ent):
    """p:b:e list for the model: b is the certified normalised root (the model re-checks it)"""
    out = {}
    order = []
    for x in ent:
        p = abs(x)
        if p not in out:
            out[p] = 0
            order.append(p)
        out[p] += 1 if x > 0 else -1
    res = []
    for p in order:
        b = b_plus_of(D, p)
        if b is None:
            return None
        res.append(f"{p}:{b}:{out[p]}")
    return ",".join(res) if res else "-"


def solve_x(pol, v, mm):
    """the x with P(x) = v inside the sieve interval (None when not unique)"""
    a, b, c = pol["a"], pol["b"], pol["c"]
    if pol["type"] == 2:
        disc = b * b - 4 * a * (c - v)
        den, nb = 2 * a, -b
    else:
        disc = b * b - a * (c - v)
        den, nb = a, -b
    if disc < 0:
        return None
    y = isqrt(disc)
    if y * y != disc:
        return None
    lo, hi = (0, mm) if a == 1 else (-(mm // 2), mm // 2)
    xs = {(nb + s * y) // den for s in (1, -1) if (nb + s * y) % den == 0}
    xs = [x for x in xs if lo <= x < hi]
    return xs[0] if len(xs) == 1 else None


def _inv_flag(h, invs):
    """what `invariantsOk` must answer (the model's bookkeeping check on the real output)"""
    prod = 1
    for d in invs:
        prod *= d
    return "true" if prod == h and all(d not in (0, 1) for d in invs) else "false"


# ---------------------------------------------------------------- form arithmetic of the model against an independent composition

def dirichlet_compose_ref(f1, f2, D, raw=False):
    """independent of Cohen 5.4.7: search the united middle coefficient B (B = b1 mod 2a1, B = b2 mod 2a2,
    B^2 = D mod 4a1a2, gcd(a1, a2, B) = 1) by stepping through the residues, then reduce (a1a2, B, .). None when no
    such B exists (gcd(a1, a2, (b1+b2)/2) > 1: the forms are not concordant after translation)."""
    a1, b1, _ = f1
    a2, b2, _ = f2
    m = 4 * a1 * a2
    for k in range(a2 + 1):
        B = b1 + 2 * a1 * k
        if (B - b2) % (2 * a2) == 0 and (B * B - D) % m == 0 and math.gcd(math.gcd(a1, a2), B) == 1:
            return (a1 * a2, B, (B * B - D) // m) if raw else form_reduce(a1 * a2, B, (B * B - D) // m)
    return None


def _form_followups(case, ans):
    """cg_fb_bplus: prime forms built from the REAL factor base (p, b_plus as the code computes it) are composed and
    reduced by the Lean model (cg_compose, cg_reduce: Form.compose / Form.reduce of Props/C18Group) and compared with
    an independent composition: united forms by search for distinct primes and for squares, the principal form for
    f * conj(f) (the branch gcd(a1, a2, s) > 1 of the algorithm), Python's own reduction loop for cg_reduce."""
    D = int(case.args[0])
    try:
        kind, lst = ans.split(" ")
    except ValueError:
        return None
    if (kind == "even") != (D % 4 == 0 and (D // 4) % 4 != 1):
        return None
    if D % 4 == 0 and (D // 4) % 4 == 1:
        D = D // 4                                   # the code works with D/4 (type 2 polynomials)
    forms = []
    for t in lst.split(","):
        p, r, b = map(int, t.split(":"))
        if p > 2 and D % p and 0 <= b <= p and (b * b - D) % (4 * p) == 0 and p < 5000:
            forms.append((p, b, (b * b - D) // (4 * p)))
    if len(forms) < 2:
        return None
    h = abs(D) % max(1, len(forms) - 1)
    f1, f2 = forms[h], forms[(h + 1) % len(forms)]
    f3 = forms[(2 * h + 3) % len(forms)]
    out = []
    show = lambda f: " ".join(map(str, f))
    pairs = [(f1, f2), (f2, f1), (f1, f1), (f3, f2) if f3 != f2 else (f1, f2)]
    for x, y in pairs:
        ref = dirichlet_compose_ref(x, y, D)
        if ref is not None:
            out.append((f"cg_compose {show(x)} {show(y)}", show(ref)))
    conj = (f1[0], -f1[1], f1[2])
    out.append((f"cg_compose {show(f1)} {show(conj)}", show(form_reduce(*form_principal(D)))))
    # composite first coefficients sharing the prime of f1: gcd(a1, a2) = p with gcd(a1, a2, s) = 1 (second xgcd of the
    # algorithm), and with the conjugate on one side gcd(a1, a2, s) = p > 1 on PRIMITIVE forms; expected through coprime
    # united forms only: (f1 f2)(f1 f3) = (f1 f1)(f2 f3), (f1 f2)(conj f1 f3) = f2 f3
    if len({f1[0], f2[0], f3[0]}) == 3:
        u12 = dirichlet_compose_ref(f1, f2, D, raw=True)
        u13 = dirichlet_compose_ref(f1, f3, D, raw=True)
        uc3 = dirichlet_compose_ref(conj, f3, D, raw=True)
        r11, r23 = dirichlet_compose_ref(f1, f1, D), dirichlet_compose_ref(f2, f3, D)
        if u12 and u13 and r11 and r23 and r11[0] < 5000:
            want = dirichlet_compose_ref(r11, r23, D)
            if want is not None:
                out.append((f"cg_compose {show(u12)} {show(u13)}", show(want)))
        if u12 and uc3 and r23:
            out.append((f"cg_compose {show(u12)} {show(uc3)}", show(r23)))
    # an unreduced member of the class of f1 * f2: (a1 a2, B, C) translated and swapped
    a, b, c = f1[0] * f2[0], None, None
    ref = dirichlet_compose_ref(f1, f2, D)
    if ref is not None:
        k = 3 + abs(D) % 11
        ra, rb, rc = ref
        g = (ra * k * k + rb * k + rc, -(rb + 2 * ra * k), ra)          # (f(k,1), -(b+2ak), a)
        g = (g[0], g[1] + 2 * g[0] * (k + 1), g[0] * (k + 1) ** 2 + g[1] * (k + 1) + g[2])
        prim = math.gcd(math.gcd(ra, rb), rc) == 1
        out.append((f"cg_reduce {show(g)}", f"{show(ref)} {'true' if prim else 'false'}"))
    return out


def followup(case, ans):
    case = _norm(case)
    op = case.op
    ans = _pans(ans)[0]
    if ans in ("panic", "abort", "hang", "?", "none"):
        return None
    if op == "cg_full":
        D = int(case.args[0])
        h, invs, gens, lines, files, extra = parse_full(ans)
        hflag = 1 if -D < 3000000 else 0
        step = max(1, len(lines) // MAX_FU_LINES)
        trs = []
        for ent in lines[::step]:
            t = _triples(D, ent)
            if t is None:
                return None                       # the oracle reports it
            trs.append(t)
        req = f"cg_full_model {D} {hflag} {h} {','.join(map(str, invs)) or '-'} {';'.join(trs) or '-'}"
        return req, f"{h if hflag else '-'} {_inv_flag(h, invs)} ok"
    if op == "cg_fb_bplus":
        return _form_followups(case, ans)
    if op == "cg_h":
        D = int(case.args[0])
        if -D >= 200000 or int(case.args[1]) != 0:
            return None
        h, invs = _parse_h(ans)
        return f"cg_full_model {D} 1 {h} {','.join(map(str, invs)) or '-'} -", f"{h} {_inv_flag(h, invs)} ok"
    if op == "rf_real":
        rels, dump = ans.split(" || ")
        return f"rf_dense {rels}", dump
    if op == "cg_poly":
        tr = parse_poly(ans)
        if not tr["polys"]:
            return None
        pol = tr["polys"][-1]
        fbd = dict(tr["fb"])
        maxprime = tr["fb"][-1][0]
        dbl = 1 if tr["maxdouble"] > maxprime * maxprime else 0
        sA = dict(pol["qf"])
        items, want, used = [], [], set(p for p, _ in pol["af"])
        rl = pol["rels"]
        if case.tag.startswith("dblfam"):
            rl = [r for r in rl if r[2]] + [r for r in rl if not r[2]]     # the large2 block first
        for fs, l1, l2 in rl[:MAX_FU_LINES]:
            v = 1
            for p, e in fs:
                v *= p ** abs(e - sA.get(p, 0))
            lp = lq = 1
            if l1:
                lp = l1[0]
                v *= lp ** abs(l1[1])
                if abs(l1[1]) == 2:
                    lq = lp
            if l2:
                lq = l2[0]
                v *= lq
            x = solve_x(pol, v, tr["mm"])
            if x is None:
                continue
            facs = [p for p, _ in tr["fb"] if v % p == 0]
            used.update(facs)
            items.append(f"{x}:{'+'.join(map(str, facs)) or '-'}:{lp}:{lq}")
            want.append(show_rel(fs, l1, l2))
        # candidates the code must REJECT (odd conductor prime among the reported primes): smooth values of the polynomial
        oddc = [q for q in tr["cond"] if q != 2]
        if oddc and items:
            fbp = [q for q, _ in tr["fb"]]
            nrej = 0
            for x in range(0, 4000):
                v = (pol["a"] * x + (pol["b"] if pol["type"] == 2 else 2 * pol["b"])) * x + pol["c"]
                if v <= 0 or all(v % q for q in oddc):
                    continue
                w, facs = v, []
                for q in fbp:
                    if w % q == 0:
                        facs.append(q)
                        while w % q == 0:
                            w //= q
                if w != 1:
                    continue
                used.update(facs)
                items.append(f"{x}:{'+'.join(map(str, facs))}:1:1")
                want.append("skip")
                nrej += 1
                if nrej >= 4:
                    break
        if not items:
            return None
        fbs = ",".join(f"{p}:{r}" for p, r in tr["fb"] if p in used) or "-"
        af = ",".join(f"{p}:{r}" for p, r in pol["af"]) or "-"
        cond = ",".join(map(str, tr["cond"])) or "-"
        req = (f"cg_poly_model {pol['type']} {pol['a']} {pol['b']} {pol['c']} {maxprime} {tr['maxlarge']} {dbl} "
               f"{cond} {fbs} {af} {';'.join(items)}")
        return req, ";".join(want)
    return None


# ================================================================ distribution / texts

def klass(case, ans):
    if case.op in ("clscli", "clscli_build"):
        return f"{case.tag}/{case.args[0]}/{ans.split(' err=')[-1] if ' err=' in ans else ans}"
    reuse = "reuse-outdir/" if case.op == "cg_full_reuse" else ""
    case = _norm(case)
    ans, pmsg = _pans(ans)
    k = reuse + _klass(case, ans)
    if pmsg:
        k += f"[{refusal_kind(pmsg) or 'UNRECORDED: ' + pmsg.rpartition(' @ ')[0][:40]}]"
    return k


def _klass(case, ans):
    op, a = case.op, case.args
    if op == "cg_legendre":
        return legendre_klass(case, ans)
    bad = "/" + ans if ans in ("panic", "abort", "hang", "?", "none") else ""
    if op == "cg_b_plus":
        p, r = int(a[0]), int(a[1])
        return f"cg_b_plus/{'even' if a[2] == 'true' else 'odd'}/{'p=2' if p == 2 else ('r=0' if r % p == 0 else ('r>p' if r > p else 'generic'))}{bad}"
    if op == "cg_crel_history":
        if bad:
            return op + bad
        parts = ans.split(" | ")
        cnt = dict(t.split("=") for t in parts[4].split(" "))
        cyc = [int(x) for x in cnt["cycles"].split(",")]
        deep = "cycles>=3" if sum(cyc[2:]) else ("cycles2" if cyc[1] else "no-cycle")
        return f"{op}/{deep}/{'stored' if parts[2] != 'stored=-' else 'nostored'}"
    if op.startswith("rf_") and op != "rf_real":
        if bad or ans == "overflow":
            return f"{op}/{ans}"
        d = parse_dump(ans)
        nrm = len(d["removed"])
        extra = ""
        if op == "rf_dense":
            extra = "/dups" if d.get("dups") else "/nodups"
            extra += "/big" if len(a[-1]) > 8000 else ""
        return f"{op}/removed{'0' if nrm == 0 else ('1-5' if nrm <= 5 else '>5')}{extra}"
    D = int(a[0])
    base = f"{op}/{dclass(D)}/{sizeclass(D)}"
    if op in ("cg_h", "cg_full"):
        base += f"/t{a[1]}" + ("/dbl" if len(a) > 2 and a[2] == "1" else "")
        kv = case_kv(case)
        if kv:
            base += "/" + ",".join(f"{k}={v}" for k, v in sorted(kv.items()))
        if sparse_empty_structure(case, ans) is not None:
            base += "/SPARSE-no-structure"
    if op == "cg_poly" and len(a) > 4 and a[4] == "1":
        base += "/dbl"
    if op == "cg_poly" and case.tag.startswith("nonfund"):
        base += "/odd-conductor"
    if op == "cg_poly" and case.tag.startswith("dblfam"):
        base += "/family"
    if op == "cg_estimate_bits":
        return f"{op}/{dclass(D)}/{(-D).bit_length()}b{bad}"
    if op == "cg_estimate" and not bad:
        ref = reference_h(D)
        lo, hi = (int(x) for x in ans.split(" "))
        if ref is not None:
            base += "/brackets" if lo <= 1000 * ref <= hi else ("/within10%" if 0.9 * lo <= 1000 * ref <= 1.1 * hi else "/MISS")
    if op == "cg_poly" and not bad:
        tr = parse_poly(ans)
        nl = sum(1 for pol in tr["polys"] for r in pol["rels"] if r[1])
        n2 = sum(1 for pol in tr["polys"] for r in pol["rels"] if r[2])
        base += "/large2" if n2 else ("/large" if nl else "/nolarge")
        if case.tag.startswith("dblfam"):
            base += "x" + ("0" if n2 == 0 else ("1-4" if n2 < 5 else ("5-19" if n2 < 20 else ">=20")))
    return base + bad


def extra_coverage():
    return {"relation_lines_checked_by_form_arithmetic": _COV["lines"],
            "relation_lines_checked_against_reported_coordinates": _COV["lines_with_coords"],
            "classgroup_calls": _RATE["n"], "classgroup_calls_without_result": _RATE["bad"],
            "sparse_path_results_without_structure": _COV["sparse_empty"],
            "classgroup_refusals_with_a_recorded_message": _COV["refusals_recorded"],
            "cg_poly_panics_or_aborts": _COV["poly_panics"],
            "cg_poly_requests_with_forced_double_large_primes": _COV["dbl_requests"],
            "large2_block_executions_seen (relations with two distinct large primes, both profiles)": _COV["dbl_rels"],
            "large2_block: large1 < large2 / large1 > large2": f"{_COV['dbl_p_lt_q']} / {_COV['dbl_p_gt_q']}",
            "large2_block: exponent of large2 +1 / -1": f"{_COV['dbl_e2_plus']} / {_COV['dbl_e2_minus']}",
            "large2_block: exponent of large1 + / -": f"{_COV['dbl_e1_plus']} / {_COV['dbl_e1_minus']}",
            "relations_filtered_lines_checked": _COV["filtered"], "relations_removed_lines_checked": _COV["removed"],
            "sylow_types_compared": _COV["sylow"], "sylow_types_inconclusive": _COV["sylow_inconclusive"]}


def nontrivial(case, ans):
    return _pans(ans)[0] not in ("panic", "abort", "hang", "?", "none")


THEOREMS = ["Ymq.C18." + t for t in (
    "b_plus_unique parity_exactly_one bPlus_spec_odd bPlus_spec_even sign_total sign_exclusive large_sign_consistent poly_factors_total relation_no_panic "
    "emitted_subset_inputs complete_relations_emitted store_total emit_hom emit_hom_map relLine_val filter_hom "
    "reduced_enum_sound reduced_enum_complete reduced_enum_nodup reduced_enum invariants_multiply invariantsOk_spec "
    # Props/C18Forms: a sieved relation is a genuine relation
    "value_form_equiv dirichlet_composition concordant_product product_disc prime_form_sign_odd prime_form_sign_two normalised_root_exists "
    "relation_genuine primitive_of_fundamental relation_genuine_fundamental theRoot_is_b_plus reduce_pequiv "
    # Props/C18Legendre: classgroup::legendre
    "legendre_eq_legendreSym_partial legendre_no_panic legendre_two legendre_residue_form legendre_panics_of_ge_two_pow_30 "
    "legendre_large_prime_panics legendre_panics_small_moduli legendre_composite_debug_assert "
    # Props/C18Group: the driver's form arithmetic (Form.compose = Cohen 5.4.7 + xgcd + reduce) is Gauss composition
    "xgcd_correct compose_raw_identity compose_is_composition compose_dirichlet compose_concordant "
    "reduce_reduced reduce_reduced_fuel reduce_mem_reducedForms relation_genuine_conductor add_equal_larges_panics run_none_of_equal_larges store_total_iff_distinct emitted_relations_genuine "
    "reduced_unique reduce_eq_iff_pequiv class_representative_unique").split()] + [
    "Ymq.C18C19.reported_invariants_multiply"]
HYPOTHESES = [
    "classNumber_is_reduced_count: `classNumber D` is DEFINED as the number of reduced primitive positive definite forms of discriminant D; "
    "reduced_enum proves the enumeration exact and (Props/C18Group) class_representative_unique proves that every proper equivalence class of primitive "
    "positive definite forms of discriminant D contains exactly one of them (reduce_reduced + reduced_unique), so classNumber D is the FORM class number; "
    "that the form class number is the class number of the quadratic order (forms <-> ideals) stays a classical fact that is not formalised",
    "emit_hom takes the triviality of every INPUT relation as its hypothesis (phi kills the inputs); emitted_relations_genuine (Props/C18Group) composes "
    "emit_hom_map with the conclusion `Genuine D r` of relation_genuine: if every added relation is genuine so is every emitted one; relation_genuine (Props/C18Forms) proves it "
    "for the relations built by relationOf in the form `the prime forms of the entries compose to the principal form` (explicit Dirichlet "
    "compositions of concordant forms); the passage from that statement to `phi kills the relation` for the class map phi needs that composition "
    "is well defined on classes (Gauss), which is not formalised",
    "relation_genuine.hlarge: the large primes of the relation are odd primes (what fbase::cofactor debug-asserts for a single large prime and "
    "what try_factor64 returns; the sieve reports every factor-base prime dividing the value)",
    "relation_genuine.hprim: no prime p divides y = B + 2Ax while p^2 divides A*P(x) (the forms met are primitive, gcd condition of Gauss "
    "composition); discharged for fundamental D by relation_genuine_fundamental; for non-fundamental D by relation_genuine_conductor "
    "(Props/C18Group) from the conductor-prime rejection, under: D odd or D/4 = 2, 3 mod 4 (classgroup() works with D/4 when D/4 = 1 mod 4), every odd "
    "candidate prime with p^2 | D is in the conductor list, and the NAMED hypotheses that no prime of A and no large prime has its square dividing D "
    "(select_siqs_factors is not modelled; a conductor prime above the factor base is invisible to the code)",
    "relation_genuine.hafs / haprod: A is the product of the listed odd primes of A, each with a correct stored root (select_siqs_factors is not modelled)",
    "invariants_multiply takes `diag.prod = h` (the Smith form output, property C19) as its hypothesis; C18C19.reported_invariants_multiply "
    "discharges it with C19 snf_diag and takes instead two facts about the state returned by SmithNormalForm::reduce that C19 does not prove: "
    "snf_square (rows.len() = gens.len()) and snf_diag_nonneg (diagonal entries >= 0, so that `d as u128` does not wrap); both are checked on every "
    "real result by the driver (invariantsOk)",
]
RULE = ("a deterministic family of 48 forced-double-large-prime sieve requests (cg_poly, 34..128 bits, 4 classes, 3 polynomials each; ~5000 executions "
        "of the large2 block of sieve_block_poly per profile, both orders of the two large primes and both signs, guarded by a minimum count; up to 60 relations per "
        "request replayed by the model, two-large-prime relations first); boundary family, in both tiers: |D| of 63..66 and 127..132 bits, class numbers chosen on both sides of 2^63 and 2^64 (full runs), "
        "140/150 bits (full runs in thorough), one D whose default factor base exceeds 800 primes (168 bits) and one with double large primes by default "
        "(184 bits), b_plus at the largest primes below 2^30; then: class numbers: every fundamental D with |D| below the tier bound (4*10^4 quick, 10^6 thorough), each also with a thread pool for a "
        "1/23 sample; random fundamental D of 16..34 (quick) / 16..40 (thorough) bits in the four classes D mod 16 in {1 mod 8, 5 mod 8, 8, 12}, "
        "some of 41..44 bits; composite D with known prime factors up to 100 bits (2-rank); full runs with an output directory for 8..128-bit D "
        "(every relation line checked), with and without thread pool, and with the double large prime variation forced (40..128 bits); the real "
        "sieve polynomial by polynomial through a hook (6..128 bits, also with double large primes); b_plus on random primes below 2^30 and "
        "on real factor bases; RelFilterSparse on random relation lists (rowsub incl. i32 overflow, trim, stepwise pivot_one, whole dense loop, "
        "inputs large enough for the trimming branch) and on real sieved relations; random CRelationSet histories (0/1/2 large primes, pools of 2..80 large primes, refused and panicking shapes). "
        "non-trivial = the implementation returned a result; distinct by request line")
MODELLED = [
    "fbase::Prime::b_plus word-exact (Ymq/Model/ClassGroup.lean bPlus)",
    "siqs::Poly::eval and Poly::factors (signs of the primes of A), Int arithmetic (polyEval, polyFactors)",
    "classgroup::sieve_block_poly after `smooths`: fbase::cofactor trial division and large prime rules, conversion of integer factors "
    "to signed ideal factors (b mod p against b_plus, p = 2 rule, conductor primes, large prime parity), merge with the factors of A (relationOf)",
    "relationcls::CRelationSet::{add, add_path, update_tree, emit_path, emit}: spanning tree `paths`, `doubles`, `doubles_rev` as key-sorted "
    "association lists, counters, emission order, the text of the relations.sieve lines (run, relLine)",
    "last lines of group_structure_dense: invariants = diagonal entries != 1 (invariantsOf; on C19's Snf state: C18C19.reported)",
    "relationcls::RelFilterSparse::{new, coeff, pivot_one, pivot, save_removed, remove_duplicates, trim, add_index, remove_row, rowsub} and the "
    "filtering loop of group_structure_dense, with the whole private state (rows, weight, nonzero, removed, skip, wmin, nextelims, counters) "
    "compared through a hook dump (Ymq/Model/ClassGroupFilter.lean)",
    "reference (not code): reduced primitive forms, classNumber, reduction, Gauss composition, prime forms (used to re-check relation lines "
    "and class numbers of real runs inside the Lean driver)",
    "classgroup::legendre with arith::Dividers::{new, mod_uint, modu63} as it uses them (Ymq/Model/ClassGroupLegendre.lean), every panic site of the checked profile; op cg_legendre (hook vh_legendre)",
]
UNMODELLED = [
    "classgroup::estimate (f64 truncated Euler product): there is no theorem that it brackets h; explored by K/O only "
    "(every reported h is compared with an independent count)",
    "that composition of forms is well defined on proper equivalence classes and makes them a group (Gauss): relation_genuine exhibits, for every "
    "relation built by relationOf, an explicit chain of Dirichlet compositions of the prime forms of its entries ending at the principal form; "
    "identifying that with `the product of the classes is trivial` in the abstract class group is classical and not formalised. The model's "
    "Form.compose (Cohen 5.4.7 with the model's xgcd, used by the driver to re-check relation lines) IS proved a composition (Props/C18Group: compose_is_composition "
    "= discriminant + bilinear Gauss identity for all positive definite inputs, compose_dirichlet / compose_concordant = Dirichlet composition up to proper "
    "equivalence when gcd(a1, a2, (b1+b2)/2) = 1), Form.reduce with the model's fuel ends in a reduced form (reduce_reduced); and the reduced form of a class is unique "
    "(reduced_unique, reduce_eq_iff_pequiv: equal reduced forms <=> same class); not proved: for gcd > 1 on PRIMITIVE forms that the result is the class product, and in general "
    "that composition is well defined on classes; "
    "every relation line of the sampled runs is still re-checked by independent form arithmetic (Python) and by the model's form arithmetic (Lean driver)",
    "classgroup::smoothness_bias (f64) and the release-profile value of legendre on composite moduli (never passed by the callers); "
    "arith::Dividers beyond new/mod_uint/modu63 as used by legendre",
    "the sieve itself (sieve::Sieve, smooths), select_siqs_factors/select_a/prepare_a, Poly::first/next, try_factor64, FBase::new / sqrt_mod "
    "(C08), the sparse-path filtering loop of group_structure_sparse (same RelFilterSparse primitives, other stopping rule), determinant / lattice index / Smith form (C19), "
    "group_structure_sparse (returns no invariants: `FIXME: structure is incomplete` in the source), file output, rayon, RwLock",
    "I256/u64 overflow inside Poly::eval and the sign decision (values are asserted < 2^255 by the code; primes < 2^32)",
    "binary ymcls (argument parsing, negation of a positive argument, the 512-bit and `D mod 4` refusals, writing group.structure from the "
    "returned value): not modelled; run as a child process on discriminants with a known class group (ops clscli*): printed invariants, "
    "group.structure, classnumber and the refusals are judged; the other ops read relations.sieve and classnumber written by the library call",
]
CLAIM = ("PARTIAL. Proved in Lean, for all inputs, about models tied to the code by differential runs: (1) the sign convention is well defined: "
         "for every prime p there is exactly one normalised root b (0 <= b <= p, b = D mod 2, b^2 = D mod 4p), Prime::b_plus returns it for "
         "both polynomial types; the sign decision of sieve_block_poly and Poly::factors is total and exclusive (b mod p is b_plus or p - b_plus "
         "whenever p divides the polynomial value, the large prime parity rule is the same convention), and no panic site of the whole relation "
         "construction is reachable on a positive definite polynomial with a correct factor base (relation_no_panic); (2) the relation store "
         "only ever emits relations it was given, never loses a complete relation, and never panics, for every history of add calls (spanning "
         "tree of large primes included; the recursion of update_tree terminates), hence any homomorphism to an abelian group that kills the "
         "sieved relations kills every line of relations.sieve (emit_hom, relLine_val); (3) the reference enumeration of reduced primitive forms "
         "is exact (sound, complete, duplicate free), so `classNumber D` is the number of reduced primitive forms; (3b) the relation filter before the "
         "linear algebra (RelFilterSparse) only derives consequences of its input relations, whatever it pivots on, trims or aborts (filter_hom); "
         "(4) the reported cyclic factors "
         "multiply to the reported class number whenever the Smith diagonal does; (5) a sieved relation is a genuine relation (relation_genuine): for every "
         "relation built by the model of the sieve_block_poly loop body (conversion loop, Poly::factors, merge, large primes) the prime forms [p]^(+-1) of its "
         "entries, with exactly the signs the code emits (ramified primes, p = 2, primes of A, large primes included), compose by explicit Dirichlet "
         "compositions of concordant forms to the principal form (hypotheses: large primes are odd primes; primitivity, automatic for fundamental D "
         "and derived from the conductor-prime rejection of the code for non-fundamental D: relation_genuine_conductor); every relation the store emits is then genuine "
         "(emitted_relations_genuine); "
         "(6) classgroup::legendre is the Legendre symbol for every odd prime below 2^30 and panics above (Dividers::new); "
         "(7) the reference form arithmetic the driver re-checks real runs with is the arithmetic of the form class group (Props/C18Group): Form.compose "
         "(Cohen 5.4.7, own xgcd with its fuel) keeps the discriminant and satisfies Gauss' bilinear identity for all positive definite inputs, is a Dirichlet "
         "composition up to proper equivalence when gcd(a1, a2, (b1+b2)/2) = 1; Form.reduce with the model's fuel ends in a reduced form, the reduced form of a "
         "class is unique, so equal reduced forms <=> properly equivalent, and every class of primitive forms has exactly one representative in the enumeration: "
         "classNumber D is the number of form classes; the store's assert!(p != q) fires exactly on relations with two equal large primes. "
         "NOT proved, explored only: that the analytic estimate pins the "
         "right multiple (every reported class number is compared with an independent reduced-form count: exhaustively below the tier bound, "
         "randomly up to 2^40/2^44); that composition is well defined on classes (so the relations are still re-checked: every line of relations.sieve of the sampled runs up to 128 bits, with "
         "and without thread pool and double large primes, is recomputed with independent form arithmetic and mapped to 0 by the reported "
         "coordinates; group invariants are compared with the orders of all reduced forms for small h, 2-ranks with genus theory, generator "
         "coordinates with true element orders, the coordinates must generate the reported product of cyclic groups).")
LEVEL_NOTE = ("Partial by nature: the user-visible guarantee (h is the class number, the group is the class group) rests on an f64 Euler product "
              "and on ideal arithmetic; neither is a theorem here. What is proved is the bookkeeping around them (sign convention uniqueness and "
              "totality, relation store = subset of inputs for all histories + totality, exactness of the reference enumeration, product of "
              "invariants). `number of reduced primitive forms = number of form classes` is proved (class_representative_unique); form classes = ideal classes of the order is a named "
              "classical fact. Trusted: Lean kernel (+propext, "
              "Classical.choice, Quot.sound), the hand models' correspondence to the Rust code (sampled: b_plus, relation store histories incl. the "
              "private tree through a hook, the sign decision replayed on real sieve output through a per-polynomial hook), Python integers in the "
              "oracle. A panic of classgroup() (ops cg_h / cg_full, whose answer carries message and location of the first panic) is a refusal, "
              "not a wrong result, ONLY when it is one of the recorded refusals of C19 (`failed to determine lattice index` in matrix/intdense.rs or "
              "matrix/intsparse.rs; the assert_eq!(det, h, \"generators ..\") of SmithNormalForm::reduce): those are counted (a vacuity guard fails the "
              "check when more than half of the calls give no result); ANY other panic of classgroup(), and ANY panic of the real per-polynomial "
              "sieve (cg_poly, rf_real: the model of the loop body is proved panic-free, relation_no_panic), in either profile, is an oracle failure "
              "with the request as replay. group_structure_sparse (|D| beyond ~256 bits or factor bases > 800) returns no invariants and is not reached.")
TECHNIQUE = "Lean 4 proof about a hand model + differential correspondence check + spec oracle (independent class numbers and form arithmetic)"
