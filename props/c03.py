"""C03 — factoring is total: it answers or fails cleanly, never crashes."""
# SIZE AUDIT (quick tier), measured on cases('quick', Random(1)): bit length of n handed to factor()
#   selector(s)                     quick max   thorough max  code supports                        boundary classes reached in quick (all deterministic lists)
#   rho / squfof / qs64             64          64            n <= 64 bits after trial division    every bit length 41..64 (semiprimes), 2^64 - 40 .. 2^64 + 40
#   ecm128                          128         128           n <= 128 bits                        65, 70, ..., 115, every length 120..128, (2^64 - d1)(2^64 - d2), 2^128 +- 40
#   auto / ecm / pm1 / siqs / mpqs  500 (1024   same          n <= 500 bits (refused above;        2^64, 2^128, 2^192 - 1, 2^256 +- 40 (inputs that finish quickly), 470..500 (near-limit),
#     / qs                          refused)                  ZmodN 1..8 words, Uint 1024 bits)    501, 502, 505, 510..513, 520, 600, 1000, 1024 bits (refused);
#                                                                                                  BEFORE: nothing between 258 and 469 bits, i.e. ZmodN of 6 and 7 words (321..448 bits) and
#                                                                                                  the boundaries 320 / 384 / 448 never reached by factor() -> ADDED (mid-words)
#   cli (shipped program)           1329        same          500 bits                             64, 65, 128, 129, 499/500, 501, 512, 513, 1024, 1025 bits
# Added: boundary_cases (both tiers, first): composites (40..46-bit prime times a prime) of exactly 191..193, 255..257, 319..321, 383..385,
# 447..449 bits through ecm (every size) and auto (64k+1 sizes), primes and prime squares of those sizes through auto; both profiles.
import re
import random
from vlib.pipeline import Case
from vlib import gen
from props import factor_common as fc

from props import c03_qs64 as q64
from props import c03_squfof as sq
from props import c01_rho as rh      # pollard_rho::rho / rho_semiprime inside the model (K stream and follow-ups: props/c01.py)

# qsieve64::qsieve called DIRECTLY on inputs factor() never passes (even n, tiny n with x = n, n = k): outside C03 (the
# property is about the factoring entry point); model and code are still compared (K), the oracle accepts the three
# documented behaviours (DESIGN 10.3)
q64.ACCEPT_UNGUARDED = True

PID = "C03"
GEN = ["primality"]
LEAN = ["Ymq.Props.C03"] + q64.LEAN + sq.LEAN + ["Ymq.Props.C03Rho"]
AUDIT = "Ymq.Audit.C03"
THEOREMS = ['Ymq.C03.factor_total', 'Ymq.C03.factor_total_of_input', 'Ymq.C03.factorImpl_total'] + q64.THEOREMS + sq.THEOREMS + rh.THEOREMS_RHO
PROFILES = ["release", "chk"]
TIMEOUT = 60.0
RULE = ("first, in both tiers, composites / primes / prime squares of exactly 191..193, 255..257, 319..321, 383..385, 447..449 bits (ZmodN of 3..8 words) through ecm and auto; then "
        "every selector (inside its size precondition) x {0..300, products of 2-4 primes just above 199, 15-40 bit composites, "
        "semiprimes of every bit length 41..64, 2^64 +- small, 2^128 +- small, all-ones words, 480-500-bit primes / prime squares / "
        "smooth*prime, 501+ bit (must be refused)}; both build profiles; panic / abort / no answer within the watchdog = crash; "
        "non-trivial = n > 3; distinct by request line")
MODELLED = ["panic sites of lib.rs (asserts, unreachable!, division by zero, residue.is_one()) in Ymq/Model/Factor.lean; the replay "
            "classifies each observed crash as predicted-by-model (inside lib.rs) or outside the model (inside a sub-algorithm)"]
UNMODELLED = ["panics inside sub-algorithms (sieve internals, bnum), stack exhaustion and hangs are found only by the exploration half",
]
HYPOTHESES = ['OracleOK (sub-algorithms return genuine splits)', 'SelectorPre: alg in {qs64, rho, squfof} -> bits n <= 64', 'bits n <= fuel']

U8_ACC_N = 331552517952337439894544119526195039416927524384958668275159339842046736404971009142718510776090531887781083720415365209

P200 = [211, 223, 227, 229, 233, 239, 241, 251, 257, 263, 269, 271, 277, 281, 283, 293]


def selectors_for(n):
    return [a for a in fc.ALGOS if fc.allowed(a, n)]


def gen_fork(rng, label):
    """an independent stream derived from the run's seed (the main stream is not advanced)"""
    import random, hashlib
    st = hashlib.blake2b((label + repr(rng.getstate()[1][:4])).encode(), digest_size=8).digest()
    return random.Random(int.from_bytes(st, "big"))


def cli_cases(tier, rng):
    """the shipped command-line program (built without the verification cfg, both profiles) as a child process:
    argument handling, number parsing, its own size guard, the unwrap of factor()'s result, printing"""
    yield Case("cli_build release", k=False, tag="cli", profiles=["release"], timeout=900)
    yield Case("cli_build chk", k=False, tag="cli", profiles=["release"], timeout=900)
    small = [0, 1, 2, 4, 97, 199 * 211, (1 << 64) - 1, (1 << 64) + 1, (1 << 128) - 1, (1 << 128) + 51,
             1000000007 * 1000000009, gen.rand_prime(rng, 60) * gen.rand_prime(rng, 61)]
    p500 = gen.rand_prime(rng, 500)
    big = [(p500, "prime500"), (211 * gen.rand_prime(rng, 492), "composite500"), (gen.rand_prime(rng, 501), "501"),
           ((1 << 511) + 1, "512"), ((1 << 512) + 1, "513"), ((1 << 1024) - 1, "1024"), (1 << 1024, "1025"), (10 ** 400, "1329")]
    for prof in ("release", "chk"):
        for n in small:
            for extra in ([], ["--threads", "2"]):
                yield Case(" ".join(["cli", prof, "60", "--verbose", "silent"] + extra + [str(n)]), k=False, tag="cli/small",
                           profiles=["release"], timeout=90)
        for mode in ("ecm", "qs", "mpqs", "siqs"):
            n = gen.rand_prime(rng, 40) * gen.rand_prime(rng, 42)
            yield Case(f"cli {prof} 60 --verbose silent --mode {mode} {n}", k=False, tag="cli/small", profiles=["release"], timeout=90)
        for n, what in big:
            yield Case(f"cli {prof} 120 --verbose silent {n}", k=False, tag="cli/" + what, profiles=["release"], timeout=150)
        for junk in ("abc", "-5", "12x", "0x10", "1e5", "--mode", "--mode zzz 15", "--threads x 15", "--verbose loud 15"):
            yield Case(f"cli {prof} 20 {junk}", k=False, tag="cli/junk", profiles=["release"], timeout=40)


def cli_oracle(case, ans):
    if case.op == "cli_build":
        return None if ans == "ok" else f"the command-line program does not build: {ans}"
    kv = dict(x.split("=", 1) for x in ans.split()) if ans.startswith("exit=") else None
    if kv is None:
        return f"no answer from the child process ({ans})"
    err, code = kv["err"], kv["exit"]
    if err.startswith("panic:") or err == "timeout" or code.startswith("sig"):
        return f"ymqs crashed or hung: exit={code} {err}"
    what = case.tag.split("/")[1]
    if what == "junk":
        # anything but a crash inside the library: refusing (non-zero exit) or printing usage is the program's choice
        return None
    n = int(case.args[-1])
    if what in ("small", "prime500", "composite500"):
        if code != "0" or err != "-":
            return f"ymqs failed on a supported input: exit={code} err={err}"
        if n == 1:
            return None if kv["out"] == "-" else f"factors of 1: {kv['out']}"
        fs = [int(x) for x in kv["out"].split(",")]
        if fc.prod(fs) != n:
            return f"printed factors {fs} do not multiply to n"
        if n > 1 and what == "small" and not all(gen.is_prime(f) for f in fs):
            return f"printed a composite factor in automatic/forced mode on a small input: {fs}"
        return None
    # above the supported size: a refusal (its own size message, a parse refusal above 1024 bits, or the declared failure)
    if code == "0":
        return f"input of {n.bit_length()} bits was processed: {kv['out'][:80]}"
    if err not in ("refused-size", "refused-parse", "failure"):
        return f"input of {n.bit_length()} bits: exit={code} err={err}"
    return None


def _fork(rng, label):
    """own stream for the boundary family: depends on the run's seed, leaves the stream of the older families untouched"""
    return random.Random(f"{label}:{rng.getstate()[1][:4]}")


MID_BITS = [64 * k + d for k in (3, 4, 5, 6, 7) for d in (-1, 0, 1)]


def exact_product(rng, bits, pbits):
    """p * q of exactly `bits` bits, p a prime of pbits bits"""
    while True:
        p = gen.rand_prime(rng, pbits)
        for qb in (bits - pbits, bits - pbits + 1):
            q = gen.rand_prime(rng, qb)
            if (p * q).bit_length() == bits:
                return p * q


def boundary_cases(rng, tier):
    """the word counts of ZmodN between the word-boundary family (<= 257 bits) and the near-limit family (>= 470 bits)"""
    for bits in MID_BITS:
        n = exact_product(rng, bits, rng.randint(40, 46))
        yield Case(f"factor {n} ecm", k=False, tag="mid-words", timeout=300)
        if bits % 64 == 1:
            yield Case(f"factor {n} auto", k=False, tag="mid-words", timeout=400)
            q = gen.rand_prime(rng, bits // 2 + 1)
            yield Case(f"factor {q * q} auto", k=False, tag="mid-words", timeout=120)
        p = gen.rand_prime(rng, bits)
        yield Case(f"factor {p} auto", k=False, tag="mid-words", timeout=120)


def cases(tier, rng, extended=False):
    yield from boundary_cases(_fork(rng, "C03-boundary"), tier)
    quick = tier == "quick"
    mult = 1 if quick else 6
    if extended:
        mult *= 4
    seen = set()
    yield from cli_cases(tier, rng)
    yield from q64.cases(tier, gen_fork(rng, "C03-qs64"), extended)
    yield from sq.cases(tier, gen_fork(rng, "C03-squfof"), extended)

    def emit(n, algs=None, tag="", timeout=None):
        for alg in (algs or selectors_for(n)):
            key = (n, alg)
            if key in seen:
                continue
            seen.add(key)
            yield Case(f"factor {n} {alg}", k=False, tag=tag, timeout=timeout)

    for n in range(0, 301):
        yield from emit(n, tag="0..300")
    # products of 2-4 primes just above 199
    for _ in range(40 * mult):
        k = rng.choice([2, 2, 3, 4])
        n = fc.prod(rng.choice(P200) for _ in range(k))
        yield from emit(n, tag="above199")
    for _ in range(40 * mult):
        bits = rng.randint(15, 40)
        n = rng.getrandbits(bits) | (1 << (bits - 1)) | 1
        yield from emit(n, tag="15-40bit")
    for bits in range(41, 65):
        for _ in range(mult):
            p = gen.rand_prime(rng, bits // 2)
            q = gen.rand_prime(rng, bits - bits // 2)
            n = p * q
            algs = [a for a in selectors_for(n) if not (a == "pm1" and bits > 56)]
            yield from emit(n, algs, tag="41-64bit")
    # 65..128-bit inputs with a small factor: the 128-bit ECM / Montgomery code on every top-word shape
    for bits in list(range(65, 120, 5 if quick else 2)) + list(range(120, 129)):
        for _ in range(2 if bits >= 120 else 1):
            pb = rng.randint(24, 40)
            n = gen.rand_prime(rng, pb) * gen.rand_prime(rng, bits - pb)
            if n.bit_length() != bits:
                n = gen.rand_prime(rng, pb) * gen.rand_prime(rng, bits - pb + 1)
            yield from emit(n, ["auto", "ecm128", "ecm"], tag="65-128bit")
    for d1, d2 in ((59, 83), (59, 59), (83, 95), (179, 189)):
        yield from emit(((1 << 64) - d1) * ((1 << 64) - d2), ["auto", "ecm128"], tag="65-128bit", timeout=120)
    # word boundaries: keep only inputs that finish quickly (prime, or small factors times a prime)
    for base in (1 << 64, 1 << 128, (1 << 192) - 1, (1 << 256)):
        for d in range(-40, 41):
            n = base + d
            if n < 2:
                continue
            red = n
            for p in fc.SMALL_PRIMES:
                while red % p == 0:
                    red //= p
            easy = red == 1 or gen.is_prime(red) or red.bit_length() <= 64
            if not easy:
                continue
            algs = [a for a in selectors_for(n) if a in ("auto", "rho", "squfof", "qs64", "ecm128", "siqs")]
            if red.bit_length() > 64:
                algs = [a for a in algs if a in ("auto", "siqs", "ecm128")]
            yield from emit(n, algs, tag="word-boundary")
    # near the size limit and above it
    for bits in (480, 490, 495, 499, 500):
        p = gen.rand_prime(rng, bits)
        yield from emit(p, ["auto", "siqs", "ecm", "pm1"], tag="near-limit", timeout=120)
        q = gen.rand_prime(rng, bits // 2)
        yield from emit(q * q, ["auto", "siqs"], tag="near-limit", timeout=120)
        r = gen.rand_prime(rng, bits - 12)
        yield from emit(r * 211 * 2 * 3, ["auto"], tag="near-limit", timeout=120)
    # near-limit composites with a small factor: ECM (modular inversions on ~500-bit moduli) in both profiles;
    # Auto once (P-1 with its largest hard-wired bounds takes most of a minute)
    for i, bits in enumerate((470, 485, 495, 499, 500) if quick else (470, 480, 485, 490, 495, 498, 499, 500, 500)):
        p = gen.rand_prime(rng, rng.randint(24, 40))
        q = gen.rand_prime(rng, bits - p.bit_length())
        n = p * q
        if n.bit_length() > 500:
            continue
        yield from emit(n, ["ecm"], tag="near-limit", timeout=300)
        if bits == 495 or (not quick and i % 3 == 0):
            for c in emit(n, ["auto"], tag="near-limit", timeout=400):
                c.profiles = ["chk"] if quick else None
                yield c
    for bits in (501, 502, 505, 510, 511, 512, 513, 520, 600, 1000, 1024):
        n = (1 << (bits - 1)) + rng.getrandbits(bits - 2) * 2 + 1
        yield from emit(n, ["auto", "siqs", "ecm", "pm1", "qs", "mpqs"], tag="above-limit")
        yield from emit(1 << (bits - 1), ["auto"], tag="above-limit")
    yield from emit((1 << 1024) - 1, ["auto", "siqs"], tag="above-limit")


def oracle(case, ans):
    if case.op in q64.OPS:
        return q64.oracle(case, ans)
    if case.op in sq.OPS:
        return sq.oracle(case, ans)
    if case.op in ("cli", "cli_build"):
        return cli_oracle(case, ans)
    kind = fc.parse_answer(ans)[0]
    if kind in ("ok", "failure"):
        if case.tag == "above-limit" and kind != "failure":
            return f"input above 500 bits was not refused ({kind})"
        return None
    return f"factor() did not return: {kind}"


def finding_key(case, ans, profile):
    if case.op in q64.OPS or case.op in sq.OPS:
        return None
    if case.op in ("cli", "cli_build"):
        return None
    kind = fc.parse_answer(ans)[0]
    n, alg = int(case.args[0]), case.args[1]
    if kind == "panic" and alg == "qs" and n == U8_ACC_N and profile == "chk":
        return "sieve-u8-log-accumulator-overflow"
    return None


def followup(case, ans):
    # replay also crashing runs: tells whether the model (lib.rs control flow) predicts the panic
    if case.op in q64.OPS:
        return q64.followup(case, ans)
    if case.op in sq.OPS:
        return None
    if case.op in ("cli", "cli_build"):
        return None
    kind, fs, trace, md = fc.parse_answer(ans)
    if trace is None:
        return None
    exp = fc.res_field(ans)
    # version 3 of the closed theorems: the recorded answers of perfect_power and rho are re-asked to their whole-function
    # MODELS (premises PerfectPowerModel / RhoModel), on crashing runs too
    extra = rh.model_followups(trace)
    if kind == "panic":
        return extra or None
    return [(f"factor_replay {case.args[0]} {case.args[1]} {trace}", exp)] + extra


def klass(case, ans):
    if case.op in q64.OPS:
        return q64.klass(case, ans)
    if case.op in sq.OPS:
        return sq.klass(case, ans)
    if case.op in ("cli", "cli_build"):
        return f"{case.tag}/{case.args[0]}/{ans.split(' err=')[-1] if ' err=' in ans else ans}"
    return f"{case.args[1]}/{case.tag}/{fc.parse_answer(ans)[0]}"


def nontrivial(case, ans):
    if case.op in q64.OPS:
        return q64.nontrivial(case, ans)
    if case.op in sq.OPS:
        return sq.nontrivial(case, ans)
    if case.op in ("cli", "cli_build"):
        return case.op == "cli"
    return int(case.args[0]) > 3


CLAIM = ("Lean theorem: under the sub-algorithm contracts and the selector size preconditions the modelled control flow of factor() never "
         "reaches an assertion, unreachable!() or division by zero and never recurses without decrease (fuel bound), for all ten selectors "
         "(the Rho selector's fall-through into unreachable!() was a real panic, repaired in 21688e6). Crashes inside "
         "sub-algorithms, stack exhaustion and hangs cannot be exhibited by the model: they are explored by running the real entry point "
         "in both build profiles under catch_unwind and a watchdog on boundary inputs, and the shipped command-line program ymqs as a "
         "child process (argument handling, parsing, its size guard, exit status). PARTIAL.")
LEVEL_NOTE = ("Trusted: Lean kernel (+3 standard axioms); trace-replay correspondence; the exploration half is testing, labelled as such. "
              "Recorded crashes are listed in known_findings.json by selector and input class.")
TECHNIQUE = "Lean 4 proof of unreachability of modelled panic sites + both-profile exploration with watchdog"


def corpus_case(line):
    # `!chk <request>`: only in the checked profile (e.g. a recorded overflow that release builds wrap silently)
    if line.startswith("!chk "):
        return Case(line[5:], k=False, tag="corpus", profiles=["chk"], timeout=180)
    return Case(line, k=False, tag="corpus")


# ---- qsieve64 inside the model (props/c03_qs64.py)
CLAIM = CLAIM + (" || Two sub-algorithms are inside the model end to end: qsieve64::qsieve (11 theorems, Props/C03Qs64.lean: every relation handed to "
                 "final_step is a congruence; no panic site BEFORE the call of final_step for every n factor() can pass; a returned pair is a proper split; "
                 "no-panic of final_step itself on these relations is K/O only) and squfof::squfof (11 theorems, Props/C03Squfof.lean: no panic for EVERY n "
                 "and every admissible f64 seed (named hypothesis SeedOK) after fix f24afb6; sound; proper split except the primes <= 47).")
MODELLED = list(MODELLED) + list(q64.MODELLED) + list(sq.MODELLED)
UNMODELLED = list(UNMODELLED) + list(q64.UNMODELLED) + list(sq.UNMODELLED)
RULE = RULE + " || " + q64.RULE + " || " + sq.RULE
HYPOTHESES = list(HYPOTHESES) + list(sq.HYPOTHESES)
