/-
C14 "small", helper lemmas part 1 (core only): `lz` (= trailing_zeros), `ofBits`, pointwise access to
lists of row pairs (`rowAt`), `swapAt`, `position`.
-/
import Ymq.Model.Gf2Small
namespace Ymq.Gf2Small

/-! ### lz -/

theorem lzFrom_spec (f k w : Nat) :
    k ≤ lzFrom f k w ∧ lzFrom f k w ≤ k + f ∧
    (∀ t, k ≤ t → t < lzFrom f k w → w.testBit t = false) ∧
    (lzFrom f k w < k + f → w.testBit (lzFrom f k w) = true) := by
  induction f generalizing k with
  | zero => simp only [lzFrom]; exact ⟨Nat.le_refl _, Nat.le_refl _, fun t h1 h2 => by omega, fun h => by omega⟩
  | succ f ih =>
    unfold lzFrom
    by_cases h : w.testBit k = true
    · rw [if_pos h]
      exact ⟨Nat.le_refl _, by omega, fun t h1 h2 => by omega, fun _ => h⟩
    · simp only [h, Bool.false_eq_true, if_false]
      obtain ⟨h1, h2, h3, h4⟩ := ih (k + 1)
      refine ⟨by omega, by omega, ?_, fun hlt => h4 (by omega)⟩
      intro t ht1 ht2
      by_cases htk : t = k
      · subst htk; simpa using h
      · exact h3 t (by omega) ht2

theorem lz_le (n w : Nat) : lz n w ≤ n := by
  have := (lzFrom_spec n 0 w).2.1; simpa [lz] using this

theorem lz_below {n w t : Nat} (h : t < lz n w) : w.testBit t = false :=
  (lzFrom_spec n 0 w).2.2.1 t (Nat.zero_le _) h

theorem lz_bit {n w : Nat} (h : lz n w < n) : w.testBit (lz n w) = true :=
  (lzFrom_spec n 0 w).2.2.2 (by simpa [lz] using h)

theorem lz_le_of_testBit {n w i : Nat} (h : w.testBit i = true) : lz n w ≤ i := by
  apply Nat.le_of_not_lt
  intro hlt
  rw [lz_below hlt] at h; cases h

theorem lz_eq_of {n w i : Nat} (hi : i < n) (hb : w.testBit i = true) (hlow : ∀ t, t < i → w.testBit t = false) :
    lz n w = i := by
  have h1 := lz_le_of_testBit (n := n) hb
  rcases Nat.lt_or_ge (lz n w) i with h | h
  · have := lz_bit (n := n) (w := w) (by omega)
    rw [hlow _ h] at this; cases this
  · omega

theorem lz_eq_iff {n w i : Nat} (hi : i < n) :
    lz n w = i ↔ w.testBit i = true ∧ ∀ t, t < i → w.testBit t = false :=
  ⟨fun h => ⟨by have := lz_bit (n := n) (w := w) (by omega); rwa [h] at this,
    fun t ht => lz_below (n := n) (by omega)⟩, fun ⟨h1, h2⟩ => lz_eq_of hi h1 h2⟩

theorem lz_eq_n_iff {n w : Nat} : lz n w = n ↔ ∀ t, t < n → w.testBit t = false := by
  constructor
  · intro h t ht; exact lz_below (n := n) (by omega)
  · intro h
    rcases Nat.lt_or_ge (lz n w) n with hl | hl
    · have := lz_bit hl; rw [h _ hl] at this; cases this
    · have := lz_le n w; omega

theorem eq_zero_of_lz {n w : Nat} (hw : w < 2 ^ n) (h : lz n w = n) : w = 0 := by
  apply Nat.eq_of_testBit_eq
  intro i
  rw [Nat.zero_testBit]
  by_cases hi : i < n
  · exact lz_eq_n_iff.mp h i hi
  · exact Nat.testBit_lt_two_pow (Nat.lt_of_lt_of_le hw (Nat.pow_le_pow_right (by omega) (by omega)))

theorem lz_zero (n : Nat) : lz n 0 = n := lz_eq_n_iff.mpr (fun _ _ => Nat.zero_testBit _)

/-! ### ofBits -/

theorem testBit_ofBits (k : Nat) (f : Nat → Bool) (j : Nat) :
    (ofBits k f).testBit j = (decide (j < k) && f j) := by
  induction k with
  | zero => simp [ofBits]
  | succ k ih =>
    unfold ofBits
    by_cases hf : f k = true
    · simp only [hf, if_true, Nat.testBit_or, ih, Nat.one_shiftLeft, Nat.testBit_two_pow]
      by_cases hjk : j = k
      · subst hjk; simp [hf]
      · by_cases hlt : j < k
        · have : j < k + 1 := by omega
          have h2 : ¬ k = j := fun h => hjk h.symm
          simp [hlt, this, h2]
        · have h1 : ¬ j < k + 1 := by omega
          have h2 : ¬ k = j := fun h => hjk h.symm
          simp [hlt, h1, h2]
    · simp only [hf, Bool.false_eq_true, if_false, ih]
      by_cases hjk : j = k
      · subst hjk; simp [hf]
      · by_cases hlt : j < k
        · have : j < k + 1 := by omega
          simp [hlt, this]
        · have h1 : ¬ j < k + 1 := by omega
          simp [hlt, h1]

theorem ofBits_lt (k : Nat) (f : Nat → Bool) : ofBits k f < 2 ^ k := by
  apply Nat.lt_pow_two_of_testBit
  intro i hi
  rw [testBit_ofBits]
  have : ¬ i < k := by omega
  simp [this]

/-! ### pointwise access -/

/-- `rows[k]` with a default -/
def rowAt (rows : Rows) (k : Nat) : Nat × Nat := rows.getD k (0, 0)

theorem rowAt_eq_getElem {rows : Rows} {k : Nat} (h : k < rows.length) : rowAt rows k = rows[k] := by
  simp [rowAt, List.getD_eq_getElem?_getD, List.getElem?_eq_getElem h]

theorem rowAt_of_ge {rows : Rows} {k : Nat} (h : rows.length ≤ k) : rowAt rows k = (0, 0) := by
  simp [rowAt, List.getD_eq_getElem?_getD, List.getElem?_eq_none h]

theorem length_swapAt {α} (l : List α) (a b : Nat) : (swapAt l a b).length = l.length := by
  unfold swapAt
  split <;> simp

theorem rowAt_swapAt {rows : Rows} {a b : Nat} (ha : a < rows.length) (hb : b < rows.length) (k : Nat) :
    rowAt (swapAt rows a b) k = if k = b then rowAt rows a else if k = a then rowAt rows b else rowAt rows k := by
  unfold swapAt
  rw [List.getElem?_eq_getElem ha, List.getElem?_eq_getElem hb]
  simp only [rowAt, List.getD_eq_getElem?_getD, List.getElem?_set, List.length_set]
  by_cases h1 : k = b
  · subst h1; simp [hb, List.getElem?_eq_getElem ha]
  · by_cases h2 : k = a
    · subst h2
      have : ¬ b = k := fun h => h1 h.symm
      simp [this, ha, h1, List.getElem?_eq_getElem hb]
    · have h3 : ¬ b = k := fun h => h1 h.symm
      have h4 : ¬ a = k := fun h => h2 h.symm
      simp [h1, h2, h3, h4]

theorem rowAt_mapIdx {rows : Rows} (f : Nat → Nat × Nat → Nat × Nat) {k : Nat} (h : k < rows.length) :
    rowAt (rows.mapIdx f) k = f k (rowAt rows k) := by
  simp [rowAt, List.getD_eq_getElem?_getD, List.getElem?_mapIdx, List.getElem?_eq_getElem h]

theorem rowAt_map_range (n : Nat) (f : Nat → Nat × Nat) {k : Nat} (h : k < n) :
    rowAt ((List.range n).map f) k = f k := by
  simp [rowAt, List.getD_eq_getElem?_getD, List.getElem?_map, List.getElem?_range h]

theorem row_map_range (n : Nat) (f : Nat → Nat) {k : Nat} (h : k < n) :
    row ((List.range n).map f) k = f k := by
  simp [row, List.getD_eq_getElem?_getD, List.getElem?_map, List.getElem?_range h]

theorem row_of_ge {m : Mat} {k : Nat} (h : m.length ≤ k) : row m k = 0 := by
  simp [row, List.getD_eq_getElem?_getD, List.getElem?_eq_none h]

theorem row_map_snd (rows : Rows) (k : Nat) : row (rows.map (·.2)) k = (rowAt rows k).2 := by
  simp only [row, rowAt, List.getD_eq_getElem?_getD, List.getElem?_map]
  cases rows[k]? <;> rfl

/-! ### position -/

theorem position_some {n i : Nat} {rows : Rows} {j : Nat} (h : position n i rows = some j) :
    j < rows.length ∧ lz n (rowAt rows j).1 = i ∧ ∀ k, k < j → lz n (rowAt rows k).1 ≠ i := by
  unfold position at h
  rw [List.findIdx?_eq_some_iff_getElem] at h
  obtain ⟨hj, h1, h2⟩ := h
  refine ⟨hj, ?_, ?_⟩
  · rw [rowAt_eq_getElem hj]; simpa using h1
  · intro k hk
    rw [rowAt_eq_getElem (by omega)]
    simpa using h2 k hk

theorem position_none {n i : Nat} {rows : Rows} (h : position n i rows = none) :
    ∀ k, k < rows.length → lz n (rowAt rows k).1 ≠ i := by
  unfold position at h
  rw [List.findIdx?_eq_none_iff] at h
  intro k hk
  rw [rowAt_eq_getElem hk]
  simpa using h rows[k] (List.getElem_mem hk)

theorem position_isSome {n i : Nat} {rows : Rows} {k : Nat} (hk : k < rows.length)
    (h : lz n (rowAt rows k).1 = i) : ∃ j, position n i rows = some j := by
  cases hp : position n i rows with
  | some j => exact ⟨j, rfl⟩
  | none => exact absurd h (position_none hp k hk)

end Ymq.Gf2Small
