/-
The permutation-sign loop of `GFpEchelonBuilder::det` (src/matrix/intdense.rs): the number of swaps
counted by the cycle walk has the parity of the permutation (`Equiv.Perm.sign`).
Model: `Ymq.IntMat.cycleWalk` / `permSwaps` in Ymq/Model/IntMat.lean.
-/
import Ymq.Model.IntMat
import Mathlib.GroupTheory.Perm.Sign

namespace Ymq.IntMat

variable {n : Nat}

/-- the index vector of a permutation of `0..n-1` -/
def permList (τ : Equiv.Perm (Fin n)) : List Nat := List.ofFn (fun k : Fin n => (τ k : Nat))

theorem permList_length (τ : Equiv.Perm (Fin n)) : (permList τ).length = n := by
  simp [permList]

theorem permList_getElem? (τ : Equiv.Perm (Fin n)) (i : Nat) (hi : i < n) :
    (permList τ)[i]? = some ((τ ⟨i, hi⟩ : Fin n) : Nat) := by
  simp [permList, List.getElem?_ofFn, hi]

/-- `ind.swap(i, j)` composes the permutation with the transposition `(i j)` -/
theorem swapIdx_permList (τ : Equiv.Perm (Fin n)) (i j : Fin n) :
    swapIdx (permList τ) i j = some (permList (τ * Equiv.swap i j)) := by
  unfold swapIdx
  rw [permList_getElem? τ i i.2, permList_getElem? τ j j.2]
  simp only [Fin.eta]
  congr 1
  apply List.ext_getElem
  · simp [permList]
  · intro k h1 h2
    have hk : k < n := by simpa [permList] using h2
    simp only [permList, List.getElem_set, List.getElem_ofFn, Equiv.Perm.coe_mul, Function.comp_apply]
    by_cases hkj : (j : Nat) = k
    · have : (⟨k, hk⟩ : Fin n) = j := Fin.ext hkj.symm
      simp [hkj, this]
    · by_cases hki : (i : Nat) = k
      · have : (⟨k, hk⟩ : Fin n) = i := Fin.ext hki.symm
        simp [hkj, hki, this]
      · have h1 : (⟨k, hk⟩ : Fin n) ≠ i := fun h => hki (by rw [← h])
        have h2 : (⟨k, hk⟩ : Fin n) ≠ j := fun h => hkj (by rw [← h])
        simp [hkj, hki, Equiv.swap_apply_of_ne_of_ne h1 h2]

/-- number of points moved by `τ` -/
def moved (τ : Equiv.Perm (Fin n)) : Nat := (Finset.univ.filter (fun k => τ k ≠ k)).card

theorem moved_le (τ : Equiv.Perm (Fin n)) : moved τ ≤ n := by
  unfold moved
  calc _ ≤ (Finset.univ : Finset (Fin n)).card := Finset.card_filter_le _ _
    _ = n := by simp

/-- one swap of the cycle walk fixes the point `j = τ i` and moves nothing new -/
theorem moved_swap_lt (τ : Equiv.Perm (Fin n)) (i : Fin n) (h : τ i ≠ i) :
    moved (τ * Equiv.swap i (τ i)) < moved τ := by
  unfold moved
  have hmem : τ i ∈ Finset.univ.filter (fun k => τ k ≠ k) := by
    rw [Finset.mem_filter]
    exact ⟨Finset.mem_univ _, fun h2 => h (τ.injective h2)⟩
  have hsub : (Finset.univ.filter (fun k => (τ * Equiv.swap i (τ i)) k ≠ k)) ⊆
      (Finset.univ.filter (fun k => τ k ≠ k)).erase (τ i) := by
    intro k hk
    rw [Finset.mem_filter] at hk
    have hk' : τ (Equiv.swap i (τ i) k) ≠ k := hk.2
    rw [Finset.mem_erase, Finset.mem_filter]
    by_cases hki : k = i
    · subst hki
      exact ⟨Ne.symm h, Finset.mem_univ _, h⟩
    · by_cases hkj : k = τ i
      · subst hkj
        rw [Equiv.swap_apply_right] at hk'
        exact absurd rfl hk'
      · rw [Equiv.swap_apply_of_ne_of_ne hki hkj] at hk'
        exact ⟨hkj, Finset.mem_univ _, hk'⟩
  calc _ ≤ ((Finset.univ.filter (fun k => τ k ≠ k)).erase (τ i)).card := Finset.card_le_card hsub
    _ < _ := Finset.card_erase_lt_of_mem hmem

/-- invariant of the flattened loop -/
theorem cycleWalk_spec : ∀ (fuel i : Nat) (τ : Equiv.Perm (Fin n)) (swaps : Nat), i ≤ n →
    (∀ k : Fin n, (k : Nat) < i → τ k = k) → (n - i) + moved τ + 1 ≤ fuel →
    ∃ r, cycleWalk fuel i (permList τ) swaps = some r ∧
      (-1 : ℤˣ) ^ r = (-1 : ℤˣ) ^ swaps * Equiv.Perm.sign τ
  | 0, _, _, _, _, _, hf => by omega
  | fuel + 1, i, τ, swaps, hi, hfix, hf => by
    unfold cycleWalk
    rw [permList_length]
    by_cases hin : n ≤ i
    · rw [if_pos hin]
      have hτ : τ = 1 := by
        ext k
        have := hfix k (by omega)
        simp [this]
      exact ⟨swaps, rfl, by simp [hτ]⟩
    · rw [if_neg hin]
      have hi' : i < n := by omega
      rw [permList_getElem? τ i hi']
      simp only []
      by_cases hj : ((τ ⟨i, hi'⟩ : Fin n) : Nat) = i
      · rw [if_pos hj]
        have hfixi : τ ⟨i, hi'⟩ = ⟨i, hi'⟩ := Fin.ext hj
        apply cycleWalk_spec fuel (i + 1) τ swaps (by omega)
        · intro k hk
          by_cases hki : (k : Nat) = i
          · have : k = ⟨i, hi'⟩ := Fin.ext hki
            rw [this]; exact hfixi
          · exact hfix k (by omega)
        · omega
      · rw [if_neg hj]
        have hne : τ ⟨i, hi'⟩ ≠ ⟨i, hi'⟩ := fun h => hj (by rw [h])
        have hsw := swapIdx_permList τ ⟨i, hi'⟩ (τ ⟨i, hi'⟩)
        simp only [] at hsw
        rw [hsw]
        simp only []
        have hlt := moved_swap_lt τ ⟨i, hi'⟩ hne
        obtain ⟨r, hr1, hr2⟩ := cycleWalk_spec fuel i (τ * Equiv.swap ⟨i, hi'⟩ (τ ⟨i, hi'⟩)) (swaps + 1) hi
          (by
            intro k hk
            have hk1 : k ≠ ⟨i, hi'⟩ := fun h => by rw [h] at hk; simp at hk
            have hk2 : k ≠ τ ⟨i, hi'⟩ := by
              intro h
              have : τ k = τ ⟨i, hi'⟩ := by rw [hfix k hk]; exact h
              exact hk1 (τ.injective this)
            simp [Equiv.swap_apply_of_ne_of_ne hk1 hk2, hfix k hk])
          (by omega)
        refine ⟨r, hr1, ?_⟩
        rw [hr2, Equiv.Perm.sign_mul, Equiv.Perm.sign_swap (Ne.symm hne), pow_succ]
        simp [mul_comm, mul_left_comm]

end Ymq.IntMat
