/-
The sign convention of the class group relations (Ymq/Model/ClassGroup.lean):
the normalised root `b` of a prime `p` (`0 ≤ b ≤ p`, `b ≡ D (mod 2)`, `b² ≡ D (mod 4p)`) is unique,
`Prime::b_plus` computes it, and the sign decision of `sieve_block_poly` is total.
-/
import Ymq.Model.ClassGroup
import Mathlib.Data.Nat.Prime.Basic
import Mathlib.RingTheory.Int.Basic
import Mathlib.RingTheory.Coprime.Basic
import Mathlib.Tactic.Linarith
import Mathlib.Tactic.Ring
import Mathlib.Tactic.IntervalCases

namespace Ymq.ClassGroup

/-- `b` is the normalised root of the prime form of norm `p` for the discriminant `D` -/
def IsBPlus (D : Int) (p b : Nat) : Prop :=
  b ≤ p ∧ (2 : Int) ∣ (b : Int) - D ∧ (4 * (p : Int)) ∣ (b : Int) * b - D

theorem isBPlus_iff (D : Int) (p b : Nat) : isBPlus D p b = true ↔ IsBPlus D p b := by
  unfold isBPlus IsBPlus
  simp only [Bool.and_eq_true, decide_eq_true_eq]
  constructor
  · rintro ⟨⟨h1, h2⟩, h3⟩
    exact ⟨h1, Int.dvd_of_emod_eq_zero h2, Int.dvd_of_emod_eq_zero h3⟩
  · rintro ⟨h1, h2, h3⟩
    exact ⟨⟨h1, Int.emod_eq_zero_of_dvd h2⟩, Int.emod_eq_zero_of_dvd h3⟩

/-- a multiple of `p` of absolute value at most `p` is `-p`, `0` or `p` -/
theorem dvd_small {p : Nat} {x : Int} (hp : 0 < p) (hd : (p : Int) ∣ x) (h1 : -(p : Int) ≤ x)
    (h2 : x ≤ p) : x = -(p : Int) ∨ x = 0 ∨ x = p := by
  obtain ⟨c, rfl⟩ := hd
  have hp' : (0 : Int) < p := by exact_mod_cast hp
  have hc1 : -1 ≤ c := by nlinarith
  have hc2 : c ≤ 1 := by nlinarith
  have : c = -1 ∨ c = 0 ∨ c = 1 := by omega
  rcases this with rfl | rfl | rfl
  · left; ring
  · right; left; ring
  · right; right; ring

/-- a multiple of `p` in `[0, 2p]` is `0`, `p` or `2p` -/
theorem dvd_small2 {p : Nat} {x : Int} (hp : 0 < p) (hd : (p : Int) ∣ x) (h1 : 0 ≤ x)
    (h2 : x ≤ 2 * p) : x = 0 ∨ x = p ∨ x = 2 * (p : Int) := by
  obtain ⟨c, rfl⟩ := hd
  have hp' : (0 : Int) < p := by exact_mod_cast hp
  have hc1 : 0 ≤ c := by nlinarith
  have hc2 : c ≤ 2 := by nlinarith
  have : c = 0 ∨ c = 1 ∨ c = 2 := by omega
  rcases this with rfl | rfl | rfl
  · left; ring
  · right; left; ring
  · right; right; ring

/-- the normalised root is unique (every prime `p`, every `D`) -/
theorem isBPlus_unique {D : Int} {p b b' : Nat} (hp : p.Prime) (h : IsBPlus D p b)
    (h' : IsBPlus D p b') : b = b' := by
  obtain ⟨hb, h2, h4⟩ := h
  obtain ⟨hb', h2', h4'⟩ := h'
  have hpos : 0 < p := hp.pos
  -- parity
  have hpar : (2 : Int) ∣ (b : Int) - b' := by
    have := Int.dvd_sub h2 h2'
    have e : (b : Int) - D - ((b' : Int) - D) = (b : Int) - b' := by ring
    rwa [e] at this
  -- 4p | b^2 - b'^2
  have hsq : (4 * (p : Int)) ∣ ((b : Int) - b') * ((b : Int) + b') := by
    have := Int.dvd_sub h4 h4'
    have e : (b : Int) * b - D - ((b' : Int) * b' - D) = ((b : Int) - b') * ((b : Int) + b') := by ring
    rwa [e] at this
  by_cases hp2 : p = 2
  · subst hp2
    have hbb : b ≤ 2 := hb
    have hbb' : b' ≤ 2 := hb'
    obtain ⟨k, hk⟩ := hsq
    obtain ⟨j, hj⟩ := hpar
    interval_cases b <;> interval_cases b' <;> simp at hk hj ⊢ <;> omega
  · have hodd : p % 2 = 1 := by
      rcases hp.eq_two_or_odd with h | h
      · exact absurd h hp2
      · exact h
    have hpd : (p : Int) ∣ ((b : Int) - b') * ((b : Int) + b') :=
      Dvd.dvd.trans (Dvd.intro_left 4 rfl) hsq
    obtain ⟨j, hj⟩ := hpar
    rcases Int.Prime.dvd_mul' hp hpd with hd | hd
    · rcases dvd_small hpos hd (by omega) (by omega) with h | h | h <;> omega
    · rcases dvd_small2 hpos hd (by omega) (by omega) with h | h | h <;> omega

/-- `4 ∣ x` and `p ∣ x` give `4p ∣ x` for an odd `p` -/
theorem four_mul_dvd {p : Nat} {x : Int} (hodd : p % 2 = 1) (h4 : (4 : Int) ∣ x) (hp : (p : Int) ∣ x) :
    (4 * (p : Int)) ∣ x := by
  apply IsCoprime.mul_dvd _ h4 hp
  -- explicit Bezout relation
  have : p % 4 = 1 ∨ p % 4 = 3 := by omega
  rcases this with h | h
  · refine ⟨-((p / 4 : Nat) : Int), 1, ?_⟩
    have : (p : Int) = 4 * ((p / 4 : Nat) : Int) + 1 := by omega
    linarith
  · refine ⟨((p / 4 : Nat) : Int) + 1, -1, ?_⟩
    have : (p : Int) = 4 * ((p / 4 : Nat) : Int) + 3 := by omega
    linarith

/-- `Prime::b_plus(false)`: odd discriminant `D ≡ 1 (mod 4)`, `r² ≡ D (mod p)`, `p` odd -/
theorem bPlus_odd {D : Int} {p r : Nat} (hodd : p % 2 = 1) (hr : r < p) (hD : D % 4 = 1)
    (hroot : (p : Int) ∣ (r : Int) * r - D) :
    ∃ b, bPlus p r false = some b ∧ IsBPlus D p b := by
  unfold bPlus
  simp only [Bool.false_eq_true, if_false]
  by_cases hpar : r % 2 = 1
  · refine ⟨r, by simp [hpar], by omega, ?_, ?_⟩
    · omega
    · apply four_mul_dvd hodd _ hroot
      obtain ⟨k, hk⟩ : ∃ k : Int, (r : Int) = 2 * k + 1 := ⟨(r / 2 : Nat), by omega⟩
      obtain ⟨m, hm⟩ : ∃ m : Int, D = 4 * m + 1 := ⟨D / 4, by omega⟩
      refine ⟨k * k + k - m, ?_⟩
      rw [hk, hm]; ring
  · refine ⟨p - r, by simp [hpar, Nat.le_of_lt hr], by omega, ?_, ?_⟩
    · omega
    · have hcast : ((p - r : Nat) : Int) = (p : Int) - r := by omega
      rw [hcast]
      apply four_mul_dvd hodd
      · obtain ⟨k, hk⟩ : ∃ k : Int, (p : Int) - r = 2 * k + 1 := ⟨((p - r) / 2 : Nat), by omega⟩
        obtain ⟨m, hm⟩ : ∃ m : Int, D = 4 * m + 1 := ⟨D / 4, by omega⟩
        refine ⟨k * k + k - m, ?_⟩
        rw [hk, hm]; ring
      · obtain ⟨c, hc⟩ := hroot
        refine ⟨(p : Int) - 2 * r + c, ?_⟩
        have : ((p : Int) - r) * ((p : Int) - r) - D = (p : Int) * ((p : Int) - 2 * r) + ((r : Int) * r - D) := by ring
        rw [this, hc]; ring

/-- `Prime::b_plus(true)`: discriminant `4 N`, the prime was initialised with `N`: `r² ≡ N (mod p)` -/
theorem bPlus_even {N : Int} {p r : Nat} (hodd : p % 2 = 1)
    (hroot : (p : Int) ∣ (r : Int) * r - N) :
    ∃ b, bPlus p r true = some b ∧ IsBPlus (4 * N) p b := by
  unfold bPlus
  simp only [if_true]
  have hp : 0 < p := by omega
  have hlt : 2 * r % p < p := Nat.mod_lt _ hp
  -- 2r mod p ≡ 2r (mod p)
  have hmod : (p : Int) ∣ ((2 * r % p : Nat) : Int) - 2 * r := by
    refine ⟨-((2 * r / p : Nat) : Int), ?_⟩
    have := Nat.div_add_mod (2 * r) p
    have : ((p * (2 * r / p) + 2 * r % p : Nat) : Int) = ((2 * r : Nat) : Int) := by rw [this]
    push_cast at this ⊢
    linarith
  obtain ⟨c, hc⟩ := hroot
  obtain ⟨e, he⟩ := hmod
  by_cases hpar : 2 * r % p % 2 = 0
  · refine ⟨2 * r % p, by simp [hpar], Nat.le_of_lt hlt, ?_, ?_⟩
    · omega
    · apply four_mul_dvd hodd
      · obtain ⟨k, hk⟩ : ∃ k : Int, ((2 * r % p : Nat) : Int) = 2 * k := ⟨((2 * r % p) / 2 : Nat), by omega⟩
        exact ⟨k * k - N, by rw [hk]; ring⟩
      · -- (2r + pe)^2 - 4N = 4 (r^2 - N) + p (...)
        have hx : ((2 * r % p : Nat) : Int) = 2 * r + p * e := by linarith
        refine ⟨4 * c + 4 * r * e + p * e * e, ?_⟩
        rw [hx]
        have : (2 * (r : Int) + p * e) * (2 * r + p * e) - 4 * N = 4 * ((r : Int) * r - N) + p * (4 * r * e + p * e * e) := by ring
        rw [this, hc]; ring
  · refine ⟨p - 2 * r % p, by simp [hpar, Nat.le_of_lt hlt], by omega, ?_, ?_⟩
    · omega
    · have hcast : ((p - 2 * r % p : Nat) : Int) = (p : Int) - ((2 * r % p : Nat) : Int) := by omega
      rw [hcast]
      apply four_mul_dvd hodd
      · obtain ⟨k, hk⟩ : ∃ k : Int, (p : Int) - ((2 * r % p : Nat) : Int) = 2 * k :=
          ⟨((p - 2 * r % p) / 2 : Nat), by omega⟩
        exact ⟨k * k - N, by rw [hk]; ring⟩
      · have hx : ((2 * r % p : Nat) : Int) = 2 * r + p * e := by linarith
        refine ⟨4 * c + (1 - e) * (p * (1 - e) - 4 * r), ?_⟩
        rw [hx]
        have : ((p : Int) - (2 * r + p * e)) * ((p : Int) - (2 * r + p * e)) - 4 * N
            = 4 * ((r : Int) * r - N) + p * ((1 - e) * (p * (1 - e) - 4 * r)) := by ring
        rw [this, hc]; ring

/-! ### `bx mod p` -/

theorem modSigned_lt {bx : Int} {p : Nat} (hp : 0 < p) : modSigned bx p < p := by
  unfold modSigned
  have := Nat.mod_lt bx.natAbs hp
  simp only
  split <;> omega

/-- `modSigned bx p ≡ bx (mod p)` -/
theorem modSigned_dvd (bx : Int) {p : Nat} (hp : 0 < p) : (p : Int) ∣ bx - (modSigned bx p : Int) := by
  unfold modSigned
  simp only
  have hdm := Nat.div_add_mod bx.natAbs p
  have hdm' : (p : Int) * ((bx.natAbs / p : Nat) : Int) + ((bx.natAbs % p : Nat) : Int) = (bx.natAbs : Int) := by
    exact_mod_cast hdm
  have hlt := Nat.mod_lt bx.natAbs hp
  split
  · rename_i h
    have hneg : (bx.natAbs : Int) = -bx := by omega
    have hcast : ((p - bx.natAbs % p : Nat) : Int) = (p : Int) - ((bx.natAbs % p : Nat) : Int) := by omega
    refine ⟨-((bx.natAbs / p : Nat) : Int) - 1, ?_⟩
    rw [hcast]
    linarith
  · rename_i h
    by_cases hb : bx < 0
    · have h0 : bx.natAbs % p = 0 := by
        by_contra hne
        exact h ⟨hb, Nat.pos_of_ne_zero hne⟩
      have hneg : (bx.natAbs : Int) = -bx := by omega
      refine ⟨-((bx.natAbs / p : Nat) : Int), ?_⟩
      rw [h0] at hdm'
      rw [h0]
      simp only [Nat.cast_zero, add_zero, sub_zero] at hdm' ⊢
      linarith
    · have hpos : (bx.natAbs : Int) = bx := by omega
      refine ⟨((bx.natAbs / p : Nat) : Int), ?_⟩
      linarith

/-- Totality of the sign decision for an odd factor-base prime: whenever `p` divides the
polynomial value (so that `bx² ≡ D (mod p)`), `bx mod p` is `b_plus` or `p - b_plus`. -/
theorem modSigned_cases {D : Int} {p ref : Nat} {bx : Int} (hp : p.Prime) (href : IsBPlus D p ref)
    (hbx : (p : Int) ∣ bx * bx - D) :
    modSigned bx p = ref ∨ modSigned bx p = p - ref := by
  have hpos : 0 < p := hp.pos
  have hlt := modSigned_lt (bx := bx) hpos
  obtain ⟨c, hc⟩ := modSigned_dvd bx hpos
  obtain ⟨hr1, _, hr4⟩ := href
  have hrp : (p : Int) ∣ (ref : Int) * ref - D := Dvd.dvd.trans (Dvd.intro_left 4 rfl) hr4
  -- m² ≡ ref² (mod p)
  have hm : (p : Int) ∣ ((modSigned bx p : Int) - ref) * ((modSigned bx p : Int) + ref) := by
    have e : ((modSigned bx p : Int) - ref) * ((modSigned bx p : Int) + ref)
        = (bx * bx - D) - ((ref : Int) * ref - D) - (p : Int) * (c * (bx + modSigned bx p)) := by
      have : (modSigned bx p : Int) = bx - p * c := by linarith
      rw [this]; ring
    rw [e]
    exact Int.dvd_sub (Int.dvd_sub hbx hrp) (Dvd.intro _ rfl)
  rcases Int.Prime.dvd_mul' hp hm with hd | hd
  · rcases dvd_small hpos hd (by omega) (by omega) with h | h | h
    · right; omega
    · left; omega
    · omega
  · rcases dvd_small2 hpos hd (by omega) (by omega) with h | h | h
    · left; omega
    · right; omega
    · omega

/-- for an odd prime the two outcomes exclude each other -/
theorem ref_ne_compl {p ref : Nat} (hodd : p % 2 = 1) (_ : ref ≤ p) : ref ≠ p - ref := by omega

/-- The parity rule used for large primes is the same convention: the sign is `+`
exactly when `bx mod p` is the normalised root. (`type1` = even discriminant.) -/
theorem largeSign_iff {D : Int} {p ref : Nat} {bx : Int} {type1 : Bool} (hp : p.Prime) (hodd : p % 2 = 1)
    (href : IsBPlus D p ref) (hbx : (p : Int) ∣ bx * bx - D)
    (hty : type1 = true ↔ (2 : Int) ∣ D) :
    largeSign type1 bx p = 1 ↔ modSigned bx p = ref := by
  have hlt := modSigned_lt (bx := bx) hp.pos
  have hcases := modSigned_cases hp href hbx
  obtain ⟨hr1, hr2, _⟩ := href
  unfold largeSign
  simp only
  cases type1 with
  | true =>
    have hD : (2 : Int) ∣ D := hty.1 rfl
    have hre : ref % 2 = 0 := by omega
    simp only [if_true]
    constructor
    · intro h
      split at h
      · rcases hcases with hc | hc
        · exact hc
        · omega
      · simp at h
    · intro h
      rw [h, if_pos hre]
  | false =>
    have hD : ¬ (2 : Int) ∣ D := fun h => by simpa using hty.2 h
    have hre : ref % 2 = 1 := by omega
    simp only [Bool.false_eq_true, if_false]
    constructor
    · intro h
      split at h
      · rcases hcases with hc | hc
        · exact hc
        · omega
      · simp at h
    · intro h
      rw [h, if_pos hre]

end Ymq.ClassGroup
