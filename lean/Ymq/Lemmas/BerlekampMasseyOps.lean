/-
Abstract specification of the closures `mulp`, `dotp`, `invp`, `subp` (and of the final scaling
factor) of `berlekamp_massey` / `berlekamp_massey_big`, over `ZMod p`.

Stored words are residues `< p`; `κ` is the constant of the representation: `mulp(a, b) = κ·a·b`.
For the Montgomery closures `κ = 1/R` (`R = 2^64`), for the `%`-closures `κ = 1`.
The instances are proved in Ymq/Lemmas/BerlekampMasseyMg.lean.
-/
import Ymq.Model.BerlekampMassey
import Mathlib.Data.ZMod.Basic

namespace Ymq.BM

/-- what the loop needs from the closures -/
structure OpsOK (o : Ops) (p : ℕ) (κ : ZMod p) : Prop where
  mul : ∀ a b, a < p → b < p → ∃ r, o.mul a b = some r ∧ r < p ∧ (r : ZMod p) = κ * a * b
  dot : o.two = true → ∀ a b c d, a < p → b < p → c < p → d < p →
    ∃ r, o.dot a b c d = some r ∧ r < p ∧ (r : ZMod p) = κ * ((a : ZMod p) * b + (c : ZMod p) * d)
  inv : ∀ a, 0 < a → a < p → ∃ r, o.inv a = some r ∧ r < p ∧ κ * κ * (r : ZMod p) * a = 1
  sub : ∀ a b, a < p → b < p → ∃ r, o.sub a b = some r ∧ r < p ∧ (r : ZMod p) = (a : ZMod p) - b
  fin : ∀ a, 0 < a → a < p → ∃ q, o.fin a = some q ∧ q < p ∧ κ * (q : ZMod p) * a = 1

end Ymq.BM
