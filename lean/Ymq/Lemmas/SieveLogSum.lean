/-
C13 helper lemma about the part of the sieve that is NOT modelled (the `u8` log accumulators of
`sieve_block`): a bound on the sum of the bit lengths of distinct primes dividing one value.
-/
import Ymq.Lemmas.SieveArith
import Mathlib.Algebra.BigOperators.Associated
import Mathlib.Algebra.Order.BigOperators.Group.Finset
import Mathlib.Data.Nat.Prime.Basic

namespace Ymq.Sieve
open Finset

/-- distinct primes dividing `v ≠ 0`: the sum of their bit lengths is below `bitlen v + (number of primes)`. -/
theorem log_sum_lt (s : Finset ℕ) (hs : ∀ p ∈ s, p.Prime) (v : ℕ) (hv : v ≠ 0) (hd : ∀ p ∈ s, p ∣ v) :
    ∑ p ∈ s, bitlen p < bitlen v + s.card := by
  have hprod : ∏ p ∈ s, p ∣ v :=
    Finset.prod_primes_dvd v (fun p hp => Nat.prime_iff.1 (hs p hp)) hd
  have hle : ∏ p ∈ s, p ≤ v := Nat.le_of_dvd (Nat.pos_of_ne_zero hv) hprod
  have h1 : ∀ p ∈ s, 2 ^ (bitlen p - 1) ≤ p := by
    intro p hp
    have h2 := (hs p hp).two_le
    have hb : 1 ≤ bitlen p := by
      by_contra hc
      have := (bitlen_lt_succ_iff p 0).1 (by omega)
      omega
    exact two_pow_le_of_bitlen (by omega)
  have h2 : 2 ^ (∑ p ∈ s, (bitlen p - 1)) ≤ v := by
    rw [← Finset.prod_pow_eq_pow_sum]
    exact le_trans (Finset.prod_le_prod' h1) hle
  have h3 : ∑ p ∈ s, (bitlen p - 1) < bitlen v := by
    have := lt_of_le_of_lt h2 (lt_two_pow_bitlen v)
    exact (Nat.pow_lt_pow_iff_right (by decide)).1 this
  have h4 : ∑ p ∈ s, bitlen p = ∑ p ∈ s, (bitlen p - 1) + s.card := by
    rw [Finset.card_eq_sum_ones, ← Finset.sum_add_distrib]
    apply Finset.sum_congr rfl
    intro p hp
    have h2 := (hs p hp).two_le
    have hb : 1 ≤ bitlen p := by
      by_contra hc
      have := (bitlen_lt_succ_iff p 0).1 (by omega)
      omega
    omega
  omega

end Ymq.Sieve
