/-
C19 — integer determinants, lattice indices and Smith forms are exact.
Only property theorems live here (helper lemmas: Ymq/Lemmas/IntMat*.lean, Ymq/Lemmas/Snf*.lean).

Reading guide. All theorems are about the executable models in Ymq/Model/IntMat.lean and
Ymq/Model/Snf.lean (tied to the Rust code by the differential harness). `f … = some r` means
"the Rust routine returns `r` without reaching any panic site of the checked profile".
Partial by design: the floating-point estimate windows of `compute_lattice_index` and the
Wiedemann / Berlekamp–Massey code of intsparse.rs have no theorem (K/O only).
-/
import Ymq.Lemmas.IntMatCrt
import Ymq.Lemmas.ArithGcd
import Ymq.Lemmas.IntMatPerm
import Ymq.Lemmas.IntMatEchPDet
import Ymq.Lemmas.SnfCols
import Ymq.Lemmas.SnfDiag
import Ymq.Lemmas.SnfReduceCols
import Mathlib.Algebra.Order.BigOperators.Group.List
import Mathlib.Data.Int.GCD

namespace Ymq.C19
open Ymq.IntMat

/-- **CRT with symmetric lift** (`crt` of intdense.rs, used by `det_matz` and
`CRTDetBuilder::det`). Let `p_0 … p_{n-1} > 1` be pairwise coprime, `P` their product, `m_i < 2^64`
residues of an integer `d` (`p_i ∣ m_i - d`, any representative), and `-P < 2d ≤ P` — this is the
exact range of the code's lift: `det > (prod >> 1)` subtracts `P`, so the result lies in
`(-P/2, P/2]`. If the `I4096` accumulator cannot overflow (`n·2^64·P < 2^4095`, true for at most 64
moduli below 2^62) then `crt` returns exactly `d`, with its sign.
`hinv` is the named hypothesis `inv_mod64_spec` (property C08). -/
theorem crt_symmetric (inv : Inv) (hinv : InvSpec inv) (modp primes : List Nat) (d : Int)
    (hlen : modp.length = primes.length)
    (hp : ∀ p ∈ primes, 1 < p) (hU : ∀ p ∈ primes, p < U64) (hcop : primes.Pairwise Nat.Coprime)
    (hm : ∀ m ∈ modp, (m : Int) < W64)
    (hres : ∀ i (h1 : i < modp.length) (h2 : i < primes.length),
      ((primes[i] : Nat) : Int) ∣ ((modp[i] : Nat) : Int) - d)
    (hfit : (modp.length : Int) * (W64 * ((primes.prod : Nat) : Int)) < I4096LIM)
    (hd1 : -((primes.prod : Nat) : Int) < 2 * d) (hd2 : 2 * d ≤ ((primes.prod : Nat) : Int)) :
    crtDense inv modp primes = some d := by
  have hpos : ∀ p ∈ primes, 1 ≤ p := fun p h => Nat.le_of_lt (hp p h)
  have hP1 : 1 ≤ primes.prod := list_prod_pos primes hpos
  have hP : (0 : Int) < ((primes.prod : Nat) : Int) := by exact_mod_cast hP1
  have hW : (0 : Int) < W64 := by unfold W64; decide
  unfold crtDense
  simp only []
  rw [if_neg (by omega), hlen, List.take_length]
  by_cases hn : primes.length = 0
  · -- no modulus: P = 1, d = 0
    have hpe : primes = [] := List.eq_nil_of_length_eq_zero hn
    have hme : modp = [] := List.eq_nil_of_length_eq_zero (by omega)
    subst hpe; subst hme
    simp at hd1 hd2
    have hd : d = 0 := by omega
    subst hd
    simp [mapOpt, crtProd, crtSum, symLift, Int.tmod]
  have hn1 : (1 : Int) ≤ (modp.length : Int) := by
    have : 1 ≤ modp.length := by omega
    exact_mod_cast this
  have hfitP : ((primes.prod : Nat) : Int) < I4096LIM := by
    have h1 : (1 : Int) ≤ W64 := by unfold W64; decide
    have h2 : ((primes.prod : Nat) : Int) ≤ W64 * ((primes.prod : Nat) : Int) := by nlinarith
    have h3 : W64 * ((primes.prod : Nat) : Int) ≤ (modp.length : Int) * (W64 * ((primes.prod : Nat) : Int)) := by
      have := mul_pos hW hP
      nlinarith
    linarith
  -- the basis vector of index i
  let g : Nat → Int := fun i => (crtBasis inv primes i).getD 0
  have hg : ∀ i (hi : i < primes.length), crtBasis inv primes i = some (g i) ∧ 0 ≤ g i ∧
      g i < ((primes.prod : Nat) : Int) ∧ ((primes[i] : Nat) : Int) ∣ g i - 1 ∧
      ∀ k (hk : k < primes.length), k ≠ i → ((primes[k] : Nat) : Int) ∣ g i := by
    intro i hi
    obtain ⟨v, h1, h2, h3, h4, h5⟩ := crtBasis_spec inv hinv primes hp hU hcop hfitP i hi
    have : g i = v := by simp [g, h1]
    rw [this]; exact ⟨h1, h2, h3, h4, h5⟩
  rw [mapOpt_eq_some (crtBasis inv primes) g (List.range primes.length)
    (fun x hx => (hg x (List.mem_range.mp hx)).1)]
  simp only []
  have hprod := crtProd_spec primes 1 (by norm_num) hpos (by simpa using hfitP)
  rw [hprod]
  simp only [one_mul]
  have hbs : ∀ b ∈ (List.range primes.length).map g, 0 ≤ b ∧ b < ((primes.prod : Nat) : Int) := by
    intro b hb
    obtain ⟨i, hi, rfl⟩ := List.mem_map.mp hb
    have := hg i (List.mem_range.mp hi)
    exact ⟨this.2.1, this.2.2.1⟩
  have hsum := crtSum_spec modp ((List.range primes.length).map g) 0 ((primes.prod : Nat) : Int)
    (by simp [hlen]) (le_refl _) hm hbs (by simpa using hfit) (le_of_lt hP)
  rw [hsum]
  simp only [zero_add]
  set ts := List.zipWith (fun (m : Nat) (b : Int) => (m : Int) * b) modp ((List.range primes.length).map g) with hts
  have htlen : ts.length = primes.length := by simp [hts, hlen]
  have htk : ∀ k (hk : k < primes.length), ts[k]'(by omega) = ((modp[k]'(by omega) : Nat) : Int) * g k := by
    intro k hk
    simp [hts]
  -- non-negativity of the sum
  have hS0 : 0 ≤ ts.sum := by
    apply List.sum_nonneg
    intro x hx
    obtain ⟨k, hk, rfl⟩ := List.getElem_of_mem hx
    rw [htk k (by omega)]
    exact mul_nonneg (Int.natCast_nonneg _) (hg k (by omega)).2.1
  -- congruence modulo every prime, hence modulo the product
  have hdvd : ((primes.prod : Nat) : Int) ∣ ts.sum - d := by
    apply prod_dvd_of_pairwise_coprime primes _ hcop
    intro p hpm
    obtain ⟨k, hk, rfl⟩ := List.getElem_of_mem hpm
    have h1 : ((primes[k] : Nat) : Int) ∣ ts.sum - ts[k]'(by omega) := by
      apply dvd_sum_sub_getElem
      intro t ht hne
      rw [htk t (by omega)]
      exact Dvd.dvd.mul_left ((hg t (by omega)).2.2.2.2 k hk (Ne.symm hne)) _
    have h2 : ((primes[k] : Nat) : Int) ∣ ts[k]'(by omega) - d := by
      rw [htk k hk]
      have e : ((modp[k]'(by omega) : Nat) : Int) * g k - d =
          ((modp[k]'(by omega) : Nat) : Int) * (g k - 1) + (((modp[k]'(by omega) : Nat) : Int) - d) := by ring
      rw [e]
      exact dvd_add (Dvd.dvd.mul_left (hg k hk).2.2.2.1 _) (hres k (by omega) hk)
    have e : ts.sum - d = (ts.sum - ts[k]'(by omega)) + (ts[k]'(by omega) - d) := by ring
    rw [e]; exact dvd_add h1 h2
  exact symLift_spec ts.sum _ d hP hS0 hdvd hd1 hd2

/-- **CRT of intsparse.rs** (`crt` / `_crt::<N>`, used by `SparseMat::detz`), value level (bnum widths
are not modelled: the code assumes moduli below 2^63). Same statement as `crt_symmetric` for at least
two moduli; with a single modulus the code returns the residue itself, without lift. -/
theorem crt_sparse_symmetric (inv : Inv) (hinv : InvSpec inv) (modp primes : List Nat) (d : Int)
    (hlen : modp.length = primes.length) (hn : 2 ≤ modp.length)
    (hp : ∀ p ∈ primes, 1 < p) (hU : ∀ p ∈ primes, p < U64) (hcop : primes.Pairwise Nat.Coprime)
    (hres : ∀ i (h1 : i < modp.length) (h2 : i < primes.length),
      ((primes[i] : Nat) : Int) ∣ ((modp[i] : Nat) : Int) - d)
    (hd1 : -((primes.prod : Nat) : Int) < 2 * d) (hd2 : 2 * d ≤ ((primes.prod : Nat) : Int)) :
    crtSparse inv modp primes = some d := by
  have hpos : ∀ p ∈ primes, 1 ≤ p := fun p h => Nat.le_of_lt (hp p h)
  have hP1 : 1 ≤ primes.prod := list_prod_pos primes hpos
  have hP : (0 : Int) < ((primes.prod : Nat) : Int) := by exact_mod_cast hP1
  unfold crtSparse
  simp only []
  rw [if_neg (by omega), if_neg (by omega), if_neg (by omega), hlen, List.take_length]
  let g : Nat → Int := fun i => (crtSparseTerm inv modp primes i).getD 0
  have hg : ∀ i (hi : i < primes.length), crtSparseTerm inv modp primes i = some (g i) ∧ 0 ≤ g i ∧
      ((primes[i] : Nat) : Int) ∣ g i - ((modp[i]'(by omega) : Nat) : Int) ∧
      ∀ k (hk : k < primes.length), k ≠ i → ((primes[k] : Nat) : Int) ∣ g i := by
    intro i hi
    obtain ⟨v, h1, h2, h3, h4⟩ := crtSparseTerm_spec inv hinv modp primes hlen hp hU hcop i hi
    have : g i = v := by simp [g, h1]
    rw [this]; exact ⟨h1, h2, h3, h4⟩
  rw [mapOpt_eq_some (crtSparseTerm inv modp primes) g (List.range primes.length)
    (fun x hx => (hg x (List.mem_range.mp hx)).1)]
  simp only []
  set ts := (List.range primes.length).map g with hts
  have htlen : ts.length = primes.length := by simp [hts]
  have htk : ∀ k (hk : k < primes.length), ts[k]'(by omega) = g k := by
    intro k hk
    simp [hts]
  have hS0 : 0 ≤ ts.sum := by
    apply List.sum_nonneg
    intro x hx
    obtain ⟨k, hk, rfl⟩ := List.getElem_of_mem hx
    rw [htk k (by omega)]
    exact (hg k (by omega)).2.1
  have hdvd : ((primes.prod : Nat) : Int) ∣ ts.sum - d := by
    apply prod_dvd_of_pairwise_coprime primes _ hcop
    intro p hpm
    obtain ⟨k, hk, rfl⟩ := List.getElem_of_mem hpm
    have h1 : ((primes[k] : Nat) : Int) ∣ ts.sum - ts[k]'(by omega) := by
      apply dvd_sum_sub_getElem
      intro t ht hne
      rw [htk t (by omega)]
      exact (hg t (by omega)).2.2.2 k hk (Ne.symm hne)
    have h2 : ((primes[k] : Nat) : Int) ∣ ts[k]'(by omega) - d := by
      rw [htk k hk]
      have e : g k - d = (g k - ((modp[k]'(by omega) : Nat) : Int)) + (((modp[k]'(by omega) : Nat) : Int) - d) := by ring
      rw [e]
      exact dvd_add (hg k hk).2.2.1 (hres k (by omega) hk)
    have e : ts.sum - d = (ts.sum - ts[k]'(by omega)) + (ts[k]'(by omega) - d) := by ring
    rw [e]; exact dvd_add h1 h2
  exact symLift_spec ts.sum _ d hP hS0 hdvd hd1 hd2

/-- non-vacuity of `crt_symmetric`: the hypotheses hold for `d = -17`, moduli `5, 7`
(`P = 35`, residues `3, 4`) and the reference inverse of the driver (`Ymq.Arith.invMod64`
restricted to this instance is replaced by an explicit table). -/
example : ∃ inv : Inv, InvSpec inv ∧ crtDense inv [3, 4] [5, 7] = some (-17) := by
  -- a total inverse: search below p
  let inv : Inv := fun a p => some ((List.range p).find? (fun i => a * i % p = 1))
  have hinv : InvSpec inv := by
    intro a p _ _ hp hc
    obtain ⟨i, hi, hi2⟩ := Nat.exists_mul_mod_eq_one_of_coprime hc hp
    have hsome : ((List.range p).find? (fun i => a * i % p = 1)).isSome := by
      rw [List.find?_isSome]
      exact ⟨i, List.mem_range.mpr hi, by simpa using hi2⟩
    obtain ⟨j, hj⟩ := Option.isSome_iff_exists.mp hsome
    refine ⟨j, by simp [inv, hj], ?_, ?_⟩
    · exact List.mem_range.mp (List.mem_of_find?_eq_some hj)
    · have := List.find?_some hj
      simpa using this
  refine ⟨inv, hinv, ?_⟩
  apply crt_symmetric inv hinv [3, 4] [5, 7] (-17) rfl
  · intro p hp; simp at hp; omega
  · intro p hp; simp at hp; unfold U64; omega
  · simp [Nat.Coprime]
  · intro m hm; simp at hm; unfold W64; omega
  · intro i h1 h2
    have : i = 0 ∨ i = 1 := by simp at h1; omega
    rcases this with rfl | rfl <;> simp <;> decide
  · have h := I4096LIM_ge
    have e : (([3, 4] : List Nat).length : Int) * (W64 * ((([5, 7] : List Nat).prod : Nat) : Int)) < 2 ^ 256 := by
      unfold W64; norm_num
    linarith
  · decide
  · decide

/-- **Permutation sign** (`GFpEchelonBuilder::det`, the loop over `ind = self.indices.clone()`).
For every permutation `σ` of `0..n-1`, given as the index vector `ind[i] = σ(i)`
(`permList σ`), the cycle walk terminates without index panic and the number `k` of `ind.swap`
calls it counts satisfies `(-1)^k = sign σ` (`Equiv.Perm.sign` of Mathlib): the code negates the
product of the pivots exactly for odd permutations. -/
theorem perm_sign (n : Nat) (σ : Equiv.Perm (Fin n)) :
    ∃ k, permSwaps (permList σ) = some k ∧ (-1 : ℤˣ) ^ k = Equiv.Perm.sign σ := by
  unfold permSwaps
  rw [permList_length]
  obtain ⟨r, h1, h2⟩ := cycleWalk_spec (2 * n + 1) 0 σ 0 (Nat.zero_le _)
    (fun k hk => absurd hk (Nat.not_lt_zero _)) (by have := moved_le σ; omega)
  exact ⟨r, h1, by simpa using h2⟩

/-- the model computes: the 3-cycle `0 → 1 → 2 → 0` is sorted with two swaps (even) -/
example : permSwaps [1, 2, 0] = some 2 := by decide

/-- **Determinant modulo `p` = sign · product of the pivots** — PARTIAL (stretch goal). The theorem is
about `EchP`, the reference echelon builder in plain modular arithmetic with the sequential
elimination (Ymq/Model/IntMat.lean): the same algorithm as `GFpEchelonBuilder::{add, det}` without
Montgomery form and without the 8-row blocks. The production model `Ech` (Montgomery form on the
C07 word model, blocked elimination) is not related to `EchP` by a proof: the driver answers every
echelon request with both models and the pipeline compares both with the implementation.
Statement: for an `n × n` integer matrix (`n > 0`), whenever the determinant routine
`detModPlain` (= `add` row by row, `0` as soon as a row is rejected, else `det()`, exactly what
`det_matz` does for one prime) returns `d` without reaching a panic site, `d ≡ det(matrix) (mod p)`:
* all rows accepted: `det() = sign(σ) · ∏ pivots`, the sign being the one computed by the cycle walk
  (`perm_sign`), equals the determinant (invariant of `add`: the basis is in echelon form w.r.t. the
  column order `σ = indices`, every accepted row is its pivot times its basis row plus earlier
  basis rows);
* a row rejected: it is a combination of the earlier rows, the determinant is `0`.
No hypothesis on `inv_mod64` and no primality of `p` is needed: the `assert_eq!(vp[i], self.r)` after
the division certifies the modular inverse. Totality for a prime `p < 2^63` and the full statement are
`echelon_total` / `echelon_det` (Ymq/Props/C19Dense.lean); still missing: the refinement `Ech → EchP`
(first steps: `mg_redc_wide`, `echelon_submul_montgomery_partial`). -/
theorem echelon_det_partial (inv : Inv) (p n : Nat) (hn : 0 < n) (mat : List (List Int))
    (hlen : mat.length = n) (hrows : ∀ r ∈ mat, r.length = n) (d : Nat)
    (h : detModPlain inv p { p := p, indices := [], basis := [], factors := [] } mat = some d) :
    ((d : Nat) : ZMod p) = (matOf p n mat).det := by
  have := detModPlain_spec inv p n hn mat _ [] d (EchInv.init p n) (by simpa using hlen) hrows h
  simpa using this

/-- non-vacuity: `[[1, 2], [3, 4]]` modulo `101` gives `99 = -2`, the singular `[[1, 2], [2, 4]]` gives `0`
(K corpus lines `im_detp 101 1,2;3,4`); the inverse is found by search below `p` -/
example : ∃ inv : Inv,
    detModPlain inv 101 { p := 101, indices := [], basis := [], factors := [] } [[1, 2], [3, 4]] = some 99 ∧
    detModPlain inv 101 { p := 101, indices := [], basis := [], factors := [] } [[1, 2], [2, 4]] = some 0 :=
  ⟨fun a p => some ((List.range p).find? (fun i => a * i % p = 1)), by decide, by decide⟩

/-- the model of `arith::inv_mod64` (Ymq/Model/Arith.lean, the function the driver runs) meets
`InvSpec`: theorem `invMod64_spec` of property C08 -/
theorem invMod64_invSpec : InvSpec Ymq.Arith.invMod64 := by
  intro a p ha hp hp1 hc
  have hU : (2 : Nat) ^ 64 = U64 := by unfold U64; norm_num
  obtain ⟨r, h1, h2, h3⟩ := (Ymq.Arith.invMod64_spec a p (by rw [hU]; exact ha) (by rw [hU]; exact hp) (by omega)).1 hc
  exact ⟨r, h1, h2, by rw [h3]; exact Nat.mod_eq_of_lt hp1⟩

/-- `crt_symmetric` for the model of `inv_mod64` itself: no hypothesis left -/
theorem crt_symmetric_closed (modp primes : List Nat) (d : Int)
    (hlen : modp.length = primes.length)
    (hp : ∀ p ∈ primes, 1 < p) (hU : ∀ p ∈ primes, p < U64) (hcop : primes.Pairwise Nat.Coprime)
    (hm : ∀ m ∈ modp, (m : Int) < W64)
    (hres : ∀ i (h1 : i < modp.length) (h2 : i < primes.length),
      ((primes[i] : Nat) : Int) ∣ ((modp[i] : Nat) : Int) - d)
    (hfit : (modp.length : Int) * (W64 * ((primes.prod : Nat) : Int)) < I4096LIM)
    (hd1 : -((primes.prod : Nat) : Int) < 2 * d) (hd2 : 2 * d ≤ ((primes.prod : Nat) : Int)) :
    crtDense Ymq.Arith.invMod64 modp primes = some d :=
  crt_symmetric _ invMod64_invSpec modp primes d hlen hp hU hcop hm hres hfit hd1 hd2

/-- the integer matrix of a list of integer rows -/
def matZ (n : Nat) (mat : List (List Int)) : Matrix (Fin n) (Fin n) Int :=
  fun t c => (mat.getD t []).getD c 0

/-- **Exact integer determinant with its sign** (reference pipeline of `det_matz`) — PARTIAL in the
same sense as `echelon_det_partial` (plain-arithmetic reference builder, partial correctness) and
with the prime list and the size bound as inputs (the prime walk only needs pairwise coprime moduli
`> 1`; the bound `-P < 2·det ≤ P` is what the rounded `f64` estimate `60·#primes ≥ bits` is meant to
guarantee and is NOT derived from it: floating point is not modelled). If every modulus `p_i` yields
a residue `detModPlain … = some m_i`, then the CRT reconstruction `crt(m, p)` returns exactly the
determinant of the integer matrix (Mathlib `Matrix.det` over `ℤ`), sign included. -/
theorem det_exact_partial (inv : Inv) (hinv : InvSpec inv) (n : Nat) (hn : 0 < n) (mat : List (List Int))
    (hlen : mat.length = n) (hrows : ∀ r ∈ mat, r.length = n)
    (modp primes : List Nat) (hl : modp.length = primes.length)
    (hp : ∀ p ∈ primes, 1 < p) (hU : ∀ p ∈ primes, p < U64) (hcop : primes.Pairwise Nat.Coprime)
    (hm : ∀ m ∈ modp, (m : Int) < W64)
    (hres : ∀ i (h1 : i < modp.length) (h2 : i < primes.length),
      detModPlain inv primes[i] { p := primes[i], indices := [], basis := [], factors := [] } mat = some modp[i])
    (hfit : (modp.length : Int) * (W64 * ((primes.prod : Nat) : Int)) < I4096LIM)
    (hd1 : -((primes.prod : Nat) : Int) < 2 * (matZ n mat).det)
    (hd2 : 2 * (matZ n mat).det ≤ ((primes.prod : Nat) : Int)) :
    crtDense inv modp primes = some (matZ n mat).det := by
  apply crt_symmetric inv hinv modp primes _ hl hp hU hcop hm _ hfit hd1 hd2
  intro i h1 h2
  have h := echelon_det_partial inv primes[i] n hn mat hlen hrows modp[i] (hres i h1 h2)
  -- the determinant over Z/p is the image of the integer determinant
  have hmap : matOf primes[i] n mat = (matZ n mat).map (Int.castRingHom (ZMod primes[i])) := by
    ext t c
    simp [matOf, matZ, vecI, Matrix.map_apply]
  have hdetmap := (Int.castRingHom (ZMod primes[i])).map_det (matZ n mat)
  rw [RingHom.mapMatrix_apply] at hdetmap
  rw [hmap, ← hdetmap] at h
  have h2' : (((modp[i] : Nat) : Int) : ZMod primes[i]) = (((matZ n mat).det : Int) : ZMod primes[i]) := by
    simpa using h
  rw [ZMod.intCast_eq_intCast_iff_dvd_sub] at h2'
  have : ((primes[i] : Nat) : Int) ∣ -((matZ n mat).det - ((modp[i] : Nat) : Int)) := (dvd_neg).mpr h2'
  simpa using this

/-! ### Smith normal form

`rowSpan h n M` (Ymq/Lemmas/SnfBasic.lean) is the `Z/h`-module generated by the rows of `M` in
`(Z/h)^n`: the relation lattice `L + hZ^n` modulo `h`; when `h` is a multiple of the exponent of
`Z^n/L` (in particular the lattice index, which is what `compute_lattice_index` supplies) the group
presented by `M` is `(Z/h)^n / rowSpan h n M`. Every operation of the code reduces its results
modulo `h`, so integer determinants are *not* preserved; what is preserved is this module, up to
the automorphism of `(Z/h)^n` recorded in `q`. `n = gens.len()`. -/

open Ymq.Snf

/-- **Elementary operations are unimodular over `Z/h`** — PARTIAL: proved for the `i128` arithmetic
path `0 < h < 2^63` (`s.small`), on which `normalize`, `submul_n::<1>`, `eliminate`, `colsub`,
`colswap` only use `modh128`/`rem_euclid`. Missing: the `I256` path (`h ≥ 2^63`) and the 8-row
block of `eliminate_block`, which need the correctness of the reciprocal reduction `modh256`
(compared with the code and oracle-checked, not proved).

* row operations (`normalize`: a row times a unit of `Z/h`; `submul_n` with one source row:
  `row_i -= m·row_j`; `eliminate`: that, or `(row_i, row_j) ← (a·row_i + b·row_j, c·row_i + d·row_j)`
  with `ad - bc = 1` from the extended gcd) leave `q`, `gens`, `h` alone and keep the relation
  module: the new rows are invertible `Z/h`-combinations of the old ones;
* `colsub(i, j, k)` applies the automorphism `v_i ← v_i - k·v_j` of `(Z/h)^n` to every row of `rows`
  and to every row of `q` (square state);
* `colswap(i, j)` exchanges coordinates `i, j` in `rows` and `q` and re-triangularises with row
  operations: the relation module becomes its image under the coordinate swap `φ`, the rows of `q`
  are mapped by the same `φ`. -/
theorem snf_ops_unimodular_partial (s s' : St) (hs : s.small = true) :
    (∀ i k, s.normalize i k = some s' → RowEquiv s s') ∧
    (∀ i j m, i ≠ j → s.submulN i j [m] = some s' → RowEquiv s s') ∧
    (∀ i j k, s.eliminate i j k = some s' → RowEquiv s s') ∧
    (∀ i j k, i < s.gens.length → j < s.gens.length → i ≠ j →
      s.rows.length ≤ s.gens.length → s.q.length ≤ s.gens.length → s.colsub i j k = some s' →
      s'.gens = s.gens ∧ s'.h = s.h ∧
      ∃ φ : (Fin s.gens.length → ZMod s.h) ≃ₗ[ZMod s.h] (Fin s.gens.length → ZMod s.h),
        RowsMapped s.h s.gens.length φ s.rows s'.rows ∧ RowsMapped s.h s.gens.length φ s.q s'.q) ∧
    (∀ i j, i < s.gens.length → j < s.gens.length → s.colswap i j = some s' →
      s'.gens = s.gens ∧ s'.h = s.h ∧
      ∃ φ : (Fin s.gens.length → ZMod s.h) ≃ₗ[ZMod s.h] (Fin s.gens.length → ZMod s.h),
        RowsMapped s.h s.gens.length φ s.q s'.q ∧
        rowSpan s.h s.gens.length s'.rows = (rowSpan s.h s.gens.length s.rows).map φ.toLinearMap) := by
  refine ⟨?_, ?_, ?_, ?_, ?_⟩
  · intro i k h; exact normalize_spec s s' i k hs h
  · intro i j m hij h; exact submul1_spec s s' i j m hs hij h
  · intro i j k h; exact eliminate_spec s s' i j k hs h
  · intro i j k hi hj hij hr hq h
    obtain ⟨h1, h2, _, _, _, φ, h3, h4⟩ := colsub_spec s s' i j k hs hi hj hij hr hq h
    exact ⟨h1, h2, φ, h3, h4⟩
  · intro i j hi hj h
    obtain ⟨h1, h2, _, φ, h3, h4⟩ := colswap_spec s s' i j hs hi hj h
    exact ⟨h1, h2, φ, h3, h4⟩

/-- non-vacuity: on the state `h = 100`, `rows = [[4, 6], [6, 3]]` the general branch of `eliminate`
(Bezout combination of the two rows) runs and returns `[[2, 97], [0, 88]]` (also a K corpus line) -/
example : ∃ s : St, s.small = true ∧
    (s.eliminate 0 1 0).map (·.rows) = some [[2, 97], [0, 88]] :=
  ⟨{ rows := [[4, 6], [6, 3]], q := [], gens := [2, 3], removed := [], h := 100, qm := 0, qe := 0 },
    by decide, by decide⟩

/-- **`reduce` ends on a diagonal presentation whose entries multiply to `h`**: when the model of
`SmithNormalForm::reduce` returns a state (no assertion failed), its matrix is diagonal and the
product of the diagonal is exactly the class number `h` held by the state — the saturating `i128`
product of the code cannot hide an overflow since `h < 2^125`. (`h` is the lattice index found by
`compute_lattice_index`, i.e. `|det|` of any basis of the relation lattice; the model never assigns
the field `h`.) -/
theorem snf_diag (s s' : St) (h : s.reduce = some s') (h0 : 0 < s'.h) (h1 : s'.h < 2 ^ 125) :
    IsDiag s'.rows ∧ ∃ ds, diagList s'.rows = some ds ∧ ds.prod = (s'.h : Int) :=
  reduce_diag h h0 h1

/-- **The column phase `reduce_cols` is a change of generators** — PARTIAL (`0 < h < 2^63`, as
`snf_ops_unimodular_partial`; the row phase `reduce_rows`, which also discards relations and
generators, is not covered). For the square matrix handed to `reduce_cols`, whatever sequence of
`colsub`/`colswap` steps the loops perform (up to 10 passes, `while` loops with fuel), there is one
automorphism `φ` of `(Z/h)^n` such that the relation module of the result is the `φ`-image of the
relation module of the input and the rows of the returned `q` are the `φ`-images of the rows of the
identity matrix; consequently the group presented by the input and the group presented by the
(diagonal) output are isomorphic `Z/h`-modules, and `q` is the matrix of the isomorphism. -/
theorem snf_reduce_cols_iso_partial (s s' : St) (hs : s.small = true)
    (hsq : s.rows.length = s.gens.length) (h : s.reduceCols = some s') :
    (∃ φ : (Fin s.gens.length → ZMod s.h) ≃ₗ[ZMod s.h] (Fin s.gens.length → ZMod s.h),
      RowsMapped s.h s.gens.length φ (identity s.rows.length) s'.q ∧
      rowSpan s.h s.gens.length s'.rows = (rowSpan s.h s.gens.length s.rows).map φ.toLinearMap) ∧
    Nonempty (((Fin s.gens.length → ZMod s.h) ⧸ rowSpan s.h s.gens.length s.rows) ≃ₗ[ZMod s.h]
      ((Fin s.gens.length → ZMod s.h) ⧸ rowSpan s.h s.gens.length s'.rows)) := by
  obtain ⟨_, _, _, φ, h1, h2⟩ := reduceCols_spec s s' hs hsq h
  exact ⟨⟨φ, h1, h2⟩, reduceCols_quotient_iso s s' hs hsq h⟩

/-- non-vacuity: `reduce_cols` on `h = 8`, `[[2,1,0],[0,2,1],[0,0,2]]` returns the diagonal `1, 1, 0`
(i.e. `Z/8`), the K corpus line `snf_reduce_cols 8 5,3,2 2,1,0;0,2,1;0,0,2` -/
example : ∃ s : St, s.small = true ∧ s.rows.length = s.gens.length ∧
    (s.reduceCols).map (·.rows) = some [[1, 0, 0], [0, 1, 0], [0, 0, 0]] :=
  ⟨{ rows := [[2, 1, 0], [0, 2, 1], [0, 0, 2]], q := [], gens := [5, 3, 2], removed := [], h := 8, qm := 0, qe := 0 },
    by decide, by decide, by decide⟩

end Ymq.C19
