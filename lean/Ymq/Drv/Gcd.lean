import Ymq.Drv.Util
import Ymq.Model.Gcd

namespace Ymq.Drv
open Ymq.Gcd

private def showBranch : Branch → String
  | .retX => "retX" | .retY => "retY" | .small => "small"
  | .fallback => "fallback" | .lehmer => "lehmer"

private def okN (n : String) : Option Nat := do
  let n ← parseNat n
  if n = 4 ∨ n = 8 ∨ n = 16 then some n else none

/-- operands must be values of `BUint<N>` (the harness fails to parse anything larger) -/
private def parseU (N : Nat) (s : String) : Option Nat := do
  let v ← parseNat s
  if v < M N then some v else none

private def parseI64 (s : String) : Option Int := do
  let v ← parseInt s
  if -I63 ≤ v ∧ v < I63 then some v else none

private def parseWord (s : String) : Option Nat := do
  let v ← parseNat s
  if v < W then some v else none

/-- `ZmodN::new(n)` preconditions relevant here: the word count `k` of `n` (1..8). -/
private def znWords (n : Nat) : Nat := (bits n + 63) / 64

def handleGcd : Handler
  | ["gcd_reduce64", x, y] => do
    let x ← parseWord x; let y ← parseWord y
    some (match reduce64 x y with
      | none => "panic"
      | some (a, b, c, d) => s!"{a} {b} {c} {d}")
  | ["gcd_egcd64", x, y] => do
    let x ← parseI64 x; let y ← parseI64 y
    some (match egcdI64 x y with
      | none => "panic"
      | some (g, ex, ey) => s!"{g} {ex} {ey}")
  | ["gcd_top64", digs, bts] => do
    let d ← parseNatList digs; let b ← parseNat bts
    if d.any (· ≥ W) ∨ b ≥ 2 ^ 32 then none
    else some (match top64 d b with | none => "panic" | some t => toString t)
  | ["gcd_mulword", N, w, sz, n] => do
    let N ← okN N; let w ← parseWord w; let sz ← parseNat sz; let d ← parseNatList n
    if d.length ≠ N ∨ d.any (· ≥ W) then none
    else some (match mulwordAux w sz d 0 with | none => "panic" | some r => showList r)
  | ["gcd_dot", N, sz, a, x, b, y] => do
    let N ← okN N; let sz ← parseNat sz; let a ← parseI64 a; let b ← parseI64 b
    let x ← parseU N x; let y ← parseU N y
    some (match dotProduct N sz a x b y with
      | none => "panic"
      | some (r, neg) => s!"{r} {showBool neg}")
  | ["gcd_big", N, a, b] => do
    let N ← okN N; let a ← parseU N a; let b ← parseU N b
    some (match bigGcd N a b with | none => "panic" | some d => toString d)
  | ["gcd_ext", N, a, b] => do
    let N ← okN N; let a ← parseU N a; let b ← parseU N b
    some (match gcdInternal N true a b with
      | none => "panic"
      | some (d, u, v) => s!"{d} {u} {v}")
  | ["gcd_noext", N, a, b] => do
    let N ← okN N; let a ← parseU N a; let b ← parseU N b
    some (match gcdInternal N false a b with
      | none => "panic"
      | some (d, u, v) => s!"{d} {u} {v}")
  | ["gcd_inv_mod", N, n, p] => do
    let N ← okN N; let n ← parseU N n; let p ← parseU N p
    some (match invMod N n p with
      | none => "panic"
      | some (.ok x) => s!"ok {x}"
      | some (.err d) => s!"err {d}")
  -- model-only query (not answered by the harness): branches taken by the main loop
  | ["gcd_trace", N, ext, a, b] => do
    let N ← okN N; let a ← parseU N a; let b ← parseU N b
    let tr := branchTrace N N (ext = "1") (gcdFuel N) (initSt a b)
    some (showList (tr.map showBranch))
  -- `ZmodN::gcd(x)` = big_gcd::<8>(n, x) (the Montgomery representative is used as it is)
  | ["gcd_zn_gcd", n, xm] => do
    let n ← parseU 8 n; let xm ← parseU 8 xm
    if n % 2 = 0 ∨ n < 3 then none
    else some (match bigGcd 8 n xm with | none => "panic" | some d => toString d)
  -- `ZmodN::inv(x)` = inv_mod::<8>(x, n), then two Montgomery multiplications by R^2:
  -- result = i * R^2 mod n with R = 2^(64 k)
  | ["gcd_zn_inv", n, xm] => do
    let n ← parseU 8 n; let xm ← parseU 8 xm
    if n % 2 = 0 ∨ n < 3 ∨ xm ≥ n then none
    else
      let r := 2 ^ (64 * znWords n)
      some (match invMod 8 xm n with
        | none => "panic"
        | some (.err _) => "none"
        | some (.ok i) => s!"some {i * r % n * r % n}")
  | _ => none

end Ymq.Drv
