/-
Model of the part of `src/sieve.rs` that decides WHICH PRIMES ARE ATTACHED to a reported sieve
position, and of `fbase::cofactor` (src/fbase.rs).

Modelled: `Sieve::new` (cursor initialisation, `idxskip`, filling of the bucket tables in the exact
order of the code, recycled tables), `Sieve::sieve_block` (cursor update of the three small-prime
classes; bounds of the table slices it reads), `next_block`, `rehash`, `recycle`,
`SieveTable::{new,reset,add,add_overflow,bucket}`, `SieveTableLarge::{new,reset,add,add_overflow,
bucket_offsets}`, and the second half of `Sieve::smooths` ("Now find factors"): recovery of the
small primes from the cursors, lookup in the bucket tables, `is_factor`.
NOT modelled: the byte array `blk` (log accumulation), thresholds and `skipbits`, i.e. the first half
of `smooths` which decides which positions are reported. The positions are an input of `factorsAt`.

Conventions (see Ymq/Model/Mg64.lean): machine integers are `Nat`/`Int` with explicit truncations
where the code casts (`as u16`, `as u8`); every panic site of the checked profile (assert,
debug_assert, overflow, checked index, unwrap) and every out-of-bounds `get_unchecked` returns `none`;
loops take fuel. `Dividers::{modu16, modi64, divmod_uint}` are exact remainders/quotients (property C08:
`Ymq.C08.modu16_spec`, `modi64_spec`), used here as `%` and `/`.
A table entry (transmuted `(u8,u8)` / `(u16,u16)`) is a pair of `Nat`s.
No Mathlib import: this file is linked into the native driver.
-/
import Ymq.Model.Mg64

namespace Ymq.Sieve

def BLOCK : Nat := 32768
/-- `OFFSET_NONE` -/
def NONE : Nat := 65535
def LARGE_LOG : Nat := 16
def VLARGE_LOG : Nat := 19
def BUCKET_WIDTH : Nat := 256
def BUCKET_SIZE : Nat := 32
/-- `SieveTable::N_ENTRIES`, `N_BUCKETS` (per block) -/
def N_ENTRIES : Nat := 4096
def N_BUCKETS : Nat := 128
def LBW : Nat := 16384
def LBS : Nat := 1024

/-- `32 - u32::leading_zeros(p)` -/
def bitlen (p : Nat) : Nat := if p = 0 then 0 else Nat.log2 p + 1

/-! ### Factor base -/

/-- the fields of `FBase` the sieve reads: `primes` and `idx_by_log` (26 entries). -/
structure FB where
  primes : Array Nat
  ibl : Array Nat

/-- `idx_by_log[l]` = index of the first prime of bit length ≥ l (the documented meaning of the
field; the harness builds synthetic factor bases with this definition and `sv_fb` checks that
`FBase::new` produces the same array). -/
def mkIbl (ps : Array Nat) : Array Nat :=
  (Array.range 26).map fun l => ps.toList.countP (fun p => bitlen p < l)

def FB.ofPrimes (ps : Array Nat) : FB := { primes := ps, ibl := mkIbl ps }

/-- the `idx_by_log` table exactly as `FBase::new` fills it while it pushes the primes:
```
if l >= log { for idx in log..=l { idx_by_log[idx] = primes.len(); } log = l + 1; }   // l = bit length of p
...
for idx in log..idx_by_log.len() { idx_by_log[idx] = primes.len(); }
```
state = (table, log, number of primes pushed so far); a write outside the 26 entries is a panic. -/
def fbaseIblStep (st : Array Nat × Nat × Nat) (p : Nat) : Option (Array Nat × Nat × Nat) :=
  let (ibl, log, cnt) := st
  let l := bitlen p
  if l ≥ log then do
    let ibl ← (List.range' log (l + 1 - log)).foldlM (fun (a : Array Nat) idx =>
      if idx < a.size then some (a.setIfInBounds idx cnt) else none) ibl
    some (ibl, l + 1, cnt + 1)
  else some (ibl, log, cnt + 1)

def fbaseIbl (ps : List Nat) : Option (Array Nat) := do
  let (ibl, log, cnt) ← ps.foldlM fbaseIblStep (Array.replicate 26 0, 0, 0)
  (List.range' log (26 - log)).foldlM (fun (a : Array Nat) idx =>
    if idx < a.size then some (a.setIfInBounds idx cnt) else none) ibl

/-! ### SieveTable -/

structure Table where
  /-- (offset inside the bucket : u8, low byte of the prime index : u8) -/
  entries : Array (Nat × Nat)
  blens : Array Nat
  /-- 32 slots: (offset inside the block : u16, low byte of the prime index) -/
  overflows : Array (Nat × Nat)
  nOverflows : Nat
deriving Inhabited

def Table.new (nblocks : Nat) : Table :=
  { entries := Array.replicate (N_ENTRIES * nblocks) (0, 0)
    blens := Array.replicate (N_BUCKETS * nblocks) 0
    overflows := Array.replicate 32 (0, 0)
    nOverflows := 0 }

/-- `reset`: only the counters are cleared; `entries` and `overflows` keep their stale contents. -/
def Table.reset (t : Table) : Table :=
  { t with blens := Array.replicate t.blens.size 0, nOverflows := 0 }

/-- `SieveTable::add(offset, pidx)` (+ `add_overflow`). (The structure is taken apart so that the
compiled model updates the arrays in place.) -/
def Table.add (t : Table) (offset pidx : Nat) : Option Table :=
  match t with
  | ⟨entries, blens, overflows, nOv⟩ =>
    if ¬ offset < entries.size * BLOCK / N_ENTRIES then none        -- debug_assert (release: out of bounds)
    else
      let b := offset / BUCKET_WIDTH
      let bo := offset % BUCKET_WIDTH
      match blens[b]? with
      | none => none
      | some blen =>
        if blen < BUCKET_SIZE then
          if b * BUCKET_SIZE + blen < entries.size then
            some ⟨entries.setIfInBounds (b * BUCKET_SIZE + blen) (bo % 256, pidx % 256),
                  blens.setIfInBounds b (blen + 1), overflows, nOv⟩
          else none
        else
          some ⟨entries, blens,
                if nOv < overflows.size then overflows.setIfInBounds nOv (offset % BLOCK % 65536, pidx % 256)
                else overflows,
                nOv + 1⟩

/-- the visible part of bucket `b`: `entries[b*32 .. b*32 + blens[b]]`. -/
def Table.bucket (t : Table) (b : Nat) : Option (List (Nat × Nat)) :=
  match t.blens[b]? with
  | none => none                                                   -- `t.blens[b]`: checked index
  | some blen => (List.range' (b * BUCKET_SIZE) blen).mapM fun e => t.entries[e]?

/-- the overflow slots `smooths` looks at: `overflows[..min(len, n_overflows)]`. -/
def Table.ovList (t : Table) : List (Nat × Nat) :=
  t.overflows.toList.take (min t.overflows.size t.nOverflows)

/-- low bytes of the prime indices found for position `r` of the block starting at `baseOff`:
bucket entries first, then overflow slots (the order of the code). -/
def Table.lookup (t : Table) (baseOff r : Nat) : Option (List Nat) := do
  let b := (baseOff + r) / BUCKET_WIDTH
  let boff := (baseOff + r) % BUCKET_WIDTH
  let bk ← t.bucket b
  let hits := (bk.filter fun e => boff % 256 = e.1).map (·.2)
  let ovs := (t.ovList.filter fun e => e.1 = r).map (·.2)
  some (hits ++ ovs)

/-- `for msb in idx1 >> 8..(idx2 >> 8) + 1 { pidx = (msb << 8) + pidx8; if idx1 <= pidx && pidx < idx2 ..` -/
def candidates (idx1 idx2 pidx8 : Nat) : List Nat :=
  ((List.range' (idx1 / 256) (idx2 / 256 + 1 - idx1 / 256)).map fun msb => msb * 256 + pidx8).filter
    fun pidx => idx1 ≤ pidx ∧ pidx < idx2

/-! ### SieveTableLarge -/

structure LTable where
  /-- (offset inside the block : u16, low 16 bits of the prime index) -/
  hits : Array (Nat × Nat)
  lengths : Array Nat
  overflows : Array (Nat × Nat)
deriving Inhabited

def LTable.new (nblocks : Nat) : LTable :=
  let nbuckets := nblocks * BLOCK / LBW
  { hits := Array.replicate ((nbuckets + 1) * LBW) (0, 0)
    lengths := Array.replicate (nbuckets + 1) 0
    overflows := #[] }

def LTable.reset (t : LTable) : LTable :=
  { t with lengths := Array.replicate t.lengths.size 0, overflows := #[] }

def LTable.add (t : LTable) (offset pidx : Nat) : Option LTable :=
  match t with
  | ⟨hits, lengths, overflows⟩ =>
    if ¬ pidx < 2 ^ 30 then none                                     -- debug_assert
    else
      let blk := offset / LBW
      let entry := (offset % BLOCK % 65536, pidx % 65536)
      match lengths[blk]? with
      | none => none
      | some l =>
        if l < LBS then
          if blk * LBS + l < hits.size then
            some ⟨hits.setIfInBounds (blk * LBS + l) entry, lengths.setIfInBounds blk (l + 1), overflows⟩
          else none
        else some ⟨hits, lengths, overflows.push entry⟩

/-- `bucket_offsets(bidx)` -/
def LTable.bucket (t : LTable) (bidx : Nat) : Option (List (Nat × Nat)) :=
  match t.lengths[bidx]? with
  | none => none
  | some len => (List.range' (bidx * LBS) len).mapM fun e => t.hits[e]?

/-- low 16 bits of the prime indices found for position `r` of block `blkNo`. -/
def LTable.lookup (t : LTable) (blkNo r : Nat) : Option (List Nat) := do
  let bk ← t.bucket (2 * blkNo + r / LBW)
  some (((bk ++ t.overflows.toList).filter fun e => e.1 = r).map (·.2))

/-- `pidx = pidx16; while pidx < fbase.len() { ..; pidx += 1 << 16 }` -/
def lcandidates (len pidx16 : Nat) : List Nat :=
  (List.range' 0 ((len + 65535 - pidx16) / 65536)).map fun k => pidx16 + k * 65536

/-! ### Sieve state -/

structure State where
  offset : Int
  nblocks : Nat
  blkNo : Nat
  idxskip : Nat
  lo : Array Nat
  loPrev : Array Nat
  tables : Array Table
  ltables : Array LTable

/-- `pskip` of `Sieve::new` -/
def pskip (len : Nat) : Nat :=
  if len ≤ 1999 then 3 else if len ≤ 4999 then 5 else if len ≤ 9999 then 7
  else if len ≤ 19999 then 11 else if len ≤ 49999 then 13 else 17

/-- `while off < bound { add(off); off += p }` as the list of offsets (fuel = bound suffices, p > 0). -/
def arith (p bound : Nat) : Nat → Nat → Option (List Nat)
  | 0, _ => none
  | f + 1, off => if off < bound then (arith p bound f (off + p)).map (off :: ·) else some []

/-- the unrolled loop of the second size class:
`while kp < interval - p - rmax { add kp+o1, kp+o2, kp+p+o1, kp+p+o2; kp += 2p }` (isize arithmetic);
returns the offsets and the final `kp`. -/
def unrolled (interval p o1 o2 rmax : Nat) : Nat → Nat → Option (List Nat × Nat)
  | 0, _ => none
  | f + 1, kp =>
    if kp + p + rmax < interval then
      (unrolled interval p o1 o2 rmax f (kp + 2 * p)).map fun (l, k) =>
        ((kp + o1) :: (kp + o2) :: (kp + p + o1) :: (kp + p + o2) :: l, k)
    else some ([], kp)

/-- all offsets registered by `Sieve::new` for one prime of the second class, in the order of the code. -/
def largeOffsets (interval p o1 o2 : Nat) : Option (List Nat) := do
  let (l, kp) ← unrolled interval p o1 o2 (max o1 o2) (interval + 1) 0
  let t1 ← arith p interval (interval + 1) (o1 + kp)
  let t2 ← arith p interval (interval + 1) (o2 + kp)
  some (l ++ t1 ++ t2)

/-- offsets registered for one prime of the third class (and by `rehash` for both classes). -/
def vlargeOffsets (interval p o1 o2 : Nat) : Option (List Nat) := do
  let t1 ← arith p interval (interval + 1) o1
  let t2 ← arith p interval (interval + 1) o2
  some (t1 ++ t2)

/-- `let table = &mut tables[i]; ...` : update element `i` (checked index). The element is taken out
of the array first so that the compiled model can update it in place. -/
def modifyM {α} [Inhabited α] (a : Array α) (i : Nat) (f : α → Option α) : Option (Array α) :=
  match a[i]? with
  | none => none
  | some x =>
    let a := a.setIfInBounds i default
    match f x with
    | none => none
    | some y => some (a.setIfInBounds i y)

/-- first size class of `new`: the two cursors of prime `idx` are appended. -/
def newSmallStep (r1 r2 : Array Nat) (offs : Array Nat) (idx : Nat) : Option (Array Nat) := do
  let o1 ← r1[idx]?
  let o2 ← r2[idx]?
  let offs := (offs.push (o1 % 65536)).push (if o1 ≠ o2 then o2 % 65536 else NONE)
  if offs.size ≠ 2 * idx + 2 then none else some offs                -- debug_assert

/-- second size class of `new`: all hits of prime `pidx` are registered in the table of its class. -/
def newLargeStep (fb : FB) (r1 r2 : Array Nat) (interval : Nat) (table : Table) (pidx : Nat) : Option Table := do
  let o1 ← r1[pidx]?
  let o2 ← r2[pidx]?
  let p ← fb.primes[pidx]?
  if o1 = o2 then none                                               -- debug_assert
  let offsets ← largeOffsets interval p o1 o2
  offsets.foldlM (fun t off => t.add off (pidx % 2 ^ 32)) table

/-- third size class of `new`. -/
def newVLargeStep (fb : FB) (r1 r2 : Array Nat) (interval : Nat) (table : LTable) (pidx : Nat) : Option LTable := do
  let o1 ← r1[pidx]?
  let o2 ← r2[pidx]?
  let p ← fb.primes[pidx]?
  if o1 = o2 then none                                               -- debug_assert
  let offsets ← vlargeOffsets interval p o1 o2
  offsets.foldlM (fun t off => t.add off pidx) table

/-- body of `for log in 0..=maxlog` of `new`. -/
def newStep (fb : FB) (r1 r2 : Array Nat) (interval : Nat)
    (st : Array Nat × Array Table × Array LTable) (log : Nat) : Option (Array Nat × Array Table × Array LTable) := do
  let (offs, tables, ltables) := st
  let idx1 ← fb.ibl[log]?
  let idx2 ← fb.ibl[log + 1]?
  if ¬ (idx2 ≤ r1.size ∧ idx2 ≤ r2.size ∧ idx2 ≤ fb.primes.size) then none   -- assert
  if log < LARGE_LOG then
    let offs ← (List.range' idx1 (idx2 - idx1)).foldlM (newSmallStep r1 r2) offs
    some (offs, tables, ltables)
  else if log < VLARGE_LOG then
    let tables ← modifyM tables (log - LARGE_LOG) fun table =>
      (List.range' idx1 (idx2 - idx1)).foldlM (newLargeStep fb r1 r2 interval) table
    some (offs, tables, ltables)
  else
    let ltables ← modifyM ltables (log - VLARGE_LOG) fun table =>
      (List.range' idx1 (idx2 - idx1)).foldlM (newVLargeStep fb r1 r2 interval) table
    some (offs, tables, ltables)

/-- the tables `new` starts from: recycled ones are checked and reset, otherwise fresh ones. -/
def newTables (nblocks maxlog : Nat) (recycled : Option (Array Table × Array LTable)) :
    Option (Array Table × Array LTable) :=
  match recycled with
  | some (ts, lts) =>
    if ts.size ≠ (min (max (maxlog + 1) LARGE_LOG) VLARGE_LOG) - LARGE_LOG then none       -- assert_eq
    else if ts.any (fun t => t.entries.size ≠ N_ENTRIES * nblocks) then none            -- assert_eq
    else if lts.size ≠ max (maxlog + 1) VLARGE_LOG - VLARGE_LOG then none               -- assert_eq
    else some (ts.map Table.reset, lts.map LTable.reset)
  | none =>
    some (Array.replicate (min (VLARGE_LOG - 1) maxlog + 1 - LARGE_LOG) (Table.new nblocks),
          Array.replicate (maxlog + 1 - VLARGE_LOG) (LTable.new nblocks))

/-- `Sieve::new(offset, nblocks, fbase, [roots1, roots2], recycled)` -/
def new (offset : Int) (nblocks : Nat) (fb : FB) (r1 r2 : Array Nat)
    (recycled : Option (Array Table × Array LTable)) : Option State := do
  let len := fb.primes.size
  let _nSmall ← fb.ibl[LARGE_LOG]?                                  -- idx_by_log[LARGE_PRIME_LOG]
  let maxprime ← fb.primes.back?                                   -- bound(): last().unwrap()
  let maxlog := bitlen maxprime
  let (tables, ltables) ← newTables nblocks maxlog recycled
  if nblocks * BLOCK ≥ 2 ^ 62 then none
  let (offs, tables, ltables) ←
    (List.range' 0 (maxlog + 1)).foldlM (newStep fb r1 r2 (nblocks * BLOCK)) (#[], tables, ltables)
  let idxskip := 2 * ((fb.primes.toList.findIdx? (fun p => p > pskip len)).getD len)
  some { offset := offset, nblocks := nblocks, blkNo := 0, idxskip := idxskip,
         lo := offs, loPrev := offs, tables := tables, ltables := ltables }

/-- `recycle` -/
def recycle (s : State) : Array Table × Array LTable := (s.tables, s.ltables)

/-- `rehash`: all hits of one prime of the second class are registered again. -/
def rehashTable (r1 r2 : Array Nat) (interval p pidx : Nat) (table : Table) : Option Table := do
  let o1 ← r1[pidx]?
  let o2 ← r2[pidx]?
  let offsets ← vlargeOffsets interval p o1 o2
  offsets.foldlM (fun t off => t.add off (pidx % 2 ^ 32)) table

/-- `rehash`: same for a prime of the third class. -/
def rehashLTable (r1 r2 : Array Nat) (interval p pidx : Nat) (table : LTable) : Option LTable := do
  let o1 ← r1[pidx]?
  let o2 ← r2[pidx]?
  let offsets ← vlargeOffsets interval p o1 o2
  offsets.foldlM (fun t off => t.add off pidx) table

/-- body of the loop of `rehash` over the factor base. -/
def rehashStep (fb : FB) (r1 r2 : Array Nat) (interval : Nat)
    (st : Array Table × Array LTable) (pidx : Nat) : Option (Array Table × Array LTable) := do
  let (tables, ltables) := st
  let p ← fb.primes[pidx]?
  if p < BLOCK then some (tables, ltables)
  else
    let l := bitlen p
    if l < VLARGE_LOG then
      if l < LARGE_LOG then none                                     -- l - LARGE_PRIME_LOG underflows
      else
        let tables ← modifyM tables (l - LARGE_LOG) (rehashTable r1 r2 interval p pidx)
        some (tables, ltables)
    else
      let ltables ← modifyM ltables (l - VLARGE_LOG) (rehashLTable r1 r2 interval p pidx)
      some (tables, ltables)

/-- `rehash(roots)` -/
def rehash (fb : FB) (s : State) (r1 r2 : Array Nat) : Option State :=
  if s.nblocks = 0 then some { s with blkNo := 0 }
  else do
    let (tables, ltables) ← (List.range' 0 fb.primes.size).foldlM (rehashStep fb r1 r2 (s.nblocks * BLOCK))
      (s.tables.map Table.reset, s.ltables.map LTable.reset)
    some { s with blkNo := 0, tables := tables, ltables := ltables }

/-- `next_block` -/
def nextBlock (s : State) : Option State :=
  if s.offset + BLOCK ≥ 2 ^ 63 then none
  else some { s with offset := s.offset + BLOCK, blkNo := s.blkNo + 1 }

/-! ### sieve_block: cursor updates -/

/-- `while off < len { blk[off] += log; off += p }` -/
def advance (p : Nat) : Nat → Nat → Option Nat
  | 0, _ => none
  | f + 1, off => if off < BLOCK then advance p f (off + p) else some off

/-- `while kp < ll { ..; kp += 2 * p }` -/
def unrollKp (p ll : Nat) : Nat → Nat → Option Nat
  | 0, _ => none
  | f + 1, kp => if kp < ll then unrollKp p ll f (kp + 2 * p) else some kp

/-- skipped (tiny) primes: `off + pp - modu16(BLOCK)`, minus `pp` when ≥ pp, `as u16`. -/
def stepSkipped (pp c : Nat) : Option Nat :=
  if c + pp < BLOCK % pp then none
  else
    let off := c + pp - BLOCK % pp
    let off := if off ≥ pp then off - pp else off
    some (off % 65536)

/-- one prime of the classes `log ≤ 12` (both cursors together); `none` inside = cursor not written. -/
def stepPair (p off1 off2 : Nat) : Option (Option Nat × Option Nat) := do
  let (off1, off2) ←
    if off1 ≠ NONE ∧ off2 ≠ NONE then
      let m := max off1 off2
      if BLOCK < p + m then none                                     -- len - p - m underflows
      else do
        let kp ← unrollKp p (BLOCK - p - m) (BLOCK + 1) 0
        some (off1 + kp, off2 + kp)
    else some (off1, off2)
  let w1 ← if off1 ≠ NONE then (advance p (BLOCK + 1) off1).map fun o => some (o % BLOCK % 65536)
           else some none
  let w2 ← if off2 ≠ NONE then (advance p (BLOCK + 1) off2).map fun o => some (o % BLOCK % 65536)
           else some none
  some (w1, w2)

/-- one cursor of the classes 13..15. -/
def stepSingle (p off : Nat) : Option (Option Nat) :=
  if off = NONE then some none
  else (advance p (BLOCK + 1) off).map fun o => some (o % BLOCK % 65536)

def writeOpt (a : Array Nat) (i : Nat) : Option Nat → Option (Array Nat)
  | none => some a
  | some v => if i < a.size then some (a.setIfInBounds i v) else none

/-- skipped (tiny) primes: cursor `i`. -/
def skipStep (fb : FB) (loPrev : Array Nat) (lo : Array Nat) (i : Nat) : Option (Array Nat) := do
  let pp ← fb.primes[i / 2]?
  let c ← loPrev[i]?
  let v ← stepSkipped pp c
  if i < lo.size then some (lo.setIfInBounds i v) else none

/-- classes `log ≤ 12`: prime `i` (cursors `2i`, `2i+1`). -/
def pairStep (fb : FB) (loPrev : Array Nat) (lo : Array Nat) (i : Nat) : Option (Array Nat) := do
  let p ← fb.primes[i]?
  let off1 ← loPrev[2 * i]?
  let off2 ← loPrev[2 * i + 1]?
  let (w1, w2) ← stepPair p off1 off2
  let lo ← writeOpt lo (2 * i) w1
  writeOpt lo (2 * i + 1) w2

def pairLog (fb : FB) (idxskip : Nat) (loPrev : Array Nat) (lo : Array Nat) (log : Nat) : Option (Array Nat) := do
  let a ← fb.ibl[log]?
  let iStart := max idxskip (2 * a)
  let iEnd ← if log < 15 then (fb.ibl[log + 1]?).map (2 * ·) else some lo.size
  (List.range' (iStart / 2) (iEnd / 2 - iStart / 2)).foldlM (pairStep fb loPrev) lo

/-- classes 13..15: cursor `i`. -/
def singleStep (fb : FB) (loPrev : Array Nat) (lo : Array Nat) (i : Nat) : Option (Array Nat) := do
  let p ← fb.primes[i / 2]?
  let off ← loPrev[i]?
  let w ← stepSingle p off
  writeOpt lo i w

def singleLog (fb : FB) (idxskip : Nat) (loPrev : Array Nat) (lo : Array Nat) (log : Nat) : Option (Array Nat) := do
  let a ← fb.ibl[log]?
  let iStart := max idxskip (2 * a)
  let iEnd ← if log < 15 then (fb.ibl[log + 1]?).map (2 * ·) else some lo.size
  (List.range' iStart (iEnd - iStart)).foldlM (singleStep fb loPrev) lo

/-- cursor part of `sieve_block`: `(lo, lo_prev)` after the call (`mem::swap` first). -/
def sieveCursors (fb : FB) (idxskip : Nat) (lo0 loPrev0 : Array Nat) : Option (Array Nat × Array Nat) := do
  let lo ← (List.range' 0 idxskip).foldlM (skipStep fb lo0) loPrev0
  let lo ← (List.range' 2 11).foldlM (pairLog fb idxskip lo0) lo
  let lo ← (List.range' 13 3).foldlM (singleLog fb idxskip lo0) lo
  some (lo, lo0)

/-- `sieve_block` (the byte array `blk` is not modelled; the slices of the bucket tables the code
reads must exist). -/
def sieveBlock (fb : FB) (s : State) : Option State := do
  let (lo, loPrev) ← sieveCursors fb s.idxskip s.lo s.loPrev
  if s.tables.size = 0 then some { s with lo := lo, loPrev := loPrev }
  else
    if s.tables.any (fun t => t.entries.size < (s.blkNo + 1) * N_ENTRIES ∨ t.blens.size < (s.blkNo + 1) * N_BUCKETS)
    then none                                                        -- get_unchecked slices
    else if s.ltables.any (fun t => t.lengths.size < 2 * s.blkNo + 2) then none   -- bucket_offsets(bno)
    else if (s.ltables.any fun t => ((t.bucket (2 * s.blkNo)).isNone ∨ (t.bucket (2 * s.blkNo + 1)).isNone)) then none
    else some { s with lo := lo, loPrev := loPrev }

/-- `b` times `sieve_block(); next_block()` (what every caller does between two calls of `smooths`). -/
def runBlocks (fb : FB) : Nat → State → Option State
  | 0, s => some s
  | b + 1, s => do
    let s ← runBlocks fb b s
    let s ← sieveBlock fb s
    nextBlock s

/-- the loop of the classical quadratic sieve: for every root table of `rs` (the roots shifted by one more
interval), a full interval of `nblocks` rounds and then `rehash` with that table. -/
def rehashRounds (fb : FB) (nblocks : Nat) : List (Array Nat × Array Nat) → State → Option State
  | [], s => some s
  | r :: rest, s => do
    let s ← runBlocks fb nblocks s
    let s ← rehash fb s r.1 r.2
    rehashRounds fb nblocks rest s

/-! ### smooths: "Now find factors" -/

/-- the closure `is_factor(offset, pidx)` -/
def isFactor (fb : FB) (s : State) (r1 r2 : Array Nat) (offset pidx : Nat) : Option Bool := do
  let p ← fb.primes[pidx]?                                           -- fbase.div(pidx)
  let b32 := s.blkNo % 2 ^ 32
  if b32 * BLOCK ≥ 2 ^ 32 then none                                  -- checked_mul().unwrap()
  let o := (b32 * BLOCK + offset) % p % 2 ^ 32                       -- modi64 (C08), as u32
  let a ← r1[pidx]?
  if o = a then some true
  else do
    let b ← r2[pidx]?
    some (o = b)

/-- primes below BLOCK_SIZE/2: `modu16(r) == off1 || modu16(r) == off2` (modu16 exact: C08). -/
def smallTest (fb : FB) (s : State) (r : Nat) (acc : List Nat) (i : Nat) : Option (List Nat) := do
  let p ← fb.primes[i]?                                              -- divs.get_unchecked(i)
  let off1 ← s.loPrev[2 * i]?
  let off2 ← s.loPrev[2 * i + 1]?
  let rmod := r % p
  some (if rmod = off1 ∨ rmod = off2 then i :: acc else acc)

/-- primes above BLOCK_SIZE/2: `r == off || r as u32 == off as u32 + p as u32` with `p = primes[pidx] as u16`. -/
def midTest (fb : FB) (s : State) (r : Nat) (acc : List Nat) (i : Nat) : Option (List Nat) := do
  let off ← s.loPrev[i]?
  let p ← fb.primes[i / 2]?
  some (if r = off ∨ r = off + p % 65536 then (i / 2) :: acc else acc)

/-- `if is_factor(r, pidx) { facs[j].push(pidx) }` over the candidate indices. -/
def filt (fb : FB) (s : State) (r1 r2 : Array Nat) (r : Nat) (acc : List Nat) (cands : List Nat) : Option (List Nat) :=
  cands.foldlM (fun (acc : List Nat) pidx => do
    let ok ← isFactor fb s r1 r2 r pidx
    some (if ok then pidx :: acc else acc)) acc

def tableStep (fb : FB) (s : State) (r1 r2 : Array Nat) (r : Nat) (acc : List Nat) (tidx : Nat) : Option (List Nat) := do
  let t ← s.tables[tidx]?
  let idx1 ← fb.ibl[tidx + LARGE_LOG]?
  let idx2 ← fb.ibl[tidx + LARGE_LOG + 1]?
  let p8s ← t.lookup (s.blkNo * BLOCK) r
  p8s.foldlM (fun acc p8 => filt fb s r1 r2 r acc (candidates idx1 idx2 p8)) acc

def ltableStep (fb : FB) (s : State) (r1 r2 : Array Nat) (r : Nat) (acc : List Nat) (t : LTable) : Option (List Nat) := do
  let p16s ← t.lookup s.blkNo r
  p16s.foldlM (fun acc p16 => filt fb s r1 r2 r acc (lcandidates fb.primes.size p16)) acc

/-- prime indices attached to the reported position `r` (pushed in the order of the code). -/
def factorsOf (fb : FB) (s : State) (r1 r2 : Array Nat) (r : Nat) : Option (List Nat) := do
  let n15 ← fb.ibl[15]?
  let small ← (List.range' 0 n15).foldlM (smallTest fb s r) []
  let mid ← (List.range' (2 * n15) (s.loPrev.size - 2 * n15)).foldlM (midTest fb s r) small
  if s.tables.size = 0 then some mid.reverse
  else
    let acc ← (List.range' 0 s.tables.size).foldlM (tableStep fb s r1 r2 r) mid
    let acc ← s.ltables.toList.foldlM (ltableStep fb s r1 r2 r) acc
    some acc.reverse

/-- the factor lists `smooths` returns for the reported positions `res`. -/
def factorsAt (fb : FB) (s : State) (r1 r2 : Array Nat) (res : List Nat) : Option (List (List Nat)) :=
  res.mapM (factorsOf fb s r1 r2)

/-! ### fbase::cofactor -/

/-- `fbase::certainly_composite(n)` (Fermat test to base 2 on the Montgomery routines of C07; the
square-and-multiply loop is the one of `isprime64`: `Mg64.powLoop`). -/
def certainlyComposite (n : Nat) : Option Bool :=
  if n % 2 = 0 then some (decide (n > 2))
  else do
    let ninv ← Mg64.mg2adicInv n
    let sq ← Mg64.mgMul n ninv 2 2
    let x ← Mg64.powLoop n ninv 65 2 sq (n / 2)
    some (x ≠ 2)

/-- `loop { (q, r) = divmod(cofactor); if r == 0 { cofactor = q; exp += 1 } else break }` -/
def divideOut (p : Nat) : Nat → Nat → Nat → Option (Nat × Nat)
  | 0, _, _ => none
  | f + 1, c, e => if c % p = 0 then divideOut p f (c / p) (e + 1) else some (c, e)

/-- trial division by one listed prime: `(cofactor, factors)` after the inner loop. -/
def cofactorStep (primes : Array Nat) (st : Nat × List (Int × Nat)) (pidx : Nat) : Option (Nat × List (Int × Nat)) := do
  let pp ← primes[pidx]?                                             -- fbase.p(pidx)
  let (c, e) ← divideOut pp 300 st.1 0
  some (c, if e > 0 then st.2 ++ [((pp : Int), e)] else st.2)

/-- the part of `cofactor` after the trial division. -/
def cofactorTail (primes : Array Nat) (cof : Nat) (factors : List (Int × Nat)) (maxlarge : Nat) (double : Bool)
    (tf : Nat → Option (Nat × Nat)) : Option (Option ((Nat × Nat) × List (Int × Nat))) :=
  if cof ≥ 2 ^ 64 then some none                                     -- try_into().ok()?
  else if maxlarge * maxlarge ≥ 2 ^ 64 then none                     -- u64 overflow
  else if cof > maxlarge * maxlarge then some none
  else
    match primes.back? with
    | none => none                                                   -- bound(): unwrap
    | some maxprime =>
      if double ∧ cof > maxprime * maxprime then
        match tf cof with
        | some (p, q) => if p > maxlarge ∨ q > maxlarge then some none else some (some ((p, q), factors))
        | none => some none
      else if cof > maxlarge then some none
      else
        match certainlyComposite cof with
        | none => none
        | some cc =>
          if cc then none                                            -- debug_assert!(!certainly_composite)
          else some (some ((cof, 1), factors))

/-- `cofactor(fbase, x, facs, maxlarge, double)`; `tf` stands for `try_factor64` (Pollard rho / ECM,
"not required to be accurate": not modelled, a parameter). Outer `none` = panic/hang, inner = `None`. -/
def cofactor (primes : Array Nat) (x : Int) (facs : List Nat) (maxlarge : Nat) (double : Bool)
    (tf : Nat → Option (Nat × Nat)) : Option (Option ((Nat × Nat) × List (Int × Nat))) := do
  let factors0 : List (Int × Nat) := if x < 0 then [(-1, 1)] else []
  let (cof, factors) ← facs.foldlM (cofactorStep primes) (x.natAbs, factors0)
  cofactorTail primes cof factors maxlarge double tf

end Ymq.Sieve
