/-
C11 — every combined relation is a true congruence and yields only proper divisors.
Only property theorems live here (helper lemmas: Ymq/Lemmas/Relations*.lean).

Reading guide. The model (Ymq/Model/Relations.lean) mirrors src/relations.rs line by line.
`f … = .ok v` means "the Rust routine returns `v` without reaching any panic site"; errors are
`.panic` (assert!/unwrap/index/division by zero, both profiles), `.debug` (debug_assert!, checked
profile), `.overflow` (arithmetic overflow, checked profile), `.fuel` (model artefact).
`Valid n r` is the congruence a relation stands for: `x² ≡ cofactor · ∏ pᵏ (mod n)` over ℤ, the sign
`(-1, k)` being an ordinary factor; `fprod` is `∏ pᵏ`. `Typed r` says that the fields have their Rust
types (u64 cofactor/cycle length/exponents, i64 primes). `Inv s` (Ymq/Lemmas/RelationsStore.lean) is
the store invariant: every published cycle has cofactor 1 and is valid; `partial[p]` decodes to a
valid relation with cofactor `p`; `doubles[(p,q)]` decodes to a valid relation with cofactor `p·q`,
`p < q`; `doubles_rev` mirrors `doubles`. `bnum`/`num_integer` operations are Nat/Int arithmetic.
The theorems about single relations and the final step hold for every modulus; the store theorems
need `n ≤ 2^512` because the packed form keeps only 8 words of `x` and `Uint` products of two reduced
operands must stay below 2^1024 (the code's own limit; `above_512_bits_counterexample` shows it is
needed). The library refuses inputs above 500 bits and multipliers are below 2^8, so every store the
sieves build has `n < 2^508`.
-/
import Ymq.Lemmas.RelationsStore
import Ymq.Lemmas.RelationsFinal
import Ymq.Lemmas.RelationsDisjoint
import Ymq.Lemmas.RelationsNoPanic

namespace Ymq.C11
open Ymq.Relations

set_option exponentiation.threshold 600 in
theorem X512_eq : X512 = 2 ^ 512 := by decide +kernel

/-! ## the congruence and `combine` -/

/-- `Relation::verify` is sound: it never accepts a relation that is not a congruence. (It is not
complete, see `verify_false_negative`.) -/
theorem verify_sound (n : Nat) (r : Relation) (hty : Typed r) (h : verify n r = .ok true) :
    Valid n r := by
  unfold Typed at hty
  exact _root_.Ymq.Relations.verify_sound hty.2.2 h

/-- `RelationSet::combine`: if both inputs are congruences modulo `n`, whenever the routine returns
(i.e. one cofactor divides the other: the code's `assert!`) the result is a congruence whose
cofactor is the quotient; the divisor `d` enters the factor list as `(d as i64, 2)`, so it must
fit in an `i64`. -/
theorem combine_valid (n : Nat) (r1 r2 r : Relation) (h : combine n r1 r2 = .ok r)
    (h1 : Valid n r1) (h2 : Valid n r2) (hd : divisorCof r1 r2 < I63) :
    Valid n r ∧ r.cofactor * divisorCof r1 r2 * divisorCof r1 r2 = r1.cofactor * r2.cofactor ∧
      r.x < n ∧ r.cyclelen = r1.cyclelen + r2.cyclelen := by
  obtain ⟨_, _, _, _, hlen, _⟩ := combine_ok h
  exact ⟨combine_valid' h h1 h2 hd, (combine_divisor h).2.1, combine_x_lt h, hlen⟩

/-- the code's `assert!(r2.cofactor % r1.cofactor == 0)`: when neither cofactor divides the other
`combine` does not return. -/
theorem combine_undivisible (n : Nat) (r1 r2 : Relation) (ha : r1.cofactor % r2.cofactor ≠ 0)
    (hb : r2.cofactor % r1.cofactor ≠ 0) : ∀ r, combine n r1 r2 ≠ .ok r := by
  intro r h
  obtain ⟨_, _, _, _, _, _, hc⟩ := combine_ok h
  rcases hc with ⟨_, h1, _⟩ | ⟨_, _, _, h2, _⟩
  · exact ha h1
  · exact hb h2

/-- non-vacuity: 3² ≡ 7·(2²·3), 5² ≡ 7·(5·(-1)) (mod 15); the combination is 0² ≡ 5·(-1)·2²·3·7². -/
example :
    let r1 : Relation := { x := 3, cofactor := 7, cyclelen := 1, factors := [(2, 2), (3, 1)] }
    let r2 : Relation := { x := 5, cofactor := 7, cyclelen := 1, factors := [(5, 1), (-1, 1)] }
    Valid 15 r1 ∧ Valid 15 r2 ∧ divisorCof r2 r1 < I63 ∧
    (combine 15 r2 r1).toOption = some {
      x := 0, cofactor := 1, cyclelen := 2, factors := [(5, 1), (-1, 1), (2, 2), (3, 1), (7, 2)] } := by
  decide

/-! ## the packed form -/

/-- `unpack (pack r)`: for every relation the encoder accepts (`pack r = .ok b`: primes in
`(0, 2^32)`, odd or 2, exponents `> 0`, or the sign `-1`) with Rust-typed fields and no factor entry
with base 1, decoding returns the same cofactor and cycle length, `x mod 2^512` (8 words are kept)
and the factor list up to what the encoding deliberately normalises: `(-1, even)` is dropped,
`(-1, odd)` becomes `(-1, 1)`. -/
theorem unpack_pack (r : Relation) (b : List Nat) (h : pack r = .ok b) (hty : Typed r)
    (hno : NoOne r.factors) :
    unpack b = .ok {
      x := r.x % 2 ^ 512, cofactor := r.cofactor, cyclelen := r.cyclelen,
      factors := normFactors r.factors } := by
  rw [← X512_eq]; exact unpack_pack' h hty hno

/-- the normalisation of the factor list does not change the product -/
theorem normFactors_prod (fs : List (Int × Nat)) : fprod (normFactors fs) = fprod fs :=
  fprod_norm fs

/-- hence the packed form decodes to the same congruence, for every modulus. -/
theorem unpack_pack_verify (n : Nat) (r : Relation) (b : List Nat) (h : pack r = .ok b)
    (hty : Typed r) (hno : NoOne r.factors) (hx : r.x < 2 ^ 512) :
    ∃ r', unpack b = .ok r' ∧ r'.x = r.x ∧ r'.cofactor = r.cofactor ∧ r'.cyclelen = r.cyclelen ∧
      (Valid n r' ↔ Valid n r) := by
  refine ⟨_, unpack_pack r b h hty hno, Nat.mod_eq_of_lt hx, rfl, rfl, ?_⟩
  unfold Valid
  simp only [Nat.mod_eq_of_lt hx, fprod_norm]

/-- non-vacuity, with the relation of the repository's own round-trip test -/
example :
    let r : Relation := {
      x := 135487168713871387841578923567, cofactor := 7915738421, cyclelen := 4,
      factors := [(-1, 1), (2, 17), (3, 5), (5, 1), (9109, 1), (9173, 2), (9241, 3), (9349, 1),
        (19349, 1), (39349, 1), (289349, 1), (3879645, 1)] }
    (pack r).toOption.isSome ∧ (pack r >>= unpack).toOption = some r := by
  decide +kernel

/-- Domain remark: the code 1 stands for the prime 2, and `pack` accepts the base 1 (it passes
`p > 0 && p % 2 == 1`), so a factor entry `(1, k)` comes back as `(2, k)`. No caller produces the
base 1 (`NoOne` above; the store never squares a cofactor 1 into a factor list). -/
theorem pack_one_becomes_two :
    (pack { x := 0, cofactor := 1, cyclelen := 1, factors := [(1, 1)] } >>= unpack).toOption =
      some { x := 0, cofactor := 1, cyclelen := 1, factors := [(2, 1)] } := by
  decide +kernel

/-! ## the store -/

/-- One `add` preserves the store invariant, for every relation inside the callers' contract
`InputOK` (Rust types, a true congruence, no base 1, cofactor = p·q for the supplied pair, neither
being 1) — whichever branch is taken (complete, single large prime with or without partner, trivial
duplicate, double with 0/1/2 known primes, p = q, recursive walks of any depth). -/
theorem add_inv (s s' : Store) (r : Relation) (pq : Option (Nat × Nat)) (hi : Inv s)
    (hn : s.n ≤ 2 ^ 512) (hin : InputOK s.n r pq) (h : add r pq s = .ok s') :
    Inv s' ∧ s'.n = s.n ∧ s'.maxlarge = s.maxlarge := by
  have := add_keeps h hi (by rw [X512_eq]; exact hn) hin
  exact ⟨this.2.2, this.1, this.2.1⟩

/-- Every finite history of `add`s from `RelationSet::new` (any ordering, duplicates, trivial
relations, p = q, chains) ends in a store satisfying the invariant. By induction over the history. -/
theorem history_inv (n fbsize maxlarge : Nat) (hn : n ≤ 2 ^ 512)
    (ops : List (Relation × Option (Nat × Nat))) (hok : HistoryOK n ops) (s' : Store)
    (h : runHistory ops (Store.new n fbsize maxlarge) = .ok s') : Inv s' ∧ s'.n = n := by
  have := runHistory_keeps ops _ s' h (inv_new n fbsize maxlarge) (by rw [X512_eq]; exact hn) hok
  exact ⟨this.2.2, this.1⟩

/-- Every relation the store publishes as complete, after any history, has cofactor 1 and is a
true congruence `x² ≡ ∏ pᵏ (mod n)`. -/
theorem cycles_valid (n fbsize maxlarge : Nat) (hn : n ≤ 2 ^ 512)
    (ops : List (Relation × Option (Nat × Nat))) (hok : HistoryOK n ops) (s' : Store)
    (h : runHistory ops (Store.new n fbsize maxlarge) = .ok s') :
    ∀ r ∈ s'.cycles, r.cofactor = 1 ∧ (r.x : Int) * r.x ≡ fprod r.factors [ZMOD n] := by
  obtain ⟨hi, hn'⟩ := history_inv n fbsize maxlarge hn ops hok s' h
  intro r hr
  obtain ⟨h1, h2⟩ := hi.cyc r hr
  refine ⟨h1, ?_⟩
  unfold Valid at h2
  rw [h1, hn'] at h2
  simpa using h2

/-- non-vacuity: a history modulo 15 with a single, its partner, a double and a p = q double. -/
example :
    let ops : List (Relation × Option (Nat × Nat)) :=
      [({ x := 3, cofactor := 7, cyclelen := 1, factors := [(2, 2), (3, 1)] }, none),
       ({ x := 5, cofactor := 7, cyclelen := 1, factors := [(5, 1), (-1, 1)] }, none),
       ({ x := 4, cofactor := 121, cyclelen := 1, factors := [] }, some (11, 11)),
       ({ x := 2, cofactor := 77, cyclelen := 1, factors := [(2, 1)] }, some (11, 7))]
    HistoryOK 15 ops ∧
    ((runHistory ops (Store.new 15 3 50)).toOption.map fun s => (s.cycles.length, s.partials.map (·.1))) =
      some (2, [7, 11]) := by
  refine ⟨?_, by decide +kernel⟩
  intro op hop
  simp only [List.mem_cons, List.not_mem_nil, or_false] at hop
  rcases hop with rfl | rfl | rfl | rfl
  · exact ⟨⟨by decide, by decide, by intro f hf; revert f; decide⟩, by decide,
      by intro f hf; revert f; decide, by intro p q hpq; cases hpq⟩
  · exact ⟨⟨by decide, by decide, by intro f hf; revert f; decide⟩, by decide,
      by intro f hf; revert f; decide, by intro p q hpq; cases hpq⟩
  · refine ⟨⟨by decide, by decide, by intro f hf; revert f; decide⟩, by decide,
      by intro f hf; revert f; decide, ?_⟩
    intro p q hpq
    simp only [Option.some.injEq, Prod.mk.injEq] at hpq
    obtain ⟨rfl, rfl⟩ := hpq
    decide
  · refine ⟨⟨by decide, by decide, by intro f hf; revert f; decide⟩, by decide,
      by intro f hf; revert f; decide, ?_⟩
    intro p q hpq
    simp only [Option.some.injEq, Prod.mk.injEq] at hpq
    obtain ⟨rfl, rfl⟩ := hpq
    decide

/-- The separate invariant the property's anchor names ("No key is common with partial map"): the
code does maintain it. If no stored double has a prime that is a key of `partial` before an `add`,
none has afterwards — although the invariant is broken in the middle of a walk (the trailing
`walk_doubles` calls re-enter walks that are still in progress further up the stack; the proof
carries the set of their roots). Validity (`add_inv`) does not depend on it. -/
theorem doubles_disjoint_add (s s' : Store) (r : Relation) (pq : Option (Nat × Nat)) (hi : Inv s)
    (hn : s.n ≤ 2 ^ 512) (hin : InputOK s.n r pq) (h : add r pq s = .ok s')
    (hd : ∀ p q b, ((p, q), b) ∈ s.doubles → (∀ c, (p, c) ∉ s.partials) ∧ (∀ c, (q, c) ∉ s.partials)) :
    ∀ p q b, ((p, q), b) ∈ s'.doubles → (∀ c, (p, c) ∉ s'.partials) ∧ (∀ c, (q, c) ∉ s'.partials) := by
  have hD : Disj s := by
    intro k ⟨b, hb⟩
    obtain ⟨h1, h2⟩ := hd k.1 k.2 b hb
    exact ⟨fun ⟨c, hc⟩ => h1 c hc, fun ⟨c, hc⟩ => h2 c hc⟩
  have := add_disj h hi (by rw [X512_eq]; exact hn) hin hD
  intro p q b hb
  obtain ⟨h1, h2⟩ := this (p, q) ⟨b, hb⟩
  exact ⟨fun c hc => h1 ⟨c, hc⟩, fun c hc => h2 ⟨c, hc⟩⟩

/-- ... hence after every finite history from the empty store. -/
theorem doubles_disjoint (n fbsize maxlarge : Nat) (hn : n ≤ 2 ^ 512)
    (ops : List (Relation × Option (Nat × Nat))) (hok : HistoryOK n ops) (s' : Store)
    (h : runHistory ops (Store.new n fbsize maxlarge) = .ok s') :
    ∀ p q b, ((p, q), b) ∈ s'.doubles → (∀ c, (p, c) ∉ s'.partials) ∧ (∀ c, (q, c) ∉ s'.partials) := by
  have hD0 : Disj (Store.new n fbsize maxlarge) := by intro k ⟨b, hb⟩; cases hb
  have := runHistory_disj ops _ s' h (inv_new n fbsize maxlarge) (by rw [X512_eq]; exact hn) hok hD0
  intro p q b hb
  obtain ⟨h1, h2⟩ := this (p, q) ⟨b, hb⟩
  exact ⟨fun c hc => h1 ⟨c, hc⟩, fun c hc => h2 ⟨c, hc⟩⟩

/-- `pack` accepts exactly what the callers produce: every factor entry is the sign or a prime in
`(0, 2^32)`, 2 or odd, with a positive exponent (`FOK`). -/
theorem pack_total (r : Relation) (hf : FOK r.factors) : ∃ b, pack r = .ok b :=
  Relations.pack_total hf

/-- `add` never panics inside the callers' contract. `InputOK2 s r pq` states the contract exactly
as the three sieves guarantee it (siqs.rs:1386-1433, mpqs.rs:732-757, qsieve.rs:441-460 with
fbase::cofactor): a true congruence with Rust-typed fields; `x < n` (they reduce `x` modulo `n`);
factor entries `(-1, k)` or `(p, k)`, `0 < p < 2^32`, `p = 2` or odd, `k > 0`; `cyclelen = 1 > 0`; a
cofactor that is 1, or (below `maxlarge ≤ 2^32 - 1`) a large prime `c` with `1 < c`, `c` odd,
`c + 1 < 2^32`, or the product of the supplied pair `(p, q)` of such primes; no prime listed twice
with an odd exponent after its first entry (`TailEven`; the sieves list every prime once). On a store satisfying
`Inv` and `Inv2` (stored relations can be packed again, keys are usable large primes), no `assert!`,
`assert_eq!`, `unwrap`, index, `debug_assert!` (`x < n`, `rr.verify`) or division by zero is
reachable, `assert!(ok)` in `walk_doubles` holds, and the recursion of `walk_doubles`/
`combine_double` terminates within the fuel `doubles.len() + 1` (each non-leaf call removes a stored
double first). The only error the model can still return is `.overflow`: a `u64` exponent or
cycle-length sum exceeding 2^64 (checked profile only; needs ~2^58 combined relations). -/
theorem add_no_panic (s : Store) (r : Relation) (pq : Option (Nat × Nat)) (hi : Inv s)
    (hi2 : Inv2 s) (hn : s.n ≤ 2 ^ 512) (hin : InputOK2 s r pq) :
    ∀ e, add r pq s = .error e → e = .overflow :=
  add_np hi hi2 (by rw [X512_eq]; exact hn) hin

/-- `Inv2` is preserved as well (so `add_no_panic` applies again to the resulting store). -/
theorem add_inv2 (s s' : Store) (r : Relation) (pq : Option (Nat × Nat)) (hi : Inv s)
    (hi2 : Inv2 s) (hn : s.n ≤ 2 ^ 512) (hin : InputOK2 s r pq) (h : add r pq s = .ok s') :
    Inv2 s' :=
  Relations.add_inv2 h hi hi2 (by rw [X512_eq]; exact hn) hin

/-- Whole histories: from `RelationSet::new`, any finite sequence of `add`s inside the contract
runs to completion (or stops on a `u64` counter overflow), never on a panic. -/
theorem history_no_panic (n fbsize maxlarge : Nat) (hn : n ≤ 2 ^ 512)
    (ops : List (Relation × Option (Nat × Nat))) (hok : HistoryOK2 n maxlarge ops) :
    ∀ e, runHistory ops (Store.new n fbsize maxlarge) = .error e → e = .overflow :=
  runHistory_np ops _ (inv_new n fbsize maxlarge) (inv2_new n fbsize maxlarge)
    (by rw [X512_eq]; exact hn) hok

/-- Duplicate prime entries. `combine` appends the squared large prime as a NEW entry, so a
published cycle can list a prime several times; but only the first entry of a prime is ever
increased and every appended duplicate has exponent 2, so — for inputs that list no prime twice
with an odd exponent after its first entry — in every relation the store publishes all entries of
a prime except the first are even (`TailEven`). Consequently the parity bit that `final_step`
computes for a prime (the OR of the parities of its entries: `BitVec::set`) IS the parity of its
total exponent: the relations that reach `final_step` are normalised enough for its matrix. -/
theorem cycles_tail_even (n fbsize maxlarge : Nat) (hn : n ≤ 2 ^ 512)
    (ops : List (Relation × Option (Nat × Nat))) (hok : HistoryOK2 n maxlarge ops) (s' : Store)
    (h : runHistory ops (Store.new n fbsize maxlarge) = .ok s') :
    ∀ r ∈ s'.cycles, TailEven r.factors ∧
      ∀ p, (orParity p r.factors = true ↔ totalExp p r.factors % 2 = 1) := by
  have hi2 := runHistory_inv2 ops _ s' h (inv_new n fbsize maxlarge) (inv2_new n fbsize maxlarge)
    (by rw [X512_eq]; exact hn) hok
  intro r hr
  exact ⟨hi2.cyc r hr, fun p => tailEven_parity p (hi2.cyc r hr)⟩

/-- the hypothesis is needed: with a prime listed twice with odd exponents the OR-parity is 1 but
the total exponent is even (such a relation is outside the contract; `final_step` then fails its
`assert!(exp % 2 == 0)` rather than produce a wrong square). -/
example : orParity 3 [(3, 1), (3, 1)] = true ∧ totalExp 3 [(3, 1), (3, 1)] % 2 = 0 ∧
    ¬ TailEven [(3, 1), (3, 1)] := by decide

/-- non-vacuity of the complete contract: the history modulo 15 used above satisfies it. -/
example :
    let ops : List (Relation × Option (Nat × Nat)) :=
      [({ x := 3, cofactor := 7, cyclelen := 1, factors := [(2, 2), (3, 1)] }, none),
       ({ x := 5, cofactor := 7, cyclelen := 1, factors := [(5, 1), (-1, 1)] }, none),
       ({ x := 4, cofactor := 121, cyclelen := 1, factors := [] }, some (11, 11)),
       ({ x := 2, cofactor := 77, cyclelen := 1, factors := [(2, 1)] }, some (11, 7))]
    HistoryOK2 15 50 ops := by
  intro ops op hop s h1 h2
  have hL7 : LargeOK 7 := by decide
  have hL11 : LargeOK 11 := by decide
  simp only [ops, List.mem_cons, List.not_mem_nil, or_false] at hop
  rcases hop with rfl | rfl | rfl | rfl
  · refine ⟨⟨⟨by decide, by decide, by intro f hf; revert f; decide⟩, by rw [h1]; decide,
      by intro f hf; revert f; decide, by intro p q hpq; cases hpq⟩, by rw [h1]; decide,
      by intro f hf; revert f; decide, by decide, fun _ _ => hL7, (by intro p q hpq; cases hpq),
      by decide⟩
  · refine ⟨⟨⟨by decide, by decide, by intro f hf; revert f; decide⟩, by rw [h1]; decide,
      by intro f hf; revert f; decide, by intro p q hpq; cases hpq⟩, by rw [h1]; decide,
      by intro f hf; revert f; decide, by decide, fun _ _ => hL7, (by intro p q hpq; cases hpq),
      by decide⟩
  · refine ⟨⟨⟨by decide, by decide, by intro f hf; revert f; decide⟩, by rw [h1]; decide,
      by intro f hf; revert f; decide, ?_⟩, by rw [h1]; decide,
      by intro f hf; revert f; decide, by decide, ?_, ?_, by decide⟩
    · intro p q hpq
      simp only [Option.some.injEq, Prod.mk.injEq] at hpq
      obtain ⟨rfl, rfl⟩ := hpq
      decide
    · intro _ h; rw [h2] at h; exact absurd h (by decide)
    · intro p q hpq _
      simp only [Option.some.injEq, Prod.mk.injEq] at hpq
      obtain ⟨rfl, rfl⟩ := hpq
      exact ⟨hL11, hL11⟩
  · refine ⟨⟨⟨by decide, by decide, by intro f hf; revert f; decide⟩, by rw [h1]; decide,
      by intro f hf; revert f; decide, ?_⟩, by rw [h1]; decide,
      by intro f hf; revert f; decide, by decide, ?_, ?_, by decide⟩
    · intro p q hpq
      simp only [Option.some.injEq, Prod.mk.injEq] at hpq
      obtain ⟨rfl, rfl⟩ := hpq
      decide
    · intro _ h; rw [h2] at h; exact absurd h (by decide)
    · intro p q hpq _
      simp only [Option.some.injEq, Prod.mk.injEq] at hpq
      obtain ⟨rfl, rfl⟩ := hpq
      exact ⟨hL11, hL7⟩

/-! ## the final combination -/

/-- `try_factor(n, a, b)` for reduced operands `a, b < n` (what `final_step` passes: outputs of
`ZmodN::to_int`): no assertion is reachable — in particular not for `a = b = 0`, after fix
bf2c32c — and every returned pair is a proper factorisation `p·q = n`, `1 < p`, `1 < q` (hence
`p, q < n`). The hypothesis `a² ≡ b² (mod n)` is not needed for this. -/
theorem try_factor_proper (n a b : Nat) (ha : a < n) (hb : b < n) :
    ∃ res, tryFactor n a b = .ok res ∧
      ∀ p q, res = some (p, q) → p * q = n ∧ 1 < p ∧ 1 < q ∧ p < n ∧ q < n := by
  obtain ⟨res, h1, h2⟩ := tryFactor_proper' ha hb
  refine ⟨res, h1, ?_⟩
  intro p q hpq
  obtain ⟨hm, hp, hq⟩ := h2 p q hpq
  refine ⟨hm, hp, hq, ?_, ?_⟩
  · rw [← hm]; exact (Nat.lt_mul_iff_one_lt_right (by omega)).mpr hq
  · rw [← hm]; exact (Nat.lt_mul_iff_one_lt_left (by omega)).mpr hp

/-- non-vacuity: n = 15, a = 4, b = 11 (4² ≡ 11² ≡ 1): trivial; a = 4, b = 1: the split 5·3. -/
example : (tryFactor 15 4 11).toOption = some none ∧ (tryFactor 15 4 1).toOption = some (some (5, 3)) ∧
    (tryFactor 15 0 0).toOption = some none := by
  decide

/-- The exponent accumulation of `final_step` followed by `combine`: for complete valid relations
(`FinalRel`), any kernel vector `eq` (an arbitrary list of indices: the kernel solver is property
C14), slots holding `-1` or non-negative primes: whenever the accumulated exponents are all even
(`expFactors` passes its `assert!(exp % 2 == 0)`) the pair `(a, b)` handed to `try_factor` satisfies
`a² ≡ b² (mod n)` — the code's `assert_eq!((a * a) % n, (b * b) % n)` cannot fail — and `a, b < n`. -/
theorem even_combination_square (n : Nat) (hn : 0 < n) (slots : List Int) (rels : List Relation)
    (eq : List Nat) (hrels : ∀ r ∈ rels, FinalRel n r)
    (hslots : ∀ f ∈ slots, f = -1 ∨ (0 ≤ f ∧ f < (I63 : Int)))
    (acc : List Nat × List Nat × List (Int × Nat)) (fs : List (Int × Nat)) (ab : Nat × Nat)
    (hacc : accRels slots rels eq [] (slots.map fun _ => 0) [] = .ok acc)
    (hfs : expFactors slots acc.2.1 = .ok fs)
    (hab : combineAB n acc.1 (acc.2.2 ++ fs) = .ok ab) :
    ab.1 * ab.1 % n = ab.2 * ab.2 % n ∧ ab.1 < n ∧ ab.2 < n :=
  kernel_square hn hrels hslots hacc hfs hab

/-- consequently one whole iteration of the kernel loop (`kernelStep`: accumulate, combine, the
`assert_eq!`, `try_factor`) yields proper divisors only. -/
theorem kernel_step_proper (n : Nat) (slots : List Int) (rels : List Relation) (eq : List Nat)
    (a b p q : Nat) (h : kernelStep n slots rels eq = .ok (a, b, some (p, q))) :
    p * q = n ∧ 1 < p ∧ 1 < q :=
  kernelStep_proper h

/-- `final_step` as a whole (model of everything around the kernel solver: occurrence table,
stable sort, relation filter, kernel loop with the `pseudoprime` early exit, sort + dedup): for ANY
relations, ANY factor base, ANY kernel vectors (even wrong ones) and ANY primality oracle, IF the
routine returns (`= .ok`: no assertion fails — guaranteed for the accumulate/combine part by
`even_combination_square` when the exponents are even, and for `try_factor` by
`try_factor_proper`; it is NOT claimed that `final_step` returns for arbitrary input: wrong kernel
vectors or relations outside the factor base trip its assertions), every element of the returned
list is a divisor `d` of `n` with `1 < d < n`. -/
theorem final_step_proper (n : Nat) (fb : List Nat) (rels : List Relation)
    (kernel : List (List Nat)) (isPrime : Nat → Bool) (slots : List Int) (cnt : Nat)
    (divs : List Nat) (h : finalStep n fb rels kernel isPrime = .ok (slots, cnt, divs)) :
    ∀ d ∈ divs, 1 < d ∧ d < n ∧ d ∣ n :=
  finalStep_proper h

/-- non-vacuity: two relations modulo 15 whose product has even exponents; the step finds 3·5. -/
example :
    let rels : List Relation :=
      [{ x := 7, cofactor := 1, cyclelen := 1, factors := [(2, 2)] },
       { x := 2, cofactor := 1, cyclelen := 1, factors := [(2, 2)] }]
    (∀ r ∈ rels, FinalRel 15 r) ∧
    (kernelStep 15 [2] rels [0, 1]).toOption = some (14, 4, some (3, 5)) ∧
    (finalStep 15 [2] rels [[0, 1]] (fun _ => true)).toOption = some ([2], 2, [3, 5]) := by
  refine ⟨?_, by decide, by decide +kernel⟩
  intro r hr
  simp only [List.mem_cons, List.not_mem_nil, or_false] at hr
  rcases hr with rfl | rfl
  all_goals exact ⟨rfl, by decide, by intro f hf; revert f; decide⟩

/-! ## remarks on the edges of the contract (witnesses replayed on the real code) -/

/-- `verify` is not complete: when a prefix of the product vanishes modulo `n` and the sign follows,
`n - 0 = n` is compared unreduced. 0² ≡ 3·5·(-1) (mod 15) is a congruence that `verify` rejects.
(Needs `n ∣ x²`; harmless for the store, whose combined relations end with a positive factor.) -/
theorem verify_false_negative :
    let r : Relation := { x := 0, cofactor := 1, cyclelen := 1, factors := [(3, 1), (5, 1), (-1, 1)] }
    Valid 15 r ∧ (verify 15 r).toOption = some false := by
  decide

/-- `try_factor` relies on reduced operands: with `a = b = n` the sum is `2n`, `gcd(n, 2n) = n`
passes the `gcd > 1` test and `assert!(q.bits() > 1)` fails (`q = 1`). `final_step` only passes
outputs of `ZmodN::to_int`, which are `< n` (`even_combination_square`). -/
theorem try_factor_unreduced_panics :
    (match tryFactor 15 15 15 with | .error .panic => true | _ => false) = true := by decide

/-- The bound `n ≤ 2^512` of the store theorems is needed (the packed form keeps 8 words of `x`,
and `Uint` products wrap at 2^1024). Counter-witness with a 513-bit prime modulus: two valid
single-large-prime relations (7·3 and 7·5) with `x < n`; the first has `x ≥ 2^512`, its packed form
no longer is a congruence, and the combination fails the debug assertion `rr.verify` (checked
profile: panic; the release build publishes a cycle that is not a congruence — replayed in
corpus/C11). The library refuses inputs above 500 bits and multipliers are below 2^8, so the
sieves only build stores with `n < 2^508`. -/
theorem above_512_bits_counterexample :
    let n : Nat := 16726041804270452572290053156948817748302028439234336854656539114103478183465965372217202988186037484404750841932642732943597871402046223214758872027837567
    let r1 : Relation := {
      x := 15692708161746241229803632486591312320814626935488773036482119882159453705390675389337822573304650612417145097212410872130448361809799395515650842531628730,
      cofactor := 7, cyclelen := 1, factors := [(3, 1)] }
    let r2 : Relation := {
      x := 6548632574640154080079276714760476942672874677017165959893492956524203208114864690947907327015696768442505403271716254125661913297297375997971857171444119,
      cofactor := 7, cyclelen := 1, factors := [(5, 1)] }
    2 ^ 512 < n ∧ r1.x < n ∧ r2.x < n ∧ Valid n r1 ∧ Valid n r2 ∧
    (pack r1 >>= unpack).toOption.map (fun r => decide (Valid n r)) = some false ∧
    (match runHistory [(r1, none), (r2, none)] (Store.new n 4 100) with
      | .error .debug => true
      | _ => false) = true := by
  decide +kernel

/-- The contract's bound `p + 1 < 2^32` on large primes is needed: the callers only guarantee
`p ≤ maxlarge ≤ 2^32 - 1`, and for the one remaining value `p = 2^32 - 1` (= 3·5·17·257·65537, not a
prime, so unreachable unless the cofactor splitter returns a composite) `walk_doubles(p)` computes
`root + 1` in `u32`: overflow panic in the checked profile; the release build wraps to 0 and
`BTreeMap::range` panics unless the maps are empty. History: a single large prime 5, then a double
(5, 4294967295), both valid modulo 7. Replayed on the real code (corpus/C11, checked profile). -/
theorem walk_root_max :
    (match runHistory
        [({ x := 1, cofactor := 5, cyclelen := 1, factors := [(3, 1)] }, none),
         ({ x := 1, cofactor := 21474836475, cyclelen := 1, factors := [] }, some (5, 4294967295))]
        (Store.new 7 1 4294967295) with
      | .error .panic => true
      | _ => false) = true := by
  decide +kernel

end Ymq.C11
