/-
The loop of `SmoothBase::new` over a list of numbers (C17): on every strictly increasing list of
numbers `2 ≤ p < 2^32` no panic site is reached, every block fits its machine type, and for every
list element `p < b1` each power `p^k < b1` divides the product of all blocks.
-/
import Ymq.Lemmas.SmoothBasePack

namespace Ymq.SmoothBase
open Ymq.Primes

/-- `powOf` for a list element below `b1`: defined, positive, a multiple of every `p^k < b1` -/
theorem powOf_spec (b1 p : Nat) (hb : b1 ≤ 2 ^ 32) (hp : 2 ≤ p) (hpb : p < b1) :
    ∃ pow, powOf b1 p = some pow ∧ 1 ≤ pow ∧ ∀ k, p ^ k < b1 → p ^ k ∣ pow := by
  have hp32 : p < 2 ^ 32 := lt_of_lt_of_le hpb hb
  obtain ⟨j, hj, hj2, hj3⟩ := powBelow_start p b1 hp hp32 hb
  have hlt : p ^ (j + 1) < b1 := by
    rcases hj3 with h | h
    · subst h; simpa using hpb
    · exact h
  have h32 : p ^ (j + 1) < 2 ^ 32 := lt_of_lt_of_le hlt hb
  have hpos : 1 ≤ p ^ (j + 1) := Nat.one_le_pow _ _ (by omega)
  have hdvd : ∀ k, p ^ k < b1 → p ^ k ∣ p ^ (j + 1) := fun k hk => pow_dvd_of_lt hp hj2 hk
  unfold powOf
  rw [hj]
  simp only
  by_cases h2 : p = 2
  · rw [if_pos h2]
    have : p ^ (j + 1) * 16 < 2 ^ 64 := by omega
    rw [if_pos this]
    exact ⟨_, rfl, by omega, fun k hk => Dvd.dvd.mul_right (hdvd k hk) 16⟩
  · rw [if_neg h2]
    by_cases h3 : p = 3
    · rw [if_pos h3]
      have : p ^ (j + 1) * 3 < 2 ^ 64 := by omega
      rw [if_pos this]
      exact ⟨_, rfl, by omega, fun k hk => Dvd.dvd.mul_right (hdvd k hk) 3⟩
    · rw [if_neg h3]
      have : p ^ (j + 1) < 2 ^ 64 := by omega
      rw [if_pos this]
      exact ⟨_, rfl, hpos, hdvd⟩

theorem packLoop_spec (b1 : Nat) (ul : Bool) (hb : b1 < 2 ^ 32) :
    ∀ ps st, Inv st → (∀ p ∈ ps, 2 ≤ p) → ps.Pairwise (· < ·) →
      ∃ st', packLoop b1 ul ps st = some st' ∧ Inv st' ∧ total st ∣ total st' ∧
        ∀ p ∈ ps, p < b1 → ∀ k, p ^ k < b1 → p ^ k ∣ total st' := by
  have hmod : b1 % 2 ^ 32 = b1 := Nat.mod_eq_of_lt hb
  intro ps
  induction ps with
  | nil =>
    intro st h _ _
    exact ⟨st, rfl, h, dvd_refl _, by simp⟩
  | cons p ps ih =>
    intro st h hps hsort
    rw [List.pairwise_cons] at hsort
    unfold packLoop
    rw [hmod]
    by_cases hge : p ≥ b1
    · rw [if_pos hge]
      refine ⟨st, rfl, h, dvd_refl _, ?_⟩
      intro q hq hqb
      simp only [List.mem_cons] at hq
      rcases hq with rfl | hq
      · omega
      · have := hsort.1 q hq; omega
    · rw [if_neg hge]
      have hpb : p < b1 := Nat.lt_of_not_le hge
      have hp2 : 2 ≤ p := hps p (by simp)
      obtain ⟨pow, hpow, hpos, hdvd⟩ := powOf_spec b1 p (Nat.le_of_lt hb) hp2 hpb
      obtain ⟨st1, hs1, hi1, ht1⟩ := step_spec b1 ul st p pow h hpow hpos
      rw [hs1]
      simp only
      obtain ⟨st', hs', hi', hd', hall⟩ :=
        ih st1 hi1 (fun q hq => hps q (by simp [hq])) hsort.2
      refine ⟨st', hs', hi', ?_, ?_⟩
      · exact dvd_trans (by rw [ht1]; exact Dvd.intro _ rfl) hd'
      · intro q hq hqb k hk
        simp only [List.mem_cons] at hq
        rcases hq with rfl | hq
        · exact dvd_trans (dvd_trans (hdvd k hk) (by rw [ht1]; exact Dvd.intro_left _ rfl)) hd'
        · exact hall q hq hqb k hk

theorem finish_spec (b1 : Nat) (ul : Bool) (st : St) (h : Inv st) :
    ∃ f l, finish b1 ul st = some (f, l) ∧ (∀ x ∈ f, x < 2 ^ 64) ∧ (∀ x ∈ l, x < 2 ^ 1024) ∧
      f.prod * l.prod = total st := by
  have hlg1024 : st.bufferLg < 2 ^ 1024 :=
    lt_of_lt_of_le h.lg_lt (Nat.pow_le_pow_right (by decide) (by decide))
  -- the state after the first `if`
  have key : ∀ st1 : St, (∀ x ∈ st1.factors, x < 2 ^ 64) → (∀ x ∈ st1.larges, x < 2 ^ 1024) →
      1 ≤ st1.bufferLg → st1.bufferLg < 2 ^ 1024 →
      ∃ f l, (f, l) = (st1.factors.reverse,
          (if st1.bufferLg > 1 then st1.bufferLg :: st1.larges else st1.larges).reverse) ∧
        (∀ x ∈ f, x < 2 ^ 64) ∧ (∀ x ∈ l, x < 2 ^ 1024) ∧
        f.prod * l.prod = st1.factors.prod * st1.larges.prod * st1.bufferLg := by
    intro st1 hf hl h1 hlt
    refine ⟨_, _, rfl, ?_, ?_, ?_⟩
    · intro x hx; exact hf x (List.mem_reverse.mp hx)
    · intro x hx
      have hx := List.mem_reverse.mp hx
      split at hx
      · simp only [List.mem_cons] at hx
        rcases hx with rfl | hx
        · exact hlt
        · exact hl x hx
      · exact hl x hx
    · rw [List.prod_reverse, List.prod_reverse]
      split
      · rw [List.prod_cons]; ring
      · have : st1.bufferLg = 1 := by omega
        rw [this]; ring
  unfold finish
  by_cases hb : st.buffer > 1
  · rw [if_pos hb]
    by_cases hsm : b1 < 4096 ∨ ul = false
    · rw [if_pos hsm]
      simp only
      obtain ⟨f, l, e, hf, hl, hp⟩ := key { st with factors := st.buffer :: st.factors }
        (by
          intro x hx
          simp only [List.mem_cons] at hx
          rcases hx with rfl | hx
          · exact h.buf_lt
          · exact h.f_lt x hx) h.l_lt h.lg_pos hlg1024
      refine ⟨f, l, by rw [e], hf, hl, ?_⟩
      rw [hp]; simp only [total, List.prod_cons]; ring
    · rw [if_neg hsm]
      have hmul := two_pow_960_mul h.lg_lt h.buf_lt
      rw [if_pos hmul]
      simp only
      obtain ⟨f, l, e, hf, hl, hp⟩ := key { st with bufferLg := st.bufferLg * st.buffer }
        h.f_lt h.l_lt (by
          have : 1 * 1 ≤ st.bufferLg * st.buffer := Nat.mul_le_mul h.lg_pos h.buf_pos
          simpa using this) hmul
      refine ⟨f, l, by rw [e], hf, hl, ?_⟩
      rw [hp]; simp only [total]; ring
  · rw [if_neg hb]
    simp only
    obtain ⟨f, l, e, hf, hl, hp⟩ := key st h.f_lt h.l_lt h.lg_pos hlg1024
    refine ⟨f, l, by rw [e], hf, hl, ?_⟩
    have : st.buffer = 1 := by have := h.buf_pos; omega
    rw [hp]; simp only [total, this]; ring

/-- **Packing theorem.** For `b1 < 2^32` and every strictly increasing list `ps` of numbers `≥ 2`,
`SmoothBase::new`'s packing reaches no panic site (no `u64`/`U1024` overflow), every `u64` block is
`< 2^64`, every large block `< 2^1024`, and for every list element `p < b1` each power `p^k < b1`
divides the product of all blocks. -/
theorem pack_spec (b1 : Nat) (ul : Bool) (ps : List Nat) (hb : b1 < 2 ^ 32)
    (hps : ∀ p ∈ ps, 2 ≤ p) (hsort : ps.Pairwise (· < ·)) :
    ∃ f l, pack b1 ul ps = some (f, l) ∧ (∀ x ∈ f, x < 2 ^ 64) ∧ (∀ x ∈ l, x < 2 ^ 1024) ∧
      ∀ p ∈ ps, p < b1 → ∀ k, p ^ k < b1 → p ^ k ∣ f.prod * l.prod := by
  obtain ⟨st, hs, hi, _, hall⟩ := packLoop_spec b1 ul hb ps st0 inv_st0 hps hsort
  obtain ⟨f, l, hf, hf64, hl1024, hprod⟩ := finish_spec b1 ul st hi
  refine ⟨f, l, ?_, hf64, hl1024, ?_⟩
  · unfold pack; rw [hs]; exact hf
  · intro p hp hpb k hk
    rw [hprod]; exact hall p hp hpb k hk

end Ymq.SmoothBase
