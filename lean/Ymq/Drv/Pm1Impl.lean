import Ymq.Drv.Util
import Ymq.Model.Pm1Impl
import Ymq.Model.Pseudoprime

/-!
Driver for the whole-function model of Pollard P-1 (C16): `pm1_impl`, `pm1_quick`, `pm1_only`, and
`pm1_stage2_polyeval` alone.  Answers: `panic`, `none`, or `some f1,f2,.. rest` with the factors
in the order the function returns them.  Trailing arguments are annotations for the oracle.
-/
namespace Ymq.Drv
open Ymq.Pm1Impl

def pm1ImplPP (p : Nat) : Bool := match Ymq.Pseudoprime.pseudoprime p with | some b => b | none => false

def showPm1Result : Option (Option (List Nat × Nat)) → String
  | none => "panic"
  | some none => "none"
  | some (some (fs, rest)) => s!"some {showList fs} {rest}"

def handlePm1Impl : Handler
  | "pm1_impl" :: n :: b1 :: b2 :: _ => do
    let n ← parseNat n; let b1 ← parseNat b1; let b2 ← parseNat b2
    if b1 ≥ 2 ^ 64 ∨ n ≥ 2 ^ 1024 then none else
    some (showPm1Result (pm1Impl n b1 b2 pm1ImplPP))
  | "pm1_quick_full" :: n :: _ => do
    let n ← parseNat n
    if n ≥ 2 ^ 1024 then none else some (showPm1Result (pm1Quick n pm1ImplPP))
  | "pm1_only_full" :: n :: _ => do
    let n ← parseNat n
    if n ≥ 2 ^ 1024 then none else some (showPm1Result (pm1Only n pm1ImplPP))
  -- pm1_stage2_polyeval(zn, b2, g) alone (g given as a residue): `facs rest` of its gcd_factors call
  | ["pm1_polyeval", n, b2, g] => do
    let n ← parseNat n; let b2 ← parseNat b2; let g ← parseNat g
    if n % 2 = 0 ∨ n < 3 ∨ n ≥ 2 ^ 512 then none else
    match Ymq.Gen.Stage2.pm1Stage2Select b2 1 with
    | none => some "panic"
    | some (_, d1, d2) =>
      some (match polyVals n d1 d2 (g % n) with
        | none => "panic"
        | some vals =>
          match Ymq.ExpModn.gcdFactors n vals pm1ImplPP with
          | none => "panic"
          | some (fs, rest) => s!"{showList fs} {rest}")
  | _ => none

end Ymq.Drv
