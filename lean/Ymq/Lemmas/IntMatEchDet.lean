/-
Abstract core of `echelon_det`: if the rows `V t` of a square matrix are
`V t = f t • B t + Σ_{s<t} c t s • B s` for an echelon basis `B` whose pivot columns are given by a
permutation `σ` (`B t (σ t) = 1`, `B t (σ s) = 0` for `s < t`), then `det V = sign σ · ∏ f`.
This is the invariant kept by `GFpEchelonBuilder::add` and the formula evaluated by `det`.
-/
import Mathlib.LinearAlgebra.Matrix.Block
import Mathlib.LinearAlgebra.Matrix.Determinant.Basic

namespace Ymq.IntMat
open Matrix

variable {n : Nat} {R : Type*} [CommRing R]

/-- an echelon basis has determinant `sign σ` -/
theorem det_echelon_basis (B : Matrix (Fin n) (Fin n) R) (σ : Equiv.Perm (Fin n))
    (hone : ∀ t, B t (σ t) = 1) (hzero : ∀ t s, s < t → B t (σ s) = 0) :
    B.det = ((Equiv.Perm.sign σ : ℤ) : R) := by
  have htri : (B.submatrix id σ).IsUpperTriangular := by
    intro i j hij
    exact hzero i j hij
  have h1 : (B.submatrix id σ).det = 1 := by
    rw [det_of_isUpperTriangular htri]
    apply Finset.prod_eq_one
    intro i _
    exact hone i
  rw [det_permute'] at h1
  -- sign σ * det B = 1 and sign σ = ±1
  have hs : ((Equiv.Perm.sign σ : ℤ) : R) * ((Equiv.Perm.sign σ : ℤ) : R) = 1 := by
    rcases Int.units_eq_one_or (Equiv.Perm.sign σ) with h | h <;> simp [h]
  calc B.det = (((Equiv.Perm.sign σ : ℤ) : R) * ((Equiv.Perm.sign σ : ℤ) : R)) * B.det := by rw [hs, one_mul]
    _ = ((Equiv.Perm.sign σ : ℤ) : R) * (((Equiv.Perm.sign σ : ℤ) : R) * B.det) := by ring
    _ = ((Equiv.Perm.sign σ : ℤ) : R) := by rw [h1, mul_one]

/-- **determinant of an echelonised matrix** -/
theorem det_of_echelon (V B : Matrix (Fin n) (Fin n) R) (σ : Equiv.Perm (Fin n)) (f : Fin n → R)
    (c : Fin n → Fin n → R)
    (hone : ∀ t, B t (σ t) = 1) (hzero : ∀ t s, s < t → B t (σ s) = 0)
    (hrow : ∀ t, V t = f t • B t + ∑ s ∈ Finset.univ.filter (· < t), c t s • B s) :
    V.det = ((Equiv.Perm.sign σ : ℤ) : R) * ∏ t, f t := by
  -- V = L * B with L lower triangular, diagonal f
  let L : Matrix (Fin n) (Fin n) R := fun t s => if s < t then c t s else if s = t then f t else 0
  have hL : L.IsLowerTriangular := by
    intro i j hij
    have hij' : i < j := hij
    simp only [L]
    rw [if_neg (by omega), if_neg (by omega)]
  have hVL : V = L * B := by
    ext t col
    rw [hrow t, Matrix.mul_apply]
    simp only [Pi.add_apply, Pi.smul_apply, Finset.sum_apply, smul_eq_mul]
    -- split the sum over s into s < t, s = t, s > t
    have : ∑ s, L t s * B s col =
        ∑ s ∈ Finset.univ.filter (· < t), c t s * B s col + f t * B t col := by
      rw [← Finset.sum_filter_add_sum_filter_not Finset.univ (· < t)]
      congr 1
      · apply Finset.sum_congr rfl
        intro s hs
        have : s < t := (Finset.mem_filter.mp hs).2
        simp only [L, if_pos this]
      · rw [Finset.sum_eq_single t]
        · simp [L]
        · intro s hs hne
          have : ¬ s < t := (Finset.mem_filter.mp hs).2
          simp only [L, if_neg this, if_neg hne, zero_mul]
        · intro ht
          exfalso; apply ht
          rw [Finset.mem_filter]
          exact ⟨Finset.mem_univ _, lt_irrefl t⟩
    rw [this]; ring
  rw [hVL, det_mul, det_of_isLowerTriangular L hL, det_echelon_basis B σ hone hzero]
  have : ∏ i, L i i = ∏ t, f t := by
    apply Finset.prod_congr rfl
    intro i _
    simp [L]
  rw [this]; ring

end Ymq.IntMat
