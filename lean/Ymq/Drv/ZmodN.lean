/-
Driver ops for the multiword Montgomery ring and M128 (C07). Request lines:

  zn_new n                      -> k ninv64 r r2          (r, r2: integer value of the MInt words)
  zn_mul n xm ym                -> zm                      (xm, ym, zm: integer value of the 8 MInt words)
  zn_mulmod n xm ym             -> zm                      (`mint_mulmod` alone, before the conditional subtraction)
  zn_add n xm ym | zn_sub n xm ym -> zm
  zn_redc n x                   -> zm                      (x < 2^1024: the 16 input words)
  zn_redc_large n w0,w1,...     -> zm                      (x given as a word list)
  zn_from_int n x               -> zm
  zn_to_int n xm                -> x
  zn_from_to n x                -> to_int(from_int(x))
  zn_inv n xm                   -> none | some zm
  zn_gcd n xm                   -> d
  mint_lt xs ns sz              -> true|false              (xs, ns word lists)
  mint_add xs ys sz             -> word list
  mint_sub xs ys sz             -> word list               (xs: 8 words)
  mg_inv n ninv r2 x            -> none | some r           (64-bit `mg_inv`; lives here because Drv/Mg64.lean is shared)
  m128_inv_2adic n | m128_r_r2 n ninv (-> r r2) | m128_add n x y | m128_sub n x y | m128_mul n ninv x y
`panic` whenever the model returns `none`.
-/
import Ymq.Drv.Util
import Ymq.Model.ZmodN
import Ymq.Model.M128
import Ymq.Model.Mg64Inv

namespace Ymq.Drv
open Ymq.Limbs Ymq.ZmodN

private def showMInt : Option (List Nat) → String
  | none => "panic"
  | some m => toString (val m)

private def showON : Option Nat → String
  | none => "panic"
  | some x => toString x

/-- run `f` in the context `ZmodN::new(n)` -/
private def withCtx (n : Nat) (f : Ctx → String) : String :=
  match ZmodN.new n with
  | none => "panic"
  | some c => f c

def handleZmodN : Handler
  | ["zn_new", n] => do
    let n ← parseNat n
    some (withCtx n fun c => s!"{c.k} {c.ninv} {val c.r} {val c.r2}")
  | ["zn_mul", n, x, y] => do
    let n ← parseNat n; let x ← parseNat x; let y ← parseNat y
    some (withCtx n fun c => showMInt (mul c (ofNat 8 x) (ofNat 8 y)))
  | ["zn_mulmod", n, x, y] => do
    let n ← parseNat n; let x ← parseNat x; let y ← parseNat y
    some (withCtx n fun c => showMInt (mintMulmod c (ofNat 8 x) (ofNat 8 y)))
  | ["zn_add", n, x, y] => do
    let n ← parseNat n; let x ← parseNat x; let y ← parseNat y
    some (withCtx n fun c => showMInt (add c (ofNat 8 x) (ofNat 8 y)))
  | ["zn_sub", n, x, y] => do
    let n ← parseNat n; let x ← parseNat x; let y ← parseNat y
    some (withCtx n fun c => showMInt (sub c (ofNat 8 x) (ofNat 8 y)))
  | ["zn_redc", n, x] => do
    let n ← parseNat n; let x ← parseNat x
    some (withCtx n fun c => showMInt (redc c (ofNat 16 x)))
  | ["zn_redc_large", n, ws] => do
    let n ← parseNat n; let ws ← parseNatList ws
    some (withCtx n fun c => showMInt (redcLarge c ws))
  | ["zn_from_int", n, x] => do
    let n ← parseNat n; let x ← parseNat x
    some (withCtx n fun c => showMInt (fromInt c x))
  | ["zn_to_int", n, x] => do
    let n ← parseNat n; let x ← parseNat x
    some (withCtx n fun c => showON (toInt c (ofNat 8 x)))
  | ["zn_from_to", n, x] => do
    let n ← parseNat n; let x ← parseNat x
    some (withCtx n fun c => showON ((fromInt c x).bind (toInt c)))
  | ["zn_inv", n, x] => do
    let n ← parseNat n; let x ← parseNat x
    some (withCtx n fun c =>
      match inv invModRef c (ofNat 8 x) with
      | none => "panic"
      | some none => "none"
      | some (some m) => s!"some {val m}")
  | ["zn_gcd", n, x] => do
    let n ← parseNat n; let x ← parseNat x
    some (withCtx n fun c => toString (gcd c (ofNat 8 x)))
  | ["mint_lt", xs, ns, sz] => do
    let xs ← parseNatList xs; let ns ← parseNatList ns; let sz ← parseNat sz
    some (match mintLt xs ns sz with | none => "panic" | some b => showBool b)
  | ["mint_add", xs, ys, sz] => do
    let xs ← parseNatList xs; let ys ← parseNatList ys; let sz ← parseNat sz
    some (match mintAdd xs ys sz with | none => "panic" | some l => showList l)
  | ["mint_sub", xs, ys, sz] => do
    let xs ← parseNatList xs; let ys ← parseNatList ys; let sz ← parseNat sz
    some (match mintSub xs ys sz with | none => "panic" | some l => showList l)
  | ["mg_inv", n, ninv, r2, x] => do
    let n ← parseNat n; let ninv ← parseNat ninv; let r2 ← parseNat r2; let x ← parseNat x
    some (match Ymq.Mg64.mgInv n ninv r2 x with
      | none => "panic"
      | some none => "none"
      | some (some r) => s!"some {r}")
  | ["m128_inv_2adic", n] => do
    let n ← parseNat n
    some (showON (Ymq.M128.inv2adic n))
  | ["m128_r_r2", n, ninv] => do
    let n ← parseNat n; let ninv ← parseNat ninv
    some (match Ymq.M128.rR2 n ninv with | none => "panic" | some (r, r2) => s!"{r} {r2}")
  | ["m128_add", n, x, y] => do
    let n ← parseNat n; let x ← parseNat x; let y ← parseNat y
    some (showON (Ymq.M128.add n x y))
  | ["m128_sub", n, x, y] => do
    let n ← parseNat n; let x ← parseNat x; let y ← parseNat y
    some (showON (Ymq.M128.sub n x y))
  | ["m128_mul", n, ninv, x, y] => do
    let n ← parseNat n; let ninv ← parseNat ninv; let x ← parseNat x; let y ← parseNat y
    some (showON (Ymq.M128.mul n ninv x y))
  | _ => none

end Ymq.Drv
