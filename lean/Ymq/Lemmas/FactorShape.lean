/-
The shape lemma for one level of `factor_impl`: whatever the oracle answers, the result of
`factorStep` is one of the forms listed in `Shape`. All later inductions (structure of the
pushed elements, exact product, totality) case on `Shape` instead of re-walking the model.
-/
import Ymq.Lemmas.FactorOracle

namespace Ymq.Factor

variable {σ : Type}

/-- `s1` is `s` up to the oracle state and the `pm1_done` flag -/
def St.sim (s s1 : St σ) : Prop := s1.factors = s.factors ∧ s1.giveups = s.giveups

theorem St.sim_refl (s : St σ) : s.sim s := ⟨rfl, rfl⟩
theorem St.sim_trans {s s1 s2 : St σ} (h1 : s.sim s1) (h2 : s1.sim s2) : s.sim s2 :=
  ⟨h2.1.trans h1.1, h2.2.trans h1.2⟩

/-! ### sequencing -/

theorem bindList_append (f : St σ → Nat → Res (St σ)) (l1 l2 : List Nat) (s : St σ) :
    bindList f (l1 ++ l2) s =
      match bindList f l1 s with
      | .ok s' => bindList f l2 s'
      | .panic e => .panic e
      | .fuel => .fuel := by
  induction l1 generalizing s with
  | nil => simp [bindList]
  | cons a as ih =>
    simp only [List.cons_append, bindList]
    cases f s a with
    | ok s' => simpa using ih s'
    | panic e => rfl
    | fuel => rfl

theorem splitManyR_eq (rec : Nat → St σ → Res (St σ)) (s : St σ) (as : List Nat) (b : Nat) :
    splitManyR rec s as b = bindList (fun s m => rec m s) (as ++ [b]) s := by
  rw [bindList_append]
  unfold splitManyR
  cases bindList (fun s m => rec m s) as s with
  | ok s' =>
    simp only [bindList]
    cases rec b s' <;> rfl
  | panic e => rfl
  | fuel => rfl

theorem splitTwoR_eq (rec : Nat → St σ → Res (St σ)) (s : St σ) (a b : Nat) :
    splitTwoR rec s a b = bindList (fun s m => rec m s) [a, b] s := by
  unfold splitTwoR
  simp only [bindList]
  cases rec a s with
  | ok s' =>
    dsimp only
    cases rec b s' <;> rfl
  | panic e => rfl
  | fuel => rfl

theorem ppResult_congr (s s' : St σ) (h : s.factors = s'.factors) (k : Nat) (r : Res (St σ)) :
    ppResult s k r = ppResult s' k r := by
  cases r <;> simp [ppResult, h]

/-! ### the shape of one level -/

/-- The possible results of one level of `factor_impl` for argument `n` entered in state `s`. -/
inductive Shape (o : Oracle σ) (rec : Nat → St σ → Res (St σ)) (n : Nat) (alg : Algo) (s : St σ) :
    Res (St σ) → Prop
  /-- `if n.is_one() { return }` -/
  | one : n = 1 → Shape o rec n alg s (.ok s)
  /-- perfect power `n = p^k`: recursive call on `p` with an empty vector, appended `k` times -/
  | pp (p k : Nat) (s0 : St σ) : n ≠ 1 → (o.pp s.os n).1 = some (p, k) → s0.factors = [] →
      s0.giveups = s.giveups → Shape o rec n alg s (ppResult s k (rec p s0))
  /-- `pseudoprime(n)` answered true (in oracle state `t`): `n` pushed -/
  | prime (s1 : St σ) (t : σ) : n ≠ 1 → s.sim s1 → (o.prime t n).1 = true →
      Shape o rec n alg s (.ok (s1.push n))
  /-- explicit give-up: `n` pushed unsplit (sub-algorithm returned none / abort / empty divisors) -/
  | giveup (s1 : St σ) : n ≠ 1 → s.sim s1 → Shape o rec n alg s (.ok (s1.giveup n))
  /-- a splitting sub-algorithm succeeded: recursive calls over its parts, in order -/
  | split (s1 : St σ) (L : List Nat) : n ≠ 1 → s.sim s1 → IsSplit o n L →
      Shape o rec n alg s (bindList (fun s m => rec m s) L s1)
  /-- a sieve returned the non-empty divisor list `ds`; combination loop then final loop -/
  | sieve (s1 : St σ) (t : σ) (a : Algo) (ds facs : List Nat) : n ≠ 1 → s.sim s1 →
      (o.sieve t a n).1 = .divs ds → combineDivs [n] ds = .ok facs →
      Shape o rec n alg s (bindList (finalStep o rec n) facs s1)
  /-- `assert!(n.bits() <= 64)` of the Qs64 / Rho / Squfof arms -/
  | panicBits (e : String) : alg = .qs64 ∨ alg = .rho ∨ alg = .squfof → 64 < bits n →
      Shape o rec n alg s (.panic e)
  /-- `n / Uint::from(d)` with `d = 0` -/
  | panicUnexpected (t : σ) (a : Algo) (e : String) : (o.sieve t a n).1 = .unexpected 0 →
      Shape o rec n alg s (.panic e)
  /-- division by zero or `assert!(residue.is_one())` in the combination loop -/
  | panicCombine (t : σ) (a : Algo) (ds : List Nat) (e : String) : (o.sieve t a n).1 = .divs ds →
      combineDivs [n] ds = .panic e → Shape o rec n alg s (.panic e)
  /-- (never happens: `combineDivs` has no fuel) -/
  | fuelCombine (ds : List Nat) : combineDivs [n] ds = .fuel → Shape o rec n alg s .fuel

variable {o : Oracle σ} {rec : Nat → St σ → Res (St σ)} {n : Nat} {alg : Algo}

theorem autoRho_inl {s s0 : St σ} (hn : n ≠ 1) (hsim : s.sim s0) {r : Res (St σ)}
    (h : autoRho o rec n s0 = .inl r) : Shape o rec n alg s r := by
  unfold autoRho at h
  split at h
  · split at h
    · rename_i as b hrho
      injection h with h; subst h
      rw [splitManyR_eq]
      exact Shape.split _ _ hn hsim (IsSplit.rho s0.os as b hrho)
    · exact absurd h (by simp)
  · exact absurd h (by simp)

theorem autoRho_inr {s0 s1 : St σ} (h : autoRho o rec n s0 = .inr s1) : s0.sim s1 := by
  unfold autoRho at h
  split at h
  · split at h
    · exact absurd h (by simp)
    · injection h with h; subst h; exact ⟨rfl, rfl⟩
  · injection h with h; subst h; exact ⟨rfl, rfl⟩

theorem autoPm1_inl {s s0 : St σ} (hn : n ≠ 1) (hsim : s.sim s0) {r : Res (St σ)}
    (h : autoPm1 o rec n s0 = .inl r) : Shape o rec n alg s r := by
  unfold autoPm1 at h
  split at h
  · split at h
    · rename_i as b hpm
      injection h with h; subst h
      rw [splitManyR_eq]
      exact Shape.split _ _ hn (St.sim_trans hsim ⟨rfl, rfl⟩) (IsSplit.pm1q s0.os as b hpm)
    · exact absurd h (by simp)
  · exact absurd h (by simp)

theorem autoPm1_inr {s0 s1 : St σ} (h : autoPm1 o rec n s0 = .inr s1) : s0.sim s1 := by
  unfold autoPm1 at h
  split at h
  · split at h
    · exact absurd h (by simp)
    · injection h with h; subst h; exact ⟨rfl, rfl⟩
  · injection h with h; subst h; exact ⟨rfl, rfl⟩

theorem autoEcm_inl {s s0 : St σ} (hn : n ≠ 1) (hsim : s.sim s0) {r : Res (St σ)}
    (h : autoEcm o rec n s0 = .inl r) : Shape o rec n alg s r := by
  unfold autoEcm at h
  split at h
  · rename_i a b hecm
    injection h with h; subst h
    rw [splitTwoR_eq]
    exact Shape.split _ _ hn (St.sim_trans hsim ⟨rfl, rfl⟩) (IsSplit.ecmauto s0.os a b hecm)
  · exact absurd h (by simp)

theorem autoEcm_inr {s0 s1 : St σ} {a : Algo} (h : autoEcm o rec n s0 = .inr (a, s1)) :
    s0.sim s1 ∧ (a = .ecm128 ∨ a = .siqs) := by
  unfold autoEcm at h
  split at h
  · exact absurd h (by simp)
  · injection h with h
    injection h with h1 h2
    subst h2
    refine ⟨⟨rfl, rfl⟩, ?_⟩
    split at h1 <;> simp [← h1]

theorem autoPhase_inl {s s0 : St σ} (hn : n ≠ 1) (hsim : s.sim s0) {r : Res (St σ)}
    (h : autoPhase o rec n alg s0 = .inl r) : Shape o rec n alg s r := by
  unfold autoPhase at h
  split at h
  · split at h
    · rename_i r' hr
      injection h with h; subst h
      exact autoRho_inl hn hsim hr
    · rename_i s1 hr
      have hs1 := St.sim_trans hsim (autoRho_inr hr)
      split at h
      · rename_i r' hr2
        injection h with h; subst h
        exact autoPm1_inl hn hs1 hr2
      · rename_i s2 hr2
        exact autoEcm_inl hn (St.sim_trans hs1 (autoPm1_inr hr2)) h
  · exact absurd h (by simp)

/-- when control leaves the Auto strategy: the selector is never Auto again; an explicit
selector is unchanged and so is the state -/
theorem autoPhase_inr {s0 s1 : St σ} {a : Algo} (h : autoPhase o rec n alg s0 = .inr (a, s1)) :
    s0.sim s1 ∧ ((alg = .auto ∧ (a = .ecm128 ∨ a = .siqs)) ∨ (alg ≠ .auto ∧ a = alg ∧ s1 = s0)) := by
  unfold autoPhase at h
  split at h
  · rename_i halg
    split at h
    · exact absurd h (by simp)
    · rename_i s1' hr
      split at h
      · exact absurd h (by simp)
      · rename_i s2 hr2
        obtain ⟨h1, h2⟩ := autoEcm_inr h
        exact ⟨St.sim_trans (St.sim_trans (autoRho_inr hr) (autoPm1_inr hr2)) h1, Or.inl ⟨halg, h2⟩⟩
  · rename_i halg
    injection h with h
    injection h with h1 h2
    subst h1 h2
    exact ⟨⟨rfl, rfl⟩, Or.inr ⟨halg, rfl, rfl⟩⟩

theorem armMany_shape {s s0 : St σ} (hn : n ≠ 1) (hsim : s.sim s0)
    {q : Option (List Nat × Nat) × σ} (hq : ∀ as b, q.1 = some (as, b) → IsSplit o n (as ++ [b]))
    {r : Res (St σ)} (h : armMany rec n s0 q = .inl r) : Shape o rec n alg s r := by
  unfold armMany at h
  split at h
  · rename_i as b hq'
    injection h with h; subst h
    rw [splitManyR_eq]
    exact Shape.split _ _ hn (St.sim_trans hsim ⟨rfl, rfl⟩) (hq as b hq')
  · injection h with h; subst h
    exact Shape.giveup _ hn (St.sim_trans hsim ⟨rfl, rfl⟩)

theorem armMany_ne_inr {s0 s1 : St σ} {q : Option (List Nat × Nat) × σ} :
    armMany rec n s0 q ≠ .inr s1 := by
  unfold armMany; split <;> simp

theorem armTwo_shape {s s0 : St σ} (hn : n ≠ 1) (hsim : s.sim s0)
    {q : Option (Nat × Nat) × σ} (hq : ∀ a b, q.1 = some (a, b) → IsSplit o n [a, b])
    {r : Res (St σ)} (h : armTwo rec n s0 q = .inl r) : Shape o rec n alg s r := by
  unfold armTwo at h
  split at h
  · rename_i a b hq'
    injection h with h; subst h
    rw [splitTwoR_eq]
    exact Shape.split _ _ hn (St.sim_trans hsim ⟨rfl, rfl⟩) (hq a b hq')
  · injection h with h; subst h
    exact Shape.giveup _ hn (St.sim_trans hsim ⟨rfl, rfl⟩)

theorem armTwo_ne_inr {s0 s1 : St σ} {q : Option (Nat × Nat) × σ} :
    armTwo rec n s0 q ≠ .inr s1 := by
  unfold armTwo; split <;> simp

theorem armPhase_inl {s s0 : St σ} {a : Algo} (hn : n ≠ 1) (hsim : s.sim s0)
    (ha : a ≠ .auto) (haa : a = alg ∨ a = .ecm128 ∨ a = .siqs) {r : Res (St σ)}
    (h : armPhase o rec n a s0 = .inl r) : Shape o rec n alg s r := by
  unfold armPhase at h
  split at h
  · exact absurd rfl ha
  · exact armMany_shape hn hsim (fun as b hq => IsSplit.pm1 s0.os as b hq) h
  · exact armTwo_shape hn hsim (fun a b hq => IsSplit.ecm s0.os a b hq) h
  · exact armTwo_shape hn hsim (fun a b hq => IsSplit.ecm128 s0.os a b hq) h
  · split at h
    · rename_i hb
      injection h with h; subst h
      exact Shape.panicBits _ (by rcases haa with h | h | h <;> simp_all) hb
    · exact armTwo_shape hn hsim (fun a b hq => IsSplit.qs64 s0.os a b hq) h
  · split at h
    · rename_i hb
      injection h with h; subst h
      exact Shape.panicBits _ (by rcases haa with h | h | h <;> simp_all) hb
    · exact armMany_shape hn hsim (fun as b hq => IsSplit.rho s0.os as b hq) h
  · split at h
    · rename_i hb
      injection h with h; subst h
      exact Shape.panicBits _ (by rcases haa with h | h | h <;> simp_all) hb
    · exact armTwo_shape hn hsim (fun a b hq => IsSplit.squfof s0.os a b hq) h
  all_goals exact absurd h (by simp)

/-- control falls out of the `match alg_real` only for the three sieve selectors -/
theorem armPhase_inr {s0 s1 : St σ} {a : Algo} (h : armPhase o rec n a s0 = .inr s1) :
    (a = .qs ∨ a = .mpqs ∨ a = .siqs) ∧ s1 = s0 := by
  unfold armPhase at h
  split at h
  · exact absurd h (by simp)
  · exact absurd h armMany_ne_inr
  · exact absurd h armTwo_ne_inr
  · exact absurd h armTwo_ne_inr
  · split at h
    · exact absurd h (by simp)
    · exact absurd h armTwo_ne_inr
  · split at h
    · exact absurd h (by simp)
    · exact absurd h armMany_ne_inr
  · split at h
    · exact absurd h (by simp)
    · exact absurd h armTwo_ne_inr
  all_goals
    injection h with h; subst h
    exact ⟨by simp, rfl⟩

theorem sieveResult_shape {s s1 : St σ} (hn : n ≠ 1) (hsim : s.sim s1) (t : σ) (a : Algo)
    {sr : SieveRes} (hsr : (o.sieve t a n).1 = sr) :
    Shape o rec n alg s (sieveResult o rec n s1 sr) := by
  unfold sieveResult
  split
  · rename_i d
    split
    · rename_i hd; subst hd
      exact Shape.panicUnexpected t a _ hsr
    · rename_i hd
      rw [splitTwoR_eq]
      exact Shape.split _ _ hn hsim (IsSplit.unexpected t a d hsr hd)
  · exact Shape.giveup _ hn hsim
  · rename_i ds _
    split
    · rename_i e he
      exact Shape.panicCombine t a ds e hsr he
    · rename_i he
      exact Shape.fuelCombine ds he
    · rename_i facs he
      exact Shape.sieve _ t a ds facs hn hsim hsr he

theorem sievePhase_shape {s s1 : St σ} {a : Algo} (hn : n ≠ 1) (hsim : s.sim s1)
    (ha : a = .qs ∨ a = .mpqs ∨ a = .siqs) :
    Shape o rec n alg s (sievePhase o rec n a s1) := by
  unfold sievePhase
  split
  · exact Shape.giveup _ hn (St.sim_trans hsim ⟨rfl, rfl⟩)
  · split
    · rename_i hne
      rcases ha with h | h | h <;> simp [h] at hne
    · have hs : s.sim { s1 with os := (o.sieve (o.abort s1.os n).2 a n).2 } :=
        St.sim_trans hsim ⟨rfl, rfl⟩
      exact sieveResult_shape hn hs (o.abort s1.os n).2 a rfl

theorem compositePhase_shape {s s0 : St σ} (hn : n ≠ 1) (hsim : s.sim s0) :
    Shape o rec n alg s (compositePhase o rec n alg s0) := by
  unfold compositePhase
  split
  · rename_i r h
    exact autoPhase_inl hn hsim h
  · rename_i a s1 h
    obtain ⟨hs1, hcase⟩ := autoPhase_inr h
    have hs1' := St.sim_trans hsim hs1
    have ha : a ≠ .auto := by
      rcases hcase with ⟨_, h | h⟩ | ⟨h1, h2, _⟩
      · simp [h]
      · simp [h]
      · rw [h2]; exact h1
    have haa : a = alg ∨ a = .ecm128 ∨ a = .siqs := by
      rcases hcase with ⟨_, h | h⟩ | ⟨h1, h2, _⟩
      · exact Or.inr (Or.inl h)
      · exact Or.inr (Or.inr h)
      · exact Or.inl h2
    split
    · rename_i r h2
      exact armPhase_inl hn hs1' ha haa h2
    · rename_i s2 h2
      obtain ⟨hq, hs2⟩ := armPhase_inr h2
      subst hs2
      exact sievePhase_shape hn hs1' hq

/-- **Shape lemma.** For every oracle, every `rec`, every argument and state. -/
theorem factorStep_shape (o : Oracle σ) (rec : Nat → St σ → Res (St σ)) (n : Nat) (alg : Algo)
    (s : St σ) : Shape o rec n alg s (factorStep o rec n alg s) := by
  unfold factorStep
  split
  · rename_i h1; exact Shape.one h1
  · rename_i hn
    split
    · rename_i p k hpp
      exact Shape.pp p k _ hn hpp rfl rfl
    · split
      · rename_i hp
        exact Shape.prime _ _ hn ⟨rfl, rfl⟩ hp
      · rename_i hp
        exact compositePhase_shape hn ⟨rfl, rfl⟩

/-- the shape lemma for the model itself -/
theorem factorImpl_shape (o : Oracle σ) (fuel n : Nat) (alg : Algo) (s : St σ) :
    Shape o (fun m s => factorImpl o fuel m alg s) n alg s (factorImpl o (fuel + 1) n alg s) := by
  rw [factorImpl_succ]
  exact factorStep_shape _ _ _ _ _

end Ymq.Factor
