import Ymq.Props.C11
#print axioms Ymq.C11.verify_sound
#print axioms Ymq.C11.combine_valid
#print axioms Ymq.C11.combine_undivisible
#print axioms Ymq.C11.unpack_pack
#print axioms Ymq.C11.normFactors_prod
#print axioms Ymq.C11.unpack_pack_verify
#print axioms Ymq.C11.pack_one_becomes_two
#print axioms Ymq.C11.add_inv
#print axioms Ymq.C11.history_inv
#print axioms Ymq.C11.cycles_valid
#print axioms Ymq.C11.try_factor_proper
#print axioms Ymq.C11.even_combination_square
#print axioms Ymq.C11.kernel_step_proper
#print axioms Ymq.C11.verify_false_negative
