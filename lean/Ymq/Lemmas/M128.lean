/-
Lemmas about the model of the 128-bit Montgomery type `M128` (Ymq/Model/M128.lean):
`mul256` is the exact 256-bit product without overflow, `mul` (modulus above 64 bits) is a
Montgomery product with `R = 2^128`, `add`/`sub` are modular addition/subtraction.
-/
import Ymq.Model.M128
import Ymq.Lemmas.Mg64
import Ymq.Lemmas.MillerTz
import Mathlib.Data.Nat.ModEq
import Mathlib.Tactic.Ring
import Mathlib.Tactic.Linarith

namespace Ymq.M128
open Ymq.Mg64 (W tzAux_spec le_of_pow_dvd_of_odd_quot)

theorem W2_eq : W2 = W * W := by decide
theorem W_pos : 0 < W := by decide
theorem W2_pos : 0 < W2 := by decide

/-- `mul256` is the exact 256-bit product and none of its checked additions overflows -/
theorem mul256_spec (x y : Nat) (hx : x < W2) (hy : y < W2) :
    mul256 x y = some (x * y % W2, x * y / W2) := by
  have hx1 : x / W < W := by rw [Nat.div_lt_iff_lt_mul W_pos, ← W2_eq]; exact hx
  have hy1 : y / W < W := by rw [Nat.div_lt_iff_lt_mul W_pos, ← W2_eq]; exact hy
  have ex := Nat.div_add_mod x W
  have ey := Nat.div_add_mod y W
  have hx0 : x % W < W := Nat.mod_lt _ W_pos
  have hy0 : y % W < W := Nat.mod_lt _ W_pos
  unfold mul256
  simp only [Nat.mod_eq_of_lt hx1, Nat.mod_eq_of_lt hy1]
  generalize x % W = x0 at *
  generalize x / W = x1 at *
  generalize y % W = y0 at *
  generalize y / W = y1 at *
  have em := Nat.div_add_mod (x0 * y1 + x1 * y0) W2
  have hmid : (x0 * y1 + x1 * y0) % W2 < W2 := Nat.mod_lt _ W2_pos
  generalize (x0 * y1 + x1 * y0) % W2 = mid at *
  generalize hc : (x0 * y1 + x1 * y0) / W2 = c at *
  have emw : mid * W = W2 * (mid / W) + mid * W % W2 := by
    have h1 := Nat.div_add_mod (mid * W) W2
    have h2 : mid * W / W2 = mid / W := by
      rw [W2_eq, Nat.mul_comm mid W, Nat.mul_div_mul_left _ _ W_pos]
    rw [h2] at h1; omega
  have hmw : mid * W % W2 < W2 := Nat.mod_lt _ W2_pos
  generalize mid * W % W2 = mw at *
  have es := Nat.div_add_mod (x0 * y0 + mw) W2
  have hs0 : (x0 * y0 + mw) % W2 < W2 := Nat.mod_lt _ W2_pos
  generalize hs0' : (x0 * y0 + mw) % W2 = s0 at *
  generalize hc' : (x0 * y0 + mw) / W2 = c' at *
  generalize hmd : mid / W = md at *
  -- the product
  have hprod : x * y = s0 + W2 * (x1 * y1 + c * W + md + c') := by
    rw [← ex, ← ey, W2_eq] at *
    nlinarith
  have hxy : x * y < W2 * W2 := Nat.mul_lt_mul'' hx hy
  have hhi : x1 * y1 + c * W + md + c' < W2 := by
    by_contra h
    have : W2 * W2 ≤ W2 * (x1 * y1 + c * W + md + c') := Nat.mul_le_mul_left _ (by omega)
    omega
  have hres : (x * y % W2, x * y / W2) = (s0, x1 * y1 + c * W + md + c') := by
    rw [hprod, Nat.add_mul_mod_self_left, Nat.mod_eq_of_lt hs0, Nat.add_mul_div_left _ _ W2_pos,
      Nat.div_eq_of_lt hs0, Nat.zero_add]
  rw [hres]
  have hW2' := W2_eq
  have hcle : c ≤ 1 := by
    have h1 : x0 * y1 < W * W := Nat.mul_lt_mul'' hx0 hy1
    have h2 : x1 * y0 < W * W := Nat.mul_lt_mul'' hx1 hy0
    by_contra h
    have : W2 * 2 ≤ W2 * c := Nat.mul_le_mul_left _ (by omega)
    omega
  have hcle' : c' ≤ 1 := by
    have h1 : x0 * y0 < W * W := Nat.mul_lt_mul'' hx0 hy0
    by_contra h
    have : W2 * 2 ≤ W2 * c' := Nat.mul_le_mul_left _ (by omega)
    omega
  have hc01 : c = 0 ∨ c = 1 := by omega
  have hc01' : c' = 0 ∨ c' = 1 := by omega
  rcases hc01 with h | h <;> rcases hc01' with h' | h' <;> subst h <;> subst h' <;>
    simp only [Nat.zero_mul, Nat.one_mul, Nat.add_zero] at hhi ⊢
  · have h1 : ¬ (x1 * y1 ≥ W2) := by omega
    have h2 : ¬ (x1 * y1 + md ≥ W2) := by omega
    simp [h1, h2]
  · have h1 : ¬ (x1 * y1 ≥ W2) := by omega
    have h2 : ¬ (x1 * y1 + md ≥ W2) := by omega
    have h3 : ¬ (x1 * y1 + md + 1 ≥ W2) := by omega
    simp [h1, h2, h3]
  · have h1 : ¬ (x1 * y1 + W ≥ W2) := by omega
    have h2 : ¬ (x1 * y1 + W + md ≥ W2) := by omega
    simp [h1, h2]
  · have h1 : ¬ (x1 * y1 + W ≥ W2) := by omega
    have h2 : ¬ (x1 * y1 + W + md ≥ W2) := by omega
    have h3 : ¬ (x1 * y1 + W + md + 1 ≥ W2) := by omega
    simp [h1, h2, h3]


/-- generic form of `Ymq.Mg64.redc_low_word_cancels` for an arbitrary word base `B` -/
theorem low_cancel (B n ninv lo : Nat) (hB : 0 < B) (hninv : (n * ninv + 1) % B = 0)
    (hlo0 : lo ≠ 0) (hlo : lo < B) : lo + (lo * ninv % B * n) % B = B := by
  have h1 : (lo + lo * ninv % B * n) % B = 0 := by
    have : (lo + lo * ninv % B * n) % B = (lo * (n * ninv + 1)) % B := by
      have e : lo * (n * ninv + 1) = lo + lo * ninv * n := by ring
      rw [e, Nat.add_mod, Nat.mul_mod (lo * ninv % B) n B, Nat.mod_mod, ← Nat.mul_mod, ← Nat.add_mod]
    rw [this, Nat.mul_mod, hninv, Nat.mul_zero, Nat.zero_mod]
  have h2 : (lo + (lo * ninv % B * n) % B) % B = 0 := by
    rw [Nat.add_mod, Nat.mod_mod, ← Nat.add_mod]; exact h1
  have h3 : (lo * ninv % B * n) % B < B := Nat.mod_lt _ hB
  have h4 : 0 < lo := Nat.pos_of_ne_zero hlo0
  obtain ⟨k, hk⟩ := Nat.dvd_of_mod_eq_zero h2
  have : k = 1 := by
    rcases k with _ | _ | k
    · omega
    · rfl
    · exfalso
      have : B * (k + 1 + 1) ≥ 2 * B := by nlinarith
      omega
  subst this; omega

/-- `M128::mul` for a modulus of more than 64 bits: Montgomery product with `R = 2^128`. -/
theorem mul_spec_big (n ninv x y : Nat) (hnW : W ≤ n) (hn2 : n < W2)
    (hninv : (n * ninv + 1) % W2 = 0) (hx : x < n) (hy : y < W2) :
    ∃ r, mul n ninv x y = some r ∧ r < n ∧ r * W2 % n = x * y % n := by
  have hW := W_pos
  have hB := W2_pos
  have hn : 0 < n := by omega
  have hndiv : ¬ (n / W = 0) := by
    intro h
    have := (Nat.div_eq_zero_iff).1 h
    omega
  have hT : x * y < n * W2 := Nat.mul_lt_mul'' hx hy
  have hhi : x * y / W2 < n := by rw [Nat.div_lt_iff_lt_mul hB]; exact hT
  unfold mul
  simp only [hndiv, if_false, mul256_spec x y (lt_trans hx hn2) hy]
  by_cases hlo : x * y % W2 = 0
  · simp only [hlo, if_true]
    refine ⟨_, rfl, hhi, ?_⟩
    have := Nat.div_add_mod (x * y) W2
    rw [hlo] at this
    have e : x * y / W2 * W2 = x * y := by rw [Nat.mul_comm]; omega
    rw [e]
  · simp only [hlo, if_false]
    have hk := low_cancel W2 n ninv (x * y % W2) hB hninv hlo (Nat.mod_lt _ hB)
    generalize hm : x * y % W2 * ninv % W2 = m at hk
    have hmB : m < W2 := by rw [← hm]; exact Nat.mod_lt _ hB
    rw [mul256_spec m n hmB hn2]
    simp only []
    have hmn : m * n < W2 * n := Nat.mul_lt_mul_of_pos_right hmB hn
    have hmhi : m * n / W2 < n := by
      rw [Nat.div_lt_iff_lt_mul hB, Nat.mul_comm n W2]; exact hmn
    have h1 : ¬ n < m * n / W2 + 1 := by omega
    simp only [h1, if_false]
    have hsum : (x * y / W2 + m * n / W2 + 1) * W2 = x * y + m * n := by
      have e1 := Nat.div_add_mod (x * y) W2
      have e2 := Nat.div_add_mod (m * n) W2
      nlinarith
    have hlt2 : x * y / W2 + m * n / W2 + 1 < 2 * n := by
      have : (x * y / W2 + m * n / W2 + 1) * W2 < 2 * n * W2 := by rw [hsum]; nlinarith
      exact Nat.lt_of_mul_lt_mul_right this
    by_cases hge : x * y / W2 ≥ n - m * n / W2 - 1
    · simp only [hge, if_true]
      refine ⟨_, rfl, by omega, ?_⟩
      have : (x * y / W2 - (n - m * n / W2 - 1)) * W2 + n * W2 = x * y + m * n := by
        have : x * y / W2 - (n - m * n / W2 - 1) + n = x * y / W2 + m * n / W2 + 1 := by omega
        rw [← hsum, ← this]; ring
      have h2 : (x * y / W2 - (n - m * n / W2 - 1)) * W2 % n =
          ((x * y / W2 - (n - m * n / W2 - 1)) * W2 + n * W2) % n := by
        rw [Nat.add_mul_mod_self_left]
      rw [h2, this, Nat.add_mul_mod_self_right]
    · simp only [hge, if_false]
      have h3 : ¬ (x * y / W2 + m * n / W2 + 1 ≥ W2) := by omega
      simp only [h3, if_false]
      refine ⟨_, rfl, by omega, ?_⟩
      rw [hsum, Nat.add_mul_mod_self_right]

/-- `M128::add` -/
theorem add_spec (n x y : Nat) (hn2 : n < W2) (hx : x < n) (hy : y < n) :
    ∃ r, add n x y = some r ∧ r < n ∧ r % n = (x + y) % n := by
  unfold add
  have h1 : ¬ n < y := by omega
  simp only [h1, if_false]
  by_cases h : x ≥ n - y
  · simp only [h, if_true]
    refine ⟨_, rfl, by omega, ?_⟩
    have : x + y = x - (n - y) + n := by omega
    rw [this, Nat.add_mod_right]
  · have h2 : ¬ (x + y ≥ W2) := by omega
    simp only [h, h2, if_false]
    exact ⟨_, rfl, by omega, rfl⟩

/-- `M128::sub` -/
theorem sub_spec (n x y : Nat) (hn2 : n < W2) (hx : x < n) (hy : y < n) :
    ∃ r, sub n x y = some r ∧ r < n ∧ (r + y) % n = x % n := by
  unfold sub
  by_cases h : x ≥ y
  · simp only [h, if_true]
    exact ⟨_, rfl, by omega, by rw [Nat.sub_add_cancel h]⟩
  · have h1 : ¬ n < y := by omega
    have h2 : ¬ (x + (n - y) ≥ W2) := by omega
    simp only [h, h1, h2, if_false]
    refine ⟨_, rfl, by omega, ?_⟩
    have : x + (n - y) + y = x + n := by omega
    rw [this, Nat.add_mod_right]

/-! ### the 2-adic inverse -/

theorem invLoop_sound : ∀ f n x x', x < W2 → invLoop f n x = some x' → x' < W2 ∧ n * x' % W2 = 1 := by
  intro f
  induction f with
  | zero => intro n x x' _ h; simp [invLoop] at h
  | succ f ih =>
    intro n x x' hx h
    unfold invLoop at h
    simp only [] at h
    by_cases h0 : n * x % W2 = 0
    · simp [h0] at h
    · simp only [h0, if_false] at h
      by_cases h1 : n * x % W2 - 1 = 0
      · simp only [h1, if_true] at h
        cases h
        exact ⟨hx, by omega⟩
      · simp only [h1, if_false] at h
        exact ih n _ x' (Nat.mod_lt _ W2_pos) h

/-- soundness of `M128::inv_2adic`: a returned value is the negated inverse of `n` modulo `R` -/
theorem inv2adic_sound (n v : Nat) (h : inv2adic n = some v) :
    if n < W then (n * v + 1) % W = 0 else (n * v + 1) % W2 = 0 := by
  unfold inv2adic at h
  by_cases hodd : n % 2 = 1
  · simp only [hodd, ne_eq, not_true_eq_false, if_false] at h
    obtain ⟨x0, hx0, hx0W, hx0inv⟩ := Ymq.Mg64.mg2adicInv_odd (n % W) (by
      have : W = 2 * (W / 2) := by decide
      rw [this, Nat.mod_mul_right_mod]; exact hodd)
    rw [hx0] at h
    simp only [] at h
    by_cases hs : n < W
    · have hd : n / W = 0 := Nat.div_eq_of_lt hs
      simp only [hd, if_true] at h
      cases h
      simp only [hs, if_true]
      rwa [Nat.mod_eq_of_lt hs] at hx0inv
    · have hd : ¬ (n / W = 0) := by
        intro h0
        have := (Nat.div_eq_zero_iff).1 h0
        have hW : 0 < W := by decide
        omega
      simp only [hd, if_false] at h
      simp only [hs, if_false]
      cases hl : invLoop 130 n x0 with
      | none => rw [hl] at h; cases h
      | some x =>
        rw [hl] at h
        simp only [] at h
        have hWW2 : W < W2 := by decide
        obtain ⟨hxlt, hxinv⟩ := invLoop_sound 130 n x0 x (lt_trans hx0W hWW2) hl
        have hx : x ≠ 0 := by
          intro hx; rw [hx] at hxinv; simp at hxinv
        simp only [hxinv, not_true_eq_false, if_false, hx] at h
        cases h
        have e : n * (W2 - x) + 1 + n * x = n * W2 + 1 := by
          rw [Nat.mul_sub]; have := Nat.mul_le_mul_left n (Nat.le_of_lt hxlt); omega
        have h1 : n * (W2 - x) + 1 + n * x ≡ 0 + 1 [MOD W2] := by
          rw [e]; unfold Nat.ModEq; rw [Nat.mul_add_mod_self_right]
        have h2 : n * x ≡ 1 [MOD W2] := by unfold Nat.ModEq; rw [hxinv]; rfl
        exact Nat.ModEq.add_right_cancel h2 h1
  · simp [hodd] at h

theorem W2_pow : W2 = 2 ^ 128 := by decide

theorem tz128_spec (n : Nat) (h0 : 0 < n) (h1 : n < W2) :
    tz128 n < 128 ∧ n % 2 ^ (tz128 n) = 0 ∧ n / 2 ^ (tz128 n) % 2 = 1 := by
  unfold tz128
  have : n ≠ 0 := by omega
  simp only [this, if_false]
  exact tzAux_spec 128 n h0 (by rw [← W2_pow]; exact h1)

/-- Invariant of the loop of `M128::inv_2adic`: `n x ≡ 1 (mod 2^j)` and `j` increases at every
turn, hence at most `129 - j` turns are left (any start value `x`, wrapping addition). -/
theorem invLoop_spec (n : Nat) (hn : n % 2 = 1) :
    ∀ f j x, 1 ≤ j → j ≤ 128 → x < W2 → n * x % 2 ^ j = 1 → 129 ≤ f + j →
    ∃ x', invLoop f n x = some x' ∧ x' < W2 ∧ n * x' % W2 = 1 := by
  intro f
  induction f with
  | zero => intro j x _ _ _ _ h; omega
  | succ f ih =>
    intro j x hj1 hj128 hxW hinv hf
    have hjW : 2 ^ j ∣ W2 := by rw [W2_pow]; exact pow_dvd_pow 2 hj128
    have hW0 : 0 < W2 := W2_pos
    have hnx : n * x % W2 % 2 ^ j = 1 := by rw [Nat.mod_mod_of_dvd _ hjW]; exact hinv
    have hj2 : 2 ≤ 2 ^ j := by
      calc 2 = 2 ^ 1 := rfl
        _ ≤ 2 ^ j := Nat.pow_le_pow_right (by decide) hj1
    have hnx0 : n * x % W2 ≠ 0 := by
      intro h; rw [h, Nat.zero_mod] at hnx; omega
    unfold invLoop
    simp only [hnx0, if_false]
    by_cases hrem : n * x % W2 - 1 = 0
    · simp only [hrem, if_true]
      exact ⟨x, rfl, hxW, by omega⟩
    · simp only [hrem, if_false]
      have hremW : n * x % W2 - 1 < W2 := by have := Nat.mod_lt (n * x) hW0; omega
      obtain ⟨ht128, htdvd, htodd⟩ := tz128_spec _ (Nat.pos_of_ne_zero hrem) hremW
      generalize ht : tz128 (n * x % W2 - 1) = t at *
      have hremj : (n * x % W2 - 1) % 2 ^ j = 0 := by
        have := Nat.div_add_mod (n * x % W2) (2 ^ j)
        rw [hnx] at this
        have e : n * x % W2 - 1 = 2 ^ j * (n * x % W2 / 2 ^ j) := by omega
        rw [e, Nat.mul_mod_right]
      have hjt : j ≤ t := le_of_pow_dvd_of_odd_quot _ j t hremj htdvd htodd
      refine ih (t + 1) ((x + 2 ^ t) % W2) (by omega) (by omega) (Nat.mod_lt _ hW0) ?_ (by omega)
      -- n (x + 2^t) = 1 (mod 2^(t+1))
      obtain ⟨u, hu⟩ : ∃ u, W2 = 2 ^ (t + 1) * u := by
        refine ⟨2 ^ (127 - t), ?_⟩
        rw [W2_pow, ← pow_add]; congr 1; omega
      have hdvd : 2 ^ (t + 1) ∣ W2 := ⟨u, hu⟩
      have hred : n * ((x + 2 ^ t) % W2) % 2 ^ (t + 1) = n * (x + 2 ^ t) % 2 ^ (t + 1) := by
        rw [Nat.mul_mod, Nat.mod_mod_of_dvd _ hdvd, ← Nat.mul_mod]
      rw [hred]
      have e1 := Nat.div_add_mod (n * x) W2
      have e2 := Nat.div_add_mod (n * x % W2 - 1) (2 ^ t)
      rw [htdvd] at e2
      have e3 := Nat.div_add_mod ((n * x % W2 - 1) / 2 ^ t) 2
      rw [htodd] at e3
      have e4 := Nat.div_add_mod n 2
      rw [hn] at e4
      generalize (n * x % W2 - 1) / 2 ^ t / 2 = q at e3
      generalize n / 2 = m at e4
      generalize n * x / W2 = a at e1
      have e5 : n * x % W2 = 2 ^ t * (2 * q + 1) + 1 := by
        have : 0 < n * x % W2 := Nat.pos_of_ne_zero hnx0
        rw [← e3] at e2; omega
      have key : n * (x + 2 ^ t) = 2 ^ (t + 1) * (u * a + q + m + 1) + 1 := by
        have : n * (x + 2 ^ t) = n * x + n * 2 ^ t := by ring
        rw [this, ← e1, e5, hu, ← e4, pow_succ]; ring
      rw [key, Nat.mul_add_mod]
      have : 2 ≤ 2 ^ (t + 1) := by
        calc 2 = 2 ^ 1 := rfl
          _ ≤ 2 ^ (t + 1) := Nat.pow_le_pow_right (by decide) (by omega)
      exact Nat.mod_eq_of_lt (by omega)


/-- `M128::inv_2adic` is total on odd `n < 2^128` and returns `v < R` with `n·v ≡ -1 (mod R)`
(`R = 2^64` if `n < 2^64`, else `2^128`). -/
theorem inv2adic_spec (n : Nat) (hodd : n % 2 = 1) (_hn2 : n < W2) :
    ∃ v, inv2adic n = some v ∧
      (if n < W then v < W ∧ (n * v + 1) % W = 0 else v < W2 ∧ (n * v + 1) % W2 = 0) := by
  obtain ⟨x0, hx0, hx0W, hx0inv⟩ := Ymq.Mg64.mg2adicInv_odd (n % W) (by
    have : W = 2 * (W / 2) := by decide
    rw [this, Nat.mod_mul_right_mod]; exact hodd)
  have hWW2 : W < W2 := by decide
  by_cases hs : n < W
  · have hd : n / W = 0 := Nat.div_eq_of_lt hs
    refine ⟨x0, ?_, ?_⟩
    · unfold inv2adic
      simp only [hodd, ne_eq, not_true_eq_false, if_false, hx0, hd, if_true]
    · simp only [hs, if_true]
      rw [Nat.mod_eq_of_lt hs] at hx0inv
      exact ⟨hx0W, hx0inv⟩
  · have hd : ¬ (n / W = 0) := by
      intro h0
      have := (Nat.div_eq_zero_iff).1 h0
      have hW : 0 < W := by decide
      omega
    -- the start value is odd, so n·x0 ≡ 1 (mod 2)
    have hx0odd : n * x0 % 2 ^ 1 = 1 := by
      have h2W : (2 : Nat) ∣ W := ⟨W / 2, by decide⟩
      have h1 : (n % W * x0 + 1) % 2 = 0 := by
        have := Nat.mod_mod_of_dvd (n % W * x0 + 1) h2W
        rw [hx0inv] at this; simpa using this.symm
      have h3 : n % W % 2 = 1 := by rw [Nat.mod_mod_of_dvd _ h2W]; exact hodd
      have h4 : (n % W * x0) % 2 = 1 := by omega
      rw [Nat.mul_mod, h3] at h4
      rw [pow_one, Nat.mul_mod, hodd]; exact h4
    obtain ⟨x, hl, hxlt, hxinv⟩ := invLoop_spec n hodd 130 1 x0 (by omega) (by omega)
      (lt_trans hx0W hWW2) hx0odd (by omega)
    have hx : x ≠ 0 := by
      intro hx; rw [hx] at hxinv; simp at hxinv
    refine ⟨W2 - x, ?_, ?_⟩
    · unfold inv2adic
      simp only [hodd, ne_eq, not_true_eq_false, if_false, hx0, hd, hl, hxinv, hx]
    · have h := inv2adic_sound n (W2 - x) (by
        unfold inv2adic
        simp only [hodd, ne_eq, not_true_eq_false, if_false, hx0, hd, hl, hxinv, hx])
      simp only [hs, if_false] at h ⊢
      exact ⟨by omega, h⟩

/-! ### `r_r2` -/

theorem coprime_W2 (n : Nat) (h : n % 2 = 1) : Nat.gcd n W2 = 1 := by
  have h1 : Nat.gcd n 2 = 1 := by
    have h1 : Nat.gcd n 2 ∣ 2 := Nat.gcd_dvd_right n 2
    have h2 : Nat.gcd n 2 ∣ n := Nat.gcd_dvd_left n 2
    have h3 : Nat.gcd n 2 ≤ 2 := Nat.le_of_dvd (by omega) h1
    have h4 : Nat.gcd n 2 ≠ 0 := by
      intro h0; rw [h0] at h1; omega
    by_contra hne
    have : Nat.gcd n 2 = 2 := by omega
    rw [this] at h2
    omega
  have h2 : Nat.Coprime n (2 ^ 128) := Nat.Coprime.pow_right _ h1
  have : W2 = 2 ^ 128 := by decide
  rw [this]; exact h2

theorem sqLoop_spec (n ninv : Nat) (hodd : n % 2 = 1) (hnW : W ≤ n) (hn2 : n < W2)
    (hninv : (n * ninv + 1) % W2 = 0) :
    ∀ t a r, r < n → r % n = a * W2 % n →
      ∃ r', sqLoop n ninv t r = some r' ∧ r' < n ∧ r' % n = a ^ (2 ^ t) * W2 % n := by
  intro t
  induction t with
  | zero => intro a r hr h; exact ⟨r, rfl, hr, by simpa using h⟩
  | succ t ih =>
    intro a r hr h
    obtain ⟨r1, e1, e2, e3⟩ := mul_spec_big n ninv r r hnW hn2 hninv hr (lt_trans hr hn2)
    have hc : r1 * W2 % n = (a ^ 2 * W2) * W2 % n := by
      have e : a * W2 * (a * W2) = a ^ 2 * W2 * W2 := by ring
      rw [e3, Nat.mul_mod, h, ← Nat.mul_mod, e]
    have h1 : r1 % n = (a ^ 2) * W2 % n :=
      Nat.ModEq.cancel_right_of_coprime (coprime_W2 n hodd) hc
    obtain ⟨r', f1, f2, f3⟩ := ih (a ^ 2) r1 e2 h1
    refine ⟨r', by simp only [sqLoop, e1, f1], f2, ?_⟩
    rw [f3, ← pow_mul, pow_succ, Nat.mul_comm 2]

/-- `M128::r_r2`: `(R mod n, R² mod n)` with `R = 2^64` if `n < 2^64`, else `2^128`. -/
theorem rR2_spec (n ninv : Nat) (hodd : n % 2 = 1) (hn2 : n < W2)
    (hninv : if n < W then (n * ninv + 1) % W = 0 else (n * ninv + 1) % W2 = 0) :
    rR2 n ninv = some (if n < W then (W % n, W * W % n) else (W2 % n, W2 * W2 % n)) := by
  have hnp : 0 < n := by omega
  have hn0 : n ≠ 0 := by omega
  have hr : (W2 - n) % W2 % n = W2 % n := by
    rw [Nat.mod_eq_of_lt (by omega : W2 - n < W2)]
    conv_rhs => rw [show W2 = (W2 - n) + n by omega, Nat.add_mod_right]
  unfold rR2
  simp only [hn0, if_false, hr]
  by_cases hs : n < W
  · have hd : n / W = 0 := Nat.div_eq_of_lt hs
    simp only [hd, hs, if_true, W2_eq]
  · have hd : ¬ (n / W = 0) := by
      intro h0
      have := (Nat.div_eq_zero_iff).1 h0
      have hW : 0 < W := by decide
      omega
    simp only [hs, if_false] at hninv
    simp only [hd, hs, if_false]
    have hrn : W2 % n < n := Nat.mod_lt _ hnp
    obtain ⟨two, e1, e2, e3⟩ := add_spec n (W2 % n) (W2 % n) hn2 hrn hrn
    have h2 : two % n = 2 * W2 % n := by
      rw [e3, ← Nat.add_mod, Nat.two_mul]
    obtain ⟨r2, f1, f2, f3⟩ := sqLoop_spec n ninv hodd (by omega) hn2 hninv 7 2 two e2 h2
    simp only [e1, f1]
    have : (2 : Nat) ^ 2 ^ 7 = W2 := by decide
    rw [this, Nat.mod_eq_of_lt f2] at f3
    rw [f3]

end Ymq.M128
