/-
Classical quadratic sieve (C12): exactness of the forward / backward root tables (also in
"only odds" mode) and the shift of the roots between large blocks (`next_lgblock`).
-/
import Ymq.Lemmas.PolyMpqs
import Ymq.Model.QsRoots
import Ymq.Gen.QsShift
open Ymq.SiqsPoly (Prime bitlen)
namespace Ymq.PolyQs
open Ymq.PolyRoots Ymq.QsRoots Ymq.PolyMpqs

theorem halve_spec {p s1 s2 : Nat} (hp : p % 2 = 1) (hpar : s1 % 2 = s2 % 2) :
    2 * (halve p s1 s2).1 = s1 ∨ 2 * (halve p s1 s2).1 = s1 + p := by
  unfold halve; split <;> simp only <;> omega

theorem halve_spec2 {p s1 s2 : Nat} (hp : p % 2 = 1) (hpar : s1 % 2 = s2 % 2) :
    2 * (halve p s1 s2).2 = s2 ∨ 2 * (halve p s1 s2).2 = s2 + p := by
  unfold halve; split <;> simp only <;> omega

theorem two_mul_cast {p a s : Nat} (h : 2 * a = s ∨ 2 * a = s + p) :
    (2 : ZMod p) * (a : ZMod p) = (s : ZMod p) := by
  rcases h with e | e
  · have : ((2 * a : Nat) : ZMod p) = (s : ZMod p) := by rw [e]
    simpa using this
  · have : ((2 * a : Nat) : ZMod p) = ((s + p : Nat) : ZMod p) := by rw [e]
    simpa using this

/-- the multiplier of the position: 2 in "only odds" mode -/
def stride (q : QS) : Int := if q.onlyOdds then 2 else 1

/-- forward sieve: position `x` is the candidate `(R + m·x)² − n` -/
def fwdVal (q : QS) (x : Int) : Int := ((q.nsqrt : Int) + stride q * x) ^ 2 - (q.n : Int)

/-- backward sieve: position `x` is the candidate `(R − m·(x + 1))² − n` -/
def bckVal (q : QS) (x : Int) : Int := ((q.nsqrt : Int) - stride q * (x + 1)) ^ 2 - (q.n : Int)

theorem not_dvd_one {p : Nat} (hp : Nat.Prime p) : ¬ ((p : Int) ∣ 1) := by
  intro h
  have : p ∣ 1 := Int.natCast_dvd_natCast.mp (by simpa using h)
  exact hp.one_lt.ne' (Nat.dvd_one.mp this)

theorem qs_fwd_exact {q : QS} {pr : Prime} {r1 r2 : Nat} (hp : Nat.Prime pr.p) (hr : pr.r < pr.p)
    (hsq : (pr.r : Int) * pr.r ≡ (q.n : Int) [ZMOD pr.p])
    (hodd : q.onlyOdds = true → pr.p ≠ 2)
    (h : prepareFwd q pr = some (r1, r2)) (x : Int) :
    r1 < pr.p ∧ r2 < pr.p ∧
    ((pr.p : Int) ∣ fwdVal q x ↔ (x ≡ (r1 : Int) [ZMOD pr.p] ∨ x ≡ (r2 : Int) [ZMOD pr.p])) := by
  have hppos : 0 < pr.p := hp.pos
  unfold prepareFwd at h
  simp only [hppos.ne', if_false] at h
  split at h
  · cases h
  · rename_i hu1
    split at h
    · cases h
    · rename_i hu2
      have hbase : nsqrtMod q pr.p < pr.p := Nat.mod_lt _ hppos
      have hbz : ((nsqrtMod q pr.p : Nat) : ZMod pr.p) = (q.nsqrt : ZMod pr.p) := by
        unfold nsqrtMod; rw [ZMod.natCast_mod]
      have hs1 : ((2 * pr.p + pr.r - nsqrtMod q pr.p : Nat) : ZMod pr.p)
          = (pr.r : ZMod pr.p) - (q.nsqrt : ZMod pr.p) := by
        rw [Nat.cast_sub (by omega), Nat.cast_add, Nat.cast_mul, ZMod.natCast_self, hbz]; ring
      have hs2 : ((2 * pr.p - pr.r - nsqrtMod q pr.p : Nat) : ZMod pr.p)
          = -(pr.r : ZMod pr.p) - (q.nsqrt : ZMod pr.p) := by
        rw [Nat.cast_sub (by omega), Nat.cast_sub (by omega), Nat.cast_mul, ZMod.natCast_self, hbz]; ring
      by_cases hoo : q.onlyOdds = true
      · have hp2 := hodd hoo
        simp only [hoo, hp2, and_false, if_false, if_true] at h
        injection h with h
        injection h with h1 h2
        have hpodd : pr.p % 2 = 1 := hp.eq_two_or_odd.resolve_left hp2
        have hpar : (2 * pr.p + pr.r - nsqrtMod q pr.p) % 2 = (2 * pr.p - pr.r - nsqrtMod q pr.p) % 2 := by
          omega
        have e1 := two_mul_cast (halve_spec hpodd hpar)
        have e2 := two_mul_cast (halve_spec2 hpodd hpar)
        rw [hs1] at e1
        rw [hs2] at e2
        refine ⟨h1 ▸ Nat.mod_lt _ hppos, h2 ▸ Nat.mod_lt _ hppos, ?_⟩
        have hp2' : ¬ ((pr.p : Int) ∣ 2) := by
          intro hd
          have : pr.p ∣ 2 := Int.natCast_dvd_natCast.mp (by simpa using hd)
          exact hp2 ((Nat.prime_dvd_prime_iff_eq hp Nat.prime_two).mp this)
        have := quad_roots_iff hp (L := (2 : Int)) (M := (1 : Int)) (n := (q.n : Int))
          (r := (pr.r : Int)) (Pv := fwdVal q x) (x := x) (r1 := (r2 : Int)) (r2 := (r1 : Int))
          (so := 0) (b := (q.nsqrt : Int))
          (by unfold fwdVal stride; rw [if_pos hoo]; ring)
          (not_dvd_one hp) hp2' hsq
          (by
            apply zmod_to_modEq; push_cast; rw [← h2, ZMod.natCast_mod]
            linear_combination e2)
          (by
            apply zmod_to_modEq; push_cast; rw [← h1, ZMod.natCast_mod]
            linear_combination e1)
        rw [this]; exact Or.comm
      · have hoo' : q.onlyOdds = false := by simpa using hoo
        simp only [hoo', Bool.false_eq_true, false_and, if_false] at h
        injection h with h
        injection h with h1 h2
        refine ⟨h1 ▸ Nat.mod_lt _ hppos, h2 ▸ Nat.mod_lt _ hppos, ?_⟩
        have := quad_roots_iff hp (L := (1 : Int)) (M := (1 : Int)) (n := (q.n : Int))
          (r := (pr.r : Int)) (Pv := fwdVal q x) (x := x) (r1 := (r2 : Int)) (r2 := (r1 : Int))
          (so := 0) (b := (q.nsqrt : Int))
          (by unfold fwdVal stride; rw [if_neg hoo]; ring)
          (not_dvd_one hp) (not_dvd_one hp) hsq
          (by
            apply zmod_to_modEq; push_cast; rw [← h2, ZMod.natCast_mod, hs2]; ring)
          (by
            apply zmod_to_modEq; push_cast; rw [← h1, ZMod.natCast_mod, hs1]; ring)
        rw [this]; exact Or.comm

theorem qs_bck_exact {q : QS} {pr : Prime} {r1 r2 : Nat} (hp : Nat.Prime pr.p) (hr : pr.r < pr.p)
    (hsq : (pr.r : Int) * pr.r ≡ (q.n : Int) [ZMOD pr.p])
    (hodd : q.onlyOdds = true → pr.p ≠ 2)
    (h : prepareBck q pr = some (r1, r2)) (x : Int) :
    r1 < pr.p ∧ r2 < pr.p ∧
    ((pr.p : Int) ∣ bckVal q x ↔ (x ≡ (r1 : Int) [ZMOD pr.p] ∨ x ≡ (r2 : Int) [ZMOD pr.p])) := by
  have hppos : 0 < pr.p := hp.pos
  unfold prepareBck at h
  simp only [hppos.ne', if_false] at h
  split at h
  · cases h
  · rename_i hu1
    have hbase : nsqrtMod q pr.p < pr.p := Nat.mod_lt _ hppos
    have hbz : ((nsqrtMod q pr.p : Nat) : ZMod pr.p) = (q.nsqrt : ZMod pr.p) := by
      unfold nsqrtMod; rw [ZMod.natCast_mod]
    have hs1 : ((2 * pr.p + nsqrtMod q pr.p - pr.r : Nat) : ZMod pr.p)
        = (q.nsqrt : ZMod pr.p) - (pr.r : ZMod pr.p) := by
      rw [Nat.cast_sub (by omega), Nat.cast_add, Nat.cast_mul, ZMod.natCast_self, hbz]; ring
    have hs2 : ((2 * pr.p + nsqrtMod q pr.p + pr.r : Nat) : ZMod pr.p)
        = (q.nsqrt : ZMod pr.p) + (pr.r : ZMod pr.p) := by
      rw [Nat.cast_add, Nat.cast_add, Nat.cast_mul, ZMod.natCast_self, hbz]; ring
    have hm1 : ∀ s : Nat, (((s + (pr.p - 1)) % pr.p : Nat) : ZMod pr.p) = (s : ZMod pr.p) - 1 := by
      intro s
      rw [ZMod.natCast_mod, Nat.cast_add, Nat.cast_sub (by omega), ZMod.natCast_self]; simp
      ring
    by_cases hoo : q.onlyOdds = true
    · have hp2 := hodd hoo
      simp only [hoo, hp2, and_false, if_false, if_true] at h
      injection h with h
      injection h with h1 h2
      have hpodd : pr.p % 2 = 1 := hp.eq_two_or_odd.resolve_left hp2
      have hpar : (2 * pr.p + nsqrtMod q pr.p - pr.r) % 2 = (2 * pr.p + nsqrtMod q pr.p + pr.r) % 2 := by
        omega
      have e1 := two_mul_cast (halve_spec hpodd hpar)
      have e2 := two_mul_cast (halve_spec2 hpodd hpar)
      rw [hs1] at e1
      rw [hs2] at e2
      refine ⟨h1 ▸ Nat.mod_lt _ hppos, h2 ▸ Nat.mod_lt _ hppos, ?_⟩
      have hp2' : ¬ ((pr.p : Int) ∣ -2) := by
        intro hd
        have : pr.p ∣ 2 := Int.natCast_dvd_natCast.mp (by simpa using hd)
        exact hp2 ((Nat.prime_dvd_prime_iff_eq hp Nat.prime_two).mp this)
      have := quad_roots_iff hp (L := (-2 : Int)) (M := (1 : Int)) (n := (q.n : Int))
        (r := (pr.r : Int)) (Pv := bckVal q x) (x := x) (r1 := (r2 : Int)) (r2 := (r1 : Int))
        (so := 1) (b := (q.nsqrt : Int))
        (by unfold bckVal stride; rw [if_pos hoo]; ring)
        (not_dvd_one hp) hp2' hsq
        (by
          apply zmod_to_modEq; push_cast; rw [← h2, hm1]
          linear_combination (-1 : ZMod pr.p) * e2)
        (by
          apply zmod_to_modEq; push_cast; rw [← h1, hm1]
          linear_combination (-1 : ZMod pr.p) * e1)
      rw [this]; exact Or.comm
    · have hoo' : q.onlyOdds = false := by simpa using hoo
      simp only [hoo', Bool.false_eq_true, false_and, if_false] at h
      injection h with h
      injection h with h1 h2
      refine ⟨h1 ▸ Nat.mod_lt _ hppos, h2 ▸ Nat.mod_lt _ hppos, ?_⟩
      have hm : ¬ ((pr.p : Int) ∣ -1) := by
        intro hd; exact not_dvd_one hp (by simpa using hd)
      have := quad_roots_iff hp (L := (-1 : Int)) (M := (1 : Int)) (n := (q.n : Int))
        (r := (pr.r : Int)) (Pv := bckVal q x) (x := x) (r1 := (r2 : Int)) (r2 := (r1 : Int))
        (so := 1) (b := (q.nsqrt : Int))
        (by unfold bckVal stride; rw [if_neg hoo]; ring)
        (not_dvd_one hp) hm hsq
        (by
          apply zmod_to_modEq; push_cast; rw [← h2, hm1, hs2]; ring)
        (by
          apply zmod_to_modEq; push_cast; rw [← h1, hm1, hs1]; ring)
      rw [this]; exact Or.comm

/-- "only odds" mode, `p = 2`: the pair `(0, 1)` -/
theorem qs_two {q : QS} {r : Nat} (hoo : q.onlyOdds = true) (hr : r < 2) :
    prepareFwd q ⟨2, r⟩ = some (0, 1) ∧ prepareBck q ⟨2, r⟩ = some (0, 1) := by
  have hb : nsqrtMod q 2 < 2 := Nat.mod_lt _ (by norm_num)
  constructor
  · unfold prepareFwd; simp only [hoo]
    rw [if_neg (by norm_num), if_neg (by omega), if_neg (by omega)]; simp
  · unfold prepareBck; simp only [hoo]
    rw [if_neg (by norm_num), if_neg (by omega)]; simp

/-! ### next_lgblock -/

open Ymq.Gen.QsShift in
/-- the translated body of `next_lgblock`: both roots move by `−o` modulo `p` -/
theorem shiftPair_eq (o p r1 r2 : Nat) (ho : o < p) (h1 : r1 < p) (h2 : r2 < p) (hp : p < 2 ^ 31) :
    shiftPair o p r1 r2 = ((r1 + p - o) % p, (r2 + p - o) % p) := by
  have key : ∀ r, r < p → min (wsub32 r o) (wadd32 (wsub32 r o) p) = (r + p - o) % p := by
    intro r hr
    unfold wsub32 wadd32
    by_cases h : o ≤ r
    · have : (r + p - o) % p = r - o := by
        have : r + p - o = (r - o) + p := by omega
        rw [this, Nat.add_mod_right, Nat.mod_eq_of_lt (by omega)]
      rw [this]; omega
    · rw [Nat.mod_eq_of_lt (a := r + p - o) (by omega)]; omega
  unfold shiftPair
  simp only [key r1 h1, key r2 h2]

open Ymq.Gen.QsShift in
/-- after the shift by one large block of `L = nblocks·BLOCK_SIZE` positions, position `x` of the new
block is position `x + L` of the old one: `x + L ≡ r ⟺ x ≡ r'` -/
theorem shift_root_iff (nb p r : Nat) (hp : 0 < p) (x : Int) :
    (x + (largeBlockSize nb : Int) ≡ (r : Int) [ZMOD p]) ↔
      (x ≡ (((r + p - blkszModp nb p) % p : Nat) : Int) [ZMOD p]) := by
  have ho : blkszModp nb p < p := Nat.mod_lt _ hp
  have e : (((r + p - blkszModp nb p) % p : Nat) : Int) ≡ (r : Int) - (largeBlockSize nb : Int) [ZMOD p] := by
    apply zmod_to_modEq
    push_cast
    rw [Nat.cast_sub (by omega), Nat.cast_add, ZMod.natCast_self]
    unfold blkszModp
    rw [ZMod.natCast_mod]; ring
  constructor
  · intro h
    have : x ≡ (r : Int) - (largeBlockSize nb : Int) [ZMOD p] := by
      have := h.sub_right (largeBlockSize nb : Int)
      simpa using this
    exact this.trans e.symm
  · intro h
    have := (h.trans e).add_right (largeBlockSize nb : Int)
    simpa using this

end Ymq.PolyQs
