/-
C14 "small", helper lemmas part 17 (Mathlib): base case of the block Lanczos invariant: the state
built by `lanczosInit` from the block returned by `genblock` satisfies `LInv` with history `[A·Y0]`.
-/
import Ymq.Lemmas.Gf2SmallLoopMain
import Ymq.Lemmas.Gf2SmallInverse

namespace Ymq.Gf2Small
open Ymq.Gf2 Ymq.Gf2Genblock Ymq.Gf2Lanczos
open scoped Matrix

theorem projS_M64 : projS M64 = 1 := by
  rw [projS, ← Matrix.diagonal_one]
  congr 1
  funext t
  have : M64.testBit t.1 = true := by
    rw [M64, Nat.testBit_two_pow_sub_one]; simp [t.2]
  rw [this]; rfl

theorem lanczosInit_inv {k : Nat} {cols : List (List Nat)} (hM : MatOK k cols) (dbg : Bool) {Y0 ay : List Nat}
    {st : LState} (hY0 : BlockOK cols.length Y0)
    (h : lanczosInit dbg (qsOptimize k cols) Y0 = some (st, ay)) :
    mulAabOpt (qsOptimize k cols) Y0 = some ay ∧ LInv k cols Y0 st [ay] [M64] := by
  have hwf := (lanczosInit_wf hM dbg hY0 h).1
  obtain ⟨ay', hay', hayOK⟩ := mulAabOpt_ok hM hY0
  obtain ⟨bay, hbay, hbayOK⟩ := optMul_ok hM hayOK
  obtain ⟨g, hg, hgl, hglt⟩ := blockDot_ok (x := bay) hbayOK.1 hbayOK
  obtain ⟨aa, haa, haal, haalt⟩ := blockDot_ok (x := ay') hayOK.1 hayOK
  have hgM := toMat_gram hM hbay hbayOK.1 hg
  unfold lanczosInit at h
  rw [hay'] at h
  simp only [hbay, hg] at h
  split at h
  · rename_i ginv hinv
    simp only [haa] at h
    obtain ⟨y, hy, hyOK⟩ := blockMulAdd_ok (m := mul ginv aa) hY0 hayOK.1 (mul_lt _ aa haalt)
    rw [hy] at h
    simp only [Option.some.injEq, Prod.mk.injEq] at h
    obtain ⟨h1, h2⟩ := h
    subst h1; subst h2
    have hgw : ∀ i, i < 64 → row g i < 2 ^ 64 := fun i _ => row_lt_of_mem hglt i
    have hI := inverse_some (n := 64) (dbg := dbg) (M := g) hgw hinv
    have hil : ginv.length = 64 := hI.1
    have hiM : toMat 64 ginv * toMat 64 g = 1 := hI.2.2
    have hGT : toMat 64 ginv * Q k cols ay' ay' = 1 := by rw [← hgM]; exact hiM
    have hTG : Q k cols ay' ay' * toMat 64 ginv = 1 := right_inverse_on_support 1 (toMat 64 ginv) (Q k cols ay' ay') (one_mul 1) (mul_one _) (one_mul _)
      (mul_one _) (one_mul _) hGT
    have hayM : CM cols.length ay' = gramA k cols * CM cols.length Y0 := cellMat_aab hM hay'
    have haaM : toMat 64 aa = (CM cols.length ay')ᵀ * gramA k cols * CM cols.length Y0 := by
      rw [toMat_blockDot hayOK.1 hayOK.1 haa, Matrix.mul_assoc, ← hayM]
    have hyM : CM cols.length y = CM cols.length Y0 + CM cols.length ay' * (toMat 64 ginv * toMat 64 aa) := by
      show cellMat y.toArray cols.length = _
      rw [cellMat_blockMulAdd hY0.1 hayOK.1 (by rw [length_mul]; exact hil) hy, toMat_mul hil haal]
    have hK : KeptOK k cols ay' ginv M64 :=
      { wOK := hayOK, igLen := hil
        masked := by rw [projS_M64, Matrix.mul_one]
        igP := by rw [projS_M64, Matrix.mul_one]
        pIg := by rw [projS_M64, Matrix.one_mul]
        inv := by rw [projS_M64]; exact hGT }
    refine ⟨hay', ?_⟩
    exact {
      wf := hwf
      lenH := rfl
      lenS := rfl
      histOK := by
        intro j hj
        have : j = 0 := by simp at hj; omega
        subst this; exact hayOK
      kept := by
        intro j w hjw hne
        have hj0 : j = 0 := by
          have := (List.getElem?_eq_some_iff.mp hjw).1
          simp at this; omega
        subst hj0
        simp only [List.getElem?_cons_zero, Option.some.injEq] at hjw
        subst hjw
        exact ⟨rfl, ginv, rfl, hK⟩
      orth := by
        intro j l hj hl hne
        simp at hj hl; omega
      yAll := by
        intro j hj
        have : j = 0 := by simp at hj; omega
        subst this
        show (CM cols.length ay')ᵀ * gramA k cols * CM cols.length y = 0
        rw [hyM, Matrix.mul_add, ← Matrix.mul_assoc, ← Matrix.mul_assoc]
        have e : (CM cols.length ay')ᵀ * gramA k cols * CM cols.length ay' * toMat 64 ginv = 1 := hTG
        rw [e, Matrix.one_mul, haaM]
        exact add_self_mat _
      yOrth := by
        intro X hX hall
        have hXa : Q k cols X ay' = 0 := hall 0 (by simp)
        show (CM cols.length X)ᵀ * gramA k cols * (CM cols.length y + CM cols.length Y0) = 0
        rw [hyM, add_right_comm, add_self_mat, zero_add, ← Matrix.mul_assoc]
        show Q k cols X ay' * _ = 0
        rw [hXa, Matrix.zero_mul] }
  · cases h

end Ymq.Gf2Small
