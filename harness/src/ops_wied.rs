//! Wiedemann kernel path (C19): `SparseMat::ker_p256` with the start vector it draws.
//!
//! `im_ker_trace <rows> <p>` -> `<v0 list>|<answer>` where `<answer>` is what `im_ker_p256` prints
//! (`none` | `c0,c1,...`) or `panic`; `v0` comes from the hook `verif_hooks_ker::ker_v0` (same
//! generator, seed and calls as `ker_pbig`). The model replays the run with `v0` as an input
//! (driver op `im_ker_model <rows> <p> <v0>`, follow-up request of props/c19_wied.py).
use crate::util::*;
use bnum::types::U256;
use std::panic::{catch_unwind, AssertUnwindSafe};
use std::str::FromStr;
use yamaquasi::matrix::intsparse::{verif_hooks_ker, SparseMat};

fn sparse_of(s: &str) -> Option<Vec<Vec<(u32, i32)>>> {
    if s == "-" {
        return Some(vec![]);
    }
    s.split(';')
        .map(|r| {
            if r == "-" {
                return Some(vec![]);
            }
            r.split(',')
                .map(|e| {
                    let (j, c) = e.split_once(':')?;
                    Some((j.parse().ok()?, c.parse().ok()?))
                })
                .collect()
        })
        .collect()
}

pub fn handle(op: &str, a: &[&str]) -> Option<String> {
    match (op, a) {
        ("im_ker_trace", [rows, p]) => {
            let rows = sparse_of(rows)?;
            let p = U256::from_str(p).ok()?;
            let v0 = verif_hooks_ker::ker_v0(rows.len(), p);
            let r = catch_unwind(AssertUnwindSafe(|| {
                let m = SparseMat::new(rows);
                match m.ker_p256(p) {
                    None => "none".to_string(),
                    Some(v) => show_list(&v),
                }
            }));
            let ans = match r {
                Ok(s) => s,
                Err(_) => "panic".to_string(),
            };
            Some(format!("{}|{}", show_list(&v0), ans))
        }
        _ => None,
    }
}
