/-
Coverage arithmetic of the stage-2 grids (C16): soundness/completeness of the executable grid
tests of Ymq/Model/Stage2.lean against their existential specifications, and the cover lemmas
(every l coprime to d1 up to the upper end is a grid value).
-/
import Ymq.Model.Stage2
import Mathlib.Data.Nat.GCD.Basic
import Mathlib.Tactic.Ring
import Mathlib.Tactic.Linarith

namespace Ymq.Stage2
open Ymq.Gen

/-- `m = i*d1 + b` or `m = i*d1 - b` for a giant step `i` and a baby step `b`. -/
def SymGrid (baby : Nat → Bool) (g : Nat × Nat × Nat) (d1 d2 m : Nat) : Prop :=
  ∃ i b, isGiant g d2 i = true ∧ baby b = true ∧ (m = i * d1 + b ∨ m + b = i * d1)

theorem symIsGrid_sound {baby : Nat → Bool} {g : Nat × Nat × Nat} {d1 d2 m : Nat} (hd : 0 < d1)
    (h : symIsGrid baby g d1 d2 m = true) : SymGrid baby g d1 d2 m := by
  unfold symIsGrid at h
  rcases Bool.or_eq_true _ _ |>.mp h with h | h
  · obtain ⟨hb, hg⟩ := Bool.and_eq_true _ _ |>.mp h
    exact ⟨m / d1, m % d1, hg, hb, Or.inl (by rw [Nat.mul_comm]; exact (Nat.div_add_mod m d1).symm)⟩
  · obtain ⟨hb, hg⟩ := Bool.and_eq_true _ _ |>.mp h
    refine ⟨m / d1 + 1, d1 - m % d1, hg, hb, Or.inr ?_⟩
    have h1 := Nat.div_add_mod m d1
    have h2 := Nat.mod_lt m hd
    have h3 : (m / d1 + 1) * d1 = d1 * (m / d1) + d1 := by ring
    omega

theorem symIsGrid_complete {baby : Nat → Bool} {g : Nat × Nat × Nat} {d1 d2 m : Nat}
    (hb : ∀ b, baby b = true → 0 < b ∧ b < d1)
    (h : SymGrid baby g d1 d2 m) : symIsGrid baby g d1 d2 m = true := by
  obtain ⟨i, b, hg, hbb, hm⟩ := h
  obtain ⟨hb0, hb1⟩ := hb b hbb
  have hd : 0 < d1 := by omega
  unfold symIsGrid
  rcases hm with hm | hm
  · have e1 : m % d1 = b := by
      rw [hm, Nat.add_comm, Nat.add_mul_mod_self_right]; exact Nat.mod_eq_of_lt hb1
    have e2 : m / d1 = i := by
      rw [hm, Nat.add_comm, Nat.add_mul_div_right _ _ hd, Nat.div_eq_of_lt hb1, Nat.zero_add]
    rw [e1, e2, hbb, hg]; rfl
  · -- m = (i-1)*d1 + (d1 - b)
    have hi : 0 < i := by
      rcases Nat.eq_zero_or_pos i with h0 | h0
      · subst h0; omega
      · exact h0
    obtain ⟨j, rfl⟩ : ∃ j, i = j + 1 := ⟨i - 1, by omega⟩
    have hm' : m = (d1 - b) + j * d1 := by
      have : (j + 1) * d1 = j * d1 + d1 := by ring
      omega
    have e1 : m % d1 = d1 - b := by
      rw [hm', Nat.add_mul_mod_self_right]; exact Nat.mod_eq_of_lt (by omega)
    have e2 : m / d1 = j := by
      rw [hm', Nat.add_mul_div_right _ _ hd, Nat.div_eq_of_lt (by omega), Nat.zero_add]
    have e3 : d1 - (d1 - b) = b := by omega
    rw [e1, e2, e3, hbb, hg]; simp

theorem symIsGrid_iff {baby : Nat → Bool} {g : Nat × Nat × Nat} {d1 d2 m : Nat}
    (hb : ∀ b, baby b = true → 0 < b ∧ b < d1) (hd : 0 < d1) :
    symIsGrid baby g d1 d2 m = true ↔ SymGrid baby g d1 d2 m :=
  ⟨symIsGrid_sound hd, symIsGrid_complete hb⟩

/-! ### residues of numbers coprime to an even d1 -/

theorem coprime_mod_facts {d1 l : Nat} (hev : 2 ∣ d1) (h2 : 2 < d1) (hl : Nat.gcd l d1 = 1) :
    Nat.gcd (l % d1) d1 = 1 ∧ l % d1 ≠ 0 ∧ l % d1 ≠ d1 / 2 ∧ l % d1 < d1 := by
  have hd : 0 < d1 := by omega
  have hg : Nat.gcd (l % d1) d1 = 1 := by
    rw [← Nat.gcd_rec, Nat.gcd_comm]; exact hl
  refine ⟨hg, ?_, ?_, Nat.mod_lt _ hd⟩
  · intro h0; rw [h0, Nat.gcd_zero_left] at hg; omega
  · intro hh
    rw [hh] at hg
    have : d1 / 2 ∣ d1 := ⟨2, by omega⟩
    rw [Nat.gcd_eq_left this] at hg
    omega

/-- The symmetric cover: giant steps `lo .. hi-1`, baby steps = residues `b < d1/2` coprime to `d1`. -/
theorem sym_cover {baby : Nat → Bool} {g : Nat × Nat × Nat} {d1 d2 l : Nat}
    (hbaby : ∀ b, 0 < b → b < d1 / 2 → Nat.gcd b d1 = 1 → baby b = true)
    (hev : 2 ∣ d1) (h2 : 2 < d1) (hl : Nat.gcd l d1 = 1)
    (hlo : giantLo g * d1 ≤ l + d1 / 2)
    (hhi : l + 1 ≤ (giantHi g d2 - 1) * d1 + d1 / 2) (hpos : 0 < giantHi g d2) :
    symIsGrid baby g d1 d2 l = true := by
  obtain ⟨hg, h0, hh, hlt⟩ := coprime_mod_facts hev h2 hl
  have hd : 0 < d1 := by omega
  have hdm := Nat.div_add_mod l d1
  obtain ⟨c, hc⟩ := hev
  have hhalf : d1 / 2 = c := by omega
  set r := l % d1 with hr
  set q := l / d1 with hq
  set H := giantHi g d2 with hH
  have hHm : (H - 1) * d1 + d1 = H * d1 := by
    obtain ⟨k, hk⟩ : ∃ k, H = k + 1 := ⟨H - 1, by omega⟩
    rw [hk]; simp; ring
  unfold symIsGrid isGiant
  rcases Nat.lt_or_ge r (d1 / 2) with hlt2 | hge2
  · -- b = r, i = q
    have hb := hbaby r (by omega) hlt2 hg
    have hq1 : giantLo g ≤ q := by
      by_contra hcon
      have : q + 1 ≤ giantLo g := by omega
      have h3 : (q + 1) * d1 ≤ giantLo g * d1 := Nat.mul_le_mul_right _ this
      have h4 : (q + 1) * d1 = d1 * q + d1 := by ring
      omega
    have hq2 : q < H := by
      by_contra hcon
      have : H ≤ q := by omega
      have h3 : H * d1 ≤ q * d1 := Nat.mul_le_mul_right _ this
      have h4 : q * d1 = d1 * q := Nat.mul_comm _ _
      omega
    simp [← hr, ← hq, hb, hq1, hq2, ← hH]
  · -- b = d1 - r, i = q + 1
    have hgt : d1 / 2 < r := by omega
    have hb := hbaby (d1 - r) (by omega) (by omega) (by rw [Nat.gcd_self_sub_left (by omega)]; exact hg)
    have hq1 : giantLo g ≤ q + 1 := by
      by_contra hcon
      have : q + 2 ≤ giantLo g := by omega
      have h3 : (q + 2) * d1 ≤ giantLo g * d1 := Nat.mul_le_mul_right _ this
      have h4 : (q + 2) * d1 = d1 * q + 2 * d1 := by ring
      omega
    have hq2 : q + 1 < H := by
      by_contra hcon
      have : H ≤ q + 1 := by omega
      have h3 : H * d1 ≤ (q + 1) * d1 := Nat.mul_le_mul_right _ this
      have h4 : (q + 1) * d1 = d1 * q + d1 := by ring
      omega
    simp [← hr, ← hq, hb, hq1, hq2, ← hH]

/-- every grid value is at most the upper end -/
theorem sym_grid_le {baby : Nat → Bool} {g : Nat × Nat × Nat} {d1 d2 m : Nat}
    (hb : ∀ b, baby b = true → b < d1 / 2) (h : SymGrid baby g d1 d2 m) : m ≤ symEff g d1 d2 := by
  obtain ⟨i, b, hg, hbb, hm⟩ := h
  have hb1 := hb b hbb
  unfold isGiant at hg
  obtain ⟨_, hi⟩ := Bool.and_eq_true _ _ |>.mp hg
  have hi : i < giantHi g d2 := by simpa using hi
  unfold symEff
  have h3 : i * d1 ≤ (giantHi g d2 - 1) * d1 := Nat.mul_le_mul_right _ (by omega)
  omega

/-! ### instances: ECM, ECM128, P+1

The loop constants come from `Gen/Stage2Arms.lean`; `delta` exposes their current values, so these
lemmas (and everything built on them) fail to check when the source loops change. -/

theorem ecmGiantHi (d2 : Nat) (h : 2 ≤ d2) : giantHi Stage2Arms.ecmGiant d2 = d2 + 1 := by
  delta Stage2Arms.ecmGiant; simp [giantHi, giantLo, giantCount]; omega

theorem ecm128GiantHi (d2 : Nat) (h : 2 ≤ d2) : giantHi Stage2Arms.ecm128Giant d2 = d2 + 1 := by
  delta Stage2Arms.ecm128Giant; simp [giantHi, giantLo, giantCount]; omega

theorem pp1GiantHi (d2 : Nat) (h : 1 ≤ d2) : giantHi Stage2Arms.pp1Giant d2 = d2 + 1 := by
  delta Stage2Arms.pp1Giant; simp [giantHi, giantLo, giantCount]; omega

theorem ecmGiantLo : giantLo Stage2Arms.ecmGiant = 1 := by delta Stage2Arms.ecmGiant; rfl
theorem ecm128GiantLo : giantLo Stage2Arms.ecm128Giant = 1 := by delta Stage2Arms.ecm128Giant; rfl
theorem pp1GiantLo : giantLo Stage2Arms.pp1Giant = 1 := by delta Stage2Arms.pp1Giant; rfl

theorem ecmBaby_iff {d1 b : Nat} :
    isEcmBabyOf Stage2Arms.ecmBaby d1 b = true ↔ 0 < b ∧ b < d1 / 2 ∧ Nat.gcd b d1 = 1 := by
  delta Stage2Arms.ecmBaby; simp [isEcmBabyOf]; omega

theorem ecm128Baby_iff {d1 b : Nat} :
    isEcmBabyOf Stage2Arms.ecm128Baby d1 b = true ↔ 0 < b ∧ b < d1 / 2 ∧ Nat.gcd b d1 = 1 := by
  delta Stage2Arms.ecm128Baby; simp [isEcmBabyOf]; omega

theorem odd_of_coprime_even {d1 r : Nat} (hev : 2 ∣ d1) (hg : Nat.gcd r d1 = 1) : r % 2 = 1 := by
  by_contra hcon
  have : 2 ∣ Nat.gcd r d1 := Nat.dvd_gcd (by omega) hev
  rw [hg] at this; omega

theorem not3_of_coprime {d1 r : Nat} (h3 : 3 ∣ d1) (hg : Nat.gcd r d1 = 1) : r % 3 ≠ 0 := by
  intro hcon
  have : 3 ∣ Nat.gcd r d1 := Nat.dvd_gcd (by omega) h3
  rw [hg] at this; omega

/-- P+1 keeps exactly the residues ECM keeps (for 6 ∣ d1): `b = 1`, or odd `b`, `3 ∤ b`, coprime. -/
theorem pp1Baby_iff {d1 b : Nat} (h6 : 6 ∣ d1) (hd : 0 < d1) :
    isPp1BabyOf Stage2Arms.pp1Baby d1 b = true ↔ 0 < b ∧ b < d1 / 2 ∧ Nat.gcd b d1 = 1 := by
  have hev : 2 ∣ d1 := Nat.dvd_trans (by decide) h6
  have h3 : 3 ∣ d1 := Nat.dvd_trans (by decide) h6
  have h6' : 6 ≤ d1 := Nat.le_of_dvd hd h6
  delta Stage2Arms.pp1Baby
  simp only [isPp1BabyOf]
  constructor
  · intro h
    simp at h
    rcases h with h | h
    · subst h; simp; omega
    · omega
  · rintro ⟨h0, h1, hg⟩
    have ho := odd_of_coprime_even hev hg
    have hn := not3_of_coprime h3 hg
    rcases Nat.lt_or_ge 1 b with hb | hb
    · have : (b - 1) % 2 = 0 := by omega
      simp [hb, this, h1, hn, hg]
    · have : b = 1 := by omega
      simp [this]

end Ymq.Stage2
