/-
C15, part C: the curve constructors (model: Ymq/Model/Suyama.lean, control flow around the formulas
translated in Ymq/Gen/Curves.lean; lemmas: Ymq/Lemmas/CurveBuild.lean).

Every statement is over an arbitrary commutative ring `R` with an arithmetic context `ctx` satisfying
`Ctx.Lawful` (what C07/C09 prove of `ZmodN`); `zmodCtx_lawful` shows that `Z/n` is such a context, so no
statement is vacuous. "The code returns a curve" = `Res.ok`, "the code returns the factor f" = `Res.err f`,
"the code panics" = `Res.panic`.
-/
import Ymq.Lemmas.CurveBuild
import Ymq.Lemmas.CurveBuildFin
import Mathlib.Algebra.Group.Basic
import Mathlib.Tactic.Linarith

namespace Ymq.C15
open Ymq.Suyama Ymq.Gen.Curves Ymq.Curve

section
variable {R : Type} [CommRing R] (ctx : Ctx R)

/-- `Z/n` (n > 0) with its own inverse, gcd and equality is a lawful context: the hypotheses `ctx.Lawful` of
the theorems below are satisfiable for every modulus. -/
theorem lawful_nonvacuous (n : Nat) [NeZero n] : (zmodCtx n).Lawful := zmodCtx_lawful n

/-- `Suyama11::new`: `Err(UnexpectedFactor(3))` exactly when `3 ∣ n`; otherwise neither the debug assertion
`3 * one_third == 1` nor `assert!(s.is_valid(G))` fires (both profiles), and the constants returned are
the translated ones at an inverse of 3, with the generator on the parameter curve. -/
theorem suyama_new_spec (hl : ctx.Lawful) (hR : ((ctx.n : Nat) : R) = 0) (chk : Bool) :
    (ctx.n % 3 = 0 → suyamaNew chk ctx = .err 3) ∧
    (ctx.n % 3 ≠ 0 → ∃ t : R, ((3 : Nat) : R) * t = 1 ∧ suyamaNew chk ctx = .ok (suyamaConsts t) ∧
      suyamaIsValid (suyamaConsts t).1 (suyamaConsts t).2.1 (suyamaConsts t).2.2.1 (suyamaConsts t).2.2.2
        ⟨(suyamaConsts t).2.2.1, (suyamaConsts t).2.2.2, 1⟩) := by
  refine ⟨fun h => by simp [suyamaNew, h], fun h => ?_⟩
  have key : ∃ k : Nat, (if ctx.n % 3 = 1 then ctx.ofNat (ctx.n - ctx.n / 3) else ctx.ofNat (ctx.n / 3 + 1)) = (k : R) ∧
      ∃ m : Nat, 3 * k = m * ctx.n + 1 := by
    by_cases h1 : ctx.n % 3 = 1
    · refine ⟨ctx.n - ctx.n / 3, by simp [h1, hl.ofNat_cast], 2, by omega⟩
    · refine ⟨ctx.n / 3 + 1, by simp [h1, hl.ofNat_cast], 1, by omega⟩
  obtain ⟨k, hk, m, hm⟩ := key
  have h3 : ((3 : Nat) : R) * (k : R) = 1 := by
    have : ((3 * k : Nat) : R) = ((m * ctx.n + 1 : Nat) : R) := by rw [hm]
    push_cast at this ⊢
    rw [this, hR]; ring
  have hv := suyama_generator_valid (k : R) h3
  refine ⟨(k : R), h3, ?_, hv⟩
  unfold suyamaNew
  simp only [h, if_false]
  rw [hk]
  have e1 : ctx.eq (ctx.ofNat 3 * (k : R)) 1 = true := by
    rw [hl.eq_iff, hl.ofNat_cast]; exact h3
  have e2 : ctx.eq (suyamaIsValidSides (suyamaConsts (k : R)).1 (suyamaConsts (k : R)).2.1 (suyamaConsts (k : R)).2.2.1
      (suyamaConsts (k : R)).2.2.2 ⟨(suyamaConsts (k : R)).2.2.1, (suyamaConsts (k : R)).2.2.2, 1⟩).1
      (suyamaIsValidSides (suyamaConsts (k : R)).1 (suyamaConsts (k : R)).2.1 (suyamaConsts (k : R)).2.2.1
      (suyamaConsts (k : R)).2.2.2 ⟨(suyamaConsts (k : R)).2.2.1, (suyamaConsts (k : R)).2.2.2, 1⟩).2 = true := by
    rw [hl.eq_iff]; exact hv
  simp [e1, e2]

/-- `Suyama11::element(seed)`: never panics for a seed ≥ 2 (`assert!(seed > 1)`, `assert!(bit > 0)`, the
`u32` decrement of `bit`); a point it returns is on the parameter curve; a factor it returns divides the
modulus and is not 1. -/
theorem element_sound (hl : ctx.Lawful) (a b gx gy : R) (hg : suyamaIsValid a b gx gy ⟨gx, gy, 1⟩)
    (seed : Nat) (h2 : 2 ≤ seed) :
    element ctx a b gx gy seed ≠ .panic ∧
    (∀ p, element ctx a b gx gy seed = .ok p → suyamaIsValid a b gx gy p) ∧
    (∀ d, element ctx a b gx gy seed = .err d → d ∣ ctx.n ∧ d ≠ 1) := by
  obtain ⟨he, hpos⟩ := element_cases ctx a b gx gy seed h2
  rw [he]
  unfold elementLoop
  refine ⟨ladder_no_panic _ _ _ _ _ _ hpos, fun p hp => ?_, fun d hd => ?_⟩
  · exact ladder_ok _ _ _ (suyamaIsValid a b gx gy)
      (fun q hq => by obtain ⟨x, y, z⟩ := q; exact suyama_double_closed a b gx gy x y z hq)
      (fun q hq => by obtain ⟨x, y, z⟩ := q; exact suyama_add_g_closed a b gx gy x y z hq hg)
      seed _ _ p hg hp
  · exact ladder_err _ _ _ (fun d => d ∣ ctx.n ∧ d ≠ 1) (fun p q d h => elementCheck_some ctx hl p q d h) seed _ _ d hd

/-- The ladder of `element` is left-to-right double-and-add: in any commutative group, with `double` the
doubling and `add_g` the addition of `G`, and no early exit, it returns `seed • G` (the code's comment says
"(seed + 2)G"; the code and its test compute `[seed]G`). -/
theorem element_ladder_spec {G : Type} [AddCommGroup G] (g : G) (seed : Nat) (h2 : 2 ≤ seed) :
    ladder (fun x => x + x) (fun x => x + g) (fun _ _ => none) seed (Nat.log2 seed) g = .ok (seed • g) := by
  have key : ∀ bit (res : G), 0 < bit → res = (seed >>> bit) • g →
      ladder (fun x => x + x) (fun x => x + g) (fun _ _ => none) seed bit res = .ok (seed • g) := by
    intro bit
    induction bit with
    | zero => intro res h; omega
    | succ b ih =>
      intro res _ hres
      have hstep : seed >>> b = 2 * (seed >>> (b + 1)) + (seed >>> b) % 2 := by
        rw [Nat.shiftRight_succ]; omega
      have hnew : (if (seed >>> b) % 2 = 1 then res + res + g else res + res) = (seed >>> b) • g := by
        rcases Nat.mod_two_eq_zero_or_one (seed >>> b) with h0 | h1
        · rw [if_neg (by omega), hstep, h0, hres, add_zero, two_mul, add_nsmul]
        · rw [if_pos h1, hstep, h1, hres, add_nsmul, two_mul, add_nsmul, one_nsmul]
      simp only [ladder]
      rw [hnew]
      by_cases hb : b = 0
      · subst hb; simp
      · simp only [hb, if_false]
        exact ih _ (Nat.pos_of_ne_zero hb) rfl
  have hlog : 0 < Nat.log2 seed := (element_cases (R := Int) ⟨0, fun _ => none, fun _ => 0, fun _ _ => false, fun _ => 0⟩ 0 0 0 0 seed h2).2
  refine key _ _ hlog ?_
  have h1 : seed >>> Nat.log2 seed = 1 := by
    rw [Nat.shiftRight_eq_div_pow]
    have hlo : 2 ^ Nat.log2 seed ≤ seed := Nat.log2_self_le (by omega)
    have hhi : seed < 2 ^ (Nat.log2 seed + 1) := Nat.lt_log2_self
    rw [Nat.div_eq_iff (Nat.pow_pos (by decide))]
    rw [pow_succ] at hhi
    omega
  rw [h1, one_nsmul]

/-- `Suyama11::params`: with a lawful context it never panics (the `assert!(d != 1)` of
`UnexpectedLargeFactor::new` cannot fire: a non-invertible square has a non-invertible root); the pair it
returns satisfies `(σ + 1)(3x + z) = 72 z`, `r (3x + z)² = 432 y z`; a factor it returns divides `n`, ≠ 1. -/
theorem params_sound (hl : ctx.Lawful) (a b gx gy : R) (pt : Pt R) :
    params ctx a b gx gy pt ≠ .panic ∧
    (∀ s r, params ctx a b gx gy pt = .ok (s, r) →
      (s + 1) * (3 * pt.x + pt.z) = 72 * pt.z ∧ r * ((3 * pt.x + pt.z) * (3 * pt.x + pt.z)) = 432 * (pt.y * pt.z)) ∧
    (∀ d, params ctx a b gx gy pt = .err d → d ∣ ctx.n ∧ d ≠ 1) := by
  unfold params
  cases hi : ctx.inv (paramsDen pt * paramsDen pt) with
  | some i =>
    refine ⟨by simp, fun s r h => ?_, fun d h => by simp at h⟩
    simp only [Res.ok.injEq] at h
    have := suyama_params_rel ctx.invT a b gx gy pt (by
      have := mul_invT ctx hl hi
      simpa [paramsDen] using this)
    rw [h] at this
    exact this
  | none =>
    refine ⟨largeFactor_no_panic ctx hl _ (not_isUnit_of_sq (hl.inv_none _ hi)),
      fun s r h => absurd h (largeFactor_not_ok ctx _ _), fun d h => largeFactor_err ctx hl _ d h⟩

/-- `Curve::twisted_from_point` (with `zn_divide`): never panics; a curve it returns is the a = -1 curve
through the given generator: the generator satisfies the code's own `is_valid` with the returned `d`;
a factor it returns divides `n`, ≠ 1. -/
theorem twisted_from_point_sound (hl : ctx.Lawful) (g : Pt R) :
    twistedFromPoint ctx g ≠ .panic ∧
    (∀ c, twistedFromPoint ctx g = .ok c → c.twisted = true ∧ c.g = g ∧ ecmIsValid c.d true c.g) ∧
    (∀ d, twistedFromPoint ctx g = .err d → d ∣ ctx.n ∧ d ≠ 1) := by
  unfold twistedFromPoint
  cases hi : ctx.inv (twistedDen g) with
  | some i =>
    refine ⟨by simp, fun c h => ?_, fun d h => by simp at h⟩
    simp only [Res.ok.injEq] at h
    subst h
    refine ⟨rfl, rfl, ?_⟩
    exact twisted_from_point_valid ctx.invT 0 true g (by
      have := mul_invT ctx hl hi
      simpa [twistedDen] using this)
  | none =>
    refine ⟨largeFactor_no_panic ctx hl _ (hl.inv_none _ hi),
      fun c h => absurd h (largeFactor_not_ok ctx _ _), fun d h => largeFactor_err ctx hl _ d h⟩

/-- The Suyama-11 construction as `ecm()` composes it (`element`, `params_point`, `twisted_from_point`):
for every seed ≥ 2 it does not panic; when it returns a curve, the generator lies on that curve (a = -1,
the code's `is_valid`); when a denominator is not invertible it returns a divisor `d ≠ 1` of `n` — never a
curve with a bogus `d`. -/
theorem suyama_curve_sound (hl : ctx.Lawful) (a b gx gy : R) (hg : suyamaIsValid a b gx gy ⟨gx, gy, 1⟩)
    (seed : Nat) (h2 : 2 ≤ seed) :
    suyamaCurve ctx a b gx gy seed ≠ .panic ∧
    (∀ c, suyamaCurve ctx a b gx gy seed = .ok c → c.twisted = true ∧ ecmIsValid c.d true c.g) ∧
    (∀ d, suyamaCurve ctx a b gx gy seed = .err d → d ∣ ctx.n ∧ d ≠ 1) := by
  obtain ⟨e1, _, e3⟩ := element_sound ctx hl a b gx gy hg seed h2
  unfold suyamaCurve
  cases he : element ctx a b gx gy seed with
  | panic => exact absurd he e1
  | err d0 =>
    refine ⟨by simp [Res.bind], fun c h => by simp [Res.bind] at h, fun d h => ?_⟩
    simp only [Res.bind, Res.err.injEq] at h
    subst h
    exact e3 _ he
  | ok el =>
    obtain ⟨p1, _, p3⟩ := params_sound ctx hl a b gx gy el
    simp only [Res.bind, paramsPoint]
    cases hp : params ctx a b gx gy el with
    | panic => exact absurd hp p1
    | err d0 =>
      refine ⟨by simp, fun c h => by simp at h, fun d h => ?_⟩
      simp only [Res.err.injEq] at h
      subst h
      exact p3 _ hp
    | ok sr =>
      obtain ⟨t1, t2, t3⟩ := twisted_from_point_sound ctx hl (suyamaParamsPoint ctx.invT a b gx gy el)
      exact ⟨t1, fun c h => ⟨(t2 c h).1, (t2 c h).2.2⟩, t3⟩

/-- `Curve::from_point(zn, x, y)` for `0 < x, y < 2^31` (the fallback points `(3s+5, 4s+5)` of `ecm()` are such):
no panic in either profile; a curve it returns is the a = +1 curve through `(x, y, 1)`; when `x y` is
not invertible the reported `u64` is the gcd of `x y` and `n` itself (no truncation: it is at most
`x y < 2^62`), a divisor `≠ 1` of `n`. -/
theorem from_point_sound (hl : ctx.Lawful) (chk : Bool) (x y : Nat) (hx : 0 < x) (hy : 0 < y)
    (hx31 : x < 2 ^ 31) (hy31 : y < 2 ^ 31) :
    fromPoint chk ctx x y ≠ .panic ∧
    (∀ c, fromPoint chk ctx x y = .ok c → c.twisted = false ∧ c.g = ⟨(x : R), (y : R), 1⟩ ∧ ecmIsValid c.d false c.g) ∧
    (∀ f, fromPoint chk ctx x y = .err f → f ∣ ctx.n ∧ f ≠ 1) := by
  have hxy : 0 < x * y := Nat.mul_pos hx hy
  have hs : ¬ (x * x + y * y = 0) := by
    have : 0 < x * x := Nat.mul_pos hx hx
    omega
  have hc : (chk && (x * x + y * y == 0)) = false := by
    have : (x * x + y * y == 0) = false := by simpa using hs
    simp [this]
  unfold fromPoint
  simp only [hx31, hy31, and_self, not_true_eq_false, if_false, hc, Bool.false_eq_true]
  cases h1 : ctx.inv (ctx.ofNat 1) with
  | none =>
    exfalso
    apply hl.inv_none _ h1
    rw [hl.ofNat_cast]; simp
  | some i1 =>
    cases h2 : ctx.inv (ctx.ofNat (x * y)) with
    | none =>
      refine ⟨by simp [fractionErr], fun c h => by simp [fractionErr] at h, fun f h => ?_⟩
      simp only [fractionErr, Res.err.injEq] at h
      have hg : ctx.gcd (ctx.ofNat (x * y)) = Nat.gcd ctx.n (x * y) := hl.gcd_ofNat _
      have hle : Nat.gcd ctx.n (x * y) ≤ x * y := Nat.le_of_dvd hxy (Nat.gcd_dvd_right _ _)
      have hlt : x * y < 2 ^ 64 := by
        calc x * y < 2 ^ 31 * 2 ^ 31 := Nat.mul_lt_mul'' hx31 hy31
          _ < 2 ^ 64 := by norm_num
      rw [Nat.mod_eq_of_lt (by omega)] at h
      subst h
      refine ⟨hl.gcd_dvd _, fun h1' => hl.inv_none _ h2 (hl.gcd_one _ h1')⟩
    | some i2 =>
      refine ⟨by simp, fun c h => ?_, fun f h => by simp at h⟩
      simp only [Res.ok.injEq] at h
      subst h
      have e1 := mul_invT ctx hl h1
      have e2 := mul_invT ctx hl h2
      rw [hl.ofNat_cast] at e1 e2
      have hv := from_point_valid ctx.invT (x : R) (y : R) (by simpa using e1) (by push_cast at e2; exact e2)
      rw [hl.ofNat_cast x, hl.ofNat_cast y]
      exact ⟨rfl, rfl, hv⟩

/-- Defect of `Curve::from_point` on a zero coordinate (direct calls only; `ecm()` never passes one): `x y = 0` is
not invertible, `inv_mod` reports `gcd(0, n) = n`, and `fraction_modn` truncates it to its low word: the
"factor" returned is `n mod 2^64` — for a modulus above `2^64` in general not a divisor of `n` (release
profile; with `x = y = 0` the checked profile panics on `x*x + y*y - 1` before). -/
theorem from_point_zero_coordinate (hl : ctx.Lawful) [Nontrivial R] (x y : Nat) (hx31 : x < 2 ^ 31)
    (hy31 : y < 2 ^ 31) (h0 : x * y = 0) :
    fromPoint false ctx x y = .err (ctx.n % 2 ^ 64) := by
  unfold fromPoint
  simp only [hx31, hy31, and_self, not_true_eq_false, if_false, Bool.false_and, Bool.false_eq_true]
  cases h1 : ctx.inv (ctx.ofNat 1) with
  | none =>
    exfalso
    apply hl.inv_none _ h1
    rw [hl.ofNat_cast]; simp
  | some i1 =>
    cases h2 : ctx.inv (ctx.ofNat (x * y)) with
    | none =>
      simp only [fractionErr]
      rw [hl.gcd_ofNat, h0, Nat.gcd_zero_right]
    | some i2 =>
      exfalso
      have := hl.inv_some _ _ h2
      rw [hl.ofNat_cast, h0] at this
      simp at this

/-- counter-witness: modulo the prime `2^128 + 51`, `from_point(0, 3)` returns the "factor" 51, which does not
divide the modulus (observed on the real code: `from_point release 340282366920938463463374607431768211507 0 3`
answers `err 51`). -/
theorem from_point_zero_truncated_witness :
    (zmodCtx (2 ^ 128 + 51)).Lawful ∧
    (∀ (ctx : Ctx (ZMod (2 ^ 128 + 51))), ctx.Lawful → ctx.n = 2 ^ 128 + 51 → fromPoint false ctx 0 3 = .err 51) ∧
    ¬ (51 ∣ 2 ^ 128 + 51) := by
  have : NeZero (2 ^ 128 + 51) := ⟨by norm_num⟩
  have : Fact (1 < 2 ^ 128 + 51) := ⟨by norm_num⟩
  refine ⟨zmodCtx_lawful _, fun ctx hl hn => ?_, by norm_num⟩
  have := from_point_zero_coordinate ctx hl 0 3 (by norm_num) (by norm_num) (by norm_num)
  rw [this, hn]
  norm_num

/-- Curve selection of `ecm::ecm` (`do_curve` before `ecm_curve`), any seed ≥ 2 — in particular every seed
of `ecm_seeds_spec`: no panic (both profiles); a curve that is run has its generator on it (the code's
`is_valid`, a = -1 for the Suyama-11 curve, a = +1 for the fallback curve); a pair `(p, n/p)` that is
returned has `1 < p < n`, `p ∣ n`: a proper divisor. -/
theorem select_curve_sound (hl : ctx.Lawful) (hn : 0 < ctx.n) (chk : Bool) (a b gx gy : R)
    (hg : suyamaIsValid a b gx gy ⟨gx, gy, 1⟩) (seed : Nat) (h2 : 2 ≤ seed) :
    (selectCurve chk ctx a b gx gy seed ≠ .panic) ∧
    (∀ c, selectCurve chk ctx a b gx gy seed = .curve c → ecmIsValid c.d c.twisted c.g) ∧
    (∀ p, selectCurve chk ctx a b gx gy seed = .factor p → p ∣ ctx.n ∧ 1 < p ∧ p < ctx.n) := by
  obtain ⟨s1, s2, s3⟩ := suyama_curve_sound ctx hl a b gx gy hg seed h2
  have hfb := from_point_sound ctx hl chk (fallbackPoint seed).1 (fallbackPoint seed).2
    (by simp [fallbackPoint]) (by simp [fallbackPoint])
    (by simp only [fallbackPoint]; have := Nat.mod_lt seed (show 0 < 2 ^ 24 by norm_num); omega)
    (by simp only [fallbackPoint]; have := Nat.mod_lt seed (show 0 < 2 ^ 24 by norm_num); omega)
  obtain ⟨f1, f2, f3⟩ := hfb
  have proper : ∀ p, p ∣ ctx.n → p ≠ 1 → p ≠ ctx.n → p ∣ ctx.n ∧ 1 < p ∧ p < ctx.n := by
    intro p hd h1 hne
    have hp0 : p ≠ 0 := fun h => by subst h; simp at hd; omega
    have := Nat.le_of_dvd hn hd
    exact ⟨hd, by omega, by omega⟩
  unfold selectCurve
  simp only [show ¬ ¬ (2 ≤ seed) from fun h => h h2, if_false]
  cases hs : suyamaCurve ctx a b gx gy seed with
  | panic => exact absurd hs s1
  | ok c =>
    refine ⟨by simp, fun c' h => ?_, fun p h => by simp at h⟩
    simp only [Sel.curve.injEq] at h
    subst h
    obtain ⟨ht, hv⟩ := s2 _ hs
    rw [ht]; exact hv
  | err p0 =>
    obtain ⟨hd, h1⟩ := s3 _ hs
    by_cases hp : p0 = ctx.n
    · simp only [hp, if_true]
      cases hf : fromPoint chk ctx (fallbackPoint seed).1 (fallbackPoint seed).2 with
      | panic => exact absurd hf f1
      | ok c =>
        refine ⟨by simp, fun c' h => ?_, fun p h => by simp at h⟩
        simp only [Sel.curve.injEq] at h
        subst h
        obtain ⟨ht, _, hv⟩ := f2 _ hf
        rw [ht]; exact hv
      | err f =>
        obtain ⟨fd, fne⟩ := f3 _ hf
        by_cases hfn : f = ctx.n
        · simp [hfn]
        · simp only [hfn, if_false]
          refine ⟨by simp, fun c h => by simp at h, fun p h => ?_⟩
          simp only [Sel.factor.injEq] at h
          subst h
          exact proper _ fd fne hfn
    · simp only [hp, if_false]
      refine ⟨by simp, fun c h => by simp at h, fun p h => ?_⟩
      simp only [Sel.factor.injEq] at h
      subst h
      exact proper _ hd h1 hp

/-- The seeds of `ecm::ecm`: `curves` of them, each in `[2, 2^32)` — so `assert!(seeds.len() == curves)`,
`assert!(seed >= 2)` of `do_curve` and `assert!(seed > 1)` of `element` never fire and the seed fits `u32`. -/
theorem ecm_seeds_spec (n curves : Nat) (l : List Nat) (h : ecmSeeds n curves = some l) :
    l.length = curves ∧ ∀ s ∈ l, 2 ≤ s ∧ s < 2 ^ 32 := by
  have key : ∀ m0 wide k seed, (ecmSeedsLoop m0 wide k seed).length = k ∧
      ∀ s ∈ ecmSeedsLoop m0 wide k seed, 2 ≤ s ∧ s < 2 ^ 32 := by
    intro m0 wide k
    induction k with
    | zero => intro seed; simp [ecmSeedsLoop]
    | succ k ih =>
      intro seed
      simp only [ecmSeedsLoop, List.length_cons, List.mem_cons]
      refine ⟨by rw [(ih _).1], fun s hs => ?_⟩
      rcases hs with rfl | hs
      · constructor
        · exact Nat.le_max_left _ _
        · cases wide
          · have := Nat.mod_lt (seed * m0 % 2 ^ 64) (show 0 < 2 ^ 16 by norm_num)
            simp only [Bool.false_eq_true, if_false]
            omega
          · have := Nat.mod_lt (seed * m0 % 2 ^ 64) (show 0 < 2 ^ 32 by norm_num)
            simp only [if_true]
            omega
      · exact (ih _).2 s hs
  unfold ecmSeeds at h
  split at h
  · cases h
  · simp only [Option.some.injEq] at h
    subst h
    exact key _ _ _ _

/-- One curve of `ecm128::ecm` (seed in `1..=curves`, `curves < 2^32 - 1`): no panic; a pair `(p, n/p)` that
is returned while selecting the curve has `p ∣ n`, `1 < p < n`. -/
theorem select128_sound (hl : ctx.Lawful) (a b gx gy : R)
    (hg : suyamaIsValid a b gx gy ⟨gx, gy, 1⟩) (seed : Nat) (h1 : 1 ≤ seed) (hs : seed + 1 < 2 ^ 32) :
    select128 ctx a b gx gy seed ≠ .panic ∧
    (∀ p, select128 ctx a b gx gy seed = .factor p → p ∣ ctx.n ∧ 1 < p ∧ p < ctx.n) := by
  have hmod : seed % 2 ^ 32 + 1 = seed + 1 := by rw [Nat.mod_eq_of_lt (by omega)]
  obtain ⟨e1, _, e3⟩ := element_sound ctx hl a b gx gy hg (seed + 1) (by omega)
  unfold select128
  rw [hmod]
  simp only [show ¬ (seed + 1 ≥ 2 ^ 32) from by omega, if_false]
  have hbind : (element ctx a b gx gy (seed + 1)).bind (paramsPoint ctx a b gx gy) ≠ .panic ∧
      ∀ d, (element ctx a b gx gy (seed + 1)).bind (paramsPoint ctx a b gx gy) = .err d → d ∣ ctx.n ∧ d ≠ 1 := by
    cases he : element ctx a b gx gy (seed + 1) with
    | panic => exact absurd he e1
    | err d0 =>
      refine ⟨by simp [Res.bind], fun d h => ?_⟩
      simp only [Res.bind, Res.err.injEq] at h
      subst h; exact e3 _ he
    | ok el =>
      obtain ⟨p1, _, p3⟩ := params_sound ctx hl a b gx gy el
      simp only [Res.bind, paramsPoint]
      cases hp : params ctx a b gx gy el with
      | panic => exact absurd hp p1
      | err d0 =>
        refine ⟨by simp, fun d h => ?_⟩
        simp only [Res.err.injEq] at h
        subst h; exact p3 _ hp
      | ok sr => exact ⟨by simp, fun d h => by simp at h⟩
  obtain ⟨b1, b2⟩ := hbind
  cases hb : (element ctx a b gx gy (seed + 1)).bind (paramsPoint ctx a b gx gy) with
  | panic => exact absurd hb b1
  | ok g => exact ⟨by simp, fun p h => by simp at h⟩
  | err d =>
    obtain ⟨hd, hne⟩ := b2 _ hb
    by_cases hlt : d < ctx.n
    · simp only [hlt, if_true]
      refine ⟨by simp, fun p h => ?_⟩
      simp only [Sel128.factor.injEq] at h
      subst h
      have hp0 : d ≠ 0 := fun h => by subst h; simp at hd; omega
      exact ⟨hd, by omega, hlt⟩
    · simp [hlt]

/-- `impl From<&ecm::Curve> for ecm128::Curve`: panics (`assert!(c.is_twisted128())`) unless the curve is
twisted over a modulus of exactly two words; then the generator is taken over unchanged. -/
theorem curve128_from_spec (c : CurveData R) (words : Nat) :
    (curve128From c words = none ↔ ¬ (c.twisted = true ∧ words = 2)) ∧
    (∀ g, curve128From c words = some g → g = c.g) := by
  unfold curve128From
  by_cases h : c.twisted = true ∧ words = 2
  · simp [h.1, h.2]
  · have : (c.twisted && words == 2) = false := by
      cases ht : c.twisted
      · simp
      · have : ¬ words = 2 := fun hw => h ⟨ht, hw⟩
        simp [this]
    simp [this, h]

/-- `seed as u32 + 1` of `ecm128::ecm` at `seed ≡ 2^32 - 1`: a panic in both profiles (overflow in the checked
profile; in release the sum wraps to 0 and `element(0)` fails `assert!(seed > 1)`). Out of reach of the
callers (`curves ≤ 256`); this is why `select128_sound` assumes `seed + 1 < 2^32`. -/
theorem select128_overflow_panics (a b gx gy : R) (seed : Nat) (h : seed % 2 ^ 32 = 2 ^ 32 - 1) :
    select128 ctx a b gx gy seed = .panic := by
  unfold select128
  rw [if_pos (by rw [h]; norm_num)]

end

/-! ### the same statements for the context the native driver runs

The K comparison of `suyama`, `curve_build`, `from_point`, `ecm_select` runs `finCtx n` (canonical residues
`Fin n`, inverse by extended Euclid; Model/Suyama.lean) through `suyamaNewFin`, `suyamaCurveFin`, `fromPointFin`,
`selectCurveFin`. `finCtx n` is lawful, so the theorems above hold of these very functions. -/
section
open scoped Fin.CommRing
variable (n : Nat) [NeZero n]

/-- the context of the driver (residues in `Fin n`, `inv` by extended Euclid with fuel `n + 1`) is lawful:
`inv` finds the inverse of every unit and fails on every non-unit. -/
theorem driver_ctx_lawful : (finCtx n).Lawful := finCtx_lawful n

theorem driver_ctx_char : (((finCtx n).n : Nat) : Fin n) = 0 := by
  obtain ⟨k, rfl⟩ := Nat.exists_eq_succ_of_ne_zero (NeZero.ne n)
  exact ZMod.natCast_self (k + 1)

/-- `suyama_new_spec` for the driver's `Suyama11::new` -/
theorem suyama_new_fin_spec (chk : Bool) :
    (n % 3 = 0 → suyamaNewFin n chk = .err 3) ∧
    (n % 3 ≠ 0 → ∃ t : Fin n, ((3 : Nat) : Fin n) * t = 1 ∧ suyamaNewFin n chk = .ok (suyamaConsts t) ∧
      suyamaIsValid (suyamaConsts t).1 (suyamaConsts t).2.1 (suyamaConsts t).2.2.1 (suyamaConsts t).2.2.2
        ⟨(suyamaConsts t).2.2.1, (suyamaConsts t).2.2.2, 1⟩) :=
  suyama_new_spec (finCtx n) (finCtx_lawful n) (driver_ctx_char n) chk

/-- `suyama_curve_sound` for the function answering `curve_build .. s` in the driver -/
theorem suyama_curve_fin_sound (a b gx gy : Fin n) (hg : suyamaIsValid a b gx gy ⟨gx, gy, 1⟩)
    (seed : Nat) (h2 : 2 ≤ seed) :
    suyamaCurveFin n a b gx gy seed ≠ .panic ∧
    (∀ c, suyamaCurveFin n a b gx gy seed = .ok c → c.twisted = true ∧ ecmIsValid c.d true c.g) ∧
    (∀ d, suyamaCurveFin n a b gx gy seed = .err d → d ∣ n ∧ d ≠ 1) :=
  suyama_curve_sound (finCtx n) (finCtx_lawful n) a b gx gy hg seed h2

/-- `from_point_sound` for the function answering `from_point` / `curve_build .. e` in the driver -/
theorem from_point_fin_sound (chk : Bool) (x y : Nat) (hx : 0 < x) (hy : 0 < y)
    (hx31 : x < 2 ^ 31) (hy31 : y < 2 ^ 31) :
    fromPointFin n chk x y ≠ .panic ∧
    (∀ c, fromPointFin n chk x y = .ok c → c.twisted = false ∧ c.g = ⟨(x : Fin n), (y : Fin n), 1⟩ ∧
      ecmIsValid c.d false c.g) ∧
    (∀ f, fromPointFin n chk x y = .err f → f ∣ n ∧ f ≠ 1) :=
  from_point_sound (finCtx n) (finCtx_lawful n) chk x y hx hy hx31 hy31

/-- `select_curve_sound` for the function answering `ecm_select` in the driver -/
theorem select_curve_fin_sound (chk : Bool) (a b gx gy : Fin n)
    (hg : suyamaIsValid a b gx gy ⟨gx, gy, 1⟩) (seed : Nat) (h2 : 2 ≤ seed) :
    (selectCurveFin n chk a b gx gy seed ≠ .panic) ∧
    (∀ c, selectCurveFin n chk a b gx gy seed = .curve c → ecmIsValid c.d c.twisted c.g) ∧
    (∀ p, selectCurveFin n chk a b gx gy seed = .factor p → p ∣ n ∧ 1 < p ∧ p < n) :=
  select_curve_sound (finCtx n) (finCtx_lawful n) (Nat.pos_of_ne_zero (NeZero.ne n)) chk a b gx gy hg seed h2

/-- `ecm::ecm(n, curves, ..)` as the driver answers `ecm_select`, for every modulus `n > 0` prime to 3 and
every number of curves below `2^63`: `Suyama11::new(..).unwrap()` succeeds, and for every seed of the
generator `do_curve` does not panic before `ecm_curve`, runs only curves whose generator is on them, and
returns only proper divisors of `n` (both profiles). -/
theorem ecm_select_fin_sound (chk : Bool) (curves : Nat) (h3 : n % 3 ≠ 0) :
    ∃ a b gx gy : Fin n, suyamaNewFin n chk = .ok (a, b, gx, gy) ∧
      ∀ l, ecmSeeds n curves = some l → ∀ s ∈ l,
        (selectCurveFin n chk a b gx gy s ≠ .panic) ∧
        (∀ c, selectCurveFin n chk a b gx gy s = .curve c → ecmIsValid c.d c.twisted c.g) ∧
        (∀ p, selectCurveFin n chk a b gx gy s = .factor p → p ∣ n ∧ 1 < p ∧ p < n) := by
  obtain ⟨t, _, hok, hv⟩ := (suyama_new_fin_spec n chk).2 h3
  refine ⟨_, _, _, _, hok, fun l hl s hs => ?_⟩
  exact select_curve_fin_sound n chk _ _ _ _ hv s ((ecm_seeds_spec n curves l hl).2 s hs).1

/-- `select128_sound` for the function answering `ecm128_select` in the driver -/
theorem select128_fin_sound (a b gx gy : Fin n)
    (hg : suyamaIsValid a b gx gy ⟨gx, gy, 1⟩) (seed : Nat) (h1 : 1 ≤ seed) (hs : seed + 1 < 2 ^ 32) :
    select128Fin n a b gx gy seed ≠ .panic ∧
    (∀ p, select128Fin n a b gx gy seed = .factor p → p ∣ n ∧ 1 < p ∧ p < n) :=
  select128_sound (finCtx n) (finCtx_lawful n) a b gx gy hg seed h1 hs

end

/-! non-vacuity of the remaining hypotheses -/
example : select128 (zmodCtx 35) 0 0 0 0 (2 ^ 32 - 1) = .panic := select128_overflow_panics _ _ _ _ _ _ (by norm_num)
example : (match suyamaNewFin 35 true with | .ok _ => true | _ => false) = true := by decide
example : (match suyamaNewFin 35 false with
    | .ok (a, b, gx, gy) => (match selectCurveFin 35 false a b gx gy 3 with | .factor p => p | _ => 0)
    | _ => 0) = 7 := by decide
example : ∃ l, ecmSeeds (311 * 3259) 3 = some l := ⟨_, rfl⟩
example : suyamaIsValid (-3 : Int) 3 1 1 ⟨1, 1, 1⟩ := by simp [suyamaIsValid, suyamaIsValidSides]
example : ladder (fun x : Int => x + x) (fun x => x + 1) (fun _ _ => none) 5 (Nat.log2 5) 1 = .ok 5 := by decide
example : curve128From (⟨true, 0, ⟨1, 2, 3⟩⟩ : CurveData Int) 2 = some ⟨1, 2, 3⟩ := rfl
example : ((zmodCtx 35).n : ZMod 35) = 0 := by decide

end Ymq.C15
