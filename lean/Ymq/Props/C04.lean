/-
C04 — results do not depend on thread count or thread interleaving.
Only property theorems live here (helper lemmas: Ymq/Lemmas/Sched.lean).

Model (Ymq/Model/Sched.lean): workers own lists of work units; each `add` to the shared store is
atomic (write lock); the completion flag is read Relaxed, i.e. possibly stale. A schedule is an
ARBITRARY list of (worker, stale?, abort answer) choices, so every interleaving and every pattern of missed
flag updates is quantified over. The store (`σ`, `add`), the completion test (`enough`), the
invariant and the notion of a good relation are parameters: the relation store of C11 is one
instance (see `sched_relations_valid` once C11's theorems are imported).

What is NOT provable here and is explored on real runs instead: that the multi-threaded result
is complete whenever the single-threaded one is (which relations a polynomial yields, and hence
when `enough` fires, is number theory), and the absence of deadlocks/data races in `RwLock`/rayon
themselves (trusted runtime).
-/
import Ymq.Lemmas.Sched

namespace Ymq.C04
open Ymq.Sched

variable {ρ σ : Type}

/-- For EVERY schedule (interleaving of the workers' atomic actions) and every pattern of stale
flag reads: the shared store equals the sequential replay of the linearised add history, that
history consists only of relations the workers' work units produce, and any invariant that one
`add` preserves for good relations holds at the end (and, the schedule being arbitrary, after
every prefix). Flags influence only WHICH prefix of each worker's program runs. -/
theorem sched_inv (add : σ → ρ → σ) (enough : σ → Bool) (Inv : σ → Prop) (Good : ρ → Prop)
    (hadd : ∀ s r, Inv s → Good r → Inv (add s r))
    (s0 : σ) (progs : List (List (List ρ))) (h0 : Inv s0)
    (hgood : ∀ prog ∈ progs, ∀ u ∈ prog, ∀ r ∈ u, Good r) (sched : List (Nat × Bool × Bool)) :
    let c := run add enough (init s0 progs) sched
    c.store = c.log.foldl add s0 ∧ Inv c.store ∧ (∀ r ∈ c.log, Good r) ∧
      (∀ r ∈ c.log, ∃ prog ∈ progs, ∃ u ∈ prog, r ∈ u) := by
  have hpend : ∀ r ∈ pend (init s0 progs), ∃ prog ∈ progs, ∃ u ∈ prog, r ∈ u := by
    intro r hr
    unfold pend init at hr
    simp only [List.mem_flatMap, List.mem_map] at hr
    obtain ⟨l, ⟨prog, hprog, rfl⟩, hr⟩ := hr
    rw [pendingAdds_compile, List.mem_flatten] at hr
    obtain ⟨u, hu, hru⟩ := hr
    exact ⟨prog, hprog, u, hu, hru⟩
  have := run_spec add enough Inv Good hadd sched (init s0 progs) s0 rfl h0
    (by intro r hr; simp [init] at hr)
    (by intro r hr; obtain ⟨prog, hp, u, hu, hru⟩ := hpend r hr; exact hgood prog hp u hu r hru)
  obtain ⟨a1, a2, a3, _, a5⟩ := this
  refine ⟨a1, a2, a3, ?_⟩
  intro r hr
  rcases a5 r hr with h | h
  · simp [init] at h
  · exact hpend r h

/-- the completion flag is monotone under every schedule: once some worker has published
completion no later action clears it (so a stale reader can only be late, never wrong) -/
theorem sched_done_monotone (add : σ → ρ → σ) (enough : σ → Bool) (c : Cfg ρ σ)
    (sched : List (Nat × Bool × Bool)) (h : c.done = true) : (run add enough c sched).done = true :=
  run_done_mono add enough sched c h

/-- termination, part 1 (bounded work): along any schedule the workers perform at most
`remaining c` actions in total — the number of actions in their finite work lists
(SIQS `a_ints`, MPQS polynomial blocks, ECM seeds); stale flag reads cannot create work. -/
theorem sched_bounded_work (add : σ → ρ → σ) (enough : σ → Bool) (c : Cfg ρ σ)
    (sched : List (Nat × Bool × Bool)) (h : allEffective add enough c sched) :
    sched.length + remaining (run add enough c sched) ≤ remaining c :=
  effective_steps_bounded add enough sched c h

/-- termination, part 2 (progress): unless all workers have finished some worker can act, and
that action strictly decreases the remaining work whatever it reads — no action waits for
another worker in the modelled protocol. -/
theorem sched_progress (add : σ → ρ → σ) (enough : σ → Bool) (c : Cfg ρ σ)
    (h : finished c = false) :
    ∃ w, ∀ st ab, remaining (step add enough c w st ab) < remaining c := by
  obtain ⟨w, hw⟩ := progress c h
  exact ⟨w, fun st ab => (step_remaining add enough c w st ab).2 hw⟩

/-! ### non-vacuity: two workers, relations = numbers, store = their sum, invariant = evenness -/

example :
    let progs : List (List (List Nat)) := [[[2, 4], [6]], [[8], [10, 12]]]
    let c := run (· + ·) (fun s => decide (s ≥ 14)) (init 0 progs)
      [(0, false, false), (1, false, false), (0, false, false), (1, false, false), (1, false, false),
       (0, false, false), (0, false, false), (1, false, false), (0, false, false), (0, true, false),
       (1, false, false)]
    c.log = [8, 2, 4] ∧ c.store = 14 ∧ c.done = true ∧ finished c = false := by decide

example : ∀ r ∈ ([8, 2, 4] : List Nat), r % 2 = 0 := by decide

end Ymq.C04
