//! Multiword Montgomery ring `ZmodN` and the private 128-bit type `M128` (C07).
//! Request lines: see lean/Ymq/Drv/ZmodN.lean (same ops, same answers).
use crate::util::*;
use yamaquasi::arith_montgomery::verif_hooks as hk;
use yamaquasi::arith_montgomery::{MInt, ZmodN};
use yamaquasi::ecm128::verif_hooks as h128;
use yamaquasi::Uint;

/// integer (< 2^512) -> MInt words; None when it does not fit
fn mint_of(s: &str) -> Option<MInt> {
    let x = uint_of(s)?;
    let d = x.digits();
    if d[8..].iter().any(|&w| w != 0) {
        return None;
    }
    let mut m = MInt::default();
    m.0.copy_from_slice(&d[..8]);
    Some(m)
}

fn show_mint(m: MInt) -> String {
    Uint::from(m).to_string()
}

pub fn handle(op: &str, a: &[&str]) -> Option<String> {
    match (op, a) {
        ("zn_new", [n]) => {
            let zn = ZmodN::new(uint_of(n)?);
            let (k, ninv, r, r2) = hk::zmodn_fields(&zn);
            Some(format!("{} {} {} {}", k, ninv, show_mint(r), show_mint(r2)))
        }
        ("zn_mul", [n, x, y]) => {
            let (n, x, y) = (uint_of(n)?, mint_of(x)?, mint_of(y)?);
            let zn = ZmodN::new(n);
            Some(show_mint(zn.mul(x, y)))
        }
        ("zn_mulmod", [n, x, y]) => {
            let (n, x, y) = (uint_of(n)?, mint_of(x)?, mint_of(y)?);
            let zn = ZmodN::new(n);
            let mut m = MInt::default();
            hk::mint_mulmod(&zn, &mut m.0, &x.0, &y.0, zn.words() as u32);
            Some(show_mint(m))
        }
        ("zn_add", [n, x, y]) => {
            let (n, x, y) = (uint_of(n)?, mint_of(x)?, mint_of(y)?);
            let zn = ZmodN::new(n);
            Some(show_mint(zn.add(x, y)))
        }
        ("zn_sub", [n, x, y]) => {
            let (n, x, y) = (uint_of(n)?, mint_of(x)?, mint_of(y)?);
            let zn = ZmodN::new(n);
            Some(show_mint(zn.sub(x, y)))
        }
        ("zn_redc", [n, x]) => {
            let (n, x) = (uint_of(n)?, uint_of(x)?);
            let zn = ZmodN::new(n);
            Some(show_mint(zn.redc(x.digits())))
        }
        ("zn_redc_large", [n, ws]) => {
            let n = uint_of(n)?;
            let ws: Vec<u64> = list_of(ws)?;
            let zn = ZmodN::new(n);
            Some(show_mint(zn.redc_large(&ws)))
        }
        ("zn_from_int", [n, x]) => {
            let (n, x) = (uint_of(n)?, uint_of(x)?);
            let zn = ZmodN::new(n);
            Some(show_mint(zn.from_int(x)))
        }
        ("zn_to_int", [n, x]) => {
            let (n, x) = (uint_of(n)?, mint_of(x)?);
            let zn = ZmodN::new(n);
            Some(zn.to_int(x).to_string())
        }
        ("zn_from_to", [n, x]) => {
            let (n, x) = (uint_of(n)?, uint_of(x)?);
            let zn = ZmodN::new(n);
            Some(zn.to_int(zn.from_int(x)).to_string())
        }
        ("zn_inv", [n, x]) => {
            let (n, x) = (uint_of(n)?, mint_of(x)?);
            let zn = ZmodN::new(n);
            Some(match zn.inv(x) {
                None => "none".to_string(),
                Some(m) => format!("some {}", show_mint(m)),
            })
        }
        ("zn_gcd", [n, x]) => {
            let (n, x) = (uint_of(n)?, mint_of(x)?);
            let zn = ZmodN::new(n);
            Some(zn.gcd(&x).to_string())
        }
        ("mint_lt", [xs, ns, sz]) => {
            let xs: Vec<u64> = list_of(xs)?;
            let ns: Vec<u64> = list_of(ns)?;
            let sz = u32_of(sz)?;
            // the routine reads x[..sz], n[..sz] unchecked
            if xs.len() < sz as usize || ns.len() < sz as usize {
                return None;
            }
            Some(hk::mint_lt(&xs, &ns, sz).to_string())
        }
        ("mint_add", [xs, ys, sz]) => {
            let mut xs: Vec<u64> = list_of(xs)?;
            let ys: Vec<u64> = list_of(ys)?;
            let sz = u32_of(sz)?;
            if xs.len() < sz as usize || ys.len() < sz as usize {
                return None;
            }
            hk::mint_add(&mut xs, &ys, sz);
            Some(show_list(&xs))
        }
        ("mint_sub", [xs, ys, sz]) => {
            let xs: Vec<u64> = list_of(xs)?;
            let ys: Vec<u64> = list_of(ys)?;
            let sz = u32_of(sz)?;
            if xs.len() != 8 || ys.len() < 8 || sz > 8 {
                return None;
            }
            let mut x: [u64; 8] = xs[..].try_into().ok()?;
            hk::mint_sub(&mut x, &ys, sz);
            Some(show_list(&x))
        }
        // 64-bit `mg_inv` (kept in this file: ops_mg64.rs is shared with C06)
        ("mg_inv", [n, ninv, r2, x]) => Some(show_opt(yamaquasi::arith_montgomery::mg_inv(
            u64_of(n)?,
            u64_of(ninv)?,
            u64_of(r2)?,
            u64_of(x)?,
        ))),
        ("m128_inv_2adic", [n]) => Some(h128::m128_inv_2adic(u128_of(n)?).to_string()),
        ("m128_r_r2", [n, ninv]) => {
            let (r, r2) = h128::m128_r_r2(u128_of(n)?, u128_of(ninv)?);
            Some(format!("{} {}", r, r2))
        }
        ("m128_add", [n, x, y]) => {
            Some(h128::m128_add(u128_of(n)?, u128_of(x)?, u128_of(y)?).to_string())
        }
        ("m128_sub", [n, x, y]) => {
            Some(h128::m128_sub(u128_of(n)?, u128_of(x)?, u128_of(y)?).to_string())
        }
        ("m128_mul", [n, ninv, x, y]) => Some(
            h128::m128_mul(u128_of(n)?, u128_of(ninv)?, u128_of(x)?, u128_of(y)?).to_string(),
        ),
        _ => None,
    }
}
