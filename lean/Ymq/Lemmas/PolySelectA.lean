/-
SIQS (C12): `select_a` — every returned `A` is a product of `nfacs` selected primes with distinct indices
(both branches); on the sampling branch it lies inside one of the tolerance windows.
-/
import Ymq.Lemmas.PolySelect
namespace Ymq.PolySelect
open Ymq.SiqsPoly Ymq.SiqsSelect Ymq.PolySizes Ymq.PolyCrt

/-- `A` is the product of `k` entries of `ps` with distinct indices -/
def IsProd (ps : List Nat) (k A : Nat) : Prop :=
  ∃ idxs : List Nat, idxs.Nodup ∧ idxs.length = k ∧ (∀ i ∈ idxs, i < ps.length) ∧
    A = (idxs.map fun i => ps.getD i 0).prod

theorem combos_mem (ps : List Nat) : ∀ (l : List Nat) (k depth acc off : Nat), l = ps.drop off →
    ∀ x ∈ combos k depth acc l, ∃ idxs : List Nat, idxs.Nodup ∧ idxs.length = k ∧
      (∀ i ∈ idxs, off ≤ i ∧ i < ps.length) ∧ x = acc * (idxs.map fun i => ps.getD i 0).prod := by
  intro l
  induction l with
  | nil =>
    intro k depth acc off _ x hx
    cases k with
    | zero =>
      simp only [combos, List.mem_singleton] at hx
      exact ⟨[], List.nodup_nil, rfl, by simp, by simp [hx]⟩
    | succ k => simp [combos] at hx
  | cons p rest ih =>
    intro k depth acc off hl x hx
    cases k with
    | zero =>
      simp only [combos, List.mem_singleton] at hx
      exact ⟨[], List.nodup_nil, rfl, by simp, by simp [hx]⟩
    | succ k =>
      have hoff : off < ps.length := by
        by_contra hc
        rw [List.drop_eq_nil_of_le (by omega)] at hl; cases hl
      have hp : p = ps.getD off 0 := by
        have : (ps.drop off)[0]? = some p := by rw [← hl]; rfl
        rw [List.getElem?_drop] at this
        simp only [Nat.add_zero] at this
        rw [List.getD_eq_getElem?_getD, this]; rfl
      have hrest : rest = ps.drop (off + 1) := by
        have : (ps.drop off).drop 1 = rest := by rw [← hl]; rfl
        rw [← this, List.drop_drop]
      simp only [combos, List.mem_append] at hx
      rcases hx with hx | hx
      · split at hx
        · simp at hx
        · obtain ⟨idxs, h1, h2, h3, h4⟩ := ih k (depth + 1) (acc * p) (off + 1) hrest x hx
          refine ⟨off :: idxs, ?_, by simp [h2], ?_, ?_⟩
          · refine List.nodup_cons.mpr ⟨?_, h1⟩
            intro hm; have := (h3 off hm).1; omega
          · intro i hi
            rcases List.mem_cons.mp hi with rfl | hi
            · exact ⟨le_refl _, hoff⟩
            · have := h3 i hi; omega
          · rw [h4, hp]; simp only [List.map_cons, List.prod_cons]; ring
      · obtain ⟨idxs, h1, h2, h3, h4⟩ := ih (k + 1) depth acc (off + 1) hrest x hx
        exact ⟨idxs, h1, h2, fun i hi => by have := h3 i hi; omega, h4⟩

theorem dedup_mem : ∀ (n : Nat) (l : List Nat), l.length ≤ n → ∀ x, x ∈ dedup l → x ∈ l := by
  intro n
  induction n with
  | zero =>
    intro l hl x hx
    have : l = [] := List.length_eq_zero_iff.mp (by omega)
    subst this; simp [dedup] at hx
  | succ n ih =>
    intro l hl x hx
    match l, hl, hx with
    | [], _, hx => simp [dedup] at hx
    | [y], _, hx => simpa [dedup] using hx
    | y :: z :: rest, hl, hx =>
      rw [dedup] at hx
      split at hx
      · exact List.mem_cons_of_mem _ (ih (z :: rest) (by simp at hl ⊢; omega) x hx)
      · rcases List.mem_cons.mp hx with rfl | hx
        · exact List.mem_cons_self
        · exact List.mem_cons_of_mem _ (ih (z :: rest) (by simp at hl ⊢; omega) x hx)

theorem mergeF_mem (le : Nat → Nat → Bool) : ∀ (f : Nat) (a b : List Nat) (x : Nat),
    x ∈ mergeF le f a b → x ∈ a ∨ x ∈ b := by
  intro f
  induction f with
  | zero => intro a b x hx; simpa [mergeF] using hx
  | succ f ih =>
    intro a b x hx
    match a, b, hx with
    | [], b, hx => right; simpa [mergeF] using hx
    | a :: as, [], hx => left; simpa [mergeF] using hx
    | a :: as, b :: bs, hx =>
      rw [mergeF] at hx
      split at hx
      · rcases List.mem_cons.mp hx with rfl | hx
        · left; exact List.mem_cons_self
        · rcases ih _ _ _ hx with h | h
          · left; exact List.mem_cons_of_mem _ h
          · right; exact h
      · rcases List.mem_cons.mp hx with rfl | hx
        · right; exact List.mem_cons_self
        · rcases ih _ _ _ hx with h | h
          · left; exact h
          · right; exact List.mem_cons_of_mem _ h

theorem sortF_mem (le : Nat → Nat → Bool) : ∀ (f : Nat) (l : List Nat) (x : Nat), x ∈ sortF le f l → x ∈ l := by
  intro f
  induction f with
  | zero => intro l x hx; simpa [sortF] using hx
  | succ f ih =>
    intro l x hx
    rw [sortF] at hx
    split at hx
    · exact hx
    · rcases mergeF_mem _ _ _ _ _ hx with h | h
      · exact List.mem_of_mem_take (ih _ _ h)
      · exact List.mem_of_mem_drop (ih _ _ h)

theorem closest_mem (tgt want : Nat) (c : List Nat) (x : Nat) (h : x ∈ closest tgt want c) : x ∈ c := by
  unfold closest stableSort at h
  have h1 := sortF_mem _ _ _ _ h
  have h2 := List.mem_of_mem_take h1
  have h3 := dedup_mem _ _ (le_refl _) _ h2
  exact sortF_mem _ _ _ _ h3

/-- the exhaustive branch returns products of `nfacs` distinct selected primes -/
theorem selectSmall_sound {tgt nfacs want : Nat} {ps as : List Nat} (h : selectSmall tgt nfacs want ps = some as) :
    ∀ A ∈ as, IsProd ps nfacs A := by
  unfold selectSmall at h
  split at h
  · cases h
  · rename_i ps p0 tl
    split at h
    · cases h
    · split at h
      · cases h
      · split at h
        · injection h with h; subst h; intro A hA; cases hA
        · injection h with h; subst h
          intro A hA
          have := closest_mem _ _ _ _ hA
          obtain ⟨idxs, h1, h2, h3, h4⟩ := combos_mem (p0 :: tl) (p0 :: tl) nfacs 0 1 0 (by simp) A this
          exact ⟨idxs, h1, h2, fun i hi => (h3 i hi).2, by rw [h4, Nat.one_mul]⟩

/-! ### the sampling loop -/

/-- invariant of the inner draw loop: the marked indices are distinct and in range, `prod` is their product -/
def MaskOk (ps : List Nat) (mask : List Nat) (prod : Nat) : Prop :=
  mask.Nodup ∧ (∀ i ∈ mask, i < ps.length) ∧ prod = (mask.map fun i => ps.getD i 0).prod

theorem drawLoop_ok (ps : List Nat) : ∀ (fuel need rng : Nat) (mask : List Nat) (prod : Nat)
    (r : Nat × List Nat × Nat), MaskOk ps mask prod → drawLoop ps fuel need rng mask prod = some r →
    MaskOk ps r.2.1 r.2.2 ∧ r.2.1.length = mask.length + need := by
  intro fuel
  induction fuel with
  | zero => intro need rng mask prod r _ h; simp [drawLoop] at h
  | succ fuel ih =>
    intro need rng mask prod r hok h
    rw [drawLoop] at h
    split at h
    · rename_i h0
      injection h with h; subst h
      exact ⟨hok, by simp [h0]⟩
    · rename_i h0
      dsimp only at h
      split at h
      · cases h
      · rename_i hlen
        split at h
        · cases h
        · split at h
          · exact ih need _ mask prod r hok h
          · rename_i hnc
            split at h
            · cases h
            · have hg : xorshift rng % ps.length < ps.length := Nat.mod_lt _ (Nat.pos_of_ne_zero hlen)
              obtain ⟨h1, h2, h3⟩ := hok
              have hok' : MaskOk ps (xorshift rng % ps.length :: mask)
                  (prod * ps.getD (xorshift rng % ps.length) 0) := by
                refine ⟨List.nodup_cons.mpr ⟨by simpa using hnc, h1⟩, ?_, ?_⟩
                · intro i hi
                  rcases List.mem_cons.mp hi with rfl | hi
                  · exact hg
                  · exact h2 i hi
                · simp only [List.map_cons, List.prod_cons]; rw [h3]; ring
              obtain ⟨a1, a2⟩ := ih (need - 1) _ _ _ r hok' h
              refine ⟨a1, ?_⟩
              rw [a2]; simp only [List.length_cons]; omega

theorem insertSorted_mem (x : Nat) : ∀ (l : List Nat) (y : Nat), y ∈ insertSorted x l → y = x ∨ y ∈ l := by
  intro l
  induction l with
  | nil => intro y hy; simp [insertSorted] at hy; exact Or.inl hy
  | cons z zs ih =>
    intro y hy
    rw [insertSorted] at hy
    split at hy
    · rcases List.mem_cons.mp hy with rfl | hy
      · exact Or.inl rfl
      · exact Or.inr hy
    · split at hy
      · exact Or.inr hy
      · rcases List.mem_cons.mp hy with rfl | hy
        · exact Or.inr List.mem_cons_self
        · rcases ih y hy with h | h
          · exact Or.inl h
          · exact Or.inr (List.mem_cons_of_mem _ h)

/-- what is known about every candidate: a product of `k` distinct selected primes inside one of the windows -/
def CandOk (ps : List Nat) (k tgt div0 : Nat) (A : Nat) : Prop :=
  IsProd ps k A ∧ ∃ d, d ≤ div0 ∧ (tolWindow tgt d).1 < A ∧ A < (tolWindow tgt d).2

theorem tryJ_ok (ps : List Nat) (k tgt div0 d : Nat) (mask : List Nat) (prod : Nat) (hd : d ≤ div0)
    (hm : MaskOk ps mask prod) (hk : mask.length + 1 = k) :
    ∀ (js cands r : List Nat), (∀ j ∈ js, j < ps.length) → (∀ A ∈ cands, CandOk ps k tgt div0 A) →
      tryJ ps mask prod (tolWindow tgt d).1 (tolWindow tgt d).2 js cands = some r →
      ∀ A ∈ r, CandOk ps k tgt div0 A := by
  intro js
  induction js with
  | nil => intro cands r _ hc h; simp [tryJ] at h; subst h; exact hc
  | cons j js ih =>
    intro cands r hjs hc h
    rw [tryJ] at h
    have hjs' : ∀ j ∈ js, j < ps.length := fun x hx => hjs x (List.mem_cons_of_mem _ hx)
    split at h
    · exact ih cands r hjs' hc h
    · rename_i hnc
      dsimp only at h
      split at h
      · cases h
      · refine ih _ r hjs' ?_ h
        intro A hA
        split at hA
        · rename_i hwin
          rcases insertSorted_mem _ _ _ hA with rfl | hA
          · obtain ⟨h1, h2, h3⟩ := hm
            refine ⟨⟨j :: mask, List.nodup_cons.mpr ⟨by simpa using hnc, h1⟩, by simp [hk], ?_, ?_⟩,
              d, hd, hwin.1, hwin.2⟩
            · intro i hi
              rcases List.mem_cons.mp hi with rfl | hi
              · exact hjs _ List.mem_cons_self
              · exact h2 i hi
            · simp only [List.map_cons, List.prod_cons]; rw [h3]; ring
          · exact hc A hA
        · exact hc A hA

theorem sampleLoop_ok (tgt nfacs want div0 : Nat) (ps : List Nat) (hnf : 0 < nfacs) :
    ∀ (fuel iters rng div : Nat) (cands as : List Nat), div ≤ div0 →
      (∀ A ∈ cands, CandOk ps nfacs tgt div0 A) →
      sampleLoop tgt nfacs want ps fuel iters rng div cands = some as →
      ∀ A ∈ as, CandOk ps nfacs tgt div0 A := by
  intro fuel
  induction fuel with
  | zero => intro iters rng div cands as _ _ h; simp [sampleLoop] at h
  | succ fuel ih =>
    intro iters rng div cands as hdiv hc h
    rw [sampleLoop] at h
    split at h
    · injection h with h; subst h
      intro A hA; exact hc A (closest_mem _ _ _ _ hA)
    · dsimp only at h
      split at h
      · cases h
      · generalize hd' : (if (iters + 1) % (Ymq.Gen.SiqsSel.widenEvery * want) = 0 ∧ cands.length < want
            then max div 1 - 1 else div) = div' at h
        have hdiv' : div' ≤ div0 := by rw [← hd']; split <;> omega
        split at h
        · cases h
        · split at h
          · cases h
          · rename_i rng' mask prod hdraw
            split at h
            · cases h
            · split at h
              · cases h
              · split at h
                · cases h
                · rename_i idx hidx
                  split at h
                  · cases h
                  · rename_i cands' htry
                    obtain ⟨hm, hml⟩ := drawLoop_ok ps _ _ _ _ _ _ ⟨List.nodup_nil, by simp, by simp⟩ hdraw
                    simp only [List.length_nil, Nat.zero_add] at hml
                    have hc' : ∀ A ∈ cands', CandOk ps nfacs tgt div0 A := by
                      refine tryJ_ok ps nfacs tgt div0 div' mask prod hdiv' hm (by omega)
                        _ cands cands' ?_ hc htry
                      intro j hj
                      split at hj
                      · have := List.mem_of_mem_drop hj
                        have := List.mem_range.mp this
                        omega
                      · exact List.mem_range.mp hj
                    split at h
                    · injection h with h; subst h
                      intro A hA; exact hc' A (closest_mem _ _ _ _ hA)
                    · exact ih _ _ _ _ as hdiv' hc' h

end Ymq.PolySelect
